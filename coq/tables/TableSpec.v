(* TableSpec.v -- closed mathematical forms of the constant tables of decmathlib-rs (DESIGN 4.4).

   Definitions only.  For every table NAME of the crate, [spec_NAME : Z -> list Z] maps a row index (from 0) to
   the row the table must hold; the row layout is the one of the dump printed by `verif-harness tables`
   (multi-word integers as ONE integer, a two-dimensional table [[..; m]; n] as n rows of m values, the
   three-dimensional BID_CONVERT_TABLE[5][128][2] as 640 rows (row = 128*i + j) of 2 values, strings as bytes).
   TableProofs.v proves [T_NAME = map spec_NAME (rows n)] by computation against Tables_gen.v, which is
   regenerated from the compiled crate on every run.

   Nothing in this file is copied from a table.  Where one row deviates from the natural formula the
   deviation is written out and explained next to the definition (BID_MASK256 row 57, BID_RECIP_SCALE row 35,
   BID_SHORT_RECIP_SCALE row 2); where a table is only partly meaningful the theorem in TableProofs.v is
   restricted and says so (BID_POWER10_INDEX_BINEXP_128 rows 118..124, row 0 of the two reciprocal tables).

   Compiled as DVT.TableSpec:  coqc -Q <coq>/theories DV -Q <scratch> DVT TableSpec.v   (see tables.py). *)
From Coq Require Import ZArith Bool List.
From DV Require Import OpsConv.            (* declet_enc, declet_dec: the declet maps the C19 theorems talk about *)
Import ListNotations.
Open Scope Z_scope.

(* ------------------------------------------------------------------------------------------------------ *)
(* Row ranges                                                                                               *)
(* ------------------------------------------------------------------------------------------------------ *)
Definition rows_from (a n : nat) : list Z := map Z.of_nat (seq a n).     (* a, a+1, ..., a+n-1 *)
Definition rows (n : nat) : list Z := rows_from 0 n.                     (* 0, 1, ..., n-1 *)
Definition slice {A : Type} (a n : nat) (l : list A) : list A := firstn n (skipn a l).   (* rows a..a+n-1 of l *)

(* ------------------------------------------------------------------------------------------------------ *)
(* Arithmetic vocabulary                                                                                    *)
(* ------------------------------------------------------------------------------------------------------ *)
Definition cdiv (a b : Z) : Z := - ((- a) / b).            (* ceiling of a/b for b > 0;  a / b is the floor *)
Definition lg10 (k : Z) : Z := Z.log2 (10 ^ k).            (* floor(log2 10^k) = (bit length of 10^k) - 1 *)

(* number of decimal digits of n (n >= 1; 1 for n = 0); fuel 50 is enough for n < 10^50 *)
Fixpoint ndigits_aux (fuel : nat) (n : Z) : Z :=
  match fuel with O => 0 | S f => if n <? 10 then 1 else 1 + ndigits_aux f (n / 10) end.
Definition ndigits (n : Z) : Z := ndigits_aux 50 n.

(* p-adic valuation of n >= 1 (p = 2, 5), and number of trailing decimal zeros *)
Fixpoint val_aux (fuel : nat) (p n : Z) : Z :=
  match fuel with O => 0 | S f => if (n mod p =? 0) && (0 <? n) then 1 + val_aux f p (n / p) else 0 end.
Definition val (p n : Z) : Z := val_aux 20 p n.
Definition tz10 (n : Z) : Z := val 10 n.

(* the ASCII code of decimal digit number i (0 = most significant) of n written with w digits *)
Definition ascii_digit (w i n : Z) : Z := 48 + (n / 10 ^ (w - 1 - i)) mod 10.

Definition list_eqb (a b : list Z) : bool :=
  (Nat.eqb (length a) (length b)) && forallb (fun p => fst p =? snd p) (combine a b).

(* diagnosis (used by tables.py after a theorem failed): the rows among a..a+n-1 that differ from the spec,
   as (row, row of the table ([] = no such row), row required by the spec) *)
Definition diff_rows (a n : nat) (T : list (list Z)) (spec : Z -> list Z) : list (Z * list Z * list Z) :=
  flat_map (fun i => let got := nth (Z.to_nat i) T [] in let want := spec i in
                     if list_eqb got want then [] else [(i, got, want)]) (rows_from a n).
Definition bad_rows (a n : nat) (P : Z -> bool) : list Z := filter (fun i => negb (P i)) (rows_from a n).

(* ====================================================================================================== *)
(* src/bid128.rs                                                                                            *)
(* ====================================================================================================== *)

(* BID_NR_DIGITS[n-1] (n = 1..113 = bit length of a coefficient): {digits, threshold, digits1}.  If every n-bit
   integer has the same number d of decimal digits: digits = d; otherwise digits = 0 and the count is digits1
   (+1 when the value is >= threshold).  threshold = 10^digits1, digits1 = digits of 2^(n-1) in both cases.
   Used by add, fma, frexp, nearbyint/round_integral, next*, to_int*, noncomp to count coefficient digits. *)
Definition spec_BID_NR_DIGITS (i : Z) : list Z :=
  let n := i + 1 in
  let lo := ndigits (2 ^ (n - 1)) in let hi := ndigits (2 ^ n - 1) in
  [ (if lo =? hi then lo else 0); 10 ^ lo; lo ].

(* BID_MIDPOINT64[i] = 5*10^i (i = 0..18), BID_MIDPOINT128[i] = 5*10^(i+19), BID_MIDPOINT192[i] = 5*10^(i+38),
   BID_MIDPOINT256[i] = 5*10^(i+58): half a unit of the digit position rounded away.  bid_round.rs
   (bid_round64_2_18 ... bid_round256_58_76), add, fma, nearbyint, round_integral, to_int*. *)
Definition spec_BID_MIDPOINT64 (i : Z) : list Z := [5 * 10 ^ i].
Definition spec_BID_MIDPOINT128 (i : Z) : list Z := [5 * 10 ^ (i + 19)].
Definition spec_BID_MIDPOINT192 (i : Z) : list Z := [5 * 10 ^ (i + 38)].
Definition spec_BID_MIDPOINT256 (i : Z) : list Z := [5 * 10 ^ (i + 58)].

(* BID_TEN2K64[i] = 10^i (i = 0..19), BID_TEN2K128[i] = 10^(i+20) (i = 0..18), BID_TEN2K256[i] = 10^(i+39)
   (i = 0..38): powers of ten for scaling coefficients.  add, fma, compare, minmax, next*, to_int*, bid_round. *)
Definition spec_BID_TEN2K64 (i : Z) : list Z := [10 ^ i].
Definition spec_BID_TEN2K128 (i : Z) : list Z := [10 ^ (i + 20)].
Definition spec_BID_TEN2K256 (i : Z) : list Z := [10 ^ (i + 39)].

(* Division of a (<= 34-digit) coefficient by 10^k, k = i+1 = 1..34, as multiplication by a 128-bit reciprocal:
   sigma_k = BID_SHIFTRIGHT128[k-1] = max 0 (bitlength(10^k) - 11),
   BID_TEN2MK128[k-1]      = ceil (2^(128+sigma_k) / 10^k)      (reciprocal rounded up),
   BID_TEN2MK128TRUNC[k-1] = floor(2^(128+sigma_k) / 10^k)      (reciprocal truncated: exactness test),
   BID_MASKHIGH128[k-1]    = 2^(sigma_k mod 64) - 1             (fraction bits inside the top word),
   BID_ONEHALF128[k-1]     = 2^((sigma_k-1) mod 64), 0 when sigma_k = 0   (the 1/2 bit of that fraction).
   add (bid128_add), nearbyint, round_integral_*, to_int32/64, to_uint32/64. *)
Definition sigma128 (k : Z) : Z := Z.max 0 (lg10 k - 10).
Definition spec_BID_SHIFTRIGHT128 (i : Z) : list Z := [sigma128 (i + 1)].
Definition spec_BID_TEN2MK128 (i : Z) : list Z := let k := i + 1 in [cdiv (2 ^ (128 + sigma128 k)) (10 ^ k)].
Definition spec_BID_TEN2MK128TRUNC (i : Z) : list Z := let k := i + 1 in [2 ^ (128 + sigma128 k) / 10 ^ k].
Definition spec_BID_MASKHIGH128 (i : Z) : list Z := [2 ^ (sigma128 (i + 1) mod 64) - 1].
Definition spec_BID_ONEHALF128 (i : Z) : list Z :=
  let s := sigma128 (i + 1) in [if s =? 0 then 0 else 2 ^ ((s - 1) mod 64)].

(* BID_CHAR_TABLE2[2(n-10) + d] = ASCII digit d of n (n = 10..99); BID_CHAR_TABLE3[3n + d] = ASCII digit d of
   n written with three digits (n = 0..999).  bid128_string.rs (exponent digits of to-string). *)
Definition spec_BID_CHAR_TABLE2 (i : Z) : list Z := [ascii_digit 2 (i mod 2) (i / 2 + 10)].
Definition spec_BID_CHAR_TABLE3 (i : Z) : list Z := [ascii_digit 3 (i mod 3) (i / 3)].

(* Rounding a W-bit (W = 64, 128, 192, 256) integer C to q - x digits, x = i+1, bid_round.rs
   (bid_round64_2_18, bid_round128_19_38, bid_round192_39_57, bid_round256_58_76; callers: fma, add, mul):
   C* = floor((C + 5*10^(x-1)) * Kx / 2^s_x)   with  s_x = W + floor(log2 10^x)  (so that Kx has exactly W bits)
   BID_KX<W>[x-1]          = ceil (2^s_x / 10^x)
   BID_TEN2MXTRUNC<W>[x-1] = floor(2^s_x / 10^x)                (exactness / midpoint tests)
   BID_EX<W>M<W>[x-1]      = (s_x - W) mod 64 = floor(log2 10^x) mod 64   (shift inside the word; the
                             floor(log2 10^x) / 64 whole words are skipped by the code's case split)
   BID_HALF<W>[x-1]        = 2^((E-1) mod 64),  BID_MASK<W>[x-1] = 2^E - 1   (E = BID_EX..[x-1]). *)
Definition kx_shift (W x : Z) : Z := W + lg10 x.
Definition kx_E (x : Z) : Z := lg10 x mod 64.
Definition spec_KX (W i : Z) : list Z := let x := i + 1 in [cdiv (2 ^ kx_shift W x) (10 ^ x)].
Definition spec_TRUNC (W i : Z) : list Z := let x := i + 1 in [2 ^ kx_shift W x / 10 ^ x].
Definition spec_EX (i : Z) : list Z := [kx_E (i + 1)].
Definition spec_HALF (i : Z) : list Z := [2 ^ ((kx_E (i + 1) - 1) mod 64)].
Definition spec_MASK (i : Z) : list Z := [2 ^ kx_E (i + 1) - 1].

Definition spec_BID_KX64 := spec_KX 64.             (* x = 1..17 *)
Definition spec_BID_EX64M64 := spec_EX.
Definition spec_BID_HALF64 := spec_HALF.
Definition spec_BID_MASK64 := spec_MASK.
Definition spec_BID_TEN2MXTRUNC64 := spec_TRUNC 64.
Definition spec_BID_KX128 := spec_KX 128.           (* x = 1..37 *)
Definition spec_BID_EX128M128 := spec_EX.
Definition spec_BID_HALF128 := spec_HALF.
Definition spec_BID_MASK128 := spec_MASK.
Definition spec_BID_TEN2MXTRUNC128 := spec_TRUNC 128.
Definition spec_BID_KX192 := spec_KX 192.           (* x = 1..56 *)
Definition spec_BID_EX192M192 := spec_EX.
Definition spec_BID_HALF192 := spec_HALF.
Definition spec_BID_MASK192 := spec_MASK.
Definition spec_BID_TEN2MXTRUNC192 := spec_TRUNC 192.
Definition spec_BID_KX256 := spec_KX 256.           (* x = 1..75 *)
Definition spec_BID_EX256M256 := spec_EX.
Definition spec_BID_HALF256 := spec_HALF.
Definition spec_BID_TEN2MXTRUNC256 := spec_TRUNC 256.
(* BID_MASK256: as BID_MASK64/128/192 except row 57 (x = 58), the only row of any width with E = 0: the table
   holds 2^64 - 1 there, the formula gives 0.  bid_round256_58_76 treats ind = 57 in a separate branch that
   never reads BID_MASK256 (the fraction is whole words), so the entry is unreachable; the value the table
   actually has is stated so that the theorem covers all 75 rows. *)
Definition spec_BID_MASK256 (i : Z) : list Z :=
  let E := kx_E (i + 1) in [if E =? 0 then 2 ^ 64 - 1 else 2 ^ E - 1].

(* ====================================================================================================== *)
(* src/bid128_2_str_tables.rs   (to-string: bid128_string.rs, bid128_2_str_macros.rs)                        *)
(* ====================================================================================================== *)

(* BID_MIDI_TBL[n] = the three ASCII digits of n (n = 0..999), printed by the __L0/__L1 print macros. *)
Definition spec_BID_MIDI_TBL (n : Z) : list Z := [ascii_digit 3 0 n; ascii_digit 3 1 n; ascii_digit 3 2 n].

(* MOD10_18_TBL[k][2j], [2j+1] = quotient and remainder of j * 2^(59+6k) by 10^18  (k = 0..8, j = 0..63): the
   contribution of the 6-bit slice j at bit 59+6k of the coefficient to its (high, low) 18-digit halves. *)
Definition spec_MOD10_18_TBL (k : Z) : list Z :=
  flat_map (fun j => let v := j * 2 ^ (59 + 6 * k) in [v / 10 ^ 18; v mod 10 ^ 18]) (rows 64).

(* the scalar constants of the same file (one-row tables) *)
Definition spec_BID_TWOTO60_M_10TO18 (_ : Z) : list Z := [2 ^ 60 - 10 ^ 18].
Definition spec_BID_TWOTO60 (_ : Z) : list Z := [2 ^ 60].
Definition spec_BID_INV_TENTO9 (_ : Z) : list Z := [2 ^ 61 / 10 ^ 9].
Definition spec_BID_TWOTO30_M_10TO9 (_ : Z) : list Z := [2 ^ 30 - 10 ^ 9].
Definition spec_BID_TENTO9 (_ : Z) : list Z := [10 ^ 9].
Definition spec_BID_TENTO6 (_ : Z) : list Z := [10 ^ 6].
Definition spec_BID_TENTO3 (_ : Z) : list Z := [10 ^ 3].

(* ====================================================================================================== *)
(* src/bid_b2d.rs   (bid_dpd.rs: bid_to_dpd128, bid_dpd_to_bid128)                                          *)
(* ====================================================================================================== *)

(* BID_B2D[n] = the 10-bit declet of the three digits n (n = 0..999), IEEE 754-2008 table 3.4;
   BID_D2B[d] = the three-digit value of declet d (all 1024 patterns, incl. the 24 non-canonical), table 3.3.
   The maps are DV.OpsConv.declet_enc / declet_dec, i.e. the ones the DPD theorems (C19) are stated with. *)
Definition spec_BID_B2D (n : Z) : list Z := [declet_enc n].
Definition spec_BID_D2B (d : Z) : list Z := [declet_dec d].

(* ====================================================================================================== *)
(* src/bid_convert_data.rs   (bid128_div.rs: removal of trailing zeros from an exact quotient)               *)
(* ====================================================================================================== *)

(* BID_CONVERT_TABLE[j][k] (row 128*j + k; j = 0..4, k = 0..127) = the two low base-10^8 digits of
   k * 2^(26+7j): converts the 7-bit slices of a binary quotient above bit 26 into base 10^8. *)
Definition spec_BID_CONVERT_TABLE (r : Z) : list Z :=
  let j := r / 128 in let k := r mod 128 in let v := k * 2 ^ (26 + 7 * j) in
  [v mod 10 ^ 8; (v / 10 ^ 8) mod 10 ^ 8].

(* BID_PACKED_10000_ZEROS[b] (b = 0..1249): for the even numbers m = 8b, 8b+2, 8b+4, 8b+6 two bits each, at bit
   m mod 8, holding the number of trailing decimal zeros of m (m < 10000, so at most 3; 3 for m = 0). *)
Definition packed_zeros (m : Z) : Z := if m =? 0 then 3 else tz10 m.
Definition spec_BID_PACKED_10000_ZEROS (b : Z) : list Z :=
  [ packed_zeros (8 * b) + 4 * packed_zeros (8 * b + 2) + 16 * packed_zeros (8 * b + 4) + 64 * packed_zeros (8 * b + 6) ].

(* BID_FACTORS[n] = (exponent of 2, exponent of 5) in n + 1 (n = 0..1023): trailing-zero estimate of x/y. *)
Definition spec_BID_FACTORS (n : Z) : list Z := [val 2 (n + 1); val 5 (n + 1)].

(* ====================================================================================================== *)
(* src/bid_decimal_data.rs                                                                                  *)
(* ====================================================================================================== *)

(* BID_ROUND_CONST_TABLE_128[mode][k] (5 rows of 36; mode = 0 NearestEven, 1 Downward, 2 Upward, 3 TowardZero,
   4 NearestAway, the sign already folded in by the caller): the constant added before truncating k digits:
   1/2 unit for the two nearest modes, 1 unit - 1 for Upward, 0 otherwise.
   bid_internal.rs (bid_get_BID128 underflow path, handle_UF_128, handle_UF_128_rem), quantize. *)
Definition spec_BID_ROUND_CONST_TABLE_128 (m : Z) : list Z :=
  map (fun k => if (m =? 0) || (m =? 4) then (if k =? 0 then 0 else 5 * 10 ^ (k - 1))
                else if m =? 2 then 10 ^ k - 1 else 0) (rows 36).

(* BID_RECIP_SCALE[k] (k = 0..35) = s_k, BID_RECIPROCALS10_128[k] = ceil(2^(128+s_k) / 10^k) (k >= 1; row 0 is 0
   and never read): floor(C / 10^k) = floor(C * R_k / 2^(128+s_k)).  s_k = max 1 (bitlength(10^k) - 11), EXCEPT
   row 35, which holds 109 -- the formula's value for k = 36 (the formula gives 106 for k = 35).  Any s with
   R_k < 2^128 that satisfies the sufficiency inequality proved in TableProofs.v (recip128_sufficient) is
   equally correct, and 109 does; so this is a peculiarity of Intel's table, not a defect.  Row 35 is
   reachable (handle_UF_128_rem, ed2 = 35).  bid_internal.rs, quantize, div. *)
Definition recip_scale (k : Z) : Z := if k =? 35 then 109 else Z.max 1 (lg10 k - 10).
Definition spec_BID_RECIP_SCALE (k : Z) : list Z := [recip_scale k].
Definition spec_BID_RECIPROCALS10_128 (k : Z) : list Z := [cdiv (2 ^ (128 + recip_scale k)) (10 ^ k)].
(* sufficiency: with e = R*10^k - 2^S (0 <= e) and e * B < 2^S, floor(C*R / 2^S) = floor(C / 10^k) for every
   0 <= C <= B (lemma recip_exact in TableProofs.v).  B = 10^35 + 10^k bounds every C the callers form
   (coefficient < 10^34, times 10 in handle_UF_128_rem, plus a rounding constant < 10^k). *)
Definition recip128_ok (k : Z) : bool :=
  let S := 128 + recip_scale k in let R := cdiv (2 ^ S) (10 ^ k) in let e := R * 10 ^ k - 2 ^ S in
  (R <? 2 ^ 128) && (0 <=? e) && (e * (10 ^ 35 + 10 ^ k) <? 2 ^ S).

(* BID_SHORT_RECIP_SCALE[k] (k = 0..17) = s_k, BID_RECIPROCALS10_64[k] = ceil(2^(64+s_k) / 10^k) (k >= 1; row 0 is
   1 and never read: the code tests nzeros != 0): exact division of a 64-bit quotient by 10^k when removing
   trailing zeros in bid128_div.  s_k = max 1 (bitlength(10^k) - 3), EXCEPT row 2, which holds 5 where the
   formula gives 4 (Intel's table; both satisfy recip64_ok below). *)
Definition short_recip_scale (k : Z) : Z := if k =? 2 then 5 else Z.max 1 (lg10 k - 2).
Definition spec_BID_SHORT_RECIP_SCALE (k : Z) : list Z := [short_recip_scale k].
Definition spec_BID_RECIPROCALS10_64 (k : Z) : list Z := [cdiv (2 ^ (64 + short_recip_scale k)) (10 ^ k)].
(* sufficiency for EXACT quotients: C = q*10^k < 2^64 gives floor(C*R / 2^S) = q when e * 2^64 < 10^k * 2^S *)
Definition recip64_ok (k : Z) : bool :=
  let S := 64 + short_recip_scale k in let R := cdiv (2 ^ S) (10 ^ k) in let e := R * 10 ^ k - 2 ^ S in
  (R <? 2 ^ 64) && (0 <=? e) && (e * 2 ^ 64 <? 10 ^ k * 2 ^ S).

(* BID_POWER10_TABLE_128[i] = 10^i (i = 0..38).  div, rem, fmod, sqrt, quantize, inline add, bid_internal. *)
Definition spec_BID_POWER10_TABLE_128 (i : Z) : list Z := [10 ^ i].

(* BID_ESTIMATE_DECIMAL_DIGITS[n] = number of decimal digits of 2^n (n = 0..128): digit-count estimate from the
   binary exponent of a coefficient; BID_POWER10_INDEX_BINEXP_128[n] = 10^(that number): the coefficient has one
   digit more iff it is >= this.  div, rem, fmod, sqrt, ilogb, quantize, inline add.
   (The second table follows the formula only for n = 0..117, see TableProofs.v.) *)
Definition spec_BID_ESTIMATE_DECIMAL_DIGITS (n : Z) : list Z := [ndigits (2 ^ n)].
Definition spec_BID_POWER10_INDEX_BINEXP_128 (n : Z) : list Z := [10 ^ ndigits (2 ^ n)].

(* ====================================================================================================== *)
(* src/bid_binarydecimal.rs   (binary32/64 -> decimal128: binary32_to_bid128, binary64_to_bid128)            *)
(* ====================================================================================================== *)

(* BID_ROUNDBOUND_128[4*mode + 2*sign + parity]: the 128-bit fraction f (units of 2^-128) above which the
   truncated coefficient is incremented (increment iff fraction > bound):
   nearest-even: 1/2 if the coefficient is even, 1/2 - ulp if odd; nearest-away: 1/2 - ulp;
   toward zero: never (all ones); downward: never for +, always (0) for -; upward: the converse. *)
Definition spec_BID_ROUNDBOUND_128 (i : Z) : list Z :=
  let m := i / 4 in let s := (i / 2) mod 2 in let p := i mod 2 in
  let never := 2 ^ 128 - 1 in let always := 0 in
  [ if m =? 0 then (if p =? 0 then 2 ^ 127 else 2 ^ 127 - 1)
    else if m =? 1 then (if s =? 0 then never else always)
    else if m =? 2 then (if s =? 0 then always else never)
    else if m =? 3 then never
    else 2 ^ 127 - 1 ].

(* BID_POWER_FIVE[k] = 5^k, BID_COEFFLIMITS_BID128[k] = floor(10^34 / 5^k) (k = 0..48): exact-case test
   (c * 5^k still fits 34 digits). *)
Definition spec_BID_POWER_FIVE (k : Z) : list Z := [5 ^ k].
Definition spec_BID_COEFFLIMITS_BID128 (k : Z) : list Z := [10 ^ 34 / 5 ^ k].

(* 256-bit normalised powers of ten, rounded UP.  For a decimal exponent p,
     pow10_exp p = floor(log2 10^p) - 255   and   pow10_sig p = ceil(10^p / 2^(pow10_exp p)),
   so that 2^255 <= sig < 2^256 and (sig - 1) * 2^exp < 10^p <= sig * 2^exp (exact for 0 <= p <= 110).
   BID_INNERTABLE_SIG/EXP[j] : p = j - 64 (j = 0..127): stated with these two functions.
   BID_OUTERTABLE_SIG/EXP[i] : p = 128*(i - 39) (i = 0..79, |p| up to 5120): stated with the relation [pow10_up]
   below on the pair (SIG[i], EXP[i]) -- the same fact, but checkable with one multiplication per row instead
   of a 17000-bit division (numerically the two functions also reproduce these rows; tables.py evaluates them
   for the rows it reports after a failure). *)
Definition pow10_exp (p : Z) : Z := if 0 <=? p then lg10 p - 255 else - lg10 (- p) - 256.
Definition pow10_sig (p : Z) : Z :=
  let e := pow10_exp p in
  if 0 <=? p then (if 0 <=? e then cdiv (10 ^ p) (2 ^ e) else 10 ^ p * 2 ^ (- e))
  else cdiv (2 ^ (- e)) (10 ^ (- p)).
Definition spec_BID_INNERTABLE_SIG (j : Z) : list Z := [pow10_sig (j - 64)].
Definition spec_BID_INNERTABLE_EXP (j : Z) : list Z := [pow10_exp (j - 64)].

(* [pow10_up P neg s e = true]: with 10^p = P (neg = false) or 10^p = 1/P (neg = true), s has exactly 256 bits
   and s * 2^e is 10^p rounded up to that precision:  (s - 1) * 2^e < 10^p <= s * 2^e,  cross-multiplied so that
   only non-negative powers occur (10^p * 2^(-e) = num / den). *)
Definition pow10_up (P : Z) (neg : bool) (s e : Z) : bool :=
  let num := (if neg then 1 else P) * 2 ^ (Z.max (- e) 0) in
  let den := (if neg then P else 1) * 2 ^ (Z.max e 0) in
  (2 ^ 255 <=? s) && (s <? 2 ^ 256) && ((s - 1) * den <? num) && (num <=? s * den).
(* the closed forms above satisfy the relation (row predicate for rows j = 0..127 of the inner tables) *)
Definition pow10_inner_ok (j : Z) : bool :=
  let p := j - 64 in pow10_up (10 ^ Z.abs p) (p <? 0) (pow10_sig p) (pow10_exp p).

(* the outer tables: row i against 10^(128*|i-39|), taken from the list 1, 10^128, 10^256, ... (41 entries,
   built once by repeated multiplication: lemma nth_geom in TableProofs.v) *)
Fixpoint geom (n : nat) (a r : Z) : list Z := match n with O => [] | S k => a :: geom k (a * r) r end.
Definition outer_row_ok (pows : list Z) (S E : list (list Z)) (i : Z) : bool :=
  match nth (Z.to_nat i) S [], nth (Z.to_nat i) E [] with
  | [s], [e] => pow10_up (nth (Z.to_nat (Z.abs (i - 39))) pows 0) (i <? 39) s e
  | _, _ => false
  end.
Definition outer_ok (S E : list (list Z)) : bool :=
  let pows := geom 41 1 (10 ^ 128) in forallb (outer_row_ok pows S E) (rows 80).
(* diagnosis: the rows violating the relation, with the pair (sig, exp) of the tables and of the closed form *)
Definition outer_diag (S E : list (list Z)) : list (Z * list Z * list Z) :=
  let pows := geom 41 1 (10 ^ 128) in
  flat_map (fun i => if outer_row_ok pows S E i then [] else
                     let p := 128 * (i - 39) in
                     [(i, nth (Z.to_nat i) S [] ++ nth (Z.to_nat i) E [], [pow10_sig p; pow10_exp p])]) (rows 80).
