(* TableProofs.v -- every constant table of the compiled crate equals its closed form (DESIGN 4.4, V3).

   Depends on Tables_gen.v, which tables.py regenerates from `verif-harness tables` on every run; the closed
   forms are in TableSpec.v.  Each theorem is proved by kernel computation ([vm_compute] / VM casts only)
   over the finite, stated row range -- a proof because the range is finite and written in the statement.

   Shape of the statements:
     whole table       T_NAME = map spec_NAME (rows n)                       (n = number of rows; fixes the length)
     restricted        length T_NAME = N /\ slice a n T_NAME = map spec_NAME (rows_from a n)
                       (rows a..a+n-1 only; the comment before the theorem says why)
     row predicate     forallb P (rows_from a n) = true                       (sufficiency inequalities, bounds)
     relation          BID_OUTERTABLE_SIG/EXP, see there

   The file is a valid Coq file as a whole (coqc -Q <coq>/theories DV -Q <scratch> DVT TableProofs.v, with
   TableSpec.vo and Tables_gen.vo in <scratch>), but tables.py normally cuts it into one file per block
       (* BEGIN <block> : eq  <table> <spec function> <first row> <number of rows> *) ... (* END *)
       (* BEGIN <block> : all <table> <row predicate> <first row> <number of rows> *) ... (* END *)
       (* BEGIN <block> : rel <table>,<table> <diagnosis function> <first row> <number of rows> *) ... (* END *)
   = the header up to the first BEGIN line + that block, with the import of Tables_gen replaced by the import of
   the one table the block needs, and runs the blocks in parallel, so that a failure is reported per table.  The
   theorem of block B is named T_B_ok.  Keep the BEGIN line in step with the statement: tables.py uses it to
   evaluate the differing rows ([diff_rows] / [bad_rows] of TableSpec.v) after a failure. *)
From Coq Require Import ZArith Bool List Lia.
From DVT Require Import TableSpec.
From DVT Require Import Tables_gen.
Import ListNotations.
Open Scope Z_scope.

(* ==================================================================================================== *)
(* src/bid128.rs *)
(* ==================================================================================================== *)

(* BEGIN BID_NR_DIGITS : eq BID_NR_DIGITS spec_BID_NR_DIGITS 0 113 *)
Theorem T_BID_NR_DIGITS_ok : T_BID_NR_DIGITS = map spec_BID_NR_DIGITS (rows 113).
Proof. vm_compute. reflexivity. Qed.
(* END *)

(* BEGIN BID_MIDPOINT64 : eq BID_MIDPOINT64 spec_BID_MIDPOINT64 0 19 *)
Theorem T_BID_MIDPOINT64_ok : T_BID_MIDPOINT64 = map spec_BID_MIDPOINT64 (rows 19).
Proof. vm_compute. reflexivity. Qed.
(* END *)

(* BEGIN BID_MIDPOINT128 : eq BID_MIDPOINT128 spec_BID_MIDPOINT128 0 19 *)
Theorem T_BID_MIDPOINT128_ok : T_BID_MIDPOINT128 = map spec_BID_MIDPOINT128 (rows 19).
Proof. vm_compute. reflexivity. Qed.
(* END *)

(* BEGIN BID_MIDPOINT192 : eq BID_MIDPOINT192 spec_BID_MIDPOINT192 0 20 *)
Theorem T_BID_MIDPOINT192_ok : T_BID_MIDPOINT192 = map spec_BID_MIDPOINT192 (rows 20).
Proof. vm_compute. reflexivity. Qed.
(* END *)

(* BEGIN BID_MIDPOINT256 : eq BID_MIDPOINT256 spec_BID_MIDPOINT256 0 19 *)
Theorem T_BID_MIDPOINT256_ok : T_BID_MIDPOINT256 = map spec_BID_MIDPOINT256 (rows 19).
Proof. vm_compute. reflexivity. Qed.
(* END *)

(* BEGIN BID_TEN2K64 : eq BID_TEN2K64 spec_BID_TEN2K64 0 20 *)
Theorem T_BID_TEN2K64_ok : T_BID_TEN2K64 = map spec_BID_TEN2K64 (rows 20).
Proof. vm_compute. reflexivity. Qed.
(* END *)

(* BEGIN BID_TEN2K128 : eq BID_TEN2K128 spec_BID_TEN2K128 0 19 *)
Theorem T_BID_TEN2K128_ok : T_BID_TEN2K128 = map spec_BID_TEN2K128 (rows 19).
Proof. vm_compute. reflexivity. Qed.
(* END *)

(* BEGIN BID_TEN2K256 : eq BID_TEN2K256 spec_BID_TEN2K256 0 39 *)
Theorem T_BID_TEN2K256_ok : T_BID_TEN2K256 = map spec_BID_TEN2K256 (rows 39).
Proof. vm_compute. reflexivity. Qed.
(* END *)

(* BEGIN BID_TEN2MK128 : eq BID_TEN2MK128 spec_BID_TEN2MK128 0 34 *)
Theorem T_BID_TEN2MK128_ok : T_BID_TEN2MK128 = map spec_BID_TEN2MK128 (rows 34).
Proof. vm_compute. reflexivity. Qed.
(* END *)

(* BEGIN BID_SHIFTRIGHT128 : eq BID_SHIFTRIGHT128 spec_BID_SHIFTRIGHT128 0 34 *)
Theorem T_BID_SHIFTRIGHT128_ok : T_BID_SHIFTRIGHT128 = map spec_BID_SHIFTRIGHT128 (rows 34).
Proof. vm_compute. reflexivity. Qed.
(* END *)

(* BEGIN BID_MASKHIGH128 : eq BID_MASKHIGH128 spec_BID_MASKHIGH128 0 34 *)
Theorem T_BID_MASKHIGH128_ok : T_BID_MASKHIGH128 = map spec_BID_MASKHIGH128 (rows 34).
Proof. vm_compute. reflexivity. Qed.
(* END *)

(* BEGIN BID_ONEHALF128 : eq BID_ONEHALF128 spec_BID_ONEHALF128 0 34 *)
Theorem T_BID_ONEHALF128_ok : T_BID_ONEHALF128 = map spec_BID_ONEHALF128 (rows 34).
Proof. vm_compute. reflexivity. Qed.
(* END *)

(* BEGIN BID_TEN2MK128TRUNC : eq BID_TEN2MK128TRUNC spec_BID_TEN2MK128TRUNC 0 34 *)
Theorem T_BID_TEN2MK128TRUNC_ok : T_BID_TEN2MK128TRUNC = map spec_BID_TEN2MK128TRUNC (rows 34).
Proof. vm_compute. reflexivity. Qed.
(* END *)

(* BEGIN BID_CHAR_TABLE2 : eq BID_CHAR_TABLE2 spec_BID_CHAR_TABLE2 0 180 *)
Theorem T_BID_CHAR_TABLE2_ok : T_BID_CHAR_TABLE2 = map spec_BID_CHAR_TABLE2 (rows 180).
Proof. vm_compute. reflexivity. Qed.
(* END *)

(* BEGIN BID_CHAR_TABLE3 : eq BID_CHAR_TABLE3 spec_BID_CHAR_TABLE3 0 3000 *)
Theorem T_BID_CHAR_TABLE3_ok : T_BID_CHAR_TABLE3 = map spec_BID_CHAR_TABLE3 (rows 3000).
Proof. vm_compute. reflexivity. Qed.
(* END *)

(* BEGIN BID_KX64 : eq BID_KX64 spec_BID_KX64 0 17 *)
Theorem T_BID_KX64_ok : T_BID_KX64 = map spec_BID_KX64 (rows 17).
Proof. vm_compute. reflexivity. Qed.
(* END *)

(* BEGIN BID_EX64M64 : eq BID_EX64M64 spec_BID_EX64M64 0 17 *)
Theorem T_BID_EX64M64_ok : T_BID_EX64M64 = map spec_BID_EX64M64 (rows 17).
Proof. vm_compute. reflexivity. Qed.
(* END *)

(* BEGIN BID_HALF64 : eq BID_HALF64 spec_BID_HALF64 0 17 *)
Theorem T_BID_HALF64_ok : T_BID_HALF64 = map spec_BID_HALF64 (rows 17).
Proof. vm_compute. reflexivity. Qed.
(* END *)

(* BEGIN BID_MASK64 : eq BID_MASK64 spec_BID_MASK64 0 17 *)
Theorem T_BID_MASK64_ok : T_BID_MASK64 = map spec_BID_MASK64 (rows 17).
Proof. vm_compute. reflexivity. Qed.
(* END *)

(* BEGIN BID_TEN2MXTRUNC64 : eq BID_TEN2MXTRUNC64 spec_BID_TEN2MXTRUNC64 0 17 *)
Theorem T_BID_TEN2MXTRUNC64_ok : T_BID_TEN2MXTRUNC64 = map spec_BID_TEN2MXTRUNC64 (rows 17).
Proof. vm_compute. reflexivity. Qed.
(* END *)

(* BEGIN BID_KX128 : eq BID_KX128 spec_BID_KX128 0 37 *)
Theorem T_BID_KX128_ok : T_BID_KX128 = map spec_BID_KX128 (rows 37).
Proof. vm_compute. reflexivity. Qed.
(* END *)

(* BEGIN BID_EX128M128 : eq BID_EX128M128 spec_BID_EX128M128 0 37 *)
Theorem T_BID_EX128M128_ok : T_BID_EX128M128 = map spec_BID_EX128M128 (rows 37).
Proof. vm_compute. reflexivity. Qed.
(* END *)

(* BEGIN BID_HALF128 : eq BID_HALF128 spec_BID_HALF128 0 37 *)
Theorem T_BID_HALF128_ok : T_BID_HALF128 = map spec_BID_HALF128 (rows 37).
Proof. vm_compute. reflexivity. Qed.
(* END *)

(* BEGIN BID_MASK128 : eq BID_MASK128 spec_BID_MASK128 0 37 *)
Theorem T_BID_MASK128_ok : T_BID_MASK128 = map spec_BID_MASK128 (rows 37).
Proof. vm_compute. reflexivity. Qed.
(* END *)

(* BEGIN BID_TEN2MXTRUNC128 : eq BID_TEN2MXTRUNC128 spec_BID_TEN2MXTRUNC128 0 37 *)
Theorem T_BID_TEN2MXTRUNC128_ok : T_BID_TEN2MXTRUNC128 = map spec_BID_TEN2MXTRUNC128 (rows 37).
Proof. vm_compute. reflexivity. Qed.
(* END *)

(* BEGIN BID_KX192 : eq BID_KX192 spec_BID_KX192 0 56 *)
Theorem T_BID_KX192_ok : T_BID_KX192 = map spec_BID_KX192 (rows 56).
Proof. vm_compute. reflexivity. Qed.
(* END *)

(* BEGIN BID_EX192M192 : eq BID_EX192M192 spec_BID_EX192M192 0 56 *)
Theorem T_BID_EX192M192_ok : T_BID_EX192M192 = map spec_BID_EX192M192 (rows 56).
Proof. vm_compute. reflexivity. Qed.
(* END *)

(* BEGIN BID_HALF192 : eq BID_HALF192 spec_BID_HALF192 0 56 *)
Theorem T_BID_HALF192_ok : T_BID_HALF192 = map spec_BID_HALF192 (rows 56).
Proof. vm_compute. reflexivity. Qed.
(* END *)

(* BEGIN BID_MASK192 : eq BID_MASK192 spec_BID_MASK192 0 56 *)
Theorem T_BID_MASK192_ok : T_BID_MASK192 = map spec_BID_MASK192 (rows 56).
Proof. vm_compute. reflexivity. Qed.
(* END *)

(* BEGIN BID_TEN2MXTRUNC192 : eq BID_TEN2MXTRUNC192 spec_BID_TEN2MXTRUNC192 0 56 *)
Theorem T_BID_TEN2MXTRUNC192_ok : T_BID_TEN2MXTRUNC192 = map spec_BID_TEN2MXTRUNC192 (rows 56).
Proof. vm_compute. reflexivity. Qed.
(* END *)

(* BEGIN BID_KX256 : eq BID_KX256 spec_BID_KX256 0 75 *)
Theorem T_BID_KX256_ok : T_BID_KX256 = map spec_BID_KX256 (rows 75).
Proof. vm_compute. reflexivity. Qed.
(* END *)

(* BEGIN BID_EX256M256 : eq BID_EX256M256 spec_BID_EX256M256 0 75 *)
Theorem T_BID_EX256M256_ok : T_BID_EX256M256 = map spec_BID_EX256M256 (rows 75).
Proof. vm_compute. reflexivity. Qed.
(* END *)

(* BEGIN BID_HALF256 : eq BID_HALF256 spec_BID_HALF256 0 75 *)
Theorem T_BID_HALF256_ok : T_BID_HALF256 = map spec_BID_HALF256 (rows 75).
Proof. vm_compute. reflexivity. Qed.
(* END *)

(* BEGIN BID_MASK256 : eq BID_MASK256 spec_BID_MASK256 0 75 *)
Theorem T_BID_MASK256_ok : T_BID_MASK256 = map spec_BID_MASK256 (rows 75).
Proof. vm_compute. reflexivity. Qed.
(* END *)

(* BEGIN BID_TEN2MXTRUNC256 : eq BID_TEN2MXTRUNC256 spec_BID_TEN2MXTRUNC256 0 75 *)
Theorem T_BID_TEN2MXTRUNC256_ok : T_BID_TEN2MXTRUNC256 = map spec_BID_TEN2MXTRUNC256 (rows 75).
Proof. vm_compute. reflexivity. Qed.
(* END *)

(* ==================================================================================================== *)
(* src/bid128_2_str_tables.rs *)
(* ==================================================================================================== *)

(* BEGIN BID_MIDI_TBL : eq BID_MIDI_TBL spec_BID_MIDI_TBL 0 1000 *)
Theorem T_BID_MIDI_TBL_ok : T_BID_MIDI_TBL = map spec_BID_MIDI_TBL (rows 1000).
Proof. vm_compute. reflexivity. Qed.
(* END *)

(* BEGIN MOD10_18_TBL : eq MOD10_18_TBL spec_MOD10_18_TBL 0 9 *)
Theorem T_MOD10_18_TBL_ok : T_MOD10_18_TBL = map spec_MOD10_18_TBL (rows 9).
Proof. vm_compute. reflexivity. Qed.
(* END *)

(* BEGIN BID_TWOTO60_M_10TO18 : eq BID_TWOTO60_M_10TO18 spec_BID_TWOTO60_M_10TO18 0 1 *)
Theorem T_BID_TWOTO60_M_10TO18_ok : T_BID_TWOTO60_M_10TO18 = map spec_BID_TWOTO60_M_10TO18 (rows 1).
Proof. vm_compute. reflexivity. Qed.
(* END *)

(* BEGIN BID_TWOTO60 : eq BID_TWOTO60 spec_BID_TWOTO60 0 1 *)
Theorem T_BID_TWOTO60_ok : T_BID_TWOTO60 = map spec_BID_TWOTO60 (rows 1).
Proof. vm_compute. reflexivity. Qed.
(* END *)

(* BEGIN BID_INV_TENTO9 : eq BID_INV_TENTO9 spec_BID_INV_TENTO9 0 1 *)
Theorem T_BID_INV_TENTO9_ok : T_BID_INV_TENTO9 = map spec_BID_INV_TENTO9 (rows 1).
Proof. vm_compute. reflexivity. Qed.
(* END *)

(* BEGIN BID_TWOTO30_M_10TO9 : eq BID_TWOTO30_M_10TO9 spec_BID_TWOTO30_M_10TO9 0 1 *)
Theorem T_BID_TWOTO30_M_10TO9_ok : T_BID_TWOTO30_M_10TO9 = map spec_BID_TWOTO30_M_10TO9 (rows 1).
Proof. vm_compute. reflexivity. Qed.
(* END *)

(* BEGIN BID_TENTO9 : eq BID_TENTO9 spec_BID_TENTO9 0 1 *)
Theorem T_BID_TENTO9_ok : T_BID_TENTO9 = map spec_BID_TENTO9 (rows 1).
Proof. vm_compute. reflexivity. Qed.
(* END *)

(* BEGIN BID_TENTO6 : eq BID_TENTO6 spec_BID_TENTO6 0 1 *)
Theorem T_BID_TENTO6_ok : T_BID_TENTO6 = map spec_BID_TENTO6 (rows 1).
Proof. vm_compute. reflexivity. Qed.
(* END *)

(* BEGIN BID_TENTO3 : eq BID_TENTO3 spec_BID_TENTO3 0 1 *)
Theorem T_BID_TENTO3_ok : T_BID_TENTO3 = map spec_BID_TENTO3 (rows 1).
Proof. vm_compute. reflexivity. Qed.
(* END *)

(* ==================================================================================================== *)
(* src/bid_b2d.rs *)
(* ==================================================================================================== *)

(* BEGIN BID_D2B : eq BID_D2B spec_BID_D2B 0 1024 *)
Theorem T_BID_D2B_ok : T_BID_D2B = map spec_BID_D2B (rows 1024).
Proof. vm_compute. reflexivity. Qed.
(* END *)

(* BEGIN BID_B2D : eq BID_B2D spec_BID_B2D 0 1000 *)
Theorem T_BID_B2D_ok : T_BID_B2D = map spec_BID_B2D (rows 1000).
Proof. vm_compute. reflexivity. Qed.
(* END *)

(* ==================================================================================================== *)
(* src/bid_convert_data.rs *)
(* ==================================================================================================== *)

(* BEGIN BID_CONVERT_TABLE : eq BID_CONVERT_TABLE spec_BID_CONVERT_TABLE 0 640 *)
Theorem T_BID_CONVERT_TABLE_ok : T_BID_CONVERT_TABLE = map spec_BID_CONVERT_TABLE (rows 640).
Proof. vm_compute. reflexivity. Qed.
(* END *)

(* BEGIN BID_PACKED_10000_ZEROS : eq BID_PACKED_10000_ZEROS spec_BID_PACKED_10000_ZEROS 0 1250 *)
Theorem T_BID_PACKED_10000_ZEROS_ok : T_BID_PACKED_10000_ZEROS = map spec_BID_PACKED_10000_ZEROS (rows 1250).
Proof. vm_compute. reflexivity. Qed.
(* END *)

(* BEGIN BID_FACTORS : eq BID_FACTORS spec_BID_FACTORS 0 1024 *)
Theorem T_BID_FACTORS_ok : T_BID_FACTORS = map spec_BID_FACTORS (rows 1024).
Proof. vm_compute. reflexivity. Qed.
(* END *)

(* ==================================================================================================== *)
(* src/bid_decimal_data.rs *)
(* ==================================================================================================== *)

(* BEGIN BID_ROUND_CONST_TABLE_128 : eq BID_ROUND_CONST_TABLE_128 spec_BID_ROUND_CONST_TABLE_128 0 5 *)
Theorem T_BID_ROUND_CONST_TABLE_128_ok : T_BID_ROUND_CONST_TABLE_128 = map spec_BID_ROUND_CONST_TABLE_128 (rows 5).
Proof. vm_compute. reflexivity. Qed.
(* END *)

(* BEGIN BID_RECIP_SCALE : eq BID_RECIP_SCALE spec_BID_RECIP_SCALE 0 36 *)
Theorem T_BID_RECIP_SCALE_ok : T_BID_RECIP_SCALE = map spec_BID_RECIP_SCALE (rows 36).
Proof. vm_compute. reflexivity. Qed.
(* END *)

(* BID_RECIPROCALS10_128: rows 1..35 only.  Row 0 holds 0 (division by 10^0 is never done through the table: bid_internal.rs and
   quantize reach the table only with extra digits >= 1, bid128_div tests nzeros != 0). *)
(* BEGIN BID_RECIPROCALS10_128 : eq BID_RECIPROCALS10_128 spec_BID_RECIPROCALS10_128 1 35 *)
Theorem T_BID_RECIPROCALS10_128_ok :
  length T_BID_RECIPROCALS10_128 = 36%nat /\ slice 1 35 T_BID_RECIPROCALS10_128 = map spec_BID_RECIPROCALS10_128 (rows_from 1 35).
Proof. split; vm_compute; reflexivity. Qed.
(* END *)


(* Sufficiency of the 128-bit reciprocals (a statement about the closed forms, hence about the tables by the two
   theorems above): for k = 1..35 the reciprocal R_k = ceil(2^S_k / 10^k), S_k = 128 + s_k, fits 128 bits and its
   excess e_k = R_k * 10^k - 2^S_k satisfies e_k * (10^35 + 10^k) < 2^S_k; by [recip_exact] the multiply-and-shift
   then IS the division by 10^k for every C the callers can form. *)
(* BEGIN BID_RECIPROCALS10_128_sufficient : all BID_RECIPROCALS10_128 recip128_ok 1 35 *)
Lemma recip_exact : forall R P D e B C : Z,
  0 < D -> 0 < P -> R * D = P + e -> 0 <= e -> e * B < P -> 0 <= C <= B -> C * R / P = C / D.
Proof.
  intros R P D e B C HD HP HR He HB HC.
  pose proof (Z.div_mod C D ltac:(lia)) as Hdm.
  pose proof (Z.mod_pos_bound C D HD) as Hr.
  generalize dependent (C mod D). generalize dependent (C / D). intros q r Hdm Hr.
  symmetry. apply (Z.div_unique_pos (C * R) P q (C * R - P * q)); [ | ring ].
  assert (Hce : C * e <= B * e) by (apply Z.mul_le_mono_nonneg_r; lia).
  assert (Hid : D * (C * R - P * q) = P * r + C * e).
  { replace (D * (C * R - P * q)) with (C * (R * D) - P * (D * q)) by ring. rewrite HR.
    replace (D * q) with (C - r) by lia. ring. }
  split.
  - apply Z.mul_le_mono_pos_l with (p := D); [ exact HD | ]. rewrite Hid, Z.mul_0_r.
    apply Z.add_nonneg_nonneg; apply Z.mul_nonneg_nonneg; lia.
  - apply Z.mul_lt_mono_pos_l with (p := D); [ exact HD | ]. rewrite Hid.
    assert (Hpr : P * r <= P * (D - 1)) by (apply Z.mul_le_mono_nonneg_l; lia).
    replace (D * P) with (P * (D - 1) + P) by ring. lia.
Qed.

Theorem T_BID_RECIPROCALS10_128_sufficient_ok : forallb recip128_ok (rows_from 1 35) = true.
Proof. vm_compute. reflexivity. Qed.

Theorem recip128_div_exact : forall k C : Z, 1 <= k <= 35 -> 0 <= C <= 10 ^ 35 + 10 ^ k ->
  C * cdiv (2 ^ (128 + recip_scale k)) (10 ^ k) / 2 ^ (128 + recip_scale k) = C / 10 ^ k.
Proof.
  intros k C Hk HC.
  assert (Hin : In k (rows_from 1 35)).
  { unfold rows_from. rewrite <- (Z2Nat.id k) by lia. apply in_map. apply in_seq. lia. }
  pose proof (proj1 (forallb_forall _ _) T_BID_RECIPROCALS10_128_sufficient_ok k Hin) as Hok.
  unfold recip128_ok in Hok.
  apply andb_prop in Hok. destruct Hok as [Hok H3]. apply andb_prop in Hok. destruct Hok as [_ H2].
  apply Z.leb_le in H2. apply Z.ltb_lt in H3.
  apply (recip_exact _ _ _ (cdiv (2 ^ (128 + recip_scale k)) (10 ^ k) * 10 ^ k - 2 ^ (128 + recip_scale k)) (10 ^ 35 + 10 ^ k));
    try assumption; try ring.
  - apply Z.pow_pos_nonneg; lia.
  - apply Z.pow_pos_nonneg; [ lia | ]. unfold recip_scale. destruct (k =? 35); lia.
Qed.
(* END *)

(* BEGIN BID_POWER10_TABLE_128 : eq BID_POWER10_TABLE_128 spec_BID_POWER10_TABLE_128 0 39 *)
Theorem T_BID_POWER10_TABLE_128_ok : T_BID_POWER10_TABLE_128 = map spec_BID_POWER10_TABLE_128 (rows 39).
Proof. vm_compute. reflexivity. Qed.
(* END *)

(* BEGIN BID_ESTIMATE_DECIMAL_DIGITS : eq BID_ESTIMATE_DECIMAL_DIGITS spec_BID_ESTIMATE_DECIMAL_DIGITS 0 129 *)
Theorem T_BID_ESTIMATE_DECIMAL_DIGITS_ok : T_BID_ESTIMATE_DECIMAL_DIGITS = map spec_BID_ESTIMATE_DECIMAL_DIGITS (rows 129).
Proof. vm_compute. reflexivity. Qed.
(* END *)

(* BID_POWER10_INDEX_BINEXP_128: rows 0..117 only.  Rows 118, 119, 121, 122 hold a power of ten one too large (the table repeats 10^36 once,
   10^37 three times and 10^38 four times where 10^36, 10^37 are due three times each and 10^38 twice); rows 120, 123,
   124 agree again.  The index is the binary exponent of a coefficient (< 10^34 < 2^113) or, in bid128_div, a
   difference of two such exponents, so only rows 0..113 are ever read: the deviating rows are unreachable. *)
(* BEGIN BID_POWER10_INDEX_BINEXP_128 : eq BID_POWER10_INDEX_BINEXP_128 spec_BID_POWER10_INDEX_BINEXP_128 0 118 *)
Theorem T_BID_POWER10_INDEX_BINEXP_128_ok :
  length T_BID_POWER10_INDEX_BINEXP_128 = 125%nat /\ slice 0 118 T_BID_POWER10_INDEX_BINEXP_128 = map spec_BID_POWER10_INDEX_BINEXP_128 (rows_from 0 118).
Proof. split; vm_compute; reflexivity. Qed.
(* END *)

(* BEGIN BID_SHORT_RECIP_SCALE : eq BID_SHORT_RECIP_SCALE spec_BID_SHORT_RECIP_SCALE 0 18 *)
Theorem T_BID_SHORT_RECIP_SCALE_ok : T_BID_SHORT_RECIP_SCALE = map spec_BID_SHORT_RECIP_SCALE (rows 18).
Proof. vm_compute. reflexivity. Qed.
(* END *)

(* BID_RECIPROCALS10_64: rows 1..17 only.  Row 0 holds 1 and is never read (bid128_div tests nzeros != 0 first). *)
(* BEGIN BID_RECIPROCALS10_64 : eq BID_RECIPROCALS10_64 spec_BID_RECIPROCALS10_64 1 17 *)
Theorem T_BID_RECIPROCALS10_64_ok :
  length T_BID_RECIPROCALS10_64 = 18%nat /\ slice 1 17 T_BID_RECIPROCALS10_64 = map spec_BID_RECIPROCALS10_64 (rows_from 1 17).
Proof. split; vm_compute; reflexivity. Qed.
(* END *)


(* Sufficiency of the 64-bit reciprocals for EXACT quotients (bid128_div removes nzeros trailing zeros from a
   quotient Q < 2^64 that is a multiple of 10^k): R_k < 2^64 and e_k * 2^64 < 10^k * 2^S_k, S_k = 64 + s_k. *)
(* BEGIN BID_RECIPROCALS10_64_sufficient : all BID_RECIPROCALS10_64 recip64_ok 1 17 *)
Theorem T_BID_RECIPROCALS10_64_sufficient_ok : forallb recip64_ok (rows_from 1 17) = true.
Proof. vm_compute. reflexivity. Qed.
(* END *)

(* ==================================================================================================== *)
(* src/bid_binarydecimal.rs *)
(* ==================================================================================================== *)

(* BEGIN BID_ROUNDBOUND_128 : eq BID_ROUNDBOUND_128 spec_BID_ROUNDBOUND_128 0 20 *)
Theorem T_BID_ROUNDBOUND_128_ok : T_BID_ROUNDBOUND_128 = map spec_BID_ROUNDBOUND_128 (rows 20).
Proof. vm_compute. reflexivity. Qed.
(* END *)

(* BEGIN BID_POWER_FIVE : eq BID_POWER_FIVE spec_BID_POWER_FIVE 0 49 *)
Theorem T_BID_POWER_FIVE_ok : T_BID_POWER_FIVE = map spec_BID_POWER_FIVE (rows 49).
Proof. vm_compute. reflexivity. Qed.
(* END *)

(* BEGIN BID_COEFFLIMITS_BID128 : eq BID_COEFFLIMITS_BID128 spec_BID_COEFFLIMITS_BID128 0 49 *)
Theorem T_BID_COEFFLIMITS_BID128_ok : T_BID_COEFFLIMITS_BID128 = map spec_BID_COEFFLIMITS_BID128 (rows 49).
Proof. vm_compute. reflexivity. Qed.
(* END *)

(* BEGIN BID_INNERTABLE_SIG : eq BID_INNERTABLE_SIG spec_BID_INNERTABLE_SIG 0 128 *)
Theorem T_BID_INNERTABLE_SIG_ok : T_BID_INNERTABLE_SIG = map spec_BID_INNERTABLE_SIG (rows 128).
Proof. vm_compute. reflexivity. Qed.
(* END *)

(* BEGIN BID_INNERTABLE_EXP : eq BID_INNERTABLE_EXP spec_BID_INNERTABLE_EXP 0 128 *)
Theorem T_BID_INNERTABLE_EXP_ok : T_BID_INNERTABLE_EXP = map spec_BID_INNERTABLE_EXP (rows 128).
Proof. vm_compute. reflexivity. Qed.
(* END *)


(* What the closed form of the inner tables means: the significand has exactly 256 bits and sig * 2^exp is 10^p
   rounded UP at that precision, (sig - 1) * 2^exp < 10^p <= sig * 2^exp  ([pow10_up], p = j - 64). *)
(* BEGIN BID_INNERTABLE_bound : all BID_INNERTABLE_SIG,BID_INNERTABLE_EXP pow10_inner_ok 0 128 *)
Theorem T_BID_INNERTABLE_bound_ok : forallb pow10_inner_ok (rows_from 0 128) = true.
Proof. vm_compute. reflexivity. Qed.
(* END *)

(* BID_OUTERTABLE_SIG[i], BID_OUTERTABLE_EXP[i] (i = 0..79), p = 128*(i - 39): both tables at once, as the relation
   "SIG[i] has exactly 256 bits and SIG[i] * 2^EXP[i] is 10^p rounded up": (SIG[i] - 1) * 2^EXP[i] < 10^p <= SIG[i] * 2^EXP[i].
   [outer_tables_meaning] restates the computed check with 10^(128*|i-39|) written out. *)
(* BEGIN BID_OUTERTABLE : rel BID_OUTERTABLE_SIG,BID_OUTERTABLE_EXP outer_diag 0 80 *)
Theorem T_BID_OUTERTABLE_ok :
  length T_BID_OUTERTABLE_SIG = 80%nat /\ length T_BID_OUTERTABLE_EXP = 80%nat /\
  outer_ok T_BID_OUTERTABLE_SIG T_BID_OUTERTABLE_EXP = true.
Proof.  (* [vm_cast_no_check]: the computation runs once, in the kernel at Qed (vm_compute; reflexivity runs it twice) *)
  split; [ vm_compute; reflexivity | split; [ vm_compute; reflexivity | vm_cast_no_check (@eq_refl bool true) ] ].
Qed.

Lemma nth_geom : forall (n m : nat) (a r : Z), (m < n)%nat -> nth m (geom n a r) 0 = a * r ^ Z.of_nat m.
Proof.
  induction n as [|n IH]; intros m a r Hm; [ lia | ].
  destruct m as [|m]; cbn [geom nth].
  - change (Z.of_nat 0) with 0. rewrite Z.pow_0_r. ring.
  - rewrite IH by lia. rewrite Nat2Z.inj_succ, Z.pow_succ_r by lia. ring.
Qed.

Lemma outer_ok_meaning : forall (S E : list (list Z)), outer_ok S E = true -> forall i : Z, 0 <= i < 80 ->
  exists s e : Z, nth (Z.to_nat i) S [] = [s] /\ nth (Z.to_nat i) E [] = [e] /\
                  pow10_up (10 ^ (128 * Z.abs (i - 39))) (i <? 39) s e = true.
Proof.
  intros S E Hok i Hi.
  unfold outer_ok in Hok. cbv zeta in Hok.
  assert (Hin : In i (rows 80)).
  { unfold rows, rows_from. rewrite <- (Z2Nat.id i) by lia. apply in_map. apply in_seq. lia. }
  pose proof (proj1 (forallb_forall _ _) Hok i Hin) as Hrow.
  unfold outer_row_ok in Hrow.
  destruct (nth (Z.to_nat i) S []) as [|s [|? ?]]; try discriminate Hrow.
  destruct (nth (Z.to_nat i) E []) as [|e [|? ?]]; try discriminate Hrow.
  exists s, e. split; [ reflexivity | split; [ reflexivity | ] ].
  rewrite nth_geom in Hrow by lia.
  rewrite Z2Nat.id in Hrow by lia.
  rewrite Z.mul_1_l, <- Z.pow_mul_r in Hrow by lia.
  exact Hrow.
Qed.

Theorem outer_tables_meaning : forall i : Z, 0 <= i < 80 ->
  exists s e : Z, nth (Z.to_nat i) T_BID_OUTERTABLE_SIG [] = [s] /\ nth (Z.to_nat i) T_BID_OUTERTABLE_EXP [] = [e] /\
                  pow10_up (10 ^ (128 * Z.abs (i - 39))) (i <? 39) s e = true.
Proof. exact (outer_ok_meaning _ _ (proj2 (proj2 T_BID_OUTERTABLE_ok))). Qed.
(* END *)
