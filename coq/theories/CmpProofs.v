(* Proofs for the order-related operations of OpsCmp.v (properties C03, C16, C20).
   Part 1 (axiom-free): cmp_mag / cmp_fin / cmp_dec against an integer key, predicate tables, Eq/Ord/Hash layer.
   Part 2 (Reals): the same comparisons against Rcompare on D2R; min/max. *)
From Coq Require Import ZArith Lia Bool List.
From Flocq Require Import Core.Zaux Core.Digits.
From DV Require Import Base Bid BidProofs Arith OpsArith OpsArithProofs OpsCmp.
Import ListNotations.
Open Scope Z_scope.

(* ================================================================================================ *)
(* Part 1: integers only                                                                            *)
(* ================================================================================================ *)

Lemma digits_bounds c : 0 < c -> 10 ^ (Zdigits radix10 c - 1) <= c < 10 ^ (Zdigits radix10 c).
Proof.
  intros H. pose proof (Zdigits_correct radix10 c) as D. rewrite Z.abs_eq in D by lia. exact D.
Qed.

Lemma digits_pos c : 0 < c -> 0 < Zdigits radix10 c.
Proof. intros H. apply Zdigits_gt_0. lia. Qed.

(* the digit-count shortcut is sound whatever the exponent gap *)
Lemma cmp_mag_le cx qx cy qy : 0 <= cx -> 0 <= cy -> qx <= qy ->
  cmp_mag cx qx cy qy = (cx ?= cy * 10 ^ (qy - qx)).
Proof.
  intros Hx Hy Hq. unfold cmp_mag.
  assert (Hp : 0 < 10 ^ (qy - qx)) by (apply Z.pow_pos_nonneg; lia).
  destruct (Z.eqb_spec cx 0) as [->|Nx].
  - destruct (Z.eqb_spec cy 0) as [->|Ny]; [reflexivity|]. symmetry. apply Z.compare_lt_iff. nia.
  - destruct (Z.eqb_spec cy 0) as [->|Ny]; [symmetry; apply Z.compare_gt_iff; lia|].
    pose proof (digits_bounds cx ltac:(lia)) as Bx. pose proof (digits_bounds cy ltac:(lia)) as By.
    pose proof (digits_pos cx ltac:(lia)) as Px. pose proof (digits_pos cy ltac:(lia)) as Py.
    set (dx := Zdigits radix10 cx) in *. set (dy := Zdigits radix10 cy) in *. cbv zeta.
    destruct (Z.ltb_spec (dx + qx) (dy + qy)) as [L1|L1].
    + symmetry. apply Z.compare_lt_iff.
      assert (M : 10 ^ dx <= 10 ^ (dy - 1 + (qy - qx))) by (apply Z.pow_le_mono_r; lia).
      rewrite Z.pow_add_r in M by lia. nia.
    + destruct (Z.ltb_spec (dy + qy) (dx + qx)) as [L2|L2].
      * symmetry. apply Z.compare_gt_iff.
        assert (M : 10 ^ (dy + (qy - qx)) <= 10 ^ (dx - 1)) by (apply Z.pow_le_mono_r; lia).
        rewrite Z.pow_add_r in M by lia. nia.
      * destruct (Z.leb_spec qx qy); [reflexivity|lia].
Qed.

Lemma cmp_mag_ge cx qx cy qy : 0 <= cx -> 0 <= cy -> qy <= qx ->
  cmp_mag cx qx cy qy = (cx * 10 ^ (qx - qy) ?= cy).
Proof.
  intros Hx Hy Hq. destruct (Z.eq_dec qx qy) as [->|Nq].
  - rewrite cmp_mag_le by lia. rewrite Z.sub_diag, !Z.mul_1_r. reflexivity.
  - unfold cmp_mag.
    assert (Hp : 0 < 10 ^ (qx - qy)) by (apply Z.pow_pos_nonneg; lia).
    destruct (Z.eqb_spec cx 0) as [->|Nx].
    + destruct (Z.eqb_spec cy 0) as [->|Ny]; [reflexivity|]. symmetry. apply Z.compare_lt_iff. lia.
    + destruct (Z.eqb_spec cy 0) as [->|Ny]; [symmetry; apply Z.compare_gt_iff; nia|].
      pose proof (digits_bounds cx ltac:(lia)) as Bx. pose proof (digits_bounds cy ltac:(lia)) as By.
      pose proof (digits_pos cx ltac:(lia)) as Px. pose proof (digits_pos cy ltac:(lia)) as Py.
      set (dx := Zdigits radix10 cx) in *. set (dy := Zdigits radix10 cy) in *. cbv zeta.
      destruct (Z.ltb_spec (dx + qx) (dy + qy)) as [L1|L1].
      * symmetry. apply Z.compare_lt_iff.
        assert (M : 10 ^ (dx + (qx - qy)) <= 10 ^ (dy - 1)) by (apply Z.pow_le_mono_r; lia).
        rewrite Z.pow_add_r in M by lia. nia.
      * destruct (Z.ltb_spec (dy + qy) (dx + qx)) as [L2|L2].
        -- symmetry. apply Z.compare_gt_iff.
           assert (M : 10 ^ dy <= 10 ^ (dx - 1 + (qx - qy))) by (apply Z.pow_le_mono_r; lia).
           rewrite Z.pow_add_r in M by lia. nia.
        -- destruct (Z.leb_spec qx qy); [lia|reflexivity].
Qed.

(* both coefficients brought to any common exponent e below both *)
Theorem cmp_mag_shift cx qx cy qy e : 0 <= cx -> 0 <= cy -> e <= qx -> e <= qy ->
  cmp_mag cx qx cy qy = (cx * 10 ^ (qx - e) ?= cy * 10 ^ (qy - e)).
Proof.
  intros Hx Hy Ex Ey. destruct (Z_le_gt_dec qx qy) as [L|G].
  - rewrite cmp_mag_le by assumption.
    assert (Hp : 10 ^ (qx - e) > 0) by (apply Z.lt_gt, Z.pow_pos_nonneg; lia).
    rewrite (Zmult_compare_compat_r cx _ _ Hp).
    replace (cy * 10 ^ (qy - qx) * 10 ^ (qx - e)) with (cy * 10 ^ (qy - e)); [reflexivity|].
    replace (qy - e) with ((qy - qx) + (qx - e)) by lia. rewrite Z.pow_add_r by lia. ring.
  - rewrite cmp_mag_ge by lia.
    assert (Hp : 10 ^ (qy - e) > 0) by (apply Z.lt_gt, Z.pow_pos_nonneg; lia).
    rewrite (Zmult_compare_compat_r _ cy _ Hp).
    replace (cx * 10 ^ (qx - qy) * 10 ^ (qy - e)) with (cx * 10 ^ (qx - e)); [reflexivity|].
    replace (qx - e) with ((qx - qy) + (qy - e)) by lia. rewrite Z.pow_add_r by lia. ring.
Qed.

Theorem cmp_mag_int cx qx cy qy : 0 <= cx -> 0 <= cy ->
  cmp_mag cx qx cy qy = (cx * 10 ^ (qx - Z.min qx qy) ?= cy * 10 ^ (qy - Z.min qx qy)).
Proof. intros Hx Hy. apply cmp_mag_shift; lia. Qed.

Lemma cond_Zopp_mul s c p : cond_Zopp s c * p = cond_Zopp s (c * p).
Proof. destruct s; cbn [cond_Zopp]; ring. Qed.

Theorem cmp_fin_shift sx cx qx sy cy qy e : 0 <= cx -> 0 <= cy -> e <= qx -> e <= qy ->
  cmp_fin sx cx qx sy cy qy = (cond_Zopp sx (cx * 10 ^ (qx - e)) ?= cond_Zopp sy (cy * 10 ^ (qy - e))).
Proof.
  intros Hx Hy Ex Ey. unfold cmp_fin.
  assert (Px : 0 < 10 ^ (qx - e)) by (apply Z.pow_pos_nonneg; lia).
  assert (Py : 0 < 10 ^ (qy - e)) by (apply Z.pow_pos_nonneg; lia).
  destruct (Z.eqb_spec cx 0) as [->|Nx]; destruct (Z.eqb_spec cy 0) as [->|Ny]; cbn [andb].
  - rewrite !Z.mul_0_l. destruct sx, sy; reflexivity.
  - rewrite Z.mul_0_l. assert (0 < cy * 10 ^ (qy - e)) by nia.
    destruct sx, sy; cbn [cond_Zopp Z.opp]; symmetry;
      first [apply Z.compare_lt_iff; lia | apply Z.compare_gt_iff; lia].
  - rewrite Z.mul_0_l. assert (0 < cx * 10 ^ (qx - e)) by nia.
    destruct sx, sy; cbn [cond_Zopp Z.opp]; symmetry;
      first [apply Z.compare_lt_iff; lia | apply Z.compare_gt_iff; lia].
  - assert (A : 0 < cx * 10 ^ (qx - e)) by nia. assert (B : 0 < cy * 10 ^ (qy - e)) by nia.
    rewrite (cmp_mag_shift cx qx cy qy e) by assumption.
    set (a := cx * 10 ^ (qx - e)) in *. set (b := cy * 10 ^ (qy - e)) in *.
    destruct sx, sy; cbn [andb negb flip_if cond_Zopp].
    + rewrite Z.compare_opp. symmetry. apply Z.compare_antisym.
    + symmetry; apply Z.compare_lt_iff; lia.
    + symmetry; apply Z.compare_gt_iff; lia.
    + reflexivity.
Qed.

(* ---------- the integer key of a non-NaN datum ---------- *)
Definition KINF := 10 ^ 12400.
Definition vkey (d:dec) : Z :=
  match d with
  | Fin s c q => cond_Zopp s (c * 10 ^ (q + 6176))
  | Inf s => cond_Zopp s KINF
  | NaN _ _ _ => 0
  end.

Lemma key_lt_KINF c q : 0 <= c < T34 -> -6176 <= q <= 6111 -> 0 <= c * 10 ^ (q + 6176) < KINF.
Proof.
  intros Hc Hq.
  assert (H0 : 0 < 10 ^ (q + 6176)) by (apply Z.pow_pos_nonneg; lia).
  split; [apply Z.mul_nonneg_nonneg; lia|].
  apply Z.le_lt_trans with (c * 10 ^ (6111 + 6176)).
  - apply Z.mul_le_mono_nonneg_l; [lia|]. apply Z.pow_le_mono_r; lia.
  - apply Z.lt_le_trans with (10 ^ 34 * 10 ^ (6111 + 6176)).
    + apply Z.mul_lt_mono_pos_r; [apply Z.pow_pos_nonneg; lia|]. change (10 ^ 34) with T34. lia.
    + unfold KINF. rewrite <- Z.pow_add_r by lia. apply Z.pow_le_mono_r; lia.
Qed.
Lemma KINF_pos : 0 < KINF.
Proof. unfold KINF. apply Z.pow_pos_nonneg; lia. Qed.
Global Opaque KINF.

Lemma rel_lt a b : a < b -> rel_of (a ?= b) = RLt.
Proof. intros H. apply Z.compare_lt_iff in H. now rewrite H. Qed.
Lemma rel_gt a b : b < a -> rel_of (a ?= b) = RGt.
Proof. intros H. apply Z.compare_gt_iff in H. now rewrite H. Qed.
Lemma rel_eq a b : a = b -> rel_of (a ?= b) = REq.
Proof. intros ->. now rewrite Z.compare_refl. Qed.

Theorem cmp_dec_key dx dy : wf dx -> wf dy -> is_nan dx = false -> is_nan dy = false ->
  cmp_dec dx dy = rel_of (vkey dx ?= vkey dy).
Proof.
  intros Wx Wy Nx Ny.
  destruct dx as [sx cx qx|sx|? ? ?]; [| |discriminate]; destruct dy as [sy cy qy|sy|? ? ?]; try discriminate;
    cbn [cmp_dec vkey wf] in *.
  - f_equal. rewrite (cmp_fin_shift sx cx qx sy cy qy (-6176)) by lia.
    replace (qx - -6176) with (qx + 6176) by lia. replace (qy - -6176) with (qy + 6176) by lia. reflexivity.
  - pose proof (key_lt_KINF cx qx (proj1 Wx) (proj2 Wx)) as K. set (a := cx * 10 ^ (qx + 6176)) in *.
    destruct sx, sy; cbn [cond_Zopp]; symmetry;
      first [apply rel_lt; lia | apply rel_gt; lia].
  - pose proof (key_lt_KINF cy qy (proj1 Wy) (proj2 Wy)) as K. set (a := cy * 10 ^ (qy + 6176)) in *.
    destruct sx, sy; cbn [cond_Zopp]; symmetry;
      first [apply rel_lt; lia | apply rel_gt; lia].
  - pose proof KINF_pos as K.
    destruct sx, sy; cbn [Bool.eqb cond_Zopp]; symmetry;
      first [apply rel_eq; reflexivity | apply rel_lt; lia | apply rel_gt; lia].
Qed.

Lemma cmp_dec_nan_l dx dy : is_nan dx = true -> cmp_dec dx dy = RUn.
Proof. destruct dx; try discriminate. reflexivity. Qed.
Lemma cmp_dec_nan_r dx dy : is_nan dy = true -> cmp_dec dx dy = RUn.
Proof. destruct dy; try discriminate. destruct dx; reflexivity. Qed.
Lemma cmp_dec_ordered dx dy : is_nan dx = false -> is_nan dy = false -> cmp_dec dx dy <> RUn.
Proof.
  destruct dx as [sx cx qx|sx|? ? ?], dy as [sy cy qy|sy|? ? ?]; try discriminate; intros _ _; cbn [cmp_dec].
  - destruct (cmp_fin sx cx qx sy cy qy); discriminate.
  - destruct sy; discriminate.
  - destruct sx; discriminate.
  - destruct (Bool.eqb sx sy), sx; discriminate.
Qed.

(* ---------- the 20 predicates: intended truth table, written independently of pred_rels ---------- *)
Definition is_less (r:rel) : bool := match r with RLt => true | _ => false end.
Definition is_equal (r:rel) : bool := match r with REq => true | _ => false end.
Definition is_greater (r:rel) : bool := match r with RGt => true | _ => false end.
Definition is_unordered (r:rel) : bool := match r with RUn => true | _ => false end.

(* numbering of the harness: 0..11 compare_quiet_*, 12..19 compare_signaling_* (IEEE 754-2008 table 5.1-5.3) *)
Definition pred_truth (i:Z) (r:rel) : bool :=
  match i with
  | 0 => is_equal r                               (* quiet_equal *)
  | 1 => is_greater r                             (* quiet_greater *)
  | 2 => is_greater r || is_equal r               (* quiet_greater_equal *)
  | 3 => is_greater r || is_unordered r           (* quiet_greater_unordered *)
  | 4 => is_less r                                (* quiet_less *)
  | 5 => is_less r || is_equal r                  (* quiet_less_equal *)
  | 6 => is_less r || is_unordered r              (* quiet_less_unordered *)
  | 7 => negb (is_equal r)                        (* quiet_not_equal *)
  | 8 => negb (is_greater r)                      (* quiet_not_greater *)
  | 9 => negb (is_less r)                         (* quiet_not_less *)
  | 10 => negb (is_unordered r)                   (* quiet_ordered *)
  | 11 => is_unordered r                          (* quiet_unordered *)
  | 12 => is_greater r                            (* signaling_greater *)
  | 13 => is_greater r || is_equal r              (* signaling_greater_equal *)
  | 14 => is_greater r || is_unordered r          (* signaling_greater_unordered *)
  | 15 => is_less r                               (* signaling_less *)
  | 16 => is_less r || is_equal r                 (* signaling_less_equal *)
  | 17 => is_less r || is_unordered r             (* signaling_less_unordered *)
  | 18 => negb (is_greater r)                     (* signaling_not_greater *)
  | 19 => negb (is_less r)                        (* signaling_not_less *)
  | _ => false
  end.

(* invalid rule: quiet predicates (0..11) signal on a signaling NaN only, signaling predicates (12..19) on any NaN *)
Definition cmp_invalid (i:Z) (dx dy:dec) : bool :=
  if i <? 12 then is_snan dx || is_snan dy else is_nan dx || is_nan dy.

Lemma pred_rels_truth i r : 0 <= i < 20 -> existsb (rel_eqb r) (pred_rels i) = pred_truth i r.
Proof.
  intros H.
  assert (D : i = 0 \/ i = 1 \/ i = 2 \/ i = 3 \/ i = 4 \/ i = 5 \/ i = 6 \/ i = 7 \/ i = 8 \/ i = 9 \/ i = 10 \/
              i = 11 \/ i = 12 \/ i = 13 \/ i = 14 \/ i = 15 \/ i = 16 \/ i = 17 \/ i = 18 \/ i = 19) by lia.
  repeat (destruct D as [D|D]); subst i; destruct r; reflexivity.
Qed.

Theorem m_cmp_spec x y i : 0 <= i < 20 ->
  m_cmp x y i = [([b2z (pred_truth i (cmp_dec (decode x) (decode y)))],
                  if cmp_invalid i (decode x) (decode y) then F_INV else 0)].
Proof.
  intros H. unfold m_cmp. cbv zeta. rewrite (pred_rels_truth i _ H). unfold pred_signaling, cmp_invalid.
  destruct (Z.leb_spec 12 i), (Z.ltb_spec i 12); try lia; reflexivity.
Qed.

Theorem m_cmp_flags x y i outs fl : 0 <= i < 20 -> In (outs, fl) (m_cmp x y i) ->
  (fl = 0 \/ fl = F_INV) /\
  (i < 12 -> (fl = F_INV <-> is_snan (decode x) = true \/ is_snan (decode y) = true)) /\
  (12 <= i -> (fl = F_INV <-> is_nan (decode x) = true \/ is_nan (decode y) = true)).
Proof.
  intros H Hin. rewrite (m_cmp_spec x y i H) in Hin. destruct Hin as [E|[]]. injection E as _ <-.
  unfold cmp_invalid, F_INV.
  destruct (Z.ltb_spec i 12) as [L|L].
  - destruct (is_snan (decode x)), (is_snan (decode y)); cbn [orb]; repeat split; try lia; auto;
      try (intros _ [K|K]; discriminate K).
  - destruct (is_nan (decode x)), (is_nan (decode y)); cbn [orb]; repeat split; try lia; auto;
      try (intros _ [K|K]; discriminate K).
Qed.

Theorem m_cmp_bool x y i outs fl : In (outs, fl) (m_cmp x y i) -> outs = [0] \/ outs = [1].
Proof.
  unfold m_cmp. cbv zeta. intros [E|[]]. injection E as <- _.
  destruct (existsb _ _); [right|left]; reflexivity.
Qed.

(* ---------- Rust operators ---------- *)
Definition pc_code (r:rel) : Z := match r with RLt => 1 | REq => 2 | RGt => 3 | RUn => 0 end.

Theorem ops_agree x y : is_nan (decode x) = false -> is_nan (decode y) = false ->
  let r := cmp_dec (decode x) (decode y) in
  let ob i := b2z (pred_truth i r) in
  r <> RUn /\
  m_ops x y = [([ob 0 + 2 * ob 4 + 4 * ob 5 + 8 * ob 1 + 16 * ob 2 + 32 * pc_code r + 128 * ob 7], 0)].
Proof.
  intros Nx Ny r ob. split; [apply cmp_dec_ordered; assumption|].
  unfold m_ops, m_partial_cmp, m_eq, ob. rewrite Nx, Ny. cbn [andb]. fold r. destruct r; reflexivity.
Qed.

(* ---------- Eq / PartialOrd / Hash layer (C20), through the key ---------- *)
Lemma m_eq_key dx dy : wf dx -> wf dy ->
  m_eq dx dy = if is_nan dx then is_nan dy else if is_nan dy then false else vkey dx =? vkey dy.
Proof.
  intros Wx Wy. unfold m_eq. destruct (is_nan dx) eqn:Nx, (is_nan dy) eqn:Ny; cbn [andb].
  - reflexivity.
  - now rewrite cmp_dec_nan_l.
  - now rewrite cmp_dec_nan_r.
  - rewrite cmp_dec_key by assumption. destruct (Z.compare_spec (vkey dx) (vkey dy)) as [E|L|G]; cbn [rel_of]; symmetry.
    + apply Z.eqb_eq; exact E.
    + apply Z.eqb_neq; lia.
    + apply Z.eqb_neq; lia.
Qed.

Lemma m_pc_key dx dy : wf dx -> wf dy ->
  m_partial_cmp dx dy =
  if is_nan dx then (if is_nan dy then 2 else 0) else if is_nan dy then 0
  else match vkey dx ?= vkey dy with Lt => 1 | Eq => 2 | Gt => 3 end.
Proof.
  intros Wx Wy. unfold m_partial_cmp. rewrite m_eq_key by assumption.
  destruct (is_nan dx) eqn:Nx, (is_nan dy) eqn:Ny.
  - reflexivity.
  - now rewrite cmp_dec_nan_l.
  - now rewrite cmp_dec_nan_r.
  - rewrite cmp_dec_key by assumption.
    destruct (Z.compare_spec (vkey dx) (vkey dy)) as [E|L|G]; cbn [rel_of].
    + apply Z.eqb_eq in E. now rewrite E.
    + assert (N : (vkey dx =? vkey dy) = false) by (apply Z.eqb_neq; lia). now rewrite N.
    + assert (N : (vkey dx =? vkey dy) = false) by (apply Z.eqb_neq; lia). now rewrite N.
Qed.

Theorem eq_refl_wf d : wf d -> m_eq d d = true.
Proof. intros W. rewrite m_eq_key by assumption. destruct (is_nan d); [reflexivity|apply Z.eqb_refl]. Qed.

Theorem eq_sym_wf dx dy : wf dx -> wf dy -> m_eq dx dy = m_eq dy dx.
Proof.
  intros Wx Wy. rewrite !m_eq_key by assumption. destruct (is_nan dx), (is_nan dy); try reflexivity. apply Z.eqb_sym.
Qed.

Theorem eq_trans_wf dx dy dz : wf dx -> wf dy -> wf dz -> m_eq dx dy = true -> m_eq dy dz = true -> m_eq dx dz = true.
Proof.
  intros Wx Wy Wz. rewrite !m_eq_key by assumption.
  destruct (is_nan dx), (is_nan dy), (is_nan dz); try discriminate; try reflexivity.
  rewrite !Z.eqb_eq. congruence.
Qed.

Theorem eq_nan_class dx dy : is_nan dx = true -> is_nan dy = true -> m_eq dx dy = true.
Proof. intros Nx Ny. unfold m_eq. now rewrite Nx, Ny. Qed.

Theorem eq_nan_number dx dy : is_nan dx = true -> is_nan dy = false -> m_eq dx dy = false /\ m_eq dy dx = false.
Proof.
  intros Nx Ny. unfold m_eq. rewrite Nx, Ny. cbn [andb]. now rewrite cmp_dec_nan_l, cmp_dec_nan_r.
Qed.

Theorem eq_numeric_key dx dy : wf dx -> wf dy -> is_nan dx = false -> is_nan dy = false ->
  (m_eq dx dy = true <-> vkey dx = vkey dy).
Proof. intros Wx Wy Nx Ny. rewrite m_eq_key by assumption. rewrite Nx, Ny. apply Z.eqb_eq. Qed.

Theorem pc_range dx dy : 0 <= m_partial_cmp dx dy <= 3.
Proof. unfold m_partial_cmp. destruct (m_eq dx dy); [lia|]. destruct (cmp_dec dx dy); lia. Qed.

Theorem pc_equal_iff_eq dx dy : m_partial_cmp dx dy = 2 <-> m_eq dx dy = true.
Proof.
  unfold m_partial_cmp. destruct (m_eq dx dy); [tauto|]. destruct (cmp_dec dx dy); split; (lia || discriminate).
Qed.

Theorem pc_none_iff_one_nan dx dy : wf dx -> wf dy ->
  (m_partial_cmp dx dy = 0 <-> xorb (is_nan dx) (is_nan dy) = true).
Proof.
  intros Wx Wy. rewrite m_pc_key by assumption. destruct (is_nan dx), (is_nan dy); cbn [xorb]; try (split; (lia || discriminate || reflexivity)).
  destruct (vkey dx ?= vkey dy); split; (lia || discriminate).
Qed.

Theorem pc_antisym_wf dx dy : wf dx -> wf dy ->
  (m_partial_cmp dx dy = 1 <-> m_partial_cmp dy dx = 3) /\
  (m_partial_cmp dx dy = 3 <-> m_partial_cmp dy dx = 1) /\
  (m_partial_cmp dx dy = 2 <-> m_partial_cmp dy dx = 2) /\
  (m_partial_cmp dx dy = 0 <-> m_partial_cmp dy dx = 0).
Proof.
  intros Wx Wy. rewrite !m_pc_key by assumption.
  destruct (is_nan dx), (is_nan dy); try (repeat split; intros; (lia || discriminate)).
  destruct (Z.compare_spec (vkey dx) (vkey dy)), (Z.compare_spec (vkey dy) (vkey dx)); lia.
Qed.

Theorem pc_trans_wf dx dy dz : wf dx -> wf dy -> wf dz ->
  let pc := m_partial_cmp in
  (pc dx dy = 1 -> pc dy dz = 1 -> pc dx dz = 1) /\
  (pc dx dy = 1 -> pc dy dz = 2 -> pc dx dz = 1) /\
  (pc dx dy = 2 -> pc dy dz = 1 -> pc dx dz = 1) /\
  (pc dx dy = 2 -> pc dy dz = 2 -> pc dx dz = 2) /\
  (pc dx dy = 3 -> pc dy dz = 3 -> pc dx dz = 3) /\
  (pc dx dy = 3 -> pc dy dz = 2 -> pc dx dz = 3) /\
  (pc dx dy = 2 -> pc dy dz = 3 -> pc dx dz = 3).
Proof.
  intros Wx Wy Wz pc. unfold pc. rewrite !m_pc_key by assumption.
  destruct (is_nan dx), (is_nan dy), (is_nan dz); try (repeat split; intros; (lia || discriminate)).
  destruct (Z.compare_spec (vkey dx) (vkey dy)), (Z.compare_spec (vkey dy) (vkey dz)),
           (Z.compare_spec (vkey dx) (vkey dz)); lia.
Qed.

(* the operator bits of m_ops, for all operands including NaNs *)
Theorem ops_consistent x y :
  let pc := m_partial_cmp (decode x) (decode y) in
  exists eq lt le gt ge : bool,
    m_ops x y = [([b2z eq + 2 * b2z lt + 4 * b2z le + 8 * b2z gt + 16 * b2z ge + 32 * pc + 128 * b2z (negb eq)], 0)] /\
    eq = m_eq (decode x) (decode y) /\ 0 <= pc <= 3 /\
    (eq = true <-> pc = 2) /\ (lt = true <-> pc = 1) /\ (gt = true <-> pc = 3) /\
    (le = true <-> pc = 1 \/ pc = 2) /\ (ge = true <-> pc = 3 \/ pc = 2).
Proof.
  intros pc. pose proof (pc_range (decode x) (decode y)) as R. pose proof (pc_equal_iff_eq (decode x) (decode y)) as E.
  fold pc in R, E.
  exists (m_eq (decode x) (decode y)), (pc =? 1), ((pc =? 1) || (pc =? 2)), (pc =? 3), ((pc =? 3) || (pc =? 2)).
  split; [reflexivity|]. split; [reflexivity|]. split; [exact R|].
  rewrite !orb_true_iff, !Z.eqb_eq. tauto.
Qed.

Theorem hash_respects_eq x y same :
  m_hasheq x y same = true <-> (m_eq (decode x) (decode y) = true -> same = 1).
Proof.
  unfold m_hasheq. destruct (m_eq (decode x) (decode y)).
  - rewrite Z.eqb_eq. tauto.
  - split; [discriminate|reflexivity].
Qed.

(* the same for decoded bit patterns *)
Theorem eq_equivalence x y z : 0 <= x < P128 -> 0 <= y < P128 -> 0 <= z < P128 ->
  m_eq (decode x) (decode x) = true /\
  m_eq (decode x) (decode y) = m_eq (decode y) (decode x) /\
  (m_eq (decode x) (decode y) = true -> m_eq (decode y) (decode z) = true -> m_eq (decode x) (decode z) = true).
Proof.
  intros Hx Hy Hz. pose proof (decode_wf x Hx). pose proof (decode_wf y Hy). pose proof (decode_wf z Hz).
  split; [now apply eq_refl_wf|]. split; [now apply eq_sym_wf|]. now apply eq_trans_wf.
Qed.

Theorem pc_antisym x y : 0 <= x < P128 -> 0 <= y < P128 ->
  (m_partial_cmp (decode x) (decode y) = 1 <-> m_partial_cmp (decode y) (decode x) = 3) /\
  (m_partial_cmp (decode x) (decode y) = 3 <-> m_partial_cmp (decode y) (decode x) = 1) /\
  (m_partial_cmp (decode x) (decode y) = 2 <-> m_partial_cmp (decode y) (decode x) = 2) /\
  (m_partial_cmp (decode x) (decode y) = 0 <-> m_partial_cmp (decode y) (decode x) = 0).
Proof. intros Hx Hy. apply pc_antisym_wf; now apply decode_wf. Qed.

Theorem pc_trans x y z : 0 <= x < P128 -> 0 <= y < P128 -> 0 <= z < P128 ->
  let pc a b := m_partial_cmp (decode a) (decode b) in
  (pc x y = 1 -> pc y z = 1 -> pc x z = 1) /\
  (pc x y = 1 -> pc y z = 2 -> pc x z = 1) /\
  (pc x y = 2 -> pc y z = 1 -> pc x z = 1) /\
  (pc x y = 2 -> pc y z = 2 -> pc x z = 2) /\
  (pc x y = 3 -> pc y z = 3 -> pc x z = 3) /\
  (pc x y = 3 -> pc y z = 2 -> pc x z = 3) /\
  (pc x y = 2 -> pc y z = 3 -> pc x z = 3).
Proof. intros Hx Hy Hz pc. unfold pc. apply pc_trans_wf; now apply decode_wf. Qed.

Theorem pc_none_iff x y : 0 <= x < P128 -> 0 <= y < P128 ->
  (m_partial_cmp (decode x) (decode y) = 0 <-> xorb (is_nan (decode x)) (is_nan (decode y)) = true).
Proof. intros Hx Hy. apply pc_none_iff_one_nan; now apply decode_wf. Qed.

(* ================================================================================================ *)
(* Part 2: against the real numbers                                                                 *)
(* ================================================================================================ *)
From Coq Require Import Reals Lra.
From Flocq Require Import Core.Core.

Theorem cmp_mag_correct cx qx cy qy : 0 <= cx -> 0 <= cy ->
  cmp_mag cx qx cy qy = Rcompare (F2R (Float radix10 cx qx)) (F2R (Float radix10 cy qy)).
Proof.
  intros Hx Hy. rewrite cmp_mag_int by assumption. set (e := Z.min qx qy).
  rewrite (F2R_change_exp radix10 e cx qx) by lia. rewrite (F2R_change_exp radix10 e cy qy) by lia.
  rewrite Rcompare_F2R. reflexivity.
Qed.

Theorem cmp_fin_correct sx cx qx sy cy qy : 0 <= cx -> 0 <= cy ->
  cmp_fin sx cx qx sy cy qy = Rcompare (D2R (Fin sx cx qx)) (D2R (Fin sy cy qy)).
Proof.
  intros Hx Hy. set (e := Z.min qx qy).
  rewrite (cmp_fin_shift sx cx qx sy cy qy e) by lia. unfold D2R.
  rewrite (F2R_change_exp radix10 e (cond_Zopp sx cx) qx) by lia.
  rewrite (F2R_change_exp radix10 e (cond_Zopp sy cy) qy) by lia.
  rewrite Rcompare_F2R. rewrite <- !cond_Zopp_mul. reflexivity.
Qed.

(* the specification: the order of the extended reals; None = NaN *)
Inductive xreal := XNegInf | XFin (r:R) | XPosInf.
Definition xval (d:dec) : option xreal :=
  match d with
  | NaN _ _ _ => None
  | Inf s => Some (if s then XNegInf else XPosInf)
  | Fin _ _ _ => Some (XFin (D2R d))
  end.
Definition xcompare (a b : xreal) : comparison :=
  match a, b with
  | XNegInf, XNegInf => Eq | XNegInf, _ => Lt | _, XNegInf => Gt
  | XPosInf, XPosInf => Eq | XPosInf, _ => Gt | _, XPosInf => Lt
  | XFin u, XFin v => Rcompare u v
  end.
Definition spec_rel (dx dy : dec) : rel :=
  match xval dx, xval dy with Some a, Some b => rel_of (xcompare a b) | _, _ => RUn end.

Theorem cmp_dec_spec_wf dx dy : wf dx -> wf dy -> cmp_dec dx dy = spec_rel dx dy.
Proof.
  intros Wx Wy. destruct dx as [sx cx qx|sx|? ? ?], dy as [sy cy qy|sy|? ? ?];
    cbv beta iota delta [spec_rel xval xcompare cmp_dec]; try reflexivity.
  - cbn [wf] in Wx, Wy. rewrite cmp_fin_correct by lia. reflexivity.
  - destruct sy; reflexivity.
  - destruct sx; reflexivity.
  - destruct sx, sy; reflexivity.
Qed.

Theorem cmp_dec_spec x y : 0 <= x < P128 -> 0 <= y < P128 ->
  cmp_dec (decode x) (decode y) = spec_rel (decode x) (decode y).
Proof. intros Hx Hy. apply cmp_dec_spec_wf; now apply decode_wf. Qed.

Theorem cmp_dec_real_order x y : 0 <= x < P128 -> 0 <= y < P128 ->
  is_fin (decode x) = true -> is_fin (decode y) = true ->
  cmp_dec (decode x) (decode y) = rel_of (Rcompare (D2R (decode x)) (D2R (decode y))).
Proof.
  intros Hx Hy Fx Fy. rewrite cmp_dec_spec by assumption.
  destruct (decode x); try discriminate. destruct (decode y); try discriminate. reflexivity.
Qed.

(* consequences named in the property *)
Theorem cohort_equal x y : 0 <= x < P128 -> 0 <= y < P128 ->
  is_fin (decode x) = true -> is_fin (decode y) = true ->
  (cmp_dec (decode x) (decode y) = REq <-> D2R (decode x) = D2R (decode y)).
Proof.
  intros Hx Hy Fx Fy. rewrite cmp_dec_real_order by assumption. split.
  - intros H. apply Rcompare_Eq_inv. destruct (Rcompare _ _); try discriminate. reflexivity.
  - intros ->. now rewrite Rcompare_Eq.
Qed.

Theorem zero_signs_equal s q s' q' : cmp_dec (Fin s 0 q) (Fin s' 0 q') = REq.
Proof. reflexivity. Qed.

Theorem inf_bounds s c q :
  cmp_dec (Fin s c q) (Inf false) = RLt /\ cmp_dec (Inf false) (Fin s c q) = RGt /\
  cmp_dec (Inf true) (Fin s c q) = RLt /\ cmp_dec (Fin s c q) (Inf true) = RGt /\
  cmp_dec (Inf true) (Inf false) = RLt /\ cmp_dec (Inf false) (Inf true) = RGt /\
  cmp_dec (Inf s) (Inf s) = REq.
Proof. repeat split. destruct s; reflexivity. Qed.

Theorem nan_unordered dx dy : cmp_dec dx dy = RUn <-> is_nan dx || is_nan dy = true.
Proof.
  split.
  - intros H. destruct (is_nan dx) eqn:Nx; [reflexivity|]. destruct (is_nan dy) eqn:Ny; [reflexivity|].
    exfalso. exact (cmp_dec_ordered dx dy Nx Ny H).
  - intros H. apply orb_true_iff in H. destruct H as [H|H]; [now apply cmp_dec_nan_l|now apply cmp_dec_nan_r].
Qed.

(* all 20 predicates at once: value from the order of the extended reals, flag from the NaN kinds *)
Theorem m_cmp_real_order x y i : 0 <= x < P128 -> 0 <= y < P128 -> 0 <= i < 20 ->
  m_cmp x y i = [([b2z (pred_truth i (spec_rel (decode x) (decode y)))],
                  if cmp_invalid i (decode x) (decode y) then F_INV else 0)].
Proof. intros Hx Hy Hi. rewrite m_cmp_spec by assumption. now rewrite cmp_dec_spec. Qed.

(* equality of the trait layer is equality of real values *)
Theorem eq_numeric_real x y : 0 <= x < P128 -> 0 <= y < P128 ->
  is_fin (decode x) = true -> is_fin (decode y) = true ->
  (m_eq (decode x) (decode y) = true <-> D2R (decode x) = D2R (decode y)).
Proof.
  intros Hx Hy Fx Fy. rewrite <- cohort_equal by assumption. unfold m_eq.
  destruct (decode x); try discriminate. destruct (decode y); try discriminate. cbn [is_nan andb].
  destruct (cmp_dec _ _); split; (reflexivity || discriminate).
Qed.

(* ================================================================================================ *)
(* min / max (C16)                                                                                  *)
(* ================================================================================================ *)
Definition rel_opp (r:rel) : rel := match r with RLt => RGt | RGt => RLt | r => r end.

Lemma xcompare_sym a b : xcompare b a = CompOpp (xcompare a b).
Proof. destruct a, b; try reflexivity. cbn [xcompare]. apply Rcompare_sym. Qed.

Lemma spec_rel_sym dx dy : spec_rel dy dx = rel_opp (spec_rel dx dy).
Proof.
  unfold spec_rel. destruct (xval dx) as [a|], (xval dy) as [b|]; try reflexivity.
  rewrite (xcompare_sym a b). destruct (xcompare a b); reflexivity.
Qed.

(* antisymmetry of the model's relation, through the key (axiom-free) *)
Lemma cmp_dec_sym_wf dx dy : wf dx -> wf dy -> cmp_dec dy dx = rel_opp (cmp_dec dx dy).
Proof.
  intros Wx Wy. destruct (is_nan dx) eqn:Nx.
  { rewrite (cmp_dec_nan_r dy dx), (cmp_dec_nan_l dx dy) by assumption. reflexivity. }
  destruct (is_nan dy) eqn:Ny.
  { rewrite (cmp_dec_nan_l dy dx), (cmp_dec_nan_r dx dy) by assumption. reflexivity. }
  rewrite !cmp_dec_key by assumption. rewrite (Z.compare_antisym (vkey dx) (vkey dy)).
  destruct (vkey dx ?= vkey dy); reflexivity.
Qed.

Lemma snan_is_nan d : is_nan d = false -> is_snan d = false.
Proof. destruct d; try reflexivity. discriminate. Qed.

Lemma wf_abs d : wf d -> wf (abs_dec d).
Proof. destruct d; exact (fun H => H). Qed.
Lemma is_nan_abs d : is_nan (abs_dec d) = is_nan d.
Proof. destruct d; reflexivity. Qed.

(* the relation that governs operation k, in the order of the (extended) reals *)
Definition mm_rel (k:mmkind) (d d':dec) : rel :=
  if is_mag k then match spec_rel (abs_dec d) (abs_dec d') with REq => spec_rel d d' | r => r end
  else spec_rel d d'.
(* "d is at least as good a result as d'": below-or-equal for the minima, above-or-equal for the maxima *)
Definition mm_pref (k:mmkind) (d d':dec) : Prop :=
  if is_min k then mm_rel k d d' = RLt \/ mm_rel k d d' = REq
  else mm_rel k d d' = RGt \/ mm_rel k d d' = REq.

Lemma m_minmax_numbers_eq k x y : is_nan (decode x) = false -> is_nan (decode y) = false ->
  m_minmax k x y =
    let dx := decode x in let dy := decode y in
    let r0 := if is_mag k then cmp_dec (abs_dec dx) (abs_dec dy) else REq in
    let r := match r0 with REq => cmp_dec dx dy | _ => r0 end in
    match r with
    | REq => [([encode dx], 0); ([encode dy], 0)]
    | RLt => if is_min k then out1 dx 0 else out1 dy 0
    | _ => if is_min k then out1 dy 0 else out1 dx 0
    end.
Proof.
  intros Nx Ny. unfold m_minmax. cbv zeta.
  rewrite (snan_is_nan _ Nx), (snan_is_nan _ Ny), Nx, Ny. reflexivity.
Qed.

(* accepted outcomes for two numbers: exactly the operands (canonical encoding, no flag) that are preferred *)
Theorem minmax_numbers k x y o : 0 <= x < P128 -> 0 <= y < P128 ->
  is_nan (decode x) = false -> is_nan (decode y) = false ->
  (In o (m_minmax k x y) <->
   (o = ([encode (decode x)], 0) /\ mm_pref k (decode x) (decode y)) \/
   (o = ([encode (decode y)], 0) /\ mm_pref k (decode y) (decode x))).
Proof.
  intros Hx Hy Nx Ny. rewrite m_minmax_numbers_eq by assumption. cbv zeta.
  pose proof (decode_wf x Hx) as Wx. pose proof (decode_wf y Hy) as Wy.
  pose proof (cmp_dec_ordered _ _ Nx Ny) as O2.
  assert (O1 : cmp_dec (abs_dec (decode x)) (abs_dec (decode y)) <> RUn)
    by (apply cmp_dec_ordered; rewrite is_nan_abs; assumption).
  rewrite (cmp_dec_spec_wf _ _ (wf_abs _ Wx) (wf_abs _ Wy)) in *. rewrite (cmp_dec_spec_wf _ _ Wx Wy) in *.
  unfold mm_pref, mm_rel.
  rewrite (spec_rel_sym (decode x) (decode y)), (spec_rel_sym (abs_dec (decode x)) (abs_dec (decode y))).
  set (r1 := spec_rel (abs_dec (decode x)) (abs_dec (decode y))) in *.
  set (r2 := spec_rel (decode x) (decode y)) in *.
  set (ox := ([encode (decode x)], 0)). set (oy := ([encode (decode y)], 0)).
  unfold out1. fold ox oy.
  destruct k, r1, r2; cbn [is_mag is_min rel_opp In]; try (exfalso; congruence);
    (split; intros H;
     [ repeat (destruct H as [H|H]); try contradiction; subst o; auto
     | destruct H as [[E [P|P]]|[E [P|P]]]; subst o; try discriminate P; auto ]).
Qed.

(* the accepted results are operands, in canonical form, and nothing is raised *)
Theorem minmax_operand_canonical k x y outs fl : 0 <= x < P128 -> 0 <= y < P128 ->
  is_nan (decode x) = false -> is_nan (decode y) = false ->
  In (outs, fl) (m_minmax k x y) ->
  fl = 0 /\ exists b, outs = [b] /\ canonical_bits b = true /\
    ((b = encode (decode x) /\ decode b = decode x) \/ (b = encode (decode y) /\ decode b = decode y)).
Proof.
  intros Hx Hy Nx Ny Hin. rewrite m_minmax_numbers_eq in Hin by assumption. cbv zeta in Hin.
  pose proof (decode_wf x Hx) as Wx. pose proof (decode_wf y Hy) as Wy.
  assert (E : (outs, fl) = ([encode (decode x)], 0) \/ (outs, fl) = ([encode (decode y)], 0)).
  { unfold out1 in Hin.
    destruct (is_mag k), (is_min k), (cmp_dec (abs_dec (decode x)) (abs_dec (decode y))), (cmp_dec (decode x) (decode y));
      cbn [In] in Hin; repeat (destruct Hin as [Hin|Hin]); try contradiction; auto. }
  destruct E as [E|E]; injection E as -> ->; (split; [reflexivity|]).
  - exists (encode (decode x)). split; [reflexivity|]. split; [now apply encode_canonical|].
    left. split; [reflexivity|now apply decode_encode].
  - exists (encode (decode y)). split; [reflexivity|]. split; [now apply encode_canonical|].
    right. split; [reflexivity|now apply decode_encode].
Qed.

(* equal values: both operands are accepted, for all four kinds *)
Lemma vkey_abs d : wf d -> vkey (abs_dec d) = Z.abs (vkey d).
Proof.
  destruct d as [s c q|s|? ? ?]; cbn [wf abs_dec set_sign vkey]; intros W.
  - pose proof (key_lt_KINF c q (proj1 W) (proj2 W)) as K. set (a := c * 10 ^ (q + 6176)) in *.
    destruct s; cbn [cond_Zopp]; lia.
  - pose proof KINF_pos. destruct s; cbn [cond_Zopp]; lia.
  - reflexivity.
Qed.

Theorem minmax_equal_both k x y : 0 <= x < P128 -> 0 <= y < P128 ->
  cmp_dec (decode x) (decode y) = REq ->
  m_minmax k x y = [([encode (decode x)], 0); ([encode (decode y)], 0)].
Proof.
  intros Hx Hy E.
  assert (Nx : is_nan (decode x) = false).
  { destruct (is_nan (decode x)) eqn:N; [|reflexivity]. rewrite cmp_dec_nan_l in E by assumption. discriminate. }
  assert (Ny : is_nan (decode y) = false).
  { destruct (is_nan (decode y)) eqn:N; [|reflexivity]. rewrite cmp_dec_nan_r in E by assumption. discriminate. }
  rewrite m_minmax_numbers_eq by assumption. cbv zeta.
  pose proof (decode_wf x Hx) as Wx. pose proof (decode_wf y Hy) as Wy.
  assert (A : cmp_dec (abs_dec (decode x)) (abs_dec (decode y)) = REq).
  { rewrite cmp_dec_key; try (apply wf_abs; assumption); try (rewrite is_nan_abs; assumption).
    rewrite cmp_dec_key in E by assumption. rewrite !vkey_abs by assumption.
    destruct (Z.compare_spec (vkey (decode x)) (vkey (decode y))) as [K|K|K]; try discriminate E.
    rewrite K. now rewrite Z.compare_refl. }
  rewrite A, E. destruct (is_mag k); reflexivity.
Qed.

(* finite operands: the value of the result in terms of Rmin / Rmax *)
Lemma spec_rel_fin dx dy : is_fin dx = true -> is_fin dy = true ->
  spec_rel dx dy = rel_of (Rcompare (D2R dx) (D2R dy)).
Proof. destruct dx; try discriminate. destruct dy; try discriminate. reflexivity. Qed.

Lemma D2R_abs d : wf d -> is_fin d = true -> D2R (abs_dec d) = Rabs (D2R d).
Proof.
  destruct d as [s c q|s|? ? ?]; try discriminate. cbn [wf abs_dec set_sign]. intros W _. unfold D2R.
  rewrite <- F2R_Zabs, abs_cond_Zopp. cbn [cond_Zopp]. rewrite Z.abs_eq by lia. reflexivity.
Qed.

Lemma is_fin_abs d : is_fin (abs_dec d) = is_fin d.
Proof. destruct d; reflexivity. Qed.

Ltac rminmax :=
  unfold Rmin, Rmax; repeat match goal with |- context [Rle_dec ?a ?b] => destruct (Rle_dec a b) end; lra.

Theorem minmax_finite_value k x y outs fl : 0 <= x < P128 -> 0 <= y < P128 ->
  is_fin (decode x) = true -> is_fin (decode y) = true ->
  In (outs, fl) (m_minmax k x y) ->
  exists b, outs = [b] /\ fl = 0 /\ (b = encode (decode x) \/ b = encode (decode y)) /\
    let v := D2R (decode b) in let vx := D2R (decode x) in let vy := D2R (decode y) in
    match k with
    | MinNum => v = Rmin vx vy
    | MaxNum => v = Rmax vx vy
    | MinMag => Rabs v = Rmin (Rabs vx) (Rabs vy) /\ (Rabs vx = Rabs vy -> v = Rmin vx vy)
    | MaxMag => Rabs v = Rmax (Rabs vx) (Rabs vy) /\ (Rabs vx = Rabs vy -> v = Rmax vx vy)
    end.
Proof.
  intros Hx Hy Fx Fy Hin.
  assert (Nx : is_nan (decode x) = false) by (destruct (decode x); try discriminate; reflexivity).
  assert (Ny : is_nan (decode y) = false) by (destruct (decode y); try discriminate; reflexivity).
  apply minmax_numbers in Hin; try assumption.
  pose proof (decode_wf x Hx) as Wx. pose proof (decode_wf y Hy) as Wy.
  unfold mm_pref, mm_rel in Hin.
  rewrite !spec_rel_fin in Hin by (rewrite ?is_fin_abs; assumption).
  rewrite !D2R_abs in Hin by assumption.
  destruct Hin as [[E P]|[E P]]; injection E as -> ->.
  - exists (encode (decode x)). split; [reflexivity|]. split; [reflexivity|]. split; [left; reflexivity|].
    rewrite decode_encode by assumption. cbv zeta.
    set (vx := D2R (decode x)) in *. set (vy := D2R (decode y)) in *.
    destruct k; cbn [is_min is_mag] in P;
      destruct (Rcompare_spec vx vy) as [C|C|C]; try destruct (Rcompare_spec (Rabs vx) (Rabs vy)) as [A|A|A];
      cbn [rel_of] in P; try (destruct P as [P|P]; discriminate P); try split; try intros AE; rminmax.
  - exists (encode (decode y)). split; [reflexivity|]. split; [reflexivity|]. split; [right; reflexivity|].
    rewrite decode_encode by assumption. cbv zeta.
    set (vx := D2R (decode x)) in *. set (vy := D2R (decode y)) in *.
    destruct k; cbn [is_min is_mag] in P;
      destruct (Rcompare_spec vy vx) as [C|C|C]; try destruct (Rcompare_spec (Rabs vy) (Rabs vx)) as [A|A|A];
      cbn [rel_of] in P; try (destruct P as [P|P]; discriminate P); try split; try intros AE; rminmax.
Qed.

(* NaN operands *)
Theorem minmax_one_qnan k x y :
  is_nan (decode x) = true -> is_snan (decode x) = false -> is_nan (decode y) = false ->
  m_minmax k x y = [([encode (decode y)], 0)] /\ m_minmax k y x = [([encode (decode y)], 0)].
Proof.
  intros Nx Sx Ny. unfold m_minmax. cbv zeta. rewrite Sx, (snan_is_nan _ Ny), Nx, Ny. split; reflexivity.
Qed.

Theorem minmax_two_qnan k x y o :
  is_nan (decode x) = true -> is_snan (decode x) = false -> is_nan (decode y) = true -> is_snan (decode y) = false ->
  (In o (m_minmax k x y) <->
   exists s p, (decode x = NaN s false p \/ decode y = NaN s false p) /\ o = ([encode (NaN s false p)], 0)).
Proof.
  intros Nx Sx Ny Sy. unfold m_minmax. cbv zeta. rewrite Sx, Sy, Nx, Ny. cbn [orb andb].
  rewrite nan_outcomes_spec. cbn [existsb]. rewrite Sx, Sy. cbn [orb In]. split.
  - intros (s & sg & p & [E|[E|[]]] & ->).
    + rewrite E in Sx. destruct sg; [discriminate Sx|]. exists s, p. auto.
    + rewrite E in Sy. destruct sg; [discriminate Sy|]. exists s, p. auto.
  - intros (s & p & [E|E] & ->); exists s, false, p; auto.
Qed.

Theorem minmax_snan k x y o :
  is_snan (decode x) || is_snan (decode y) = true ->
  (In o (m_minmax k x y) <->
   exists s sg p, (decode x = NaN s sg p \/ decode y = NaN s sg p) /\ o = ([encode (NaN s false p)], F_INV)).
Proof.
  intros S. unfold m_minmax. cbv zeta. rewrite S. rewrite nan_outcomes_spec. cbn [existsb]. rewrite orb_false_r, S.
  cbn [In]. split.
  - intros (s & sg & p & [E|[E|[]]] & ->); exists s, sg, p; auto.
  - intros (s & sg & p & [E|E] & ->); exists s, sg, p; auto.
Qed.

Theorem minmax_nonempty k x y : m_minmax k x y <> [].
Proof.
  unfold m_minmax. cbv zeta.
  destruct (is_snan (decode x) || is_snan (decode y)) eqn:S.
  - apply nan_outcomes_nonempty. cbn [existsb]. rewrite orb_false_r.
    apply orb_true_iff in S. destruct S as [S|S].
    + destruct (decode x) as [| |? [|] ?]; try discriminate S. reflexivity.
    + destruct (decode y) as [| |? [|] ?]; try discriminate S. apply orb_true_r.
  - destruct (is_nan (decode x)) eqn:Nx, (is_nan (decode y)) eqn:Ny; cbn [andb]; try discriminate.
    + apply nan_outcomes_nonempty. cbn [existsb]. now rewrite Nx.
    + unfold out1. destruct (is_mag k), (is_min k), (cmp_dec (abs_dec (decode x)) (abs_dec (decode y))),
        (cmp_dec (decode x) (decode y)); discriminate.
Qed.

Theorem minmax_commutes k x y o : 0 <= x < P128 -> 0 <= y < P128 ->
  is_nan (decode x) = false -> is_nan (decode y) = false ->
  (In o (m_minmax k x y) <-> In o (m_minmax k y x)).
Proof.
  intros Hx Hy Nx Ny. rewrite !m_minmax_numbers_eq by assumption. cbv zeta.
  pose proof (decode_wf x Hx) as Wx. pose proof (decode_wf y Hy) as Wy.
  pose proof (cmp_dec_ordered _ _ Nx Ny) as O2.
  assert (O1 : cmp_dec (abs_dec (decode x)) (abs_dec (decode y)) <> RUn)
    by (apply cmp_dec_ordered; rewrite is_nan_abs; assumption).
  rewrite (cmp_dec_sym_wf (decode x) (decode y)) by assumption.
  rewrite (cmp_dec_sym_wf (abs_dec (decode x)) (abs_dec (decode y))) by (apply wf_abs; assumption).
  set (r1 := cmp_dec (abs_dec (decode x)) (abs_dec (decode y))) in *.
  set (r2 := cmp_dec (decode x) (decode y)) in *. unfold out1.
  destruct k, r1, r2; cbn [is_mag is_min rel_opp In]; try (exfalso; congruence); tauto.
Qed.

(* the operator bits are literally the outputs of the quiet predicates *)
Theorem ops_agree_cmp x y : is_nan (decode x) = false -> is_nan (decode y) = false ->
  exists e l le g ge ne,
    m_cmp x y 0 = [([e], 0)] /\ m_cmp x y 4 = [([l], 0)] /\ m_cmp x y 5 = [([le], 0)] /\
    m_cmp x y 1 = [([g], 0)] /\ m_cmp x y 2 = [([ge], 0)] /\ m_cmp x y 7 = [([ne], 0)] /\
    m_ops x y = [([e + 2 * l + 4 * le + 8 * g + 16 * ge + 32 * pc_code (cmp_dec (decode x) (decode y)) + 128 * ne], 0)].
Proof.
  intros Nx Ny. destruct (ops_agree x y Nx Ny) as [_ E]. cbv zeta in E.
  set (r := cmp_dec (decode x) (decode y)) in *.
  assert (F : forall i, 0 <= i < 12 -> m_cmp x y i = [([b2z (pred_truth i r)], 0)]).
  { intros i Hi. rewrite m_cmp_spec by lia. unfold cmp_invalid.
    destruct (Z.ltb_spec i 12); [|lia]. rewrite (snan_is_nan _ Nx), (snan_is_nan _ Ny). reflexivity. }
  exists (b2z (pred_truth 0 r)), (b2z (pred_truth 4 r)), (b2z (pred_truth 5 r)),
         (b2z (pred_truth 1 r)), (b2z (pred_truth 2 r)), (b2z (pred_truth 7 r)).
  rewrite !F by lia. repeat split. exact E.
Qed.

(* the table pred_truth, displayed as equations (for the property file) *)
Theorem pred_truth_table r :
  let lt := is_less r in let eq := is_equal r in let gt := is_greater r in let un := is_unordered r in
  (* quiet *)
  pred_truth 0 r = eq /\ pred_truth 1 r = gt /\ pred_truth 2 r = gt || eq /\ pred_truth 3 r = gt || un /\
  pred_truth 4 r = lt /\ pred_truth 5 r = lt || eq /\ pred_truth 6 r = lt || un /\
  pred_truth 7 r = negb eq /\ pred_truth 8 r = negb gt /\ pred_truth 9 r = negb lt /\
  pred_truth 10 r = negb un /\ pred_truth 11 r = un /\
  (* signaling *)
  pred_truth 12 r = gt /\ pred_truth 13 r = gt || eq /\ pred_truth 14 r = gt || un /\
  pred_truth 15 r = lt /\ pred_truth 16 r = lt || eq /\ pred_truth 17 r = lt || un /\
  pred_truth 18 r = negb gt /\ pred_truth 19 r = negb lt.
Proof. cbv zeta. repeat split. Qed.

Theorem rel_flags_exclusive r :
  (is_less r = true <-> r = RLt) /\ (is_equal r = true <-> r = REq) /\
  (is_greater r = true <-> r = RGt) /\ (is_unordered r = true <-> r = RUn).
Proof. destruct r; repeat split; (reflexivity || discriminate). Qed.

Theorem pc_code_table : pc_code RLt = 1 /\ pc_code REq = 2 /\ pc_code RGt = 3 /\ pc_code RUn = 0.
Proof. repeat split. Qed.
