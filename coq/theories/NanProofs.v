(* C12 - NaN operands: how every 2^122 NaN patterns is read, the canonical quiet NaN that is handed back,
   every flag-taking operation hands NaN operands to [nan_outcomes], and the quiet sign operations touch
   bit 127 only. No real numbers in this file: everything is closed under the global context. *)
From Coq Require Import ZArith Lia Bool List.
From DV Require Import Base Bid BidProofs Arith OpsArith OpsCmp OpsMisc OpsConv OpsStr Judge.
Import ListNotations.
Open Scope Z_scope.
Ltac Zify.zify_post_hook ::= Z.div_mod_to_equations.

Ltac unfold_consts := unfold T34, T33, P110, P111, P113, P121, P122, P123, P125, P127, P128 in *.

(* ---------- how a NaN pattern is read ---------- *)

(* the sign of every datum is bit 127 of the pattern *)
Lemma decode_sign x : sign_of (decode x) = (P127 <=? x).
Proof. unfold decode. repeat match goal with |- context [if ?b then _ else _] => destruct b end; reflexivity. Qed.

(* NaN <-> the five bits 122..126 are all ones *)
Lemma decode_nan_iff x : is_nan (decode x) = true <-> (x mod P127) / P122 = 31.
Proof.
  unfold decode. destruct (Z.eqb_spec ((x mod P127) / P122) 31) as [E|E].
  - cbn [is_nan]. tauto.
  - destruct (_ =? 30); [cbn; split; [discriminate|contradiction]|].
    destruct (24 <=? _); cbn [is_nan]; split; try discriminate; contradiction.
Qed.

(* the fields of a NaN: sign = bit 127, signaling = bit 121, payload = the low 110 bits if below 10^33, else 0;
   bits 110..120 (reserved) do not occur on the right-hand side *)
Lemma decode_nan_fields x : (x mod P127) / P122 = 31 ->
  decode x = NaN (P127 <=? x) (1 <=? (x / P121) mod 2) (if x mod P110 <? T33 then x mod P110 else 0).
Proof.
  intros E. unfold decode. rewrite E. cbn [Z.eqb Pos.eqb].
  assert (H1 : (x mod P127) mod P110 = x mod P110) by (unfold_consts; lia).
  assert (H2 : ((x mod P127) / P121) mod 2 = (x / P121) mod 2) by (unfold_consts; lia).
  rewrite H1, H2. reflexivity.
Qed.

(* synthetic form: every choice of sign, signaling bit, 11 reserved bits and 110 trailing bits *)
Lemma decode_nan_bits (s sg : bool) resv t : 0 <= resv < 2048 -> 0 <= t < P110 ->
  decode ((if s then P127 else 0) + 31 * P122 + (if sg then P121 else 0) + resv * P110 + t)
  = NaN s sg (if t <? T33 then t else 0).
Proof.
  intros Hr Ht.
  set (x := (if s then P127 else 0) + 31 * P122 + (if sg then P121 else 0) + resv * P110 + t).
  assert (E : (x mod P127) / P122 = 31) by (unfold x; unfold_consts; destruct s, sg; lia).
  rewrite (decode_nan_fields x E).
  assert (Hs : (P127 <=? x) = s).
  { unfold x. unfold_consts. destruct s, sg; [apply Z.leb_le|apply Z.leb_le|apply Z.leb_gt|apply Z.leb_gt]; lia. }
  assert (Hg : (1 <=? (x / P121) mod 2) = sg).
  { unfold x. unfold_consts. destruct s, sg; [apply Z.leb_le|apply Z.leb_gt|apply Z.leb_le|apply Z.leb_gt]; lia. }
  assert (Hp : x mod P110 = t) by (unfold x; unfold_consts; destruct s, sg; lia).
  rewrite Hs, Hg, Hp. reflexivity.
Qed.

(* every NaN pattern has that form *)
Lemma nan_pattern_fields x : 0 <= x < P128 -> (x mod P127) / P122 = 31 ->
  x = (if P127 <=? x then P127 else 0) + 31 * P122 + (if 1 <=? (x / P121) mod 2 then P121 else 0)
      + ((x / P110) mod 2048) * P110 + x mod P110.
Proof.
  intros Hx E. destruct (Z.leb_spec P127 x); destruct (Z.leb_spec 1 ((x / P121) mod 2)); unfold_consts; lia.
Qed.

(* ---------- the canonical quiet NaN ---------- *)

Lemma quiet_wf d : wf d -> wf (quiet d).
Proof. destruct d; exact (fun H => H). Qed.

Lemma quiet_nan_bits s sg p : encode (quiet (NaN s sg p)) = (if s then P127 else 0) + 31 * P122 + p.
Proof. cbn [quiet encode]. lia. Qed.

Theorem quiet_nan_canonical d : wf d -> is_nan d = true ->
  canonical_bits (encode (quiet d)) = true /\
  decode (encode (quiet d)) = quiet d /\
  is_nan (quiet d) = true /\ is_snan (quiet d) = false /\
  exists s sg p, d = NaN s sg p /\ quiet d = NaN s false p /\ 0 <= p < T33.
Proof.
  intros W N. pose proof (quiet_wf d W) as WQ.
  split; [apply encode_canonical; exact WQ|]. split; [apply decode_encode; exact WQ|].
  destruct d as [| |s sg p]; try discriminate. repeat split. exists s, sg, p. repeat split; apply W.
Qed.

(* the pattern handed back for a NaN operand pattern x, in terms of the bits of x *)
Theorem quiet_of_pattern x : 0 <= x < P128 -> is_nan (decode x) = true ->
  encode (quiet (decode x)) =
    (if P127 <=? x then P127 else 0) + 31 * P122 + (if x mod P110 <? T33 then x mod P110 else 0) /\
  canonical_bits (encode (quiet (decode x))) = true.
Proof.
  intros Hx N. split.
  - apply decode_nan_iff in N. rewrite (decode_nan_fields x N). apply quiet_nan_bits.
  - apply quiet_nan_canonical; [apply decode_wf; exact Hx|exact N].
Qed.

(* a canonical NaN pattern that is already quiet is handed back unchanged *)
Lemma quiet_of_canonical_qnan x : canonical_bits x = true -> is_nan (decode x) = true -> is_snan (decode x) = false ->
  encode (quiet (decode x)) = x.
Proof.
  intros C N S. rewrite <- (encode_decode x C) at 2. destruct (decode x) as [| |s sg p]; try discriminate.
  destruct sg; [discriminate|reflexivity].
Qed.

(* ---------- what nan_outcomes contains ---------- *)

Definition nan_result_of (ds : list dec) (o : outcome) : Prop :=
  exists s sg p, In (NaN s sg p) ds /\ 0 <= p < T33 /\
    o = ([(if s then P127 else 0) + 31 * P122 + p], if existsb is_snan ds then F_INV else 0).

Lemma existsb_snan_iff ds : existsb is_snan ds = true <-> exists s p, In (NaN s true p) ds.
Proof.
  rewrite existsb_exists. split.
  - intros (d & Hin & Hs). destruct d as [| |s sg p]; try discriminate. destruct sg; [|discriminate]. eauto.
  - intros (s & p & Hin). exists (NaN s true p). auto.
Qed.

(* exactly: one outcome per NaN operand - its sign, its payload, quiet, canonical; invalid iff some operand signals;
   no other flag (the flag word is F_INV or 0); at least one outcome *)
Theorem nan_outcomes_full ds : Forall wf ds -> existsb is_nan ds = true ->
  nan_outcomes ds <> [] /\
  (forall o, In o (nan_outcomes ds) <-> nan_result_of ds o) /\
  (forall o, In o (nan_outcomes ds) ->
     exists r, o = ([r], if existsb is_snan ds then F_INV else 0) /\ canonical_bits r = true /\
               is_nan (decode r) = true /\ is_snan (decode r) = false).
Proof.
  intros W N. split; [|split].
  - apply existsb_exists in N. destruct N as (d & Hin & Hn). unfold nan_outcomes.
    intros E. assert (Hf : In d (filter is_nan ds)) by (apply filter_In; auto).
    destruct (filter is_nan ds); [contradiction|discriminate].
  - intros o. unfold nan_outcomes, nan_result_of. rewrite in_map_iff. split.
    + intros (d & <- & Hin). apply filter_In in Hin. destruct Hin as [Hin Hn].
      destruct d as [| |s sg p]; try discriminate. exists s, sg, p. split; [exact Hin|].
      rewrite Forall_forall in W. split; [exact (W _ Hin)|]. rewrite quiet_nan_bits. reflexivity.
    + intros (s & sg & p & Hin & _ & ->). exists (NaN s sg p). split; [rewrite quiet_nan_bits; reflexivity|].
      apply filter_In. split; [exact Hin|reflexivity].
  - intros o Hin. unfold nan_outcomes in Hin. apply in_map_iff in Hin. destruct Hin as (d & <- & Hin).
    apply filter_In in Hin. destruct Hin as [Hin Hn]. rewrite Forall_forall in W.
    destruct (quiet_nan_canonical d (W _ Hin) Hn) as (C & DE & QN & QS & _).
    exists (encode (quiet d)). rewrite DE. auto.
Qed.

Lemma nan_outcomes_nonempty' ds : existsb is_nan ds = true -> nan_outcomes ds <> [].
Proof.
  intros N. apply existsb_exists in N. destruct N as (d & Hin & Hn). unfold nan_outcomes.
  intros E. assert (Hf : In d (filter is_nan ds)) by (apply filter_In; auto).
  destruct (filter is_nan ds); [contradiction|discriminate].
Qed.

Lemma nan_outcomes_canonical ds : Forall wf ds ->
  forall o r, In o (nan_outcomes ds) -> In r (fst o) -> canonical_bits r = true.
Proof.
  intros W o r Hin Hr. unfold nan_outcomes in Hin. apply in_map_iff in Hin. destruct Hin as (d & <- & Hin).
  apply filter_In in Hin. destruct Hin as [Hin Hn]. cbn [fst] in Hr. destruct Hr as [<-|[]].
  rewrite Forall_forall in W. apply encode_canonical, quiet_wf, W, Hin.
Qed.

Lemma decodes_wf l : Forall (fun x => 0 <= x < P128) l -> Forall wf (map decode l).
Proof. intros H. induction H; cbn [map]; constructor; [apply decode_wf; assumption|assumption]. Qed.

(* ---------- every flag-taking operation hands NaN operands to nan_outcomes ---------- *)

Lemma sub_nan md x y : is_nan (decode x) || is_nan (decode y) = true -> m_sub md x y = nan_outcomes [decode x; decode y].
Proof.
  intros H. unfold m_sub, add_dec. destruct (is_nan (decode y)) eqn:Ey.
  - rewrite Ey, orb_true_r. reflexivity.
  - rewrite orb_false_r in H. rewrite H. cbn [orb].
    destruct (decode x); try discriminate. destruct (decode y); try discriminate; reflexivity.
Qed.

Definition dup_out (o : outcome) : outcome := (fst o ++ fst o, snd o).

Theorem nan_in_nan_out md k sgi n x y z :
  let dx := decode x in let dy := decode y in let dz := decode z in
  (is_nan dx || is_nan dy = true ->
     m_add md x y = nan_outcomes [dx; dy] /\ m_sub md x y = nan_outcomes [dx; dy] /\
     m_mul md x y = nan_outcomes [dx; dy] /\ m_div md x y = nan_outcomes [dx; dy] /\
     m_quantize md x y = nan_outcomes [dx; dy] /\
     rem_dec true x y = nan_outcomes [dx; dy] /\ rem_dec false x y = nan_outcomes [dx; dy] /\
     m_fdim md x y = nan_outcomes [dx; dy] /\ m_next_after x y = nan_outcomes [dx; dy]) /\
  (is_nan dx || is_nan dy || is_nan dz = true -> m_fma md x y z = nan_outcomes [dx; dy; dz]) /\
  (is_nan dx = true ->
     m_sqrt md x = nan_outcomes [dx] /\ rint_dec md sgi x = nan_outcomes [dx] /\
     m_modf x = map dup_out (nan_outcomes [dx]) /\
     m_next_up x = nan_outcomes [dx] /\ m_next_down x = nan_outcomes [dx] /\
     m_scaleb md x n = nan_outcomes [dx] /\ m_logb x = nan_outcomes [dx]) /\
  (is_snan dx || is_snan dy = true \/ is_nan dx && is_nan dy = true -> m_minmax k x y = nan_outcomes [dx; dy]).
Proof.
  intros dx dy dz. split; [|split; [|split]].
  - intros H. repeat split.
    + unfold m_add, add_dec. fold dx dy. now rewrite H.
    + apply sub_nan. exact H.
    + unfold m_mul. fold dx dy. now rewrite H.
    + unfold m_div. fold dx dy. now rewrite H.
    + unfold m_quantize. fold dx dy. now rewrite H.
    + unfold rem_dec. fold dx dy. now rewrite H.
    + unfold rem_dec. fold dx dy. now rewrite H.
    + unfold m_fdim. fold dx dy. now rewrite H.
    + unfold m_next_after. fold dx dy. now rewrite H.
  - intros H. unfold m_fma. fold dx dy dz. now rewrite H.
  - intros H. repeat split.
    + unfold m_sqrt. fold dx. now rewrite H.
    + unfold rint_dec. fold dx. now rewrite H.
    + unfold m_modf. fold dx. now rewrite H.
    + unfold m_next_up. fold dx. now rewrite H.
    + unfold m_next_down. fold dx. now rewrite H.
    + unfold m_scaleb. fold dx. now rewrite H.
    + unfold m_logb. fold dx. now rewrite H.
  - intros [H|H]; unfold m_minmax; fold dx dy.
    + now rewrite H.
    + rewrite H. destruct (is_snan dx || is_snan dy); reflexivity.
Qed.

(* min/max with exactly one NaN operand, a quiet one: the other operand (canonicalised), no flag *)
Theorem minmax_one_qnan k x y :
  let dx := decode x in let dy := decode y in
  is_snan dx = false -> is_snan dy = false ->
  (is_nan dx = true -> is_nan dy = false -> m_minmax k x y = out1 dy 0) /\
  (is_nan dx = false -> is_nan dy = true -> m_minmax k x y = out1 dx 0).
Proof.
  intros dx dy Sx Sy. unfold m_minmax. fold dx dy. rewrite Sx, Sy. cbn [orb]. split; intros Hx Hy; rewrite Hx, Hy; reflexivity.
Qed.

(* generic form over the judge's operation table: the decimal-operand arity of each flag-taking operation *)
Definition nan_arity (o:op) : option nat :=
  match o with
  | OSqrt | ORint | ONearbyint | ORintFix _ | ONextUp | ONextDown | OLogb => Some 1%nat
  | OAdd | OSub | OMul | ODiv | OQuantize | ORem | OFmod | OFdim | ONextAfter => Some 2%nat
  | OFma => Some 3%nat
  | _ => None
  end.

Theorem nan_in_nan_out_expected o md args :
  nan_arity o = Some (length args) -> existsb is_nan (map decode args) = true ->
  expected o md args = Exact (nan_outcomes (map decode args)).
Proof.
  intros A N.
  destruct o; try discriminate A;
    destruct args as [|x [|y [|z [|w l]]]]; try discriminate A;
    cbn [map existsb] in N; rewrite ?orb_false_r, ?orb_assoc in N; unfold expected; cbn [map]; f_equal;
    first [ apply (nan_in_nan_out md MinNum true 0 x y x); exact N
          | apply (nan_in_nan_out md MinNum true 0 x x x); exact N
          | idtac ].
  - apply (nan_in_nan_out md MinNum true 0 x y z); exact N.
  - apply (nan_in_nan_out md MinNum false 0 x x x); exact N.
  - apply (nan_in_nan_out m MinNum false 0 x x x); exact N.
Qed.

(* the three operations whose argument lists are not plain operand tuples *)
Theorem nan_in_nan_out_expected_special md k w x y n :
  (is_nan (decode x) = true -> expected (OScaleb w) md [x; n] = Exact (nan_outcomes [decode x])) /\
  (is_nan (decode x) = true -> expected OModf md [x] = Exact (map dup_out (nan_outcomes [decode x]))) /\
  (is_snan (decode x) || is_snan (decode y) = true \/ is_nan (decode x) && is_nan (decode y) = true ->
     expected (OMinMax k) md [x; y] = Exact (nan_outcomes [decode x; decode y])).
Proof.
  split; [|split]; intros H; unfold expected.
  - f_equal. apply (nan_in_nan_out md k true (sint w n) x x x). exact H.
  - destruct (decode x) eqn:E; try discriminate. f_equal. rewrite <- E.
    apply (nan_in_nan_out md k true 0 x x x). rewrite E. reflexivity.
  - f_equal. apply (nan_in_nan_out md k true 0 x y x). exact H.
Qed.

(* ---------- quiet sign operations: every pattern, bit 127 only, no flag ---------- *)
Theorem quiet_ops_sign_only x y : 0 <= x < P128 ->
  m_copy x = [([x], 0)] /\
  (exists r, m_neg x = [([r], 0)] /\ 0 <= r < P128 /\ r mod P127 = x mod P127 /\ (P127 <=? r) = negb (P127 <=? x)) /\
  (exists r, m_abs x = [([r], 0)] /\ 0 <= r < P128 /\ r mod P127 = x mod P127 /\ (P127 <=? r) = false) /\
  (exists r, m_copysign x y = [([r], 0)] /\ 0 <= r < P128 /\ r mod P127 = x mod P127 /\ (P127 <=? r) = (P127 <=? y)).
Proof.
  intros Hx. split; [reflexivity|]. split; [|split].
  - unfold m_neg. eexists. split; [reflexivity|].
    destruct (Z.leb_spec P127 x) as [L|L]; cbn [negb];
      (split; [unfold_consts; lia|split; [unfold_consts; lia|]]); [apply Z.leb_gt|apply Z.leb_le]; unfold_consts; lia.
  - unfold m_abs. eexists. split; [reflexivity|]. split; [unfold_consts; lia|]. split; [unfold_consts; lia|].
    apply Z.leb_gt. unfold_consts; lia.
  - unfold m_copysign. eexists. split; [reflexivity|].
    destruct (Z.leb_spec P127 y) as [L|L];
      (split; [unfold_consts; lia|split; [unfold_consts; lia|]]); [apply Z.leb_le|apply Z.leb_gt]; unfold_consts; lia.
Qed.

(* on the datum: the sign operations are set_sign, also for signaling NaNs and non-canonical patterns *)
Lemma decode_split (s:bool) r : 0 <= r < P127 -> decode ((if s then P127 else 0) + r) = set_sign s (decode r).
Proof.
  intros Hr. unfold decode.
  assert (Hs : (P127 <=? (if s then P127 else 0) + r) = s) by (destruct s; [apply Z.leb_le|apply Z.leb_gt]; unfold_consts; lia).
  assert (Hm : ((if s then P127 else 0) + r) mod P127 = r mod P127) by (destruct s; unfold_consts; lia).
  rewrite Hs, Hm.
  repeat match goal with |- context [if ?b then _ else _] => destruct b end; reflexivity.
Qed.

Theorem quiet_ops_datum x y : 0 <= x < P128 -> 0 <= y < P128 ->
  (forall r, m_neg x = [([r], 0)] -> decode r = set_sign (negb (sign_of (decode x))) (decode x)) /\
  (forall r, m_abs x = [([r], 0)] -> decode r = set_sign false (decode x)) /\
  (forall r, m_copysign x y = [([r], 0)] -> decode r = set_sign (sign_of (decode y)) (decode x)).
Proof.
  intros Hx Hy.
  assert (Hxs : x = (if P127 <=? x then P127 else 0) + x mod P127) by (destruct (Z.leb_spec P127 x); unfold_consts; lia).
  assert (Hm : 0 <= x mod P127 < P127) by (unfold_consts; lia).
  assert (SS : forall a b d, set_sign a (set_sign b d) = set_sign a d) by (intros a b []; reflexivity).
  rewrite !decode_sign.
  assert (Dx : decode x = set_sign (P127 <=? x) (decode (x mod P127))).
  { rewrite Hxs at 1. apply decode_split. exact Hm. }
  repeat split; intros r E; injection E as <-.
  - rewrite Dx, SS. destruct (Z.leb_spec P127 x) as [L|L]; cbn [negb].
    + replace (x - P127) with ((if false then P127 else 0) + x mod P127) by (unfold_consts; lia). exact (decode_split false _ Hm).
    + replace (x + P127) with ((if true then P127 else 0) + x mod P127) by (unfold_consts; lia). exact (decode_split true _ Hm).
  - rewrite Dx, SS. exact (decode_split false _ Hm).
  - rewrite Dx, SS. rewrite Z.add_comm. apply decode_split. exact Hm.
Qed.
(* signaling <-> NaN with bit 121 set *)
Lemma decode_snan_iff x : is_snan (decode x) = true <-> (x mod P127) / P122 = 31 /\ (x / P121) mod 2 = 1.
Proof.
  split.
  - intros S. assert (N : is_nan (decode x) = true) by (destruct (decode x) as [| |? [] ?]; try discriminate; reflexivity).
    apply decode_nan_iff in N. split; [exact N|]. rewrite (decode_nan_fields x N) in S. cbn [is_snan] in S.
    destruct (Z.leb_spec 1 ((x / P121) mod 2)); [|discriminate]. unfold_consts. lia.
  - intros [N B]. rewrite (decode_nan_fields x N). cbn [is_snan]. rewrite B. reflexivity.
Qed.

(* nan_outcomes on operand patterns, entirely in terms of their bits *)
Definition quiet_pattern (a:Z) : Z :=
  (if P127 <=? a then P127 else 0) + 31 * P122 + (if a mod P110 <? T33 then a mod P110 else 0).

Theorem nan_outcomes_patterns args o : Forall (fun x => 0 <= x < P128) args ->
  (In o (nan_outcomes (map decode args)) <->
   exists a, In a args /\ (a mod P127) / P122 = 31 /\
     o = ([quiet_pattern a], if existsb (fun a => is_snan (decode a)) args then F_INV else 0)).
Proof.
  intros R.
  assert (EM : existsb is_snan (map decode args) = existsb (fun a => is_snan (decode a)) args).
  { clear R. induction args as [|a l IH]; cbn [map existsb]; [reflexivity|]. rewrite IH. reflexivity. }
  unfold nan_outcomes. rewrite EM, in_map_iff. split.
  - intros (d & <- & Hin). apply filter_In in Hin. destruct Hin as [Hin Hn]. apply in_map_iff in Hin.
    destruct Hin as (a & <- & Ha). exists a. split; [exact Ha|]. split; [apply decode_nan_iff, Hn|].
    rewrite Forall_forall in R. rewrite (proj1 (quiet_of_pattern a (R a Ha) Hn)). reflexivity.
  - intros (a & Ha & N & ->). exists (decode a). rewrite Forall_forall in R.
    assert (Hn : is_nan (decode a) = true) by (apply decode_nan_iff, N).
    split; [rewrite (proj1 (quiet_of_pattern a (R a Ha) Hn)); reflexivity|].
    apply filter_In. split; [apply in_map, Ha|exact Hn].
Qed.
