(* C02: fused multiply-add.  Bit-level consequences of fma_fin_correct / m_fma_finite:
   uniqueness of the accepted outcome, agreement with multiplication and addition, totality of the model,
   and the witnesses showing that the doubly rounded product-then-sum is rejected. *)
From Coq Require Import ZArith Reals Lia Bool List.
From Flocq Require Import Core.Core Calc.Bracket.
From DV Require Import Base RoundProofs Bid BidProofs Arith ArithProofs OpsArith OpsArithProofs SpecProofs.
Import ListNotations.
Open Scope Z_scope.

(* ---------- the accepted-outcome list is determined by the specification ---------- *)
Theorem finite_result_functional md v pref zs l l' :
  finite_result md v pref zs l -> finite_result md v pref zs l' -> l = l'.
Proof.
  intros (d & fl & -> & H & _) (d' & fl' & -> & H' & _).
  destruct (ieee_result_functional md v pref zs d fl d' fl' H H') as [-> ->]. reflexivity.
Qed.

(* whatever list satisfies the C02 statement on finite operands is the model's list *)
Theorem m_fma_unique md x y z sx cx qx sy cy qy sz cz qz l :
  0 <= x < P128 -> 0 <= y < P128 -> 0 <= z < P128 ->
  decode x = Fin sx cx qx -> decode y = Fin sy cy qy -> decode z = Fin sz cz qz ->
  finite_result md (D2R (decode x) * D2R (decode y) + D2R (decode z)) (Z.min (qx + qy) qz)
    (zs_add md (xorb sx sy) sz) l ->
  l = m_fma md x y z.
Proof.
  intros Hx Hy Hz Ex Ey Ez H.
  eapply finite_result_functional; [exact H|]. apply (m_fma_finite md x y z sx cx qx sy cy qy sz cz qz); assumption.
Qed.

(* ---------- round_pack / rp look at the zero-sign argument only for an exact zero ---------- *)
Lemma round_pack_zs_irrel md s c e l pref zs zs' : (c =? 0) && is_exact l = false ->
  round_pack md s c e l pref zs = round_pack md s c e l pref zs'.
Proof. intros H. unfold round_pack. rewrite H. reflexivity. Qed.

Lemma rp_zs_irrel md s c e l pref zs zs' : (c =? 0) && is_exact l = false ->
  rp md s c e l pref zs = rp md s c e l pref zs'.
Proof.
  intros H. unfold rp, shortcut. rewrite H. cbn [negb]. rewrite andb_true_r.
  destruct (Zdigits radix10 c + e <=? -6177); cbv beta iota.
  - apply round_pack_zs_irrel. reflexivity.
  - apply round_pack_zs_irrel. exact H.
Qed.

(* an exact zero handed to rp *)
Lemma rp_zero md s pref zs :
  rp md s 0 pref loc_Exact pref zs = (Fin zs 0 (Z.max qmin (Z.min qmax pref)), mkfl false false false).
Proof.
  unfold rp, shortcut. change ((0 =? 0) && is_exact loc_Exact) with true. cbn [negb]. rewrite andb_false_r.
  cbv beta iota. unfold round_pack. change ((0 =? 0) && is_exact loc_Exact) with true. reflexivity.
Qed.

(* addition with a zero addend is one rounding of the other operand *)
Lemma add_gen_zero_r md sx cx qx sy qy : cx <> 0 ->
  add_gen md sx cx qx sy 0 qy = rp md sx cx qx loc_Exact (Z.min qx qy) (zs_add md sx sy).
Proof.
  intros H. unfold add_gen. destruct (Z.eqb_spec cx 0) as [E|_]; [contradiction|].
  cbn [andb]. change (0 =? 0) with true. reflexivity.
Qed.

Lemma add_gen_zero_zero md sx qx sy qy :
  add_gen md sx 0 qx sy 0 qy =
  (Fin (zs_add md sx sy) 0 (Z.max qmin (Z.min qmax (Z.min qx qy))), mkfl false false false).
Proof. unfold add_gen. change ((0 =? 0) && (0 =? 0)) with true. cbv beta iota zeta. apply rp_zero. Qed.

(* ---------- fma with a zero addend of large enough exponent is multiplication ---------- *)
Theorem fma_mul_agree md x y z sx cx qx sy cy qy sz qz :
  decode x = Fin sx cx qx -> decode y = Fin sy cy qy -> decode z = Fin sz 0 qz ->
  cx <> 0 -> cy <> 0 -> qx + qy <= qz ->
  m_fma md x y z = m_mul md x y.
Proof.
  intros Ex Ey Ez Nx Ny Hq. unfold m_fma, m_mul. rewrite Ex, Ey, Ez. cbn [is_nan is_inf orb].
  unfold fma_fin, mul_fin.
  assert (Np : cx * cy <> 0) by nia.
  rewrite add_gen_zero_r by exact Np. rewrite Z.min_l by exact Hq.
  rewrite (rp_zs_irrel md (xorb sx sy) (cx * cy) (qx + qy) loc_Exact (qx + qy) _ (xorb sx sy)); [reflexivity|].
  destruct (Z.eqb_spec (cx * cy) 0) as [E|_]; [contradiction|reflexivity].
Qed.

(* corner 1: a zero addend of any exponent (in particular a smaller one).  Both operations round the same real
   number once; only the preferred exponents differ: min(qx+qy, qz) for the fma, qx+qy for the product. *)
Theorem fma_mul_same_value md x y z sx cx qx sy cy qy sz qz :
  0 <= x < P128 -> 0 <= y < P128 -> 0 <= z < P128 ->
  decode x = Fin sx cx qx -> decode y = Fin sy cy qy -> decode z = Fin sz 0 qz ->
  let v := (D2R (decode x) * D2R (decode y))%R in
  finite_result md v (Z.min (qx + qy) qz) (zs_add md (xorb sx sy) sz) (m_fma md x y z) /\
  finite_result md v (qx + qy) (xorb sx sy) (m_mul md x y).
Proof.
  intros Hx Hy Hz Ex Ey Ez v. split.
  - generalize (m_fma_finite md x y z sx cx qx sy cy qy sz 0 qz Hx Hy Hz Ex Ey Ez).
    rewrite Ez at 1. rewrite D2R_zero, Rplus_0_r. intros H; exact H.
  - apply (m_mul_finite md x y sx cx qx sy cy qy); assumption.
Qed.

(* ... hence the two outputs raise the same flags and are the same datum whenever the product is rounded or
   overflows; when the product is exact they are two members of its cohort (same sign if it is non-zero). *)
Theorem fma_mul_same_value_outputs md x y z sx cx qx sy cy qy sz qz :
  0 <= x < P128 -> 0 <= y < P128 -> 0 <= z < P128 ->
  decode x = Fin sx cx qx -> decode y = Fin sy cy qy -> decode z = Fin sz 0 qz ->
  let v := (D2R (decode x) * D2R (decode y))%R in
  exists d d' fl,
    m_fma md x y z = [([encode d], flbits fl)] /\ m_mul md x y = [([encode d'], flbits fl)] /\
    (d = d' \/
     exists s c q s' c' q', d = Fin s c q /\ d' = Fin s' c' q' /\ D2R d = v /\ D2R d' = v /\ (v <> 0%R -> s = s')).
Proof.
  intros Hx Hy Hz Ex Ey Ez v.
  destruct (fma_mul_same_value md x y z sx cx qx sy cy qy sz qz Hx Hy Hz Ex Ey Ez)
    as [(d & fl & E1 & H1 & _) (d' & fl' & E2 & H2 & _)].
  destruct (ieee_result_value_functional md _ _ _ _ _ d fl d' fl' H1 H2) as [<- Hd].
  exists d, d', fl. split; [exact E1|]. split; [exact E2|]. exact Hd.
Qed.

(* corner 2: a zero product and a zero addend: the sign is that of an exact zero SUM (sign of product, sign of z),
   the exponent is min(qx+qy, qz) clamped; multiplication alone gives the sign of the product. *)
Theorem fma_zero_product_zero_addend md x y z sx cx qx sy cy qy sz qz :
  decode x = Fin sx cx qx -> decode y = Fin sy cy qy -> decode z = Fin sz 0 qz ->
  cx = 0 \/ cy = 0 ->
  m_fma md x y z = out1 (Fin (zs_add md (xorb sx sy) sz) 0 (clampq (Z.min (qx + qy) qz))) 0 /\
  m_mul md x y = out1 (Fin (xorb sx sy) 0 (clampq (qx + qy))) 0.
Proof.
  intros Ex Ey Ez Hz.
  assert (Ep : cx * cy = 0) by (destruct Hz as [-> | ->]; lia).
  unfold m_fma, m_mul. rewrite Ex, Ey, Ez. cbn [is_nan is_inf orb]. unfold fma_fin, mul_fin. rewrite Ep. split.
  - rewrite add_gen_zero_zero. reflexivity.
  - rewrite rp_zero. reflexivity.
Qed.

(* ---------- fma with y = 1 (coefficient 1, exponent 0) is addition, NaN handling included ---------- *)
Lemma nan_outcomes_drop_mid dx dy dz : is_nan dy = false -> nan_outcomes [dx; dy; dz] = nan_outcomes [dx; dz].
Proof.
  intros H. unfold nan_outcomes. destruct dy as [s c q|s|s sg p]; try discriminate H;
  cbn [existsb filter is_nan is_snan orb]; reflexivity.
Qed.

Theorem fma_add_agree md x y z : decode y = Fin false 1 0 -> m_fma md x y z = m_add md x z.
Proof.
  intros Ey. unfold m_fma, m_add, add_dec. rewrite Ey. cbn [is_nan is_inf is_zero sign_of].
  rewrite !orb_false_r, !xorb_false_r.
  destruct (is_nan (decode x) || is_nan (decode z)) eqn:Hn.
  - apply nan_outcomes_drop_mid. reflexivity.
  - destruct (decode x) as [sx cx qx|sx|sx gx px]; destruct (decode z) as [sz cz qz|sz|sz gz pz];
      try discriminate Hn; cbn [is_inf is_zero].
    + unfold fma_fin. rewrite xorb_false_r, Z.mul_1_r, Z.add_0_r. reflexivity.
    + reflexivity.
    + reflexivity.
    + destruct sx, sz; reflexivity.
Qed.

Lemma decode_one : decode (encode (Fin false 1 0)) = Fin false 1 0.
Proof. vm_compute. reflexivity. Qed.

Theorem fma_add_agree_one md x z : m_fma md x (encode (Fin false 1 0)) z = m_add md x z.
Proof. apply fma_add_agree. exact decode_one. Qed.

(* ---------- the model is total: every triple of patterns has an accepted outcome ---------- *)
Theorem fma_total md x y z : m_fma md x y z <> [].
Proof.
  unfold m_fma.
  destruct (is_nan (decode x) || is_nan (decode y) || is_nan (decode z)) eqn:Hn.
  - apply nan_outcomes_nonempty. cbn [existsb]. rewrite orb_false_r, orb_assoc. exact Hn.
  - destruct (decode x) as [sx cx qx|sx|sx gx px]; destruct (decode y) as [sy cy qy|sy|sy gy py];
      destruct (decode z) as [sz cz qz|sz|sz gz pz]; try discriminate Hn; cbn [is_inf orb];
      try (unfold fin_out, out1; discriminate);
      match goal with |- context [if ?b then _ else _] => destruct b end;
      try (unfold invalid_out, out1; discriminate);
      match goal with |- context [if ?b then _ else _] => destruct b end;
      unfold invalid_out, out1; discriminate.
Qed.

(* without a NaN operand there is exactly one accepted outcome *)
Theorem fma_single_outcome md x y z :
  is_nan (decode x) || is_nan (decode y) || is_nan (decode z) = false -> exists o, m_fma md x y z = [o].
Proof.
  intros Hn. unfold m_fma. rewrite Hn.
  destruct (decode x) as [sx cx qx|sx|sx gx px]; destruct (decode y) as [sy cy qy|sy|sy gy py];
    destruct (decode z) as [sz cz qz|sz|sz gz pz]; try discriminate Hn; cbn [is_inf orb];
    try (unfold fin_out, out1; eexists; reflexivity);
    match goal with |- context [if ?b then _ else _] => destruct b end;
    try (unfold invalid_out, out1; eexists; reflexivity);
    match goal with |- context [if ?b then _ else _] => destruct b end;
    unfold invalid_out, out1; eexists; reflexivity.
Qed.

(* ---------- the doubly rounded function (multiply, round, add, round), flags accumulated ---------- *)
Definition mul_then_add (md:rmode) (x y z:Z) : list outcome :=
  match m_mul md x y with
  | [([p], f1)] => match m_add md p z with [([r], f2)] => [([r], Z.lor f1 f2)] | _ => [] end
  | _ => []
  end.

(* ---------- readable corollaries of fma_specials ---------- *)
Theorem fma_zero_times_inf md x y z :
  is_nan (decode z) = false ->
  (is_zero (decode x) = true /\ is_inf (decode y) = true) \/ (is_inf (decode x) = true /\ is_zero (decode y) = true) ->
  m_fma md x y z = invalid_out.
Proof.
  intros Nz H.
  assert (Nx : is_nan (decode x) = false) by (destruct H as [[A B]|[A B]]; destruct (decode x) as [? [| |] ?| |]; try discriminate; reflexivity).
  assert (Ny : is_nan (decode y) = false) by (destruct H as [[A B]|[A B]]; destruct (decode y) as [? [| |] ?| |]; try discriminate; reflexivity).
  destruct (fma_specials md x y z Nx Ny Nz) as [S _]. rewrite S.
  - destruct H as [[-> _]|[_ ->]]; [reflexivity|rewrite orb_true_r; reflexivity].
  - destruct H as [[_ ->]|[-> _]]; [rewrite orb_true_r; reflexivity|reflexivity].
Qed.

Theorem fma_inf_product_inf_addend md x y z sz :
  is_nan (decode x) = false -> is_nan (decode y) = false ->
  is_inf (decode x) || is_inf (decode y) = true -> is_zero (decode x) || is_zero (decode y) = false ->
  decode z = Inf sz ->
  let sp := xorb (sign_of (decode x)) (sign_of (decode y)) in
  m_fma md x y z = if Bool.eqb sz sp then out1 (Inf sp) 0 else invalid_out.
Proof.
  intros Nx Ny Hi Hz Ez sp.
  assert (Nz : is_nan (decode z) = false) by (rewrite Ez; reflexivity).
  destruct (fma_specials md x y z Nx Ny Nz) as [S _]. rewrite (S Hi), Hz, Ez. reflexivity.
Qed.

(* ---------- witnesses ---------- *)
(* x = y = 10^17 + 1: the product 10^34 + 2*10^17 + 1 has 35 digits *)
Definition wX := encode (Fin false (10 ^ 17 + 1) 0).

(* z = 5: exact sum ...00006 -> single rounding goes up; the rounded product ...0000|0 plus 5 is a tie -> even *)
Example fma_single_rounding_differs :
  m_fma RNE wX wX (encode (Fin false 5 0)) = [([encode (Fin false (10 ^ 33 + 2 * 10 ^ 16 + 1) 1)], F_INX)] /\
  mul_then_add RNE wX wX (encode (Fin false 5 0)) = [([encode (Fin false (10 ^ 33 + 2 * 10 ^ 16) 1)], F_INX)].
Proof. vm_compute. split; reflexivity. Qed.

(* the same operands under roundTowardPositive: the doubly rounded function rounds up twice *)
Example fma_single_rounding_differs_up :
  m_fma RUP wX wX (encode (Fin false 5 0)) = [([encode (Fin false (10 ^ 33 + 2 * 10 ^ 16 + 1) 1)], F_INX)] /\
  mul_then_add RUP wX wX (encode (Fin false 5 0)) = [([encode (Fin false (10 ^ 33 + 2 * 10 ^ 16 + 2) 1)], F_INX)].
Proof. vm_compute. split; reflexivity. Qed.

(* z = -(rounded product): the fma is exactly 1 with no flag; the doubly rounded function returns +0E+1, inexact *)
Example fma_single_rounding_differs_cancel :
  m_fma RNE wX wX (encode (Fin true (10 ^ 33 + 2 * 10 ^ 16) 1)) = [([encode (Fin false 1 0)], 0)] /\
  mul_then_add RNE wX wX (encode (Fin true (10 ^ 33 + 2 * 10 ^ 16) 1)) = [([encode (Fin false 0 1)], F_INX)].
Proof. vm_compute. split; reflexivity. Qed.

(* and therefore the doubly rounded outcome does not satisfy the C02 statement *)
Theorem double_rounding_rejected :
  let x := wX in let z := encode (Fin false 5 0) in
  ~ finite_result RNE (D2R (decode x) * D2R (decode x) + D2R (decode z)) (Z.min (0 + 0) 0)
      (zs_add RNE (xorb false false) false) (mul_then_add RNE x x z).
Proof.
  intros x z H.
  assert (Hx : 0 <= x < P128) by (vm_compute; split; [discriminate|reflexivity]).
  assert (Hz : 0 <= z < P128) by (vm_compute; split; [discriminate|reflexivity]).
  assert (Ex : decode x = Fin false (10 ^ 17 + 1) 0) by (vm_compute; reflexivity).
  assert (Ez : decode z = Fin false 5 0) by (vm_compute; reflexivity).
  pose proof (m_fma_unique RNE x x z false (10 ^ 17 + 1) 0 false (10 ^ 17 + 1) 0 false 5 0 _ Hx Hx Hz Ex Ex Ez H) as E.
  destruct fma_single_rounding_differs as [E1 E2]. fold x z in E1, E2. rewrite E1, E2 in E.
  vm_compute in E. discriminate E.
Qed.
