(* Feasibility prototype: full round_pack against an IEEE-style spec built on Flocq. *)
From Coq Require Import ZArith Reals Lia Lra Bool Psatz.
From Flocq Require Import Core.Core Calc.Bracket Calc.Round.
Open Scope Z_scope.

Definition radix10 : radix := Build_radix 10 (refl_equal true).
Definition qmin := -6176.  Definition qmax := 6111.  Definition prec := 34.
Definition fexp := FLT_exp qmin prec.
Global Instance fexp_valid : Valid_exp fexp.
Proof. apply FLT_exp_valid. unfold Prec_gt_0, prec. lia. Qed.
Notation bpow10 := (bpow radix10).

Inductive rmode := RNE | RDN | RUP | RTZ | RNA.
Definition choice (m:rmode) (s:bool) (c:Z) (l:location) : Z :=
  match m with
  | RNE => cond_incr (round_N (negb (Z.even c)) l) c
  | RNA => cond_incr (round_N true l) c
  | RDN => cond_incr (round_sign_DN s l) c
  | RUP => cond_incr (round_sign_UP s l) c
  | RTZ => c
  end.
Definition rnd_of (m:rmode) : R -> Z :=
  match m with RNE => ZnearestE | RNA => ZnearestA | RDN => Zfloor | RUP => Zceil | RTZ => Ztrunc end.
Global Instance rnd_of_valid m : Valid_rnd (rnd_of m).
Proof. destruct m; simpl; typeclasses eauto. Qed.

Definition is_exact (l:location) := match l with loc_Exact => true | _ => false end.

Inductive dec := Fin (s:bool) (c q:Z) | Inf (s:bool) | NaN (s sg:bool) (p:Z).
Definition D2R d := match d with Fin s c q => F2R (Float radix10 (cond_Zopp s c) q) | _ => 0%R end.
Definition MAXC := 10^34 - 1.
Definition MAXV := F2R (Float radix10 MAXC qmax).
Definition rounded m x := round radix10 fexp (rnd_of m) x.
Definition to_inf (m:rmode) (s:bool) := match m with RNE | RNA => true | RUP => negb s | RDN => s | RTZ => false end.
Definition overflow_result m s : dec := if to_inf m s then Inf s else Fin s MAXC qmax.
Record flags := mkfl { f_inexact : bool; f_underflow : bool; f_overflow : bool }.

Definition repr_ok c q := 0 <= c < 10^34 /\ qmin <= q <= qmax.

(* the specification *)
Definition ieee_result (m:rmode) (x:R) (pref:Z) (zs:bool) (d:dec) (fl:flags) : Prop :=
  let r := rounded m x in
  if Rlt_bool MAXV (Rabs r)
  then d = overflow_result m (Rlt_bool x 0) /\ fl = mkfl true false true
  else exists s c q, d = Fin s c q /\ repr_ok c q /\ D2R d = r /\
       (x <> 0%R -> s = Rlt_bool x 0) /\ (x = 0%R -> s = zs) /\
       f_overflow fl = false /\
       (f_inexact fl = true <-> r <> x) /\
       (f_underflow fl = true <-> (r <> x /\ (Rabs x < bpow10 (-6143))%R)) /\
       (r = x -> forall c' q', repr_ok c' q' -> F2R (Float radix10 c' q') = Rabs x ->
                 Z.abs (q - pref) <= Z.abs (q' - pref)) /\
       (r <> x -> q = qmin \/ 10^33 <= c).

(* the model *)
Fixpoint strip (fuel:nat) (c q pref:Z) : Z * Z :=
  match fuel with
  | O => (c, q)
  | S f => if (q <? pref) && (c mod 10 =? 0) && (q <? qmax) then strip f (c / 10) (q + 1) pref else (c, q)
  end.

Definition round_pack (md:rmode) (s:bool) (c e:Z) (l:location) (pref:Z) (zs:bool) : dec * flags :=
  if (c =? 0) && is_exact l then (Fin zs 0 (Z.max qmin (Z.min qmax pref)), mkfl false false false) else
  let ce := fexp (Zdigits radix10 c + e) in
  let t0 := if is_exact l && (ce <? e) then (c * 10 ^ (e - ce), ce, l) else (c, e, l) in
  let '(c1, e1, l1) := truncate radix10 fexp t0 in
  let c2 := choice md s c1 l1 in
  let '(c3, e3) := if c2 =? 10^34 then (10^33, e1 + 1) else (c2, e1) in
  let inx := negb (is_exact l1) in
  let tiny := Zdigits radix10 c + e <=? -6143 in
  if e3 >? qmax then (overflow_result md s, mkfl true false true) else
  let '(c4, e4) := if inx then (c3, e3) else strip 40 c3 e3 pref in
  (Fin s c4 e4, mkfl inx (inx && tiny) false).

