(* Dispatch: the link between the operation names the correspondence run executes ([expected o md args], Judge.v) and the
   model functions (m_add, m_fma, m_cmp, ...) the property theorems are stated about; the operator forms, Sum and Product
   (C01, last sentence); serde (C05); HashSet membership and hash_slice (C20). Everything here is axiom-free. *)
From Coq Require Import ZArith Bool List Lia.
From DV Require Import Base Bid BidProofs Arith OpsArith OpsCmp OpsMisc OpsConv OpsStr Judge Status StatusProofs StrProofs
  TotalityProofs.
Import ListNotations.
Open Scope Z_scope.

(* ================================================================================================ *)
(* 1. plain dispatch                                                                                 *)
(* ================================================================================================ *)
Theorem dispatch_arith md x y :
  expected OAdd md [x; y] = Exact (m_add md x y) /\
  expected OSub md [x; y] = Exact (m_sub md x y) /\
  expected OMul md [x; y] = Exact (m_mul md x y) /\
  expected ODiv md [x; y] = Exact (m_div md x y) /\
  expected OSqrt md [x] = Exact (m_sqrt md x).
Proof. repeat split; reflexivity. Qed.

Theorem dispatch_fma md x y z : expected OFma md [x; y; z] = Exact (m_fma md x y z).
Proof. reflexivity. Qed.

Theorem dispatch_cmp md x y i :
  expected OCmp md [x; y; i] = Exact (m_cmp x y i) /\ expected OOps md [x; y] = Exact (m_ops x y).
Proof. split; reflexivity. Qed.

Theorem dispatch_fmt md x : expected OFmt md [x] = Exact (m_fmt x).
Proof. reflexivity. Qed.

Theorem dispatch_parse md l :
  expected OParse md l =
    match m_parse md l with
    | SList ol => Exact ol
    | SGarbage => Pred is_default_qnan [0]
    | SSnanJunk _ => Pred is_any_nan0 [0]
    | SExpJunk ol => Known KF_EXPJUNK (Pred is_default_qnan [0]) (Exact ol)
    end.
Proof. reflexivity. Qed.

Theorem dispatch_hashset md x y : expected OHashSet md [x; y] = Exact [([b2z (m_eq (decode x) (decode y))], 0)].
Proof. reflexivity. Qed.

Theorem dispatch_hasheq md x y outs fl :
  acc (expected OHashEq md [x; y]) outs fl = 1 <-> fl = 0 /\ exists same, outs = [same] /\ m_hasheq x y same = true.
Proof.
  cbv beta iota delta [expected]. cbn [acc existsb]. rewrite orb_false_r, b2z_1, andb_true_iff, Z.eqb_eq. split.
  - intros [P F]. split; [symmetry; exact F|]. destruct outs as [|same [|w t]]; try discriminate P. exists same. auto.
  - intros [-> [same [-> P]]]. auto.
Qed.

(* what acceptance by a list expectation means *)
Lemma acc_exact_iff l outs fl : acc (Exact l) outs fl = 1 <-> In (outs, fl) l.
Proof.
  cbn [acc]. rewrite b2z_1, existsb_exists. split.
  - intros [[o f] [Hin H]]. apply andb_true_iff in H. destruct H as [H1 H2]. cbn [fst snd] in H1, H2.
    apply list_eqb_eq in H1. apply Z.eqb_eq in H2. subst. exact Hin.
  - intro Hin. exists (outs, fl). split; [exact Hin|]. cbn [fst snd]. rewrite list_eqb_refl, Z.eqb_refl. reflexivity.
Qed.

(* ================================================================================================ *)
(* 2. operator forms (C01: "the operator forms equal the method forms under round-half-even")        *)
(* ================================================================================================ *)
(* the five observed forms a+b, &a+&b, a+&b / &a+b, a+=b, a+=&b each return the value; there is no status word *)
Definition five (oc : outcome) : outcome := (concat (repeat (fst oc) 5), 0).

Definition binary_arith (o : op) : Prop := o = OAdd \/ o = OSub \/ o = OMul \/ o = ODiv.

Theorem operators_explicit md x y :
  expected (OOpArith OAdd) md [x; y] = Exact (map five (m_add RNE x y)) /\
  expected (OOpArith OSub) md [x; y] = Exact (map five (m_sub RNE x y)) /\
  expected (OOpArith OMul) md [x; y] = Exact (map five (m_mul RNE x y)) /\
  expected (OOpArith ODiv) md [x; y] = Exact (map five (m_div RNE x y)).
Proof. repeat split; reflexivity. Qed.

Lemma method_goodn o x y l : binary_arith o -> expected o RNE [x; y] = Exact l -> l = arith2 o RNE x y /\ goodn 1 l.
Proof.
  intros [-> | [-> | [-> | ->]]] E; cbv beta iota delta [expected] in E; injection E as <-; (split; [reflexivity|]);
  [apply goodn_add | apply goodn_sub | apply goodn_mul | apply goodn_div].
Qed.

Lemma one_value (oc : outcome) : length (fst oc) = 1%nat -> exists v, oc = ([v], snd oc).
Proof. destruct oc as [[|v [|w t]] f]; cbn [fst snd length]; intro H; try discriminate H. exists v. reflexivity. Qed.

(* [l] is the list of accepted outcomes of the METHOD form under round-half-even (as dispatched: dispatch_arith). Then, for
   every mode word md given to the operator form: its expectation is [l] with each value repeated five times and the flag
   component replaced by 0; so an answer is accepted iff it raises nothing (the operators have no status word), and its
   five values are one and the same accepted VALUE of the method form under RNE; conversely every such value is accepted. *)
Theorem operators_are_RNE o md x y l : binary_arith o -> expected o RNE [x; y] = Exact l ->
  expected (OOpArith o) md [x; y] = Exact (map five l) /\
  (forall outs fl, acc (expected (OOpArith o) md [x; y]) outs fl = 1 <->
                   fl = 0 /\ exists v f, In ([v], f) l /\ outs = [v; v; v; v; v]).
Proof.
  intros B E. destruct (method_goodn o x y l B E) as [El G].
  assert (X : expected (OOpArith o) md [x; y] = Exact (map five l)).
  { rewrite El. destruct B as [-> | [-> | [-> | ->]]]; reflexivity. }
  split; [exact X|]. intros outs fl. rewrite X, acc_exact_iff, in_map_iff. destruct G as [_ G]. rewrite Forall_forall in G.
  split.
  - intros [oc [H5 Hin]]. destruct (one_value oc (G oc Hin)) as [v Hv]. rewrite Hv in H5. unfold five in H5.
    cbn [fst repeat concat app] in H5. injection H5 as <- <-. split; [reflexivity|]. exists v, (snd oc). rewrite <- Hv. auto.
  - intros [-> [v [f [Hin ->]]]]. exists ([v], f). split; [reflexivity|exact Hin].
Qed.

(* independence of the mode word *)
Theorem operators_mode_independent o md md' x y : expected (OOpArith o) md [x; y] = expected (OOpArith o) md' [x; y].
Proof. reflexivity. Qed.

(* unary minus: two forms (-a, -&a), the value of the method form neg, no flag *)
Theorem opneg_spec md x : expected OOpNeg md [x] = Exact (map (fun oc => (concat (repeat (fst oc) 2), 0)) (m_neg x)).
Proof. reflexivity. Qed.

(* ================================================================================================ *)
(* 3. Sum and Product                                                                                *)
(* ================================================================================================ *)
(* v is reachable from the accumulator a by folding the binary operation o (method form, RNE) over the list left to right,
   taking at each step any accepted value of the step (the flags of the steps are dropped: no status word) *)
Inductive fold_rel (o : op) : Z -> list Z -> Z -> Prop :=
| fold_done a : fold_rel o a [] a
| fold_step a x r a' f v : In ([a'], f) (arith2 o RNE a x) -> fold_rel o a' r v -> fold_rel o a (x :: r) v.

Lemma arith2_other o md a x : arith_op o = false -> arith2 o md a x = [].
Proof. destruct o; cbn [arith_op]; intro H; try discriminate H; reflexivity. Qed.

Lemma arith2_values o md a x a' :
  In a' (flat_map (fun oc : outcome => fst oc) (arith2 o md a x)) <-> exists f, In ([a'], f) (arith2 o md a x).
Proof.
  destruct (arith_op o) eqn:Ho.
  - destruct (goodn_arith2 o md a x Ho) as [_ G]. rewrite Forall_forall in G. rewrite in_flat_map. split.
    + intros [oc [Hin Hv]]. destruct (one_value oc (G oc Hin)) as [v E]. rewrite E in Hv. cbn [fst In] in Hv.
      destruct Hv as [<-|[]]. exists (snd oc). rewrite <- E. exact Hin.
    + intros [f Hin]. exists ([a'], f). split; [exact Hin|left; reflexivity].
  - rewrite (arith2_other o md a x Ho). cbn. split; [intros []|intros [f []]].
Qed.

Theorem fold_ops_spec o args : forall accs v,
  In v (fold_ops o accs args) <-> exists a, In a accs /\ fold_rel o a args v.
Proof.
  induction args as [|x r IH]; intros accs v; cbn [fold_ops].
  - split.
    + intro H. exists v. split; [exact H|constructor].
    + intros [a [Hin R]]. inversion R; subst. exact Hin.
  - rewrite IH. split.
    + intros [a' [Hin R]]. apply in_flat_map in Hin. destruct Hin as [a [Ha Hv]].
      apply arith2_values in Hv. destruct Hv as [f Hf]. exists a. split; [exact Ha|]. econstructor; eassumption.
    + intros [a [Ha R]]. inversion R as [|a0 x0 r0 a' f v0 Hf R']; subst. exists a'. split; [|exact R'].
      apply in_flat_map. exists a. split; [exact Ha|]. apply arith2_values. exists f. exact Hf.
Qed.

(* unfolding one step, with the method forms named *)
Theorem fold_rel_unfold a x r v :
  (fold_rel OAdd a [] v <-> v = a) /\ (fold_rel OMul a [] v <-> v = a) /\
  (fold_rel OAdd a (x :: r) v <-> exists a' f, In ([a'], f) (m_add RNE a x) /\ fold_rel OAdd a' r v) /\
  (fold_rel OMul a (x :: r) v <-> exists a' f, In ([a'], f) (m_mul RNE a x) /\ fold_rel OMul a' r v).
Proof.
  repeat split.
  - intro R. inversion R. reflexivity.
  - intros ->. constructor.
  - intro R. inversion R. reflexivity.
  - intros ->. constructor.
  - intro R. inversion R as [|a0 x0 r0 a' f v0 Hf R']; subst. exists a', f. auto.
  - intros [a' [f [Hf R]]]. econstructor; eassumption.
  - intro R. inversion R as [|a0 x0 r0 a' f v0 Hf R']; subst. exists a', f. auto.
  - intros [a' [f [Hf R]]]. econstructor; eassumption.
Qed.

Lemma acc_pairs vs outs fl :
  acc (Exact (map (fun v => ([v; v], 0)) vs)) outs fl = 1 <-> fl = 0 /\ exists v, outs = [v; v] /\ In v vs.
Proof.
  rewrite acc_exact_iff, in_map_iff. split.
  - intros [v [E Hin]]. injection E as <- <-. split; [reflexivity|]. exists v. auto.
  - intros [-> [v [-> Hin]]]. exists v. auto.
Qed.

(* Sum: both observed forms (iter().sum() over values and over references) return one value v reachable by the left fold of
   the RNE method-form addition from +0E+0; no flag. Product: the same with multiplication from +1E+0. Any md. *)
Theorem sum_spec md l :
  (exists vs, expected OSum md l = Exact (map (fun v => ([v; v], 0)) vs) /\
              forall v, In v vs <-> fold_rel OAdd ZERO_BITS l v) /\
  (forall outs fl, acc (expected OSum md l) outs fl = 1 <-> fl = 0 /\ exists v, outs = [v; v] /\ fold_rel OAdd ZERO_BITS l v).
Proof.
  assert (S : forall v, In v (fold_ops OAdd [ZERO_BITS] l) <-> fold_rel OAdd ZERO_BITS l v).
  { intro v. rewrite fold_ops_spec. split.
    - intros [a [[<-|[]] R]]. exact R.
    - intro R. exists ZERO_BITS. split; [left; reflexivity|exact R]. }
  split.
  - exists (fold_ops OAdd [ZERO_BITS] l). split; [reflexivity|exact S].
  - intros outs fl. cbv beta iota delta [expected]. rewrite acc_pairs. split.
    + intros [-> [v [-> Hin]]]. split; [reflexivity|]. exists v. split; [reflexivity|apply S, Hin].
    + intros [-> [v [-> R]]]. split; [reflexivity|]. exists v. split; [reflexivity|apply S, R].
Qed.

Theorem product_spec md l :
  (exists vs, expected OProduct md l = Exact (map (fun v => ([v; v], 0)) vs) /\
              forall v, In v vs <-> fold_rel OMul ONE_BITS l v) /\
  (forall outs fl, acc (expected OProduct md l) outs fl = 1 <-> fl = 0 /\ exists v, outs = [v; v] /\ fold_rel OMul ONE_BITS l v).
Proof.
  assert (S : forall v, In v (fold_ops OMul [ONE_BITS] l) <-> fold_rel OMul ONE_BITS l v).
  { intro v. rewrite fold_ops_spec. split.
    - intros [a [[<-|[]] R]]. exact R.
    - intro R. exists ONE_BITS. split; [left; reflexivity|exact R]. }
  split.
  - exists (fold_ops OMul [ONE_BITS] l). split; [reflexivity|exact S].
  - intros outs fl. cbv beta iota delta [expected]. rewrite acc_pairs. split.
    + intros [-> [v [-> Hin]]]. split; [reflexivity|]. exists v. split; [reflexivity|apply S, Hin].
    + intros [-> [v [-> R]]]. split; [reflexivity|]. exists v. split; [reflexivity|apply S, R].
Qed.

(* the empty sum is +0E+0, the empty product +1E+0; a one-element sum is 0 + x, a one-element product 1 * x (RNE method
   forms, flags dropped) *)
Theorem sum_product_small md x :
  expected OSum md [] = Exact [([ZERO_BITS; ZERO_BITS], 0)] /\
  expected OProduct md [] = Exact [([ONE_BITS; ONE_BITS], 0)] /\
  (forall v, fold_rel OAdd ZERO_BITS [x] v <-> exists f, In ([v], f) (m_add RNE ZERO_BITS x)) /\
  (forall v, fold_rel OMul ONE_BITS [x] v <-> exists f, In ([v], f) (m_mul RNE ONE_BITS x)).
Proof.
  split; [reflexivity|]. split; [reflexivity|]. split; intro v.
  - split.
    + intro R. inversion R as [|a0 x0 r0 a' f v0 Hf R']; subst. inversion R'; subst. exists f. exact Hf.
    + intros [f Hf]. econstructor; [exact Hf|constructor].
  - split.
    + intro R. inversion R as [|a0 x0 r0 a' f v0 Hf R']; subst. inversion R'; subst. exists f. exact Hf.
    + intros [f Hf]. econstructor; [exact Hf|constructor].
Qed.

(* when no element of the list is a NaN the fold offers no choice: exactly one value is accepted (an accumulator that became
   a NaN through an invalid step meets only non-NaN elements afterwards) *)
Lemma le1nan_right da dx : is_nan dx = false -> le1nan [da; dx] = true.
Proof. intro H. unfold le1nan. cbn [filter]. rewrite H. destruct (is_nan da); reflexivity. Qed.

Theorem fold_ops_single o l : arith_op o = true -> Forall (fun x => is_nan (decode x) = false) l ->
  forall a, exists v, fold_ops o [a] l = [v].
Proof.
  intros Ho F. induction F as [|x r Hx _ IH]; intro a; cbn [fold_ops].
  - exists a. reflexivity.
  - destruct (single_arith2 o RNE a x (le1nan_right _ _ Hx) Ho) as [oc E].
    destruct (goodn_arith2 o RNE a x Ho) as [_ G]. rewrite E in G. apply Forall_inv in G.
    destruct (one_value oc G) as [v Ev]. cbn [flat_map]. rewrite E, Ev. cbn [flat_map fst app]. apply IH.
Qed.

Theorem sum_product_single md l : Forall (fun x => is_nan (decode x) = false) l ->
  (exists v, expected OSum md l = Exact [([v; v], 0)]) /\ (exists v, expected OProduct md l = Exact [([v; v], 0)]).
Proof.
  intro F. split.
  - destruct (fold_ops_single OAdd l eq_refl F ZERO_BITS) as [v E]. exists v. cbv beta iota delta [expected]. rewrite E. reflexivity.
  - destruct (fold_ops_single OMul l eq_refl F ONE_BITS) as [v E]. exists v. cbv beta iota delta [expected]. rewrite E. reflexivity.
Qed.

(* ================================================================================================ *)
(* 4. strings: FromStr without a status word, serde (C05)                                           *)
(* ================================================================================================ *)
(* apply f to every outcome list of an expectation (predicate parts are left alone) *)
Fixpoint map_exact (f : list outcome -> list outcome) (e : expect) : expect :=
  match e with
  | Exact l => Exact (f l)
  | Pred p fls => Pred p fls
  | Known id req rec => Known id (map_exact f req) (map_exact f rec)
  end.

Definition drop_flags : list outcome -> list outcome := map (fun oc : outcome => (fst oc, 0)).

(* the flag-less parse entry point (harness op "fromstr2"): the parse at round-half-even, raised flags dropped *)
Theorem fromstr2_is_parse_rne md l : expected OFromStr2 md l = map_exact drop_flags (expected OParse RNE l).
Proof. cbv beta iota delta [expected]. destruct (m_parse RNE l); reflexivity. Qed.

Theorem fromstr2_roundtrip md upper x : canonical_bits x = true -> is_fin (decode x) = true ->
  expected OFromStr2 md (m_format upper (decode x)) = Exact [([x], 0)].
Proof. intros C F. cbv beta iota delta [expected]. rewrite (roundtrip_bits RNE upper x C F). reflexivity. Qed.

(* serde deserialisation is FromStr on the string's content, except that an Err carries no flag word:
   an outcome [0; flags] of FromStr becomes [0; 0]; Ok outcomes [1; bits] are unchanged *)
Theorem serde_de_is_fromstr md l : expected OSerdeDe md l = map_exact noerrflags (expected OFromStr md l).
Proof. cbv beta iota zeta delta [expected]. fold noerrflags. destruct (m_parse RNE l); reflexivity. Qed.

Theorem noerrflags_fromstr r fl :
  noerrflags (fromstr_of [([r], fl)]) = if (fl =? 0) || (fl =? F_INX) then [([1; r], 0)] else [([0; 0], 0)].
Proof. cbn [fromstr_of map noerrflags]. destruct ((fl =? 0) || (fl =? F_INX)); reflexivity. Qed.

Theorem noerrflags_spec l :
  noerrflags l = map (fun oc : outcome => match oc with ([0; _], f) => ([0; 0], f) | _ => oc end) l.
Proof. reflexivity. Qed.

(* what re-reading the Display text yields: the datum itself, a NaN without its payload *)
Definition reparsed (d : dec) : dec := match d with NaN s sg _ => NaN s sg 0 | _ => d end.

Lemma format_reparse_exact d : wf d -> m_parse RNE (m_format true d) = SList [([encode (reparsed d)], 0)].
Proof.
  intro W. destruct d as [s c q|s|s sg p]; cbn [reparsed].
  - apply parse_format_roundtrip, W.
  - apply (proj2 (format_inf true s)).
  - apply (proj2 (format_nan true s sg p)).
Qed.

(* serde serialisation then deserialisation: the JSON text is the Display text in quotes; reading it back succeeds (1) and
   gives the datum's canonical encoding; nothing is raised. For every integer x (not only 128-bit words). *)
Theorem serde_roundtrip md x :
  expected OSerde md [x] =
    Exact [([str_num ([34] ++ m_format true (decode x) ++ [34]); 1; encode (reparsed (decode x))], 0)].
Proof.
  cbv beta iota zeta delta [expected]. rewrite (format_reparse_exact (decode x) (decode_wf_any x)).
  rewrite (proj1 (fromstr_of_single _ 0) (or_introl eq_refl)). reflexivity.
Qed.

(* hence bit for bit for every canonical finite or infinite pattern (and every canonical NaN with payload 0) *)
Theorem serde_roundtrip_bits md x : canonical_bits x = true -> is_nan (decode x) = false ->
  expected OSerde md [x] = Exact [([str_num ([34] ++ m_format true (decode x) ++ [34]); 1; x], 0)].
Proof.
  intros C N. rewrite serde_roundtrip. replace (reparsed (decode x)) with (decode x).
  - rewrite (encode_decode x C). reflexivity.
  - destruct (decode x); try reflexivity. discriminate N.
Qed.

Theorem serde_roundtrip_nan md x s sg p : decode x = NaN s sg p ->
  expected OSerde md [x] = Exact [([str_num ([34] ++ m_format true (decode x) ++ [34]); 1; encode (NaN s sg 0)], 0)].
Proof. intro E. rewrite serde_roundtrip, E. reflexivity. Qed.

(* ================================================================================================ *)
(* 5. hash_slice (C20)                                                                               *)
(* ================================================================================================ *)
Lemma slices_eq_spec xs : forall ys, length xs = length ys ->
  (slices_eq xs ys = true <-> Forall2 (fun x y => m_eq (decode x) (decode y) = true) xs ys).
Proof.
  induction xs as [|x xs IH]; intros [|y ys] L; cbn [length] in L; try discriminate L; cbn [slices_eq].
  - split; [constructor|reflexivity].
  - rewrite andb_true_iff, (IH ys) by lia. split.
    + intros [H1 H2]. constructor; assumption.
    + intro H. inversion H; subst. auto.
Qed.

Lemma firstn_app_exact (xs ys : list Z) : firstn (length xs) (xs ++ ys) = xs.
Proof. induction xs as [|x xs IH]; cbn [length firstn app]; [destruct ys; reflexivity|]. rewrite IH. reflexivity. Qed.
Lemma skipn_app_exact (xs ys : list Z) : skipn (length xs) (xs ++ ys) = ys.
Proof. induction xs as [|x xs IH]; cbn [length skipn app]; [reflexivity|exact IH]. Qed.

(* arguments [n; x1..xn; y1..yn], output [same]: accepted iff (the slices are pairwise equal as values -> same = 1) *)
Theorem hash_slice_respects_eq md xs ys outs fl : length xs = length ys ->
  (acc (expected OHashSliceEq md (Z.of_nat (length xs) :: xs ++ ys)) outs fl = 1 <->
   fl = 0 /\ exists same, outs = [same] /\
     (Forall2 (fun x y => m_eq (decode x) (decode y) = true) xs ys -> same = 1)).
Proof.
  intro L. cbv beta iota delta [expected].
  assert (Sh : hashslice_shape (Z.of_nat (length xs)) (xs ++ ys) = true).
  { unfold hashslice_shape. rewrite app_length, <- L. apply andb_true_iff. split; [apply Z.leb_le|apply Z.eqb_eq]; lia. }
  rewrite Sh. cbn [acc existsb]. rewrite orb_false_r, b2z_1, andb_true_iff, Z.eqb_eq.
  unfold m_hashslice. rewrite Nat2Z.id, firstn_app_exact, skipn_app_exact.
  pose proof (slices_eq_spec xs ys L) as S.
  split.
  - intros [P F]. split; [symmetry; exact F|]. destruct outs as [|same [|w t]]; try discriminate P. exists same. split; [reflexivity|].
    intro A. apply S in A. rewrite A in P. apply Z.eqb_eq, P.
  - intros [-> [same [-> I]]]. split; [|reflexivity]. destruct (slices_eq xs ys) eqn:E; [|reflexivity].
    apply Z.eqb_eq, I, S. reflexivity.
Qed.

Theorem hash_slice_domain md n l :
  (hashslice_shape n l = true <-> 0 <= n /\ Z.of_nat (length l) = 2 * n) /\
  (hashslice_shape n l = false -> expected OHashSliceEq md (n :: l) = Exact []) /\
  expected OHashSliceEq md [] = Exact [].
Proof.
  split; [|split].
  - unfold hashslice_shape. rewrite andb_true_iff, Z.leb_le, Z.eqb_eq. tauto.
  - intro H. cbv beta iota delta [expected]. rewrite H. reflexivity.
  - reflexivity.
Qed.
