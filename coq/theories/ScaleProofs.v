(* C11: scaleb / scalebln / ldexp, logb / log_b (ilogb), frexp.
   m_scaleb is one round_pack of the exact c * 10^(q+n); everything about its value and flags follows from
   ieee_result (C01's specification); the explicit corollaries (verbatim coefficient, clamp padding, exact
   division at the bottom, overflow) are read off ieee_result, which fixes the datum uniquely when the
   value is representable. Saturation (scaleb_saturates) is proved on the integers only (axiom-free). *)
From Coq Require Import ZArith Reals Lia Lra Bool List Psatz.
From Flocq Require Import Core.Core Calc.Bracket Calc.Round.
From DV Require Import Base RoundProofs Bid BidProofs Arith ArithProofs OpsArith OpsArithProofs OpsCmp OpsMisc.
Import ListNotations.
Open Scope Z_scope.

(* ---------- representable values ---------- *)
Lemma format_repr c q : Z.abs c < 10 ^ 34 -> qmin <= q -> generic_format radix10 fexp (F2R (Float radix10 c q)).
Proof.
  intros Hc Hq. apply generic_format_F2R. intros Hnz.
  rewrite cexp_val, mag_F2R_Zdigits by exact Hnz.
  assert (Zdigits radix10 c <= 34) by (apply Zdigits_le_Zpower; exact Hc).
  unfold qmin in *. lia.
Qed.

Lemma format_D2R s c q : 0 <= c < 10 ^ 34 -> qmin <= q -> generic_format radix10 fexp (D2R (Fin s c q)).
Proof.
  intros Hc Hq. unfold D2R. apply format_repr; [|exact Hq]. destruct s; cbn [cond_Zopp]; lia.
Qed.

Lemma repr_le_MAXV c q : 0 <= c < 10 ^ 34 -> q <= qmax -> (F2R (Float radix10 c q) <= MAXV)%R.
Proof. intros Hc Hq. unfold MAXV. apply F2R_mono; unfold MAXC; lia. Qed.

Lemma D2R_abs s c q : 0 <= c -> Rabs (D2R (Fin s c q)) = F2R (Float radix10 c q).
Proof. intros Hc. unfold D2R. apply abs_signed. exact Hc. Qed.

Lemma D2R_sign s c q : 0 < c -> Rlt_bool (D2R (Fin s c q)) 0 = s.
Proof.
  intros Hc. unfold D2R. rewrite F2R_cond_Zopp.
  assert (0 < F2R (Float radix10 c q))%R by (apply F2R_gt_0; exact Hc).
  destruct s; cbn [cond_Ropp]; [apply Rlt_bool_true|apply Rlt_bool_false]; lra.
Qed.

Lemma D2R_nz s c q : 0 < c -> D2R (Fin s c q) <> 0%R.
Proof. intros Hc. unfold D2R. apply F2R_neq_0. cbn [Fnum]. destruct s; cbn [cond_Zopp]; lia. Qed.

Lemma clampq_unique pref q' : qmin <= q' <= qmax -> Z.abs (q' - pref) <= Z.abs (clampq pref - pref) -> q' = clampq pref.
Proof. unfold clampq, qmin, qmax. lia. Qed.

Lemma flbits_zero fl : f_inexact fl = false -> f_underflow fl = false -> f_overflow fl = false -> flbits fl = 0.
Proof. intros A B C. unfold flbits. rewrite A, B, C. reflexivity. Qed.

(* ieee_result fixes the datum when the exact value is representable at the clamped preferred exponent *)
Lemma ieee_result_exact md s c pref zs d fl :
  0 < c < 10 ^ 34 ->
  ieee_result md (D2R (Fin s c (clampq pref))) pref zs d fl -> d = Fin s c (clampq pref) /\ flbits fl = 0.
Proof.
  intros Hc H. set (q0 := clampq pref) in *.
  assert (Hq0 : qmin <= q0 <= qmax) by (unfold q0, clampq, qmin, qmax; lia).
  set (x := D2R (Fin s c q0)) in *.
  assert (Hr : rounded md x = x).
  { unfold rounded. apply round_generic; [typeclasses eauto|]. apply format_D2R; lia. }
  assert (Habs : Rabs x = F2R (Float radix10 c q0)) by (apply D2R_abs; lia).
  assert (Hnz : x <> 0%R) by (apply D2R_nz; lia).
  unfold ieee_result in H. cbv zeta in H. rewrite Hr, Habs in H.
  rewrite Rlt_bool_false in H by (apply repr_le_MAXV; lia).
  destruct H as (s' & c' & q' & -> & [Hc' Hq'] & Hv & Hs & _ & Hov & Hinx & Hunf & Hpref & _).
  specialize (Hs Hnz). unfold x in Hs. rewrite D2R_sign in Hs by lia. subst s'.
  assert (Eq : q' = q0).
  { apply clampq_unique; [exact Hq'|]. apply (Hpref eq_refl c q0); [split; [lia|exact Hq0]|reflexivity]. }
  subst q'. split.
  - f_equal. unfold x, D2R in Hv. apply eq_F2R in Hv. destruct s; cbn [cond_Zopp] in Hv; lia.
  - apply flbits_zero; [| |exact Hov].
    + destruct (f_inexact fl); [|reflexivity]. exfalso. apply (proj1 Hinx eq_refl). reflexivity.
    + destruct (f_underflow fl); [|reflexivity]. exfalso. apply (proj1 Hunf eq_refl). reflexivity.
Qed.

(* ... and also when the exact value is a format number beyond the largest finite one *)
Lemma ieee_result_overflow md s c e pref zs d fl :
  0 < c < 10 ^ 34 -> qmax < e -> 10 ^ 34 <= c * 10 ^ (e - qmax) ->
  ieee_result md (D2R (Fin s c e)) pref zs d fl -> d = overflow_result md s /\ flbits fl = F_OVF + F_INX.
Proof.
  intros Hc He Hbig H. set (x := D2R (Fin s c e)) in *.
  assert (Hr : rounded md x = x).
  { unfold rounded. apply round_generic; [typeclasses eauto|]. apply format_D2R; unfold qmin, qmax in *; lia. }
  assert (Habs : Rabs x = F2R (Float radix10 c e)) by (apply D2R_abs; lia).
  unfold ieee_result in H. cbv zeta in H. rewrite Hr, Habs in H.
  rewrite Rlt_bool_true in H.
  - destruct H as [-> ->]. unfold x. rewrite D2R_sign by lia. split; reflexivity.
  - apply Rlt_le_trans with (1 := MAXV_lt).
    rewrite (F2R_scale c e (e - qmax)) by lia. replace (e - (e - qmax)) with qmax by ring.
    rewrite <- F2R_pow10 by lia. apply F2R_le. cbn [Fnum Fexp]. exact Hbig.
Qed.

(* ---------- scaleb: the general statement ---------- *)
Theorem m_scaleb_finite md x n s c q :
  0 <= x < P128 -> decode x = Fin s c q -> c <> 0 ->
  finite_result md (D2R (decode x) * bpow radix10 n) (q + n) s (m_scaleb md x n).
Proof.
  intros Hx E N. unfold m_scaleb. rewrite E. cbn [is_nan].
  destruct (Z.eqb_spec c 0) as [E0|_]; [contradiction|].
  apply fin_out_result. destruct (decode_fin_bounds x s c q Hx E) as [Hc _].
  apply scale_fin_correct. lia.
Qed.

Lemma D2R_scale s c q n : (D2R (Fin s c q) * bpow radix10 n)%R = D2R (Fin s c (q + n)).
Proof. unfold D2R, F2R; cbn [Fnum Fexp]. rewrite bpow_plus. ring. Qed.

(* whenever c * 10^(q+n) = c0 * 10^clampq(q+n) with c0 < 10^34: that datum, no flag *)
Lemma m_scaleb_repr md x n s c q c0 :
  0 <= x < P128 -> decode x = Fin s c q -> c <> 0 -> 0 < c0 < 10 ^ 34 ->
  F2R (Float radix10 c0 (clampq (q + n))) = F2R (Float radix10 c (q + n)) ->
  m_scaleb md x n = out1 (Fin s c0 (clampq (q + n))) 0.
Proof.
  intros Hx E N Hc0 Hv.
  destruct (m_scaleb_finite md x n s c q Hx E N) as (d & fl & -> & Hres & _).
  rewrite E, D2R_scale in Hres.
  assert (Ev : D2R (Fin s c (q + n)) = D2R (Fin s c0 (clampq (q + n)))).
  { unfold D2R. rewrite !F2R_cond_Zopp. now rewrite Hv. }
  rewrite Ev in Hres. destruct (ieee_result_exact md s c0 (q + n) s d fl Hc0 Hres) as [-> ->]. reflexivity.
Qed.

Theorem scaleb_exact md x n s c q :
  0 <= x < P128 -> decode x = Fin s c q -> c <> 0 ->
  let e := q + n in
  (* representable exponent: same coefficient, exponent moved, nothing raised *)
  (qmin <= e <= qmax -> m_scaleb md x n = out1 (Fin s c e) 0) /\
  (* above the range but the coefficient can absorb the excess: zero padding, nothing raised *)
  (qmax < e -> c * 10 ^ (e - qmax) < 10 ^ 34 -> m_scaleb md x n = out1 (Fin s (c * 10 ^ (e - qmax)) qmax) 0) /\
  (* above the range otherwise: the overflow result of the mode, overflow + inexact *)
  (qmax < e -> 10 ^ 34 <= c * 10 ^ (e - qmax) -> m_scaleb md x n = out1 (overflow_result md s) (F_OVF + F_INX)) /\
  (* below the range but the dropped digits are zeros: exact, nothing raised *)
  (e < qmin -> c mod 10 ^ (qmin - e) = 0 -> m_scaleb md x n = out1 (Fin s (c / 10 ^ (qmin - e)) qmin) 0).
Proof.
  intros Hx E N e. destruct (decode_fin_bounds x s c q Hx E) as [Hc Hq].
  split; [|split; [|split]].
  - intros He. assert (Ecl : clampq (q + n) = e) by (unfold clampq, e in *; lia).
    rewrite <- Ecl. apply (m_scaleb_repr md x n s c q c Hx E N); [lia|]. rewrite Ecl. reflexivity.
  - intros He Hsmall. assert (Ecl : clampq (q + n) = qmax) by (unfold clampq, e, qmin, qmax in *; lia).
    replace (Fin s (c * 10 ^ (e - qmax)) qmax) with (Fin s (c * 10 ^ (e - qmax)) (clampq (q + n))) by (rewrite Ecl; reflexivity).
    apply (m_scaleb_repr md x n s c q _ Hx E N).
    + assert (0 < 10 ^ (e - qmax)) by (apply Z.pow_pos_nonneg; lia). nia.
    + rewrite Ecl. fold e. rewrite (F2R_scale c e (e - qmax)) by lia. f_equal. f_equal. ring.
  - intros He Hbig.
    destruct (m_scaleb_finite md x n s c q Hx E N) as (d & fl & -> & Hres & _).
    rewrite E, D2R_scale in Hres. fold e in Hres.
    destruct (ieee_result_overflow md s c e e s d fl) as [-> ->]; [lia|exact He|exact Hbig|exact Hres|reflexivity].
  - intros He Hdiv. assert (Ecl : clampq (q + n) = qmin) by (unfold clampq, e, qmin, qmax in *; lia).
    set (k := qmin - e) in *. assert (Hk : 0 < 10 ^ k) by (apply Z.pow_pos_nonneg; unfold k; lia).
    assert (Ec : c = c / 10 ^ k * 10 ^ k).
    { rewrite (Z.div_mod c (10 ^ k)) at 1 by lia. rewrite Hdiv. ring. }
    rewrite <- Ecl. apply (m_scaleb_repr md x n s c q _ Hx E N).
    + assert (0 <= c / 10 ^ k) by (apply Z.div_pos; lia). nia.
    + rewrite Ecl. fold e. rewrite (F2R_scale (c / 10 ^ k) qmin k) by (unfold k; lia).
      rewrite <- Ec. f_equal. f_equal. unfold k. ring.
Qed.

Theorem scaleb_specials md x n :
  (is_nan (decode x) = true -> m_scaleb md x n = nan_outcomes [decode x]) /\
  (forall s, decode x = Inf s -> m_scaleb md x n = out1 (Inf s) 0) /\
  (forall s q, decode x = Fin s 0 q -> m_scaleb md x n = out1 (Fin s 0 (clampq (q + n))) 0).
Proof.
  unfold m_scaleb. split; [|split].
  - intros ->. reflexivity.
  - intros s ->. reflexivity.
  - intros s q ->. reflexivity.
Qed.

(* ---------- saturation: beyond +-20000 the result no longer depends on n (integers only) ---------- *)
Lemma fexp_eq e : fexp e = Z.max (e - 34) (-6176).
Proof. reflexivity. Qed.

Lemma shortcut_off c e l : -6177 < Zdigits radix10 c + e -> shortcut c e l = (c, e, l).
Proof. intros H. unfold shortcut. destruct (Z.leb_spec (Zdigits radix10 c + e) (-6177)); [lia|reflexivity]. Qed.

Lemma shortcut_on c e : c <> 0 -> Zdigits radix10 c + e <= -6177 -> shortcut c e loc_Exact = (0, -6176, loc_Inexact Lt).
Proof.
  intros N H. unfold shortcut. destruct (Z.leb_spec (Zdigits radix10 c + e) (-6177)); [|lia].
  destruct (Z.eqb_spec c 0); [contradiction|reflexivity].
Qed.

Lemma round_pack_tiny md s pref pref' zs zs' :
  round_pack md s 0 (-6176) (loc_Inexact Lt) pref zs = round_pack md s 0 (-6176) (loc_Inexact Lt) pref' zs'.
Proof. destruct md, s; vm_compute; reflexivity. Qed.

Lemma digits34 c : 0 < c < 10 ^ 34 -> 1 <= Zdigits radix10 c <= 34.
Proof.
  intros Hc. split.
  - assert (0 < Zdigits radix10 c) by (apply Zdigits_gt_0; lia). lia.
  - apply Zdigits_le_Zpower. rewrite Z.abs_eq by lia. exact (proj2 Hc).
Qed.

Lemma round_pack_huge md s c e pref zs : 0 < c < 10 ^ 34 -> qmax + 34 < e ->
  round_pack md s c e loc_Exact pref zs = (overflow_result md s, mkfl true false true).
Proof.
  intros Hc He. pose proof (digits34 c Hc) as Hd. unfold round_pack.
  destruct (Z.eqb_spec c 0) as [E0|_]; [lia|]. cbn [andb is_exact].
  set (dg := Zdigits radix10 c) in *.
  assert (Hce : fexp (dg + e) = dg + e - 34) by (rewrite fexp_eq; unfold qmax in He; lia).
  rewrite Hce.
  assert (Ht : exists c0 e0, (if dg + e - 34 <? e then (c * 10 ^ (e - (dg + e - 34)), dg + e - 34, loc_Exact) else (c, e, loc_Exact))
                             = (c0, e0, loc_Exact) /\ 0 < c0 < 10 ^ 34 /\ Zdigits radix10 c0 = 34 /\ qmax < e0).
  { destruct (Z.ltb_spec (dg + e - 34) e) as [L|G].
    - exists (c * 10 ^ (e - (dg + e - 34))), (dg + e - 34). split; [reflexivity|].
      assert (Hdg : Zdigits radix10 (c * 10 ^ (e - (dg + e - 34))) = 34).
      { change (10 ^ (e - (dg + e - 34))) with (Zpower radix10 (e - (dg + e - 34))).
        rewrite Zdigits_mult_Zpower by lia. fold dg. lia. }
      assert (0 < 10 ^ (e - (dg + e - 34))) by (apply Z.pow_pos_nonneg; lia).
      split; [|split; [exact Hdg|unfold qmax in *; lia]].
      split; [nia|]. pose proof (Zpower_gt_Zdigits radix10 34 (c * 10 ^ (e - (dg + e - 34)))) as P.
      rewrite Z.abs_eq in P by nia. apply P. lia.
    - exists c, e. split; [reflexivity|]. split; [exact Hc|]. split; [fold dg; lia|unfold qmax in *; lia]. }
  destruct Ht as (c0 & e0 & -> & Hc0 & Hd0 & He0).
  unfold truncate. rewrite Hd0.
  assert (Hk : fexp (34 + e0) - e0 = 0) by (rewrite fexp_eq; unfold qmax in He0; lia).
  rewrite Hk. cbn [Z.ltb Z.compare]. rewrite choice_exact.
  destruct (Z.eqb_spec c0 (10 ^ 34)) as [E|_]; [lia|].
  destruct (Z.gtb_spec e0 qmax) as [_|L]; [reflexivity|lia].
Qed.

Theorem scaleb_saturates md x n n' : 0 <= x < P128 ->
  (20000 <= n -> 20000 <= n' -> m_scaleb md x n = m_scaleb md x n') /\
  (n <= -20000 -> n' <= -20000 -> m_scaleb md x n = m_scaleb md x n').
Proof.
  intros Hx. unfold m_scaleb.
  destruct (decode x) as [s c q|s|s sg p] eqn:E; cbn [is_nan]; [|split; reflexivity|split; reflexivity].
  destruct (decode_fin_bounds x s c q Hx E) as [Hc Hq].
  destruct (Z.eqb_spec c 0) as [E0|N0].
  - split; intros H H'; do 2 f_equal; unfold clampq, qmin, qmax; lia.
  - assert (Hc' : 0 < c < 10 ^ 34) by lia. pose proof (digits34 c Hc') as Hd.
    split; intros H H'; apply (f_equal fin_out); unfold scale_fin, rp.
    + rewrite !shortcut_off by lia. rewrite !round_pack_huge by (unfold qmax; lia). reflexivity.
    + rewrite !shortcut_on by lia. apply round_pack_tiny.
Qed.

(* two's complement readings are in range: a 64-bit n is saturated to i32 by scalebln, which by
   scaleb_saturates cannot change the answer *)
Lemma sint32_range v : 0 <= v < 2 ^ 32 -> - 2 ^ 31 <= sint 32 v < 2 ^ 31.
Proof. intros H. unfold sint. change (2 ^ (32 - 1)) with (2 ^ 31). destruct (Z.ltb_spec v (2 ^ 31)); lia. Qed.
Lemma sint64_range v : 0 <= v < 2 ^ 64 -> - 2 ^ 63 <= sint 64 v < 2 ^ 63.
Proof. intros H. unfold sint. change (2 ^ (64 - 1)) with (2 ^ 63). destruct (Z.ltb_spec v (2 ^ 63)); lia. Qed.

Definition sat_i32 (n:Z) : Z := Z.max (- 2 ^ 31) (Z.min (2 ^ 31 - 1) n).

Theorem scaleb_sat_i32 md x n : 0 <= x < P128 -> m_scaleb md x (sat_i32 n) = m_scaleb md x n.
Proof.
  intros Hx. destruct (scaleb_saturates md x (sat_i32 n) n Hx) as [Hup Hlo].
  assert (C : sat_i32 n = n \/ (20000 <= sat_i32 n /\ 20000 <= n) \/ (sat_i32 n <= -20000 /\ n <= -20000))
    by (unfold sat_i32; lia).
  destruct C as [->|[[A B]|[A B]]]; [reflexivity|apply Hup; assumption|apply Hlo; assumption].
Qed.

(* ---------- logb / ilogb ---------- *)
Lemma digits_bounds c q : 0 < c ->
  (bpow radix10 (ndigits c + q - 1) <= F2R (Float radix10 c q) < bpow radix10 (ndigits c + q))%R.
Proof.
  intros Hc. unfold ndigits. pose proof (Zdigits_correct radix10 c) as Hd. rewrite Z.abs_eq in Hd by lia.
  assert (0 < Zdigits radix10 c) by (apply Zdigits_gt_0; lia).
  change (radix_val radix10) with 10 in Hd. split.
  - replace (Zdigits radix10 c + q - 1) with (Zdigits radix10 c - 1 + q) by ring.
    rewrite <- F2R_pow10 by lia. apply F2R_le. cbn [Fnum Fexp]. lia.
  - rewrite <- F2R_pow10 by lia. apply F2R_lt. cbn [Fnum Fexp]. exact (proj2 Hd).
Qed.

Lemma D2R_int e : D2R (Fin (e <? 0) (Z.abs e) 0) = IZR e.
Proof.
  unfold D2R, F2R; cbn [Fnum Fexp]. replace (cond_Zopp (e <? 0) (Z.abs e)) with e.
  - simpl. ring.
  - destruct (Z.ltb_spec e 0); cbn [cond_Zopp]; lia.
Qed.

Theorem logb_exact x s c q : 0 <= x < P128 -> decode x = Fin s c q -> c <> 0 ->
  let e := ndigits c + q - 1 in
  m_logb x = out1 (Fin (e <? 0) (Z.abs e) 0) 0 /\
  wf (Fin (e <? 0) (Z.abs e) 0) /\
  D2R (Fin (e <? 0) (Z.abs e) 0) = IZR e /\
  (bpow radix10 e <= Rabs (D2R (decode x)) < bpow radix10 (e + 1))%R /\
  e = mag radix10 (D2R (decode x)) - 1.
Proof.
  intros Hx E N e. destruct (decode_fin_bounds x s c q Hx E) as [Hc Hq].
  assert (Hc' : 0 < c < 10 ^ 34) by lia. pose proof (digits34 c Hc') as Hd. fold (ndigits c) in Hd.
  assert (Hb : (bpow radix10 e <= Rabs (D2R (decode x)) < bpow radix10 (e + 1))%R).
  { rewrite E, D2R_abs by lia. unfold e. replace (ndigits c + q - 1 + 1) with (ndigits c + q) by ring.
    apply digits_bounds. lia. }
  split; [|split; [|split; [|split]]].
  - unfold m_logb. rewrite E. cbn [is_nan]. destruct (Z.eqb_spec c 0); [contradiction|reflexivity].
  - cbn [wf]. unfold T34. unfold e. lia.
  - apply D2R_int.
  - exact Hb.
  - symmetry. assert (M : mag radix10 (D2R (decode x)) = e + 1 :> Z).
    { apply mag_unique. replace (e + 1 - 1) with e by ring. exact Hb. }
    lia.
Qed.

Theorem logb_specials x :
  (is_nan (decode x) = true -> m_logb x = nan_outcomes [decode x]) /\
  (forall s, decode x = Inf s -> m_logb x = out1 (Inf false) 0) /\
  (forall s q, decode x = Fin s 0 q -> m_logb x = out1 (Inf true) F_DBZ).
Proof.
  unfold m_logb. split; [|split].
  - intros ->. reflexivity.
  - intros s ->. reflexivity.
  - intros s q ->. reflexivity.
Qed.

Lemma to_i32_sint e : - 2 ^ 31 <= e < 2 ^ 31 -> 0 <= to_i32 e < 2 ^ 32 /\ sint 32 (to_i32 e) = e.
Proof.
  intros H. unfold sint, to_i32. change (2 ^ (32 - 1)) with 2147483648. change (2 ^ 32) with 4294967296.
  change (2 ^ 31) with 2147483648 in H.
  assert (C : e mod 4294967296 = e \/ e mod 4294967296 = e + 4294967296).
  { destruct (Z_lt_le_dec e 0).
    - right. symmetry. apply (Z.mod_unique e 4294967296 (-1)); lia.
    - left. apply Z.mod_small. lia. }
  split; [lia|]. destruct (Z.ltb_spec (e mod 4294967296) 2147483648); lia.
Qed.

Theorem ilogb_exact x s c q : 0 <= x < P128 -> decode x = Fin s c q -> c <> 0 ->
  let e := ndigits c + q - 1 in
  m_ilogb x = [([to_i32 e], 0)] /\ -6176 <= e <= 6144 /\ 0 <= to_i32 e < 2 ^ 32 /\ sint 32 (to_i32 e) = e.
Proof.
  intros Hx E N e. destruct (decode_fin_bounds x s c q Hx E) as [Hc Hq].
  assert (Hc' : 0 < c < 10 ^ 34) by lia. pose proof (digits34 c Hc') as Hd. fold (ndigits c) in Hd.
  split; [|split].
  - unfold m_ilogb. rewrite E. destruct (Z.eqb_spec c 0); [contradiction|reflexivity].
  - unfold e. lia.
  - apply to_i32_sint. unfold e. change (2 ^ 31) with 2147483648. lia.
Qed.

Theorem ilogb_specials x :
  (is_nan (decode x) = true -> m_ilogb x = [([I32_MIN], F_INV)]) /\
  (forall s q, decode x = Fin s 0 q -> m_ilogb x = [([I32_MIN], F_INV)]) /\
  (forall s, decode x = Inf s -> m_ilogb x = [([I32_MAX], F_INV)]) /\
  sint 32 I32_MIN = - 2 ^ 31 /\ sint 32 I32_MAX = 2 ^ 31 - 1.
Proof.
  unfold m_ilogb. split; [|split; [|split; [|split]]].
  - destruct (decode x); try discriminate. reflexivity.
  - intros s q ->. reflexivity.
  - intros s ->. reflexivity.
  - reflexivity.
  - reflexivity.
Qed.

(* ---------- frexp ---------- *)
Theorem frexp_reconstructs x s c q : 0 <= x < P128 -> decode x = Fin s c q -> c <> 0 ->
  let frac := Fin s c (- ndigits c) in let ex := q + ndigits c in
  m_frexp x = EList [([encode frac; to_i32 ex], 0)] /\
  wf frac /\
  (D2R frac * bpow radix10 ex)%R = D2R (decode x) /\
  (/ 10 <= Rabs (D2R frac) < 1)%R /\
  -6175 <= ex <= 6145 /\ 0 <= to_i32 ex < 2 ^ 32 /\ sint 32 (to_i32 ex) = ex.
Proof.
  intros Hx E N frac ex. destruct (decode_fin_bounds x s c q Hx E) as [Hc Hq].
  assert (Hc' : 0 < c < 10 ^ 34) by lia. pose proof (digits34 c Hc') as Hd. fold (ndigits c) in Hd.
  split; [|split; [|split; [|split; [|split]]]].
  - unfold m_frexp. rewrite E. destruct (Z.eqb_spec c 0); [contradiction|reflexivity].
  - cbn [wf frac]. rewrite T34_eq. lia.
  - unfold frac. rewrite D2R_scale, E. replace (- ndigits c + ex) with q by (unfold ex; ring). reflexivity.
  - unfold frac. rewrite D2R_abs by lia. pose proof (digits_bounds c (- ndigits c) (proj1 Hc')) as B.
    replace (ndigits c + - ndigits c - 1) with (-1) in B by ring.
    replace (ndigits c + - ndigits c) with 0 in B by ring.
    change (bpow radix10 0) with 1%R in B. change (bpow radix10 (-1)) with (/ 10)%R in B. exact B.
  - unfold ex. lia.
  - apply to_i32_sint. unfold ex. change (2 ^ 31) with 2147483648. lia.
Qed.
