(* The specification [ieee_result] is functional: for a given mode, exact value, preferred exponent and
   zero-sign argument it is satisfied by exactly one (datum, flags) pair.  Hence "the model satisfies ieee_result"
   means "the model returns THE IEEE 754-2008 answer", not merely "an acceptable answer".
   Also: two results for the same value but different preferred exponents / zero signs carry the same flags and
   are either identical (rounded or overflowed) or two members of the cohort of the exact value. *)
From Coq Require Import ZArith Reals Lia Lra Bool Psatz.
From Flocq Require Import Core.Core Calc.Bracket Calc.Round.
From DV Require Import Base RoundProofs.
Open Scope Z_scope.

Lemma flags_eq fl fl' :
  f_inexact fl = f_inexact fl' -> f_underflow fl = f_underflow fl' -> f_overflow fl = f_overflow fl' -> fl = fl'.
Proof. destruct fl as [a b c], fl' as [a' b' c']; cbn [f_inexact f_underflow f_overflow]; intros -> -> ->; reflexivity. Qed.

Lemma bool_iff_eq (a b : bool) (P : Prop) : (a = true <-> P) -> (b = true <-> P) -> a = b.
Proof.
  intros [A1 A2] [B1 B2]. destruct a, b; try reflexivity.
  - symmetry. apply B2, A1. reflexivity.
  - apply A2, B1. reflexivity.
Qed.

Lemma pow10_pos k : 0 <= k -> 0 < 10 ^ k.
Proof. intros H. apply Z.pow_pos_nonneg; lia. Qed.

Lemma pow10_ge10 k : 1 <= k -> 10 <= 10 ^ k.
Proof.
  intros H. replace k with (Z.succ (k - 1)) by lia. rewrite Z.pow_succ_r by lia.
  assert (0 < 10 ^ (k - 1)) by (apply pow10_pos; lia). lia.
Qed.

(* ---------- a cohort has one member nearest to the preferred exponent ---------- *)
Lemma repr_unique_exact_le c q c' q' pref :
  q <= q' -> repr_ok c q -> repr_ok c' q' ->
  F2R (Float radix10 c q) = F2R (Float radix10 c' q') ->
  (forall c2 q2, repr_ok c2 q2 -> F2R (Float radix10 c2 q2) = F2R (Float radix10 c q) ->
     Z.abs (q - pref) <= Z.abs (q2 - pref)) ->
  (forall c2 q2, repr_ok c2 q2 -> F2R (Float radix10 c2 q2) = F2R (Float radix10 c q) ->
     Z.abs (q' - pref) <= Z.abs (q2 - pref)) ->
  c = c' /\ q = q'.
Proof.
  intros Hle [Hc Hq] [Hc' Hq'] Ev P1 P2.
  assert (E : c = c' * 10 ^ (q' - q)) by (apply F2R_eq_inv; assumption).
  destruct (Z.eq_dec q q') as [Eq|Nq].
  - subst q'. rewrite Z.sub_diag, Z.pow_0_r, Z.mul_1_r in E. split; [exact E|reflexivity].
  - exfalso.
    assert (A1 : Z.abs (q - pref) <= Z.abs (q' - pref)).
    { apply (P1 c' q'). split; assumption. symmetry; exact Ev. }
    assert (A2 : Z.abs (q' - pref) <= Z.abs (q - pref)).
    { apply (P2 c q). split; assumption. reflexivity. }
    assert (Hb : q < pref < q') by lia.
    set (c2 := c' * 10 ^ (q' - pref)).
    assert (Hp1 : 0 < 10 ^ (q' - pref)) by (apply pow10_pos; lia).
    assert (Hp2 : 0 < 10 ^ (pref - q)) by (apply pow10_pos; lia).
    assert (Ec2 : c = c2 * 10 ^ (pref - q)).
    { unfold c2. rewrite <- Z.mul_assoc, <- Z.pow_add_r by lia.
      replace (q' - pref + (pref - q)) with (q' - q) by ring. exact E. }
    assert (R2 : repr_ok c2 pref).
    { split; [|unfold qmin, qmax in *; lia]. split; [unfold c2; nia|]. nia. }
    assert (V2 : F2R (Float radix10 c2 pref) = F2R (Float radix10 c q)).
    { rewrite Ev. unfold c2. rewrite (F2R_scale c' q' (q' - pref)) by lia.
      replace (q' - (q' - pref)) with pref by ring. reflexivity. }
    specialize (P1 c2 pref R2 V2). lia.
Qed.

Lemma repr_unique_exact c q c' q' pref :
  repr_ok c q -> repr_ok c' q' ->
  F2R (Float radix10 c q) = F2R (Float radix10 c' q') ->
  (forall c2 q2, repr_ok c2 q2 -> F2R (Float radix10 c2 q2) = F2R (Float radix10 c q) ->
     Z.abs (q - pref) <= Z.abs (q2 - pref)) ->
  (forall c2 q2, repr_ok c2 q2 -> F2R (Float radix10 c2 q2) = F2R (Float radix10 c q) ->
     Z.abs (q' - pref) <= Z.abs (q2 - pref)) ->
  c = c' /\ q = q'.
Proof.
  intros R R' Ev P1 P2. destruct (Z_le_gt_dec q q') as [L|G].
  - apply (repr_unique_exact_le c q c' q' pref); assumption.
  - assert (c' = c /\ q' = q) as [-> ->]; [|split; reflexivity].
    apply (repr_unique_exact_le c' q' c q pref); try assumption; try lia.
    + symmetry; exact Ev.
    + intros c2 q2 R2 V2. apply (P2 c2 q2 R2). rewrite V2. symmetry; exact Ev.
    + intros c2 q2 R2 V2. apply (P1 c2 q2 R2). rewrite V2. symmetry; exact Ev.
Qed.

(* ---------- a rounded (inexact) result has the least possible exponent: one representation ---------- *)
Lemma repr_unique_inexact_le c q c' q' :
  q <= q' -> repr_ok c q -> repr_ok c' q' ->
  F2R (Float radix10 c q) = F2R (Float radix10 c' q') ->
  (q' = qmin \/ 10 ^ 33 <= c') -> c = c' /\ q = q'.
Proof.
  intros Hle [Hc Hq] [Hc' Hq'] Ev N'.
  assert (E : c = c' * 10 ^ (q' - q)) by (apply F2R_eq_inv; assumption).
  destruct (Z.eq_dec q q') as [Eq|Nq].
  - subst q'. rewrite Z.sub_diag, Z.pow_0_r, Z.mul_1_r in E. split; [exact E|reflexivity].
  - exfalso. assert (H33 : 10 ^ 33 <= c') by (destruct N' as [N'|N']; [lia|exact N']).
    assert (H10 : 10 <= 10 ^ (q' - q)) by (apply pow10_ge10; lia).
    assert (H34 : 10 ^ 34 = 10 * 10 ^ 33) by reflexivity. nia.
Qed.

Lemma repr_unique_inexact c q c' q' :
  repr_ok c q -> repr_ok c' q' ->
  F2R (Float radix10 c q) = F2R (Float radix10 c' q') ->
  (q = qmin \/ 10 ^ 33 <= c) -> (q' = qmin \/ 10 ^ 33 <= c') -> c = c' /\ q = q'.
Proof.
  intros R R' Ev N N'. destruct (Z_le_gt_dec q q') as [L|G].
  - apply repr_unique_inexact_le; assumption.
  - assert (c' = c /\ q' = q) as [-> ->]; [|split; reflexivity].
    apply repr_unique_inexact_le; try assumption; try lia. symmetry; exact Ev.
Qed.

(* ---------- the specification determines the result ---------- *)
Theorem ieee_result_functional md x pref zs d fl d' fl' :
  ieee_result md x pref zs d fl -> ieee_result md x pref zs d' fl' -> d = d' /\ fl = fl'.
Proof.
  unfold ieee_result. cbv zeta. destruct (Rlt_bool MAXV (Rabs (rounded md x))).
  - intros [-> ->] [-> ->]. split; reflexivity.
  - intros (s & c & q & -> & R1 & V1 & S1 & Z1 & O1 & I1 & U1 & P1 & N1)
           (s' & c' & q' & -> & R2 & V2 & S2 & Z2 & O2 & I2 & U2 & P2 & N2).
    assert (Es : s = s').
    { destruct (Req_dec x 0) as [E|NE].
      - rewrite (Z1 E), (Z2 E). reflexivity.
      - rewrite (S1 NE), (S2 NE). reflexivity. }
    subst s'.
    assert (A1 : F2R (Float radix10 c q) = Rabs (rounded md x)).
    { rewrite <- V1. unfold D2R. symmetry. apply abs_signed. apply R1. }
    assert (A2 : F2R (Float radix10 c' q') = Rabs (rounded md x)).
    { rewrite <- V2. unfold D2R. symmetry. apply abs_signed. apply R2. }
    split.
    + assert (c = c' /\ q = q') as [-> ->]; [|reflexivity].
      destruct (Req_dec (rounded md x) x) as [E|NE].
      * apply (repr_unique_exact c q c' q' pref); try assumption.
        -- rewrite A1, A2. reflexivity.
        -- intros c2 q2 R V. apply (P1 E c2 q2 R). rewrite V, A1, E. reflexivity.
        -- intros c2 q2 R V. apply (P2 E c2 q2 R). rewrite V, A1, E. reflexivity.
      * apply repr_unique_inexact; try assumption.
        -- rewrite A1, A2. reflexivity.
        -- apply N1; exact NE.
        -- apply N2; exact NE.
    + apply flags_eq.
      * exact (bool_iff_eq _ _ _ I1 I2).
      * exact (bool_iff_eq _ _ _ U1 U2).
      * rewrite O1, O2. reflexivity.
Qed.

(* Same value, possibly different preferred exponent and zero-sign argument: the flags agree, and the data are
   identical whenever the result is rounded or overflows; otherwise both are exact representations of x
   (members of one cohort), of the same sign when x <> 0. *)
Theorem ieee_result_value_functional md x pref zs pref' zs' d fl d' fl' :
  ieee_result md x pref zs d fl -> ieee_result md x pref' zs' d' fl' ->
  fl = fl' /\
  (d = d' \/
   exists s c q s' c' q', d = Fin s c q /\ d' = Fin s' c' q' /\ D2R d = x /\ D2R d' = x /\ (x <> 0%R -> s = s')).
Proof.
  unfold ieee_result. cbv zeta. destruct (Rlt_bool MAXV (Rabs (rounded md x))).
  - intros [-> ->] [-> ->]. split; [reflexivity|left; reflexivity].
  - intros (s & c & q & -> & R1 & V1 & S1 & Z1 & O1 & I1 & U1 & P1 & N1)
           (s' & c' & q' & -> & R2 & V2 & S2 & Z2 & O2 & I2 & U2 & P2 & N2).
    split.
    + apply flags_eq.
      * exact (bool_iff_eq _ _ _ I1 I2).
      * exact (bool_iff_eq _ _ _ U1 U2).
      * rewrite O1, O2. reflexivity.
    + destruct (Req_dec (rounded md x) x) as [E|NE].
      * right. exists s, c, q, s', c', q'. split; [reflexivity|]. split; [reflexivity|].
        split; [rewrite V1; exact E|]. split; [rewrite V2; exact E|].
        intros Hx. rewrite (S1 Hx), (S2 Hx). reflexivity.
      * left.
        assert (Hx : x <> 0%R).
        { intros Hx. apply NE. rewrite Hx. unfold rounded. apply round_0. typeclasses eauto. }
        rewrite (S1 Hx), (S2 Hx).
        assert (A1 : F2R (Float radix10 c q) = Rabs (rounded md x)).
        { rewrite <- V1. unfold D2R. symmetry. apply abs_signed. apply R1. }
        assert (A2 : F2R (Float radix10 c' q') = Rabs (rounded md x)).
        { rewrite <- V2. unfold D2R. symmetry. apply abs_signed. apply R2. }
        assert (c = c' /\ q = q') as [-> ->]; [|reflexivity].
        apply repr_unique_inexact; try assumption.
        -- rewrite A1, A2. reflexivity.
        -- apply N1; exact NE.
        -- apply N2; exact NE.
Qed.

(* non-vacuity of the spec itself is shown by round_pack_correct (RoundProofs): every located real has a result *)
