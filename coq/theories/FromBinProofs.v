(* C07: binary floating point (f32 / f64) -> decimal128.
   Part 1 (no Flocq IEEE754): the fields of a bit pattern, the real number they denote (bin_value), and the
           theorem that m_from_bin on a finite non-zero pattern is the correctly rounded bin_value.
   Part 2: the link with Flocq's own decoding of bit patterns (IEEE754.Bits.binary_float_of_bits, of which
           b32_of_bits / b64_of_bits are instances): one total theorem by cases on the decoded binary float.
   Part 3: neither overflow nor underflow can be raised for f32 / f64 inputs.
   Part 4: what the Judge accepts (expected / judge for OFromBin). *)
From Coq Require Import ZArith Reals Lia Lra Bool List.
From Flocq Require Import Core.Core Calc.Bracket IEEE754.BinarySingleNaN IEEE754.Binary IEEE754.Bits.
From DV Require Import Base RoundProofs Bid BidProofs Arith ArithProofs OpsArith OpsArithProofs OpsCmp OpsConv Judge.
Import ListNotations.
Open Scope Z_scope.

(* ------------------------------------------------------------------------------------------------ *)
(* Part 1: fields and denoted value                                                                  *)
(* ------------------------------------------------------------------------------------------------ *)
Definition bf_sign (eb fb bits : Z) : bool := 2 ^ (eb + fb) <=? bits.
Definition bf_exp (eb fb bits : Z) : Z := (bits mod 2 ^ (eb + fb)) / 2 ^ fb.     (* biased exponent field *)
Definition bf_frac (eb fb bits : Z) : Z := (bits mod 2 ^ (eb + fb)) mod 2 ^ fb.  (* fraction field *)

(* integer significand and exponent of a finite pattern: value = (-1)^s * m * 2^E *)
Definition bin_m (eb fb bits : Z) : Z :=
  if bf_exp eb fb bits =? 0 then bf_frac eb fb bits else bf_frac eb fb bits + 2 ^ fb.
Definition bin_E (eb fb bits : Z) : Z := Z.max (bf_exp eb fb bits) 1 - (2 ^ (eb - 1) - 1) - fb.
Definition bin_value (eb fb bits : Z) : R :=
  F2R (Float radix2 (cond_Zopp (bf_sign eb fb bits) (bin_m eb fb bits)) (bin_E eb fb bits)).
Definition bin_den (eb fb bits : Z) : Z := if bf_exp eb fb bits =? 0 then F_DEN else 0.

Lemma m_from_bin_fields eb fb md bits :
  m_from_bin eb fb md bits =
  let s := bf_sign eb fb bits in let e := bf_exp eb fb bits in let f := bf_frac eb fb bits in
  if e =? 2 ^ eb - 1 then
    (if f =? 0 then BList (out1 (Inf s) 0) else BNaN s (if f <? 2 ^ (fb - 1) then F_INV else 0))
  else if (e =? 0) && (f =? 0) then BList (out1 (Fin s 0 0) 0)
  else
    let m := bin_m eb fb bits in let E := bin_E eb fb bits in
    let '(d, fl) := if 0 <=? E then rp md s (m * 2 ^ E) 0 loc_Exact 0 s
                    else rp md s (m * 5 ^ (- E)) E loc_Exact 0 s in
    BList (out1 d (flbits fl + bin_den eb fb bits)).
Proof. reflexivity. Qed.

Lemma bf_frac_range eb fb bits : 0 <= fb -> 0 <= bf_frac eb fb bits < 2 ^ fb.
Proof. intros H. unfold bf_frac. apply Z.mod_pos_bound. apply Z.pow_pos_nonneg; lia. Qed.

Lemma bf_exp_range eb fb bits : 0 <= eb -> 0 <= fb -> 0 <= bf_exp eb fb bits < 2 ^ eb.
Proof.
  intros He Hf. unfold bf_exp.
  assert (P1 : 0 < 2 ^ fb) by (apply Z.pow_pos_nonneg; lia).
  assert (P2 : 0 < 2 ^ eb) by (apply Z.pow_pos_nonneg; lia).
  assert (B : 0 <= bits mod 2 ^ (eb + fb) < 2 ^ eb * 2 ^ fb).
  { rewrite <- Z.pow_add_r by lia. apply Z.mod_pos_bound. apply Z.pow_pos_nonneg; lia. }
  split. apply Z.div_pos; lia. apply Z.div_lt_upper_bound; lia.
Qed.

Lemma bin_m_nonneg eb fb bits : 0 <= fb -> 0 <= bin_m eb fb bits.
Proof.
  intros H. unfold bin_m. pose proof (bf_frac_range eb fb bits H).
  assert (0 < 2 ^ fb) by (apply Z.pow_pos_nonneg; lia).
  destruct (bf_exp eb fb bits =? 0); lia.
Qed.

(* 2^E as a decimal: the two integer pairs used by the model denote m * 2^E exactly *)
Lemma pow2_as_dec_pos s m E : 0 <= E ->
  D2R (Fin s (m * 2 ^ E) 0) = F2R (Float radix2 (cond_Zopp s m) E).
Proof.
  intros HE. unfold D2R, F2R; cbn [Fnum Fexp]. rewrite bpow_powerRZ, (bpow_powerRZ radix2).
  change (IZR radix10) with 10%R. change (IZR radix2) with 2%R.
  replace (cond_Zopp s (m * 2 ^ E)) with (cond_Zopp s m * 2 ^ E) by (destruct s; simpl; ring).
  rewrite mult_IZR. change 2 with (radix_val radix2) at 1. rewrite IZR_Zpower by exact HE.
  rewrite (bpow_powerRZ radix2). change (IZR radix2) with 2%R. simpl (powerRZ 10 0). ring.
Qed.

Lemma pow2_as_dec_neg s m E : E < 0 ->
  D2R (Fin s (m * 5 ^ (- E)) E) = F2R (Float radix2 (cond_Zopp s m) E).
Proof.
  intros HE. assert (Hk : exists k, 0 < k /\ E = - k) by (exists (- E); lia).
  destruct Hk as (k & Hk & ->). rewrite Z.opp_involutive.
  unfold D2R, F2R; cbn [Fnum Fexp].
  replace (cond_Zopp s (m * 5 ^ k)) with (cond_Zopp s m * 5 ^ k) by (destruct s; simpl; ring).
  rewrite mult_IZR. rewrite !bpow_opp.
  rewrite <- !IZR_Zpower by lia. change (radix_val radix10) with 10. change (radix_val radix2) with 2.
  replace (10 ^ k) with (2 ^ k * 5 ^ k) by (rewrite <- Z.pow_mul_l; reflexivity).
  rewrite mult_IZR.
  assert (0 < 2 ^ k) by (apply Z.pow_pos_nonneg; lia).
  assert (0 < 5 ^ k) by (apply Z.pow_pos_nonneg; lia).
  assert (IZR (2 ^ k) <> 0%R) by (apply IZR_neq; lia).
  assert (IZR (5 ^ k) <> 0%R) by (apply IZR_neq; lia).
  field. split; assumption.
Qed.

(* finite non-zero patterns: the single accepted outcome is the correctly rounded value, preferred exponent 0,
   and the raised flags are those of the rounding plus the denormal-operand bit iff the exponent field is 0 *)
Theorem from_bin_fields_finite eb fb md bits :
  0 <= fb ->
  bf_exp eb fb bits <> 2 ^ eb - 1 ->
  ~ (bf_exp eb fb bits = 0 /\ bf_frac eb fb bits = 0) ->
  exists d fl,
    m_from_bin eb fb md bits = BList [([encode d], flbits fl + bin_den eb fb bits)] /\
    ieee_result md (bin_value eb fb bits) 0 (bf_sign eb fb bits) d fl /\
    canonical_bits (encode d) = true.
Proof.
  intros Hfb Hne Hnz. rewrite m_from_bin_fields. cbv zeta.
  destruct (Z.eqb_spec (bf_exp eb fb bits) (2 ^ eb - 1)) as [E1|_]; [contradiction|].
  destruct ((bf_exp eb fb bits =? 0) && (bf_frac eb fb bits =? 0)) eqn:Ez.
  { apply andb_prop in Ez. destruct Ez as [Ea Eb]. apply Z.eqb_eq in Ea, Eb. elim Hnz. split; assumption. }
  pose proof (bin_m_nonneg eb fb bits Hfb) as Hm.
  set (s := bf_sign eb fb bits). set (m := bin_m eb fb bits) in *. set (E := bin_E eb fb bits).
  assert (Hres : let '(d, fl) := (if 0 <=? E then rp md s (m * 2 ^ E) 0 loc_Exact 0 s
                                  else rp md s (m * 5 ^ (- E)) E loc_Exact 0 s) in
                 ieee_result md (bin_value eb fb bits) 0 s d fl).
  { unfold bin_value. fold s m E. destruct (Z.leb_spec 0 E) as [HE|HE].
    - rewrite <- pow2_as_dec_pos by exact HE. apply rp_exact_sm.
      assert (0 <= 2 ^ E) by (apply Z.pow_nonneg; lia). nia.
    - rewrite <- pow2_as_dec_neg by exact HE. apply rp_exact_sm.
      assert (0 <= 5 ^ (- E)) by (apply Z.pow_nonneg; lia). nia. }
  destruct (if 0 <=? E then rp md s (m * 2 ^ E) 0 loc_Exact 0 s else rp md s (m * 5 ^ (- E)) E loc_Exact 0 s)
    as [d fl].
  exists d, fl. split; [reflexivity|]. split; [exact Hres|].
  apply encode_canonical. eapply ieee_result_wf. exact Hres.
Qed.

Lemma F2R_pow2 k e : 0 <= k -> F2R (Float radix2 (2 ^ k) e) = bpow radix2 (k + e).
Proof.
  intros Hk. unfold F2R; cbn [Fnum Fexp]. change 2 with (radix_val radix2).
  rewrite IZR_Zpower by exact Hk. rewrite bpow_plus. reflexivity.
Qed.

(* the denoted value is non-zero and has the sign of the sign bit *)
Lemma bin_m_pos eb fb bits : 0 <= fb ->
  ~ (bf_exp eb fb bits = 0 /\ bf_frac eb fb bits = 0) -> 0 < bin_m eb fb bits.
Proof.
  intros Hfb Hnz. unfold bin_m. pose proof (bf_frac_range eb fb bits Hfb).
  destruct (Z.eqb_spec (bf_exp eb fb bits) 0); lia.
Qed.

Lemma bin_value_sign eb fb bits : 0 <= fb ->
  ~ (bf_exp eb fb bits = 0 /\ bf_frac eb fb bits = 0) ->
  bin_value eb fb bits <> 0%R /\ Rlt_bool (bin_value eb fb bits) 0 = bf_sign eb fb bits.
Proof.
  intros Hfb Hnz. pose proof (bin_m_pos eb fb bits Hfb Hnz) as Hm. unfold bin_value.
  destruct (bf_sign eb fb bits); cbn [cond_Zopp].
  - assert (F2R (Float radix2 (- bin_m eb fb bits) (bin_E eb fb bits)) < 0)%R by (apply F2R_lt_0; cbn [Fnum]; lia).
    split; [lra|]. apply Rlt_bool_true. assumption.
  - assert (0 < F2R (Float radix2 (bin_m eb fb bits) (bin_E eb fb bits)))%R by (apply F2R_gt_0; cbn [Fnum]; lia).
    split; [lra|]. apply Rlt_bool_false. lra.
Qed.

(* zeros, infinities, NaNs by fields (axiom-free) *)
Theorem from_bin_fields_zero eb fb md bits :
  bf_exp eb fb bits <> 2 ^ eb - 1 -> bf_exp eb fb bits = 0 -> bf_frac eb fb bits = 0 ->
  m_from_bin eb fb md bits = BList [([encode (Fin (bf_sign eb fb bits) 0 0)], 0)].
Proof.
  intros Hne He Hf. rewrite m_from_bin_fields. cbv zeta.
  destruct (Z.eqb_spec (bf_exp eb fb bits) (2 ^ eb - 1)) as [E1|_]; [contradiction|].
  rewrite He, Hf. reflexivity.
Qed.

Theorem from_bin_fields_inf eb fb md bits :
  bf_exp eb fb bits = 2 ^ eb - 1 -> bf_frac eb fb bits = 0 ->
  m_from_bin eb fb md bits = BList [([encode (Inf (bf_sign eb fb bits))], 0)].
Proof.
  intros He Hf. rewrite m_from_bin_fields. cbv zeta. rewrite He, Z.eqb_refl, Hf. reflexivity.
Qed.

Theorem from_bin_fields_nan eb fb md bits :
  bf_exp eb fb bits = 2 ^ eb - 1 -> bf_frac eb fb bits <> 0 ->
  m_from_bin eb fb md bits =
  BNaN (bf_sign eb fb bits) (if bf_frac eb fb bits <? 2 ^ (fb - 1) then F_INV else 0).
Proof.
  intros He Hf. rewrite m_from_bin_fields. cbv zeta. rewrite He, Z.eqb_refl.
  destruct (Z.eqb_spec (bf_frac eb fb bits) 0); [contradiction|reflexivity].
Qed.

(* ------------------------------------------------------------------------------------------------ *)
(* Part 2: the meaning of a bit pattern according to Flocq (IEEE754.Bits)                            *)
(* ------------------------------------------------------------------------------------------------ *)
Section FlocqLink.
Variables mw ew : Z.              (* fraction bits, exponent bits: Flocq's names *)
Hypothesis Hmw : 0 < mw.
Hypothesis Hew : 0 < ew.
Hypothesis Hmax : mw + 1 < 2 ^ (ew - 1).

Let fprec := mw + 1.
Let femax := 2 ^ (ew - 1).
Let femin := SpecFloat.emin fprec femax.

(* Flocq's split_bits yields the model's fields *)
Lemma split_bits_fields bits :
  split_bits mw ew bits = (bf_sign ew mw bits, bf_frac ew mw bits, bf_exp ew mw bits).
Proof.
  unfold split_bits, bf_sign, bf_frac, bf_exp.
  assert (P1 : 0 < 2 ^ mw) by (apply Z.pow_pos_nonneg; lia).
  assert (P2 : 0 < 2 ^ ew) by (apply Z.pow_pos_nonneg; lia).
  replace (2 ^ (ew + mw)) with (2 ^ mw * 2 ^ ew) by (rewrite <- Z.pow_add_r by lia; f_equal; ring).
  rewrite Z.rem_mul_r by lia.
  pose proof (Z.mod_pos_bound bits (2 ^ mw) P1) as B.
  f_equal; [f_equal|].
  - rewrite (Z.mul_comm (2 ^ mw)), Z_mod_plus_full, Z.mod_mod by lia. reflexivity.
  - rewrite (Z.mul_comm (2 ^ mw)), Z.div_add by lia. rewrite (Z.div_small (bits mod 2 ^ mw)) by exact B. reflexivity.
Qed.

Lemma bin_E_emin bits :
  bin_E ew mw bits = if bf_exp ew mw bits =? 0 then femin else bf_exp ew mw bits + femin - 1.
Proof.
  unfold bin_E, femin, SpecFloat.emin, fprec, femax.
  pose proof (bf_exp_range ew mw bits ltac:(lia) ltac:(lia)) as B.
  destruct (Z.eqb_spec (bf_exp ew mw bits) 0); lia.
Qed.

(* Flocq's decoder, case by case on the model's fields *)
Lemma aux_by_fields bits :
  binary_float_of_bits_aux mw ew bits =
  let s := bf_sign ew mw bits in let e := bf_exp ew mw bits in let f := bf_frac ew mw bits in
  if e =? 0 then (if f =? 0 then F754_zero s else F754_finite s (Z.to_pos f) femin)
  else if e =? 2 ^ ew - 1 then (if f =? 0 then F754_infinity s else F754_nan s (Z.to_pos f))
  else F754_finite s (Z.to_pos (f + 2 ^ mw)) (e + femin - 1).
Proof.
  unfold binary_float_of_bits_aux. rewrite split_bits_fields. cbv zeta.
  pose proof (bf_frac_range ew mw bits ltac:(lia)) as Bf.
  assert (P1 : 0 < 2 ^ mw) by (apply Z.pow_pos_nonneg; lia).
  fold fprec femax femin.
  destruct (Zeq_bool_spec (bf_exp ew mw bits) 0) as [E0|E0].
  - rewrite E0. cbn [Z.eqb]. destruct (bf_frac ew mw bits) as [|p|p]; [reflexivity|reflexivity|lia].
  - destruct (Z.eqb_spec (bf_exp ew mw bits) 0) as [|_]; [contradiction|].
    destruct (Zeq_bool_spec (bf_exp ew mw bits) (2 ^ ew - 1)) as [E1|E1].
    + rewrite E1, Z.eqb_refl. destruct (bf_frac ew mw bits) as [|p|p]; [reflexivity|reflexivity|lia].
    + destruct (Z.eqb_spec (bf_exp ew mw bits) (2 ^ ew - 1)) as [|_]; [contradiction|].
      destruct (bf_frac ew mw bits + 2 ^ mw) as [|p|p] eqn:Ep; [lia|reflexivity|lia].
Qed.

Notation of_bits := (binary_float_of_bits mw ew Hmw Hew Hmax).

Lemma B2FF_of_bits bits : B2FF fprec femax (of_bits bits) = binary_float_of_bits_aux mw ew bits.
Proof. unfold binary_float_of_bits. apply B2FF_FF2B. Qed.

(* One total statement: whatever Flocq decodes the pattern to, the model's answer is the corresponding one. *)
Theorem from_bin_of_bits md bits :
  match of_bits bits with
  | Binary.B754_zero _ _ s => m_from_bin ew mw md bits = BList [([encode (Fin s 0 0)], 0)]
  | Binary.B754_infinity _ _ s => m_from_bin ew mw md bits = BList [([encode (Inf s)], 0)]
  | Binary.B754_nan _ _ s pl _ =>
      m_from_bin ew mw md bits = BNaN s (if Z.pos pl <? 2 ^ (mw - 1) then F_INV else 0)
  | Binary.B754_finite _ _ s m e _ as b =>
      exists d fl,
        m_from_bin ew mw md bits = BList [([encode d], flbits fl + bin_den ew mw bits)] /\
        ieee_result md (Binary.B2R fprec femax b) 0 s d fl /\
        canonical_bits (encode d) = true
  end.
Proof.
  pose proof (B2FF_of_bits bits) as HB. rewrite aux_by_fields in HB. cbv zeta in HB.
  pose proof (bf_frac_range ew mw bits ltac:(lia)) as Bf.
  pose proof (bf_exp_range ew mw bits ltac:(lia) ltac:(lia)) as Be.
  assert (P1 : 0 < 2 ^ mw) by (apply Z.pow_pos_nonneg; lia).
  assert (P2 : 1 < 2 ^ ew) by (apply Z.pow_gt_1; lia).
  destruct (Z.eqb_spec (bf_exp ew mw bits) 0) as [E0|E0].
  - (* exponent field 0 *)
    destruct (Z.eqb_spec (bf_frac ew mw bits) 0) as [F0|F0].
    + destruct (of_bits bits) as [s|s|s pl Hpl|s m e Hb]; cbn [B2FF] in HB; try discriminate HB.
      injection HB as ->. apply from_bin_fields_zero; lia.
    + destruct (of_bits bits) as [s|s|s pl Hpl|s m e Hb]; cbn [B2FF] in HB; try discriminate HB.
      injection HB as -> -> ->.
      destruct (from_bin_fields_finite ew mw md bits) as (d & fl & H1 & H2 & H3); [lia|lia|lia|].
      exists d, fl. split; [exact H1|]. split; [|exact H3].
      cbn [Binary.B2R]. unfold bin_value in H2. rewrite bin_E_emin in H2. unfold bin_m in H2.
      rewrite E0 in H2. cbn [Z.eqb] in H2. rewrite Z2Pos.id by lia. exact H2.
  - destruct (Z.eqb_spec (bf_exp ew mw bits) (2 ^ ew - 1)) as [E1|E1].
    + destruct (Z.eqb_spec (bf_frac ew mw bits) 0) as [F0|F0].
      * destruct (of_bits bits) as [s|s|s pl Hpl|s m e Hb]; cbn [B2FF] in HB; try discriminate HB.
        injection HB as ->. apply from_bin_fields_inf; assumption.
      * destruct (of_bits bits) as [s|s|s pl Hpl|s m e Hb]; cbn [B2FF] in HB; try discriminate HB.
        injection HB as -> ->. rewrite Z2Pos.id by lia. apply from_bin_fields_nan; assumption.
    + destruct (of_bits bits) as [s|s|s pl Hpl|s m e Hb]; cbn [B2FF] in HB; try discriminate HB.
      injection HB as -> -> ->.
      destruct (from_bin_fields_finite ew mw md bits) as (d & fl & H1 & H2 & H3); [lia|lia|lia|].
      exists d, fl. split; [exact H1|]. split; [|exact H3].
      cbn [Binary.B2R]. unfold bin_value in H2. rewrite bin_E_emin in H2. unfold bin_m in H2.
      destruct (Z.eqb_spec (bf_exp ew mw bits) 0) as [|_]; [contradiction|].
      rewrite Z2Pos.id by lia. exact H2.
Qed.

(* The same facts in the form asked for: hypotheses on Flocq's datum, conclusions on the model. *)
Lemma Bsign_of_bits bits : Binary.Bsign fprec femax (of_bits bits) = bf_sign ew mw bits.
Proof.
  unfold binary_float_of_bits. rewrite Bsign_FF2B, aux_by_fields. cbv zeta.
  destruct (_ =? 0); [destruct (_ =? 0); reflexivity|].
  destruct (_ =? 2 ^ ew - 1); [destruct (_ =? 0); reflexivity|reflexivity].
Qed.

Theorem from_bin_value md bits :
  let b := of_bits bits in
  Binary.is_finite fprec femax b = true -> Binary.B2R fprec femax b <> 0%R ->
  exists d fl,
    m_from_bin ew mw md bits = BList [([encode d], flbits fl + bin_den ew mw bits)] /\
    ieee_result md (Binary.B2R fprec femax b) 0 (Binary.Bsign fprec femax b) d fl /\
    canonical_bits (encode d) = true.
Proof.
  intros b. pose proof (from_bin_of_bits md bits) as H. fold b in H.
  destruct b as [s|s|s pl Hpl|s m e Hb]; intros Hf Hnz; try discriminate Hf.
  - elim Hnz. reflexivity.
  - exact H.
Qed.

(* the denormal-operand bit: raised iff exponent field 0 (and, the value being non-zero, fraction non-zero),
   i.e. iff the value is below the least normal magnitude 2^(2 - emax) *)
Lemma bin_den_iff_subnormal bits :
  bf_exp ew mw bits <> 2 ^ ew - 1 ->
  (bf_exp ew mw bits = 0 <-> (Rabs (bin_value ew mw bits) < bpow radix2 (2 - femax))%R).
Proof.
  intros Hne.
  pose proof (bf_frac_range ew mw bits ltac:(lia)) as Bf.
  pose proof (bf_exp_range ew mw bits ltac:(lia) ltac:(lia)) as Be.
  assert (P1 : 0 < 2 ^ mw) by (apply Z.pow_pos_nonneg; lia).
  unfold bin_value. rewrite <- F2R_Zabs, abs_cond_Zopp, bin_E_emin. unfold bin_m.
  assert (Hem : 2 - femax = mw + femin) by (unfold femin, SpecFloat.emin, fprec; ring).
  rewrite Hem.
  destruct (Z.eqb_spec (bf_exp ew mw bits) 0) as [E0|E0].
  - split; [intros _|intros _; exact E0].
    rewrite Z.abs_eq by lia.
    replace (bpow radix2 (mw + femin)) with (F2R (Float radix2 (2 ^ mw) femin)).
    + apply F2R_lt. lia.
    + apply F2R_pow2. lia.
  - split; [intros; contradiction|]. intros H. exfalso. apply (Rlt_not_le _ _ H).
    rewrite Z.abs_eq by lia.
    apply Rle_trans with (F2R (Float radix2 (2 ^ mw) (bf_exp ew mw bits + femin - 1))).
    + rewrite F2R_pow2 by lia. apply bpow_le. lia.
    + apply F2R_le. cbn [Fnum]. lia.
Qed.

End FlocqLink.

(* ------------------------------------------------------------------------------------------------ *)
(* Part 3: the value range of f32 / f64 lies inside decimal128's normal range                         *)
(* ------------------------------------------------------------------------------------------------ *)
Lemma MAXV_format : generic_format radix10 fexp MAXV.
Proof.
  unfold MAXV. apply generic_format_F2R. intros _. rewrite cexp_val.
  rewrite mag_F2R_Zdigits by (unfold MAXC; lia).
  replace (Zdigits radix10 MAXC) with 34 by (vm_compute; reflexivity). unfold qmin, qmax. lia.
Qed.

Lemma bpow2_le_bpow10 k : 0 <= k -> (bpow radix2 k <= bpow radix10 k)%R.
Proof.
  intros Hk. rewrite <- !IZR_Zpower by exact Hk. apply IZR_le.
  change (radix_val radix2) with 2. change (radix_val radix10) with 10. apply Z.pow_le_mono_l. lia.
Qed.

Lemma bpow10_le_bpow2_neg k : 0 <= k -> (bpow radix10 (- k) <= bpow radix2 (- k))%R.
Proof.
  intros Hk. rewrite !bpow_opp. apply Rinv_le. apply bpow_gt_0. apply bpow2_le_bpow10. exact Hk.
Qed.

(* in that range ieee_result cannot produce overflow or underflow: the result is a finite datum whose value is
   the rounded x, and only inexact can be raised *)
Lemma ieee_result_in_range md x pref zs d fl :
  (bpow radix10 (-6143) <= Rabs x <= MAXV)%R ->
  ieee_result md x pref zs d fl ->
  f_overflow fl = false /\ f_underflow fl = false /\
  exists c q, d = Fin (Rlt_bool x 0) c q /\ repr_ok c q /\ D2R d = rounded md x /\
    (f_inexact fl = true <-> rounded md x <> x) /\
    (rounded md x = x -> forall c' q', repr_ok c' q' -> F2R (Float radix10 c' q') = Rabs x ->
                         Z.abs (q - pref) <= Z.abs (q' - pref)) /\
    (rounded md x <> x -> q = qmin \/ 10 ^ 33 <= c).
Proof.
  intros [Hlo Hhi] H. unfold ieee_result in H.
  assert (Hr : (Rabs (rounded md x) <= MAXV)%R).
  { unfold rounded. apply abs_round_le_generic. typeclasses eauto. typeclasses eauto. apply MAXV_format. exact Hhi. }
  rewrite Rlt_bool_false in H by exact Hr.
  destruct H as (s & c & q & -> & Hrep & Hval & Hs & _ & Hov & Hinx & Hunf & Hpref & Hmin).
  assert (Hx : x <> 0%R).
  { intros ->. rewrite Rabs_R0 in Hlo. pose proof (bpow_gt_0 radix10 (-6143)). lra. }
  split; [exact Hov|]. split.
  - destruct (f_underflow fl); [|reflexivity]. destruct Hunf as [Hu _]. destruct (Hu eq_refl) as [_ Hu2]. lra.
  - exists c, q. rewrite <- (Hs Hx). split; [reflexivity|]. split; [exact Hrep|]. split; [exact Hval|].
    split; [exact Hinx|]. split; [exact Hpref|exact Hmin].
Qed.

Lemma bin_value_bounds eb fb bits :
  1 < eb -> 0 <= fb ->
  bf_exp eb fb bits <> 2 ^ eb - 1 -> ~ (bf_exp eb fb bits = 0 /\ bf_frac eb fb bits = 0) ->
  (bpow radix2 (2 - 2 ^ (eb - 1) - fb) <= Rabs (bin_value eb fb bits) < bpow radix2 (2 ^ (eb - 1)))%R.
Proof.
  intros Heb Hfb Hne Hnz.
  pose proof (bf_frac_range eb fb bits Hfb) as Bf.
  pose proof (bf_exp_range eb fb bits ltac:(lia) Hfb) as Be.
  pose proof (bin_m_pos eb fb bits Hfb Hnz) as Hm.
  assert (P1 : 0 < 2 ^ fb) by (apply Z.pow_pos_nonneg; lia).
  assert (P2 : 2 ^ eb = 2 * 2 ^ (eb - 1)).
  { replace eb with (1 + (eb - 1)) at 1 by ring. rewrite Z.pow_add_r by lia. reflexivity. }
  assert (Hm2 : bin_m eb fb bits < 2 ^ (fb + 1)).
  { rewrite Z.pow_add_r by lia. change (2 ^ 1) with 2. unfold bin_m. destruct (_ =? 0); lia. }
  assert (P3 : 2 ^ 1 <= 2 ^ (eb - 1)) by (apply Z.pow_le_mono_r; lia). change (2 ^ 1) with 2 in P3.
  assert (HE : 2 - 2 ^ (eb - 1) - fb <= bin_E eb fb bits <= 2 ^ (eb - 1) - 1 - fb) by (unfold bin_E; lia).
  unfold bin_value. rewrite <- F2R_Zabs, abs_cond_Zopp, Z.abs_eq by lia. split.
  - apply Rle_trans with (F2R (Float radix2 1 (bin_E eb fb bits))).
    + rewrite F2R_bpow. apply bpow_le. lia.
    + apply F2R_le. cbn [Fnum]. lia.
  - apply Rlt_le_trans with (F2R (Float radix2 (2 ^ (fb + 1)) (bin_E eb fb bits))).
    + apply F2R_lt. exact Hm2.
    + rewrite F2R_pow2 by lia. apply bpow_le. lia.
Qed.

(* formats whose whole finite range fits: 2^(eb-1) <= 6111 and 2^(eb-1) + fb - 2 <= 6143 (f32: 128, 149; f64: 1024, 1074) *)
Lemma bin_value_in_dec_range eb fb bits :
  1 < eb -> 0 <= fb -> 2 ^ (eb - 1) <= 6111 -> 2 ^ (eb - 1) + fb - 2 <= 6143 ->
  bf_exp eb fb bits <> 2 ^ eb - 1 -> ~ (bf_exp eb fb bits = 0 /\ bf_frac eb fb bits = 0) ->
  (bpow radix10 (-6143) <= Rabs (bin_value eb fb bits) <= MAXV)%R.
Proof.
  intros Heb Hfb H1 H2 Hne Hnz.
  destruct (bin_value_bounds eb fb bits Heb Hfb Hne Hnz) as [Lo Hi].
  assert (P : 2 ^ 1 <= 2 ^ (eb - 1)) by (apply Z.pow_le_mono_r; lia). change (2 ^ 1) with 2 in P.
  split.
  - apply Rle_trans with (2 := Lo).
    apply Rle_trans with (bpow radix10 (- (2 ^ (eb - 1) + fb - 2))). apply bpow_le; lia.
    replace (2 - 2 ^ (eb - 1) - fb) with (- (2 ^ (eb - 1) + fb - 2)) by ring.
    apply bpow10_le_bpow2_neg. lia.
  - apply Rlt_le in Hi. apply Rle_trans with (1 := Hi).
    apply Rle_trans with (bpow radix10 (2 ^ (eb - 1))). apply bpow2_le_bpow10; lia.
    apply Rle_trans with (bpow radix10 6111). apply bpow_le; lia.
    unfold MAXV. rewrite <- (F2R_bpow radix10 6111). apply F2R_le. unfold MAXC, qmax. cbn [Fnum]. lia.
Qed.

(* strong form of the finite case for such formats: one finite result, flags = inexact? + denormal? *)
Theorem from_bin_fields_finite_noexc eb fb md bits :
  1 < eb -> 0 <= fb -> 2 ^ (eb - 1) <= 6111 -> 2 ^ (eb - 1) + fb - 2 <= 6143 ->
  bf_exp eb fb bits <> 2 ^ eb - 1 -> ~ (bf_exp eb fb bits = 0 /\ bf_frac eb fb bits = 0) ->
  let x := bin_value eb fb bits in
  exists c q (inx : bool),
    m_from_bin eb fb md bits =
      BList [([encode (Fin (bf_sign eb fb bits) c q)], (if inx then F_INX else 0) + bin_den eb fb bits)] /\
    repr_ok c q /\ canonical_bits (encode (Fin (bf_sign eb fb bits) c q)) = true /\
    D2R (Fin (bf_sign eb fb bits) c q) = rounded md x /\
    (inx = true <-> rounded md x <> x) /\
    (rounded md x = x -> forall c' q', repr_ok c' q' -> F2R (Float radix10 c' q') = Rabs x -> Z.abs q <= Z.abs q') /\
    (rounded md x <> x -> q = qmin \/ 10 ^ 33 <= c).
Proof.
  intros Heb Hfb H1 H2 Hne Hnz x.
  destruct (from_bin_fields_finite eb fb md bits Hfb Hne Hnz) as (d & fl & E1 & E2 & E3).
  pose proof (bin_value_in_dec_range eb fb bits Heb Hfb H1 H2 Hne Hnz) as Hrange.
  destruct (ieee_result_in_range md _ 0 _ d fl Hrange E2) as (Hov & Hun & c & q & -> & Hrep & Hval & Hinx & Hpref & Hmin).
  destruct (bin_value_sign eb fb bits Hfb Hnz) as [_ Hsg]. rewrite Hsg in *.
  exists c, q, (f_inexact fl). split.
  - rewrite E1. unfold flbits. rewrite Hov, Hun. do 4 f_equal. ring.
  - split; [exact Hrep|]. split; [exact E3|]. split; [exact Hval|]. split; [exact Hinx|]. split; [|exact Hmin].
    intros Hx c' q' R' V'. specialize (Hpref Hx c' q' R' V'). rewrite !Z.sub_0_r in Hpref. exact Hpref.
Qed.

(* the same with Flocq's datum: finite non-zero input of a format inside decimal128's normal range *)
Section FlocqLinkStrong.
Variables mw ew : Z.
Hypothesis Hmw : 0 < mw.
Hypothesis Hew : 0 < ew.
Hypothesis Hmax : mw + 1 < 2 ^ (ew - 1).
Hypothesis Hr1 : 2 ^ (ew - 1) <= 6111.
Hypothesis Hr2 : 2 ^ (ew - 1) + mw - 2 <= 6143.
Let fprec := mw + 1.
Let femax := 2 ^ (ew - 1).
Notation of_bits := (binary_float_of_bits mw ew Hmw Hew Hmax).

Lemma of_bits_finite_fields bits :
  Binary.is_finite fprec femax (of_bits bits) = true -> Binary.B2R fprec femax (of_bits bits) <> 0%R ->
  bf_exp ew mw bits <> 2 ^ ew - 1 /\ ~ (bf_exp ew mw bits = 0 /\ bf_frac ew mw bits = 0) /\
  Binary.B2R fprec femax (of_bits bits) = bin_value ew mw bits.
Proof.
  rewrite <- is_finite_B2FF, <- FF2R_B2FF. unfold fprec, femax. rewrite (B2FF_of_bits mw ew Hmw Hew Hmax bits).
  rewrite aux_by_fields by assumption. cbv zeta.
  pose proof (bf_frac_range ew mw bits ltac:(lia)) as Bf.
  assert (P1 : 0 < 2 ^ mw) by (apply Z.pow_pos_nonneg; lia).
  assert (P2 : 1 < 2 ^ ew) by (apply Z.pow_gt_1; lia).
  unfold bin_value. rewrite (bin_E_emin mw ew) by assumption. unfold bin_m.
  destruct (Z.eqb_spec (bf_exp ew mw bits) 0) as [E0|E0].
  - destruct (Z.eqb_spec (bf_frac ew mw bits) 0) as [F0|F0]; cbn [is_finite_FF FF2R].
    + intros _ H. elim H. reflexivity.
    + intros _ _. rewrite Z2Pos.id by lia. split; [lia|]. split; [lia|reflexivity].
  - destruct (Z.eqb_spec (bf_exp ew mw bits) (2 ^ ew - 1)) as [E1|E1].
    + destruct (_ =? 0); cbn [is_finite_FF]; discriminate.
    + cbn [is_finite_FF FF2R]. intros _ _. rewrite Z2Pos.id by lia. split; [lia|]. split; [lia|reflexivity].
Qed.

Theorem from_bin_value_noexc md bits :
  let b := of_bits bits in
  let x := Binary.B2R fprec femax b in
  let s := Binary.Bsign fprec femax b in
  Binary.is_finite fprec femax b = true -> x <> 0%R ->
  exists c q (inx : bool),
    m_from_bin ew mw md bits =
      BList [([encode (Fin s c q)],
              (if inx then F_INX else 0) + (if Rlt_bool (Rabs x) (bpow radix2 (2 - femax)) then F_DEN else 0))] /\
    repr_ok c q /\ canonical_bits (encode (Fin s c q)) = true /\
    D2R (Fin s c q) = rounded md x /\
    (inx = true <-> rounded md x <> x) /\
    (rounded md x = x -> forall c' q', repr_ok c' q' -> F2R (Float radix10 c' q') = Rabs x -> Z.abs q <= Z.abs q') /\
    (rounded md x <> x -> q = qmin \/ 10 ^ 33 <= c).
Proof.
  intros b x s Hf Hx. unfold x, s, b in *. clear b x s.
  destruct (of_bits_finite_fields bits Hf Hx) as (Hne & Hnz & Hv).
  unfold fprec, femax in *. rewrite (Bsign_of_bits mw ew Hmw Hew Hmax bits). rewrite Hv.
  assert (Hew1 : 1 < ew).
  { destruct (Z.eq_dec ew 1) as [->|]; [|lia]. change (2 ^ (1 - 1)) with 1 in Hmax. lia. }
  destruct (from_bin_fields_finite_noexc ew mw md bits Hew1 ltac:(lia) Hr1 Hr2 Hne Hnz)
    as (c & q & inx & E1 & E2). cbv zeta in E2.
  exists c, q, inx. split; [|exact E2]. rewrite E1. do 4 f_equal. unfold bin_den.
  pose proof (bin_den_iff_subnormal mw ew Hmw Hew bits Hne) as Hs.
  destruct (Z.eqb_spec (bf_exp ew mw bits) 0) as [E0|E0].
  - rewrite Rlt_bool_true by (apply Hs; exact E0). reflexivity.
  - rewrite Rlt_bool_false; [reflexivity|]. apply Rnot_lt_le. intros H. apply E0, Hs, H.
Qed.
End FlocqLinkStrong.

(* ------------------------------------------------------------------------------------------------ *)
(* Part 4: what the Judge accepts                                                                     *)
(* ------------------------------------------------------------------------------------------------ *)
Theorem expected_from_bin eb fb use_mode md b :
  expected (OFromBin eb fb use_mode) md [b] =
  match m_from_bin eb fb (if use_mode then md else RNE) b with
  | BList l => if use_mode then Exact l else Exact (map (fun oc => (fst oc, 0)) l)
  | BNaN s fl => Pred (is_canonical_qnan_of_sign s) [if use_mode then fl else 0]
  end.
Proof. reflexivity. Qed.

(* the From<f32>/From<f64> traits: the RNE conversion with the flags discarded, whatever the mode argument *)
Theorem expected_from_trait eb fb md b :
  expected (OFromBin eb fb false) md [b] =
  match expected (OFromBin eb fb true) RNE [b] with
  | Exact l => Exact (map (fun oc => (fst oc, 0)) l)
  | Pred p _ => Pred p [0]
  | e => e
  end.
Proof. rewrite !expected_from_bin. destruct (m_from_bin eb fb RNE b); reflexivity. Qed.

Lemma list_eqb_single r outs : list_eqb [r] outs = true <-> outs = [r].
Proof.
  destruct outs as [|y [|z t]]; cbn [list_eqb]; split; intros H; try discriminate.
  - rewrite andb_true_r in H. apply Z.eqb_eq in H. now subst.
  - injection H as ->. now rewrite Z.eqb_refl.
  - rewrite andb_false_r in H. discriminate.
Qed.

(* acceptance against a single exact outcome: exactly that output word, status-out = status-in OR raised flags *)
Theorem judge_single r fl fin outs fout :
  judge (Exact [([r], fl)]) fin outs fout = 1 <-> outs = [r] /\ fout = Z.lor fin fl.
Proof.
  cbn [judge existsb fst snd]. rewrite orb_false_r. rewrite <- list_eqb_single.
  destruct (list_eqb [r] outs); cbn [andb].
  - destruct (Z.eqb_spec (Z.lor fin fl) fout); cbn [b2z]; split; intros H; try easy; try (destruct H; congruence).
  - split; [discriminate|]. intros [H _]. discriminate.
Qed.

Theorem is_canonical_qnan_of_sign_spec s outs :
  is_canonical_qnan_of_sign s outs = true <->
  exists r p, outs = [r] /\ canonical_bits r = true /\ decode r = NaN s false p.
Proof.
  unfold is_canonical_qnan_of_sign. split.
  - destruct outs as [|r [|z t]]; try discriminate. intros H. apply andb_prop in H. destruct H as [H1 H2].
    destruct (decode r) as [| |s' sg p] eqn:E; try discriminate. destruct sg; try discriminate.
    apply eqb_prop in H2. subst s'. exists r, p. repeat split; assumption.
  - intros (r & p & -> & H1 & H2). rewrite H1, H2. cbn [andb]. apply eqb_reflx.
Qed.

(* acceptance of a NaN answer: any canonical quiet NaN of that sign, with exactly the flag fl raised *)
Theorem judge_nan s fl fin outs fout :
  judge (Pred (is_canonical_qnan_of_sign s) [fl]) fin outs fout = 1 <->
  (exists r p, outs = [r] /\ canonical_bits r = true /\ decode r = NaN s false p) /\ fout = Z.lor fin fl.
Proof.
  cbn [judge existsb]. rewrite orb_false_r. rewrite <- is_canonical_qnan_of_sign_spec.
  destruct (is_canonical_qnan_of_sign s outs); cbn [andb].
  - destruct (Z.eqb_spec (Z.lor fin fl) fout); cbn [b2z]; split; intros H; try easy; try (destruct H; congruence).
  - split; [discriminate|]. intros [H _]. discriminate.
Qed.

(* the accepting set is never empty: the default-payload quiet NaN of either sign is canonical *)
Lemma qnan_accepted s : is_canonical_qnan_of_sign s [encode (NaN s false 0)] = true.
Proof. destruct s; vm_compute; reflexivity. Qed.

(* ------------------------------------------------------------------------------------------------ *)
(* Instances: f64 = Flocq's binary64 / b64_of_bits, f32 = binary32 / b32_of_bits                      *)
(* ------------------------------------------------------------------------------------------------ *)
Definition f64_den (bits:Z) : Z := bin_den 11 52 bits.   (* F_DEN iff the 11-bit exponent field is 0 *)
Definition f32_den (bits:Z) : Z := bin_den 8 23 bits.

Theorem from_f64_total md bits :
  match b64_of_bits bits with
  | Binary.B754_zero _ _ s => m_from_bin 11 52 md bits = BList [([encode (Fin s 0 0)], 0)]
  | Binary.B754_infinity _ _ s => m_from_bin 11 52 md bits = BList [([encode (Inf s)], 0)]
  | Binary.B754_nan _ _ s pl _ => m_from_bin 11 52 md bits = BNaN s (if Z.pos pl <? 2 ^ 51 then F_INV else 0)
  | Binary.B754_finite _ _ s m e _ as b =>
      exists d fl,
        m_from_bin 11 52 md bits = BList [([encode d], flbits fl + f64_den bits)] /\
        ieee_result md (Binary.B2R 53 1024 b) 0 s d fl /\
        canonical_bits (encode d) = true
  end.
Proof. exact (from_bin_of_bits 52 11 eq_refl eq_refl eq_refl md bits). Qed.

Theorem from_f32_total md bits :
  match b32_of_bits bits with
  | Binary.B754_zero _ _ s => m_from_bin 8 23 md bits = BList [([encode (Fin s 0 0)], 0)]
  | Binary.B754_infinity _ _ s => m_from_bin 8 23 md bits = BList [([encode (Inf s)], 0)]
  | Binary.B754_nan _ _ s pl _ => m_from_bin 8 23 md bits = BNaN s (if Z.pos pl <? 2 ^ 22 then F_INV else 0)
  | Binary.B754_finite _ _ s m e _ as b =>
      exists d fl,
        m_from_bin 8 23 md bits = BList [([encode d], flbits fl + f32_den bits)] /\
        ieee_result md (Binary.B2R 24 128 b) 0 s d fl /\
        canonical_bits (encode d) = true
  end.
Proof. exact (from_bin_of_bits 23 8 eq_refl eq_refl eq_refl md bits). Qed.

Theorem from_f64_value md bits :
  let b := b64_of_bits bits in
  Binary.is_finite 53 1024 b = true -> Binary.B2R 53 1024 b <> 0%R ->
  exists d fl,
    m_from_bin 11 52 md bits = BList [([encode d], flbits fl + f64_den bits)] /\
    ieee_result md (Binary.B2R 53 1024 b) 0 (Binary.Bsign 53 1024 b) d fl /\
    canonical_bits (encode d) = true.
Proof. exact (from_bin_value 52 11 eq_refl eq_refl eq_refl md bits). Qed.

Theorem from_f32_value md bits :
  let b := b32_of_bits bits in
  Binary.is_finite 24 128 b = true -> Binary.B2R 24 128 b <> 0%R ->
  exists d fl,
    m_from_bin 8 23 md bits = BList [([encode d], flbits fl + f32_den bits)] /\
    ieee_result md (Binary.B2R 24 128 b) 0 (Binary.Bsign 24 128 b) d fl /\
    canonical_bits (encode d) = true.
Proof. exact (from_bin_value 23 8 eq_refl eq_refl eq_refl md bits). Qed.

(* strong forms: no overflow, no underflow; only inexact and the denormal-operand bit can be raised.
   least normal magnitudes: f64 2^-1022, f32 2^-126 *)
Theorem from_f64_value_noexc md bits :
  let b := b64_of_bits bits in
  let x := Binary.B2R 53 1024 b in
  let s := Binary.Bsign 53 1024 b in
  Binary.is_finite 53 1024 b = true -> x <> 0%R ->
  exists c q (inx : bool),
    m_from_bin 11 52 md bits =
      BList [([encode (Fin s c q)],
              (if inx then F_INX else 0) + (if Rlt_bool (Rabs x) (bpow radix2 (-1022)) then F_DEN else 0))] /\
    repr_ok c q /\ canonical_bits (encode (Fin s c q)) = true /\
    D2R (Fin s c q) = rounded md x /\
    (inx = true <-> rounded md x <> x) /\
    (rounded md x = x -> forall c' q', repr_ok c' q' -> F2R (Float radix10 c' q') = Rabs x -> Z.abs q <= Z.abs q') /\
    (rounded md x <> x -> q = qmin \/ 10 ^ 33 <= c).
Proof.
  refine (from_bin_value_noexc 52 11 eq_refl eq_refl eq_refl _ _ md bits); vm_compute; discriminate.
Qed.

Theorem from_f32_value_noexc md bits :
  let b := b32_of_bits bits in
  let x := Binary.B2R 24 128 b in
  let s := Binary.Bsign 24 128 b in
  Binary.is_finite 24 128 b = true -> x <> 0%R ->
  exists c q (inx : bool),
    m_from_bin 8 23 md bits =
      BList [([encode (Fin s c q)],
              (if inx then F_INX else 0) + (if Rlt_bool (Rabs x) (bpow radix2 (-126)) then F_DEN else 0))] /\
    repr_ok c q /\ canonical_bits (encode (Fin s c q)) = true /\
    D2R (Fin s c q) = rounded md x /\
    (inx = true <-> rounded md x <> x) /\
    (rounded md x = x -> forall c' q', repr_ok c' q' -> F2R (Float radix10 c' q') = Rabs x -> Z.abs q <= Z.abs q') /\
    (rounded md x <> x -> q = qmin \/ 10 ^ 33 <= c).
Proof.
  refine (from_bin_value_noexc 23 8 eq_refl eq_refl eq_refl _ _ md bits); vm_compute; discriminate.
Qed.

(* ------------------------------------------------------------------------------------------------ *)
(* acceptance (judge o expected) in terms of the model's answer                                       *)
(* ------------------------------------------------------------------------------------------------ *)
(* convert_from_f32 / convert_from_f64 (use_mode = true): the mode is honoured, the flags are raised *)
Theorem judge_from_bin_value eb fb md bits r fl fin outs fout :
  m_from_bin eb fb md bits = BList [([r], fl)] ->
  (judge (expected (OFromBin eb fb true) md [bits]) fin outs fout = 1 <-> outs = [r] /\ fout = Z.lor fin fl).
Proof. intros H. rewrite expected_from_bin, H. apply judge_single. Qed.

Theorem judge_from_bin_nan eb fb md bits s fl fin outs fout :
  m_from_bin eb fb md bits = BNaN s fl ->
  (judge (expected (OFromBin eb fb true) md [bits]) fin outs fout = 1 <->
   (exists r p, outs = [r] /\ canonical_bits r = true /\ decode r = NaN s false p) /\ fout = Z.lor fin fl).
Proof. intros H. rewrite expected_from_bin, H. apply judge_nan. Qed.

(* From<f32> / From<f64> (use_mode = false): the answer of the RNE conversion, status word unchanged,
   whatever rounding mode is in force *)
Theorem judge_from_trait_value eb fb md bits r fl fin outs fout :
  m_from_bin eb fb RNE bits = BList [([r], fl)] ->
  (judge (expected (OFromBin eb fb false) md [bits]) fin outs fout = 1 <-> outs = [r] /\ fout = fin).
Proof.
  intros H. rewrite expected_from_bin, H. cbn [map fst]. rewrite judge_single, Z.lor_0_r. reflexivity.
Qed.

Theorem judge_from_trait_nan eb fb md bits s fl fin outs fout :
  m_from_bin eb fb RNE bits = BNaN s fl ->
  (judge (expected (OFromBin eb fb false) md [bits]) fin outs fout = 1 <->
   (exists r p, outs = [r] /\ canonical_bits r = true /\ decode r = NaN s false p) /\ fout = fin).
Proof. intros H. rewrite expected_from_bin, H. rewrite judge_nan, Z.lor_0_r. reflexivity. Qed.

(* m_from_bin always yields either a single outcome or a NaN expectation (never an empty list) *)
Theorem m_from_bin_shape eb fb md bits :
  (exists r fl, m_from_bin eb fb md bits = BList [([r], fl)]) \/ (exists s fl, m_from_bin eb fb md bits = BNaN s fl).
Proof.
  rewrite m_from_bin_fields. cbv zeta.
  destruct (_ =? 2 ^ eb - 1).
  - destruct (_ =? 0); [left|right]; eexists; eexists; reflexivity.
  - destruct (_ && _); [left; eexists; eexists; reflexivity|].
    destruct (if 0 <=? bin_E eb fb bits then _ else _) as [d fl]. left. eexists; eexists; reflexivity.
Qed.

(* ------------------------------------------------------------------------------------------------ *)
(* small facts used to read the statements                                                            *)
(* ------------------------------------------------------------------------------------------------ *)
(* "finite and non-zero" is Flocq's computable is_finite_strict *)
Lemma is_finite_strict_iff p em (b : Binary.binary_float p em) :
  Binary.is_finite_strict p em b = true <-> Binary.is_finite p em b = true /\ Binary.B2R p em b <> 0%R.
Proof.
  destruct b as [s|s|s pl Hpl|s m e Hb]; cbn [Binary.is_finite_strict Binary.is_finite Binary.B2R]; split;
    try (intros H; discriminate H); try (intros [H _]; discriminate H).
  - intros [_ H]. elim H. reflexivity.
  - intros _. split; [reflexivity|]. apply F2R_neq_0. cbn [Fnum]. destruct s; discriminate.
  - reflexivity.
Qed.

(* "34 digits suffice" = the value is in the decimal128 format = rounding leaves it unchanged *)
Lemma rounded_exact_iff md x : rounded md x = x <-> generic_format radix10 fexp x.
Proof.
  unfold rounded. split.
  - intros H. rewrite <- H. apply generic_format_round; typeclasses eauto.
  - intros H. apply round_generic; [typeclasses eauto|exact H].
Qed.
