(* Layer M: order-related operations. Comparison of magnitudes never forms more than a 34-digit scaling
   (cmp_mag), so exponent gaps of 12000 cost nothing; CmpProofs.v shows it equals the order of the reals. *)
From Coq Require Import ZArith Bool List.
From Flocq Require Import Core.Core.
From DV Require Import Base Bid Arith OpsArith.
Import ListNotations.
Open Scope Z_scope.

(* compare cx * 10^qx with cy * 10^qy for cx, cy >= 0 *)
Definition cmp_mag (cx qx cy qy : Z) : comparison :=
  if cx =? 0 then (if cy =? 0 then Eq else Lt)
  else if cy =? 0 then Gt
  else
    let ax := Zdigits radix10 cx + qx in
    let ay := Zdigits radix10 cy + qy in
    if ax <? ay then Lt else if ay <? ax then Gt
    else if qx <=? qy then cx ?= cy * 10 ^ (qy - qx) else cx * 10 ^ (qx - qy) ?= cy.

Inductive rel := RLt | REq | RGt | RUn.

Definition flip_if (s:bool) (c:comparison) : comparison := if s then CompOpp c else c.
Definition rel_of (c:comparison) : rel := match c with Lt => RLt | Eq => REq | Gt => RGt end.

(* signed comparison of two finite data *)
Definition cmp_fin (sx:bool) (cx qx:Z) (sy:bool) (cy qy:Z) : comparison :=
  if (cx =? 0) && (cy =? 0) then Eq
  else if cx =? 0 then (if sy then Gt else Lt)
  else if cy =? 0 then (if sx then Lt else Gt)
  else if sx && negb sy then Lt
  else if negb sx && sy then Gt
  else flip_if sx (cmp_mag cx qx cy qy).

Definition cmp_dec (dx dy : dec) : rel :=
  match dx, dy with
  | NaN _ _ _, _ | _, NaN _ _ _ => RUn
  | Inf sx, Inf sy => if Bool.eqb sx sy then REq else if sx then RLt else RGt
  | Inf sx, Fin _ _ _ => if sx then RLt else RGt
  | Fin _ _ _, Inf sy => if sy then RGt else RLt
  | Fin sx cx qx, Fin sy cy qy => rel_of (cmp_fin sx cx qx sy cy qy)
  end.

(* the 20 predicates, numbered as in the harness: 0..11 quiet, 12..19 signaling *)
Definition pred_rels (i:Z) : list rel :=
  match i with
  | 0 => [REq] | 1 => [RGt] | 2 => [RGt; REq] | 3 => [RGt; RUn] | 4 => [RLt] | 5 => [RLt; REq]
  | 6 => [RLt; RUn] | 7 => [RLt; RGt; RUn] | 8 => [RLt; REq; RUn] | 9 => [RGt; REq; RUn]
  | 10 => [RLt; REq; RGt] | 11 => [RUn]
  | 12 => [RGt] | 13 => [RGt; REq] | 14 => [RGt; RUn] | 15 => [RLt] | 16 => [RLt; REq] | 17 => [RLt; RUn]
  | 18 => [RLt; REq; RUn] | 19 => [RGt; REq; RUn]
  | _ => []
  end.
Definition rel_eqb (a b : rel) : bool :=
  match a, b with RLt, RLt | REq, REq | RGt, RGt | RUn, RUn => true | _, _ => false end.
Definition pred_signaling (i:Z) : bool := 12 <=? i.
Definition b2z (b:bool) : Z := if b then 1 else 0.

Definition m_cmp (x y i : Z) : list outcome :=
  let dx := decode x in let dy := decode y in
  let r := cmp_dec dx dy in
  let inv := if pred_signaling i then is_nan dx || is_nan dy else is_snan dx || is_snan dy in
  [([b2z (existsb (rel_eqb r) (pred_rels i))], if inv then F_INV else 0)].

(* Rust operators: bit0 ==, bit1 <, bit2 <=, bit3 >, bit4 >=, bits5-6 partial_cmp (0 None 1 Less 2 Equal 3 Greater), bit7 !=.
   Eq/Ord layer as property C20 states it: all NaNs form one equality class; <= iff partial_cmp is Less or Equal. *)
Definition m_eq (dx dy : dec) : bool :=
  if is_nan dx && is_nan dy then true else match cmp_dec dx dy with REq => true | _ => false end.
Definition m_partial_cmp (dx dy : dec) : Z :=
  if m_eq dx dy then 2 else match cmp_dec dx dy with RLt => 1 | RGt => 3 | _ => 0 end.
Definition m_ops (x y : Z) : list outcome :=
  let dx := decode x in let dy := decode y in
  let pc := m_partial_cmp dx dy in
  let eq := m_eq dx dy in
  let lt := pc =? 1 in let gt := pc =? 3 in
  let le := (pc =? 1) || (pc =? 2) in let ge := (pc =? 3) || (pc =? 2) in
  [([b2z eq + 2 * b2z lt + 4 * b2z le + 8 * b2z gt + 16 * b2z ge + 32 * pc + 128 * b2z (negb eq)], 0)].

(* what the Hasher is fed: a function of the equality class only. The implementation may feed any words as
   long as equal values feed the same words; the check compares hash inputs of equal pairs (op "hasheq"). *)
Definition m_hasheq (x y : Z) (same : Z) : bool :=
  (* accept iff (values equal -> same hash input) *)
  if m_eq (decode x) (decode y) then (same =? 1) else true.

(* ---------- min / max (C16) ---------- *)
Definition canon (d:dec) : dec := d.   (* decode already yields the canonical datum *)
Definition abs_dec (d:dec) : dec := set_sign false d.

Inductive mmkind := MinNum | MaxNum | MinMag | MaxMag.
Definition is_min (k:mmkind) : bool := match k with MinNum | MinMag => true | _ => false end.
Definition is_mag (k:mmkind) : bool := match k with MinMag | MaxMag => true | _ => false end.

Definition m_minmax (k:mmkind) (x y : Z) : list outcome :=
  let dx := decode x in let dy := decode y in
  if is_snan dx || is_snan dy then nan_outcomes [dx; dy]
  else if is_nan dx && is_nan dy then nan_outcomes [dx; dy]
  else if is_nan dx then out1 dy 0
  else if is_nan dy then out1 dx 0
  else
    let r0 := if is_mag k then cmp_dec (abs_dec dx) (abs_dec dy) else REq in
    let r := match r0 with REq => cmp_dec dx dy | _ => r0 end in
    match r with
    | REq => [([encode dx], 0); ([encode dy], 0)]
    | RLt => if is_min k then out1 dx 0 else out1 dy 0
    | _ => if is_min k then out1 dy 0 else out1 dx 0
    end.

(* ---------- totalOrder (C18) ---------- *)
(* magnitude order on non-negatively-signed data: zero < finite nonzero < inf < sNaN < qNaN; cohort by exponent *)
Definition class_rank (d:dec) : Z :=
  match d with Fin _ c _ => if c =? 0 then 0 else 1 | Inf _ => 2 | NaN _ sg _ => if sg then 3 else 4 end.

Definition total_le_mag (dx dy : dec) : bool :=
  let rx := class_rank dx in let ry := class_rank dy in
  if rx <? ry then true else if ry <? rx then false else
  match dx, dy with
  | Fin _ cx qx, Fin _ cy qy =>
      if cx =? 0 then qx <=? qy
      else match cmp_mag cx qx cy qy with Lt => true | Gt => false | Eq => qx <=? qy end
  | NaN _ _ px, NaN _ _ py => px <=? py
  | _, _ => true
  end.

Definition total_le (dx dy : dec) : bool :=
  match sign_of dx, sign_of dy with
  | true, false => true
  | false, true => false
  | false, false => total_le_mag dx dy
  | true, true => total_le_mag dy dx
  end.

Definition m_total_order (x y : Z) : list outcome := [([b2z (total_le (decode x) (decode y))], 0)].
Definition m_total_order_mag (x y : Z) : list outcome :=
  [([b2z (total_le (abs_dec (decode x)) (abs_dec (decode y)))], 0)].
