(* Layer M: quantize, round-to-integral, modf, frexp, next*, scaleb family, logb, quantum queries,
   classification, sign operations, remainder / fmod, fdim. Definitions only. *)
From Coq Require Import ZArith Bool List.
From Flocq Require Import Core.Core Calc.Bracket Calc.Round.
From DV Require Import Base Bid Arith OpsArith OpsCmp.
Import ListNotations.
Open Scope Z_scope.

Definition ndigits (c:Z) : Z := Zdigits radix10 c.

(* ---------- rounding an exact quotient c / 10^k to an integer ---------- *)
Definition loc_of_rem (r den : Z) : location :=
  if r =? 0 then loc_Exact else loc_Inexact (Z.compare (2 * r) den).

(* location of c / 10^k (0 <= c < 10^40, 0 <= k) between two consecutive integers *)
Definition div_loc (c k : Z) : Z * location :=
  if 45 <? k then (0, if c =? 0 then loc_Exact else loc_Inexact Lt)
  else let den := 10 ^ k in (c / den, loc_of_rem (c mod den) den).

Definition round_int (md:rmode) (s:bool) (c k : Z) : Z * bool :=
  let '(m, l) := div_loc c k in (choice md s m l, negb (is_exact l)).

(* ---------- quantize (C09) ---------- *)
Definition m_quantize (md:rmode) (x y : Z) : list outcome :=
  let dx := decode x in let dy := decode y in
  if is_nan dx || is_nan dy then nan_outcomes [dx; dy] else
  match dx, dy with
  | Inf sx, Inf _ => out1 (Inf sx) 0
  | Inf _, _ | _, Inf _ => invalid_out
  | Fin sx cx qx, Fin _ _ qy =>
      if cx =? 0 then out1 (Fin sx 0 qy) 0
      else if qy <=? qx then
        (if 34 <? qx - qy then invalid_out
         else let c2 := cx * 10 ^ (qx - qy) in
              if T34 <=? c2 then invalid_out else out1 (Fin sx c2 qy) 0)
      else
        let '(c2, inx) := round_int md sx cx (qy - qx) in
        if T34 <=? c2 then invalid_out else out1 (Fin sx c2 qy) (if inx then F_INX else 0)
  | _, _ => []
  end.

(* ---------- round to integral (C08) ---------- *)
Definition rint_dec (md:rmode) (signal_inexact:bool) (x:Z) : list outcome :=
  let dx := decode x in
  if is_nan dx then nan_outcomes [dx] else
  match dx with
  | Inf s => out1 (Inf s) 0
  | Fin s c q =>
      if c =? 0 then out1 (Fin s 0 (Z.max q 0)) 0
      else if 0 <=? q then out1 (Fin s c q) 0
      else let '(n, inx) := round_int md s c (- q) in
           out1 (Fin s n 0) (if inx && signal_inexact then F_INX else 0)
  | _ => []
  end.

Definition m_modf (x:Z) : list outcome :=
  let dx := decode x in
  if is_nan dx then map (fun o => (fst o ++ fst o, snd o)) (nan_outcomes [dx]) else
  match dx with
  | Inf s => [([encode (Inf s); encode (Fin s 0 0)], 0)]
  | Fin s c q =>
      if 0 <=? q then [([encode (Fin s c q); encode (Fin s 0 q)], 0)]
      else
        let '(n, _) := round_int RTZ s c (- q) in
        let ip := if c =? 0 then Fin s 0 0 else Fin s n 0 in
        (* fractional part: exact, quantum of x, sign of x *)
        let fc := if 45 <? - q then c else c - n * 10 ^ (- q) in
        [([encode ip; encode (Fin s fc q)], 0)]
  | _ => []
  end.

(* ---------- frexp (C11) ---------- *)
Definition to_i32 (z:Z) : Z := z mod 4294967296.
Definition to_i64 (z:Z) : Z := z mod P64.

Inductive expect_kind := EList (l : list outcome) | EAny.   (* EAny: result not fixed by any property (no flags, no panic) *)

Definition m_frexp (x:Z) : expect_kind :=
  match decode x with
  | Fin s c q => if c =? 0 then EAny else EList [([encode (Fin s c (- ndigits c)); to_i32 (q + ndigits c)], 0)]
  | _ => EAny
  end.

(* ---------- next up / down / after / toward (C17) ---------- *)
Definition normalize (c q : Z) : Z * Z :=
  let k := Z.max 0 (Z.min (34 - ndigits c) (q - qmin)) in (c * 10 ^ k, q - k).

Definition next_up_dec (d:dec) : dec :=
  match d with
  | Inf false => Inf false
  | Inf true => Fin true MAXC qmax
  | Fin s c q =>
      if c =? 0 then Fin false 1 qmin else
      let '(c1, q1) := normalize c q in
      if negb s then
        let c2 := c1 + 1 in
        if c2 =? T34 then (if qmax <? q1 + 1 then Inf false else Fin false T33 (q1 + 1)) else Fin false c2 q1
      else
        let c2 := c1 - 1 in
        if c2 =? 0 then Fin true 0 qmin
        else if (c2 <? T33) && (qmin <? q1) then Fin true (c2 * 10 + 9) (q1 - 1) else Fin true c2 q1
  | NaN _ _ _ => d
  end.
Definition next_down_dec (d:dec) : dec := neg_dec (next_up_dec (neg_dec d)).

Definition m_next_up (x:Z) : list outcome :=
  let dx := decode x in if is_nan dx then nan_outcomes [dx] else out1 (next_up_dec dx) 0.
Definition m_next_down (x:Z) : list outcome :=
  let dx := decode x in if is_nan dx then nan_outcomes [dx] else out1 (next_down_dec dx) 0.

Definition is_subnormal_or_zero (d:dec) : bool :=
  match d with Fin _ c q => (c =? 0) || (ndigits c + q - 1 <? -6143) | _ => false end.

Definition m_next_after (x y : Z) : list outcome :=
  let dx := decode x in let dy := decode y in
  if is_nan dx || is_nan dy then nan_outcomes [dx; dy] else
  match cmp_dec dx dy with
  | REq => out1 (set_sign (sign_of dy) dx) 0
  | r =>
      let res := match r with RLt => next_up_dec dx | _ => next_down_dec dx end in
      let fl := if is_fin dx && is_inf res then F_OVF + F_INX
                else if is_subnormal_or_zero res then F_UNF + F_INX else 0 in
      out1 res fl
  end.

(* ---------- scaleb / ldexp / scalebln (C11) ---------- *)
Definition sint (w:Z) (v:Z) : Z := if v <? 2 ^ (w - 1) then v else v - 2 ^ w.   (* two's complement reading *)

Definition m_scaleb (md:rmode) (x n : Z) : list outcome :=
  let dx := decode x in
  if is_nan dx then nan_outcomes [dx] else
  match dx with
  | Inf s => out1 (Inf s) 0
  | Fin s c q => if c =? 0 then out1 (Fin s 0 (clampq (q + n))) 0 else fin_out (scale_fin md s c q n)
  | _ => []
  end.

(* ---------- logb / ilogb ---------- *)
Definition m_logb (x:Z) : list outcome :=
  let dx := decode x in
  if is_nan dx then nan_outcomes [dx] else
  match dx with
  | Inf _ => out1 (Inf false) 0
  | Fin s c q => if c =? 0 then out1 (Inf true) F_DBZ
                 else let e := ndigits c + q - 1 in out1 (Fin (e <? 0) (Z.abs e) 0) 0
  | _ => []
  end.

Definition I32_MIN := 2147483648.  Definition I32_MAX := 2147483647.
Definition m_ilogb (x:Z) : list outcome :=
  match decode x with
  | NaN _ _ _ => [([I32_MIN], F_INV)]
  | Inf _ => [([I32_MAX], F_INV)]
  | Fin s c q => if c =? 0 then [([I32_MIN], F_INV)] else [([to_i32 (ndigits c + q - 1)], 0)]
  end.

(* ---------- quantum queries (C09) ---------- *)
Definition m_quantexp (x:Z) : list outcome :=
  match decode x with Fin _ _ q => [([to_i32 q], 0)] | _ => [([I32_MIN], F_INV)] end.
Definition m_llquantexp (x:Z) : list outcome :=
  match decode x with Fin _ _ q => [([to_i64 q], 0)] | _ => [([2 ^ 63], F_INV)] end.
Definition m_quantum (x:Z) : expect_kind :=
  match decode x with
  | Fin _ _ q => EList (out1 (Fin false 1 q) 0)
  | Inf _ => EList (out1 (Inf false) 0)
  | NaN _ _ _ => EAny
  end.
Definition m_same_quantum (x y : Z) : list outcome :=
  let r := match decode x, decode y with
           | NaN _ _ _, NaN _ _ _ => true
           | Inf _, Inf _ => true
           | Fin _ _ qx, Fin _ _ qy => qx =? qy
           | _, _ => false
           end in [([b2z r], 0)].

(* ---------- classification (C13) ---------- *)
Definition is_normal_dec (d:dec) : bool :=
  match d with Fin _ c q => negb (c =? 0) && (-6143 <=? ndigits c + q - 1) | _ => false end.
Definition is_subnormal_dec (d:dec) : bool :=
  match d with Fin _ c q => negb (c =? 0) && (ndigits c + q - 1 <? -6143) | _ => false end.

(* ClassTypes discriminants: sNaN 0, qNaN 1, -Inf 2, -Normal 3, -Subnormal 4, -Zero 5, +Zero 6, +Subnormal 7, +Normal 8, +Inf 9 *)
Definition class_dec (d:dec) : Z :=
  match d with
  | NaN _ sg _ => if sg then 0 else 1
  | Inf s => if s then 2 else 9
  | Fin s c q => if c =? 0 then (if s then 5 else 6)
                 else if is_normal_dec d then (if s then 3 else 8) else (if s then 4 else 7)
  end.
Definition m_class (x:Z) : list outcome := [([class_dec (decode x)], 0)].

(* bit0 canonical, 1 finite, 2 infinite, 3 nan, 4 normal, 5 signaling, 6 sign_minus, 7 subnormal, 8 zero *)
Definition m_isx (x:Z) : list outcome :=
  let d := decode x in
  [([b2z (canonical_bits x) + 2 * b2z (is_fin d) + 4 * b2z (is_inf d) + 8 * b2z (is_nan d) + 16 * b2z (is_normal_dec d)
     + 32 * b2z (is_snan d) + 64 * b2z (sign_of d) + 128 * b2z (is_subnormal_dec d) + 256 * b2z (is_zero d)], 0)].

(* ---------- quiet sign operations (C12): bit 127 only, for every pattern ---------- *)
Definition m_copy (x:Z) : list outcome := [([x], 0)].
Definition m_abs (x:Z) : list outcome := [([x mod P127], 0)].
Definition m_neg (x:Z) : list outcome := [([if P127 <=? x then x - P127 else x + P127], 0)].
Definition m_copysign (x y : Z) : list outcome := [([x mod P127 + (if P127 <=? y then P127 else 0)], 0)].

(* ---------- remainder / fmod (C10) ---------- *)
(* 10^g mod m by square-and-multiply, never forming 10^g *)
Fixpoint powmod_pos (b:Z) (p:positive) (m:Z) : Z :=
  match p with
  | xH => b mod m
  | xO p' => let t := powmod_pos b p' m in (t * t) mod m
  | xI p' => let t := powmod_pos b p' m in (((t * t) mod m) * b) mod m
  end.
Definition powmod (b g m : Z) : Z := match g with Z0 => 1 mod m | Zpos p => powmod_pos b p m | Zneg _ => 0 end.

(* x = cx*10^qx, y = cy*10^qy, cx cy > 0; returns (flip, magnitude coefficient at exponent min qx qy):
   IEEE remainder: x - n*y, n nearest to x/y, ties to even *)
Definition rem_core (nearest:bool) (cx qx cy qy : Z) : bool * Z :=
  if qy <=? qx then
    (* reduce cx * 10^(qx-qy) modulo 2*cy *)
    let m := 2 * cy in
    let t := ((cx mod m) * powmod 10 (qx - qy) m) mod m in
    let odd := cy <=? t in
    let r0 := if odd then t - cy else t in
    if negb nearest then (false, r0)
    else match Z.compare (2 * r0) cy with
         | Lt => (false, r0)
         | Gt => (true, cy - r0)
         | Eq => if odd then (true, cy - r0) else (false, r0)
         end
  else
    let g := qy - qx in
    if 36 <? g then (false, cx)                      (* |x| < |y| / 2: x itself *)
    else
      let Y := cy * 10 ^ g in
      let n := cx / Y in let r0 := cx mod Y in
      if negb nearest then (false, r0)
      else match Z.compare (2 * r0) Y with
           | Lt => (false, r0)
           | Gt => (true, Y - r0)
           | Eq => if Z.odd n then (true, Y - r0) else (false, r0)
           end.

Definition rem_dec (nearest:bool) (x y : Z) : list outcome :=
  let dx := decode x in let dy := decode y in
  if is_nan dx || is_nan dy then nan_outcomes [dx; dy] else
  match dx, dy with
  | Inf _, _ => invalid_out
  | Fin s c q, Inf _ => out1 (Fin s c q) 0
  | Fin sx cx qx, Fin sy cy qy =>
      if cy =? 0 then invalid_out
      else if cx =? 0 then out1 (Fin sx 0 (Z.min qx qy)) 0
      else let '(flip, r) := rem_core nearest cx qx cy qy in
           out1 (Fin (if r =? 0 then sx else xorb sx flip) r (Z.min qx qy)) 0
  | _, _ => []
  end.

(* ---------- fdim: x - y if x > y, +0 otherwise (value not fixed by any property; compared for flags/NaN/canonicity) ---------- *)
Definition m_fdim (md:rmode) (x y : Z) : list outcome :=
  let dx := decode x in let dy := decode y in
  if is_nan dx || is_nan dy then nan_outcomes [dx; dy] else
  match cmp_dec dx dy with
  | RGt => m_sub md x y
  | _ => out1 (Fin false 0 0) 0
  end.
