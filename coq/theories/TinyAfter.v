(* Secondary configuration of C02: the cargo feature `decimal_tiny_detection_after_rounding`.
   With the feature ON, multiplication and fused multiply-add detect tininess AFTER rounding (IEEE 754-2008 7.5):
   the result is tiny when the exact value, rounded to 34 digits as if the exponent range were unbounded below
   (Flocq: format FLX_exp 34), is smaller in magnitude than 10^-6143; underflow is raised iff tiny and inexact.
   Values, inexact and overflow are those of the default configuration (ieee_result of Base.v).
   Definitions only (proofs in TinyAfterProofs.v). *)
From Coq Require Import ZArith Reals Bool List.
From Flocq Require Import Core.Core Calc.Bracket Calc.Round.
From DV Require Import Base Bid Arith OpsArith Judge.
Import ListNotations.
Open Scope Z_scope.

(* ---------- the specification ---------- *)
(* rounding to 34 digits with the exponent unbounded (below and above) *)
Definition rounded_flx (m:rmode) (x:R) : R := round radix10 (FLX_exp 34) (rnd_of m) x.

(* [ieee_result] of Base.v with ONE clause changed: the underflow clause compares the FLX-rounded magnitude,
   not |x|, with 10^-6143.  The delivered value r is still the FLT-rounded one (bounded exponent range). *)
Definition ieee_result_ta (m:rmode) (x:R) (pref:Z) (zs:bool) (d:dec) (fl:flags) : Prop :=
  let r := rounded m x in
  if Rlt_bool MAXV (Rabs r)
  then d = overflow_result m (Rlt_bool x 0) /\ fl = mkfl true false true
  else exists s c q, d = Fin s c q /\ repr_ok c q /\ D2R d = r /\
       (x <> 0%R -> s = Rlt_bool x 0) /\ (x = 0%R -> s = zs) /\
       f_overflow fl = false /\
       (f_inexact fl = true <-> r <> x) /\
       (f_underflow fl = true <->
          (r <> x /\ (Rabs (round radix10 (FLX_exp 34) (rnd_of m) x) < bpow10 (-6143))%R)) /\
       (r = x -> forall c' q', repr_ok c' q' -> F2R (Float radix10 c' q') = Rabs x ->
                 Z.abs (q - pref) <= Z.abs (q' - pref)) /\
       (r <> x -> q = qmin \/ 10^33 <= c).

(* ---------- the model ---------- *)
(* Tininess after rounding, from a located magnitude (c, e, l): |x| in [c, c+1) * 10^e at location l.
   With d = digits(c) + e we have 10^(d-1) <= |x| < 10^d (c > 0), so only d = -6143 needs the rounding:
   there the 34-digit rounding of |x| (Flocq truncate at FLX_exp 34, then the mode's increment decision) is
   c2 * 10^e1, and it is below 10^-6143 iff digits(c2) + e1 <= -6143 (a carry to 10^34 gives exactly 10^-6143).
   Below (d < -6143) the rounded magnitude is at most 10^d <= 10^-6144: tiny; this covers the deep-underflow
   triple (0, -6176, inexact) of Arith.shortcut.  Above (d > -6143) it is at least 10^-6143: not tiny. *)
Definition tiny_after (md:rmode) (s:bool) (c e:Z) (l:location) : bool :=
  let d := Zdigits radix10 c + e in
  if d <? -6143 then true
  else if -6143 <? d then false
  else let '(c1, e1, l1) := truncate radix10 (FLX_exp 34) (c, e, l) in
       Zdigits radix10 (choice md s c1 l1) + e1 <=? -6143.

(* round_pack with the underflow flag recomputed: same datum, same inexact and overflow bits *)
Definition round_pack_ta (md:rmode) (s:bool) (c e:Z) (l:location) (pref:Z) (zs:bool) : dec * flags :=
  let '(d, fl) := round_pack md s c e l pref zs in
  (d, mkfl (f_inexact fl) (f_inexact fl && tiny_after md s c e l) (f_overflow fl)).

Definition rp_ta (md:rmode) (s:bool) (c e:Z) (l:location) (pref:Z) (zs:bool) : dec * flags :=
  let '(c', e', l') := shortcut c e l in round_pack_ta md s c' e' l' pref zs.

(* the exact-integer computations of Arith.v, feeding rp_ta *)
Definition add_fin_ta (md:rmode) (sx:bool) (cx qx:Z) (sy:bool) (cy qy:Z) : dec * flags :=
  let q := Z.min qx qy in
  let v := sval sx cx * 10 ^ (qx - q) + sval sy cy * 10 ^ (qy - q) in
  rp_ta md (v <? 0) (Z.abs v) q loc_Exact q (zs_add md sx sy).

Definition add_far_ta (md:rmode) (sx:bool) (cx qx:Z) (sy:bool) (qy:Z) (zs:bool) : dec * flags :=
  let e' := qx - 40 in let C := cx * 10 ^ 40 in
  if Bool.eqb sx sy then rp_ta md sx C e' (loc_Inexact Lt) (Z.min qx qy) zs
  else rp_ta md sx (C - 1) e' (loc_Inexact Gt) (Z.min qx qy) zs.

Definition add_gen_ta (md:rmode) (sx:bool) (cx qx:Z) (sy:bool) (cy qy:Z) : dec * flags :=
  let pref := Z.min qx qy in
  let zs := zs_add md sx sy in
  if (cx =? 0) && (cy =? 0) then rp_ta md zs 0 pref loc_Exact pref zs
  else if cx =? 0 then rp_ta md sy cy qy loc_Exact pref zs
  else if cy =? 0 then rp_ta md sx cx qx loc_Exact pref zs
  else if Z.abs (qx - qy) <=? FARGAP then add_fin_ta md sx cx qx sy cy qy
  else if qy <? qx then add_far_ta md sx cx qx sy qy zs
  else add_far_ta md sy cy qy sx qx zs.

Definition mul_fin_ta (md:rmode) (sx:bool) (cx qx:Z) (sy:bool) (cy qy:Z) : dec * flags :=
  rp_ta md (xorb sx sy) (cx * cy) (qx + qy) loc_Exact (qx + qy) (xorb sx sy).

Definition fma_fin_ta (md:rmode) (sx:bool) (cx qx:Z) (sy:bool) (cy qy:Z) (sz:bool) (cz qz:Z) : dec * flags :=
  add_gen_ta md (xorb sx sy) (cx * cy) (qx + qy) sz cz qz.

(* bit level: special values and NaNs exactly as m_mul / m_fma *)
Definition m_mul_ta (md:rmode) (x y:Z) : list outcome :=
  let dx := decode x in let dy := decode y in
  if is_nan dx || is_nan dy then nan_outcomes [dx; dy] else
  let s := xorb (sign_of dx) (sign_of dy) in
  match dx, dy with
  | Inf _, o | o, Inf _ => if is_zero o then invalid_out else out1 (Inf s) 0
  | Fin sx cx qx, Fin sy cy qy => fin_out (mul_fin_ta md sx cx qx sy cy qy)
  | _, _ => []
  end.

Definition m_fma_ta (md:rmode) (x y z:Z) : list outcome :=
  let dx := decode x in let dy := decode y in let dz := decode z in
  if is_nan dx || is_nan dy || is_nan dz then nan_outcomes [dx; dy; dz] else
  let sp := xorb (sign_of dx) (sign_of dy) in
  if is_inf dx || is_inf dy then
    (if is_zero dx || is_zero dy then invalid_out
     else match dz with
          | Inf sz => if Bool.eqb sz sp then out1 (Inf sp) 0 else invalid_out
          | _ => out1 (Inf sp) 0
          end)
  else
  match dx, dy, dz with
  | _, _, Inf sz => out1 (Inf sz) 0
  | Fin sx cx qx, Fin sy cy qy, Fin sz cz qz => fin_out (fma_fin_ta md sx cx qx sy cy qy sz cz qz)
  | _, _, _ => []
  end.

(* dispatch for the driver, independent of Judge.op: 0 = fma [x; y; z], 1 = mul [x; y] *)
Definition expected_ta (name:Z) (md:rmode) (args:list Z) : expect :=
  match name, args with
  | 0, [x; y; z] => Exact (m_fma_ta md x y z)
  | 1, [x; y] => Exact (m_mul_ta md x y)
  | _, _ => Exact []
  end.

(* ---------- recorded finding KF_TA_MINNORMAL (class 2) ----------
   In the feature build the crate decides tininess for the fma paths "Cases (2)/(4)" from the coefficient rounded at the smallest exponent
   (res < 10^33), not from the value rounded with unbounded exponent: when the delivered result is exactly the smallest normal number
   +-10^33 * 10^-6176 and inexact, its underflow bit can be wrong in either direction (exact value in [10^33 - 1/2, 10^33 - 1/20) units: underflow
   missing; the reverse has been seen next to it).  A repair needs the discarded digits at that point and is not small; the class is therefore
   RECORDED: [required] stays the model's answer (what the property demands), [recorded] is the same datum with the underflow bit flipped.
   Any other deviation on such a case (other bits, other flags) is still rejected. *)
Definition KF_TA_MINNORMAL : Z := 2.
Definition is_min_normal_inexact (l : list outcome) : bool :=
  match l with
  | [([r], fl)] => ((r =? encode (Fin false (10 ^ 33) qmin)) || (r =? encode (Fin true (10 ^ 33) qmin))) && (Z.land fl F_INX =? F_INX)
  | _ => false
  end.
Definition flip_underflow (l : list outcome) : list outcome := map (fun o => (fst o, Z.lxor (snd o) F_UNF)) l.
Definition expected_ta_kf (name:Z) (md:rmode) (args:list Z) : expect :=
  match expected_ta name md args with
  | Exact l => if is_min_normal_inexact l then Known KF_TA_MINNORMAL (Exact l) (Exact (flip_underflow l)) else Exact l
  | e => e
  end.
