(* C17: next_up / next_down / next_after / next_toward against Flocq's succ / pred in the format
   generic_format radix10 (FLT_exp (-6176) 34). *)
From Coq Require Import ZArith Reals Lia Lra Bool List Psatz.
From Flocq Require Import Core.Core Calc.Bracket Calc.Round.
From DV Require Import Base RoundProofs Bid BidProofs Arith ArithProofs OpsArith OpsArithProofs OpsCmp OpsMisc ScaleProofs.
Import ListNotations.
Open Scope Z_scope.

Local Instance prec_gt_0_34 : Prec_gt_0 prec.
Proof. unfold Prec_gt_0, prec. lia. Qed.

Lemma ulp0 : ulp radix10 fexp 0 = bpow radix10 qmin.
Proof. unfold fexp. apply ulp_FLT_0. exact prec_gt_0_34. Qed.

Lemma T33_eq : T33 = 10 ^ 33. Proof. reflexivity. Qed.
Lemma pow34_33 : 10 ^ 34 = 10 * 10 ^ 33. Proof. reflexivity. Qed.

(* ---------- the normalisation step (integers only) ---------- *)
Lemma normalize_bounds c q : 0 < c < 10 ^ 34 -> qmin <= q ->
  let '(c1, q1) := normalize c q in
  c1 = c * 10 ^ (q - q1) /\ 0 < c1 < 10 ^ 34 /\ qmin <= q1 <= q /\ (q1 = qmin \/ 10 ^ 33 <= c1).
Proof.
  intros Hc Hq. unfold normalize, ndigits. pose proof (digits34 c Hc) as Hnd.
  set (nd := Zdigits radix10 c) in *.
  set (k := Z.max 0 (Z.min (34 - nd) (q - qmin))).
  assert (Hk : 0 <= k) by lia.
  assert (Hdk : Zdigits radix10 (c * 10 ^ k) = nd + k).
  { change (10 ^ k) with (Zpower radix10 k). apply Zdigits_mult_Zpower; lia. }
  assert (Hpk : 0 < 10 ^ k) by (apply Z.pow_pos_nonneg; lia).
  pose proof (Zdigits_correct radix10 (c * 10 ^ k)) as Hd. rewrite Hdk in Hd. rewrite Z.abs_eq in Hd by nia.
  change (radix_val radix10) with 10 in Hd.
  assert (Hle : 10 ^ (nd + k) <= 10 ^ 34) by (apply Z.pow_le_mono_r; lia).
  split; [replace (q - (q - k)) with k by ring; reflexivity|].
  split; [split; [nia|lia]|]. split; [lia|].
  destruct (Z_le_gt_dec (34 - nd) (q - qmin)) as [L|G].
  - right. replace (nd + k - 1) with 33 in Hd by lia. lia.
  - left. lia.
Qed.

Lemma normalize_spec c q : 0 < c < 10 ^ 34 -> qmin <= q ->
  let '(c1, q1) := normalize c q in
  F2R (Float radix10 c1 q1) = F2R (Float radix10 c q) /\ 0 < c1 < 10 ^ 34 /\ qmin <= q1 <= q /\
  (q1 = qmin \/ 10 ^ 33 <= c1).
Proof.
  intros Hc Hq. generalize (normalize_bounds c q Hc Hq). destruct (normalize c q) as [c1 q1].
  intros (E & H). split; [|exact H]. rewrite E. rewrite (F2R_scale c q (q - q1)) by lia.
  f_equal. f_equal. ring.
Qed.

(* next_up of a well-formed finite datum is well formed and not a NaN (integers only) *)
Lemma next_up_wf_fin s c q : wf (Fin s c q) ->
  wf (next_up_dec (Fin s c q)) /\ is_nan (next_up_dec (Fin s c q)) = false.
Proof.
  intros [Hc Hq]. rewrite T34_eq in Hc. unfold next_up_dec.
  destruct (Z.eqb_spec c 0) as [E0|N0].
  - split; [|reflexivity]. cbn [wf]. unfold T34, qmin. lia.
  - generalize (normalize_bounds c q ltac:(lia) ltac:(unfold qmin; lia)).
    destruct (normalize c q) as [c1 q1]. intros (_ & Hc1 & Hq1 & Hn).
    destruct s; cbn [negb].
    + destruct (Z.eqb_spec (c1 - 1) 0) as [E1|N1].
      * split; [|reflexivity]. cbn [wf]. unfold T34, qmin. lia.
      * destruct ((c1 - 1 <? T33) && (qmin <? q1)) eqn:Hb.
        -- apply andb_prop in Hb. destruct Hb as [Hb1 Hb2]. apply Z.ltb_lt in Hb1, Hb2. rewrite T33_eq in Hb1.
           split; [|reflexivity]. cbn [wf]. rewrite T34_eq, pow34_33. unfold qmin in *. lia.
        -- split; [|reflexivity]. cbn [wf]. rewrite T34_eq. unfold qmin in *. lia.
    + destruct (Z.eqb_spec (c1 + 1) T34) as [E1|N1].
      * destruct (Z.ltb_spec qmax (q1 + 1)) as [L|G]; (split; [|reflexivity]).
        -- exact I.
        -- cbn [wf]. unfold T33, T34, qmin, qmax in *. lia.
      * rewrite T34_eq in N1. split; [|reflexivity]. cbn [wf]. rewrite T34_eq. unfold qmin in *. lia.
Qed.

(* ---------- succ / pred of a normalised positive number ---------- *)
Lemma cexp_norm c q : 0 < c < 10 ^ 34 -> qmin <= q -> (q = qmin \/ 10 ^ 33 <= c) ->
  cexp radix10 fexp (F2R (Float radix10 c q)) = q.
Proof.
  intros Hc Hq Hn. rewrite cexp_val, mag_F2R_Zdigits by lia.
  pose proof (digits34 c Hc) as Hd. destruct Hn as [->|Hn]; [lia|].
  assert (33 < Zdigits radix10 c) by (apply Zdigits_gt_Zpower; rewrite Z.abs_eq by lia; exact Hn).
  lia.
Qed.

Lemma succ_norm c q : 0 <= c < 10 ^ 34 -> qmin <= q -> (q = qmin \/ 10 ^ 33 <= c) ->
  succ radix10 fexp (F2R (Float radix10 c q)) = F2R (Float radix10 (c + 1) q).
Proof.
  intros Hc Hq Hn. rewrite succ_eq_pos by (apply F2R_ge_0; cbn [Fnum]; lia).
  destruct (Z.eq_dec c 0) as [->|N].
  - assert (q = qmin) by (destruct Hn as [E|Hn]; [exact E|lia]). subst q.
    rewrite F2R_0, Rplus_0_l, ulp0. cbn [Z.add]. now rewrite F2R_bpow.
  - rewrite ulp_neq_0 by (apply F2R_neq_0; exact N). rewrite cexp_norm by (try assumption; lia).
    unfold F2R; cbn [Fnum Fexp]. rewrite plus_IZR. simpl (IZR 1). ring.
Qed.

Lemma pred_of_succ c q y : 0 <= c < 10 ^ 34 -> qmin <= q -> (q = qmin \/ 10 ^ 33 <= c) ->
  F2R (Float radix10 (c + 1) q) = y -> pred radix10 fexp y = F2R (Float radix10 c q).
Proof.
  intros Hc Hq Hn <-. rewrite <- (succ_norm c q Hc Hq Hn). apply (pred_succ radix10 fexp).
  apply format_repr; [rewrite Z.abs_eq; lia|exact Hq].
Qed.

(* ---------- next_up ---------- *)
(* what next_up must return for a real x of the format *)
Definition up_spec (x:R) (r:dec) : Prop :=
  match r with
  | Fin s' c' q' => D2R (Fin s' c' q') = succ radix10 fexp x /\ wf (Fin s' c' q') /\ (q' = qmin \/ T33 <= c') /\ s' = Rlt_bool x 0
  | Inf s' => s' = false /\ (MAXV < succ radix10 fexp x)%R
  | NaN _ _ _ => False
  end.

Lemma D2R_pos c q : D2R (Fin false c q) = F2R (Float radix10 c q). Proof. reflexivity. Qed.
Lemma D2R_negative c q : D2R (Fin true c q) = (- F2R (Float radix10 c q))%R.
Proof. unfold D2R. rewrite F2R_cond_Zopp. reflexivity. Qed.

Theorem next_up_succ s c q : wf (Fin s c q) -> up_spec (D2R (Fin s c q)) (next_up_dec (Fin s c q)).
Proof.
  intros [Hc Hq]. rewrite T34_eq in Hc. unfold next_up_dec.
  destruct (Z.eqb_spec c 0) as [E0|N0].
  - subst c. rewrite D2R_zero. unfold up_spec. split; [|split; [|split]].
    + rewrite D2R_pos. rewrite <- (F2R_0 radix10 qmin). symmetry.
      apply (succ_norm 0 qmin); [lia|lia|left; reflexivity].
    + cbn [wf]. unfold T34, qmin. lia.
    + left. reflexivity.
    + symmetry. apply Rlt_bool_false. lra.
  - generalize (normalize_spec c q ltac:(lia) ltac:(unfold qmin; lia)).
    destruct (normalize c q) as [c1 q1]. intros (Hv & Hc1 & Hq1 & Hn).
    assert (Hy : (0 < F2R (Float radix10 c1 q1))%R) by (apply F2R_gt_0; cbn [Fnum]; lia).
    destruct s; cbn [negb].
    + (* negative operand: succ (-y) = - pred y *)
      rewrite D2R_negative, <- Hv. set (y := F2R (Float radix10 c1 q1)) in *.
      assert (Hsgn : true = Rlt_bool (- y) 0) by (symmetry; apply Rlt_bool_true; lra).
      assert (Hso : succ radix10 fexp (- y) = (- pred radix10 fexp y)%R) by apply succ_opp.
      destruct (Z.eqb_spec (c1 - 1) 0) as [E1|N1].
      * assert (q1 = qmin) by (destruct Hn as [E|Hn]; [exact E|rewrite pow34_33 in Hc1; lia]). subst q1.
        unfold up_spec. rewrite Hso. split; [|split; [|split]].
        -- rewrite D2R_zero. rewrite (pred_of_succ 0 qmin y); [rewrite F2R_0; ring|lia|lia|left; reflexivity|].
           unfold y. f_equal. f_equal. lia.
        -- cbn [wf]. unfold T34, qmin. lia.
        -- left. reflexivity.
        -- exact Hsgn.
      * destruct ((c1 - 1 <? T33) && (qmin <? q1)) eqn:Hb.
        -- apply andb_prop in Hb. destruct Hb as [Hb1 Hb2]. apply Z.ltb_lt in Hb1, Hb2. rewrite T33_eq in Hb1.
           assert (Ec1 : c1 = 10 ^ 33) by (destruct Hn as [E|Hn]; lia).
           unfold up_spec. rewrite Hso. split; [|split; [|split]].
           ++ rewrite D2R_negative. f_equal. symmetry. apply pred_of_succ.
              ** rewrite pow34_33. lia.
              ** lia.
              ** right. rewrite pow34_33 in *. lia.
              ** unfold y. rewrite (F2R_scale c1 q1 1) by lia. f_equal. f_equal. rewrite pow34_33 in *. lia.
           ++ cbn [wf]. rewrite T34_eq, pow34_33. unfold qmin in *. lia.
           ++ right. rewrite T33_eq. lia.
           ++ exact Hsgn.
        -- assert (Hn2 : q1 = qmin \/ 10 ^ 33 <= c1 - 1).
           { apply andb_false_iff in Hb. destruct Hb as [Hb|Hb].
             - apply Z.ltb_ge in Hb. rewrite T33_eq in Hb. right. exact Hb.
             - apply Z.ltb_ge in Hb. left. lia. }
           unfold up_spec. rewrite Hso. split; [|split; [|split]].
           ++ rewrite D2R_negative. f_equal. symmetry. apply pred_of_succ; [lia|lia|exact Hn2|].
              unfold y. f_equal. f_equal. lia.
           ++ cbn [wf]. rewrite T34_eq. unfold qmin in *. lia.
           ++ rewrite T33_eq. exact Hn2.
           ++ exact Hsgn.
    + (* positive operand: succ y = y + ulp y *)
      rewrite D2R_pos, <- Hv.
      assert (Hsgn : false = Rlt_bool (F2R (Float radix10 c1 q1)) 0) by (symmetry; apply Rlt_bool_false; lra).
      assert (Hso : succ radix10 fexp (F2R (Float radix10 c1 q1)) = F2R (Float radix10 (c1 + 1) q1)) by (apply succ_norm; try assumption; lia).
      destruct (Z.eqb_spec (c1 + 1) T34) as [E1|N1].
      * rewrite T34_eq in E1. destruct (Z.ltb_spec qmax (q1 + 1)) as [L|G].
        -- unfold up_spec. rewrite Hso. split; [reflexivity|]. rewrite E1.
           apply Rlt_le_trans with (1 := MAXV_lt). rewrite F2R_pow10 by lia. apply bpow_le. lia.
        -- unfold up_spec. rewrite Hso. split; [|split; [|split]].
           ++ rewrite D2R_pos, E1, T33_eq. rewrite (F2R_scale (10 ^ 33) (q1 + 1) 1) by lia.
              f_equal. f_equal. ring.
           ++ cbn [wf]. unfold T33, T34, qmin, qmax in *. lia.
           ++ right. lia.
           ++ exact Hsgn.
      * rewrite T34_eq in N1. unfold up_spec. rewrite Hso. split; [|split; [|split]].
        -- apply D2R_pos.
        -- cbn [wf]. rewrite T34_eq. unfold qmin in *. lia.
        -- rewrite T33_eq. destruct Hn as [E|Hn]; [left; exact E|right; lia].
        -- exact Hsgn.
Qed.

(* ---------- next_down ---------- *)
Definition down_spec (x:R) (r:dec) : Prop :=
  match r with
  | Fin s' c' q' => D2R (Fin s' c' q') = pred radix10 fexp x /\ wf (Fin s' c' q') /\ (q' = qmin \/ T33 <= c') /\ s' = Rle_bool x 0
  | Inf s' => s' = true /\ (pred radix10 fexp x < - MAXV)%R
  | NaN _ _ _ => False
  end.

Theorem next_down_is_neg_next_up_neg d : next_down_dec d = neg_dec (next_up_dec (neg_dec d)).
Proof. reflexivity. Qed.

Lemma Rle_bool_opp x : negb (Rlt_bool (- x) 0) = Rle_bool x 0.
Proof.
  rewrite negb_Rle_bool. destruct (Rle_dec x 0) as [L|G].
  - rewrite (Rle_bool_true x 0 L). apply Rle_bool_true. lra.
  - rewrite (Rle_bool_false x 0) by lra. apply Rle_bool_false. lra.
Qed.

Theorem next_down_pred s c q : wf (Fin s c q) -> down_spec (D2R (Fin s c q)) (next_down_dec (Fin s c q)).
Proof.
  intros W. unfold next_down_dec. cbn [neg_dec sign_of set_sign].
  assert (W' : wf (Fin (negb s) c q)) by exact W.
  pose proof (next_up_succ (negb s) c q W') as H. rewrite D2R_neg in H.
  set (x := D2R (Fin s c q)) in *.
  destruct (next_up_dec (Fin (negb s) c q)) as [s' c' q'|s'|s' sg' p']; cbn [neg_dec sign_of set_sign up_spec down_spec] in *.
  - destruct H as (Hv & Hw & Hn & Hs). split; [|split; [exact Hw|split; [exact Hn|]]].
    + rewrite D2R_neg, Hv. reflexivity.
    + rewrite Hs. apply Rle_bool_opp.
  - destruct H as [-> H]. split; [reflexivity|]. unfold pred. lra.
  - exact H.
Qed.

(* ---------- the smallest exponent ---------- *)
Lemma least_exponent c q : 0 <= c < 10 ^ 34 -> (q = qmin \/ 10 ^ 33 <= c) ->
  forall c' q', repr_ok c' q' -> F2R (Float radix10 c' q') = F2R (Float radix10 c q) -> q <= q'.
Proof.
  intros Hc Hn c' q' [Hc' Hq'] Hv. destruct Hn as [->|Hn]; [lia|].
  destruct (Z_le_gt_dec q q') as [L|G]; [exact L|exfalso].
  apply F2R_eq_inv in Hv; [|lia].
  assert (10 <= 10 ^ (q - q')).
  { change 10 with (10 ^ 1) at 1. apply Z.pow_le_mono_r; lia. }
  rewrite pow34_33 in *. nia.
Qed.

(* ---------- bounds ---------- *)
Lemma wf_abs_le_MAXV s c q : wf (Fin s c q) -> (Rabs (D2R (Fin s c q)) <= MAXV)%R.
Proof.
  intros [Hc Hq]. rewrite T34_eq in Hc. rewrite D2R_abs by lia. apply repr_le_MAXV; [exact Hc|unfold qmax; lia].
Qed.

Lemma wf_format s c q : wf (Fin s c q) -> generic_format radix10 fexp (D2R (Fin s c q)).
Proof. intros [Hc Hq]. rewrite T34_eq in Hc. apply format_D2R; [exact Hc|unfold qmin; lia]. Qed.

Lemma MAXV_format : generic_format radix10 fexp MAXV.
Proof. unfold MAXV. apply format_repr; [unfold MAXC; rewrite Z.abs_eq; lia|unfold qmin, qmax; lia]. Qed.

Lemma succ_gt x : (x < succ radix10 fexp x)%R.
Proof.
  destruct (Req_dec x 0) as [->|N].
  - rewrite succ_0, ulp0. apply bpow_gt_0.
  - apply (succ_gt_id radix10 fexp). exact N.
Qed.

Lemma pred_lt x : (pred radix10 fexp x < x)%R.
Proof. unfold pred. pose proof (succ_gt (- x)). lra. Qed.

(* ---------- least value above / greatest value below ---------- *)
Theorem next_up_least s c q : wf (Fin s c q) ->
  let d := Fin s c q in
  match next_up_dec d with
  | Fin s' c' q' =>
      (D2R d < D2R (Fin s' c' q'))%R /\
      (forall f, generic_format radix10 fexp f -> (D2R d < f)%R -> (D2R (Fin s' c' q') <= f)%R) /\
      (forall c2 q2, repr_ok c2 q2 -> F2R (Float radix10 c2 q2) = Rabs (D2R (Fin s' c' q')) -> q' <= q2)
  | Inf s' => s' = false /\ D2R d = MAXV /\
      (forall s2 c2 q2, wf (Fin s2 c2 q2) -> (D2R (Fin s2 c2 q2) <= D2R d)%R)
  | NaN _ _ _ => False
  end.
Proof.
  intros W d. pose proof (next_up_succ s c q W) as H. fold d in H.
  pose proof (wf_format s c q W) as Fd. fold d in Fd.
  destruct (next_up_dec d) as [s' c' q'|s'|s' sg' p']; cbn [up_spec] in H.
  - destruct H as (Hv & [Hc' Hq'] & Hn & Hs). rewrite Hv. split; [apply succ_gt|]. split.
    + intros f Ff Hlt. apply (succ_le_lt radix10 fexp); assumption.
    + intros c2 q2 R2 E2. rewrite T34_eq in Hc'. rewrite T33_eq in Hn. rewrite <- Hv, D2R_abs in E2 by lia.
      apply (least_exponent c' q' Hc' Hn c2 q2 R2 E2).
  - destruct H as [-> H]. split; [reflexivity|].
    assert (Hle : (D2R d <= MAXV)%R).
    { apply Rle_trans with (2 := wf_abs_le_MAXV s c q W). apply Rle_abs. }
    assert (Hmax : D2R d = MAXV).
    { destruct Hle as [L|E]; [|exact E]. exfalso.
      pose proof (succ_le_lt radix10 fexp (D2R d) MAXV Fd MAXV_format L). lra. }
    split; [exact Hmax|]. intros s2 c2 q2 W2. rewrite Hmax.
    apply Rle_trans with (2 := wf_abs_le_MAXV s2 c2 q2 W2). apply Rle_abs.
  - exact H.
Qed.

Theorem next_down_greatest s c q : wf (Fin s c q) ->
  let d := Fin s c q in
  match next_down_dec d with
  | Fin s' c' q' =>
      (D2R (Fin s' c' q') < D2R d)%R /\
      (forall f, generic_format radix10 fexp f -> (f < D2R d)%R -> (f <= D2R (Fin s' c' q'))%R) /\
      (forall c2 q2, repr_ok c2 q2 -> F2R (Float radix10 c2 q2) = Rabs (D2R (Fin s' c' q')) -> q' <= q2)
  | Inf s' => s' = true /\ D2R d = (- MAXV)%R /\
      (forall s2 c2 q2, wf (Fin s2 c2 q2) -> (D2R d <= D2R (Fin s2 c2 q2))%R)
  | NaN _ _ _ => False
  end.
Proof.
  intros W d. pose proof (next_down_pred s c q W) as H. fold d in H.
  pose proof (wf_format s c q W) as Fd. fold d in Fd.
  destruct (next_down_dec d) as [s' c' q'|s'|s' sg' p']; cbn [down_spec] in H.
  - destruct H as (Hv & [Hc' Hq'] & Hn & Hs). rewrite Hv. split; [apply pred_lt|]. split.
    + intros f Ff Hlt. apply (pred_ge_gt radix10 fexp); assumption.
    + intros c2 q2 R2 E2. rewrite T34_eq in Hc'. rewrite T33_eq in Hn. rewrite <- Hv, D2R_abs in E2 by lia.
      apply (least_exponent c' q' Hc' Hn c2 q2 R2 E2).
  - destruct H as [-> H]. split; [reflexivity|].
    assert (Hge : (- MAXV <= D2R d)%R).
    { pose proof (wf_abs_le_MAXV s c q W) as A. fold d in A. pose proof (Rle_abs (- D2R d)) as B.
      rewrite Rabs_Ropp in B. lra. }
    assert (Hmin : D2R d = (- MAXV)%R).
    { destruct Hge as [L|E]; [|symmetry; exact E]. exfalso.
      pose proof (pred_ge_gt radix10 fexp (- MAXV) (D2R d) (generic_format_opp _ _ _ MAXV_format) Fd L). lra. }
    split; [exact Hmin|]. intros s2 c2 q2 W2. rewrite Hmin.
    pose proof (wf_abs_le_MAXV s2 c2 q2 W2) as A. pose proof (Rle_abs (- D2R (Fin s2 c2 q2))) as B.
    rewrite Rabs_Ropp in B. lra.
  - exact H.
Qed.

(* no representable value strictly between x and its upper neighbour *)
Theorem no_value_between s c q s' c' q' : wf (Fin s c q) -> next_up_dec (Fin s c q) = Fin s' c' q' ->
  (forall f, generic_format radix10 fexp f -> ~ (D2R (Fin s c q) < f < D2R (Fin s' c' q'))%R) /\
  (forall s2 c2 q2, wf (Fin s2 c2 q2) -> ~ (D2R (Fin s c q) < D2R (Fin s2 c2 q2) < D2R (Fin s' c' q'))%R).
Proof.
  intros W E. pose proof (next_up_least s c q W) as H. cbv zeta in H. rewrite E in H.
  destruct H as (_ & Hl & _).
  assert (A : forall f, generic_format radix10 fexp f -> ~ (D2R (Fin s c q) < f < D2R (Fin s' c' q'))%R).
  { intros f Ff [L1 L2]. specialize (Hl f Ff L1). lra. }
  split; [exact A|]. intros s2 c2 q2 W2. apply A. apply wf_format. exact W2.
Qed.

Theorem no_value_between_down s c q s' c' q' : wf (Fin s c q) -> next_down_dec (Fin s c q) = Fin s' c' q' ->
  (forall f, generic_format radix10 fexp f -> ~ (D2R (Fin s' c' q') < f < D2R (Fin s c q))%R) /\
  (forall s2 c2 q2, wf (Fin s2 c2 q2) -> ~ (D2R (Fin s' c' q') < D2R (Fin s2 c2 q2) < D2R (Fin s c q))%R).
Proof.
  intros W E. pose proof (next_down_greatest s c q W) as H. cbv zeta in H. rewrite E in H.
  destruct H as (_ & Hl & _).
  assert (A : forall f, generic_format radix10 fexp f -> ~ (D2R (Fin s' c' q') < f < D2R (Fin s c q))%R).
  { intros f Ff [L1 L2]. specialize (Hl f Ff L2). lra. }
  split; [exact A|]. intros s2 c2 q2 W2. apply A. apply wf_format. exact W2.
Qed.

(* ---------- round trips ---------- *)
Theorem next_down_up s c q s' c' q' : wf (Fin s c q) -> next_up_dec (Fin s c q) = Fin s' c' q' ->
  exists s2 c2 q2, next_down_dec (Fin s' c' q') = Fin s2 c2 q2 /\ wf (Fin s2 c2 q2) /\
                   D2R (Fin s2 c2 q2) = D2R (Fin s c q).
Proof.
  intros W E. pose proof (next_up_succ s c q W) as H. rewrite E in H. cbn [up_spec] in H.
  destruct H as (Hv & W' & _ & _).
  pose proof (next_down_pred s' c' q' W') as H2.
  destruct (next_down_dec (Fin s' c' q')) as [s2 c2 q2|s2|s2 sg2 p2]; cbn [down_spec] in H2.
  - destruct H2 as (Hv2 & W2 & _ & _). exists s2, c2, q2. split; [reflexivity|]. split; [exact W2|].
    rewrite Hv2, Hv. apply (pred_succ radix10 fexp). apply wf_format. exact W.
  - exfalso. destruct H2 as [_ H2]. rewrite Hv in H2. rewrite (pred_succ radix10 fexp _) in H2 by (apply wf_format; exact W).
    pose proof (wf_abs_le_MAXV s c q W) as A. pose proof (Rle_abs (- D2R (Fin s c q))) as B.
    rewrite Rabs_Ropp in B. lra.
  - contradiction.
Qed.

Theorem next_up_down s c q s' c' q' : wf (Fin s c q) -> next_down_dec (Fin s c q) = Fin s' c' q' ->
  exists s2 c2 q2, next_up_dec (Fin s' c' q') = Fin s2 c2 q2 /\ wf (Fin s2 c2 q2) /\
                   D2R (Fin s2 c2 q2) = D2R (Fin s c q).
Proof.
  intros W E. pose proof (next_down_pred s c q W) as H. rewrite E in H. cbn [down_spec] in H.
  destruct H as (Hv & W' & _ & _).
  pose proof (next_up_succ s' c' q' W') as H2.
  destruct (next_up_dec (Fin s' c' q')) as [s2 c2 q2|s2|s2 sg2 p2]; cbn [up_spec] in H2.
  - destruct H2 as (Hv2 & W2 & _ & _). exists s2, c2, q2. split; [reflexivity|]. split; [exact W2|].
    rewrite Hv2, Hv. apply (succ_pred radix10 fexp). apply wf_format. exact W.
  - exfalso. destruct H2 as [_ H2]. rewrite Hv in H2. rewrite (succ_pred radix10 fexp _) in H2 by (apply wf_format; exact W).
    pose proof (wf_abs_le_MAXV s c q W) as A. pose proof (Rle_abs (D2R (Fin s c q))) as B. lra.
  - contradiction.
Qed.

(* ---------- special operands, well-formedness, the bit-level operations ---------- *)
Theorem next_specials :
  next_up_dec (Inf false) = Inf false /\ next_up_dec (Inf true) = Fin true MAXC qmax /\
  next_down_dec (Inf true) = Inf true /\ next_down_dec (Inf false) = Fin false MAXC qmax /\
  (forall s q, next_up_dec (Fin s 0 q) = Fin false 1 qmin) /\
  (forall s q, next_down_dec (Fin s 0 q) = Fin true 1 qmin) /\
  next_up_dec (Fin false MAXC qmax) = Inf false /\ next_down_dec (Fin true MAXC qmax) = Inf true /\
  next_up_dec (Fin true 1 qmin) = Fin true 0 qmin /\ next_down_dec (Fin false 1 qmin) = Fin false 0 qmin.
Proof. repeat split; vm_compute; reflexivity. Qed.

Lemma wf_MAX s : wf (Fin s MAXC qmax).
Proof. cbn [wf]. unfold MAXC, T34, qmax. lia. Qed.

Lemma next_up_wf d : wf d -> is_nan d = false -> wf (next_up_dec d) /\ is_nan (next_up_dec d) = false.
Proof.
  intros W N. destruct d as [s c q|s|s sg p]; [| |discriminate].
  - apply next_up_wf_fin. exact W.
  - destruct s; cbn [next_up_dec].
    + split; [apply wf_MAX|reflexivity].
    + split; [exact I|reflexivity].
Qed.

Lemma neg_dec_wf d : wf d -> wf (neg_dec d).
Proof. destruct d; exact (fun H => H). Qed.
Lemma neg_dec_nan d : is_nan (neg_dec d) = is_nan d.
Proof. destruct d; reflexivity. Qed.

Lemma next_down_wf d : wf d -> is_nan d = false -> wf (next_down_dec d) /\ is_nan (next_down_dec d) = false.
Proof.
  intros W N. unfold next_down_dec.
  destruct (next_up_wf (neg_dec d) (neg_dec_wf d W)) as [A B]; [rewrite neg_dec_nan; exact N|].
  split; [apply neg_dec_wf; exact A|rewrite neg_dec_nan; exact B].
Qed.

Theorem m_next_up_spec x : 0 <= x < P128 ->
  (is_nan (decode x) = true -> m_next_up x = nan_outcomes [decode x]) /\
  (is_nan (decode x) = false ->
     m_next_up x = [([encode (next_up_dec (decode x))], 0)] /\ wf (next_up_dec (decode x)) /\
     canonical_bits (encode (next_up_dec (decode x))) = true /\
     decode (encode (next_up_dec (decode x))) = next_up_dec (decode x)).
Proof.
  intros Hx. unfold m_next_up. split; intros N; rewrite N; [reflexivity|].
  destruct (next_up_wf (decode x) (decode_wf x Hx) N) as [W _].
  split; [reflexivity|]. split; [exact W|]. split; [apply encode_canonical; exact W|apply decode_encode; exact W].
Qed.

Theorem m_next_down_spec x : 0 <= x < P128 ->
  (is_nan (decode x) = true -> m_next_down x = nan_outcomes [decode x]) /\
  (is_nan (decode x) = false ->
     m_next_down x = [([encode (next_down_dec (decode x))], 0)] /\ wf (next_down_dec (decode x)) /\
     canonical_bits (encode (next_down_dec (decode x))) = true /\
     decode (encode (next_down_dec (decode x))) = next_down_dec (decode x)).
Proof.
  intros Hx. unfold m_next_down. split; intros N; rewrite N; [reflexivity|].
  destruct (next_down_wf (decode x) (decode_wf x Hx) N) as [W _].
  split; [reflexivity|]. split; [exact W|]. split; [apply encode_canonical; exact W|apply decode_encode; exact W].
Qed.

(* bit-level round trip: feeding next_up's output pattern to next_down gives back x's value *)
Theorem m_next_down_up x y s c q : 0 <= x < P128 -> decode x = Fin s c q ->
  m_next_up x = [([y], 0)] -> is_fin (decode y) = true ->
  exists z, m_next_down y = [([z], 0)] /\ is_fin (decode z) = true /\ D2R (decode z) = D2R (decode x).
Proof.
  intros Hx E Hy Fy. destruct (m_next_up_spec x Hx) as [_ H]. rewrite E in H.
  destruct (H eq_refl) as (Hm & W & _ & Hde). rewrite Hm in Hy.
  assert (Ey : encode (next_up_dec (Fin s c q)) = y).
  { apply (f_equal (fun l : list outcome => match l with [([v], _)] => v | _ => 0 end)) in Hy. exact Hy. }
  subst y. rewrite Hde in Fy. pose proof (decode_wf x Hx) as Wx. rewrite E in Wx.
  destruct (next_up_dec (Fin s c q)) as [s' c' q'|s'|s' sg' p'] eqn:En; try discriminate.
  destruct (next_down_up s c q s' c' q' Wx En) as (s2 & c2 & q2 & E2 & W2 & V2).
  exists (encode (Fin s2 c2 q2)). unfold m_next_down. rewrite Hde. cbn [is_nan]. rewrite E2.
  split; [reflexivity|]. rewrite (decode_encode _ W2), E. split; [reflexivity|exact V2].
Qed.

(* ---------- next_after / next_toward ---------- *)
Lemma is_subnormal_or_zero_spec s c q : 0 <= c ->
  is_subnormal_or_zero (Fin s c q) = true <-> (Rabs (D2R (Fin s c q)) < bpow radix10 (-6143))%R.
Proof.
  intros Hc. rewrite D2R_abs by exact Hc. cbn [is_subnormal_or_zero].
  destruct (Z.eqb_spec c 0) as [->|N]; cbn [orb].
  - split; [intros _|reflexivity]. rewrite F2R_0. apply bpow_gt_0.
  - pose proof (digits_bounds c q ltac:(lia)) as [B1 B2]. rewrite Z.ltb_lt. split; intros H.
    + apply Rlt_le_trans with (1 := B2). apply bpow_le. lia.
    + assert (L : (bpow radix10 (ndigits c + q - 1) < bpow radix10 (-6143))%R) by lra.
      apply lt_bpow in L. exact L.
Qed.

(* the flags next_after attaches to a step from dx to res *)
Definition step_flags (dx res : dec) : Z :=
  if is_fin dx && is_inf res then F_OVF + F_INX
  else if is_subnormal_or_zero res then F_UNF + F_INX else 0.

Lemma cmp_dec_not_un dx dy : is_nan dx = false -> is_nan dy = false -> cmp_dec dx dy <> RUn.
Proof.
  intros Nx Ny. destruct dx as [sx cx qx|sx|]; destruct dy as [sy cy qy|sy|]; try discriminate; cbn [cmp_dec].
  - destruct (cmp_fin sx cx qx sy cy qy); discriminate.
  - destruct sy; discriminate.
  - destruct sx; discriminate.
  - destruct (Bool.eqb sx sy); [discriminate|destruct sx; discriminate].
Qed.

Theorem next_after_spec x y : 0 <= x < P128 -> 0 <= y < P128 ->
  let dx := decode x in let dy := decode y in
  (is_nan dx || is_nan dy = true -> m_next_after x y = nan_outcomes [dx; dy]) /\
  (is_nan dx || is_nan dy = false ->
     cmp_dec dx dy <> RUn /\
     (cmp_dec dx dy = REq -> m_next_after x y = out1 (set_sign (sign_of dy) dx) 0) /\
     (cmp_dec dx dy = RLt -> m_next_after x y = out1 (next_up_dec dx) (step_flags dx (next_up_dec dx))) /\
     (cmp_dec dx dy = RGt -> m_next_after x y = out1 (next_down_dec dx) (step_flags dx (next_down_dec dx)))).
Proof.
  intros Hx Hy dx dy. unfold m_next_after. fold dx dy. split; intros N; rewrite N; [reflexivity|].
  apply orb_false_iff in N. destruct N as [Nx Ny].
  pose proof (cmp_dec_not_un dx dy Nx Ny) as U.
  split; [exact U|]. destruct (cmp_dec dx dy); (split; [|split]); intros; try discriminate; try reflexivity.
Qed.

(* what the step flags mean: overflow+inexact exactly when a finite x steps to an infinity;
   underflow+inexact exactly when (not that and) the result is finite with |result| < 10^-6143,
   i.e. subnormal or zero; nothing otherwise *)
Theorem step_flags_spec dx res : wf res ->
  (step_flags dx res = F_OVF + F_INX <-> is_fin dx = true /\ is_inf res = true) /\
  (step_flags dx res = F_UNF + F_INX <-> is_fin res = true /\ (Rabs (D2R res) < bpow radix10 (-6143))%R) /\
  (step_flags dx res = 0 \/ step_flags dx res = F_OVF + F_INX \/ step_flags dx res = F_UNF + F_INX).
Proof.
  intros W. unfold step_flags.
  destruct res as [s c q|s|s sg p].
  - rewrite andb_false_r. destruct W as [Hc _].
    pose proof (is_subnormal_or_zero_spec s c q (proj1 Hc)) as S.
    destruct (is_subnormal_or_zero (Fin s c q)).
    + split; [split; [discriminate|intros [_ H]; discriminate]|].
      split; [|right; right; reflexivity]. split; [intros _; split; [reflexivity|apply S; reflexivity]|reflexivity].
    + split; [split; [discriminate|intros [_ H]; discriminate]|].
      split; [|left; reflexivity]. split; [discriminate|]. intros [_ H]. apply S in H. discriminate.
  - cbn [is_inf is_subnormal_or_zero is_fin]. rewrite andb_true_r. destruct (is_fin dx).
    + split; [split; [intros _; split; reflexivity|reflexivity]|]. split; [|right; left; reflexivity].
      split; [discriminate|intros [H _]; discriminate].
    + split; [split; [discriminate|intros [H _]; discriminate]|]. split; [|left; reflexivity].
      split; [discriminate|intros [H _]; discriminate].
  - cbn [is_inf is_subnormal_or_zero is_fin]. rewrite andb_false_r.
    split; [split; [discriminate|intros [_ H]; discriminate]|]. split; [|left; reflexivity].
    split; [discriminate|intros [H _]; discriminate].
Qed.

(* the result of a step always differs from x in value (so "subnormal or zero" is never x itself) *)
Theorem step_differs s c q :
  wf (Fin s c q) ->
  (forall s' c' q', next_up_dec (Fin s c q) = Fin s' c' q' -> (D2R (Fin s c q) < D2R (Fin s' c' q'))%R) /\
  (forall s' c' q', next_down_dec (Fin s c q) = Fin s' c' q' -> (D2R (Fin s' c' q') < D2R (Fin s c q))%R).
Proof.
  intros W. split; intros s' c' q' E.
  - pose proof (next_up_least s c q W) as H. cbv zeta in H. rewrite E in H. apply H.
  - pose proof (next_down_greatest s c q W) as H. cbv zeta in H. rewrite E in H. apply H.
Qed.

(* a finite x steps to an infinity only from the largest magnitude *)
Theorem step_to_inf s c q : wf (Fin s c q) ->
  (is_inf (next_up_dec (Fin s c q)) = true <-> D2R (Fin s c q) = MAXV) /\
  (is_inf (next_down_dec (Fin s c q)) = true <-> D2R (Fin s c q) = (- MAXV)%R).
Proof.
  intros W. split.
  - pose proof (next_up_least s c q W) as H. cbv zeta in H.
    pose proof (next_up_succ s c q W) as H2.
    destruct (next_up_dec (Fin s c q)) as [s' c' q'|s'|s' sg' p']; cbn [is_inf up_spec] in *.
    + split; [discriminate|]. intros E. exfalso. destruct H2 as (Hv & W' & _).
      pose proof (wf_abs_le_MAXV s' c' q' W') as A. pose proof (Rle_abs (D2R (Fin s' c' q'))) as B.
      destruct H as (L & _). lra.
    + split; [intros _; apply H|reflexivity].
    + contradiction.
  - pose proof (next_down_greatest s c q W) as H. cbv zeta in H.
    pose proof (next_down_pred s c q W) as H2.
    destruct (next_down_dec (Fin s c q)) as [s' c' q'|s'|s' sg' p']; cbn [is_inf down_spec] in *.
    + split; [discriminate|]. intros E. exfalso. destruct H2 as (Hv & W' & _).
      pose proof (wf_abs_le_MAXV s' c' q' W') as A. pose proof (Rle_abs (- D2R (Fin s' c' q'))) as B.
      rewrite Rabs_Ropp in B. destruct H as (L & _). lra.
    + split; [intros _; apply H|reflexivity].
    + contradiction.
Qed.

(* ... equivalently, exactly when the successor in the (unbounded-above) format exceeds the largest finite value *)
Theorem next_up_inf_iff s c q : wf (Fin s c q) ->
  (next_up_dec (Fin s c q) = Inf false <-> (MAXV < succ radix10 fexp (D2R (Fin s c q)))%R) /\
  (next_down_dec (Fin s c q) = Inf true <-> (pred radix10 fexp (D2R (Fin s c q)) < - MAXV)%R).
Proof.
  intros W. split.
  - pose proof (next_up_succ s c q W) as H.
    destruct (next_up_dec (Fin s c q)) as [s' c' q'|s'|s' sg' p']; cbn [up_spec] in H.
    + split; [discriminate|]. intros L. exfalso. destruct H as (Hv & W' & _).
      pose proof (wf_abs_le_MAXV s' c' q' W') as A. pose proof (Rle_abs (D2R (Fin s' c' q'))) as B. lra.
    + destruct H as [-> H]. split; [intros _; exact H|reflexivity].
    + contradiction.
  - pose proof (next_down_pred s c q W) as H.
    destruct (next_down_dec (Fin s c q)) as [s' c' q'|s'|s' sg' p']; cbn [down_spec] in H.
    + split; [discriminate|]. intros L. exfalso. destruct H as (Hv & W' & _).
      pose proof (wf_abs_le_MAXV s' c' q' W') as A. pose proof (Rle_abs (- D2R (Fin s' c' q'))) as B.
      rewrite Rabs_Ropp in B. lra.
    + destruct H as [-> H]. split; [intros _; exact H|reflexivity].
    + contradiction.
Qed.
