(* Dispatch from operation names to the model, and the acceptance test applied to the implementation's
   answer: outputs must be one of the accepted outcomes and status-out = status-in OR raised flags. *)
From Coq Require Import ZArith Bool List.
From DV Require Import Base Bid Arith OpsArith OpsCmp OpsMisc OpsConv OpsStr.
Import ListNotations.
Open Scope Z_scope.

Inductive expect :=
| Exact (l : list outcome)                          (* finite list of accepted (outputs, raised flags) *)
| Pred (p : list Z -> bool) (fls : list Z)          (* any outputs satisfying p, with one of these flag sets *)
| Known (id : Z) (required recorded : expect).      (* [required] is what the property demands; an answer that fails it but
                                                       satisfies [recorded] is the recorded known finding number [id] *)

(* known-finding classes (known_findings.json refers to them by these numbers) *)
Definition KF_EXPJUNK := 1.   (* C04: characters after a complete exponent are ignored (pinned by the suite: "1.1E-2E") *)

Inductive op :=
| OAdd | OSub | OMul | ODiv | OSqrt | OFma
| OQuantize | ORem | OFmod | OFdim
| ORint | ONearbyint | ORintFix (m:rmode) | OModf | OFrexp
| ONextUp | ONextDown | ONextAfter
| OMinMax (k:mmkind)
| OScaleb (w:Z) | OLogb | OIlogb | OQuantexp | OLlquantexp | OQuantum | OSameQuantum
| OTotalOrder | OTotalOrderMag | OClass | OIsx | OAbs | ONeg | OCopy | OCopySign
| OEncodeDpd | ODecodeDpd
| OFromBin (ebits fbits : Z) (use_mode:bool)
| OFromInt (w:Z) (signed:bool)
| OToInt (w:Z) (signed:bool) (m:rmode) (xflag:bool)
| OLrint | OLround
| OCmp | OOps | OHashEq | OHashSet | OHashSliceEq
| OParse | OFromStr | OFromStr2 | OFmt | OSerde | OSerdeDe | ONanTag | OMacro
| OOpArith (o:op) | OOpNeg | OSum | OProduct
| OConsts.

(* "the returned values are not fixed by any property": any NON-EMPTY output list (an empty list is the observable form of
   "no answer" and is accepted nowhere) *)
Definition any_out (outs : list Z) : bool := negb (is_nil outs).

(* modf of an infinity: (that infinity, a canonical zero of the same sign with any exponent) *)
Definition modf_inf_ok (s:bool) (outs : list Z) : bool :=
  match outs with
  | [ip; fp] => (ip =? encode (Inf s)) && canonical_bits fp &&
                match decode fp with Fin s' 0 _ => Bool.eqb s s' | _ => false end
  | _ => false
  end.

Definition of_kind (e:expect_kind) : expect := match e with EList l => Exact l | EAny => Pred any_out [0] end.

Definition arith2 (o:op) (md:rmode) (x y : Z) : list outcome :=
  match o with
  | OAdd => m_add md x y | OSub => m_sub md x y | OMul => m_mul md x y | ODiv => m_div md x y
  | ORem => rem_dec true x y
  | _ => []
  end.

(* operator forms: RNE, private zero status word, the flags are discarded; n copies of the result *)
Definition repeat_out (n:nat) (l : list outcome) : list outcome :=
  map (fun o => (concat (repeat (fst o) n), 0)) l.

(* left fold of a binary operation at RNE over the argument list, tracking every acceptable value *)
Fixpoint fold_ops (o:op) (accs : list Z) (args : list Z) : list Z :=
  match args with
  | [] => accs
  | a :: r => fold_ops o (flat_map (fun acc => flat_map (fun oc => fst oc) (arith2 o RNE acc a)) accs) r
  end.

(* Hash::hash_slice (C20). Arguments [n; x1..xn; y1..yn]: two slices of n patterns each; output [same], same = 1 iff the
   two slices fed identical word sequences to a recording Hasher. *)
Definition hashslice_shape (n : Z) (l : list Z) : bool := (0 <=? n) && (Z.of_nat (length l) =? 2 * n).
Fixpoint slices_eq (xs ys : list Z) : bool :=
  match xs, ys with
  | [], [] => true
  | x :: xs', y :: ys' => m_eq (decode x) (decode y) && slices_eq xs' ys'
  | _, _ => false
  end.
(* accept iff (pairwise equal values -> same hasher input) *)
Definition m_hashslice (n : Z) (l : list Z) (same : Z) : bool :=
  let k := Z.to_nat n in
  if slices_eq (firstn k l) (skipn k l) then same =? 1 else true.

Definition ZERO_BITS := encode (Fin false 0 0).
Definition ONE_BITS := encode (Fin false 1 0).

Definition expected (o:op) (md:rmode) (args:list Z) : expect :=
  match o, args with
  | OAdd, [x; y] => Exact (m_add md x y)
  | OSub, [x; y] => Exact (m_sub md x y)
  | OMul, [x; y] => Exact (m_mul md x y)
  | ODiv, [x; y] => Exact (m_div md x y)
  | OSqrt, [x] => Exact (m_sqrt md x)
  | OFma, [x; y; z] => Exact (m_fma md x y z)
  | OQuantize, [x; y] => Exact (m_quantize md x y)
  | ORem, [x; y] => Exact (rem_dec true x y)
  | OFmod, [x; y] => Exact (rem_dec false x y)
  | OFdim, [x; y] => Exact (m_fdim md x y)
  | ORint, [x] => Exact (rint_dec md true x)
  | ONearbyint, [x] => Exact (rint_dec md false x)
  | ORintFix m, [x] => Exact (rint_dec m false x)
  | OModf, [x] =>
      match decode x with
      | Inf s => Pred (modf_inf_ok s) [0]      (* the exponent of the zero fractional part of an infinity is not fixed by C08 *)
      | _ => Exact (m_modf x)
      end
  | OFrexp, [x] => of_kind (m_frexp x)
  | ONextUp, [x] => Exact (m_next_up x)
  | ONextDown, [x] => Exact (m_next_down x)
  | ONextAfter, [x; y] => Exact (m_next_after x y)
  | OMinMax k, [x; y] => Exact (m_minmax k x y)
  | OScaleb w, [x; n] => Exact (m_scaleb md x (sint w n))
  | OLogb, [x] => Exact (m_logb x)
  | OIlogb, [x] => Exact (m_ilogb x)
  | OQuantexp, [x] => Exact (m_quantexp x)
  | OLlquantexp, [x] => Exact (m_llquantexp x)
  | OQuantum, [x] => of_kind (m_quantum x)
  | OSameQuantum, [x; y] => Exact (m_same_quantum x y)
  | OTotalOrder, [x; y] => Exact (m_total_order x y)
  | OTotalOrderMag, [x; y] => Exact (m_total_order_mag x y)
  | OClass, [x] => Exact (m_class x)
  | OIsx, [x] => Exact (m_isx x)
  | OAbs, [x] => Exact (m_abs x)
  | ONeg, [x] => Exact (m_neg x)
  | OCopy, [x] => Exact (m_copy x)
  | OCopySign, [x; y] => Exact (m_copysign x y)
  | OEncodeDpd, [x] => Exact (m_encode_dpd x)
  | ODecodeDpd, [x] => Exact (m_decode_dpd x)
  | OFromBin eb fb use_mode, [b] =>
      match m_from_bin eb fb (if use_mode then md else RNE) b with
      | BList l => if use_mode then Exact l else Exact (map (fun oc => (fst oc, 0)) l)
      | BNaN s fl => Pred (is_canonical_qnan_of_sign s) [if use_mode then fl else 0]
      end
  | OFromInt w sg, [v] => Exact (m_from_int w sg v)
  | OToInt w sg m xf, [x] => Exact (m_to_int w sg m xf x)
  | OLrint, [x] => Exact (m_to_int 64 true md true x)
  | OLround, [x] => Exact (m_to_int 64 true RNA false x)
  | OCmp, [x; y; i] => Exact (m_cmp x y i)
  | OOps, [x; y] => Exact (m_ops x y)
  | OHashEq, [x; y] => Pred (fun outs => match outs with [same] => m_hasheq x y same | _ => false end) [0]
  | OHashSet, [x; y] => Exact [([b2z (m_eq (decode x) (decode y))], 0)]
  | OHashSliceEq, n :: l =>
      if hashslice_shape n l
      then Pred (fun outs => match outs with [same] => m_hashslice n l same | _ => false end) [0]
      else Exact []
  | OParse, l =>
      match m_parse md l with
      | SList ol => Exact ol
      | SGarbage => Pred is_default_qnan [0]
      | SSnanJunk _ => Pred is_any_nan0 [0]
      | SExpJunk ol => Known KF_EXPJUNK (Pred is_default_qnan [0]) (Exact ol)
      end
  | OFromStr, l =>
      match m_parse RNE l with
      | SList ol => Exact (fromstr_of ol)
      | SGarbage => Pred (fun outs => match outs with [1; r] => is_default_qnan [r] | _ => false end) [0]
      | SSnanJunk _ => Pred (fun outs => match outs with [1; r] => is_any_nan0 [r] | _ => false end) [0]
      | SExpJunk ol => Known KF_EXPJUNK (Pred (fun outs => match outs with [1; r] => is_default_qnan [r] | _ => false end) [0])
                                        (Exact (fromstr_of ol))
      end
  | OFromStr2, l =>
      match m_parse RNE l with
      | SList ol => Exact (map (fun oc => (fst oc, 0)) ol)
      | SGarbage => Pred is_default_qnan [0]
      | SSnanJunk _ => Pred is_any_nan0 [0]
      | SExpJunk ol => Known KF_EXPJUNK (Pred is_default_qnan [0]) (Exact (map (fun oc => (fst oc, 0)) ol))
      end
  | OFmt, [x] => Exact (m_fmt x)
  (* serde: Serialize writes the Display text as a JSON string; Deserialize is FromStr on the string's content.
     outputs: [the JSON text as a number; 1; bits re-read]  (C05: "the same holds through the serde string representation") *)
  | OSerde, [x] =>
      let txt := m_format true (decode x) in
      let js := str_num ([34] ++ txt ++ [34]) in
      match m_parse RNE txt with
      | SList ol => Exact (map (fun oc => (js :: fst oc, 0)) (fromstr_of ol))
      | _ => Exact []
      end
  | OSerdeDe, l =>
      let noerrflags := map (fun oc => match oc with ([0; _], f) => ([0; 0], f) | _ => oc end) in
      match m_parse RNE l with
      | SList ol => Exact (noerrflags (fromstr_of ol))
      | SGarbage => Pred (fun outs => match outs with [1; r] => is_default_qnan [r] | _ => false end) [0]
      | SSnanJunk _ => Pred (fun outs => match outs with [1; r] => is_any_nan0 [r] | _ => false end) [0]
      | SExpJunk ol => Known KF_EXPJUNK (Pred (fun outs => match outs with [1; r] => is_default_qnan [r] | _ => false end) [0])
                                        (Exact (noerrflags (fromstr_of ol)))
      end
  (* d128::nan(tag): "a quiet NaN" is all any property says (DESIGN 14): any pattern that decodes to a quiet NaN, with whatever
     flags parsing the tag raised *)
  | ONanTag, _ => Pred (fun outs => match outs with [r] => (0 <=? r) && (r <? P128) && match decode r with NaN _ false _ => true | _ => false end | _ => false end)
                       [0; F_INX; F_INX + F_OVF; F_INX + F_UNF]
  (* the public constants, as their doc comments name them: -1, 0, 1, NaN, -NaN, sNaN, -sNaN, Inf, -Inf, EPSILON = 1E-33,
     MIN = 1E-6143, MAX = 9.99..9E+6144, default() = 0, RADIX, MANTISSA_DIGITS, MIN_EXP, MAX_EXP *)
  | OConsts, [] =>
      Exact [([encode (Fin true 1 0); encode (Fin false 0 0); encode (Fin false 1 0); encode (NaN false false 0); encode (NaN true false 0);
               encode (NaN false true 0); encode (NaN true true 0); encode (Inf false); encode (Inf true); encode (Fin false 1 (-33));
               encode (Fin false 1 (-6143)); encode (Fin false MAXC qmax); encode (Fin false 0 0); 10; 34; to_i32 (-6142); 6145], 0)]
  (* dec128!(7920), dec128!(1E+3), dec128!(0.001) *)
  | OMacro, [] => Exact [([encode (Fin false 7920 0); encode (Fin false 1 3); encode (Fin false 1 (-3))], 0)]
  | OOpArith o', [x; y] => Exact (repeat_out 5 (arith2 o' RNE x y))
  | OOpNeg, [x] => Exact (repeat_out 2 (m_neg x))
  | OSum, l => Exact (map (fun v => ([v; v], 0)) (fold_ops OAdd [ZERO_BITS] l))
  | OProduct, l => Exact (map (fun v => ([v; v], 0)) (fold_ops OMul [ONE_BITS] l))
  | _, _ => Exact []
  end.

Fixpoint list_eqb (a b : list Z) : bool :=
  match a, b with
  | [], [] => true
  | x :: a', y :: b' => (x =? y) && list_eqb a' b'
  | _, _ => false
  end.

(* verdict: 1 = accepted, 0 = rejected, 2 + id = the recorded known finding [id] *)
Fixpoint judge (e:expect) (fin:Z) (outs:list Z) (fout:Z) : Z :=
  match e with
  | Exact l => b2z (existsb (fun o => list_eqb (fst o) outs && (Z.lor fin (snd o) =? fout)) l)
  | Pred p fls => b2z (p outs && existsb (fun fl => Z.lor fin fl =? fout) fls)
  | Known id req rec =>
      if judge req fin outs fout =? 1 then 1
      else if judge rec fin outs fout =? 1 then 2 + Z.abs id else 0
  end.

(* what to print for a rejected case *)
Fixpoint expect_list (e:expect) : list outcome :=
  match e with Exact l => l | Pred _ fls => map (fun f => ([], f)) fls | Known _ req _ => expect_list req end.
