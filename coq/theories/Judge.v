(* Dispatch from operation names to the model, and the acceptance test applied to the implementation's
   answer: outputs must be one of the accepted outcomes and status-out = status-in OR raised flags. *)
From Coq Require Import ZArith Bool List.
From DV Require Import Base Bid Arith OpsArith.
Import ListNotations.
Open Scope Z_scope.

Inductive expect :=
| Exact (l : list outcome)                          (* finite list of accepted (outputs, raised flags) *)
| Pred (p : list Z -> bool) (fls : list Z).         (* any outputs satisfying p, with one of these flag sets *)

Inductive op := OAdd | OSub | OMul | ODiv | OSqrt | OFma.

Definition expected (o:op) (md:rmode) (args:list Z) : expect :=
  match o, args with
  | OAdd, [x; y] => Exact (m_add md x y)
  | OSub, [x; y] => Exact (m_sub md x y)
  | OMul, [x; y] => Exact (m_mul md x y)
  | ODiv, [x; y] => Exact (m_div md x y)
  | OSqrt, [x] => Exact (m_sqrt md x)
  | OFma, [x; y; z] => Exact (m_fma md x y z)
  | _, _ => Exact []
  end.

Fixpoint list_eqb (a b : list Z) : bool :=
  match a, b with
  | [], [] => true
  | x :: a', y :: b' => (x =? y) && list_eqb a' b'
  | _, _ => false
  end.

Definition judge (e:expect) (fin:Z) (outs:list Z) (fout:Z) : bool :=
  match e with
  | Exact l => existsb (fun o => list_eqb (fst o) outs && (Z.lor fin (snd o) =? fout)) l
  | Pred p fls => p outs && existsb (fun fl => Z.lor fin fl =? fout) fls
  end.

(* what to print for a rejected case *)
Definition expect_list (e:expect) : list outcome :=
  match e with Exact l => l | Pred _ fls => map (fun f => ([], f)) fls end.
