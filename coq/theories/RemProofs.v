(* C10: IEEE remainder and fmod are exact.
   Part 1 (integers only, axiom-free): powmod, rem_core, rem_dec against the IEEE definition stated on the
   two operands scaled to the common exponent e = min qx qy.
   Part 2 (Reals/Flocq): the same result stated with D2R, ZnearestE and Ztrunc. *)
From Coq Require Import ZArith Lia Bool List.
From Flocq Require Import Core.Zaux.
From DV Require Import Base Bid BidProofs Arith OpsArith OpsCmp OpsMisc Judge.
Import ListNotations.
Open Scope Z_scope.

(* ------------------------------------------------------------------------------------------ *)
(* modular exponentiation                                                                      *)
(* ------------------------------------------------------------------------------------------ *)

Lemma powmod_pos_correct b p m : 0 < m -> powmod_pos b p m = (b ^ Zpos p) mod m.
Proof.
  intros Hm. induction p as [p IH|p IH|].
  - cbn [powmod_pos]. rewrite IH.
    rewrite <- (Z.mul_mod (b ^ Z.pos p) (b ^ Z.pos p) m) by lia.
    rewrite Z.mul_mod_idemp_l by lia.
    f_equal. rewrite (Pos2Z.inj_xI p).
    replace (2 * Z.pos p + 1) with (Z.pos p + Z.pos p + 1) by lia.
    rewrite !Z.pow_add_r by lia. rewrite Z.pow_1_r. reflexivity.
  - cbn [powmod_pos]. rewrite IH.
    rewrite <- Z.mul_mod by lia.
    f_equal. rewrite (Pos2Z.inj_xO p).
    replace (2 * Z.pos p) with (Z.pos p + Z.pos p) by lia.
    rewrite Z.pow_add_r by lia. reflexivity.
  - cbn [powmod_pos]. rewrite Z.pow_1_r. reflexivity.
Qed.

Theorem powmod_correct b g m : 0 < m -> 0 <= g -> powmod b g m = (b ^ g) mod m.
Proof.
  intros Hm Hg. destruct g as [|p|p].
  - reflexivity.
  - apply powmod_pos_correct, Hm.
  - lia.
Qed.

(* ------------------------------------------------------------------------------------------ *)
(* the specification on magnitudes: X, Y > 0 integers (the operands scaled to the common exponent) *)
(* ------------------------------------------------------------------------------------------ *)

(* [fr = (flip, r)]: the signed remainder of the magnitudes is (if flip then -r else r) = X - n*Y with
   - nearest = true : n the integer nearest X/Y, ties to even  (2*|X - n*Y| <= Y, equality only for even n)
   - nearest = false: n = X / Y (truncation = floor, X >= 0), 0 <= r < Y, no flip *)
Definition rem_mag_spec (nearest:bool) (X Y : Z) (fr : bool * Z) : Prop :=
  exists n, 0 <= n /\ (if fst fr then - snd fr else snd fr) = X - n * Y /\ 0 <= snd fr /\
    if nearest then 2 * snd fr <= Y /\ (2 * snd fr = Y -> Z.even n = true)
    else fst fr = false /\ snd fr < Y.

Lemma nearest_fix_spec X Y n0 r0 (odd:bool) :
  0 < Y -> 0 <= n0 -> 0 <= r0 < Y -> X = n0 * Y + r0 -> Z.odd n0 = odd ->
  rem_mag_spec true X Y
    (match 2 * r0 ?= Y with
     | Lt => (false, r0)
     | Gt => (true, Y - r0)
     | Eq => if odd then (true, Y - r0) else (false, r0)
     end).
Proof.
  intros HY Hn0 Hr0 HX Hodd. unfold rem_mag_spec.
  destruct (Z.compare_spec (2 * r0) Y) as [He|Hl|Hg].
  - destruct odd.
    + exists (n0 + 1). cbn [fst snd]. repeat split; try lia.
      intros _. rewrite Z.add_1_r, Z.even_succ. exact Hodd.
    + exists n0. cbn [fst snd]. repeat split; try lia.
      intros _. rewrite <- Z.negb_odd, Hodd. reflexivity.
  - exists n0. cbn [fst snd]. repeat split; lia.
  - exists (n0 + 1). cbn [fst snd]. repeat split; lia.
Qed.

(* the remainder never exceeds the dividend's magnitude *)
Lemma rem_mag_le_X nearest X Y fr : 0 <= X -> 0 < Y -> rem_mag_spec nearest X Y fr -> snd fr <= X.
Proof.
  intros HX HY (n & Hn & He & Hr & Hc). destruct fr as [flip r]. cbn [fst snd] in *.
  destruct nearest.
  - destruct Hc as [Hc _]. destruct flip.
    + assert (n = 0 \/ 1 <= n) as [->|H1] by lia; [lia|]. nia.
    + nia.
  - destruct Hc as [-> Hc]. nia.
Qed.

(* fmod on magnitudes is Coq's floor division (equal to truncation for non-negative operands) *)
Lemma rem_mag_fmod X Y fr : 0 < Y -> rem_mag_spec false X Y fr -> fst fr = false /\ snd fr = X mod Y.
Proof.
  destruct fr as [flip r]. intros HY (n & Hn & He & Hr & Hf & Hc). cbn [fst snd] in *. subst flip.
  split; [reflexivity|]. apply (Z.mod_unique_pos X Y n); lia.
Qed.

(* the nearest-even quotient is unique: the integer statement pins n down completely *)
Lemma nearest_even_unique X Y n1 n2 : Y <> 0 ->
  2 * Z.abs (X - n1 * Y) <= Z.abs Y -> (2 * Z.abs (X - n1 * Y) = Z.abs Y -> Z.even n1 = true) ->
  2 * Z.abs (X - n2 * Y) <= Z.abs Y -> (2 * Z.abs (X - n2 * Y) = Z.abs Y -> Z.even n2 = true) ->
  n1 = n2.
Proof.
  intros HY H1 E1 H2 E2.
  assert (Hd : n1 = n2 \/ n1 = n2 + 1 \/ n2 = n1 + 1) by nia.
  destruct Hd as [H|[H|H]]; [exact H| |]; exfalso.
  - assert (T1 : 2 * Z.abs (X - n1 * Y) = Z.abs Y) by nia.
    assert (T2 : 2 * Z.abs (X - n2 * Y) = Z.abs Y) by nia.
    specialize (E1 T1). specialize (E2 T2). subst n1.
    rewrite Z.add_1_r, Z.even_succ, <- Z.negb_even, E2 in E1. discriminate.
  - assert (T1 : 2 * Z.abs (X - n1 * Y) = Z.abs Y) by nia.
    assert (T2 : 2 * Z.abs (X - n2 * Y) = Z.abs Y) by nia.
    specialize (E1 T1). specialize (E2 T2). subst n2.
    rewrite Z.add_1_r, Z.even_succ, <- Z.negb_even, E1 in E2. discriminate.
Qed.

(* ------------------------------------------------------------------------------------------ *)
(* rem_core                                                                                    *)
(* ------------------------------------------------------------------------------------------ *)

(* branch qy <= qx: common exponent qy, X = cx * 10^(qx-qy), Y = cy; reduction modulo 2*cy *)
Lemma rem_core_ge nearest cx qx cy qy : 0 < cx -> 0 < cy -> qy <= qx ->
  rem_mag_spec nearest (cx * 10 ^ (qx - qy)) cy (rem_core nearest cx qx cy qy).
Proof.
  intros Hcx Hcy Hq. unfold rem_core.
  rewrite (proj2 (Z.leb_le qy qx) Hq). cbv zeta.
  rewrite powmod_correct by lia.
  rewrite <- Z.mul_mod by lia.
  set (X := cx * 10 ^ (qx - qy)).
  assert (HX : 0 <= X). { unfold X. apply Z.mul_nonneg_nonneg; [lia|]. apply Z.pow_nonneg. lia. }
  pose proof (Z.div_mod X (2 * cy) ltac:(lia)) as Hdm.
  pose proof (Z.mod_pos_bound X (2 * cy) ltac:(lia)) as Hb.
  assert (Hk : 0 <= X / (2 * cy)) by (apply Z.div_pos; lia).
  set (t := X mod (2 * cy)) in *. set (k := X / (2 * cy)) in *.
  destruct (cy <=? t) eqn:Eo; [apply Z.leb_le in Eo|apply Z.leb_gt in Eo].
  - (* quotient X / cy = 2k+1 odd *)
    destruct nearest; cbn [negb].
    + apply (nearest_fix_spec X cy (2 * k + 1) (t - cy) true); try lia.
      rewrite Z.add_comm, Z.odd_add_mul_2. reflexivity.
    + exists (2 * k + 1). cbn [fst snd]. repeat split; lia.
  - (* quotient X / cy = 2k even *)
    destruct nearest; cbn [negb].
    + apply (nearest_fix_spec X cy (2 * k) t false); try lia.
      replace (2 * k) with (0 + 2 * k) by lia. rewrite Z.odd_add_mul_2. reflexivity.
    + exists (2 * k). cbn [fst snd]. repeat split; lia.
Qed.

Lemma pow37 : 2 * 10 ^ 34 < 10 ^ 37. Proof. reflexivity. Qed.

(* branch qx < qy: common exponent qx, X = cx, Y = cy * 10^(qy-qx); gaps above 36 digits give x back *)
Lemma rem_core_lt nearest cx qx cy qy : 0 < cx < 10 ^ 34 -> 0 < cy -> qx < qy ->
  rem_mag_spec nearest cx (cy * 10 ^ (qy - qx)) (rem_core nearest cx qx cy qy).
Proof.
  intros Hcx Hcy Hq. unfold rem_core.
  rewrite (proj2 (Z.leb_gt qy qx) Hq). cbv zeta.
  set (g := qy - qx).
  assert (Hp : 0 < 10 ^ g) by (apply Z.pow_pos_nonneg; lia).
  set (Y := cy * 10 ^ g).
  assert (HY : 0 < Y) by (unfold Y; nia).
  destruct (36 <? g) eqn:Eg; [apply Z.ltb_lt in Eg|apply Z.ltb_ge in Eg].
  - assert (H37 : 10 ^ 37 <= 10 ^ g) by (apply Z.pow_le_mono_r; lia).
    pose proof pow37 as P37.
    assert (HYb : 2 * cx < Y) by (unfold Y; nia).
    exists 0. cbn [fst snd]. repeat split; try lia.
    destruct nearest; lia.
  - pose proof (Z.div_mod cx Y ltac:(lia)) as Hdm.
    pose proof (Z.mod_pos_bound cx Y HY) as Hb.
    assert (Hk : 0 <= cx / Y) by (apply Z.div_pos; lia).
    destruct nearest; cbn [negb].
    + apply (nearest_fix_spec cx Y (cx / Y) (cx mod Y) (Z.odd (cx / Y))); try lia. reflexivity.
    + exists (cx / Y). cbn [fst snd]. repeat split; lia.
Qed.

(* both branches, stated at the common exponent e = min qx qy *)
Theorem rem_core_spec nearest cx qx cy qy : 0 < cx < 10 ^ 34 -> 0 < cy ->
  let e := Z.min qx qy in
  rem_mag_spec nearest (cx * 10 ^ (qx - e)) (cy * 10 ^ (qy - e)) (rem_core nearest cx qx cy qy).
Proof.
  intros Hcx Hcy e. unfold e. destruct (Z.le_gt_cases qy qx) as [Hq|Hq].
  - rewrite (Z.min_r qx qy Hq). rewrite Z.sub_diag, Z.pow_0_r, Z.mul_1_r.
    apply rem_core_ge; lia.
  - rewrite (Z.min_l qx qy) by lia. rewrite Z.sub_diag, Z.pow_0_r, Z.mul_1_r.
    apply rem_core_lt; lia.
Qed.

(* fmod on magnitudes: no flip, Coq's (floor = truncated, operands positive) remainder *)
Theorem rem_core_fmod_eq cx qx cy qy : 0 < cx < 10 ^ 34 -> 0 < cy ->
  let e := Z.min qx qy in
  rem_core false cx qx cy qy = (false, (cx * 10 ^ (qx - e)) mod (cy * 10 ^ (qy - e))).
Proof.
  intros Hcx Hcy e. pose proof (rem_core_spec false cx qx cy qy Hcx Hcy) as Hs. cbv zeta in Hs. fold e in Hs.
  assert (Hp : 0 < 10 ^ (qy - e)) by (apply Z.pow_pos_nonneg; unfold e; lia).
  assert (HY : 0 < cy * 10 ^ (qy - e)) by nia.
  destruct (rem_mag_fmod _ _ _ HY Hs) as [H1 H2].
  destruct (rem_core false cx qx cy qy) as [f r]. cbn [fst snd] in *. subst. reflexivity.
Qed.

(* representability: the remainder's coefficient has at most 34 digits *)
Theorem rem_core_bound nearest cx qx cy qy : 0 < cx < 10 ^ 34 -> 0 < cy < 10 ^ 34 ->
  0 <= snd (rem_core nearest cx qx cy qy) < 10 ^ 34.
Proof.
  intros Hcx Hcy. destruct (Z.le_gt_cases qy qx) as [Hq|Hq].
  - pose proof (rem_core_ge nearest cx qx cy qy ltac:(lia) ltac:(lia) Hq) as (n & Hn & He & Hr & Hc).
    split; [exact Hr|]. destruct nearest; lia.
  - pose proof (rem_core_lt nearest cx qx cy qy Hcx ltac:(lia) Hq) as Hs.
    assert (Hp : 0 < 10 ^ (qy - qx)) by (apply Z.pow_pos_nonneg; lia).
    assert (HY : 0 < cy * 10 ^ (qy - qx)) by nia.
    pose proof (rem_mag_le_X nearest cx _ _ ltac:(lia) HY Hs) as Hle.
    destruct Hs as (n & Hn & He & Hr & Hc). lia.
Qed.

(* ------------------------------------------------------------------------------------------ *)
(* rem_dec: the bit-level operation                                                            *)
(* ------------------------------------------------------------------------------------------ *)

Lemma decode_fin_wf x s c q : 0 <= x < P128 -> decode x = Fin s c q -> 0 <= c < 10 ^ 34 /\ -6176 <= q <= 6111.
Proof. intros Hx E. pose proof (decode_wf x Hx) as W. rewrite E in W. exact W. Qed.

(* signed operands scaled to the common exponent *)
Definition sval (s:bool) (c:Z) : Z := cond_Zopp s c.
Definition scaled (s:bool) (c q e : Z) : Z := sval s c * 10 ^ (q - e).

(* the IEEE 754-2008 definition (5.3.1 remainder; C fmod) on the scaled integers Xs, Ys (Ys <> 0):
   r = Xs - n*Ys where
   - remainder: n is the integer nearest the exact quotient Xs/Ys, ties to even, i.e. 2|Xs - n Ys| <= |Ys| with
     equality only for even n (by [nearest_even_unique] there is exactly one such n);
   - fmod: n = Xs ÷ Ys, the quotient truncated toward zero (Coq's Z.quot). *)
Definition ieee_quotient (nearest:bool) (Xs Ys n : Z) : Prop :=
  if nearest then 2 * Z.abs (Xs - n * Ys) <= Z.abs Ys /\ (2 * Z.abs (Xs - n * Ys) = Z.abs Ys -> Z.even n = true)
  else n = Z.quot Xs Ys.

Lemma cond_Zopp_mul s a b : cond_Zopp s a * b = cond_Zopp s (a * b).
Proof. destruct s; cbn [cond_Zopp]; lia. Qed.

(* main theorem (integer form): finite x, finite non-zero y *)
Theorem rem_dec_spec nearest x y sx cx qx sy cy qy :
  0 <= x < P128 -> 0 <= y < P128 ->
  decode x = Fin sx cx qx -> decode y = Fin sy cy qy -> cy <> 0 ->
  let e := Z.min qx qy in
  let Xs := scaled sx cx qx e in
  let Ys := scaled sy cy qy e in
  exists s r n,
    rem_dec nearest x y = [([encode (Fin s r e)], 0)] /\          (* one outcome, quantum exponent e, no flag *)
    wf (Fin s r e) /\                                              (* exactly representable, canonical result *)
    sval s r = Xs - n * Ys /\                                      (* exact *)
    ieee_quotient nearest Xs Ys n /\                               (* n nearest-even resp. truncated quotient *)
    (r = 0 -> s = sx) /\                                           (* exact division: zero with the sign of x *)
    (nearest = false -> s = sx /\ r < Z.abs Ys) /\        (* fmod: sign of x, |fmod| < |y| *)
    (nearest = true -> 2 * r <= Z.abs Ys).                         (* remainder: |rem| <= |y|/2 *)
Proof.
  intros Hx Hy Dx Dy Hcy0 e Xs Ys.
  destruct (decode_fin_wf x sx cx qx Hx Dx) as [Bcx Bqx].
  destruct (decode_fin_wf y sy cy qy Hy Dy) as [Bcy Bqy].
  assert (Hcy : 0 < cy) by lia.
  assert (Be : -6176 <= e <= 6111) by (unfold e; lia).
  assert (Hpx : 0 < 10 ^ (qx - e)) by (apply Z.pow_pos_nonneg; unfold e; lia).
  assert (Hpy : 0 < 10 ^ (qy - e)) by (apply Z.pow_pos_nonneg; unfold e; lia).
  unfold rem_dec. rewrite Dx, Dy. cbn [is_nan orb].
  rewrite (proj2 (Z.eqb_neq cy 0) Hcy0).
  unfold Xs, Ys, scaled, sval. rewrite !cond_Zopp_mul.
  set (X := cx * 10 ^ (qx - e)). set (Y := cy * 10 ^ (qy - e)).
  assert (HY : 0 < Y) by (unfold Y; nia).
  assert (HaY : Z.abs (cond_Zopp sy Y) = Y) by (destruct sy; cbn [cond_Zopp]; lia).
  rewrite HaY.
  destruct (cx =? 0) eqn:Ecx; [apply Z.eqb_eq in Ecx|apply Z.eqb_neq in Ecx].
  - (* x = 0 *)
    exists sx, 0, 0. fold e. unfold out1.
    assert (X0 : X = 0) by (unfold X; rewrite Ecx; lia). rewrite X0.
    split; [reflexivity|]. split; [unfold wf, T34; lia|].
    split; [destruct sx; reflexivity|].
    split. { unfold ieee_quotient. destruct nearest.
             - replace (cond_Zopp sx 0) with 0 by (destruct sx; reflexivity). split; [lia|reflexivity].
             - replace (cond_Zopp sx 0) with 0 by (destruct sx; reflexivity). rewrite Z.quot_0_l; [reflexivity|].
               destruct sy; cbn [cond_Zopp]; lia. }
    split; [reflexivity|]. split; [intros _; split; [reflexivity|lia]|intros _; lia].
  - (* x <> 0 *)
    assert (Hcx : 0 < cx < 10 ^ 34) by lia.
    pose proof (rem_core_spec nearest cx qx cy qy Hcx Hcy) as Hs. cbv zeta in Hs.
    pose proof (rem_core_bound nearest cx qx cy qy Hcx ltac:(lia)) as Hb.
    fold e in Hs. fold X in Hs. fold Y in Hs.
    assert (HX : 0 < X) by (unfold X; nia).
    destruct (rem_core nearest cx qx cy qy) as [flip r] eqn:Erc. cbn [fst snd] in *.
    fold e. unfold out1.
    destruct Hs as (n & Hn & He & Hr & Hc). cbn [fst snd] in *.
    exists (if r =? 0 then sx else xorb sx flip), r, (if xorb sx sy then - n else n).
    split; [reflexivity|]. split; [unfold wf, T34; lia|].
    assert (Hval : cond_Zopp (if r =? 0 then sx else xorb sx flip) r =
                   cond_Zopp sx X - (if xorb sx sy then - n else n) * cond_Zopp sy Y).
    { destruct (Z.eqb_spec r 0) as [R0|R0]; destruct sx, sy, flip; cbn [xorb cond_Zopp]; lia. }
    split; [exact Hval|].
    assert (Habs : Z.abs (cond_Zopp sx X - (if xorb sx sy then - n else n) * cond_Zopp sy Y) = r).
    { rewrite <- Hval. destruct (if r =? 0 then sx else xorb sx flip); cbn [cond_Zopp]; lia. }
    split.
    { unfold ieee_quotient. destruct nearest.
      - rewrite Habs, HaY. destruct Hc as [Hc1 Hc2]. split; [exact Hc1|].
        intros T. specialize (Hc2 T). destruct (xorb sx sy); [rewrite Z.even_opp|]; exact Hc2.
      - destruct Hc as [Hf Hlt]. subst flip.
        assert (Hq : n = Z.quot X Y).
        { rewrite Z.quot_div_nonneg by lia. apply (Z.div_unique_pos X Y n r); lia. }
        destruct sx, sy; cbn [xorb cond_Zopp].
        + rewrite Z.quot_opp_opp by lia. exact Hq.
        + rewrite Z.quot_opp_l by lia. lia.
        + rewrite Z.quot_opp_r by lia. lia.
        + exact Hq. }
    split. { intros R0. rewrite R0. reflexivity. }
    split.
    { intros ->. destruct Hc as [-> Hlt]. rewrite xorb_false_r. split; [destruct (r =? 0); reflexivity|lia]. }
    { intros ->. lia. }
Qed.

(* ------------------------------------------------------------------------------------------ *)
(* special operands                                                                            *)
(* ------------------------------------------------------------------------------------------ *)

Theorem rem_dec_nan nearest x y : is_nan (decode x) || is_nan (decode y) = true ->
  rem_dec nearest x y = nan_outcomes [decode x; decode y].
Proof. intros H. unfold rem_dec. rewrite H. reflexivity. Qed.

Theorem rem_dec_specials nearest x y :
  (forall sx, decode x = Inf sx -> is_nan (decode y) = false -> rem_dec nearest x y = invalid_out) /\
  (forall sx cx qx sy qy, decode x = Fin sx cx qx -> decode y = Fin sy 0 qy -> rem_dec nearest x y = invalid_out) /\
  (forall sx cx qx sy, decode x = Fin sx cx qx -> decode y = Inf sy -> rem_dec nearest x y = out1 (Fin sx cx qx) 0) /\
  (forall sx qx sy cy qy, decode x = Fin sx 0 qx -> decode y = Fin sy cy qy -> cy <> 0 ->
     rem_dec nearest x y = out1 (Fin sx 0 (Z.min qx qy)) 0).
Proof.
  repeat split.
  - intros sx Dx Ny. unfold rem_dec. rewrite Dx. cbn [is_nan orb]. rewrite Ny. reflexivity.
  - intros sx cx qx sy qy Dx Dy. unfold rem_dec. rewrite Dx, Dy. reflexivity.
  - intros sx cx qx sy Dx Dy. unfold rem_dec. rewrite Dx, Dy. reflexivity.
  - intros sx qx sy cy qy Dx Dy Hc. unfold rem_dec. rewrite Dx, Dy. cbn [is_nan orb].
    rewrite (proj2 (Z.eqb_neq cy 0) Hc). reflexivity.
Qed.

(* y infinite: the result is x's canonical datum, i.e. decoding the result gives back decode x *)
Theorem rem_dec_inf_y_canonical nearest x y sx cx qx sy : 0 <= x < P128 ->
  decode x = Fin sx cx qx -> decode y = Inf sy ->
  exists r, rem_dec nearest x y = [([r], 0)] /\ decode r = decode x /\ canonical_bits r = true /\
            (canonical_bits x = true -> r = x).
Proof.
  intros Hx Dx Dy. exists (encode (Fin sx cx qx)).
  assert (W : wf (Fin sx cx qx)) by (rewrite <- Dx; apply decode_wf, Hx).
  split. { unfold rem_dec. rewrite Dx, Dy. reflexivity. }
  split. { rewrite Dx. apply decode_encode, W. }
  split. { apply encode_canonical, W. }
  intros C. rewrite <- Dx. apply encode_decode, C.
Qed.

(* dispatch: remainder, fmod, and the % operator *)
Theorem rem_dispatch md x y :
  expected ORem md [x; y] = Exact (rem_dec true x y) /\
  expected OFmod md [x; y] = Exact (rem_dec false x y) /\
  arith2 ORem RNE x y = rem_dec true x y /\
  expected (OOpArith ORem) md [x; y] = Exact (repeat_out 5 (rem_dec true x y)).
Proof. repeat split. Qed.

(* ------------------------------------------------------------------------------------------ *)
(* the two operations separately, all definitions of this file unfolded                        *)
(* ------------------------------------------------------------------------------------------ *)

Theorem remainder_spec x y sx cx qx sy cy qy :
  0 <= x < P128 -> 0 <= y < P128 ->
  decode x = Fin sx cx qx -> decode y = Fin sy cy qy -> cy <> 0 ->
  let e := Z.min qx qy in
  let Xs := cond_Zopp sx cx * 10 ^ (qx - e) in
  let Ys := cond_Zopp sy cy * 10 ^ (qy - e) in
  exists s r n,
    rem_dec true x y = [([encode (Fin s r e)], 0)] /\
    wf (Fin s r e) /\
    cond_Zopp s r = Xs - n * Ys /\
    2 * Z.abs (Xs - n * Ys) <= Z.abs Ys /\
    (2 * Z.abs (Xs - n * Ys) = Z.abs Ys -> Z.even n = true) /\
    (r = 0 -> s = sx) /\
    2 * r <= Z.abs Ys.
Proof.
  intros Hx Hy Dx Dy Hcy e Xs Ys.
  destruct (rem_dec_spec true x y sx cx qx sy cy qy Hx Hy Dx Dy Hcy)
    as (s & r & n & Hout & Hwf & Hval & [Hq1 Hq2] & Hzero & _ & Hrem).
  exists s, r, n.
  split; [exact Hout|]. split; [exact Hwf|]. split; [exact Hval|]. split; [exact Hq1|].
  split; [exact Hq2|]. split; [exact Hzero|]. apply Hrem. reflexivity.
Qed.

Theorem fmod_spec x y sx cx qx sy cy qy :
  0 <= x < P128 -> 0 <= y < P128 ->
  decode x = Fin sx cx qx -> decode y = Fin sy cy qy -> cy <> 0 ->
  let e := Z.min qx qy in
  let Xs := cond_Zopp sx cx * 10 ^ (qx - e) in
  let Ys := cond_Zopp sy cy * 10 ^ (qy - e) in
  exists r,
    rem_dec false x y = [([encode (Fin sx r e)], 0)] /\
    wf (Fin sx r e) /\
    cond_Zopp sx r = Xs - Z.quot Xs Ys * Ys /\
    cond_Zopp sx r = Z.rem Xs Ys /\
    r < Z.abs Ys.
Proof.
  intros Hx Hy Dx Dy Hcy e Xs Ys.
  destruct (rem_dec_spec false x y sx cx qx sy cy qy Hx Hy Dx Dy Hcy)
    as (s & r & n & Hout & Hwf & Hval & Hq & Hzero & Hf & _).
  destruct (Hf eq_refl) as [-> Hlt]. unfold ieee_quotient in Hq. subst n.
  exists r. fold e in Hout, Hwf. unfold scaled, sval in *. fold e Xs Ys in Hval, Hlt.
  split; [exact Hout|]. split; [exact Hwf|]. split; [exact Hval|]. split; [|exact Hlt].
  rewrite Hval. pose proof (Z.quot_rem' Xs Ys) as Hqr. lia.
Qed.
