(* Proofs about the character-sequence layer (OpsStr.v): parsing (C04) and formatting (C05).
   Part 1 (axiom-free, integers and lists only): digit strings, the grammar [wf_literal], [lex] on literals,
   special spellings, garbage, the exact path of [parse_num], formatting and the round trip.
   Part 2 (uses the real-number specification [ieee_result]): [parse_correct] and its corollaries. *)
From Coq Require Import ZArith Reals Lia Lra Bool List.
From Flocq Require Import Core.Core Calc.Bracket Calc.Round.
From DV Require Import Base RoundProofs Bid BidProofs Arith ArithProofs OpsArith OpsArithProofs OpsCmp OpsStr Judge.
Import ListNotations.
Open Scope Z_scope.

(* ================================================================================================ *)
(* 1. digit strings                                                                                  *)
(* ================================================================================================ *)

Definition all_digits (l : list Z) : Prop := Forall (fun b => is_digit b = true) l.
(* the rest of the input does not continue a digit run *)
Definition no_digit_head (l : list Z) : Prop := match l with [] => True | b :: _ => is_digit b = false end.
(* value of a digit string read left to right, starting from [acc] *)
Definition dval (acc : Z) (l : list Z) : Z := fold_left (fun a b => a * 10 + (b - 48)) l acc.
Definition len (l : list Z) : Z := Z.of_nat (length l).

Lemma is_digit_iff b : is_digit b = true <-> 48 <= b <= 57.
Proof. unfold is_digit. rewrite andb_true_iff, !Z.leb_le. tauto. Qed.
Lemma is_digit_false_iff b : is_digit b = false <-> (b < 48 \/ 57 < b).
Proof. unfold is_digit. rewrite andb_false_iff, !Z.leb_gt. tauto. Qed.

Lemma all_digits_app a b : all_digits (a ++ b) <-> all_digits a /\ all_digits b.
Proof. apply Forall_app. Qed.

Lemma dval_app acc a b : dval acc (a ++ b) = dval (dval acc a) b.
Proof. apply fold_left_app. Qed.
Lemma dval_cons acc b l : dval acc (b :: l) = dval (acc * 10 + (b - 48)) l.
Proof. reflexivity. Qed.
Lemma dval_nil acc : dval acc [] = acc.
Proof. reflexivity. Qed.
Lemma len_app a b : len (a ++ b) = len a + len b.
Proof. unfold len. rewrite app_length. lia. Qed.
Lemma len_cons b l : len (b :: l) = len l + 1.
Proof. unfold len. cbn [length]. lia. Qed.
Lemma len_nonneg l : 0 <= len l.
Proof. unfold len. lia. Qed.
Lemma len_zero l : len l = 0 -> l = [].
Proof. destruct l; [reflexivity|]. rewrite len_cons. pose proof (len_nonneg l). lia. Qed.

Lemma dval_nonneg l : forall acc, all_digits l -> 0 <= acc -> 0 <= dval acc l.
Proof.
  induction l as [|b l IH]; intros acc H Ha; [exact Ha|].
  inversion H as [|b' l' Hb Hl]; subst. apply is_digit_iff in Hb.
  rewrite dval_cons. apply IH; [exact Hl|lia].
Qed.

(* positional value: dval acc l = acc * 10^(length l) + dval 0 l *)
Lemma dval_shift l : forall acc, dval acc l = acc * 10 ^ len l + dval 0 l.
Proof.
  induction l as [|b l IH]; intros acc.
  - rewrite !dval_nil. change (len []) with 0. lia.
  - rewrite !dval_cons. rewrite (IH (acc * 10 + (b - 48))), (IH (0 * 10 + (b - 48))).
    rewrite len_cons. rewrite Z.pow_add_r by (pose proof (len_nonneg l); lia). lia.
Qed.

Lemma dval_bound l : all_digits l -> 0 <= dval 0 l < 10 ^ len l.
Proof.
  induction l as [|b l IH] using rev_ind; intros H.
  - change (dval 0 []) with 0. change (len []) with 0. lia.
  - apply all_digits_app in H. destruct H as [Hl Hb]. inversion Hb as [|b' l' Hb' _]; subst.
    apply is_digit_iff in Hb'. specialize (IH Hl).
    rewrite dval_app, len_app. change (len [b]) with 1. rewrite dval_cons, dval_nil.
    rewrite Z.pow_add_r by (pose proof (len_nonneg l); lia). lia.
Qed.

(* [read_digits] computes [dval] and consumes exactly the digit run *)
Lemma read_digits_app ds : forall rest acc n, all_digits ds -> no_digit_head rest ->
  read_digits (ds ++ rest) acc n = (dval acc ds, n + len ds, rest).
Proof.
  induction ds as [|b ds IH]; intros rest acc n Hd Hr.
  - cbn [app]. rewrite dval_nil. change (len []) with 0. rewrite Z.add_0_r.
    destruct rest as [|b r]; [reflexivity|]. cbn [read_digits]. cbn [no_digit_head] in Hr. rewrite Hr. reflexivity.
  - inversion Hd as [|b' l' Hb Hl]; subst. cbn [app read_digits]. rewrite Hb.
    rewrite IH by assumption. rewrite dval_cons, len_cons. f_equal. f_equal. lia.
Qed.

(* every input splits into its maximal digit run and the rest, and that is what [read_digits] returns *)
Theorem read_digits_maximal l : forall acc n, exists ds rest,
  l = ds ++ rest /\ all_digits ds /\ no_digit_head rest /\ read_digits l acc n = (dval acc ds, n + len ds, rest).
Proof.
  induction l as [|b l IH]; intros acc n.
  - exists [], []. repeat split; try constructor. cbn [read_digits]. rewrite dval_nil. change (len []) with 0. f_equal. f_equal. lia.
  - destruct (is_digit b) eqn:Hb.
    + destruct (IH (acc * 10 + (b - 48)) (n + 1)) as (ds & rest & E & Hd & Hr & R).
      exists (b :: ds), rest. split; [rewrite E; reflexivity|]. split; [constructor; assumption|]. split; [exact Hr|].
      cbn [read_digits]. rewrite Hb, R, dval_cons, len_cons. f_equal. f_equal. lia.
    + exists [], (b :: l). split; [reflexivity|]. split; [constructor|]. split; [exact Hb|].
      cbn [read_digits]. rewrite Hb, dval_nil. change (len []) with 0. f_equal. f_equal. lia.
Qed.

Lemma read_digits_nonneg l acc n : 0 <= acc -> 0 <= n ->
  let '(v, k, _) := read_digits l acc n in 0 <= v /\ n <= k.
Proof.
  intros Ha Hn. destruct (read_digits_maximal l acc n) as (ds & rest & _ & Hd & _ & R). rewrite R.
  split; [apply dval_nonneg; assumption|]. pose proof (len_nonneg ds). lia.
Qed.

(* ================================================================================================ *)
(* 2. the pattern matches of [lex] on byte literals, as boolean tests                                *)
(* ================================================================================================ *)

Definition split_sign (l : list Z) : bool * list Z :=
  match l with
  | b :: r => if b =? 43 then (false, r) else if b =? 45 then (true, r) else (false, l)
  | [] => (false, l)
  end.

Ltac byte_cases b :=
  destruct b as [|b|b]; try reflexivity;
  repeat (destruct b as [b|b|]; try reflexivity).

Lemma split_sign_eq l :
  match l with 43 :: r => (false, r) | 45 :: r => (true, r) | _ => (false, l) end = split_sign l.
Proof. destruct l as [|b r]; [reflexivity|]. unfold split_sign. byte_cases b. Qed.

Lemma point_match_eq {A} (l : list Z) (f : list Z -> A) (g : A) :
  match l with 46 :: r' => f r' | _ => g end = match l with b :: r' => if b =? 46 then f r' else g | [] => g end.
Proof. destruct l as [|b r]; [reflexivity|]. byte_cases b. Qed.

(* [lex] with the byte patterns replaced by tests: the form all later proofs use *)
Definition lex_body (s : bool) (r : list Z) : tok :=
  if eqi r s_inf || eqi r s_infinity then TSpecial (Inf s)
  else if eqi r s_nan then TSpecial (NaN s false 0)
  else if eqi r s_snan then TSpecial (NaN s true 0)
  else if prefix_eqi r s_snan then TSnanJunk s
  else
    let '(ip, ni, r1) := read_digits r 0 0 in
    let '(fp, nf, r2) := match r1 with b :: r' => if b =? 46 then read_digits r' ip 0 else (ip, 0, r1) | [] => (ip, 0, r1) end in
    if ni + nf =? 0 then TGarbage else
    match r2 with
    | [] => TNum s fp nf 0
    | e :: r3 =>
        if (e =? 101) || (e =? 69) then
          let '(es, r4) := split_sign r3 in
          let '(ev, ne, r5) := read_digits r4 0 0 in
          if ne =? 0 then TGarbage
          else if negb (is_nil r5) then TExpJunk s fp nf (if es then - ev else ev)
          else TNum s fp nf (if es then - ev else ev)
        else TGarbage
    end.

Lemma lex_unfold l : lex l = let '(s, r) := split_sign (skip_ws l) in lex_body s r.
Proof.
  unfold lex. cbv zeta. rewrite split_sign_eq. destruct (split_sign (skip_ws l)) as [s r].
  unfold lex_body.
  destruct (eqi r s_inf || eqi r s_infinity); [reflexivity|].
  destruct (eqi r s_nan); [reflexivity|]. destruct (eqi r s_snan); [reflexivity|].
  destruct (prefix_eqi r s_snan); [reflexivity|].
  destruct (read_digits r 0 0) as [[ip ni] r1].
  rewrite (point_match_eq r1 (fun r' => read_digits r' ip 0) (ip, 0, r1)).
  destruct (match r1 with [] => (ip, 0, r1) | b :: r' => if b =? 46 then read_digits r' ip 0 else (ip, 0, r1) end) as [[fp nf] r2].
  destruct (ni + nf =? 0); [reflexivity|].
  destruct r2 as [|e r3]; [reflexivity|].
  destruct ((e =? 101) || (e =? 69)); [|reflexivity].
  rewrite split_sign_eq. reflexivity.
Qed.

(* ================================================================================================ *)
(* 3. the grammar of decimal literals, independent of [lex]                                          *)
(* ================================================================================================ *)

(* optional sign: "", "+" or "-" *)
Definition sign_prefix (p : list Z) (s : bool) : Prop :=
  (p = [] /\ s = false) \/ (p = [43] /\ s = false) \/ (p = [45] /\ s = true).
(* optional fractional part: nothing, or '.' followed by the fractional digits (possibly none) *)
Definition frac_part (p ds_frac : list Z) : Prop := (p = [] /\ ds_frac = []) \/ p = 46 :: ds_frac.
(* optional exponent part: 'e' or 'E', optional sign, at least one digit *)
Definition exp_part (p : list Z) (es : option (bool * list Z)) : Prop :=
  match es with
  | None => p = []
  | Some (sg, eds) => exists e sp, (e = 101 \/ e = 69) /\ sign_prefix sp sg /\ eds <> [] /\ all_digits eds /\ p = e :: sp ++ eds
  end.

(* l = [sign] int-digits ['.' frac-digits] [('e'|'E') [sign] exp-digits], at least one digit in int ++ frac *)
Definition wf_literal (l : list Z) (s : bool) (ds_int ds_frac : list Z) (es : option (bool * list Z)) : Prop :=
  exists sp fp ep, l = sp ++ ds_int ++ fp ++ ep /\ sign_prefix sp s /\ frac_part fp ds_frac /\ exp_part ep es /\
                   all_digits ds_int /\ all_digits ds_frac /\ ds_int ++ ds_frac <> [].

Definition exp_val (es : option (bool * list Z)) : Z :=
  match es with None => 0 | Some (sg, eds) => if sg then - dval 0 eds else dval 0 eds end.

(* a byte that can start the unsigned part of a literal: a digit or '.' *)
Definition num_start (b : Z) : Prop := is_digit b = true \/ b = 46.

Lemma skip_ws_id b r : b <> 32 -> b <> 9 -> skip_ws (b :: r) = b :: r.
Proof. intros H1 H2. cbn [skip_ws]. apply Z.eqb_neq in H1, H2. rewrite H1, H2. reflexivity. Qed.

Lemma split_sign_prefix sp s b r : sign_prefix sp s -> b <> 43 -> b <> 45 -> b <> 32 -> b <> 9 ->
  split_sign (skip_ws (sp ++ b :: r)) = (s, b :: r).
Proof.
  intros [[-> ->]|[[-> ->]|[-> ->]]] H1 H2 H3 H4; cbn [app].
  - rewrite skip_ws_id by assumption. unfold split_sign. apply Z.eqb_neq in H1, H2. rewrite H1, H2. reflexivity.
  - rewrite skip_ws_id by lia. reflexivity.
  - rewrite skip_ws_id by lia. reflexivity.
Qed.

Lemma split_sign_prefix_plain sp s b r : sign_prefix sp s -> b <> 43 -> b <> 45 ->
  split_sign (sp ++ b :: r) = (s, b :: r).
Proof.
  intros [[-> ->]|[[-> ->]|[-> ->]]] H1 H2; cbn [app]; [|reflexivity|reflexivity].
  unfold split_sign. apply Z.eqb_neq in H1, H2. rewrite H1, H2. reflexivity.
Qed.

Lemma lower_num_start b : num_start b -> lower b = b.
Proof.
  intros [H| ->]; [|reflexivity]. apply is_digit_iff in H. unfold lower.
  destruct (65 <=? b) eqn:E; [apply Z.leb_le in E; lia|reflexivity].
Qed.

(* nothing that starts like a number is one of the special spellings *)
Lemma not_special_num_start b r : num_start b ->
  eqi (b :: r) s_inf = false /\ eqi (b :: r) s_infinity = false /\ eqi (b :: r) s_nan = false /\
  eqi (b :: r) s_snan = false /\ prefix_eqi (b :: r) s_snan = false.
Proof.
  intros H. unfold s_inf, s_infinity, s_nan, s_snan. cbn [eqi prefix_eqi]. rewrite (lower_num_start b H).
  assert (Hb : b <> 105 /\ b <> 110 /\ b <> 115).
  { destruct H as [H| ->]; [apply is_digit_iff in H|]; lia. }
  destruct Hb as (H1 & H2 & H3). apply Z.eqb_neq in H1, H2, H3. rewrite H1, H2, H3. repeat split; reflexivity.
Qed.

Lemma lex_body_num_start s b r : num_start b ->
  lex_body s (b :: r) =
    let '(ip, ni, r1) := read_digits (b :: r) 0 0 in
    let '(fp, nf, r2) := match r1 with b :: r' => if b =? 46 then read_digits r' ip 0 else (ip, 0, r1) | [] => (ip, 0, r1) end in
    if ni + nf =? 0 then TGarbage else
    match r2 with
    | [] => TNum s fp nf 0
    | e :: r3 =>
        if (e =? 101) || (e =? 69) then
          let '(es, r4) := split_sign r3 in
          let '(ev, ne, r5) := read_digits r4 0 0 in
          if ne =? 0 then TGarbage
          else if negb (is_nil r5) then TExpJunk s fp nf (if es then - ev else ev)
          else TNum s fp nf (if es then - ev else ev)
        else TGarbage
    end.
Proof.
  intros H. destruct (not_special_num_start b r H) as (E1 & E2 & E3 & E4 & E5).
  unfold lex_body. rewrite E1, E2, E3, E4, E5. reflexivity.
Qed.

(* the exponent part after the mantissa *)
Definition exp_tok (s : bool) (fp nf : Z) (r2 : list Z) : tok :=
  match r2 with
  | [] => TNum s fp nf 0
  | e :: r3 =>
      if (e =? 101) || (e =? 69) then
        let '(es, r4) := split_sign r3 in
        let '(ev, ne, r5) := read_digits r4 0 0 in
        if ne =? 0 then TGarbage
        else if negb (is_nil r5) then TExpJunk s fp nf (if es then - ev else ev)
        else TNum s fp nf (if es then - ev else ev)
      else TGarbage
  end.

(* the mantissa: sign, integer digits, optional point and fractional digits, followed by anything that is
   not a digit (and not a '.' if no point was seen): [lex] reads exactly the mantissa and goes on with the rest *)
Lemma lex_mantissa sp s di fp df rest :
  sign_prefix sp s -> frac_part fp df -> all_digits di -> all_digits df -> di ++ df <> [] ->
  no_digit_head rest -> (fp = [] -> match rest with b :: _ => b <> 46 | [] => True end) ->
  lex (sp ++ di ++ fp ++ rest) = exp_tok s (dval 0 (di ++ df)) (len df) rest.
Proof.
  intros Hsp Hfp Hdi Hdf Hne Hrest Hpt.
  (* first byte of the unsigned part *)
  assert (Hhd : exists b r, di ++ fp ++ rest = b :: r /\ num_start b).
  { destruct di as [|b di'].
    - destruct Hfp as [[-> ->]| ->]; [now elim Hne|]. exists 46, (df ++ rest). split; [reflexivity|right; reflexivity].
    - inversion Hdi; subst. exists b, (di' ++ fp ++ rest). split; [reflexivity|left; assumption]. }
  destruct Hhd as (b & r & E & Hb).
  assert (Hb' : b <> 43 /\ b <> 45 /\ b <> 32 /\ b <> 9).
  { destruct Hb as [Hb| ->]; [apply is_digit_iff in Hb|]; lia. }
  rewrite lex_unfold, E, (split_sign_prefix sp s b r Hsp) by tauto.
  rewrite lex_body_num_start by exact Hb. rewrite <- E. clear E Hb Hb' b r.
  assert (Hnd : no_digit_head (fp ++ rest)).
  { destruct Hfp as [[-> ->]| ->]; [exact Hrest|reflexivity]. }
  rewrite (read_digits_app di (fp ++ rest) 0 0 Hdi Hnd).
  assert (Hlen : 0 + len di + len df =? 0 = false).
  { apply Z.eqb_neq. intros H0. pose proof (len_nonneg di). pose proof (len_nonneg df).
    apply Hne. rewrite (len_zero di), (len_zero df) by lia. reflexivity. }
  destruct Hfp as [[-> ->]| ->].
  - (* no point *)
    cbn [app]. rewrite app_nil_r. change (len []) with 0 in *.
    assert (Hm : match rest with b :: r' => if b =? 46 then read_digits r' (dval 0 di) 0 else (dval 0 di, 0, rest) | [] => (dval 0 di, 0, rest) end
                 = (dval 0 di, 0, rest)).
    { destruct rest as [|b r']; [reflexivity|]. specialize (Hpt eq_refl). cbn in Hpt. apply Z.eqb_neq in Hpt. rewrite Hpt. reflexivity. }
    rewrite Hm, Hlen. reflexivity.
  - cbn [app]. rewrite Z.eqb_refl. rewrite (read_digits_app df rest (dval 0 di) 0 Hdf Hrest).
    rewrite Z.add_0_l in *. rewrite Z.add_0_l, Hlen, dval_app. reflexivity.
Qed.

(* lex on a well-formed literal: the token carries the literal's sign, the value of all its digits, the number of
   fractional digits and the signed value of the exponent digits *)
Theorem lex_literal l s di df es : wf_literal l s di df es ->
  lex l = TNum s (dval 0 (di ++ df)) (len df) (exp_val es).
Proof.
  intros (sp & fp & ep & -> & Hsp & Hfp & Hep & Hdi & Hdf & Hne).
  destruct es as [[sg eds]|]; cbn [exp_part] in Hep.
  - destruct Hep as (e & spe & He & Hspe & Hn & Heds & ->).
    rewrite (lex_mantissa sp s di fp df) ; try assumption.
    + unfold exp_tok, exp_val.
      assert (He' : (e =? 101) || (e =? 69) = true) by (destruct He as [-> | ->]; reflexivity).
      rewrite He'.
      destruct eds as [|d0 eds']; [now elim Hn|]. inversion Heds as [|? ? Hd0 Heds']; subst.
      assert (Hd : d0 <> 43 /\ d0 <> 45) by (apply is_digit_iff in Hd0; lia).
      rewrite (split_sign_prefix_plain spe sg d0 eds' Hspe) by tauto.
      replace (d0 :: eds') with ((d0 :: eds') ++ []) at 1 by apply app_nil_r.
      rewrite (read_digits_app (d0 :: eds') [] 0 0 Heds I).
      rewrite len_cons. pose proof (len_nonneg eds').
      destruct (0 + (len eds' + 1) =? 0) eqn:E0; [apply Z.eqb_eq in E0; lia|]. reflexivity.
    + cbn. apply is_digit_false_iff. destruct He as [-> | ->]; lia.
    + intros _. destruct He as [-> | ->]; lia.
  - subst ep. rewrite (lex_mantissa sp s di fp df []); try assumption; try exact I. reflexivity. intros _; exact I.
Qed.

(* ================================================================================================ *)
(* 4. the exact path of [rp] / [parse_num], by computation on integers (axiom-free)                  *)
(* ================================================================================================ *)

Lemma truncate_id m e l : fexp (Zdigits radix10 m + e) <= e -> truncate radix10 fexp (m, e, l) = (m, e, l).
Proof.
  intros H. unfold truncate. destruct (Zlt_bool 0 (fexp (Zdigits radix10 m + e) - e)) eqn:E; [|reflexivity].
  apply Z.ltb_lt in E. lia.
Qed.

Lemma strip_pow fuel : forall (k : nat) c q, (k <= fuel)%nat -> q <= qmax ->
  strip fuel (c * 10 ^ Z.of_nat k) (q - Z.of_nat k) q = (c, q).
Proof.
  induction fuel as [|f IH]; intros k c q Hk Hq.
  - assert (k = 0%nat) by lia. subst k. cbn [strip]. change (Z.of_nat 0) with 0. rewrite Z.pow_0_r, Z.mul_1_r, Z.sub_0_r. reflexivity.
  - cbn [strip]. destruct k as [|k'].
    + change (Z.of_nat 0) with 0. rewrite Z.pow_0_r, Z.mul_1_r, Z.sub_0_r, Z.ltb_irrefl. reflexivity.
    + rewrite Nat2Z.inj_succ.
      assert (E1 : q - Z.succ (Z.of_nat k') <? q = true) by (apply Z.ltb_lt; lia).
      assert (E2 : (c * 10 ^ Z.succ (Z.of_nat k')) mod 10 =? 0 = true).
      { apply Z.eqb_eq. apply mod10_of_mul. lia. }
      assert (E3 : q - Z.succ (Z.of_nat k') <? qmax = true) by (apply Z.ltb_lt; lia).
      rewrite E1, E2, E3. cbn [andb].
      replace (c * 10 ^ Z.succ (Z.of_nat k') / 10) with (c * 10 ^ Z.of_nat k').
      2:{ rewrite Z.pow_succ_r by lia. replace (c * (10 * 10 ^ Z.of_nat k')) with (c * 10 ^ Z.of_nat k' * 10) by ring.
          rewrite Z.div_mul by lia. reflexivity. }
      replace (q - Z.succ (Z.of_nat k') + 1) with (q - Z.of_nat k') by lia.
      apply IH; [lia|exact Hq].
Qed.

Lemma fexp_val e : fexp e = Z.max (e - 34) (-6176).
Proof. reflexivity. Qed.

Definition ce_lt (a b : Z) := a <? b.
(* a representable pair is returned verbatim, under every mode, without any flag *)
Lemma rp_exact_repr_pos md s c q zs : 0 < c < 10 ^ 34 -> qmin <= q <= qmax ->
  rp md s c q loc_Exact q zs = (Fin s c q, mkfl false false false).
Proof.
  intros Hc Hq. unfold qmin in Hq.
  pose proof (Zdigits_gt_0 radix10 c ltac:(lia)) as D1.
  assert (D2 : Zdigits radix10 c <= 34).
  { apply Zdigits_le_Zpower. rewrite Z.abs_eq by lia. rewrite Zpower10. lia. }
  pose proof (Zdigits_correct radix10 c) as D3. rewrite Z.abs_eq in D3 by lia. change (10 ^ (Zdigits radix10 c - 1) <= c < 10 ^ Zdigits radix10 c) in D3.
  unfold rp, shortcut.
  replace (Zdigits radix10 c + q <=? -6177) with false by (symmetry; apply Z.leb_gt; lia). cbn [andb].
  unfold round_pack.
  replace (c =? 0) with false by (symmetry; apply Z.eqb_neq; lia). cbn [andb is_exact].
  set (d := Zdigits radix10 c) in *.
  (* the operand handed to truncate is c * 10^k at exponent q - k, still below 10^34 and already at or above its cexp *)
  assert (Ht : exists k : nat, (k <= 34)%nat /\
     (if ce_lt (fexp (d + q)) q then (c * 10 ^ (q - fexp (d + q)), fexp (d + q), loc_Exact) else (c, q, loc_Exact))
       = (c * 10 ^ Z.of_nat k, q - Z.of_nat k, loc_Exact) /\ d + Z.of_nat k <= 34 /\ fexp (d + q) <= q - Z.of_nat k).
  { rewrite fexp_val. unfold ce_lt. destruct (Z.max (d + q - 34) (-6176) <? q) eqn:E.
    - apply Z.ltb_lt in E. exists (Z.to_nat (q - Z.max (d + q - 34) (-6176))).
      rewrite Z2Nat.id by lia. split; [lia|]. split; [f_equal; f_equal; lia|]. lia.
    - apply Z.ltb_ge in E. exists 0%nat. change (Z.of_nat 0) with 0. rewrite Z.pow_0_r, Z.mul_1_r, Z.sub_0_r.
      split; [lia|]. split; [reflexivity|]. lia. }
  unfold ce_lt in Ht. destruct Ht as (k & Hk & -> & Hdk & Hfe).
  assert (Hck : 0 < c * 10 ^ Z.of_nat k < 10 ^ 34).
  { assert (0 < 10 ^ Z.of_nat k) by (apply Z.pow_pos_nonneg; lia). split; [nia|].
    apply Z.lt_le_trans with (10 ^ d * 10 ^ Z.of_nat k).
    - apply Z.mul_lt_mono_pos_r; lia.
    - rewrite <- Z.pow_add_r by lia. apply Z.pow_le_mono_r; lia. }
  assert (Hdig : Zdigits radix10 (c * 10 ^ Z.of_nat k) = d + Z.of_nat k).
  { rewrite <- Zpower10. apply Zdigits_mult_Zpower; lia. }
  rewrite truncate_id.
  2:{ rewrite Hdig. replace (d + Z.of_nat k + (q - Z.of_nat k)) with (d + q) by ring. exact Hfe. }
  rewrite choice_exact.
  replace (c * 10 ^ Z.of_nat k =? 10 ^ 34) with false by (symmetry; apply Z.eqb_neq; lia).
  cbn [is_exact negb andb].
  replace (q - Z.of_nat k >? qmax) with false.
  2:{ symmetry. rewrite Z.gtb_ltb. apply Z.ltb_ge. lia. }
  rewrite (strip_pow 40 k c q) by (unfold qmax in *; lia). reflexivity.
Qed.

Lemma rp_exact_zero md s e pref zs :
  rp md s 0 e loc_Exact pref zs = (Fin zs 0 (clampq pref), mkfl false false false).
Proof.
  unfold rp, shortcut. cbn [Z.eqb is_exact andb negb]. rewrite andb_false_r. unfold round_pack. reflexivity.
Qed.

Lemma clampq_id q : qmin <= q <= qmax -> clampq q = q.
Proof. unfold clampq. lia. Qed.

Lemma rp_exact_repr md s c q : 0 <= c < 10 ^ 34 -> qmin <= q <= qmax ->
  rp md s c q loc_Exact q s = (Fin s c q, mkfl false false false).
Proof.
  intros Hc Hq. destruct (Z.eq_dec c 0) as [->|Hn].
  - rewrite rp_exact_zero, clampq_id by exact Hq. reflexivity.
  - apply rp_exact_repr_pos; [lia|exact Hq].
Qed.

(* ================================================================================================ *)
(* 5. parsing a well-formed literal: the token is handed to [parse_num]; exact cases                 *)
(* ================================================================================================ *)

Theorem m_parse_literal md l s di df es : wf_literal l s di df es ->
  m_parse md l = SList (fin_out (parse_num md s (dval 0 (di ++ df)) (len df) (exp_val es))).
Proof. intros H. unfold m_parse. rewrite (lex_literal _ _ _ _ _ H). reflexivity. Qed.

Lemma wf_literal_digits_nonneg l s di df es : wf_literal l s di df es -> 0 <= dval 0 (di ++ df).
Proof.
  intros (sp & fp & ep & _ & _ & _ & _ & Hdi & Hdf & _). apply dval_nonneg; [|lia].
  apply all_digits_app. split; assumption.
Qed.

(* at most 34 significant digits and an exponent in range: the literal's coefficient and exponent verbatim,
   under every rounding mode, no flag *)
Theorem parse_keeps_exponent md l s di df es : wf_literal l s di df es ->
  dval 0 (di ++ df) < 10 ^ 34 -> -6176 <= exp_val es - len df <= 6111 ->
  m_parse md l = SList [([encode (Fin s (dval 0 (di ++ df)) (exp_val es - len df))], 0)].
Proof.
  intros H HD Hq. rewrite (m_parse_literal md l s di df es H). unfold parse_num.
  rewrite rp_exact_repr; [reflexivity| |unfold qmin, qmax; exact Hq].
  split; [exact (wf_literal_digits_nonneg _ _ _ _ _ H)|exact HD].
Qed.

(* a zero literal: the exponent is clamped into the format's range, no flag, whatever the exponent was *)
Theorem parse_zero_clamped md l s di df es : wf_literal l s di df es ->
  dval 0 (di ++ df) = 0 ->
  m_parse md l = SList [([encode (Fin s 0 (clampq (exp_val es - len df)))], 0)].
Proof.
  intros H HD. rewrite (m_parse_literal md l s di df es H). unfold parse_num. rewrite HD, rp_exact_zero. reflexivity.
Qed.

(* leading blanks and tabs are skipped (deliberate upstream behaviour, DESIGN 10/C04 (e)) *)
Definition is_ws (b : Z) : Prop := b = 32 \/ b = 9.
Lemma skip_ws_app ws l : Forall is_ws ws -> skip_ws (ws ++ l) = skip_ws l.
Proof.
  induction ws as [|b ws IH]; intros H; [reflexivity|]. inversion H as [|? ? Hb Hws]; subst.
  cbn [app skip_ws]. destruct Hb as [-> | ->]; cbn [Z.eqb Pos.eqb orb]; apply IH; exact Hws.
Qed.
Theorem lex_skip_ws ws l : Forall is_ws ws -> lex (ws ++ l) = lex l.
Proof. intros H. rewrite !lex_unfold, skip_ws_app by exact H. reflexivity. Qed.

(* ================================================================================================ *)
(* 6. the special spellings                                                                          *)
(* ================================================================================================ *)

Theorem eqi_iff l : forall pat, eqi l pat = true <-> map lower l = pat.
Proof.
  induction l as [|b l IH]; intros [|p pat]; cbn [eqi map]; try (split; [discriminate|discriminate]).
  - split; reflexivity.
  - rewrite andb_true_iff, Z.eqb_eq, IH. split; [intros [-> ->]; reflexivity|intros E; injection E; auto].
Qed.

(* case-insensitivity: a byte is mapped to the lower-case letter p exactly when it is p or its capital *)
Theorem lower_letter b p : 97 <= p <= 122 -> (lower b = p <-> b = p \/ b = p - 32).
Proof.
  intros Hp. unfold lower. destruct ((65 <=? b) && (b <=? 90)) eqn:E.
  - apply andb_prop in E. destruct E as [E1 E2]. apply Z.leb_le in E1, E2. lia.
  - apply andb_false_iff in E. destruct E as [E|E]; apply Z.leb_gt in E; lia.
Qed.

Lemma eqi_false l pat pat' : map lower l = pat' -> pat' <> pat -> eqi l pat = false.
Proof.
  intros E N. destruct (eqi l pat) eqn:H; [|reflexivity]. apply eqi_iff in H. congruence.
Qed.

Lemma lower_ge b : 97 <= lower b -> 65 <= b.
Proof. unfold lower. destruct ((65 <=? b) && (b <=? 90)) eqn:E; [apply andb_prop in E; destruct E as [E _]; apply Z.leb_le in E|]; lia. Qed.

Lemma lex_signed sp s b r : sign_prefix sp s -> 65 <= b -> lex (sp ++ b :: r) = lex_body s (b :: r).
Proof. intros Hsp Hb. rewrite lex_unfold, (split_sign_prefix sp s b r Hsp) by lia. reflexivity. Qed.

Theorem lex_special sp s r : sign_prefix sp s ->
  (map lower r = s_inf \/ map lower r = s_infinity -> lex (sp ++ r) = TSpecial (Inf s)) /\
  (map lower r = s_nan -> lex (sp ++ r) = TSpecial (NaN s false 0)) /\
  (map lower r = s_snan -> lex (sp ++ r) = TSpecial (NaN s true 0)).
Proof.
  intros Hsp.
  assert (Hhd : forall pat p pat', pat = p :: pat' -> 97 <= p -> map lower r = pat -> exists b r', r = b :: r' /\ 65 <= b).
  { intros pat p pat' -> Hp E. destruct r as [|b r']; [discriminate|]. cbn [map] in E. injection E as E1 _.
    exists b, r'. split; [reflexivity|]. apply lower_ge. lia. }
  split; [|split].
  - intros H.
    assert (exists b r', r = b :: r' /\ 65 <= b) as (b & r' & -> & Hb).
    { destruct H as [H|H]; [apply (Hhd s_inf 105 [110; 102])|apply (Hhd s_infinity 105 [110; 102; 105; 110; 105; 116; 121])]; try reflexivity; try lia; exact H. }
    rewrite (lex_signed sp s) by assumption. unfold lex_body.
    assert (E : eqi (b :: r') s_inf || eqi (b :: r') s_infinity = true).
    { apply orb_true_iff. destruct H as [H|H]; [left|right]; apply eqi_iff; exact H. }
    rewrite E. reflexivity.
  - intros H. destruct (Hhd s_nan 110 [97; 110] eq_refl ltac:(lia) H) as (b & r' & -> & Hb).
    rewrite (lex_signed sp s) by assumption. unfold lex_body.
    rewrite (eqi_false _ s_inf _ H), (eqi_false _ s_infinity _ H) by discriminate.
    apply eqi_iff in H. rewrite H. reflexivity.
  - intros H. destruct (Hhd s_snan 115 [110; 97; 110] eq_refl ltac:(lia) H) as (b & r' & -> & Hb).
    rewrite (lex_signed sp s) by assumption. unfold lex_body.
    rewrite (eqi_false _ s_inf _ H), (eqi_false _ s_infinity _ H), (eqi_false _ s_nan _ H) by discriminate.
    apply eqi_iff in H. rewrite H. reflexivity.
Qed.

Definition special_of (s : bool) (r : list Z) (d : dec) : Prop :=
  ((map lower r = s_inf \/ map lower r = s_infinity) /\ d = Inf s) \/
  (map lower r = s_nan /\ d = NaN s false 0) \/
  (map lower r = s_snan /\ d = NaN s true 0).

(* inf / infinity / nan / snan in any letter case, optional sign: the corresponding datum, no flag, under every mode *)
Theorem parse_special md sp s r d : sign_prefix sp s -> special_of s r d ->
  lex (sp ++ r) = TSpecial d /\ m_parse md (sp ++ r) = SList [([encode d], 0)].
Proof.
  intros Hsp H. destruct (lex_special sp s r Hsp) as (A & B & C).
  assert (E : lex (sp ++ r) = TSpecial d).
  { destruct H as [[H ->]|[[H ->]|[H ->]]]; auto. }
  split; [exact E|]. unfold m_parse. rewrite E. reflexivity.
Qed.

(* the case variants, spelled out: r is a special spelling iff it has the right length and each byte is the
   pattern's letter in lower or upper case *)
Theorem map_lower_letters r pat : Forall (fun p => 97 <= p <= 122) pat ->
  (map lower r = pat <-> Forall2 (fun b p => b = p \/ b = p - 32) r pat).
Proof.
  revert pat. induction r as [|b r IH]; intros [|p pat] Hp; cbn [map].
  - split; [constructor|reflexivity].
  - split; [discriminate|intros H; inversion H].
  - split; [discriminate|intros H; inversion H].
  - inversion Hp as [|? ? Hp1 Hp2]; subst. split.
    + intros E. injection E as E1 E2. constructor; [apply lower_letter; assumption|apply IH; assumption].
    + intros H. inversion H as [|? ? ? ? H1 H2]; subst. f_equal; [apply lower_letter; assumption|apply IH; assumption].
Qed.

(* ================================================================================================ *)
(* 7. ill-formed input                                                                               *)
(* ================================================================================================ *)

(* totality: [lex] and [m_parse] are Coq functions, hence defined (terminating, no exceptional outcome) on every
   byte string; the model has no "panic" outcome at all *)
Theorem lex_total l : exists t, lex l = t.
Proof. eexists; reflexivity. Qed.

Definition is_special (r : list Z) : bool :=
  eqi r s_inf || eqi r s_infinity || eqi r s_nan || eqi r s_snan || prefix_eqi r s_snan.
(* the unsigned part starts with a digit, or with '.' followed by a digit *)
Definition starts_numeric (r : list Z) : bool :=
  match r with
  | b :: r' => is_digit b || ((b =? 46) && match r' with b' :: _ => is_digit b' | [] => false end)
  | [] => false
  end.

(* (a) after blanks and an optional sign: not a special spelling, not snan-prefixed, no digit where the number
   should start (this covers the empty string, letters, multi-byte text, a lone sign, a lone point) *)
Theorem lex_garbage_start l :
  let '(s, r) := split_sign (skip_ws l) in
  is_special r = false -> starts_numeric r = false -> lex l = TGarbage.
Proof.
  rewrite lex_unfold. destruct (split_sign (skip_ws l)) as [s r]. intros Hs Hn.
  unfold is_special in Hs. repeat (apply orb_false_iff in Hs; destruct Hs as [Hs ?]).
  unfold lex_body. rewrite Hs. cbn [orb].
  repeat match goal with H : _ = false |- _ => rewrite H; clear H end.
  destruct r as [|b r']; [reflexivity|].
  cbn [starts_numeric] in *.
  match goal with H : _ || _ = false |- _ => apply orb_false_iff in H; destruct H as [Hb Hp] end.
  cbn [read_digits]. rewrite Hb. destruct (b =? 46) eqn:E; [|reflexivity].
  cbn [andb] in Hp. destruct r' as [|b' r'']; [reflexivity|]. cbn [read_digits]. rewrite Hp. reflexivity.
Qed.

(* (b) dangling exponent: a mantissa, 'e' or 'E', an optional sign and then no digit ("1E", "1E+", "1E+x") *)
Theorem lex_garbage_dangling_exp sp s di fp df e r3 :
  sign_prefix sp s -> frac_part fp df -> all_digits di -> all_digits df -> di ++ df <> [] ->
  e = 101 \/ e = 69 ->
  no_digit_head (snd (split_sign r3)) ->
  lex (sp ++ di ++ fp ++ e :: r3) = TGarbage.
Proof.
  intros Hsp Hfp Hdi Hdf Hne He Hr.
  rewrite (lex_mantissa sp s di fp df); try assumption.
  - unfold exp_tok. replace ((e =? 101) || (e =? 69)) with true by (destruct He as [-> | ->]; reflexivity).
    destruct (split_sign r3) as [es r4]. cbn [snd] in Hr.
    replace r4 with ([] ++ r4) by reflexivity. rewrite (read_digits_app [] r4 0 0); [reflexivity|constructor|exact Hr].
  - cbn. apply is_digit_false_iff. destruct He as [-> | ->]; lia.
  - intros _. destruct He as [-> | ->]; lia.
Qed.

(* (c) a mantissa followed by a byte that is neither a digit nor 'e'/'E' (nor the first '.'): a letter, a second
   point, a sign, a blank, a byte >= 128 ... *)
Theorem lex_garbage_after_digits sp s di fp df b rest :
  sign_prefix sp s -> frac_part fp df -> all_digits di -> all_digits df -> di ++ df <> [] ->
  is_digit b = false -> b <> 101 -> b <> 69 -> (fp = [] -> b <> 46) ->
  lex (sp ++ di ++ fp ++ b :: rest) = TGarbage.
Proof.
  intros Hsp Hfp Hdi Hdf Hne Hb H1 H2 Hpt.
  rewrite (lex_mantissa sp s di fp df); try assumption.
  unfold exp_tok. apply Z.eqb_neq in H1, H2. rewrite H1, H2. reflexivity.
Qed.

(* (d) a complete literal with exponent followed by further characters (known finding KF_EXPJUNK) *)
Theorem lex_expjunk l s di df sg eds rest : wf_literal l s di df (Some (sg, eds)) ->
  rest <> [] -> no_digit_head rest ->
  lex (l ++ rest) = TExpJunk s (dval 0 (di ++ df)) (len df) (exp_val (Some (sg, eds))).
Proof.
  intros (sp & fp & ep & -> & Hsp & Hfp & Hep & Hdi & Hdf & Hne) Hrest Hnd.
  cbn [exp_part] in Hep. destruct Hep as (e & spe & He & Hspe & Hn & Heds & ->).
  rewrite <- !app_assoc. cbn [app]. rewrite <- !app_assoc.
  rewrite (lex_mantissa sp s di fp df); try assumption.
  - unfold exp_tok, exp_val.
    replace ((e =? 101) || (e =? 69)) with true by (destruct He as [-> | ->]; reflexivity).
    destruct eds as [|d0 eds']; [now elim Hn|]. inversion Heds as [|? ? Hd0 Heds']; subst.
    assert (Hd : d0 <> 43 /\ d0 <> 45) by (apply is_digit_iff in Hd0; lia).
    cbn [app]. rewrite (split_sign_prefix_plain spe sg d0 (eds' ++ rest) Hspe) by tauto.
    change (d0 :: eds' ++ rest) with ((d0 :: eds') ++ rest).
    rewrite (read_digits_app (d0 :: eds') rest 0 0 Heds Hnd).
    rewrite len_cons. pose proof (len_nonneg eds').
    destruct (0 + (len eds' + 1) =? 0) eqn:E0; [apply Z.eqb_eq in E0; lia|].
    destruct rest; [now elim Hrest|]. reflexivity.
  - cbn. apply is_digit_false_iff. destruct He as [-> | ->]; lia.
  - intros _. destruct He as [-> | ->]; lia.
Qed.

(* what the judge accepts for garbage: exactly one output, the default quiet NaN of either sign, no new flag *)
Theorem parse_garbage_expected md l : lex l = TGarbage ->
  m_parse md l = SGarbage /\
  expected OParse md l = Pred is_default_qnan [0] /\
  expected OFromStr2 md l = Pred is_default_qnan [0] /\
  expected OFromStr md l = Pred (fun outs => match outs with [1; r] => is_default_qnan [r] | _ => false end) [0].
Proof.
  intros H. assert (E : forall m, m_parse m l = SGarbage) by (intros m; unfold m_parse; rewrite H; reflexivity).
  split; [apply E|]. unfold expected. rewrite !E. repeat split; reflexivity.
Qed.

Theorem judge_default_qnan fin outs fout :
  judge (Pred is_default_qnan [0]) fin outs fout = 1 <->
  exists r, outs = [r] /\ (r = encode QNAN \/ r = encode (NaN true false 0)) /\ fout = fin.
Proof.
  cbn [judge existsb]. rewrite Z.lor_0_r, orb_false_r. unfold b2z.
  destruct (is_default_qnan outs && (fin =? fout)) eqn:E.
  - split; [intros _|reflexivity]. apply andb_prop in E. destruct E as [E1 E2]. apply Z.eqb_eq in E2.
    destruct outs as [|r [|r' outs']]; try discriminate. cbn [is_default_qnan] in E1.
    exists r. split; [reflexivity|]. split; [|symmetry; exact E2].
    apply orb_true_iff in E1. destruct E1 as [E1|E1]; apply Z.eqb_eq in E1; auto.
  - split; [discriminate|]. intros (r & -> & Hr & ->). exfalso.
    apply andb_false_iff in E. destruct E as [E|E]; [|rewrite Z.eqb_refl in E; discriminate].
    cbn [is_default_qnan] in E. apply orb_false_iff in E. destruct E as [E1 E2]. apply Z.eqb_neq in E1, E2. tauto.
Qed.

(* ================================================================================================ *)
(* 8. FromStr: Ok iff nothing but inexact was raised                                                 *)
(* ================================================================================================ *)

Theorem fromstr_of_single r fl :
  ((fl = 0 \/ fl = F_INX) -> fromstr_of [([r], fl)] = [([1; r], 0)]) /\
  (~ (fl = 0 \/ fl = F_INX) -> fromstr_of [([r], fl)] = [([0; fl], 0)]).
Proof.
  cbn [fromstr_of map]. split.
  - intros [-> | ->]; reflexivity.
  - intros H. destruct ((fl =? 0) || (fl =? F_INX)) eqn:E; [|reflexivity].
    exfalso. apply H. apply orb_true_iff in E. destruct E as [E|E]; apply Z.eqb_eq in E; auto.
Qed.

Lemma flbits_only_inexact f : (flbits f = 0 \/ flbits f = F_INX) <-> (f_underflow f = false /\ f_overflow f = false).
Proof. destruct f as [[] [] []]; unfold flbits, F_INX, F_UNF, F_OVF; cbn [f_inexact f_underflow f_overflow]; intuition (try discriminate; try lia). Qed.

(* Ok(value) (first output 1) iff no flag other than inexact was raised by the conversion; otherwise Err (first output 0)
   carrying the raised flags *)
Theorem fromstr_err_iff r f :
  fromstr_of [([r], flbits f)] = (if f_underflow f || f_overflow f then [([0; flbits f], 0)] else [([1; r], 0)]).
Proof.
  destruct (fromstr_of_single r (flbits f)) as [A B].
  destruct (f_underflow f || f_overflow f) eqn:E.
  - apply B. rewrite flbits_only_inexact. intros [E1 E2]. rewrite E1, E2 in E. discriminate.
  - apply A. rewrite flbits_only_inexact. apply orb_false_iff. exact E.
Qed.

Theorem fromstr_literal_expected md l s di df es : wf_literal l s di df es ->
  let r := parse_num RNE s (dval 0 (di ++ df)) (len df) (exp_val es) in
  expected OFromStr md l =
    Exact (if f_underflow (snd r) || f_overflow (snd r) then [([0; flbits (snd r)], 0)] else [([1; encode (fst r)], 0)]).
Proof.
  intros H r. unfold expected. rewrite (m_parse_literal RNE l s di df es H). fold r. unfold fin_out, out1.
  rewrite fromstr_err_iff. reflexivity.
Qed.

(* ================================================================================================ *)
(* 9. formatting                                                                                     *)
(* ================================================================================================ *)

(* ds is the decimal digit string of n: digit bytes only, at least one, value n, no leading zero except "0" itself *)
Definition canon_digits (ds : list Z) (n : Z) : Prop :=
  all_digits ds /\ ds <> [] /\ dval 0 ds = n /\ (hd 48 ds = 48 -> ds = [48]).

Lemma digits_of_spec f : forall n acc, 0 <= n < 10 ^ Z.of_nat (S f) ->
  exists ds, digits_of (S f) n acc = ds ++ acc /\ canon_digits ds n.
Proof.
  induction f as [|f IH]; intros n acc Hn.
  - change (Z.of_nat 1) with 1 in Hn. rewrite Z.pow_1_r in Hn. cbn [digits_of].
    replace (n <? 10) with true by (symmetry; apply Z.ltb_lt; lia).
    exists [48 + n]. split; [reflexivity|]. unfold canon_digits. split; [|split; [|split]].
    + constructor; [apply is_digit_iff; lia|constructor].
    + discriminate.
    + unfold dval. cbn [fold_left]. lia.
    + cbn [hd]. intros E. f_equal. exact E.
  - remember (S f) as f1 eqn:Ef. cbn [digits_of]. destruct (n <? 10) eqn:E10.
    + apply Z.ltb_lt in E10. exists [48 + n]. split; [reflexivity|]. unfold canon_digits. split; [|split; [|split]].
      * constructor; [apply is_digit_iff; lia|constructor].
      * discriminate.
      * unfold dval. cbn [fold_left]. lia.
      * cbn [hd]. intros E. f_equal. exact E.
    + apply Z.ltb_ge in E10.
      assert (Hn' : 0 <= n / 10 < 10 ^ Z.of_nat f1).
      { rewrite Nat2Z.inj_succ, Z.pow_succ_r in Hn by lia. split; [apply Z.div_pos; lia|].
        apply Z.div_lt_upper_bound; lia. }
      destruct (IH (n / 10) ((48 + n mod 10) :: acc) Hn') as (ds & E & Hall & Hnn & Hv & Hz).
      exists (ds ++ [48 + n mod 10]). split; [rewrite E, <- app_assoc; reflexivity|].
      pose proof (Z.mod_pos_bound n 10 ltac:(lia)) as Hm.
      pose proof (Z.div_mod n 10 ltac:(lia)) as Hdm.
      unfold canon_digits. split; [|split; [|split]].
      * apply all_digits_app. split; [exact Hall|]. constructor; [apply is_digit_iff; lia|constructor].
      * destruct ds; discriminate.
      * rewrite dval_app, Hv, dval_cons, dval_nil. lia.
      * destruct ds as [|b ds']; [now elim Hnn|]. cbn [app hd] in *. intros Eb.
        specialize (Hz Eb). injection Hz as Hb0 Hds0. subst b ds'. unfold dval in Hv. cbn [fold_left] in Hv.
        assert (1 <= n / 10) by (apply Z.div_le_lower_bound; lia). lia.
Qed.

Theorem dec_digits_canon n : 0 <= n < 10 ^ 60 -> canon_digits (dec_digits n) n.
Proof.
  intros Hn. destruct (digits_of_spec 59 n [] Hn) as (ds & E & H).
  unfold dec_digits. rewrite E, app_nil_r. exact H.
Qed.

(* reading back the digits of n: the value n and exactly that many characters consumed *)
Theorem read_dec_digits n rest : 0 <= n < 10 ^ 60 -> no_digit_head rest ->
  read_digits (dec_digits n ++ rest) 0 0 = (n, len (dec_digits n), rest).
Proof.
  intros Hn Hr. destruct (dec_digits_canon n Hn) as (Ha & _ & Hv & _).
  rewrite (read_digits_app _ rest 0 0 Ha Hr), Hv. reflexivity.
Qed.

Lemma sign_prefix_char s : sign_prefix [sign_char s] s.
Proof. destruct s; unfold sign_prefix, sign_char; auto. Qed.

Definition exp_char (upper : bool) : Z := if upper then 69 else 101.

(* the shape of the text of a finite datum *)
Theorem format_shape upper s c q : 0 <= c < 10 ^ 60 -> Z.abs q < 10 ^ 60 ->
  m_format upper (Fin s c q) =
    [sign_char s] ++ dec_digits c ++ [exp_char upper] ++ [sign_char (q <? 0)] ++ dec_digits (Z.abs q) /\
  canon_digits (dec_digits c) c /\ canon_digits (dec_digits (Z.abs q)) (Z.abs q).
Proof.
  intros Hc Hq. split; [reflexivity|]. split; apply dec_digits_canon; lia.
Qed.

Theorem format_wf_literal upper s c q : 0 <= c < 10 ^ 60 -> Z.abs q < 10 ^ 60 ->
  wf_literal (m_format upper (Fin s c q)) s (dec_digits c) [] (Some (q <? 0, dec_digits (Z.abs q))).
Proof.
  intros Hc Hq.
  destruct (dec_digits_canon c Hc) as (Hca & Hcn & _ & _).
  destruct (dec_digits_canon (Z.abs q) ltac:(lia)) as (Hqa & Hqn & _ & _).
  exists [sign_char s], [], ([exp_char upper] ++ [sign_char (q <? 0)] ++ dec_digits (Z.abs q)).
  split; [reflexivity|]. split; [apply sign_prefix_char|]. split; [left; split; reflexivity|].
  split.
  - cbn [exp_part]. exists (exp_char upper), [sign_char (q <? 0)].
    split; [unfold exp_char; destruct upper; auto|]. split; [apply sign_prefix_char|].
    split; [exact Hqn|]. split; [exact Hqa|reflexivity].
  - split; [exact Hca|]. split; [constructor|]. rewrite app_nil_r. exact Hcn.
Qed.

(* the text denotes exactly the value and the quantum: sign s, coefficient c, no fractional digits, exponent q *)
Theorem format_denotes upper s c q : 0 <= c < 10 ^ 60 -> Z.abs q < 10 ^ 60 ->
  lex (m_format upper (Fin s c q)) = TNum s c 0 q.
Proof.
  intros Hc Hq. rewrite (lex_literal _ _ _ _ _ (format_wf_literal upper s c q Hc Hq)).
  destruct (dec_digits_canon c Hc) as (_ & _ & Hcv & _).
  destruct (dec_digits_canon (Z.abs q) ltac:(lia)) as (_ & _ & Hqv & _).
  rewrite app_nil_r, Hcv. cbn [exp_val]. rewrite Hqv. change (len []) with 0.
  f_equal. destruct (q <? 0) eqn:E; [apply Z.ltb_lt in E|apply Z.ltb_ge in E]; lia.
Qed.

Lemma wf_fin_bounds s c q : wf (Fin s c q) -> 0 <= c < 10 ^ 34 /\ -6176 <= q <= 6111.
Proof. cbn [wf]. rewrite T34_eq. tauto. Qed.

Theorem format_denotes_wf upper s c q : wf (Fin s c q) -> lex (m_format upper (Fin s c q)) = TNum s c 0 q.
Proof. intros H. apply wf_fin_bounds in H. apply format_denotes; lia. Qed.

(* parse (format d) = d, bit for bit, under every rounding mode, no flag; both letter cases of the exponent mark *)
Theorem parse_format_roundtrip md upper s c q : wf (Fin s c q) ->
  m_parse md (m_format upper (Fin s c q)) = SList [([encode (Fin s c q)], 0)].
Proof.
  intros H. unfold m_parse. rewrite (format_denotes_wf upper s c q H). apply wf_fin_bounds in H.
  unfold parse_num. rewrite Z.sub_0_r. rewrite rp_exact_repr; [reflexivity|tauto|unfold qmin, qmax; tauto].
Qed.

(* infinities and NaNs *)
Theorem format_inf upper s : m_format upper (Inf s) = sign_char s :: [73; 110; 102] /\
  forall md, m_parse md (m_format upper (Inf s)) = SList [([encode (Inf s)], 0)].
Proof. split; [reflexivity|]. intros md. destruct s; reflexivity. Qed.

(* the payload is not printed: every NaN s sg p gives the same text and parses back to NaN s sg 0 (same sign, same
   signaling-ness); the bits are identical exactly when the payload was 0 *)
Theorem format_nan upper s sg p :
  m_format upper (NaN s sg p) = sign_char s :: (if sg then [83; 78; 97; 78] else [78; 97; 78]) /\
  forall md, m_parse md (m_format upper (NaN s sg p)) = SList [([encode (NaN s sg 0)], 0)].
Proof. split; [reflexivity|]. intros md. destruct s, sg; reflexivity. Qed.

Theorem format_nan_roundtrip_iff s sg p : encode (NaN s sg 0) = encode (NaN s sg p) <-> p = 0.
Proof. cbn [encode]. lia. Qed.

(* upper and lower case differ only in the exponent mark *)
Theorem format_case d :
  match d with
  | Fin s c q => exists pre post, m_format true d = pre ++ 69 :: post /\ m_format false d = pre ++ 101 :: post /\
                                  pre = sign_char s :: dec_digits c
  | _ => m_format true d = m_format false d
  end.
Proof.
  destruct d as [s c q|s|s sg p]; try reflexivity.
  exists (sign_char s :: dec_digits c), ([sign_char (q <? 0)] ++ dec_digits (Z.abs q)). repeat split.
Qed.

(* Display = Debug = UpperExp; LowerExp is the lower-case text; everything goes through [decode] *)
Theorem m_fmt_spec x :
  m_fmt x = [([str_num (m_format true (decode x)); str_num (m_format true (decode x));
               str_num (m_format false (decode x)); str_num (m_format true (decode x))], 0)].
Proof. reflexivity. Qed.

(* a non-canonical finite pattern denotes a zero and is printed as that zero *)
Theorem decode_noncanonical_zero x s c q : 0 <= x < P128 -> canonical_bits x = false -> decode x = Fin s c q -> c = 0.
Proof.
  intros Hx Hc Hd. unfold canonical_bits in Hc.
  replace (0 <=? x) with true in Hc by (symmetry; apply Z.leb_le; lia).
  replace (x <? P128) with true in Hc by (symmetry; apply Z.ltb_lt; lia). cbn [andb] in Hc.
  apply Z.eqb_neq in Hc. rewrite Hd in Hc.
  destruct (Z.eq_dec c 0) as [E|E]; [exact E|]. exfalso. apply Hc. clear Hc.
  unfold decode in Hd.
  destruct (_ =? 31) eqn:E31; [discriminate|]. destruct (_ =? 30) eqn:E30; [discriminate|].
  destruct (24 <=? _) eqn:E24; [injection Hd as _ Hc0 _; congruence|].
  destruct (_ <? T34) eqn:Ec; [|injection Hd as _ Hc0 _; congruence].
  injection Hd as Hs Hcc Hq. subst s c q. cbn [encode].
  apply Z.leb_gt in E24. unfold P113, P122, P127, P128 in *.
  destruct (_ <=? x) eqn:Es; [apply Z.leb_le in Es|apply Z.leb_gt in Es]; lia.
Qed.

Theorem format_noncanonical upper x s c q : 0 <= x < P128 -> canonical_bits x = false -> decode x = Fin s c q ->
  m_format upper (decode x) = [sign_char s; 48; exp_char upper; sign_char (q <? 0)] ++ dec_digits (Z.abs q).
Proof.
  intros Hx Hc Hd. rewrite Hd. rewrite (decode_noncanonical_zero x s c q Hx Hc Hd). reflexivity.
Qed.

(* ================================================================================================ *)
(* 10. parsing against the real-number specification                                                 *)
(* ================================================================================================ *)

(* the real number denoted by sign s, digits value D and exponent q *)
Lemma lit_value_eq s D q : D2R (Fin s D q) = ((if s then -1 else 1) * IZR D * bpow radix10 q)%R.
Proof. unfold D2R, F2R. cbn [Fnum Fexp]. destruct s; cbn [cond_Zopp]; [rewrite opp_IZR|]; ring. Qed.

(* any number of digits, any exponent, every mode: the single accepted outcome is the canonical encoding of the
   correctly rounded value of the literal (ieee_result: value, overflow result by mode, sign, preferred exponent = the
   literal's own exponent when exact, least exponent when inexact, inexact / underflow / overflow flags);
   a zero literal keeps the literal's sign *)
Theorem parse_correct md l s di df es : wf_literal l s di df es ->
  let D := dval 0 (di ++ df) in let q := exp_val es - len df in
  exists ol, m_parse md l = SList ol /\ finite_result md (D2R (Fin s D q)) q s ol.
Proof.
  intros H D q. eexists. split; [apply (m_parse_literal md l s di df es H)|].
  apply fin_out_result. unfold parse_num. fold D q.
  apply (rp_exact_sm md s D q q s). exact (wf_literal_digits_nonneg _ _ _ _ _ H).
Qed.

(* the inexact clause of ieee_result: inexact is raised iff the rounded value differs from the exact one (or the
   result overflowed, where IEEE 754 raises inexact together with overflow) *)
Lemma ieee_inexact_iff md x pref zs d fl : ieee_result md x pref zs d fl ->
  (f_inexact fl = true <-> (rounded md x <> x \/ (MAXV < Rabs (rounded md x))%R)) /\
  ((Rabs (rounded md x) <= MAXV)%R -> D2R d = rounded md x /\ f_overflow fl = false).
Proof.
  unfold ieee_result. destruct (Rlt_bool_spec MAXV (Rabs (rounded md x))) as [L|L].
  - intros [-> ->]. cbn [f_inexact]. split; [split; [intros _; right; exact L|reflexivity]|]. intros L'. lra.
  - intros (s & c & q & -> & _ & Hv & _ & _ & Ho & Hi & _). split.
    + rewrite Hi. split; [left; assumption|]. intros [N|N]; [exact N|lra].
    + intros _. split; assumption.
Qed.

Theorem parse_inexact_iff md l s di df es : wf_literal l s di df es ->
  let x := D2R (Fin s (dval 0 (di ++ df)) (exp_val es - len df)) in
  exists d fl, m_parse md l = SList [([encode d], flbits fl)] /\
    (f_inexact fl = true <-> (rounded md x <> x \/ (MAXV < Rabs (rounded md x))%R)) /\
    ((Rabs (rounded md x) <= MAXV)%R -> D2R d = rounded md x /\ f_overflow fl = false).
Proof.
  intros H x. destruct (parse_correct md l s di df es H) as (ol & E & d & fl & -> & Hr & _).
  exists d, fl. split; [exact E|]. exact (ieee_inexact_iff _ _ _ _ _ _ Hr).
Qed.

(* rounded = exact iff the literal's value is a decimal128 number ("no digit was lost") *)
Lemma rounded_eq_iff md x : rounded md x = x <-> generic_format radix10 fexp x.
Proof.
  unfold rounded. split.
  - intros E. rewrite <- E. apply generic_format_round; typeclasses eauto.
  - intros G. apply round_generic; [typeclasses eauto|exact G].
Qed.

(* ================================================================================================ *)
(* 11. soundness of [lex]: the converse of sections 3, 6, 7 - a complete classification of all byte strings *)
(* ================================================================================================ *)

Definition tok_sound (l : list Z) (t : tok) : Prop :=
  exists ws l1, l = ws ++ l1 /\ Forall is_ws ws /\
  match t with
  | TSpecial d => exists sp s r, l1 = sp ++ r /\ sign_prefix sp s /\ special_of s r d
  | TNum s D nf E => exists di df es, wf_literal l1 s di df es /\ D = dval 0 (di ++ df) /\ nf = len df /\ E = exp_val es
  | TSnanJunk s => exists sp r, l1 = sp ++ r /\ sign_prefix sp s /\ prefix_eqi r s_snan = true /\ eqi r s_snan = false
  | TExpJunk s D nf E => exists l2 rest di df sg eds, l1 = l2 ++ rest /\ rest <> [] /\ no_digit_head rest /\
        wf_literal l2 s di df (Some (sg, eds)) /\ D = dval 0 (di ++ df) /\ nf = len df /\ E = exp_val (Some (sg, eds))
  | TGarbage => True
  end.

Lemma skip_ws_split l : exists ws, l = ws ++ skip_ws l /\ Forall is_ws ws.
Proof.
  induction l as [|b r IH]; [exists []; split; [reflexivity|constructor]|].
  cbn [skip_ws]. destruct ((b =? 32) || (b =? 9)) eqn:E.
  - destruct IH as (ws & E1 & H). exists (b :: ws). split; [cbn [app]; f_equal; exact E1|].
    constructor; [|exact H]. apply orb_true_iff in E. destruct E as [E|E]; apply Z.eqb_eq in E; [left|right]; exact E.
  - exists []. split; [reflexivity|constructor].
Qed.

Lemma split_sign_split l s r : split_sign l = (s, r) -> exists sp, l = sp ++ r /\ sign_prefix sp s.
Proof.
  unfold split_sign. destruct l as [|b l'].
  - intros E. injection E as <- <-. exists []. split; [reflexivity|left; auto].
  - destruct (b =? 43) eqn:E1; [|destruct (b =? 45) eqn:E2]; intros E; injection E as <- <-.
    + apply Z.eqb_eq in E1. subst b. exists [43]. split; [reflexivity|right; left; auto].
    + apply Z.eqb_eq in E2. subst b. exists [45]. split; [reflexivity|right; right; auto].
    + exists []. split; [reflexivity|left; auto].
Qed.

Theorem lex_sound l : tok_sound l (lex l).
Proof.
  destruct (skip_ws_split l) as (ws & El & Hws).
  exists ws, (skip_ws l). split; [exact El|]. split; [exact Hws|].
  rewrite lex_unfold. destruct (split_sign (skip_ws l)) as [s r] eqn:Ess.
  destruct (split_sign_split _ _ _ Ess) as (sp & -> & Hsp). clear Ess El.
  unfold lex_body.
  destruct (eqi r s_inf || eqi r s_infinity) eqn:E1.
  { exists sp, s, r. split; [reflexivity|]. split; [exact Hsp|]. left. split; [|reflexivity].
    apply orb_true_iff in E1. destruct E1 as [E|E]; apply eqi_iff in E; auto. }
  destruct (eqi r s_nan) eqn:E2.
  { exists sp, s, r. split; [reflexivity|]. split; [exact Hsp|]. right; left. apply eqi_iff in E2. auto. }
  destruct (eqi r s_snan) eqn:E3.
  { exists sp, s, r. split; [reflexivity|]. split; [exact Hsp|]. right; right. apply eqi_iff in E3. auto. }
  destruct (prefix_eqi r s_snan) eqn:E4.
  { exists sp, r. auto. }
  destruct (read_digits_maximal r 0 0) as (di & r1 & -> & Hdi & Hr1 & ->).
  (* the optional point and fractional digits *)
  assert (Hf : exists fp df r2, r1 = fp ++ r2 /\ frac_part fp df /\ all_digits df /\ no_digit_head r2 /\
             (fp = [] -> match r2 with b :: _ => b <> 46 | [] => True end) /\
             match r1 with b :: r' => if b =? 46 then read_digits r' (dval 0 di) 0 else (dval 0 di, 0, r1) | [] => (dval 0 di, 0, r1) end
               = (dval 0 (di ++ df), len df, r2)).
  { destruct r1 as [|b r'].
    - exists [], [], []. rewrite !app_nil_r. split; [reflexivity|]. split; [left; auto|]. split; [constructor|].
      split; [exact I|]. split; [intros _; exact I|reflexivity].
    - destruct (b =? 46) eqn:Eb.
      + apply Z.eqb_eq in Eb. subst b.
        destruct (read_digits_maximal r' (dval 0 di) 0) as (df & r2 & -> & Hdf & Hr2 & ->).
        exists (46 :: df), df, r2. split; [reflexivity|]. split; [right; reflexivity|]. split; [exact Hdf|]. split; [exact Hr2|].
        split; [discriminate|]. rewrite dval_app, Z.add_0_l. reflexivity.
      + exists [], [], (b :: r'). rewrite !app_nil_r. split; [reflexivity|]. split; [left; auto|]. split; [constructor|].
        split; [exact Hr1|]. split; [intros _; apply Z.eqb_neq; exact Eb|reflexivity]. }
  destruct Hf as (fp & df & r2 & -> & Hfp & Hdf & Hr2 & Hpt & ->).
  destruct (0 + len di + len df =? 0) eqn:En; [exact I|].
  assert (Hne : di ++ df <> []).
  { intros E. apply app_eq_nil in E. destruct E as [-> ->]. discriminate. }
  destruct r2 as [|e r3].
  - exists di, df, None. split; [|auto]. exists sp, fp, []. repeat split; auto.
  - destruct ((e =? 101) || (e =? 69)) eqn:Ee; [|exact I].
    assert (He : e = 101 \/ e = 69) by (apply orb_true_iff in Ee; destruct Ee as [E|E]; apply Z.eqb_eq in E; auto).
    destruct (split_sign r3) as [es r4] eqn:Es3. destruct (split_sign_split _ _ _ Es3) as (spe & -> & Hspe).
    destruct (read_digits_maximal r4 0 0) as (eds & r5 & -> & Heds & Hr5 & ->).
    destruct (0 + len eds =? 0) eqn:Ene; [exact I|].
    assert (Hn : eds <> []) by (intros ->; discriminate).
    assert (Hw : wf_literal (sp ++ di ++ fp ++ e :: spe ++ eds) s di df (Some (es, eds))).
    { exists sp, fp, (e :: spe ++ eds). repeat split; auto. cbn [exp_part]. exists e, spe. auto. }
    destruct r5 as [|j r6]; cbn [is_nil negb].
    + rewrite app_nil_r. exists di, df, (Some (es, eds)). split; [exact Hw|]. split; [reflexivity|]. split; reflexivity.
    + exists (sp ++ di ++ fp ++ e :: spe ++ eds), (j :: r6), di, df, es, eds.
      split; [rewrite <- !app_assoc; cbn [app]; rewrite <- !app_assoc; reflexivity|].
      split; [discriminate|]. split; [exact Hr5|]. split; [exact Hw|]. split; [reflexivity|]. split; reflexivity.
Qed.

(* together with lex_literal / lex_special: a string is read as a number exactly when it is (blanks followed by)
   a well-formed literal, as a special value exactly when it is a special spelling *)
Theorem lex_num_iff l s D nf E : lex l = TNum s D nf E <->
  exists ws l1 di df es, l = ws ++ l1 /\ Forall is_ws ws /\ wf_literal l1 s di df es /\
                         D = dval 0 (di ++ df) /\ nf = len df /\ E = exp_val es.
Proof.
  split.
  - intros H. pose proof (lex_sound l) as S. rewrite H in S. destruct S as (ws & l1 & El & Hws & di & df & es & Hw & HD & Hn & HE).
    exists ws, l1, di, df, es. exact (conj El (conj Hws (conj Hw (conj HD (conj Hn HE))))).
  - intros (ws & l1 & di & df & es & -> & Hws & Hw & -> & -> & ->).
    rewrite lex_skip_ws by exact Hws. apply lex_literal. exact Hw.
Qed.

(* "anything else": a string that is none of the four shapes above is garbage *)
Theorem lex_else_garbage l :
  (forall s D nf E, ~ tok_sound l (TNum s D nf E)) -> (forall d, ~ tok_sound l (TSpecial d)) ->
  (forall s, ~ tok_sound l (TSnanJunk s)) -> (forall s D nf E, ~ tok_sound l (TExpJunk s D nf E)) ->
  lex l = TGarbage.
Proof.
  intros H1 H2 H3 H4. pose proof (lex_sound l) as S.
  destruct (lex l) as [d|s D nf E|s|s D nf E|]; [elim (H2 _ S)|elim (H1 _ _ _ _ S)|elim (H3 _ S)|elim (H4 _ _ _ _ S)|reflexivity].
Qed.

(* every accepted outcome of the parser model is a single canonical encoding *)
Theorem m_parse_canonical md l :
  match m_parse md l with
  | SList ol | SExpJunk ol => exists d fl, ol = [([encode d], fl)] /\ wf d /\ canonical_bits (encode d) = true
  | _ => True
  end.
Proof.
  assert (Hnum : forall s D nf E, 0 <= D -> exists d fl, fin_out (parse_num md s D nf E) = [([encode d], fl)] /\ wf d /\ canonical_bits (encode d) = true).
  { intros s D nf E HD. pose proof (rp_exact_sm md s D (E - nf) (E - nf) s HD) as R. unfold parse_num.
    destruct (rp md s D (E - nf) loc_Exact (E - nf) s) as [d fl]. exists d, (flbits fl). split; [reflexivity|].
    pose proof (ieee_result_wf _ _ _ _ _ _ R) as W. split; [exact W|apply encode_canonical; exact W]. }
  pose proof (lex_sound l) as S. unfold m_parse. destruct (lex l) as [d|s D nf E|s|s D nf E|]; try exact I.
  - exists d, 0. split; [reflexivity|].
    assert (W : wf d).
    { destruct S as (_ & _ & _ & _ & sp & s & r & _ & _ & [[_ ->]|[[_ ->]|[_ ->]]]); cbn [wf]; unfold T33; try exact I; lia. }
    split; [exact W|apply encode_canonical; exact W].
  - apply Hnum. destruct S as (_ & l1 & _ & _ & di & df & es & Hw & -> & _). exact (wf_literal_digits_nonneg _ _ _ _ _ Hw).
  - apply Hnum. destruct S as (_ & l1 & _ & _ & l2 & rest & di & df & sg & eds & _ & _ & _ & Hw & -> & _).
    exact (wf_literal_digits_nonneg _ _ _ _ _ Hw).
Qed.

(* the round trip at the level of 128-bit patterns: every canonical finite encoding comes back identically *)
Theorem roundtrip_bits md upper x : canonical_bits x = true -> is_fin (decode x) = true ->
  m_parse md (m_format upper (decode x)) = SList [([x], 0)].
Proof.
  intros Hc Hf. pose proof (encode_decode x Hc) as E.
  unfold canonical_bits in Hc. apply andb_prop in Hc. destruct Hc as [Hc _]. apply andb_prop in Hc. destruct Hc as [H0 H1].
  apply Z.leb_le in H0. apply Z.ltb_lt in H1.
  pose proof (decode_wf x (conj H0 H1)) as W.
  destruct (decode x) as [s c q|s|s sg p]; try discriminate.
  rewrite (parse_format_roundtrip md upper s c q W), E. reflexivity.
Qed.
