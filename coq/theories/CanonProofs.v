(* C13 - every 128-bit pattern is read as IEEE 754-2008 says (the clauses of decode on explicit bit fields, the
   bit-level meaning of canonical_bits), classification is a partition consistent with the is_* predicates, and
   no operation can tell a pattern from the canonical encoding of its datum. No real numbers: axiom-free. *)
From Coq Require Import ZArith Lia Bool List.
From Flocq Require Import Core.Zaux Core.Digits.
From DV Require Import Base Bid BidProofs Arith OpsArith OpsCmp OpsMisc OpsConv OpsStr Judge NanProofs.
Import ListNotations.
Open Scope Z_scope.
Ltac Zify.zify_post_hook ::= Z.div_mod_to_equations.

(* ---------- the clauses of the format, on the low 127 bits r (sign: decode_split) ---------- *)
Theorem decode_finite_small r : 0 <= r < P127 -> r / P122 < 24 -> r mod P113 < T34 ->
  decode r = Fin false (r mod P113) (r / P113 - 6176).
Proof.
  intros Hr G C. unfold decode.
  assert (Hs : (P127 <=? r) = false) by (apply Z.leb_gt; unfold_consts; lia).
  assert (Hm : r mod P127 = r) by (apply Z.mod_small; exact Hr).
  rewrite Hs, Hm.
  destruct (Z.eqb_spec (r / P122) 31); [unfold_consts; lia|]. destruct (Z.eqb_spec (r / P122) 30); [unfold_consts; lia|].
  destruct (Z.leb_spec 24 (r / P122)); [unfold_consts; lia|]. destruct (Z.ltb_spec (r mod P113) T34); [reflexivity|unfold_consts; lia].
Qed.

Theorem decode_coeff_too_large r : 0 <= r < P127 -> r / P122 < 24 -> T34 <= r mod P113 ->
  decode r = Fin false 0 (r / P113 - 6176).
Proof.
  intros Hr G C. unfold decode.
  assert (Hs : (P127 <=? r) = false) by (apply Z.leb_gt; unfold_consts; lia).
  assert (Hm : r mod P127 = r) by (apply Z.mod_small; exact Hr).
  rewrite Hs, Hm.
  destruct (Z.eqb_spec (r / P122) 31); [unfold_consts; lia|]. destruct (Z.eqb_spec (r / P122) 30); [unfold_consts; lia|].
  destruct (Z.leb_spec 24 (r / P122)); [unfold_consts; lia|]. destruct (Z.ltb_spec (r mod P113) T34); [unfold_consts; lia|reflexivity].
Qed.

Theorem decode_large_form r : 0 <= r < P127 -> 24 <= r / P122 < 30 ->
  decode r = Fin false 0 ((r / P111) mod 16384 - 6176).
Proof.
  intros Hr G. unfold decode.
  assert (Hs : (P127 <=? r) = false) by (apply Z.leb_gt; unfold_consts; lia).
  assert (Hm : r mod P127 = r) by (apply Z.mod_small; exact Hr).
  rewrite Hs, Hm.
  destruct (Z.eqb_spec (r / P122) 31); [unfold_consts; lia|]. destruct (Z.eqb_spec (r / P122) 30); [unfold_consts; lia|].
  destruct (Z.leb_spec 24 (r / P122)); [reflexivity|unfold_consts; lia].
Qed.

Theorem decode_inf r : 0 <= r < P127 -> r / P122 = 30 -> decode r = Inf false.
Proof.
  intros Hr G. unfold decode.
  assert (Hs : (P127 <=? r) = false) by (apply Z.leb_gt; unfold_consts; lia).
  assert (Hm : r mod P127 = r) by (apply Z.mod_small; exact Hr).
  rewrite Hs, Hm, G. reflexivity.
Qed.

Theorem decode_inf_bits (s:bool) t : 0 <= t < P122 -> decode ((if s then P127 else 0) + 30 * P122 + t) = Inf s.
Proof.
  intros Ht. rewrite <- Z.add_assoc. rewrite decode_split by (unfold_consts; lia).
  rewrite decode_inf; [reflexivity|unfold_consts; lia|unfold_consts; lia].
Qed.

(* the exponent ranges read off in the two zero clauses stay inside the format *)
Lemma large_form_exp r : 0 <= r < P127 -> 24 <= r / P122 < 30 -> 0 <= (r / P111) mod 16384 < 12288.
Proof. intros. unfold_consts. lia. Qed.

(* is_canonical on the bits *)
Theorem canonical_bits_char x : 0 <= x < P128 ->
  let r := x mod P127 in
  canonical_bits x = true <->
    (r / P122 < 24 /\ r mod P113 < T34) \/ r = 30 * P122 \/ (r / P122 = 31 /\ r mod P121 < T33).
Proof.
  intros Hx r.
  assert (Hr : 0 <= r < P127) by (unfold r; unfold_consts; lia).
  assert (Hxs : x = (if P127 <=? x then P127 else 0) + r) by (unfold r; destruct (Z.leb_spec P127 x); unfold_consts; lia).
  unfold canonical_bits. rewrite !andb_true_iff, Z.leb_le, Z.ltb_lt, Z.eqb_eq.
  rewrite Hxs at 3. rewrite decode_split by exact Hr.
  assert (Red : forall d, sign_of d = false -> (encode (set_sign (P127 <=? x) d) = x <-> encode d = r)).
  { intros d Sd. destruct d as [s c q|s|s sg p]; cbn [sign_of] in Sd; subst s; cbn [set_sign encode];
      rewrite Hxs at 2; destruct (P127 <=? x); unfold_consts; lia. }
  assert (Sr : sign_of (decode r) = false) by (rewrite decode_sign; apply Z.leb_gt; unfold_consts; lia).
  rewrite (Red _ Sr).
  split.
  - intros [_ E].
    destruct (Z_lt_le_dec (r / P122) 24) as [G|G].
    + left. split; [exact G|]. destruct (Z_lt_le_dec (r mod P113) T34) as [C|C]; [exact C|].
      rewrite (decode_coeff_too_large r Hr G C) in E. cbn [encode] in E. unfold_consts. lia.
    + right. destruct (Z_lt_le_dec (r / P122) 30) as [G2|G2].
      * rewrite (decode_large_form r Hr (conj G G2)) in E. cbn [encode] in E. unfold_consts. lia.
      * destruct (Z.eq_dec (r / P122) 30) as [G3|G3].
        -- left. rewrite (decode_inf r Hr G3) in E. cbn [encode] in E. unfold_consts. lia.
        -- right. assert (G4 : r / P122 = 31) by (unfold_consts; lia). split; [exact G4|].
           assert (G5 : (r mod P127) / P122 = 31) by (rewrite Z.mod_small by exact Hr; exact G4).
           rewrite (decode_nan_fields r G5) in E. cbn [encode] in E.
           assert (Hs : (P127 <=? r) = false) by (apply Z.leb_gt; unfold_consts; lia). rewrite Hs in E.
           destruct (Z.leb_spec 1 ((r / P121) mod 2)); destruct (Z.ltb_spec (r mod P110) T33); unfold_consts; lia.
  - intros H. split; [unfold_consts; lia|]. destruct H as [[G C]|[E|[G C]]].
    + rewrite (decode_finite_small r Hr G C). cbn [encode]. unfold_consts. lia.
    + rewrite (decode_inf r Hr) by (rewrite E; unfold_consts; lia). cbn [encode]. unfold_consts. lia.
    + assert (G5 : (r mod P127) / P122 = 31) by (rewrite Z.mod_small by exact Hr; exact G).
      rewrite (decode_nan_fields r G5). cbn [encode].
      assert (Hs : (P127 <=? r) = false) by (apply Z.leb_gt; unfold_consts; lia). rewrite Hs.
      destruct (Z.leb_spec 1 ((r / P121) mod 2)); destruct (Z.ltb_spec (r mod P110) T33); unfold_consts; lia.
Qed.

(* ---------- digit counts ---------- *)
Lemma ndigits_bounds c : 0 < c -> 1 <= ndigits c /\ 10 ^ (ndigits c - 1) <= c < 10 ^ ndigits c.
Proof.
  intros Hc. unfold ndigits. split.
  - assert (0 < Zdigits radix10 c) by (apply Zdigits_gt_0; lia). lia.
  - pose proof (Zdigits_correct radix10 c) as H. rewrite Z.abs_eq in H by lia. exact H.
Qed.

Lemma ndigits_le c k : 0 <= c < 10 ^ k -> 0 <= ndigits c <= k.
Proof.
  intros Hc. unfold ndigits. split; [apply Zdigits_ge_0|].
  apply Zdigits_le_Zpower. rewrite Z.abs_eq by lia. exact (proj2 Hc).
Qed.

Lemma ndigits_34 c : 0 <= c < T34 -> 0 <= ndigits c <= 34.
Proof. intros H. apply ndigits_le. exact H. Qed.

(* the normal/subnormal boundary in terms of the value: c * 10^q >= 10^-6143 *)
Theorem normal_iff_threshold c q : 0 < c ->
  (-6143 <= ndigits c + q - 1 <-> -6143 <= q \/ 10 ^ (-6143 - q) <= c).
Proof.
  intros Hc. destruct (ndigits_bounds c Hc) as [N1 [N2 N3]].
  destruct (Z_le_gt_dec (-6143) q) as [Q|Q]; [split; intros; [left|]; lia|].
  split.
  - intros H. right. apply Z.le_trans with (2 := N2). apply Z.pow_le_mono_r; lia.
  - intros [H|H]; [lia|].
    assert (L : 10 ^ (-6143 - q) < 10 ^ ndigits c) by lia.
    apply Z.pow_lt_mono_r_iff in L; lia.
Qed.

(* ---------- classification ---------- *)
Theorem class_partition d :
  0 <= class_dec d <= 9 /\
  (class_dec d = 0 <-> is_snan d = true) /\
  (class_dec d = 1 <-> is_nan d = true /\ is_snan d = false) /\
  (class_dec d = 2 <-> d = Inf true) /\
  (class_dec d = 3 <-> sign_of d = true /\ is_normal_dec d = true) /\
  (class_dec d = 4 <-> sign_of d = true /\ is_subnormal_dec d = true) /\
  (class_dec d = 5 <-> sign_of d = true /\ is_zero d = true) /\
  (class_dec d = 6 <-> sign_of d = false /\ is_zero d = true) /\
  (class_dec d = 7 <-> sign_of d = false /\ is_subnormal_dec d = true) /\
  (class_dec d = 8 <-> sign_of d = false /\ is_normal_dec d = true) /\
  (class_dec d = 9 <-> d = Inf false).
Proof.
  destruct d as [s c q|s|s sg p].
  - unfold class_dec, is_normal_dec, is_subnormal_dec. rewrite (Z.ltb_antisym (-6143)).
    cbn [is_snan is_nan sign_of].
    destruct c as [|c|c]; cbn [Z.eqb negb andb is_zero];
      [|destruct (-6143 <=? _)..]; destruct s; cbn [negb];
      repeat split; try lia; try discriminate; try tauto; intros; try (exfalso; intuition (discriminate || lia)).
  - destruct s; cbn; repeat split; try lia; try discriminate; try tauto; intros H; try (exfalso; intuition (discriminate || lia)).
  - destruct sg; cbn; repeat split; try lia; try discriminate; try tauto; intros H; try (exfalso; intuition (discriminate || lia)).
Qed.

Lemma is_normal_char d :
  is_normal_dec d = true <-> exists s c q, d = Fin s c q /\ c <> 0 /\ -6143 <= ndigits c + q - 1.
Proof.
  destruct d as [s c q|s|s sg p]; cbn [is_normal_dec]; [|split; [discriminate|intros (?&?&?&?&_); discriminate]..].
  rewrite andb_true_iff, negb_true_iff, Z.eqb_neq, Z.leb_le. split.
  - intros [A B]. exists s, c, q. auto.
  - intros (s'&c'&q'&E&A&B). injection E as -> -> ->. auto.
Qed.

Lemma is_subnormal_char d :
  is_subnormal_dec d = true <-> exists s c q, d = Fin s c q /\ c <> 0 /\ ndigits c + q - 1 < -6143.
Proof.
  destruct d as [s c q|s|s sg p]; cbn [is_subnormal_dec]; [|split; [discriminate|intros (?&?&?&?&_); discriminate]..].
  rewrite andb_true_iff, negb_true_iff, Z.eqb_neq, Z.ltb_lt. split.
  - intros [A B]. exists s, c, q. auto.
  - intros (s'&c'&q'&E&A&B). injection E as -> -> ->. auto.
Qed.

Lemma is_zero_char d : is_zero d = true <-> exists s q, d = Fin s 0 q.
Proof.
  destruct d as [s c q|s|s sg p]; cbn [is_zero]; [|split; [discriminate|intros (?&?&?); discriminate]..].
  split.
  - destruct c; try discriminate. eauto.
  - intros (s'&q'&E). injection E as -> -> ->. reflexivity.
Qed.

Theorem is_preds_char d :
  (is_normal_dec d = true <-> exists s c q, d = Fin s c q /\ c <> 0 /\ -6143 <= ndigits c + q - 1) /\
  (is_subnormal_dec d = true <-> exists s c q, d = Fin s c q /\ c <> 0 /\ ndigits c + q - 1 < -6143) /\
  (is_zero d = true <-> exists s q, d = Fin s 0 q) /\
  (is_fin d = true <-> exists s c q, d = Fin s c q) /\
  (is_inf d = true <-> exists s, d = Inf s) /\
  (is_nan d = true <-> exists s sg p, d = NaN s sg p) /\
  (is_snan d = true <-> exists s p, d = NaN s true p) /\
  is_fin d = is_zero d || is_normal_dec d || is_subnormal_dec d /\
  b2z (is_nan d) + b2z (is_inf d) + b2z (is_zero d) + b2z (is_normal_dec d) + b2z (is_subnormal_dec d) = 1.
Proof.
  split; [apply is_normal_char|]. split; [apply is_subnormal_char|]. split; [apply is_zero_char|].
  split. { destruct d; cbn [is_fin]; split; eauto; try discriminate; intros (?&?&?&?); discriminate. }
  split. { destruct d; cbn [is_inf]; split; eauto; try discriminate; intros (?&?); discriminate. }
  split. { destruct d; cbn [is_nan]; split; eauto; try discriminate; intros (?&?&?&?); discriminate. }
  split. { destruct d as [| |s sg p]; cbn [is_snan]; split; try discriminate; try (intros (?&?&?); discriminate).
           - destruct sg; [eauto|discriminate]. - intros (?&?&E). injection E as -> -> ->. reflexivity. }
  destruct d as [s c q|s|s sg p]; [|split; reflexivity..].
  unfold is_normal_dec, is_subnormal_dec. rewrite (Z.ltb_antisym (-6143)). cbn [is_nan is_inf is_fin].
  destruct c as [|c|c]; cbn [Z.eqb negb andb is_zero orb b2z]; [split; reflexivity|destruct (-6143 <=? _); split; reflexivity..].
Qed.

(* class against the predicates *)
Theorem class_consistent d :
  let cl := class_dec d in
  (is_nan d = true <-> cl = 0 \/ cl = 1) /\ (is_snan d = true <-> cl = 0) /\
  (is_inf d = true <-> cl = 2 \/ cl = 9) /\ (is_fin d = true <-> 3 <= cl <= 8) /\
  (is_zero d = true <-> cl = 5 \/ cl = 6) /\ (is_normal_dec d = true <-> cl = 3 \/ cl = 8) /\
  (is_subnormal_dec d = true <-> cl = 4 \/ cl = 7) /\
  (sign_of d = true -> is_nan d = false -> 2 <= cl <= 5) /\ (sign_of d = false -> is_nan d = false -> 6 <= cl <= 9).
Proof.
  destruct d as [s c q|s|s sg p].
  - unfold class_dec, is_normal_dec, is_subnormal_dec. rewrite (Z.ltb_antisym (-6143)).
    cbn [is_snan is_nan is_inf is_fin sign_of].
    destruct c as [|c|c]; cbn [Z.eqb negb andb is_zero];
      [|destruct (-6143 <=? _)..]; destruct s; cbn [negb];
      repeat split; try lia; try discriminate; try tauto; intros; try (exfalso; intuition (discriminate || lia)).
  - destruct s; cbn; repeat split; try lia; try discriminate; try tauto; intros; try (exfalso; intuition (discriminate || lia)).
  - destruct sg; cbn; repeat split; try lia; try discriminate; try tauto; intros; try (exfalso; intuition (discriminate || lia)).
Qed.

(* the word returned by the nine is_* predicates *)
Lemma bits9 (b0 b1 b2 b3 b4 b5 b6 b7 b8 : bool) :
  let w := b2z b0 + 2 * b2z b1 + 4 * b2z b2 + 8 * b2z b3 + 16 * b2z b4 + 32 * b2z b5 + 64 * b2z b6 + 128 * b2z b7 + 256 * b2z b8 in
  0 <= w < 512 /\ bit w 0 = b2z b0 /\ bit w 1 = b2z b1 /\ bit w 2 = b2z b2 /\ bit w 3 = b2z b3 /\ bit w 4 = b2z b4 /\
  bit w 5 = b2z b5 /\ bit w 6 = b2z b6 /\ bit w 7 = b2z b7 /\ bit w 8 = b2z b8.
Proof. destruct b0, b1, b2, b3, b4, b5, b6, b7, b8; vm_compute; intuition congruence. Qed.

Theorem m_isx_bits x : exists w, m_isx x = [([w], 0)] /\ 0 <= w < 512 /\
  bit w 0 = b2z (canonical_bits x) /\ bit w 1 = b2z (is_fin (decode x)) /\ bit w 2 = b2z (is_inf (decode x)) /\
  bit w 3 = b2z (is_nan (decode x)) /\ bit w 4 = b2z (is_normal_dec (decode x)) /\ bit w 5 = b2z (is_snan (decode x)) /\
  bit w 6 = b2z (P127 <=? x) /\ bit w 7 = b2z (is_subnormal_dec (decode x)) /\ bit w 8 = b2z (is_zero (decode x)).
Proof.
  eexists. split; [reflexivity|]. rewrite <- decode_sign. apply bits9.
Qed.

(* ---------- no operation distinguishes a pattern from the canonical encoding of its datum ---------- *)
Definition canon_of (x:Z) : Z := encode (decode x).

Lemma decode_canon x : 0 <= x < P128 -> decode (canon_of x) = decode x.
Proof. intros H. apply decode_encode, decode_wf, H. Qed.

Lemma canon_of_canonical x : 0 <= x < P128 -> canonical_bits (canon_of x) = true /\ 0 <= canon_of x < P128.
Proof. intros H. split; [apply encode_canonical|apply encode_range]; apply decode_wf, H. Qed.

Lemma canon_of_id x : canonical_bits x = true -> canon_of x = x.
Proof. apply encode_decode. Qed.

Ltac canon_tac := intros; repeat split; intros;
  unfold m_add, m_sub, m_mul, m_div, m_sqrt, m_fma, m_quantize, rem_dec, m_fdim, m_sub, rint_dec, m_modf, m_frexp, m_next_up, m_next_down,
    m_next_after, m_minmax, m_scaleb, m_logb, m_ilogb, m_quantexp, m_llquantexp, m_quantum, m_same_quantum, m_total_order,
    m_total_order_mag, m_class, m_cmp, m_ops, m_hasheq, m_to_int, m_encode_dpd, m_fmt;
  rewrite ?decode_canon by assumption; reflexivity.

Theorem noncanonical_as_zero x y z : 0 <= x < P128 -> 0 <= y < P128 -> 0 <= z < P128 ->
  let x' := canon_of x in let y' := canon_of y in let z' := canon_of z in
  (forall md, m_add md x' y' = m_add md x y /\ m_sub md x' y' = m_sub md x y /\ m_mul md x' y' = m_mul md x y /\
     m_div md x' y' = m_div md x y /\ m_sqrt md x' = m_sqrt md x /\ m_fma md x' y' z' = m_fma md x y z /\
     m_quantize md x' y' = m_quantize md x y /\ m_fdim md x' y' = m_fdim md x y /\
     (forall b, rint_dec md b x' = rint_dec md b x) /\ (forall n, m_scaleb md x' n = m_scaleb md x n) /\
     (forall w sg xf, m_to_int w sg md xf x' = m_to_int w sg md xf x)) /\
  (forall b, rem_dec b x' y' = rem_dec b x y) /\
  m_modf x' = m_modf x /\ m_frexp x' = m_frexp x /\
  m_next_up x' = m_next_up x /\ m_next_down x' = m_next_down x /\ m_next_after x' y' = m_next_after x y /\
  (forall k, m_minmax k x' y' = m_minmax k x y) /\
  m_logb x' = m_logb x /\ m_ilogb x' = m_ilogb x /\ m_quantexp x' = m_quantexp x /\ m_llquantexp x' = m_llquantexp x /\
  m_quantum x' = m_quantum x /\ m_same_quantum x' y' = m_same_quantum x y /\
  m_total_order x' y' = m_total_order x y /\ m_total_order_mag x' y' = m_total_order_mag x y /\
  m_class x' = m_class x /\ (forall i, m_cmp x' y' i = m_cmp x y i) /\ m_ops x' y' = m_ops x y /\
  (forall same, m_hasheq x' y' same = m_hasheq x y same) /\
  m_encode_dpd x' = m_encode_dpd x /\ m_fmt x' = m_fmt x.
Proof. intros Hx Hy Hz x' y' z'. subst x' y' z'. canon_tac. Qed.

(* is_*: everything but the is_canonical bit is a function of the datum *)
Theorem m_isx_through_decode : exists f, forall x, m_isx x = [([b2z (canonical_bits x) + f (decode x)], 0)].
Proof.
  exists (fun d => 2 * b2z (is_fin d) + 4 * b2z (is_inf d) + 8 * b2z (is_nan d) + 16 * b2z (is_normal_dec d)
     + 32 * b2z (is_snan d) + 64 * b2z (sign_of d) + 128 * b2z (is_subnormal_dec d) + 256 * b2z (is_zero d)).
  intros x. unfold m_isx. do 3 f_equal. lia.
Qed.

(* the judge's dispatch: for the operations whose arguments are all decimal patterns *)
Definition pattern_op (o:op) : bool :=
  match o with
  | OAdd | OSub | OMul | ODiv | OSqrt | OFma | OQuantize | ORem | OFmod | OFdim | ORint | ONearbyint | ORintFix _
  | OModf | OFrexp | ONextUp | ONextDown | ONextAfter | OMinMax _ | OLogb | OIlogb | OQuantexp | OLlquantexp | OQuantum
  | OSameQuantum | OTotalOrder | OTotalOrderMag | OClass | OEncodeDpd | OToInt _ _ _ _ | OLrint | OLround | OOps
  | OHashSet | OFmt | OOpArith _ | OSum | OProduct => true
  | _ => false
  end.

Lemma arith2_canon o x y : 0 <= x < P128 -> 0 <= y < P128 -> arith2 o RNE (canon_of x) (canon_of y) = arith2 o RNE x y.
Proof.
  intros Hx Hy. pose proof (noncanonical_as_zero x y x Hx Hy Hx) as H. cbv zeta in H. destruct H as (A & B & _).
  destruct o; try reflexivity; cbn [arith2]; try apply (A RNE). apply B.
Qed.

Lemma arith2_canon_r o acc a : 0 <= a < P128 -> arith2 o RNE acc (canon_of a) = arith2 o RNE acc a.
Proof.
  intros Ha. destruct o; try reflexivity; cbn [arith2]; unfold m_add, m_sub, m_mul, m_div, rem_dec;
    rewrite decode_canon by assumption; reflexivity.
Qed.

Lemma fold_ops_canon o args : Forall (fun x => 0 <= x < P128) args ->
  forall accs, fold_ops o accs (map canon_of args) = fold_ops o accs args.
Proof.
  intros R. induction R as [|a l Ha Hl IH]; intros accs; cbn [map fold_ops]; [reflexivity|].
  rewrite IH. f_equal. apply flat_map_ext. intros acc. rewrite arith2_canon_r by assumption. reflexivity.
Qed.

Theorem noncanonical_as_zero_expected o md args : pattern_op o = true -> Forall (fun x => 0 <= x < P128) args ->
  expected o md (map canon_of args) = expected o md args.
Proof.
  intros P R.
  destruct o; try discriminate P; clear P;
    try solve [unfold expected; rewrite fold_ops_canon by exact R; reflexivity];
    destruct args as [|x [|y [|z [|u l]]]]; cbn [map]; try reflexivity;
    repeat match goal with H : Forall _ (_ :: _) |- _ => apply Forall_cons_iff in H; destruct H as [? H] end;
    unfold expected, of_kind;
    unfold m_add, m_sub, m_mul, m_div, m_sqrt, m_fma, m_quantize, rem_dec, m_fdim, m_sub, rint_dec, m_modf, m_frexp, m_next_up, m_next_down,
      m_next_after, m_minmax, m_scaleb, m_logb, m_ilogb, m_quantexp, m_llquantexp, m_quantum, m_same_quantum, m_total_order,
      m_total_order_mag, m_class, m_cmp, m_ops, m_hasheq, m_to_int, m_encode_dpd, m_fmt;
    rewrite ?decode_canon by assumption; rewrite ?arith2_canon by assumption; reflexivity.
Qed.
