(* Per-operation theorems at the finite-operand level: each exact-integer computation followed by rp
   satisfies ieee_result for the real-number value of the operation. *)
From Coq Require Import ZArith Reals Lia Lra Bool Psatz.
From Flocq Require Import Core.Core Calc.Bracket Calc.Round Calc.Div Calc.Sqrt.
From DV Require Import Base RoundProofs Arith.
Open Scope Z_scope.

(* ---------- the deep-underflow shortcut ---------- *)
Lemma shortcut_ok c e x l : 0 <= c -> inbetween_float radix10 c e (Rabs x) l ->
  (e <= fexp (Zdigits radix10 c + e) \/ l = loc_Exact) ->
  let '(c', e', l') := shortcut c e l in
  0 <= c' /\ inbetween_float radix10 c' e' (Rabs x) l' /\ (e' <= fexp (Zdigits radix10 c' + e') \/ l' = loc_Exact).
Proof.
  intros Hc Hin H2. unfold shortcut.
  destruct ((Zdigits radix10 c + e <=? -6177) && negb ((c =? 0) && is_exact l)) eqn:Hb; [|now repeat split].
  apply andb_prop in Hb. destruct Hb as [Hb1 Hb2]. apply Z.leb_le in Hb1.
  assert (Hx : x <> 0%R).
  { intros Hx0. destruct (inbetween_zero c e x l Hc Hin Hx0) as [E1 E2]. subst c l. discriminate. }
  assert (Hpos : (0 < Rabs x)%R) by now apply Rabs_pos_lt.
  assert (Hsmall : (Rabs x < bpow radix10 (-6177))%R).
  { destruct (inbetween_float_bounds _ _ _ _ _ Hin) as [_ B2].
    apply Rlt_le_trans with (1 := B2).
    destruct (Z.eq_dec c 0) as [E|E].
    - subst c. change (Zdigits radix10 0) with 0 in Hb1. replace (0 + 1) with 1 by ring.
      rewrite F2R_bpow. apply bpow_le. lia.
    - assert (Hd := Zdigits_correct radix10 c). rewrite Z.abs_eq in Hd by lia. change (radix_val radix10) with 10 in Hd.
      assert (0 < Zdigits radix10 c) by (apply Zdigits_gt_0; exact E).
      apply Rle_trans with (F2R (Float radix10 (10 ^ Zdigits radix10 c) e)).
      apply F2R_le. cbn [Fnum]. lia.
      rewrite F2R_pow10 by lia. apply bpow_le. lia. }
  split; [lia|]. split.
  - unfold inbetween_float. rewrite F2R_0. replace (0 + 1) with 1 by ring. rewrite F2R_bpow.
    assert (Hu : bpow radix10 (-6176) = (10 * bpow radix10 (-6177))%R).
    { replace (-6176) with (1 + -6177) by ring. rewrite bpow_plus. reflexivity. }
    assert (0 < bpow radix10 (-6177))%R by apply bpow_gt_0.
    constructor. rewrite Hu. lra. apply Rcompare_Lt. rewrite Hu. lra.
  - left. reflexivity.
Qed.

Theorem rp_correct md x s c e l pref zs :
  0 <= c -> inbetween_float radix10 c e (Rabs x) l ->
  (x <> 0%R -> s = Rlt_bool x 0) ->
  (e <= fexp (Zdigits radix10 c + e) \/ l = loc_Exact) ->
  let '(d, fl) := rp md s c e l pref zs in ieee_result md x pref zs d fl.
Proof.
  intros Hc Hin Hs H2. unfold rp.
  generalize (shortcut_ok c e x l Hc Hin H2). destruct (shortcut c e l) as [[c' e'] l'].
  intros (A & B & C). apply round_pack_correct; assumption.
Qed.

(* an exactly known signed integer at exponent q *)
Lemma rp_exact md v q pref zs :
  let '(d, fl) := rp md (v <? 0) (Z.abs v) q loc_Exact pref zs in
  ieee_result md (F2R (Float radix10 v q)) pref zs d fl.
Proof.
  apply rp_correct.
  - apply Z.abs_nonneg.
  - rewrite <- F2R_Zabs. constructor. reflexivity.
  - intros Hnz. destruct (Z.ltb_spec v 0) as [L|G].
    + symmetry. apply Rlt_bool_true. apply F2R_lt_0. exact L.
    + symmetry. apply Rlt_bool_false. apply F2R_ge_0. exact G.
  - right. reflexivity.
Qed.

(* a sign/magnitude pair at exponent q, magnitude exactly known *)
Lemma rp_exact_sm md s c q pref zs : 0 <= c ->
  let '(d, fl) := rp md s c q loc_Exact pref zs in
  ieee_result md (D2R (Fin s c q)) pref zs d fl.
Proof.
  intros Hc. apply rp_correct.
  - exact Hc.
  - unfold D2R. rewrite abs_signed by exact Hc. constructor. reflexivity.
  - intros Hnz. unfold D2R in *. rewrite F2R_cond_Zopp in *.
    assert (0 <= F2R (Float radix10 c q))%R by (apply F2R_ge_0; exact Hc).
    destruct s; cbn [cond_Ropp] in *; symmetry; [apply Rlt_bool_true|apply Rlt_bool_false]; lra.
  - right. reflexivity.
Qed.

(* ---------- addition ---------- *)
Lemma D2R_at_min s c q q0 : q0 <= q -> D2R (Fin s c q) = F2R (Float radix10 (sval s c * 10 ^ (q - q0)) q0).
Proof.
  intros H. unfold D2R, sval. rewrite (F2R_scale (cond_Zopp s c) q (q - q0)) by lia.
  replace (q - (q - q0)) with q0 by ring. reflexivity.
Qed.

Theorem add_fin_correct md sx cx qx sy cy qy :
  let x := (D2R (Fin sx cx qx) + D2R (Fin sy cy qy))%R in
  let '(d, fl) := add_fin md sx cx qx sy cy qy in
  ieee_result md x (Z.min qx qy) (zs_add md sx sy) d fl.
Proof.
  intros x. unfold add_fin.
  set (q := Z.min qx qy). set (v := sval sx cx * 10 ^ (qx - q) + sval sy cy * 10 ^ (qy - q)).
  assert (Hx : x = F2R (Float radix10 v q)).
  { unfold x. rewrite (D2R_at_min sx cx qx q), (D2R_at_min sy cy qy q) by (unfold q; lia).
    unfold v, F2R; cbn [Fnum Fexp]. rewrite plus_IZR. ring. }
  rewrite Hx. apply rp_exact.
Qed.

Lemma F2R_abs_lt_pow c q k : 0 <= k -> Z.abs c < 10 ^ k -> (Rabs (F2R (Float radix10 c q)) < bpow radix10 (k + q))%R.
Proof.
  intros Hk H. replace (k + q) with (k + q - q + q) by ring. apply F2R_lt_bpow. cbn [Fnum Fexp].
  replace (k + q - q + q - q) with k by ring. exact H.
Qed.

Lemma sign_abs_lemma (sx sy : bool) (aX aY u : R) :
  (0 < u)%R -> (u <= aX)%R -> (0 < aY < u / 2)%R ->
  let X := (if sx then - aX else aX)%R in let Y := (if sy then - aY else aY)%R in
  Rlt_bool (X + Y) 0 = sx /\ (X + Y <> 0)%R /\
  Rabs (X + Y) = (if Bool.eqb sx sy then aX + aY else aX - aY)%R.
Proof.
  intros Hu Hbig [HY0 HY1] X Y. unfold X, Y.
  destruct sx, sy; cbn [Bool.eqb];
    (split; [first [apply Rlt_bool_true; lra | apply Rlt_bool_false; lra]|]);
    (split; [lra|]);
    first [rewrite Rabs_left by lra; lra | rewrite Rabs_pos_eq by lra; lra].
Qed.

Theorem add_far_correct md sx cx qx sy cy qy zs :
  0 < cx -> 0 < cy < 10 ^ 70 -> qy + FARGAP < qx ->
  let x := (D2R (Fin sx cx qx) + D2R (Fin sy cy qy))%R in
  let '(d, fl) := add_far md sx cx qx sy qy zs in
  ieee_result md x (Z.min qx qy) zs d fl.
Proof.
  intros Hcx Hcy Hgap x. unfold FARGAP in Hgap. unfold add_far.
  set (e' := qx - 40). set (C := cx * 10 ^ 40).
  set (X := D2R (Fin sx cx qx)). set (Y := D2R (Fin sy cy qy)).
  assert (H40 : 0 < 10 ^ 40) by (apply Z.pow_pos_nonneg; lia).
  assert (HC : 0 < C) by (unfold C; nia).
  assert (HX : X = F2R (Float radix10 (cond_Zopp sx C) e')).
  { unfold X, D2R, C, e'. rewrite (F2R_scale (cond_Zopp sx cx) qx 40) by lia.
    f_equal. f_equal. destruct sx; simpl; ring. }
  assert (HXabs : Rabs X = F2R (Float radix10 C e')) by (rewrite HX; apply abs_signed; lia).
  set (u := bpow radix10 e').
  assert (Hu : (0 < u)%R) by apply bpow_gt_0.
  assert (HYabs : (0 < Rabs Y < u / 2)%R).
  { split.
    - apply Rabs_pos_lt. unfold Y, D2R. apply F2R_neq_0. cbn [Fnum]. destruct sy; simpl; lia.
    - apply Rlt_le_trans with (bpow radix10 (70 + qy)).
      + unfold Y, D2R. apply F2R_abs_lt_pow. lia. destruct sy; simpl; rewrite ?Z.abs_opp; rewrite Z.abs_eq; lia.
      + apply Rle_trans with (bpow radix10 (e' - 1)). apply bpow_le. unfold e'. lia.
        unfold u. replace e' with (e' - 1 + 1) at 2 by ring. rewrite bpow_plus. simpl bpow at 2.
        assert (0 < bpow radix10 (e' - 1))%R by apply bpow_gt_0. simpl. lra. }
  assert (Hd : F2R (Float radix10 C e') = (IZR C * u)%R) by reflexivity.
  assert (Hd1 : F2R (Float radix10 (C + 1) e') = (IZR C * u + u)%R).
  { unfold F2R, u; cbn [Fnum Fexp]. rewrite plus_IZR. simpl. ring. }
  assert (Hdm : F2R (Float radix10 (C - 1) e') = (IZR C * u - u)%R).
  { unfold F2R, u; cbn [Fnum Fexp]. rewrite minus_IZR. simpl. ring. }
  assert (HC1 : (1 <= IZR C)%R) by (apply IZR_le; lia).
  assert (EX : X = (if sx then - Rabs X else Rabs X)%R).
  { rewrite HXabs. rewrite HX at 1. rewrite F2R_cond_Zopp. destruct sx; reflexivity. }
  assert (EY : Y = (if sy then - Rabs Y else Rabs Y)%R).
  { unfold Y, D2R. rewrite F2R_cond_Zopp.
    assert (0 <= F2R (Float radix10 cy qy))%R by (apply F2R_ge_0; simpl; lia).
    destruct sy; cbn [cond_Ropp]; [rewrite Rabs_Ropp|]; rewrite Rabs_pos_eq by assumption; reflexivity. }
  assert (Hbig : (u <= Rabs X)%R) by (rewrite HXabs, Hd; nra).
  assert (Hxeq : x = ((if sx then - Rabs X else Rabs X) + (if sy then - Rabs Y else Rabs Y))%R).
  { unfold x. fold X Y. rewrite <- EX, <- EY. reflexivity. }
  generalize (sign_abs_lemma sx sy (Rabs X) (Rabs Y) u Hu Hbig HYabs). cbv zeta. rewrite <- Hxeq.
  intros Hsign.
  destruct (Bool.eqb sx sy) eqn:Hb.
  - destruct Hsign as (S1 & S2 & S3).
    apply rp_correct.
    + lia.
    + rewrite S3. unfold inbetween_float. constructor.
      * rewrite Hd, Hd1, HXabs, Hd. lra.
      * apply Rcompare_Lt. rewrite Hd, Hd1, HXabs, Hd. lra.
    + intros _. now rewrite S1.
    + left. unfold C. change (10 ^ 40) with (Zpower radix10 40). rewrite Zdigits_mult_Zpower by lia.
      assert (0 < Zdigits radix10 cx) by (apply Zdigits_gt_0; lia).
      unfold fexp, FLT_exp, prec, qmin, e' in *. lia.
  - destruct Hsign as (S1 & S2 & S3).
    apply rp_correct.
    + lia.
    + rewrite S3. unfold inbetween_float. replace (C - 1 + 1) with C by ring. constructor.
      * rewrite Hd, Hdm, HXabs, Hd. lra.
      * apply Rcompare_Gt. rewrite Hd, Hdm, HXabs, Hd. lra.
    + intros _. now rewrite S1.
    + left.
      assert (Hdig : Zdigits radix10 (C - 1) >= 40).
      { assert (10 ^ 39 <= C - 1). { unfold C. assert (10 ^ 40 = 10 * 10 ^ 39) by reflexivity. nia. }
        assert (39 < Zdigits radix10 (C - 1)); [|lia]. apply (Zdigits_gt_Zpower radix10). rewrite Z.abs_eq by lia. exact H. }
      unfold fexp, FLT_exp, prec, qmin, e' in *. lia.
Qed.

Lemma D2R_zero s q : D2R (Fin s 0 q) = 0%R.
Proof. unfold D2R. destruct s; simpl; apply F2R_0. Qed.

Lemma zs_add_comm md sx sy : zs_add md sx sy = zs_add md sy sx.
Proof. unfold zs_add. destruct sx, sy; reflexivity. Qed.

Theorem add_gen_correct md sx cx qx sy cy qy :
  0 <= cx < 10 ^ 70 -> 0 <= cy < 10 ^ 70 ->
  let x := (D2R (Fin sx cx qx) + D2R (Fin sy cy qy))%R in
  let '(d, fl) := add_gen md sx cx qx sy cy qy in
  ieee_result md x (Z.min qx qy) (zs_add md sx sy) d fl.
Proof.
  intros Hcx Hcy x. unfold add_gen.
  destruct (Z.eqb_spec cx 0) as [Ex|Ex]; destruct (Z.eqb_spec cy 0) as [Ey|Ey]; cbn [andb].
  - (* both zero *)
    subst cx cy. assert (Hx : x = 0%R) by (unfold x; rewrite !D2R_zero; ring). rewrite Hx.
    apply rp_correct.
    + lia.
    + rewrite Rabs_R0. replace 0%R with (F2R (Float radix10 0 (Z.min qx qy))) by apply F2R_0. constructor. reflexivity.
    + intros H. now elim H.
    + right. reflexivity.
  - subst cx. assert (Hx : x = D2R (Fin sy cy qy)) by (unfold x; rewrite D2R_zero; ring). rewrite Hx.
    apply rp_exact_sm. lia.
  - subst cy. assert (Hx : x = D2R (Fin sx cx qx)) by (unfold x; rewrite D2R_zero; ring). rewrite Hx.
    apply rp_exact_sm. lia.
  - destruct (Z.leb_spec (Z.abs (qx - qy)) FARGAP) as [Hn|Hf].
    + apply add_fin_correct.
    + destruct (Z.ltb_spec qy qx) as [L|G].
      * apply add_far_correct; lia.
      * assert (Hx : x = (D2R (Fin sy cy qy) + D2R (Fin sx cx qx))%R) by (unfold x; ring).
        rewrite Hx, Z.min_comm, zs_add_comm. apply add_far_correct; lia.
Qed.

(* ---------- multiplication, fma ---------- *)
Lemma D2R_mul sx cx qx sy cy qy :
  (D2R (Fin sx cx qx) * D2R (Fin sy cy qy))%R = D2R (Fin (xorb sx sy) (cx * cy) (qx + qy)).
Proof.
  unfold D2R, F2R; cbn [Fnum Fexp]. rewrite bpow_plus.
  replace (cond_Zopp (xorb sx sy) (cx * cy)) with (cond_Zopp sx cx * cond_Zopp sy cy).
  rewrite mult_IZR. ring. destruct sx, sy; simpl; ring.
Qed.

Theorem mul_fin_correct md sx cx qx sy cy qy : 0 <= cx -> 0 <= cy ->
  let x := (D2R (Fin sx cx qx) * D2R (Fin sy cy qy))%R in
  let '(d, fl) := mul_fin md sx cx qx sy cy qy in
  ieee_result md x (qx + qy) (xorb sx sy) d fl.
Proof.
  intros Hx Hy x. unfold x, mul_fin. rewrite D2R_mul. apply rp_exact_sm. nia.
Qed.

Theorem fma_fin_correct md sx cx qx sy cy qy sz cz qz :
  0 <= cx < 10 ^ 34 -> 0 <= cy < 10 ^ 34 -> 0 <= cz < 10 ^ 34 ->
  let x := (D2R (Fin sx cx qx) * D2R (Fin sy cy qy) + D2R (Fin sz cz qz))%R in
  let '(d, fl) := fma_fin md sx cx qx sy cy qy sz cz qz in
  ieee_result md x (Z.min (qx + qy) qz) (zs_add md (xorb sx sy) sz) d fl.
Proof.
  intros Hx Hy Hz x. unfold x, fma_fin. rewrite D2R_mul. apply add_gen_correct.
  - assert (10 ^ 70 = 10 ^ 34 * 10 ^ 34 * 100) by reflexivity. nia.
  - assert (10 ^ 34 < 10 ^ 70) by (vm_compute; reflexivity). lia.
Qed.

(* ---------- division, square root (Flocq's Fdiv / Fsqrt in radix 10) ---------- *)
Lemma inbetween_nonneg m e x l : (0 < x)%R -> inbetween_float radix10 m e x l -> 0 <= m.
Proof.
  intros Hx H. destruct (inbetween_float_bounds _ _ _ _ _ H) as [_ B2].
  assert (0 < F2R (Float radix10 (m + 1) e))%R by lra. apply gt_0_F2R in H0. simpl in H0. lia.
Qed.

Theorem div_fin_correct md sx cx qx sy cy qy :
  0 < cx -> 0 < cy ->
  let x := (D2R (Fin sx cx qx) / D2R (Fin sy cy qy))%R in
  let '(d, fl) := div_fin md sx cx qx sy cy qy in
  ieee_result md x (qx - qy) (xorb sx sy) d fl.
Proof.
  intros Hcx Hcy x. unfold div_fin.
  assert (PX : (0 < F2R (Float radix10 cx qx))%R) by (apply F2R_gt_0; exact Hcx).
  assert (PY : (0 < F2R (Float radix10 cy qy))%R) by (apply F2R_gt_0; exact Hcy).
  generalize (Fdiv_correct fexp (Float radix10 cx qx) (Float radix10 cy qy) PX PY).
  destruct (Fdiv fexp (Float radix10 cx qx) (Float radix10 cy qy)) as [[m e] l].
  set (Q := (F2R (Float radix10 cx qx) / F2R (Float radix10 cy qy))%R).
  intros [He Hin].
  assert (PQ : (0 < Q)%R) by (unfold Q; apply Rdiv_lt_0_compat; assumption).
  assert (Hx : x = (if xorb sx sy then - Q else Q)%R).
  { unfold x, D2R, Q. rewrite !F2R_cond_Zopp. destruct sx, sy; simpl; field; lra. }
  assert (Habs : Rabs x = Q) by (rewrite Hx; destruct (xorb sx sy); [rewrite Rabs_Ropp|]; apply Rabs_pos_eq; lra).
  apply rp_correct.
  - exact (inbetween_nonneg m e Q l PQ Hin).
  - rewrite Habs. exact Hin.
  - intros _. rewrite Hx. destruct (xorb sx sy); symmetry; [apply Rlt_bool_true| apply Rlt_bool_false]; lra.
  - left. rewrite <- (cexp_inbetween_float radix10 fexp Q m e l PQ Hin (or_introl He)). exact He.
Qed.

Theorem sqrt_fin_correct md cx qx :
  0 < cx ->
  let x := sqrt (D2R (Fin false cx qx)) in
  let '(d, fl) := sqrt_fin md cx qx in
  ieee_result md x (Z.div2 qx) false d fl.
Proof.
  intros Hcx x. unfold sqrt_fin.
  assert (PX : (0 < F2R (Float radix10 cx qx))%R) by (apply F2R_gt_0; exact Hcx).
  generalize (Fsqrt_correct fexp (Float radix10 cx qx) PX).
  destruct (Fsqrt fexp (Float radix10 cx qx)) as [[m e] l]. intros [He Hin].
  assert (Hx : x = sqrt (F2R (Float radix10 cx qx))) by reflexivity.
  assert (PQ : (0 < x)%R) by (rewrite Hx; apply sqrt_lt_R0; exact PX).
  apply rp_correct.
  - apply (inbetween_nonneg m e x l PQ). rewrite Hx. exact Hin.
  - rewrite Rabs_pos_eq by lra. rewrite Hx. exact Hin.
  - intros _. symmetry. apply Rlt_bool_false. lra.
  - left. rewrite <- Hx in Hin, He. rewrite <- (cexp_inbetween_float radix10 fexp x m e l PQ Hin (or_introl He)). exact He.
Qed.

(* ---------- scaling by a power of ten ---------- *)
Theorem scale_fin_correct md s c q n : 0 <= c ->
  let x := (D2R (Fin s c q) * bpow radix10 n)%R in
  let '(d, fl) := scale_fin md s c q n in
  ieee_result md x (q + n) s d fl.
Proof.
  intros Hc x. unfold scale_fin.
  assert (Hx : x = D2R (Fin s c (q + n))).
  { unfold x, D2R, F2R; cbn [Fnum Fexp]. rewrite bpow_plus. ring. }
  rewrite Hx. apply rp_exact_sm. exact Hc.
Qed.
