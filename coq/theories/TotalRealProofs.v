(* Bridge for C18 (uses real numbers, hence the standard Reals axioms; kept apart from TotalProofs.v, which is axiom-free):
   the integer [sval s c q] used by [total_spec] is the real value of the datum times the constant 10^6176, so comparing
   svals is comparing the numerical values D2R. *)
From Coq Require Import ZArith Reals Lia Bool.
From Flocq Require Import Core.Core.
From DV Require Import Base Bid BidProofs Arith OpsArith OpsCmp TotalProofs.
Open Scope Z_scope.

Lemma sval_cond_Zopp s c q : sval s c q = cond_Zopp s c * 10 ^ (q + 6176).
Proof. unfold sval, vkey. destruct s; cbn [cond_Zopp]; lia. Qed.

Theorem sval_D2R s c q : -6176 <= q ->
  D2R (Fin s c q) = (IZR (sval s c q) * bpow radix10 (-6176))%R.
Proof.
  intros Hq. unfold D2R, F2R. cbn [Fnum Fexp]. rewrite sval_cond_Zopp, mult_IZR.
  change 10 with (radix_val radix10). rewrite IZR_Zpower by lia.
  rewrite Rmult_assoc, <- bpow_plus. f_equal. f_equal. lia.
Qed.

Theorem sval_compare_D2R sx cx qx sy cy qy : -6176 <= qx -> -6176 <= qy ->
  Rcompare (D2R (Fin sx cx qx)) (D2R (Fin sy cy qy)) = (sval sx cx qx ?= sval sy cy qy).
Proof.
  intros Hx Hy. rewrite !sval_D2R by assumption.
  rewrite Rcompare_mult_r by apply bpow_gt_0. apply Rcompare_IZR.
Qed.

Corollary sval_lt_D2R sx cx qx sy cy qy : -6176 <= qx -> -6176 <= qy ->
  (sval sx cx qx < sval sy cy qy <-> (D2R (Fin sx cx qx) < D2R (Fin sy cy qy))%R).
Proof.
  intros Hx Hy. pose proof (sval_compare_D2R sx cx qx sy cy qy Hx Hy) as C.
  destruct (Rcompare_spec (D2R (Fin sx cx qx)) (D2R (Fin sy cy qy))) as [L|E|G]; symmetry in C;
    [apply Z.compare_lt_iff in C|apply Z.compare_eq_iff in C|apply Z.compare_gt_iff in C]; split; intros H; try lia; try assumption.
  - rewrite E in H. exfalso; revert H; apply Rlt_irrefl.
  - exfalso. apply (Rlt_irrefl (D2R (Fin sx cx qx))). eapply Rlt_trans; eassumption.
Qed.

Corollary sval_eq_D2R sx cx qx sy cy qy : -6176 <= qx -> -6176 <= qy ->
  (sval sx cx qx = sval sy cy qy <-> D2R (Fin sx cx qx) = D2R (Fin sy cy qy)).
Proof.
  intros Hx Hy. pose proof (sval_compare_D2R sx cx qx sy cy qy Hx Hy) as C.
  split; intros H.
  - apply Z.compare_eq_iff in H. rewrite H in C. apply Rcompare_Eq_inv, C.
  - rewrite H, Rcompare_Eq in C by reflexivity. symmetry in C. apply Z.compare_eq_iff, C.
Qed.
