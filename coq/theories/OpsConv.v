(* Layer M: conversions to/from integers (C06), from binary floating point (C07), BID <-> DPD (C19). *)
From Coq Require Import ZArith Bool List.
From Flocq Require Import Core.Core Calc.Bracket Calc.Round.
From DV Require Import Base Bid Arith OpsArith OpsCmp OpsMisc.
Import ListNotations.
Open Scope Z_scope.

(* ---------- decimal -> integer ---------- *)
Definition m_to_int (w:Z) (signed:bool) (md:rmode) (xflag:bool) (x:Z) : list outcome :=
  let indef := ([2 ^ (w - 1)], F_INV) in
  match decode x with
  | Fin s c q =>
      if c =? 0 then [([0], 0)]
      else if 20 <? q then [indef]
      else
        let '(n, inx) := if 0 <=? q then (c * 10 ^ q, false) else round_int md s c (- q) in
        let v := if s then - n else n in
        let lo := if signed then - 2 ^ (w - 1) else 0 in
        let hi := if signed then 2 ^ (w - 1) - 1 else 2 ^ w - 1 in
        if (lo <=? v) && (v <=? hi) then [([v mod 2 ^ w], if inx && xflag then F_INX else 0)] else [indef]
  | _ => [indef]
  end.

(* ---------- integer -> decimal ---------- *)
Definition m_from_int (w:Z) (signed:bool) (raw:Z) : list outcome :=
  let v := if signed then sint w (raw mod 2 ^ w) else raw mod 2 ^ w in
  out1 (Fin (v <? 0) (Z.abs v) 0) 0.

(* ---------- binary floating point -> decimal (C07) ---------- *)
(* ebits exponent bits, fbits fraction bits; bias = 2^(ebits-1) - 1 *)
Definition is_canonical_qnan_of_sign (s:bool) (outs : list Z) : bool :=
  match outs with
  | [r] => canonical_bits r && match decode r with NaN s' false _ => Bool.eqb s s' | _ => false end
  | _ => false
  end.

Inductive bin_expect := BList (l : list outcome) | BNaN (s:bool) (fl:Z).

Definition m_from_bin (ebits fbits : Z) (md:rmode) (bits:Z) : bin_expect :=
  let s := 2 ^ (ebits + fbits) <=? bits in
  let r := bits mod 2 ^ (ebits + fbits) in
  let e := r / 2 ^ fbits in
  let f := r mod 2 ^ fbits in
  let emax := 2 ^ ebits - 1 in
  let bias := 2 ^ (ebits - 1) - 1 in
  if e =? emax then
    (if f =? 0 then BList (out1 (Inf s) 0)
     else BNaN s (if f <? 2 ^ (fbits - 1) then F_INV else 0))
  else if (e =? 0) && (f =? 0) then BList (out1 (Fin s 0 0) 0)
  else
    let m := if e =? 0 then f else f + 2 ^ fbits in
    let E := Z.max e 1 - bias - fbits in
    let den := if e =? 0 then F_DEN else 0 in
    let '(d, fl) := if 0 <=? E then rp md s (m * 2 ^ E) 0 loc_Exact 0 s
                    else rp md s (m * 5 ^ (- E)) E loc_Exact 0 s in
    BList (out1 d (flbits fl + den)).

(* ---------- BID <-> DPD (C19) ---------- *)
Definition bit (v:Z) (i:Z) : Z := (v / 2 ^ i) mod 2.
(* three decimal digits (n < 1000) -> 10-bit declet, IEEE 754-2008 table 3.4 *)
Definition declet_enc (n:Z) : Z :=
  let a := n / 100 in let b := (n / 10) mod 10 in let c := n mod 10 in
  let a0 := bit a 3 in let a1 := bit a 2 in let a2 := bit a 1 in let a3 := bit a 0 in
  let b0 := bit b 3 in let b1 := bit b 2 in let b2 := bit b 1 in let b3 := bit b 0 in
  let c0 := bit c 3 in let c1 := bit c 2 in let c2 := bit c 1 in let c3 := bit c 0 in
  let mk p0 p1 p2 p3 p4 p5 p6 p7 p8 p9 :=
     p0*512 + p1*256 + p2*128 + p3*64 + p4*32 + p5*16 + p6*8 + p7*4 + p8*2 + p9 in
  match a0, b0, c0 with
  | 0,0,0 => mk a1 a2 a3 b1 b2 b3 0 c1 c2 c3
  | 0,0,_ => mk a1 a2 a3 b1 b2 b3 1 0 0 c3
  | 0,_,0 => mk a1 a2 a3 c1 c2 b3 1 0 1 c3
  | _,0,0 => mk c1 c2 a3 b1 b2 b3 1 1 0 c3
  | 0,_,_ => mk a1 a2 a3 1 0 b3 1 1 1 c3
  | _,0,_ => mk b1 b2 a3 0 1 b3 1 1 1 c3
  | _,_,0 => mk c1 c2 a3 0 0 b3 1 1 1 c3
  | _,_,_ => mk 0 0 a3 1 1 b3 1 1 1 c3
  end.
(* 10-bit declet (all 1024 patterns) -> three digits, table 3.3 *)
Definition declet_dec (v:Z) : Z :=
  let p i := bit v (9 - i) in
  let d3 x y z := x*4 + y*2 + z in
  let '(a,b,c) :=
    if p 6 =? 0 then (d3 (p 0) (p 1) (p 2), d3 (p 3) (p 4) (p 5), d3 (p 7) (p 8) (p 9))
    else match p 7, p 8 with
    | 0,0 => (d3 (p 0) (p 1) (p 2), d3 (p 3) (p 4) (p 5), 8 + p 9)
    | 0,_ => (d3 (p 0) (p 1) (p 2), 8 + p 5, d3 (p 3) (p 4) (p 9))
    | _,0 => (8 + p 2, d3 (p 3) (p 4) (p 5), d3 (p 0) (p 1) (p 9))
    | _,_ => match p 3, p 4 with
             | 0,0 => (8 + p 2, 8 + p 5, d3 (p 0) (p 1) (p 9))
             | 0,_ => (8 + p 2, d3 (p 0) (p 1) (p 5), 8 + p 9)
             | _,0 => (d3 (p 0) (p 1) (p 2), 8 + p 5, 8 + p 9)
             | _,_ => (8 + p 2, 8 + p 5, 8 + p 9)
             end
    end in
  a*100 + b*10 + c.

(* 33 digits <-> eleven declets (110 bits) *)
Fixpoint declets_enc (k:nat) (n:Z) : Z :=
  match k with O => 0 | S k' => declet_enc (n mod 1000) + 1024 * declets_enc k' (n / 1000) end.
Fixpoint declets_dec (k:nat) (t:Z) : Z :=
  match k with O => 0 | S k' => declet_dec (t mod 1024) + 1000 * declets_dec k' (t / 1024) end.

Definition P12 := 4096.
(* the DPD word of a datum *)
Definition dpd_encode (d:dec) : Z :=
  let sgn (s:bool) := if s then P127 else 0 in
  match d with
  | Inf s => sgn s + 30 * P122
  | NaN s sg p => sgn s + 31 * P122 + (if sg then P121 else 0) + declets_enc 11 p
  | Fin s c q =>
      let E := q + 6176 in
      let lead := c / T33 in let rest := c mod T33 in
      let comb := if 8 <=? lead then 3 * 2 ^ 15 + (E / P12) * 2 ^ 13 + (lead mod 2) * P12 + E mod P12
                  else (E / P12) * 2 ^ 15 + lead * P12 + E mod P12 in
      sgn s + comb * P110 + declets_enc 11 rest
  end.
(* the datum of a DPD word (every 128-bit pattern) *)
Definition dpd_decode (w:Z) : dec :=
  let s := P127 <=? w in
  let r := w mod P127 in
  let comb := r / P110 in        (* 17 bits *)
  let t := r mod P110 in
  let g5 := comb / P12 in
  let rest := declets_dec 11 t in
  if g5 =? 30 then Inf s
  else if g5 =? 31 then NaN s (1 <=? (comb / 2048) mod 2) rest
  else if comb / 2 ^ 15 =? 3 then
    Fin s ((8 + (comb / P12) mod 2) * T33 + rest) (((comb / 2 ^ 13) mod 4) * P12 + comb mod P12 - 6176)
  else Fin s (((comb / P12) mod 8) * T33 + rest) ((comb / 2 ^ 15) * P12 + comb mod P12 - 6176).

Definition m_encode_dpd (x:Z) : list outcome := [([dpd_encode (decode x)], 0)].
Definition m_decode_dpd (w:Z) : list outcome := [([encode (dpd_decode w)], 0)].
