(* Proofs for TinyAfter.v: the model with tininess detected after rounding satisfies ieee_result_ta, which differs
   from ieee_result in the underflow bit only, and only on the band |x| < 10^-6143 <= |x rounded to 34 digits|. *)
From Coq Require Import ZArith Reals Lia Lra Bool Psatz List.
From Flocq Require Import Core.Core Calc.Bracket Calc.Round.
From DV Require Import Base RoundProofs SpecProofs Bid BidProofs Arith ArithProofs OpsArith OpsArithProofs Judge TinyAfter.
Import ListNotations.
Open Scope Z_scope.
Set Default Timeout 30.

(* ---------- the unbounded 34-digit format ---------- *)
Global Instance flx_valid : Valid_exp (FLX_exp 34).
Proof. apply FLX_exp_valid. unfold Prec_gt_0. lia. Qed.

Lemma flx_fmt_bpow k : generic_format radix10 (FLX_exp 34) (bpow10 k).
Proof. apply generic_format_bpow. unfold FLX_exp. lia. Qed.

Lemma flx_abs_le md x k :
  (Rabs x <= bpow10 k)%R -> (Rabs (round radix10 (FLX_exp 34) (rnd_of md) x) <= bpow10 k)%R.
Proof. intros H. apply abs_round_le_generic; try typeclasses eauto. apply flx_fmt_bpow. exact H. Qed.

Lemma flx_abs_ge md x k :
  (bpow10 k <= Rabs x)%R -> (bpow10 k <= Rabs (round radix10 (FLX_exp 34) (rnd_of md) x))%R.
Proof. intros H. apply abs_round_ge_generic; try typeclasses eauto. apply flx_fmt_bpow. exact H. Qed.

Lemma flx_neq_0 md x : x <> 0%R -> round radix10 (FLX_exp 34) (rnd_of md) x <> 0%R.
Proof.
  intros H. apply round_neq_0_negligible_exp; try typeclasses eauto.
  apply negligible_exp_FLX. unfold Prec_gt_0. lia. exact H.
Qed.

(* tininess after rounding implies tininess before rounding *)
Lemma after_implies_before md x :
  (Rabs (round radix10 (FLX_exp 34) (rnd_of md) x) < bpow10 (-6143))%R -> (Rabs x < bpow10 (-6143))%R.
Proof.
  intros H. destruct (Rlt_or_le (Rabs x) (bpow10 (-6143))) as [L|G]; [exact L|exfalso].
  apply (flx_abs_ge md) in G. lra.
Qed.

(* ---------- magnitude bounds of a located triple ---------- *)
Lemma located_lt c e x l : 0 <= c -> inbetween_float radix10 c e (Rabs x) l ->
  (Rabs x < bpow10 (Zdigits radix10 c + e))%R.
Proof.
  intros Hc Hin. destruct (inbetween_float_bounds _ _ _ _ _ Hin) as [_ B2].
  apply Rlt_le_trans with (1 := B2).
  assert (Hd := Zdigits_correct radix10 c). rewrite Z.abs_eq in Hd by lia. change (radix_val radix10) with 10 in Hd.
  assert (0 <= Zdigits radix10 c) by apply Zdigits_ge_0.
  apply Rle_trans with (F2R (Float radix10 (10 ^ Zdigits radix10 c) e)).
  - apply F2R_le. cbn [Fnum]. lia.
  - rewrite F2R_pow10 by lia. apply Rle_refl.
Qed.

Lemma located_ge c e x l : 0 < c -> inbetween_float radix10 c e (Rabs x) l ->
  (bpow10 (Zdigits radix10 c + e - 1) <= Rabs x)%R.
Proof.
  intros Hc Hin. destruct (inbetween_float_bounds _ _ _ _ _ Hin) as [B1 _].
  apply Rle_trans with (2 := B1).
  assert (Hd := Zdigits_correct radix10 c). rewrite Z.abs_eq in Hd by lia. change (radix_val radix10) with 10 in Hd.
  assert (0 < Zdigits radix10 c) by (apply Zdigits_gt_0; lia).
  apply Rle_trans with (F2R (Float radix10 (10 ^ (Zdigits radix10 c - 1)) e)).
  - rewrite F2R_pow10 by lia. apply bpow_le. lia.
  - apply F2R_le. cbn [Fnum]. lia.
Qed.

Lemma located_c_pos c e x l : 0 <= c -> inbetween_float radix10 c e (Rabs x) l -> x <> 0%R ->
  (e <= fexp (Zdigits radix10 c + e) \/ l = loc_Exact) -> -6176 < Zdigits radix10 c + e -> 0 < c.
Proof.
  intros Hc Hin Hx H2 Hd. destruct (Z.eq_dec c 0) as [E|E]; [exfalso|lia]. subst c.
  change (Zdigits radix10 0) with 0 in *. destruct H2 as [H2|H2].
  - unfold fexp, FLT_exp, qmin, prec in H2. lia.
  - subst l. inversion Hin as [Heq|]. rewrite F2R_0 in Heq.
    assert (0 < Rabs x)%R by (now apply Rabs_pos_lt). lra.
Qed.

(* a positive integer magnitude against 10^-6143 *)
Lemma digits_tiny c e : c <> 0 ->
  (Zdigits radix10 c + e <=? -6143) = true <-> (F2R (Float radix10 (Z.abs c) e) < bpow10 (-6143))%R.
Proof.
  intros Hc. rewrite <- (Zdigits_abs radix10 c).
  set (y := F2R (Float radix10 (Z.abs c) e)).
  assert (Hy : (0 < y)%R) by (apply F2R_gt_0; cbn [Fnum]; lia).
  assert (E : Rabs y = y) by (apply Rabs_pos_eq; lra).
  rewrite <- E.
  apply (tiny_iff (Z.abs c) e y loc_Exact).
  - lia.
  - rewrite E. constructor. reflexivity.
  - right. reflexivity.
  - lra.
Qed.

(* ---------- the value of the FLX rounding from a located triple ---------- *)
Lemma round_value_flx md x c e l :
  inbetween_float radix10 c e (Rabs x) l ->
  (e <= FLX_exp 34 (Zdigits radix10 c + e) \/ l = loc_Exact) ->
  round radix10 (FLX_exp 34) (rnd_of md) x =
    let '(c1, e1, l1) := truncate radix10 (FLX_exp 34) (c, e, l) in
    F2R (Float radix10 (cond_Zopp (Rlt_bool x 0) (choice md (Rlt_bool x 0) c1 l1)) e1).
Proof.
  intros H1 H2. destruct md; simpl rnd_of; unfold choice.
  - rewrite (round_trunc_sign_NE_correct radix10 (FLX_exp 34) x c e l H1 H2). destruct truncate as [[? ?] ?]. reflexivity.
  - rewrite (round_trunc_sign_DN_correct radix10 (FLX_exp 34) x c e l H1 H2). destruct truncate as [[? ?] ?]. reflexivity.
  - rewrite (round_trunc_sign_UP_correct radix10 (FLX_exp 34) x c e l H1 H2). destruct truncate as [[? ?] ?]. reflexivity.
  - rewrite (round_trunc_sign_ZR_correct radix10 (FLX_exp 34) x c e l H1 H2). destruct truncate as [[? ?] ?]. reflexivity.
  - rewrite (round_trunc_sign_NA_correct radix10 (FLX_exp 34) x c e l H1 H2). destruct truncate as [[? ?] ?]. reflexivity.
Qed.

(* ---------- the computed boolean is tininess after rounding ---------- *)
(* H2 is the hypothesis of round_pack_correct; H3 is needed in addition: on the decade [10^-6144, 10^-6143) the
   triple must locate |x| finely enough for a 34-digit rounding (it does for every caller: exact triples, and
   inexact ones with at least 34 digits).  See tiny_after_needs_H3 for why H2 alone cannot suffice. *)
Lemma tiny_after_iff md c e x l : 0 <= c -> inbetween_float radix10 c e (Rabs x) l -> x <> 0%R ->
  (e <= fexp (Zdigits radix10 c + e) \/ l = loc_Exact) ->
  (Zdigits radix10 c + e = -6143 -> e <= FLX_exp 34 (Zdigits radix10 c + e) \/ l = loc_Exact) ->
  tiny_after md (Rlt_bool x 0) c e l = true <->
  (Rabs (round radix10 (FLX_exp 34) (rnd_of md) x) < bpow10 (-6143))%R.
Proof.
  intros Hc Hin Hx H2 H3. unfold tiny_after. cbv zeta.
  destruct (Z.ltb_spec (Zdigits radix10 c + e) (-6143)) as [L|G].
  - (* below the decade *)
    split; [intros _|reflexivity].
    apply Rle_lt_trans with (bpow10 (-6144)); [|apply bpow_lt; lia].
    apply flx_abs_le. apply Rle_trans with (bpow10 (Zdigits radix10 c + e)).
    + apply Rlt_le. now apply (located_lt c e x l).
    + apply bpow_le. lia.
  - destruct (Z.ltb_spec (-6143) (Zdigits radix10 c + e)) as [L'|G'].
    + (* above *)
      split; [discriminate|]. intros H. exfalso.
      assert (Hcp : 0 < c) by (apply (located_c_pos c e x l); try assumption; lia).
      assert (bpow10 (-6143) <= Rabs (round radix10 (FLX_exp 34) (rnd_of md) x))%R; [|lra].
      apply flx_abs_ge. apply Rle_trans with (2 := located_ge c e x l Hcp Hin). apply bpow_le. lia.
    + (* the decade [10^-6144, 10^-6143) *)
      assert (Ed : Zdigits radix10 c + e = -6143) by lia.
      generalize (round_value_flx md x c e l Hin (H3 Ed)).
      destruct (truncate radix10 (FLX_exp 34) (c, e, l)) as [[c1 e1] l1].
      set (c2 := choice md (Rlt_bool x 0) c1 l1). intros Hr.
      assert (Habs : Rabs (round radix10 (FLX_exp 34) (rnd_of md) x) = F2R (Float radix10 (Z.abs c2) e1)).
      { rewrite Hr, F2R_cond_Zopp, abs_cond_Ropp. symmetry. apply F2R_Zabs. }
      assert (Hc2 : c2 <> 0).
      { intros E0. apply (flx_neq_0 md x Hx). rewrite Hr, E0. destruct (Rlt_bool x 0); apply F2R_0. }
      rewrite Habs. apply digits_tiny. exact Hc2.
Qed.

(* ---------- from ieee_result to ieee_result_ta ---------- *)
Lemma fmt_bpow_flt k : -6176 <= k -> generic_format radix10 fexp (bpow10 k).
Proof. intros H. apply generic_format_bpow. unfold fexp, FLT_exp, qmin, prec. lia. Qed.

Lemma no_overflow_when_small md x : (Rabs x < bpow10 (-6143))%R -> Rlt_bool MAXV (Rabs (rounded md x)) = false.
Proof.
  intros H. apply Rlt_bool_false. apply Rle_trans with (bpow10 (-6143)).
  - unfold rounded. apply abs_round_le_generic; try typeclasses eauto. apply fmt_bpow_flt; lia. lra.
  - apply Rle_trans with (bpow10 qmax). apply bpow_le; unfold qmax; lia.
    unfold MAXV. rewrite <- (F2R_bpow radix10 qmax). apply F2R_le. cbn [Fnum]. unfold MAXC. lia.
Qed.

Lemma rounded_0 md : rounded md 0 = 0%R.
Proof. unfold rounded. apply round_0. typeclasses eauto. Qed.

(* any boolean that decides tininess after rounding (for x <> 0) turns a default-configuration result into
   a result of the secondary configuration: same datum, same inexact and overflow bits *)
Lemma ieee_result_to_ta md x pref zs d fl (ta:bool) :
  ieee_result md x pref zs d fl ->
  (x <> 0%R -> (ta = true <-> (Rabs (round radix10 (FLX_exp 34) (rnd_of md) x) < bpow10 (-6143))%R)) ->
  ieee_result_ta md x pref zs d (mkfl (f_inexact fl) (f_inexact fl && ta) (f_overflow fl)).
Proof.
  unfold ieee_result, ieee_result_ta. cbv zeta.
  destruct (Rlt_bool MAXV (Rabs (rounded md x))) eqn:Hov.
  - intros [-> ->] Hta. split; [reflexivity|]. cbn [f_inexact f_underflow f_overflow andb].
    destruct ta; [exfalso|reflexivity].
    assert (Hx : x <> 0%R).
    { intros E. rewrite E, rounded_0, Rabs_R0 in Hov. rewrite Rlt_bool_false in Hov by apply MAXV_ge0. discriminate. }
    assert (Hs : (Rabs x < bpow10 (-6143))%R) by (apply (after_implies_before md); apply (Hta Hx); reflexivity).
    rewrite (no_overflow_when_small md x Hs) in Hov. discriminate.
  - intros (s & c & q & -> & R1 & V1 & S1 & Z1 & O1 & I1 & U1 & P1 & N1) Hta.
    exists s, c, q. split; [reflexivity|]. split; [exact R1|]. split; [exact V1|]. split; [exact S1|].
    split; [exact Z1|]. cbn [f_inexact f_underflow f_overflow].
    split; [exact O1|]. split; [exact I1|]. split; [|split; [exact P1|exact N1]].
    split.
    + intros H. apply andb_prop in H. destruct H as [Hi Ht].
      assert (Hne : rounded md x <> x) by (apply I1; exact Hi).
      split; [exact Hne|]. apply Hta; [|exact Ht].
      intros E. apply Hne. rewrite E. apply rounded_0.
    + intros [Hne Ht]. apply andb_true_intro. split; [apply I1; exact Hne|].
      apply Hta; [|exact Ht]. intros E. apply Hne. rewrite E. apply rounded_0.
Qed.

Lemma flx_imp_flt d e : e <= FLX_exp 34 d -> e <= fexp d.
Proof. unfold fexp, FLT_exp, FLX_exp, qmin, prec. lia. Qed.

Theorem round_pack_ta_correct md x s c e l pref zs :
  0 <= c -> inbetween_float radix10 c e (Rabs x) l ->
  (x <> 0%R -> s = Rlt_bool x 0) ->
  (e <= fexp (Zdigits radix10 c + e) \/ l = loc_Exact) ->
  (Zdigits radix10 c + e = -6143 -> e <= FLX_exp 34 (Zdigits radix10 c + e) \/ l = loc_Exact) ->
  let '(d, fl) := round_pack_ta md s c e l pref zs in ieee_result_ta md x pref zs d fl.
Proof.
  intros Hc Hin Hs H2 H3. unfold round_pack_ta.
  generalize (round_pack_correct md x s c e l pref zs Hc Hin Hs H2).
  destruct (round_pack md s c e l pref zs) as [d fl]. intros H.
  apply ieee_result_to_ta; [exact H|]. intros Hx. rewrite (Hs Hx). now apply tiny_after_iff.
Qed.

(* the deep-underflow triple of the shortcut is outside the critical decade *)
Theorem rp_ta_correct md x s c e l pref zs :
  0 <= c -> inbetween_float radix10 c e (Rabs x) l ->
  (x <> 0%R -> s = Rlt_bool x 0) ->
  (e <= fexp (Zdigits radix10 c + e) \/ l = loc_Exact) ->
  (Zdigits radix10 c + e = -6143 -> e <= FLX_exp 34 (Zdigits radix10 c + e) \/ l = loc_Exact) ->
  let '(d, fl) := rp_ta md s c e l pref zs in ieee_result_ta md x pref zs d fl.
Proof.
  intros Hc Hin Hs H2 H3. unfold rp_ta.
  generalize (shortcut_ok c e x l Hc Hin H2).
  assert (H3' : let '(c', e', l') := shortcut c e l in
                Zdigits radix10 c' + e' = -6143 -> e' <= FLX_exp 34 (Zdigits radix10 c' + e') \/ l' = loc_Exact).
  { unfold shortcut. destruct ((Zdigits radix10 c + e <=? -6177) && negb ((c =? 0) && is_exact l)); [|exact H3].
    change (Zdigits radix10 0) with 0. intros E. discriminate E. }
  destruct (shortcut c e l) as [[c' e'] l']. intros (A & B & C). apply round_pack_ta_correct; assumption.
Qed.

(* the form used by the callers: the triple is exact, or fine enough for a 34-digit rounding *)
Corollary rp_ta_correct_flx md x s c e l pref zs :
  0 <= c -> inbetween_float radix10 c e (Rabs x) l ->
  (x <> 0%R -> s = Rlt_bool x 0) ->
  (e <= FLX_exp 34 (Zdigits radix10 c + e) \/ l = loc_Exact) ->
  let '(d, fl) := rp_ta md s c e l pref zs in ieee_result_ta md x pref zs d fl.
Proof.
  intros Hc Hin Hs H2. apply rp_ta_correct; try assumption.
  - destruct H2 as [H2|H2]; [left; now apply flx_imp_flt|right; exact H2].
  - intros _. exact H2.
Qed.

(* ---------- exact triples ---------- *)
Lemma rp_ta_exact md v q pref zs :
  let '(d, fl) := rp_ta md (v <? 0) (Z.abs v) q loc_Exact pref zs in
  ieee_result_ta md (F2R (Float radix10 v q)) pref zs d fl.
Proof.
  apply rp_ta_correct_flx.
  - apply Z.abs_nonneg.
  - rewrite <- F2R_Zabs. constructor. reflexivity.
  - intros Hnz. destruct (Z.ltb_spec v 0) as [L|G].
    + symmetry. apply Rlt_bool_true. apply F2R_lt_0. exact L.
    + symmetry. apply Rlt_bool_false. apply F2R_ge_0. exact G.
  - right. reflexivity.
Qed.

Lemma rp_ta_exact_sm md s c q pref zs : 0 <= c ->
  let '(d, fl) := rp_ta md s c q loc_Exact pref zs in
  ieee_result_ta md (D2R (Fin s c q)) pref zs d fl.
Proof.
  intros Hc. apply rp_ta_correct_flx.
  - exact Hc.
  - unfold D2R. rewrite abs_signed by exact Hc. constructor. reflexivity.
  - intros Hnz. unfold D2R in *. rewrite F2R_cond_Zopp in *.
    assert (0 <= F2R (Float radix10 c q))%R by (apply F2R_ge_0; exact Hc).
    destruct s; cbn [cond_Ropp] in *; symmetry; [apply Rlt_bool_true|apply Rlt_bool_false]; lra.
  - right. reflexivity.
Qed.

(* ---------- addition of exact triples (the second half of the fma) ---------- *)
Theorem add_fin_ta_correct md sx cx qx sy cy qy :
  let x := (D2R (Fin sx cx qx) + D2R (Fin sy cy qy))%R in
  let '(d, fl) := add_fin_ta md sx cx qx sy cy qy in
  ieee_result_ta md x (Z.min qx qy) (zs_add md sx sy) d fl.
Proof.
  intros x. unfold add_fin_ta.
  set (q := Z.min qx qy). set (v := sval sx cx * 10 ^ (qx - q) + sval sy cy * 10 ^ (qy - q)).
  assert (Hx : x = F2R (Float radix10 v q)).
  { unfold x. rewrite (D2R_at_min sx cx qx q), (D2R_at_min sy cy qy q) by (unfold q; lia).
    unfold v, F2R; cbn [Fnum Fexp]. rewrite plus_IZR. ring. }
  rewrite Hx. apply rp_ta_exact.
Qed.

Theorem add_far_ta_correct md sx cx qx sy cy qy zs :
  0 < cx -> 0 < cy < 10 ^ 70 -> qy + FARGAP < qx ->
  let x := (D2R (Fin sx cx qx) + D2R (Fin sy cy qy))%R in
  let '(d, fl) := add_far_ta md sx cx qx sy qy zs in
  ieee_result_ta md x (Z.min qx qy) zs d fl.
Proof.
  intros Hcx Hcy Hgap x. unfold FARGAP in Hgap. unfold add_far_ta.
  set (e' := qx - 40). set (C := cx * 10 ^ 40).
  set (X := D2R (Fin sx cx qx)). set (Y := D2R (Fin sy cy qy)).
  assert (H40 : 0 < 10 ^ 40) by (apply Z.pow_pos_nonneg; lia).
  assert (HC : 0 < C) by (unfold C; nia).
  assert (HX : X = F2R (Float radix10 (cond_Zopp sx C) e')).
  { unfold X, D2R, C, e'. rewrite (F2R_scale (cond_Zopp sx cx) qx 40) by lia.
    f_equal. f_equal. destruct sx; simpl; ring. }
  assert (HXabs : Rabs X = F2R (Float radix10 C e')) by (rewrite HX; apply abs_signed; lia).
  set (u := bpow radix10 e').
  assert (Hu : (0 < u)%R) by apply bpow_gt_0.
  assert (HYabs : (0 < Rabs Y < u / 2)%R).
  { split.
    - apply Rabs_pos_lt. unfold Y, D2R. apply F2R_neq_0. cbn [Fnum]. destruct sy; simpl; lia.
    - apply Rlt_le_trans with (bpow radix10 (70 + qy)).
      + unfold Y, D2R. apply F2R_abs_lt_pow. lia. destruct sy; simpl; rewrite ?Z.abs_opp; rewrite Z.abs_eq; lia.
      + apply Rle_trans with (bpow radix10 (e' - 1)). apply bpow_le. unfold e'. lia.
        unfold u. replace e' with (e' - 1 + 1) at 2 by ring. rewrite bpow_plus. simpl bpow at 2.
        assert (0 < bpow radix10 (e' - 1))%R by apply bpow_gt_0. simpl. lra. }
  assert (Hd : F2R (Float radix10 C e') = (IZR C * u)%R) by reflexivity.
  assert (Hd1 : F2R (Float radix10 (C + 1) e') = (IZR C * u + u)%R).
  { unfold F2R, u; cbn [Fnum Fexp]. rewrite plus_IZR. simpl. ring. }
  assert (Hdm : F2R (Float radix10 (C - 1) e') = (IZR C * u - u)%R).
  { unfold F2R, u; cbn [Fnum Fexp]. rewrite minus_IZR. simpl. ring. }
  assert (HC1 : (1 <= IZR C)%R) by (apply IZR_le; lia).
  assert (EX : X = (if sx then - Rabs X else Rabs X)%R).
  { rewrite HXabs. rewrite HX at 1. rewrite F2R_cond_Zopp. destruct sx; reflexivity. }
  assert (EY : Y = (if sy then - Rabs Y else Rabs Y)%R).
  { unfold Y, D2R. rewrite F2R_cond_Zopp.
    assert (0 <= F2R (Float radix10 cy qy))%R by (apply F2R_ge_0; simpl; lia).
    destruct sy; cbn [cond_Ropp]; [rewrite Rabs_Ropp|]; rewrite Rabs_pos_eq by assumption; reflexivity. }
  assert (Hbig : (u <= Rabs X)%R) by (rewrite HXabs, Hd; nra).
  assert (Hxeq : x = ((if sx then - Rabs X else Rabs X) + (if sy then - Rabs Y else Rabs Y))%R).
  { unfold x. fold X Y. rewrite <- EX, <- EY. reflexivity. }
  generalize (sign_abs_lemma sx sy (Rabs X) (Rabs Y) u Hu Hbig HYabs). cbv zeta. rewrite <- Hxeq.
  intros Hsign.
  destruct (Bool.eqb sx sy) eqn:Hb.
  - destruct Hsign as (S1 & S2 & S3).
    apply rp_ta_correct_flx.
    + lia.
    + rewrite S3. unfold inbetween_float. constructor.
      * rewrite Hd, Hd1, HXabs, Hd. lra.
      * apply Rcompare_Lt. rewrite Hd, Hd1, HXabs, Hd. lra.
    + intros _. now rewrite S1.
    + left. unfold C. change (10 ^ 40) with (Zpower radix10 40). rewrite Zdigits_mult_Zpower by lia.
      assert (0 < Zdigits radix10 cx) by (apply Zdigits_gt_0; lia).
      unfold FLX_exp, e' in *. lia.
  - destruct Hsign as (S1 & S2 & S3).
    apply rp_ta_correct_flx.
    + lia.
    + rewrite S3. unfold inbetween_float. replace (C - 1 + 1) with C by ring. constructor.
      * rewrite Hd, Hdm, HXabs, Hd. lra.
      * apply Rcompare_Gt. rewrite Hd, Hdm, HXabs, Hd. lra.
    + intros _. now rewrite S1.
    + left.
      assert (Hdig : Zdigits radix10 (C - 1) >= 40).
      { assert (10 ^ 39 <= C - 1). { unfold C. assert (10 ^ 40 = 10 * 10 ^ 39) by reflexivity. nia. }
        assert (39 < Zdigits radix10 (C - 1)); [|lia]. apply (Zdigits_gt_Zpower radix10). rewrite Z.abs_eq by lia. exact H. }
      unfold FLX_exp, e' in *. lia.
Qed.

Theorem add_gen_ta_correct md sx cx qx sy cy qy :
  0 <= cx < 10 ^ 70 -> 0 <= cy < 10 ^ 70 ->
  let x := (D2R (Fin sx cx qx) + D2R (Fin sy cy qy))%R in
  let '(d, fl) := add_gen_ta md sx cx qx sy cy qy in
  ieee_result_ta md x (Z.min qx qy) (zs_add md sx sy) d fl.
Proof.
  intros Hcx Hcy x. unfold add_gen_ta.
  destruct (Z.eqb_spec cx 0) as [Ex|Ex]; destruct (Z.eqb_spec cy 0) as [Ey|Ey]; cbn [andb].
  - subst cx cy. assert (Hx : x = 0%R) by (unfold x; rewrite !D2R_zero; ring). rewrite Hx.
    apply rp_ta_correct_flx.
    + lia.
    + rewrite Rabs_R0. replace 0%R with (F2R (Float radix10 0 (Z.min qx qy))) by apply F2R_0. constructor. reflexivity.
    + intros H. now elim H.
    + right. reflexivity.
  - subst cx. assert (Hx : x = D2R (Fin sy cy qy)) by (unfold x; rewrite D2R_zero; ring). rewrite Hx.
    apply rp_ta_exact_sm. lia.
  - subst cy. assert (Hx : x = D2R (Fin sx cx qx)) by (unfold x; rewrite D2R_zero; ring). rewrite Hx.
    apply rp_ta_exact_sm. lia.
  - destruct (Z.leb_spec (Z.abs (qx - qy)) FARGAP) as [Hn|Hf].
    + apply add_fin_ta_correct.
    + destruct (Z.ltb_spec qy qx) as [L|G].
      * apply add_far_ta_correct; lia.
      * assert (Hx : x = (D2R (Fin sy cy qy) + D2R (Fin sx cx qx))%R) by (unfold x; ring).
        rewrite Hx, Z.min_comm, zs_add_comm. apply add_far_ta_correct; lia.
Qed.

Theorem mul_fin_ta_correct md sx cx qx sy cy qy : 0 <= cx -> 0 <= cy ->
  let x := (D2R (Fin sx cx qx) * D2R (Fin sy cy qy))%R in
  let '(d, fl) := mul_fin_ta md sx cx qx sy cy qy in
  ieee_result_ta md x (qx + qy) (xorb sx sy) d fl.
Proof.
  intros Hx Hy x. unfold x, mul_fin_ta. rewrite D2R_mul. apply rp_ta_exact_sm. nia.
Qed.

Theorem fma_fin_ta_correct md sx cx qx sy cy qy sz cz qz :
  0 <= cx < 10 ^ 34 -> 0 <= cy < 10 ^ 34 -> 0 <= cz < 10 ^ 34 ->
  let x := (D2R (Fin sx cx qx) * D2R (Fin sy cy qy) + D2R (Fin sz cz qz))%R in
  let '(d, fl) := fma_fin_ta md sx cx qx sy cy qy sz cz qz in
  ieee_result_ta md x (Z.min (qx + qy) qz) (zs_add md (xorb sx sy) sz) d fl.
Proof.
  intros Hx Hy Hz x. unfold x, fma_fin_ta. rewrite D2R_mul. apply add_gen_ta_correct.
  - assert (10 ^ 70 = 10 ^ 34 * 10 ^ 34 * 100) by reflexivity. nia.
  - assert (10 ^ 34 < 10 ^ 70) by (vm_compute; reflexivity). lia.
Qed.

(* ---------- the two specifications compared ---------- *)
(* the datum clauses shared by ieee_result and ieee_result_ta determine the datum *)
Lemma datum_unique md x pref (zs:bool) s c q s' c' q' :
  repr_ok c q -> D2R (Fin s c q) = rounded md x ->
  (x <> 0%R -> s = Rlt_bool x 0) -> (x = 0%R -> s = zs) ->
  (rounded md x = x -> forall c2 q2, repr_ok c2 q2 -> F2R (Float radix10 c2 q2) = Rabs x ->
                 Z.abs (q - pref) <= Z.abs (q2 - pref)) ->
  (rounded md x <> x -> q = qmin \/ 10^33 <= c) ->
  repr_ok c' q' -> D2R (Fin s' c' q') = rounded md x ->
  (x <> 0%R -> s' = Rlt_bool x 0) -> (x = 0%R -> s' = zs) ->
  (rounded md x = x -> forall c2 q2, repr_ok c2 q2 -> F2R (Float radix10 c2 q2) = Rabs x ->
                 Z.abs (q' - pref) <= Z.abs (q2 - pref)) ->
  (rounded md x <> x -> q' = qmin \/ 10^33 <= c') ->
  Fin s c q = Fin s' c' q'.
Proof.
  intros R1 V1 S1 Z1 P1 N1 R2 V2 S2 Z2 P2 N2.
  assert (Es : s = s').
  { destruct (Req_dec x 0) as [E|NE].
    - rewrite (Z1 E), (Z2 E). reflexivity.
    - rewrite (S1 NE), (S2 NE). reflexivity. }
  subst s'.
  assert (A1 : F2R (Float radix10 c q) = Rabs (rounded md x)).
  { rewrite <- V1. unfold D2R. symmetry. apply abs_signed. apply R1. }
  assert (A2 : F2R (Float radix10 c' q') = Rabs (rounded md x)).
  { rewrite <- V2. unfold D2R. symmetry. apply abs_signed. apply R2. }
  assert (c = c' /\ q = q') as [-> ->]; [|reflexivity].
  destruct (Req_dec (rounded md x) x) as [E|NE].
  - apply (repr_unique_exact c q c' q' pref); try assumption.
    + rewrite A1, A2. reflexivity.
    + intros c2 q2 R V. apply (P1 E c2 q2 R). rewrite V, A1, E. reflexivity.
    + intros c2 q2 R V. apply (P2 E c2 q2 R). rewrite V, A1, E. reflexivity.
  - apply repr_unique_inexact; try assumption.
    + rewrite A1, A2. reflexivity.
    + apply N1; exact NE.
    + apply N2; exact NE.
Qed.

(* ieee_result_ta is functional too: it pins datum and flags *)
Theorem ieee_result_ta_functional md x pref zs d fl d' fl' :
  ieee_result_ta md x pref zs d fl -> ieee_result_ta md x pref zs d' fl' -> d = d' /\ fl = fl'.
Proof.
  unfold ieee_result_ta. cbv zeta. destruct (Rlt_bool MAXV (Rabs (rounded md x))).
  - intros [-> ->] [-> ->]. split; reflexivity.
  - intros (s & c & q & -> & R1 & V1 & S1 & Z1 & O1 & I1 & U1 & P1 & N1)
           (s' & c' & q' & -> & R2 & V2 & S2 & Z2 & O2 & I2 & U2 & P2 & N2).
    split.
    + apply (datum_unique md x pref zs); assumption.
    + apply flags_eq.
      * exact (bool_iff_eq _ _ _ I1 I2).
      * exact (bool_iff_eq _ _ _ U1 U2).
      * rewrite O1, O2. reflexivity.
Qed.

(* The feature changes nothing but the underflow bit, and can only clear it. *)
Theorem ta_differs_only_in_underflow md x pref zs d fl d' fl' :
  ieee_result md x pref zs d fl -> ieee_result_ta md x pref zs d' fl' ->
  d = d' /\ f_inexact fl = f_inexact fl' /\ f_overflow fl = f_overflow fl' /\
  (f_underflow fl' = true -> f_underflow fl = true).
Proof.
  unfold ieee_result, ieee_result_ta. cbv zeta. destruct (Rlt_bool MAXV (Rabs (rounded md x))).
  - intros [-> ->] [-> ->]. repeat split. intros H; exact H.
  - intros (s & c & q & -> & R1 & V1 & S1 & Z1 & O1 & I1 & U1 & P1 & N1)
           (s' & c' & q' & -> & R2 & V2 & S2 & Z2 & O2 & I2 & U2 & P2 & N2).
    split; [apply (datum_unique md x pref zs); assumption|].
    split; [exact (bool_iff_eq _ _ _ I1 I2)|]. split; [rewrite O1, O2; reflexivity|].
    intros H. apply U2 in H. destruct H as [Hne Ht]. apply U1. split; [exact Hne|].
    exact (after_implies_before md x Ht).
Qed.

(* When the two configurations differ: exactly when the result is inexact and the exact value is below 10^-6143
   in magnitude while its 34-digit rounding (unbounded exponent) is not, i.e. has been carried up to 10^-6143. *)
Theorem ta_differ_iff md x pref zs d fl d' fl' :
  ieee_result md x pref zs d fl -> ieee_result_ta md x pref zs d' fl' ->
  (f_underflow fl <> f_underflow fl' <->
   rounded md x <> x /\ (Rabs x < bpow10 (-6143) <= Rabs (round radix10 (FLX_exp 34) (rnd_of md) x))%R).
Proof.
  intros H H'. destruct (ta_differs_only_in_underflow _ _ _ _ _ _ _ _ H H') as (_ & _ & _ & Himp).
  revert H H'. unfold ieee_result, ieee_result_ta. cbv zeta.
  destruct (Rlt_bool MAXV (Rabs (rounded md x))) eqn:Hov.
  - intros [_ ->] [_ ->]. cbn [f_underflow]. split; [intros E; now elim E|].
    intros (_ & Hs & _). rewrite (no_overflow_when_small md x Hs) in Hov. discriminate.
  - intros (s & c & q & _ & _ & _ & _ & _ & _ & _ & U1 & _)
           (s' & c' & q' & _ & _ & _ & _ & _ & _ & _ & U2 & _).
    split.
    + intros Hd. destruct (f_underflow fl) eqn:E1; destruct (f_underflow fl') eqn:E2;
        try (now elim Hd); try (specialize (Himp eq_refl); discriminate).
      destruct (proj1 U1 eq_refl) as [Hne Hs]. split; [exact Hne|]. split; [exact Hs|].
      destruct (Rlt_or_le (Rabs (round radix10 (FLX_exp 34) (rnd_of md) x)) (bpow10 (-6143))) as [L|G]; [|exact G].
      assert (false = true) by (apply U2; split; assumption). discriminate.
    + intros (Hne & Hs & Hg) E.
      assert (E1 : f_underflow fl = true) by (apply U1; split; assumption).
      rewrite E in E1. apply U2 in E1. destruct E1 as [_ L]. lra.
Qed.

(* on that band the 34-digit rounding is exactly 10^-6143 *)
Lemma band_is_carry md x :
  (Rabs x < bpow10 (-6143) <= Rabs (round radix10 (FLX_exp 34) (rnd_of md) x))%R ->
  Rabs (round radix10 (FLX_exp 34) (rnd_of md) x) = bpow10 (-6143).
Proof.
  intros [Hs Hg]. apply Rle_antisym; [|exact Hg]. apply flx_abs_le. lra.
Qed.

(* outside the band the two specifications coincide *)
Theorem ta_same_outside_band md x pref zs d fl :
  ~ (Rabs x < bpow10 (-6143) <= Rabs (round radix10 (FLX_exp 34) (rnd_of md) x))%R ->
  (ieee_result md x pref zs d fl <-> ieee_result_ta md x pref zs d fl).
Proof.
  intros Hb.
  assert (Heq : forall r : R, (r <> x /\ (Rabs x < bpow10 (-6143))%R) <->
                       (r <> x /\ (Rabs (round radix10 (FLX_exp 34) (rnd_of md) x) < bpow10 (-6143))%R)).
  { intros r. split; intros [A B]; (split; [exact A|]).
    - destruct (Rlt_or_le (Rabs (round radix10 (FLX_exp 34) (rnd_of md) x)) (bpow10 (-6143))) as [L|G]; [exact L|].
      exfalso. apply Hb. split; assumption.
    - exact (after_implies_before md x B). }
  unfold ieee_result, ieee_result_ta. cbv zeta. destruct (Rlt_bool MAXV (Rabs (rounded md x))); [reflexivity|].
  split; intros (s & c & q & E & R1 & V1 & S1 & Z1 & O1 & I1 & U1 & P1 & N1); exists s, c, q;
    (split; [exact E|]); (split; [exact R1|]); (split; [exact V1|]); (split; [exact S1|]); (split; [exact Z1|]);
    (split; [exact O1|]); (split; [exact I1|]); (split; [|split; [exact P1|exact N1]]).
  - rewrite U1. apply Heq.
  - rewrite U1. symmetry. apply Heq.
Qed.

(* ---------- bit level ---------- *)
Lemma ieee_result_ta_wf md x pref zs d fl : ieee_result_ta md x pref zs d fl -> wf d.
Proof.
  unfold ieee_result_ta. destruct (Rlt_bool MAXV (Rabs (rounded md x))).
  - intros [-> _]. unfold overflow_result. destruct (to_inf md (Rlt_bool x 0)); cbn [wf]; [exact I|].
    unfold MAXC, qmax. rewrite T34_eq. lia.
  - intros (s & c & q & -> & [Hc Hq] & _). cbn [wf]. rewrite T34_eq. unfold qmin, qmax in Hq. lia.
Qed.

Definition finite_result_ta (md:rmode) (v:R) (pref:Z) (zs:bool) (l:list outcome) : Prop :=
  exists d fl, l = [([encode d], flbits fl)] /\ ieee_result_ta md v pref zs d fl /\ canonical_bits (encode d) = true.

Lemma fin_out_result_ta md v pref zs (r : dec * flags) :
  (let '(d, fl) := r in ieee_result_ta md v pref zs d fl) -> finite_result_ta md v pref zs (fin_out r).
Proof.
  destruct r as [d fl]. intros H. exists d, fl. split; [reflexivity|]. split; [exact H|].
  apply encode_canonical. eapply ieee_result_ta_wf; exact H.
Qed.

Theorem finite_result_ta_functional md v pref zs l l' :
  finite_result_ta md v pref zs l -> finite_result_ta md v pref zs l' -> l = l'.
Proof.
  intros (d & fl & -> & H & _) (d' & fl' & -> & H' & _).
  destruct (ieee_result_ta_functional md v pref zs d fl d' fl' H H') as [-> ->]. reflexivity.
Qed.

Theorem m_mul_ta_finite md x y sx cx qx sy cy qy :
  0 <= x < P128 -> 0 <= y < P128 -> decode x = Fin sx cx qx -> decode y = Fin sy cy qy ->
  finite_result_ta md (D2R (decode x) * D2R (decode y)) (qx + qy) (xorb sx sy) (m_mul_ta md x y).
Proof.
  intros Hx Hy Ex Ey. unfold m_mul_ta. rewrite Ex, Ey. cbn [is_nan orb]. apply fin_out_result_ta.
  destruct (decode_fin_bounds x sx cx qx Hx Ex), (decode_fin_bounds y sy cy qy Hy Ey).
  apply mul_fin_ta_correct; lia.
Qed.

Theorem m_fma_ta_finite md x y z sx cx qx sy cy qy sz cz qz :
  0 <= x < P128 -> 0 <= y < P128 -> 0 <= z < P128 ->
  decode x = Fin sx cx qx -> decode y = Fin sy cy qy -> decode z = Fin sz cz qz ->
  finite_result_ta md (D2R (decode x) * D2R (decode y) + D2R (decode z)) (Z.min (qx + qy) qz)
    (zs_add md (xorb sx sy) sz) (m_fma_ta md x y z).
Proof.
  intros Hx Hy Hz Ex Ey Ez. unfold m_fma_ta. rewrite Ex, Ey, Ez. cbn [is_nan is_inf orb]. apply fin_out_result_ta.
  destruct (decode_fin_bounds x sx cx qx Hx Ex), (decode_fin_bounds y sy cy qy Hy Ey), (decode_fin_bounds z sz cz qz Hz Ez).
  apply fma_fin_ta_correct; assumption.
Qed.

(* special operands (NaN, infinity): the feature changes nothing at all *)
Theorem m_mul_ta_specials md x y :
  is_fin (decode x) && is_fin (decode y) = false -> m_mul_ta md x y = m_mul md x y.
Proof.
  unfold m_mul_ta, m_mul. destruct (decode x), (decode y); intros H; try discriminate H; reflexivity.
Qed.

Theorem m_fma_ta_specials md x y z :
  is_fin (decode x) && is_fin (decode y) && is_fin (decode z) = false -> m_fma_ta md x y z = m_fma md x y z.
Proof.
  unfold m_fma_ta, m_fma. destruct (decode x), (decode y), (decode z); intros H; try discriminate H; reflexivity.
Qed.

(* finite operands: the same result pattern; the status words differ at most by the underflow bit, which the
   feature can only clear *)
Definition same_but_underflow (l l' : list outcome) : Prop :=
  exists b fl fl', l = [([b], flbits fl)] /\ l' = [([b], flbits fl')] /\
    f_inexact fl = f_inexact fl' /\ f_overflow fl = f_overflow fl' /\ (f_underflow fl' = true -> f_underflow fl = true).

Lemma finite_results_related md v pref zs l l' :
  finite_result md v pref zs l -> finite_result_ta md v pref zs l' -> same_but_underflow l l'.
Proof.
  intros (d & fl & -> & H & _) (d' & fl' & -> & H' & _).
  destruct (ta_differs_only_in_underflow _ _ _ _ _ _ _ _ H H') as (<- & A & B & C).
  exists (encode d), fl, fl'. repeat split; assumption.
Qed.

Theorem m_mul_ta_vs_default md x y sx cx qx sy cy qy :
  0 <= x < P128 -> 0 <= y < P128 -> decode x = Fin sx cx qx -> decode y = Fin sy cy qy ->
  same_but_underflow (m_mul md x y) (m_mul_ta md x y).
Proof.
  intros Hx Hy Ex Ey. eapply finite_results_related.
  - apply (m_mul_finite md x y sx cx qx sy cy qy); assumption.
  - apply (m_mul_ta_finite md x y sx cx qx sy cy qy); assumption.
Qed.

Theorem m_fma_ta_vs_default md x y z sx cx qx sy cy qy sz cz qz :
  0 <= x < P128 -> 0 <= y < P128 -> 0 <= z < P128 ->
  decode x = Fin sx cx qx -> decode y = Fin sy cy qy -> decode z = Fin sz cz qz ->
  same_but_underflow (m_fma md x y z) (m_fma_ta md x y z).
Proof.
  intros Hx Hy Hz Ex Ey Ez. eapply finite_results_related.
  - apply (m_fma_finite md x y z sx cx qx sy cy qy sz cz qz); assumption.
  - apply (m_fma_ta_finite md x y z sx cx qx sy cy qy sz cz qz); assumption.
Qed.


(* ---------- why round_pack_ta_correct needs one more hypothesis than round_pack_correct ---------- *)
(* The triple (10^33-1, -6176, Inexact Gt) meets every hypothesis of round_pack_correct for two positive reals whose
   34-digit roundings (RNE) fall on different sides of 10^-6143. *)
Definition nC  := 999999999999999999999999999999999.               (* 10^33 - 1 *)
Definition nX1 := 9999999999999999999999999999999996.              (* 10^34 - 4 *)
Definition nX2 := 99999999999999999999999999999999996.             (* 10^35 - 4 *)

Theorem tiny_after_needs_H3 :
  let x1 := F2R (Float radix10 nX1 (-6177)) in
  let x2 := F2R (Float radix10 nX2 (-6178)) in
  -6176 <= fexp (Zdigits radix10 nC + -6176) /\
  inbetween_float radix10 nC (-6176) (Rabs x1) (loc_Inexact Gt) /\
  inbetween_float radix10 nC (-6176) (Rabs x2) (loc_Inexact Gt) /\
  Rlt_bool x1 0 = false /\ Rlt_bool x2 0 = false /\
  (Rabs (round radix10 (FLX_exp 34) (rnd_of RNE) x1) < bpow10 (-6143))%R /\
  ~ (Rabs (round radix10 (FLX_exp 34) (rnd_of RNE) x2) < bpow10 (-6143))%R.
Proof.
  intros x1 x2.
  assert (P1 : (0 < x1)%R) by (apply F2R_gt_0; reflexivity).
  assert (P2 : (0 < x2)%R) by (apply F2R_gt_0; reflexivity).
  assert (A1 : Rabs x1 = x1) by (apply Rabs_pos_eq; lra).
  assert (A2 : Rabs x2 = x2) by (apply Rabs_pos_eq; lra).
  set (u := bpow10 (-6178)).
  assert (Hu : (0 < u)%R) by apply bpow_gt_0.
  assert (E1 : x1 = (IZR (nX1 * 10) * u)%R).
  { unfold x1. rewrite (F2R_scale nX1 (-6177) 1) by lia. reflexivity. }
  assert (E2 : x2 = (IZR nX2 * u)%R) by reflexivity.
  assert (Ed : F2R (Float radix10 nC (-6176)) = (IZR (nC * 100) * u)%R).
  { rewrite (F2R_scale nC (-6176) 2) by lia. reflexivity. }
  assert (Eu : F2R (Float radix10 (nC + 1) (-6176)) = (IZR ((nC + 1) * 100) * u)%R).
  { rewrite (F2R_scale (nC + 1) (-6176) 2) by lia. reflexivity. }
  split; [vm_compute; intros H; discriminate H|].
  split.
  { rewrite A1. unfold inbetween_float. rewrite Ed, Eu, E1. 
    change (nX1 * 10) with 99999999999999999999999999999999960.
    change (nC * 100) with 99999999999999999999999999999999900.
    change ((nC + 1) * 100) with 100000000000000000000000000000000000.
    constructor. lra. apply Rcompare_Gt. lra. }
  split.
  { rewrite A2. unfold inbetween_float. rewrite Ed, Eu, E2. unfold nX2.
    change (nC * 100) with 99999999999999999999999999999999900.
    change ((nC + 1) * 100) with 100000000000000000000000000000000000.
    constructor. lra. apply Rcompare_Gt. lra. }
  split; [apply Rlt_bool_false; lra|]. split; [apply Rlt_bool_false; lra|].
  split.
  - rewrite round_generic; try typeclasses eauto.
    + rewrite A1. unfold x1. apply Rlt_le_trans with (F2R (Float radix10 (10 ^ 34) (-6177))).
      apply F2R_lt. reflexivity. rewrite F2R_pow10 by lia. apply bpow_le. lia.
    + apply generic_format_FLX. apply (FLX_spec radix10 34 _ (Float radix10 nX1 (-6177))). reflexivity. reflexivity.
  - assert (Hin : inbetween_float radix10 nX2 (-6178) (Rabs x2) loc_Exact) by (rewrite A2; constructor; reflexivity).
    generalize (round_value_flx RNE x2 nX2 (-6178) loc_Exact Hin (or_intror eq_refl)).
    rewrite (Rlt_bool_false x2 0) by lra.
    assert (Ht : truncate radix10 (FLX_exp 34) (nX2, -6178, loc_Exact) = (10 ^ 34 - 1, -6177, loc_Inexact Gt))
      by (vm_compute; reflexivity).
    rewrite Ht.
    assert (Hc : choice RNE false (10 ^ 34 - 1) (loc_Inexact Gt) = 10 ^ 34) by (vm_compute; reflexivity).
    rewrite Hc. cbn [cond_Zopp]. intros Hr. rewrite Hr.
    rewrite (F2R_pow10 34 (-6177)) by lia. rewrite Rabs_pos_eq by apply bpow_ge_0.
    change (34 + -6177) with (-6143). lra.
Qed.

(* hence no function of (mode, sign, located triple) decides tininess after rounding under those hypotheses alone *)
Corollary no_tiny_after_from_flt_triple :
  ~ exists f : rmode -> bool -> Z -> Z -> location -> bool,
      forall md c e x l, 0 <= c -> inbetween_float radix10 c e (Rabs x) l -> x <> 0%R ->
        (e <= fexp (Zdigits radix10 c + e) \/ l = loc_Exact) ->
        (f md (Rlt_bool x 0) c e l = true <-> (Rabs (round radix10 (FLX_exp 34) (rnd_of md) x) < bpow10 (-6143))%R).
Proof.
  intros [f Hf]. destruct tiny_after_needs_H3 as (H2 & I1 & I2 & S1 & S2 & T1 & T2).
  set (x1 := F2R (Float radix10 nX1 (-6177))) in *. set (x2 := F2R (Float radix10 nX2 (-6178))) in *.
  assert (N1 : x1 <> 0%R) by (apply Rgt_not_eq; apply F2R_gt_0; reflexivity).
  assert (N2 : x2 <> 0%R) by (apply Rgt_not_eq; apply F2R_gt_0; reflexivity).
  assert (C : 0 <= nC) by (unfold nC; lia).
  pose proof (Hf RNE nC (-6176) x1 (loc_Inexact Gt) C I1 N1 (or_introl H2)) as F1.
  pose proof (Hf RNE nC (-6176) x2 (loc_Inexact Gt) C I2 N2 (or_introl H2)) as F2.
  rewrite S1 in F1. rewrite S2 in F2. apply T2. apply F2. apply F1. exact T1.
Qed.

(* the driver's dispatch *)
Theorem expected_ta_spec md x y z :
  expected_ta 0 md [x; y; z] = Exact (m_fma_ta md x y z) /\ expected_ta 1 md [x; y] = Exact (m_mul_ta md x y).
Proof. split; reflexivity. Qed.

(* ---------- the recorded class KF_TA_MINNORMAL leaves the demand unchanged ---------- *)
Theorem expected_ta_kf_required name md args :
  expect_list (expected_ta_kf name md args) = expect_list (expected_ta name md args) /\
  (forall k req rcd, expected_ta_kf name md args = Known k req rcd ->
     k = KF_TA_MINNORMAL /\ req = expected_ta name md args /\
     exists l, expected_ta name md args = Exact l /\ is_min_normal_inexact l = true /\ rcd = Exact (flip_underflow l)) /\
  (forall l, expected_ta name md args = Exact l -> is_min_normal_inexact l = false -> expected_ta_kf name md args = Exact l).
Proof.
  assert (EX : exists l, expected_ta name md args = Exact l).
  { unfold expected_ta. destruct name as [|p|p].
    - destruct args as [|x [|y [|z [|w args]]]]; eexists; reflexivity.
    - destruct p as [p|p|]; destruct args as [|x [|y [|z args]]]; eexists; reflexivity.
    - eexists; reflexivity. }
  destruct EX as [l E]. unfold expected_ta_kf. rewrite E.
  destruct (is_min_normal_inexact l) eqn:H; cbn [expect_list]; split; [reflexivity| |reflexivity|]; split.
  - intros k req rcd K. inversion K; subst. repeat split; try reflexivity. exists l. repeat split; try reflexivity. exact H.
  - intros l0 E0 H0. inversion E0; subst. congruence.
  - intros k req rcd K. discriminate K.
  - intros l0 E0 _. inversion E0; subst. reflexivity.
Qed.
