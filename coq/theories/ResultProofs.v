(* C12 (invalid_sources) and C13 (results_canonical): the shape of the accepted outcomes of every operation on
   non-NaN operands - either the operand kinds are one of the listed invalid combinations and the outcome is the
   default quiet NaN with invalid, or every outcome is the canonical encoding of a well-formed non-NaN datum and
   the invalid bit is clear. The round_pack based operations use the integer-only well-formedness theorems of
   RoundWfProofs.v, so everything here is closed under the global context (the value-level correctness of those
   operations is C01/C02, not needed for canonicity). *)
From Coq Require Import ZArith Lia Bool List.
From Flocq Require Import Core.Zaux Core.Digits Calc.Bracket Calc.Round.
From DV Require Import Base RoundProofs Bid BidProofs Arith RoundWfProofs OpsArith OpsArithProofs OpsCmp OpsMisc OpsConv OpsStr Judge
  NanProofs CanonProofs.
(* RoundProofs / OpsArithProofs are imported only for closed integer lemmas (choice_bounds, T34_eq, m_sub_is_add_neg,
   fma_specials); no theorem about real numbers is used - see the Print Assumptions in props/C12.v, props/C13.v *)
Import ListNotations.
Open Scope Z_scope.
Ltac Zify.zify_post_hook ::= Z.div_mod_to_equations.

(* ---------- vocabulary ---------- *)
(* invalid is bit 0 of the flag word: [fl mod 2 = 0] says it is not raised *)
Definition numeric_out (o : outcome) : Prop :=
  exists d fl, o = ([encode d], fl) /\ wf d /\ is_nan d = false /\ fl mod 2 = 0.
Definition numeric_outs (l : list outcome) : Prop := l <> [] /\ forall o, In o l -> numeric_out o.
Definition all_canonical (l : list outcome) : Prop := forall o r, In o l -> In r (fst o) -> canonical_bits r = true.
(* the shape of an operation's outcomes on non-NaN operands, [k] = "the operands are an invalid combination" *)
Definition shape (k : bool) (l : list outcome) : Prop := if k then l = invalid_out else numeric_outs l.

Lemma invalid_out_bits : invalid_out = [([31 * P122], F_INV)].
Proof. reflexivity. Qed.

Lemma invalid_out_canonical : all_canonical invalid_out /\ decode (31 * P122) = QNAN.
Proof.
  split; [|reflexivity]. intros o r [<-|[]] [<-|[]]. reflexivity.
Qed.

Lemma numeric_out_facts o : numeric_out o ->
  exists r, fst o = [r] /\ canonical_bits r = true /\ is_nan (decode r) = false /\ wf (decode r) /\ snd o mod 2 = 0.
Proof.
  intros (d & fl & -> & W & N & F). exists (encode d). cbn [fst snd]. rewrite (decode_encode d W).
  split; [reflexivity|]. split; [apply encode_canonical, W|]. auto.
Qed.

Lemma numeric_canonical l : numeric_outs l -> all_canonical l.
Proof.
  intros [_ H] o r Hin Hr. destruct (numeric_out_facts o (H o Hin)) as (r' & E & C & _). rewrite E in Hr.
  destruct Hr as [<-|[]]. exact C.
Qed.

Lemma numeric_not_invalid l : numeric_outs l -> l <> invalid_out.
Proof.
  intros [_ H] ->. destruct (H _ (or_introl eq_refl)) as (d & fl & E & _ & _ & F).
  injection E as _ <-. discriminate F.
Qed.

Lemma shape_canonical k l : shape k l -> all_canonical l.
Proof. destruct k; cbn [shape]; [intros ->; apply invalid_out_canonical|apply numeric_canonical]. Qed.

(* the "if and only if" reading of a shape: invalid_out exactly for the listed kinds, and otherwise no NaN, no invalid *)
Lemma shape_iff k l : shape k l ->
  (l = invalid_out <-> k = true) /\
  (k = false -> l <> [] /\ forall o, In o l -> exists r, fst o = [r] /\ canonical_bits r = true /\
                                          is_nan (decode r) = false /\ snd o mod 2 = 0).
Proof.
  destruct k; cbn [shape]; intros H.
  - split; [tauto|discriminate].
  - split; [split; [intros E; exfalso; exact (numeric_not_invalid l H E)|discriminate]|].
    intros _. split; [apply H|]. intros o Hin. destruct (numeric_out_facts o (proj2 H o Hin)) as (r & A & B & C & _ & D).
    exists r. auto.
Qed.

Lemma out1_numeric d fl : wf d -> is_nan d = false -> fl mod 2 = 0 -> numeric_outs (out1 d fl).
Proof.
  intros W N F. split; [discriminate|]. intros o [<-|[]]. exists d, fl. auto.
Qed.

Lemma flbits_even f : flbits f mod 2 = 0.
Proof. destruct f as [[] [] []]; reflexivity. Qed.

Lemma fin_out_numeric (r : dec * flags) : wf_num (fst r) -> numeric_outs (fin_out r).
Proof. intros [W N]. apply out1_numeric; [exact W|exact N|apply flbits_even]. Qed.

Lemma wf_fin s c q : wf (Fin s c q) <-> 0 <= c < 10 ^ 34 /\ -6176 <= q <= 6111.
Proof. cbn [wf]. rewrite T34_eq. tauto. Qed.

Lemma is_zero_fin s c q : is_zero (Fin s c q) = (c =? 0).
Proof. destruct c; reflexivity. Qed.

Lemma neg_dec_wf d : wf d -> wf (neg_dec d).
Proof. destruct d; exact (fun H => H). Qed.
Lemma neg_dec_nan d : is_nan (neg_dec d) = is_nan d.
Proof. destruct d; reflexivity. Qed.
Lemma set_sign_wf s d : wf d -> wf (set_sign s d).
Proof. destruct d; exact (fun H => H). Qed.
Lemma set_sign_nan s d : is_nan (set_sign s d) = is_nan d.
Proof. destruct d; reflexivity. Qed.

Lemma clampq_range q : -6176 <= clampq q <= 6111.
Proof. unfold clampq, qmin, qmax. lia. Qed.

(* ---------- add / sub ---------- *)
Definition add_inv (dx dy : dec) : bool :=
  match dx, dy with Inf s, Inf s' => negb (Bool.eqb s s') | _, _ => false end.
Definition sub_inv (dx dy : dec) : bool :=
  match dx, dy with Inf s, Inf s' => Bool.eqb s s' | _, _ => false end.

Lemma add_dec_shape md dx dy : wf dx -> wf dy -> is_nan dx = false -> is_nan dy = false ->
  shape (add_inv dx dy) (add_dec md dx dy).
Proof.
  intros Wx Wy Nx Ny. destruct dx as [sx cx qx|sx|]; try discriminate; destruct dy as [sy cy qy|sy|]; try discriminate;
    cbn [add_inv shape].
  - unfold add_dec. cbn [is_nan orb]. apply fin_out_numeric, add_gen_wf; [apply (wf_fin sx cx qx), Wx|apply (wf_fin sy cy qy), Wy].
  - apply out1_numeric; [exact I|reflexivity|reflexivity].
  - apply out1_numeric; [exact I|reflexivity|reflexivity].
  - unfold add_dec. cbn [is_nan orb]. destruct (Bool.eqb sx sy); cbn [negb]; [|reflexivity].
    apply out1_numeric; [exact I|reflexivity|reflexivity].
Qed.

Theorem m_add_shape md x y : 0 <= x < P128 -> 0 <= y < P128 ->
  is_nan (decode x) = false -> is_nan (decode y) = false ->
  shape (add_inv (decode x) (decode y)) (m_add md x y).
Proof. intros Hx Hy. apply add_dec_shape; apply decode_wf; assumption. Qed.

Theorem m_sub_shape md x y : 0 <= x < P128 -> 0 <= y < P128 ->
  is_nan (decode x) = false -> is_nan (decode y) = false ->
  shape (sub_inv (decode x) (decode y)) (m_sub md x y).
Proof.
  intros Hx Hy Nx Ny. rewrite (m_sub_is_add_neg md x y Ny).
  replace (sub_inv (decode x) (decode y)) with (add_inv (decode x) (neg_dec (decode y))).
  - apply add_dec_shape; [apply decode_wf; assumption|apply neg_dec_wf, decode_wf; assumption|exact Nx|].
    rewrite neg_dec_nan. exact Ny.
  - destruct (decode x) as [| sx |]; try reflexivity. destruct (decode y) as [| sy |]; try reflexivity.
    cbn. destruct sx, sy; reflexivity.
Qed.

(* ---------- mul ---------- *)
Definition mul_inv (dx dy : dec) : bool := (is_inf dx && is_zero dy) || (is_zero dx && is_inf dy).

Theorem m_mul_shape md x y : 0 <= x < P128 -> 0 <= y < P128 ->
  is_nan (decode x) = false -> is_nan (decode y) = false ->
  shape (mul_inv (decode x) (decode y)) (m_mul md x y).
Proof.
  intros Hx Hy Nx Ny. pose proof (decode_wf x Hx) as Wx. pose proof (decode_wf y Hy) as Wy.
  destruct (decode x) as [sx cx qx|sx|] eqn:Ex; try discriminate; destruct (decode y) as [sy cy qy|sy|] eqn:Ey; try discriminate.
  - replace (mul_inv _ _) with false by (unfold mul_inv; cbn [is_inf]; rewrite andb_false_r; reflexivity).
    unfold m_mul. rewrite Ex, Ey. cbn [is_nan orb]. apply fin_out_numeric, mul_fin_wf; [apply Wx|apply Wy].
  - unfold m_mul. rewrite Ex, Ey. unfold mul_inv. cbn [is_nan is_inf orb andb sign_of]. rewrite andb_true_r.
    destruct (is_zero (Fin sx cx qx)); [reflexivity|]. apply out1_numeric; [exact I|reflexivity|reflexivity].
  - unfold m_mul. rewrite Ex, Ey. unfold mul_inv. cbn [is_nan is_inf orb andb sign_of]. rewrite andb_false_r, orb_false_r.
    destruct (is_zero (Fin sy cy qy)); [reflexivity|]. apply out1_numeric; [exact I|reflexivity|reflexivity].
  - unfold m_mul. rewrite Ex, Ey. cbn. apply out1_numeric; [exact I|reflexivity|reflexivity].
Qed.

(* ---------- div ---------- *)
Definition div_inv (dx dy : dec) : bool := (is_inf dx && is_inf dy) || (is_zero dx && is_zero dy).

Theorem m_div_shape md x y : 0 <= x < P128 -> 0 <= y < P128 ->
  is_nan (decode x) = false -> is_nan (decode y) = false ->
  shape (div_inv (decode x) (decode y)) (m_div md x y).
Proof.
  intros Hx Hy Nx Ny. pose proof (decode_wf x Hx) as Wx. pose proof (decode_wf y Hy) as Wy.
  destruct (decode x) as [sx cx qx|sx|] eqn:Ex; try discriminate; destruct (decode y) as [sy cy qy|sy|] eqn:Ey; try discriminate.
  - unfold div_inv. cbn [is_inf andb orb]. rewrite !is_zero_fin.
    destruct (Z.eqb_spec cy 0) as [Zy|Zy]; destruct (Z.eqb_spec cx 0) as [Zx|Zx]; cbn [andb shape].
    + unfold m_div. rewrite Ex, Ey. cbn [is_nan orb]. subst. reflexivity.
    + unfold m_div. rewrite Ex, Ey. cbn [is_nan orb]. subst cy. cbn [Z.eqb].
      destruct (Z.eqb_spec cx 0); [contradiction|]. apply out1_numeric; [exact I|reflexivity|reflexivity].
    + unfold m_div. rewrite Ex, Ey. cbn [is_nan orb]. subst cx. destruct (Z.eqb_spec cy 0); [contradiction|]. cbn [Z.eqb].
      apply out1_numeric; [|reflexivity|reflexivity]. cbn [wf]. pose proof (clampq_range (qx - qy)). unfold T34. lia.
    + unfold m_div. rewrite Ex, Ey. cbn [is_nan orb].
      destruct (Z.eqb_spec cy 0); [contradiction|]. destruct (Z.eqb_spec cx 0); [contradiction|].
      cbn [wf] in Wx, Wy. apply fin_out_numeric, div_fin_wf; lia.
  - unfold m_div. rewrite Ex, Ey. cbn [is_nan orb sign_of]. unfold div_inv. cbn [is_inf andb orb is_zero]. rewrite ?andb_false_r.
    cbn [shape]. apply out1_numeric; [|reflexivity|reflexivity]. cbn [wf]. unfold qmin, T34. lia.
  - unfold m_div. rewrite Ex, Ey. cbn [is_nan orb sign_of]. unfold div_inv. cbn [is_inf andb orb is_zero]. rewrite ?andb_false_r.
    cbn [shape]. apply out1_numeric; [exact I|reflexivity|reflexivity].
  - unfold m_div. rewrite Ex, Ey. reflexivity.
Qed.

(* ---------- sqrt ---------- *)
Definition sqrt_inv (dx : dec) : bool := sign_of dx && negb (is_zero dx).

Theorem m_sqrt_shape md x : 0 <= x < P128 -> is_nan (decode x) = false -> shape (sqrt_inv (decode x)) (m_sqrt md x).
Proof.
  intros Hx Nx. pose proof (decode_wf x Hx) as W.
  destruct (decode x) as [sx cx qx|sx|] eqn:Ex; try discriminate.
  - unfold sqrt_inv. cbn [sign_of]. rewrite is_zero_fin.
    destruct (Z.eqb_spec cx 0) as [Zx|Zx].
    + rewrite andb_false_r. unfold m_sqrt. rewrite Ex. cbn [is_nan]. subst cx. cbn [Z.eqb].
      apply out1_numeric; [|reflexivity|reflexivity]. cbn [wf] in *. rewrite Z.div2_div. unfold T34 in *. lia.
    + rewrite andb_true_r. destruct sx; cbn [shape].
      * unfold m_sqrt. rewrite Ex. cbn [is_nan]. destruct (Z.eqb_spec cx 0); [contradiction|reflexivity].
      * unfold m_sqrt. rewrite Ex. cbn [is_nan]. destruct (Z.eqb_spec cx 0); [contradiction|].
        apply fin_out_numeric, sqrt_fin_wf.
  - unfold m_sqrt. rewrite Ex. cbn. destruct sx; [reflexivity|]. apply out1_numeric; [exact I|reflexivity|reflexivity].
Qed.

(* ---------- fma ---------- *)
Definition fma_inv (dx dy dz : dec) : bool :=
  mul_inv dx dy ||
  ((is_inf dx || is_inf dy) && is_inf dz && negb (Bool.eqb (sign_of dz) (xorb (sign_of dx) (sign_of dy)))).

Theorem m_fma_shape md x y z : 0 <= x < P128 -> 0 <= y < P128 -> 0 <= z < P128 ->
  is_nan (decode x) = false -> is_nan (decode y) = false -> is_nan (decode z) = false ->
  shape (fma_inv (decode x) (decode y) (decode z)) (m_fma md x y z).
Proof.
  intros Hx Hy Hz Nx Ny Nz.
  destruct (fma_specials md x y z Nx Ny Nz) as [S1 S2].
  destruct (is_inf (decode x) || is_inf (decode y)) eqn:EI.
  - rewrite (S1 eq_refl). unfold fma_inv, mul_inv. rewrite EI. cbn [andb].
    assert (M : is_inf (decode x) && is_zero (decode y) || is_zero (decode x) && is_inf (decode y)
                = is_zero (decode x) || is_zero (decode y)).
    { destruct (decode x) as [? cx ?| |]; destruct (decode y) as [? cy ?| |]; try discriminate; cbn [is_inf is_zero andb orb];
        rewrite ?andb_true_r, ?andb_false_r, ?orb_false_r; try reflexivity. }
    rewrite M. destruct (is_zero (decode x) || is_zero (decode y)); [reflexivity|]. cbn [orb].
    destruct (decode z) as [| sz |]; try discriminate; cbn [is_inf sign_of].
    + apply out1_numeric; [exact I|reflexivity|reflexivity].
    + destruct (Bool.eqb sz _); cbn [negb shape]; [|reflexivity]. apply out1_numeric; [exact I|reflexivity|reflexivity].
  - unfold fma_inv, mul_inv. rewrite EI. cbn [andb orb].
    apply orb_false_iff in EI. destruct EI as [Ix Iy]. rewrite Ix, Iy. cbn [andb]. rewrite !andb_false_r. cbn [orb shape].
    destruct (decode z) as [sz cz qz|sz|] eqn:Ez; try discriminate.
    + destruct (decode x) as [sx cx qx| |] eqn:Ex; try discriminate. destruct (decode y) as [sy cy qy| |] eqn:Ey; try discriminate.
      unfold m_fma. rewrite Ex, Ey, Ez. cbn [is_nan is_inf orb].
      pose proof (decode_wf x Hx) as Wx. pose proof (decode_wf y Hy) as Wy. pose proof (decode_wf z Hz) as Wz.
      rewrite Ex in Wx. rewrite Ey in Wy. rewrite Ez in Wz.
      apply fin_out_numeric, fma_fin_wf; [apply Wx|apply Wy|apply Wz].
    + rewrite (S2 eq_refl sz eq_refl). apply out1_numeric; [exact I|reflexivity|reflexivity].
Qed.
(* ---------- rounding to an integer: bounds ---------- *)
Lemma round_int_bounds md s c k n inx : 0 <= c -> 1 <= k -> round_int md s c k = (n, inx) -> 0 <= n <= c / 10 + 1.
Proof.
  intros Hc Hk. unfold round_int, div_loc.
  destruct (45 <? k).
  - intros E. injection E as <- _. pose proof (choice_bounds md s 0 (if c =? 0 then loc_Exact else loc_Inexact Lt)). lia.
  - intros E. injection E as <- _.
    pose proof (choice_bounds md s (c / 10 ^ k) (loc_of_rem (c mod 10 ^ k) (10 ^ k))) as B.
    assert (P : 10 ^ 1 <= 10 ^ k) by (apply Z.pow_le_mono_r; lia). change (10 ^ 1) with 10 in P.
    assert (0 <= c / 10 ^ k) by (apply Z.div_pos; lia).
    assert (c / 10 ^ k <= c / 10) by (apply Z.div_le_compat_l; lia).
    lia.
Qed.

Lemma round_int_rtz s c k : 0 <= c -> 0 <= k ->
  round_int RTZ s c k = (if 45 <? k then 0 else c / 10 ^ k, snd (round_int RTZ s c k)).
Proof. intros Hc Hk. unfold round_int, div_loc. destruct (45 <? k); reflexivity. Qed.

(* ---------- quantize ---------- *)
Definition quantize_inv (dx dy : dec) : bool :=
  match dx, dy with
  | Inf _, Inf _ => false
  | Inf _, _ | _, Inf _ => true
  | Fin _ cx qx, Fin _ _ qy => negb (cx =? 0) && (qy <=? qx) && (T34 <=? cx * 10 ^ (qx - qy))
  | _, _ => false
  end.

Theorem m_quantize_shape md x y : 0 <= x < P128 -> 0 <= y < P128 ->
  is_nan (decode x) = false -> is_nan (decode y) = false ->
  shape (quantize_inv (decode x) (decode y)) (m_quantize md x y).
Proof.
  intros Hx Hy Nx Ny. pose proof (decode_wf x Hx) as Wx. pose proof (decode_wf y Hy) as Wy. unfold m_quantize.
  destruct (decode x) as [sx cx qx|sx|] eqn:Ex; try discriminate; destruct (decode y) as [sy cy qy|sy|] eqn:Ey; try discriminate;
    cbn [is_nan orb quantize_inv]; try reflexivity.
  - cbn [wf] in Wx, Wy.
    destruct (Z.eqb_spec cx 0) as [Zx|Zx]; cbn [negb andb shape].
    { apply out1_numeric; [|reflexivity|reflexivity]. cbn [wf]. unfold T34. lia. }
    destruct (Z.leb_spec qy qx) as [Q|Q]; cbn [andb].
    + destruct (Z.ltb_spec 34 (qx - qy)) as [G|G].
      * assert (P : 10 ^ 35 <= 10 ^ (qx - qy)) by (apply Z.pow_le_mono_r; lia).
        assert (P2 : 10 ^ 35 <= cx * 10 ^ (qx - qy)) by nia.
        destruct (Z.leb_spec T34 (cx * 10 ^ (qx - qy))) as [L|L]; [reflexivity|].
        exfalso. assert (T34 < 10 ^ 35) by reflexivity. lia.
      * destruct (Z.leb_spec T34 (cx * 10 ^ (qx - qy))) as [L|L]; [reflexivity|]. cbn [shape].
        apply out1_numeric; [|reflexivity|reflexivity]. cbn [wf].
        assert (0 < 10 ^ (qx - qy)) by (apply Z.pow_pos_nonneg; lia). split; [nia|lia].
    + destruct (round_int md sx cx (qy - qx)) as [c2 inx] eqn:R.
      pose proof (round_int_bounds md sx cx (qy - qx) c2 inx (proj1 (proj1 Wx)) ltac:(lia) R) as B.
      assert (c2 < T34) by (unfold T34 in *; lia).
      destruct (Z.leb_spec T34 c2); [lia|]. cbn [shape].
      apply out1_numeric; [cbn [wf]; lia|reflexivity|destruct inx; reflexivity].
  - apply out1_numeric; [exact I|reflexivity|reflexivity].
Qed.

(* ---------- remainder / fmod ---------- *)
Lemma rem_core_bounds nearest cx qx cy qy flip r : 0 < cx < T34 -> 0 < cy < T34 ->
  rem_core nearest cx qx cy qy = (flip, r) -> 0 <= r < T34.
Proof.
  intros Hx Hy. unfold rem_core. destruct (Z.leb_spec qy qx) as [Q|Q].
  - cbv zeta.
    set (t := ((cx mod (2 * cy)) * powmod 10 (qx - qy) (2 * cy)) mod (2 * cy)).
    assert (Ht : 0 <= t < 2 * cy) by (apply Z.mod_pos_bound; lia). clearbody t.
    destruct (Z.leb_spec cy t); destruct nearest; cbn [negb];
      repeat match goal with |- context [match ?a ?= ?b with _ => _ end] => destruct (Z.compare_spec a b) end;
      intros E; injection E as <- <-; unfold T34 in *; lia.
  - cbv zeta. destruct (36 <? qy - qx); [intros E; injection E as <- <-; lia|].
    set (Y := cy * 10 ^ (qy - qx)).
    assert (HY : 0 < Y) by (apply Z.mul_pos_pos; [lia|apply Z.pow_pos_nonneg; lia]).
    assert (H1 : 0 <= cx mod Y < Y) by (apply Z.mod_pos_bound; exact HY).
    assert (H2 : cx mod Y <= cx) by (apply Z.mod_le; lia).
    generalize (Z.odd (cx / Y)). intros od. generalize dependent (cx mod Y). intros r0 H1 H2. clearbody Y.
    destruct nearest; cbn [negb];
      repeat match goal with |- context [match ?a ?= ?b with _ => _ end] => destruct (Z.compare_spec a b) end;
      try destruct od; intros E; injection E as <- <-; unfold T34 in *; lia.
Qed.

Definition rem_inv (dx dy : dec) : bool := is_inf dx || is_zero dy.

Theorem rem_dec_shape nearest x y : 0 <= x < P128 -> 0 <= y < P128 ->
  is_nan (decode x) = false -> is_nan (decode y) = false ->
  shape (rem_inv (decode x) (decode y)) (rem_dec nearest x y).
Proof.
  intros Hx Hy Nx Ny. pose proof (decode_wf x Hx) as Wx. pose proof (decode_wf y Hy) as Wy. unfold rem_dec, rem_inv.
  destruct (decode x) as [sx cx qx|sx|] eqn:Ex; try discriminate; destruct (decode y) as [sy cy qy|sy|] eqn:Ey; try discriminate;
    cbn [is_nan orb is_inf]; try reflexivity.
  - rewrite is_zero_fin. cbn [wf] in Wx, Wy.
    destruct (Z.eqb_spec cy 0) as [Zy|Zy]; [reflexivity|]. cbn [shape].
    destruct (Z.eqb_spec cx 0) as [Zx|Zx].
    { apply out1_numeric; [|reflexivity|reflexivity]. cbn [wf]. unfold T34. lia. }
    destruct (rem_core nearest cx qx cy qy) as [flip r] eqn:R.
    pose proof (rem_core_bounds nearest cx qx cy qy flip r ltac:(lia) ltac:(lia) R) as B.
    apply out1_numeric; [|reflexivity|reflexivity]. cbn [wf]. lia.
  - cbn [is_zero shape]. apply out1_numeric; [exact Wx|reflexivity|reflexivity].
Qed.

(* ---------- fdim ---------- *)
Theorem m_fdim_shape md x y : 0 <= x < P128 -> 0 <= y < P128 ->
  is_nan (decode x) = false -> is_nan (decode y) = false -> shape false (m_fdim md x y).
Proof.
  intros Hx Hy Nx Ny. unfold m_fdim. rewrite Nx, Ny. cbn [orb].
  destruct (cmp_dec (decode x) (decode y)) eqn:C;
    try (apply out1_numeric; [cbn [wf]; unfold T34; lia|reflexivity|reflexivity]).
  replace false with (sub_inv (decode x) (decode y)); [apply m_sub_shape; assumption|].
  destruct (decode x) as [| sx |]; try reflexivity. destruct (decode y) as [| sy |]; try reflexivity.
  cbn [cmp_dec] in C. cbn [sub_inv]. destruct (Bool.eqb sx sy); [discriminate|reflexivity].
Qed.
(* ---------- round to integral ---------- *)
Theorem rint_dec_shape md si x : 0 <= x < P128 -> is_nan (decode x) = false -> shape false (rint_dec md si x).
Proof.
  intros Hx Nx. pose proof (decode_wf x Hx) as Wx. unfold rint_dec. rewrite Nx. cbn [shape].
  destruct (decode x) as [s c q|s|]; try discriminate.
  - cbn [wf] in Wx. destruct (Z.eqb_spec c 0) as [Zc|Zc].
    { apply out1_numeric; [|reflexivity|reflexivity]. cbn [wf]. unfold T34. lia. }
    destruct (Z.leb_spec 0 q) as [Q|Q].
    { apply out1_numeric; [exact Wx|reflexivity|reflexivity]. }
    destruct (round_int md s c (- q)) as [n inx] eqn:R.
    pose proof (round_int_bounds md s c (- q) n inx ltac:(lia) ltac:(lia) R) as B.
    apply out1_numeric; [|reflexivity|destruct (inx && si); reflexivity]. cbn [wf]. unfold T34 in *. lia.
  - apply out1_numeric; [exact I|reflexivity|reflexivity].
Qed.

(* ---------- modf: two decimal outputs ---------- *)
Definition numeric_out2 (o : outcome) : Prop :=
  exists d1 d2, o = ([encode d1; encode d2], 0) /\ wf d1 /\ wf d2 /\ is_nan d1 = false /\ is_nan d2 = false.

Theorem m_modf_shape x : 0 <= x < P128 -> is_nan (decode x) = false ->
  exists o, m_modf x = [o] /\ numeric_out2 o.
Proof.
  intros Hx Nx. pose proof (decode_wf x Hx) as Wx. unfold m_modf. rewrite Nx.
  destruct (decode x) as [s c q|s|]; try discriminate.
  - cbn [wf] in Wx. destruct (Z.leb_spec 0 q) as [Q|Q].
    { eexists. split; [reflexivity|]. eexists _, _. split; [reflexivity|]. cbn [wf is_nan]. unfold T34 in *. repeat split; lia. }
    rewrite (round_int_rtz s c (- q)) by lia.
    eexists. split; [reflexivity|]. eexists _, _. split; [reflexivity|].
    assert (P : 0 < 10 ^ (- q)) by (apply Z.pow_pos_nonneg; lia).
    assert (D : 0 <= c / 10 ^ (- q) <= c) by (split; [apply Z.div_pos; lia|apply Z.div_le_upper_bound; nia]).
    assert (M : c - c / 10 ^ (- q) * 10 ^ (- q) = c mod 10 ^ (- q)) by (rewrite Z.mod_eq by lia; lia).
    assert (M2 : 0 <= c mod 10 ^ (- q) <= c) by (split; [apply Z.mod_pos_bound; lia|apply Z.mod_le; lia]).
    split; [|split; [|split]].
    + destruct (c =? 0); cbn [wf]; destruct (45 <? - q); unfold T34 in *; lia.
    + cbn [wf]. destruct (45 <? - q); [unfold T34 in *; lia|]. rewrite M. unfold T34 in *. lia.
    + destruct (c =? 0); reflexivity.
    + reflexivity.
  - eexists. split; [reflexivity|]. eexists _, _. split; [reflexivity|]. cbn [wf is_nan]. unfold T34. repeat split; lia.
Qed.

(* ---------- next up / down / after ---------- *)
Lemma normalize_bounds c q : 0 < c < T34 -> qmin <= q <= qmax ->
  let '(c1, q1) := normalize c q in 0 < c1 < T34 /\ qmin <= q1 <= q.
Proof.
  intros Hc Hq. unfold normalize.
  destruct (ndigits_bounds c (proj1 Hc)) as [N1 [N2 N3]].
  assert (N4 : ndigits c <= 34) by (apply ndigits_34; lia).
  set (k := Z.max 0 (Z.min (34 - ndigits c) (q - qmin))).
  assert (Hk : 0 <= k <= 34 - ndigits c /\ k <= q - qmin) by (unfold k; lia). clearbody k.
  assert (P : 0 < 10 ^ k) by (apply Z.pow_pos_nonneg; lia).
  assert (L : c * 10 ^ k < 10 ^ ndigits c * 10 ^ k) by (apply Z.mul_lt_mono_pos_r; lia).
  rewrite <- Z.pow_add_r in L by lia.
  assert (L2 : 10 ^ (ndigits c + k) <= 10 ^ 34) by (apply Z.pow_le_mono_r; lia).
  rewrite T34_eq. split; [split; [nia|lia]|lia].
Qed.

Lemma next_up_dec_wf d : wf d -> wf (next_up_dec d).
Proof.
  intros W. destruct d as [s c q|s|s sg p]; cbn [next_up_dec]; [| |exact W].
  - cbn [wf] in W. destruct (Z.eqb_spec c 0) as [Zc|Zc]; [cbn [wf]; unfold qmin, T34; lia|].
    pose proof (normalize_bounds c q ltac:(lia) ltac:(unfold qmin, qmax; lia)) as B.
    destruct (normalize c q) as [c1 q1]. destruct B as [B1 B2].
    destruct s; cbn [negb].
    + destruct (Z.eqb_spec (c1 - 1) 0); [cbn [wf]; unfold qmin, T34; lia|].
      destruct (Z.ltb_spec (c1 - 1) T33); destruct (Z.ltb_spec qmin q1); cbn [andb wf]; unfold qmin, qmax, T34, T33 in *; lia.
    + destruct (Z.eqb_spec (c1 + 1) T34).
      * destruct (Z.ltb_spec qmax (q1 + 1)); cbn [wf]; [exact I|]. unfold qmin, qmax, T34, T33 in *; lia.
      * cbn [wf]. unfold qmin, qmax, T34 in *; lia.
  - destruct s; [|exact I]. cbn [wf]. unfold MAXC, qmax. change (10 ^ 34) with T34. unfold T34. lia.
Qed.

Lemma next_up_dec_nan d : is_nan d = false -> is_nan (next_up_dec d) = false.
Proof.
  intros N. destruct d as [s c q|s|s sg p]; cbn [next_up_dec]; try discriminate.
  - destruct (c =? 0); [reflexivity|]. destruct (normalize c q) as [c1 q1].
    destruct s; cbn [negb]; repeat match goal with |- context [if ?b then _ else _] => destruct b end; reflexivity.
  - destruct s; reflexivity.
Qed.

Lemma next_down_dec_wf d : wf d -> wf (next_down_dec d).
Proof. intros W. unfold next_down_dec. apply neg_dec_wf, next_up_dec_wf, neg_dec_wf, W. Qed.
Lemma next_down_dec_nan d : is_nan d = false -> is_nan (next_down_dec d) = false.
Proof. intros N. unfold next_down_dec. rewrite neg_dec_nan. apply next_up_dec_nan. rewrite neg_dec_nan. exact N. Qed.

Theorem m_next_shape x y : 0 <= x < P128 -> 0 <= y < P128 ->
  is_nan (decode x) = false ->
  shape false (m_next_up x) /\ shape false (m_next_down x) /\
  (is_nan (decode y) = false -> shape false (m_next_after x y)).
Proof.
  intros Hx Hy Nx. pose proof (decode_wf x Hx) as Wx. split; [|split].
  - unfold m_next_up. rewrite Nx. apply out1_numeric; [apply next_up_dec_wf, Wx|apply next_up_dec_nan, Nx|reflexivity].
  - unfold m_next_down. rewrite Nx. apply out1_numeric; [apply next_down_dec_wf, Wx|apply next_down_dec_nan, Nx|reflexivity].
  - intros Ny. unfold m_next_after. rewrite Nx, Ny. cbn [orb shape].
    assert (F : forall res, (if is_fin (decode x) && is_inf res then F_OVF + F_INX
                             else if is_subnormal_or_zero res then F_UNF + F_INX else 0) mod 2 = 0).
    { intros res. destruct (_ && _); [reflexivity|]. destruct (is_subnormal_or_zero res); reflexivity. }
    destruct (cmp_dec (decode x) (decode y)).
    + apply out1_numeric; [apply next_up_dec_wf, Wx|apply next_up_dec_nan, Nx|apply F].
    + apply out1_numeric; [apply set_sign_wf, Wx|rewrite set_sign_nan; exact Nx|reflexivity].
    + apply out1_numeric; [apply next_down_dec_wf, Wx|apply next_down_dec_nan, Nx|apply F].
    + apply out1_numeric; [apply next_down_dec_wf, Wx|apply next_down_dec_nan, Nx|apply F].
Qed.

(* ---------- scaleb ---------- *)
Theorem m_scaleb_shape md x n : 0 <= x < P128 -> is_nan (decode x) = false -> shape false (m_scaleb md x n).
Proof.
  intros Hx Nx. pose proof (decode_wf x Hx) as Wx. unfold m_scaleb. rewrite Nx. cbn [shape].
  destruct (decode x) as [s c q|s|]; try discriminate.
  - cbn [wf] in Wx. destruct (Z.eqb_spec c 0) as [Zc|Zc].
    { apply out1_numeric; [|reflexivity|reflexivity]. cbn [wf]. pose proof (clampq_range (q + n)). unfold T34. lia. }
    apply fin_out_numeric, scale_fin_wf. lia.
  - apply out1_numeric; [exact I|reflexivity|reflexivity].
Qed.

(* ---------- logb ---------- *)
Theorem m_logb_shape x : 0 <= x < P128 -> is_nan (decode x) = false -> shape false (m_logb x).
Proof.
  intros Hx Nx. pose proof (decode_wf x Hx) as Wx. unfold m_logb. rewrite Nx. cbn [shape].
  destruct (decode x) as [s c q|s|]; try discriminate.
  - cbn [wf] in Wx. destruct (Z.eqb_spec c 0) as [Zc|Zc].
    { apply out1_numeric; [exact I|reflexivity|reflexivity]. }
    pose proof (ndigits_34 c (proj1 Wx)).
    apply out1_numeric; [|reflexivity|reflexivity]. cbn [wf]. unfold T34. lia.
  - apply out1_numeric; [exact I|reflexivity|reflexivity].
Qed.

(* ---------- min / max ---------- *)
Theorem m_minmax_shape k x y : 0 <= x < P128 -> 0 <= y < P128 ->
  is_snan (decode x) = false -> is_snan (decode y) = false -> is_nan (decode x) && is_nan (decode y) = false ->
  (is_nan (decode x) = false -> is_nan (decode y) = false ->
     m_minmax k x y <> [] /\ forall o, In o (m_minmax k x y) -> o = ([canon_of x], 0) \/ o = ([canon_of y], 0)) /\
  shape false (m_minmax k x y).
Proof.
  intros Hx Hy Sx Sy NN. pose proof (decode_wf x Hx) as Wx. pose proof (decode_wf y Hy) as Wy.
  unfold m_minmax, canon_of. rewrite Sx, Sy, NN. cbn [orb].
  destruct (is_nan (decode x)) eqn:Nx.
  { cbn [andb] in NN. split; [discriminate|]. apply out1_numeric; [exact Wy|exact NN|reflexivity]. }
  destruct (is_nan (decode y)) eqn:Ny.
  { split; [discriminate|]. apply out1_numeric; [exact Wx|exact Nx|reflexivity]. }
  assert (Ax : numeric_outs (out1 (decode x) 0)) by (apply out1_numeric; [exact Wx|exact Nx|reflexivity]).
  assert (Ay : numeric_outs (out1 (decode y) 0)) by (apply out1_numeric; [exact Wy|exact Ny|reflexivity]).
  assert (Axy : numeric_outs [([encode (decode x)], 0); ([encode (decode y)], 0)]).
  { split; [discriminate|]. intros o [<-|[<-|[]]]; [apply Ax|apply Ay]; left; reflexivity. }
  assert (G : forall r : rel,
     (match r with
      | REq => [([encode (decode x)], 0); ([encode (decode y)], 0)]
      | RLt => if is_min k then out1 (decode x) 0 else out1 (decode y) 0
      | _ => if is_min k then out1 (decode y) 0 else out1 (decode x) 0 end <> [] /\
      forall o, In o (match r with
      | REq => [([encode (decode x)], 0); ([encode (decode y)], 0)]
      | RLt => if is_min k then out1 (decode x) 0 else out1 (decode y) 0
      | _ => if is_min k then out1 (decode y) 0 else out1 (decode x) 0 end) ->
        o = ([encode (decode x)], 0) \/ o = ([encode (decode y)], 0)) /\
     numeric_outs (match r with
      | REq => [([encode (decode x)], 0); ([encode (decode y)], 0)]
      | RLt => if is_min k then out1 (decode x) 0 else out1 (decode y) 0
      | _ => if is_min k then out1 (decode y) 0 else out1 (decode x) 0 end)).
  { intros r. destruct r; destruct (is_min k); (split; [split; [discriminate|cbn; intuition]|assumption]). }
  split; [intros _ _|]; apply G.
Qed.
Lemma out1_canonical d fl : wf d -> all_canonical (out1 d fl).
Proof. intros W o r [<-|[]] [<-|[]]. apply encode_canonical, W. Qed.

(* ---------- integer -> decimal ---------- *)
Theorem m_from_int_canonical w sg raw : 1 <= w <= 64 ->
  exists d, m_from_int w sg raw = out1 d 0 /\ wf d /\ is_nan d = false.
Proof.
  intros Hw. unfold m_from_int, sint. eexists. split; [reflexivity|]. split; [|reflexivity].
  assert (P : 0 < 2 ^ w <= 2 ^ 64) by (split; [apply Z.pow_pos_nonneg; lia|apply Z.pow_le_mono_r; lia]).
  change (2 ^ 64) with 18446744073709551616 in P.
  assert (M : 0 <= raw mod 2 ^ w < 2 ^ w) by (apply Z.mod_pos_bound; lia).
  generalize dependent (raw mod 2 ^ w). intros v M. generalize dependent (2 ^ w). intros W P M.
  cbn [wf]. destruct sg; [destruct (v <? _)|]; unfold T34; lia.
Qed.

(* ---------- DPD -> BID ---------- *)
Lemma declet_sweep : forallb (fun n => let v := Z.of_nat n in (0 <=? declet_dec v) && (declet_dec v <? 1000)) (seq 0 1024) = true.
Proof. vm_compute. reflexivity. Qed.

Lemma declet_dec_bound v : 0 <= v < 1024 -> 0 <= declet_dec v < 1000.
Proof.
  intros Hv. pose proof declet_sweep as S. rewrite forallb_forall in S.
  specialize (S (Z.to_nat v)). rewrite Z2Nat.id in S by lia.
  assert (I : In (Z.to_nat v) (seq 0 1024)) by (apply in_seq; lia).
  specialize (S I). cbv zeta in S. apply andb_true_iff in S. destruct S as [A B].
  apply Z.leb_le in A. apply Z.ltb_lt in B. lia.
Qed.

Lemma declets_dec_bound k : forall t, 0 <= declets_dec k t < 1000 ^ Z.of_nat k.
Proof.
  induction k as [|k IH]; intros t.
  - cbn. lia.
  - cbn [declets_dec]. rewrite Nat2Z.inj_succ, Z.pow_succ_r by lia.
    pose proof (declet_dec_bound (t mod 1024) ltac:(lia)) as D. specialize (IH (t / 1024)). lia.
Qed.

Theorem dpd_decode_wf w : 0 <= w < P128 -> wf (dpd_decode w).
Proof.
  intros Hw. unfold dpd_decode. cbv zeta.
  pose proof (declets_dec_bound 11 ((w mod P127) mod P110)) as R.
  change (1000 ^ Z.of_nat 11) with T33 in R.
  set (rest := declets_dec 11 ((w mod P127) mod P110)) in *. clearbody rest.
  set (comb := (w mod P127) / P110).
  assert (Hc : 0 <= comb < 131072) by (unfold comb; unfold_consts; lia). clearbody comb.
  unfold P12. change (2 ^ 15) with 32768. change (2 ^ 13) with 8192.
  destruct (Z.eqb_spec (comb / 4096) 30); [exact I|].
  destruct (Z.eqb_spec (comb / 4096) 31); [cbn [wf]; lia|].
  destruct (Z.eqb_spec (comb / 32768) 3); cbn [wf]; unfold T34, T33 in *; lia.
Qed.

Theorem m_decode_dpd_canonical w : 0 <= w < P128 -> all_canonical (m_decode_dpd w).
Proof. intros Hw. apply (out1_canonical _ 0), dpd_decode_wf, Hw. Qed.

(* ---------- quantum, frexp (finite operands; NaN/Inf are deliberately unspecified: EAny) ---------- *)
Theorem m_quantum_canonical x l : 0 <= x < P128 -> m_quantum x = EList l -> all_canonical l.
Proof.
  intros Hx. pose proof (decode_wf x Hx) as W. unfold m_quantum. destruct (decode x) as [s c q|s|]; try discriminate;
    intros E; injection E as <-; apply out1_canonical; [|exact I]. cbn [wf] in *. unfold T34. lia.
Qed.

Theorem m_frexp_canonical x l : 0 <= x < P128 -> m_frexp x = EList l ->
  exists d e, l = [([encode d; e], 0)] /\ wf d /\ canonical_bits (encode d) = true.
Proof.
  intros Hx. pose proof (decode_wf x Hx) as W. unfold m_frexp. destruct (decode x) as [s c q|s|]; try discriminate.
  destruct (c =? 0); [discriminate|]. intros E; injection E as <-. exists (Fin s c (- ndigits c)), (to_i32 (q + ndigits c)). split; [reflexivity|].
  assert (Wd : wf (Fin s c (- ndigits c))).
  { cbn [wf] in *. pose proof (ndigits_34 c (proj1 W)). lia. }
  split; [exact Wd|apply encode_canonical, Wd].
Qed.

(* ---------- binary -> decimal ---------- *)
Lemma rp_exact_wf md s c q pref zs : 0 <= c -> wf (fst (rp md s c q loc_Exact pref zs)) /\ is_nan (fst (rp md s c q loc_Exact pref zs)) = false.
Proof. intros Hc. exact (rp_wf md s c q loc_Exact pref zs Hc). Qed.

Theorem m_from_bin_canonical ebits fbits md bits : 0 <= fbits ->
  match m_from_bin ebits fbits md bits with
  | BList l => all_canonical l
  | BNaN s fl => forall outs, is_canonical_qnan_of_sign s outs = true -> forall r, In r outs -> canonical_bits r = true
  end.
Proof.
  intros Hf. unfold m_from_bin. cbv zeta.
  set (r := bits mod 2 ^ (ebits + fbits)).
  destruct (r / 2 ^ fbits =? 2 ^ ebits - 1).
  - destruct (r mod 2 ^ fbits =? 0); [apply out1_canonical; exact I|].
    intros outs H r0 Hin. unfold is_canonical_qnan_of_sign in H. destruct outs as [|a [|b l]]; try discriminate.
    destruct Hin as [<-|[]]. apply andb_true_iff in H. apply H.
  - destruct ((r / 2 ^ fbits =? 0) && (r mod 2 ^ fbits =? 0)); [apply out1_canonical; cbn [wf]; unfold T34; lia|].
    assert (P : 0 < 2 ^ fbits) by (apply Z.pow_pos_nonneg; lia).
    assert (F : 0 <= r mod 2 ^ fbits) by (apply Z.mod_pos_bound; exact P).
    set (m := if r / 2 ^ fbits =? 0 then r mod 2 ^ fbits else r mod 2 ^ fbits + 2 ^ fbits).
    assert (Hm : 0 <= m) by (unfold m; destruct (_ =? 0); lia). clearbody m.
    set (E := Z.max (r / 2 ^ fbits) 1 - (2 ^ (ebits - 1) - 1) - fbits). clearbody E.
    destruct (Z.leb_spec 0 E).
    + assert (0 <= m * 2 ^ E) by (apply Z.mul_nonneg_nonneg; [exact Hm|apply Z.pow_nonneg; lia]).
      destruct (rp_exact_wf md (2 ^ (ebits + fbits) <=? bits) (m * 2 ^ E) 0 0 (2 ^ (ebits + fbits) <=? bits) H0) as [W _].
      destruct (rp _ _ _ _ _ _ _) as [d fl]. apply out1_canonical. exact W.
    + assert (0 <= m * 5 ^ (- E)) by (apply Z.mul_nonneg_nonneg; [exact Hm|apply Z.pow_nonneg; lia]).
      destruct (rp_exact_wf md (2 ^ (ebits + fbits) <=? bits) (m * 5 ^ (- E)) E 0 (2 ^ (ebits + fbits) <=? bits) H0) as [W _].
      destruct (rp _ _ _ _ _ _ _) as [d fl]. apply out1_canonical. exact W.
Qed.

(* ---------- character sequence -> decimal ---------- *)
Lemma read_digits_nonneg l : forall acc n, 0 <= acc -> 0 <= fst (fst (read_digits l acc n)).
Proof.
  induction l as [|b l IH]; intros acc n Ha; cbn [read_digits]; [exact Ha|].
  destruct (is_digit b) eqn:D; [|exact Ha]. apply IH. unfold is_digit in D. apply andb_true_iff in D.
  destruct D as [D _]. apply Z.leb_le in D. lia.
Qed.

Lemma frac_cases (r1 : list Z) ip :
  let t := match r1 with 46 :: r' => read_digits r' ip 0 | _ => (ip, 0, r1) end in
  (exists r', t = read_digits r' ip 0) \/ t = (ip, 0, r1).
Proof.
  destruct r1 as [|b r']; [right; reflexivity|].
  destruct b as [|p|p]; try (right; reflexivity).
  repeat (destruct p as [p|p|]; try (right; reflexivity)). left. eexists. reflexivity.
Qed.

Lemma lex_num_nonneg l s d nf e : lex l = TNum s d nf e \/ lex l = TExpJunk s d nf e -> 0 <= d.
Proof.
  unfold lex. cbv zeta.
  set (sr := match skip_ws l with 43 :: r => (false, r) | 45 :: r => (true, r) | _ => (false, skip_ws l) end).
  destruct sr as [s0 r].
  destruct (eqi r s_inf || eqi r s_infinity); [intros [E|E]; discriminate|].
  destruct (eqi r s_nan); [intros [E|E]; discriminate|].
  destruct (eqi r s_snan); [intros [E|E]; discriminate|].
  destruct (prefix_eqi r s_snan); [intros [E|E]; discriminate|].
  pose proof (read_digits_nonneg r 0 0 ltac:(lia)) as H1.
  destruct (read_digits r 0 0) as [[ip ni] r1]. cbn [fst] in H1.
  pose proof (frac_cases r1 ip) as FC. cbv zeta in FC.
  set (t := match r1 with 46 :: r' => read_digits r' ip 0 | _ => (ip, 0, r1) end) in *.
  assert (H2 : 0 <= fst (fst t)).
  { destruct FC as [(r' & ->)| ->]; [apply read_digits_nonneg; exact H1|exact H1]. }
  clearbody t. destruct t as [[fp nf0] r2]. cbn [fst] in H2.
  destruct (ni + nf0 =? 0); [intros [E|E]; discriminate|].
  destruct r2 as [|e0 r3]; [intros [E|E]; [injection E as <- <- <- <-; exact H2|discriminate]|].
  destruct ((e0 =? 101) || (e0 =? 69)); [|intros [E|E]; discriminate].
  set (er := match r3 with 43 :: r' => (false, r') | 45 :: r' => (true, r') | _ => (false, r3) end).
  destruct er as [es r4]. destruct (read_digits r4 0 0) as [[ev ne] r5].
  destruct (ne =? 0); [intros [E|E]; discriminate|].
  destruct (negb (is_nil r5)); intros [E|E]; try discriminate; injection E as <- <- <- <-; exact H2.
Qed.

Theorem m_parse_canonical md l :
  match m_parse md l with
  | SList ol => all_canonical ol
  | SExpJunk ol => all_canonical ol
  | _ => True
  end.
Proof.
  unfold m_parse. destruct (lex l) as [d|s dg nf e|s|s dg nf e|] eqn:L; try exact I.
  - apply out1_canonical.
    revert L. unfold lex. cbv zeta.
    set (sr := match skip_ws l with 43 :: r => (false, r) | 45 :: r => (true, r) | _ => (false, skip_ws l) end).
    destruct sr as [s0 r].
    destruct (eqi r s_inf || eqi r s_infinity); [intros E; injection E as <-; exact I|].
    destruct (eqi r s_nan); [intros E; injection E as <-; cbn [wf]; unfold T33; lia|].
    destruct (eqi r s_snan); [intros E; injection E as <-; cbn [wf]; unfold T33; lia|].
    destruct (prefix_eqi r s_snan); [discriminate|].
    destruct (read_digits r 0 0) as [[ip ni] r1].
    destruct (match r1 with 46 :: r' => read_digits r' ip 0 | _ => (ip, 0, r1) end) as [[fp nf0] r2].
    destruct (ni + nf0 =? 0); [discriminate|].
    destruct r2 as [|e0 r3]; [discriminate|].
    destruct ((e0 =? 101) || (e0 =? 69)); [|discriminate].
    destruct (match r3 with 43 :: r' => (false, r') | 45 :: r' => (true, r') | _ => (false, r3) end) as [es r4].
    destruct (read_digits r4 0 0) as [[ev ne] r5].
    destruct (ne =? 0); [discriminate|]. destruct (negb (is_nil r5)); discriminate.
  - pose proof (lex_num_nonneg l s dg nf e (or_introl L)) as H. unfold fin_out, parse_num.
    apply out1_canonical. apply rp_exact_wf. exact H.
  - pose proof (lex_num_nonneg l s dg nf e (or_intror L)) as H. unfold fin_out, parse_num.
    apply out1_canonical. apply rp_exact_wf. exact H.
Qed.
(* ---------- results_canonical: NaN operands and non-NaN operands together ---------- *)
Lemma nan2_canonical x y : 0 <= x < P128 -> 0 <= y < P128 -> all_canonical (nan_outcomes [decode x; decode y]).
Proof. intros Hx Hy. unfold all_canonical. apply (nan_outcomes_canonical [decode x; decode y]). apply (decodes_wf [x; y]). repeat (apply Forall_cons; [assumption|]); apply Forall_nil. Qed.
Lemma nan1_canonical x : 0 <= x < P128 -> all_canonical (nan_outcomes [decode x]).
Proof. intros Hx. unfold all_canonical. apply (nan_outcomes_canonical [decode x]). apply (decodes_wf [x]). repeat (apply Forall_cons; [assumption|]); apply Forall_nil. Qed.
Lemma nan3_canonical x y z : 0 <= x < P128 -> 0 <= y < P128 -> 0 <= z < P128 -> all_canonical (nan_outcomes [decode x; decode y; decode z]).
Proof. intros Hx Hy Hz. unfold all_canonical. apply (nan_outcomes_canonical [decode x; decode y; decode z]). apply (decodes_wf [x; y; z]). repeat (apply Forall_cons; [assumption|]); apply Forall_nil. Qed.

Lemma orb_false_2 a b : a || b = false -> a = false /\ b = false.
Proof. apply orb_false_iff. Qed.

Theorem results_canonical md k si n x y z : 0 <= x < P128 -> 0 <= y < P128 -> 0 <= z < P128 ->
  all_canonical (m_add md x y) /\ all_canonical (m_sub md x y) /\ all_canonical (m_mul md x y) /\
  all_canonical (m_div md x y) /\ all_canonical (m_sqrt md x) /\ all_canonical (m_fma md x y z) /\
  all_canonical (m_quantize md x y) /\ all_canonical (rem_dec true x y) /\ all_canonical (rem_dec false x y) /\
  all_canonical (m_fdim md x y) /\ all_canonical (rint_dec md si x) /\ all_canonical (m_modf x) /\
  all_canonical (m_next_up x) /\ all_canonical (m_next_down x) /\ all_canonical (m_next_after x y) /\
  all_canonical (m_minmax k x y) /\ all_canonical (m_scaleb md x n) /\ all_canonical (m_logb x).
Proof.
  intros Hx Hy Hz.
  pose proof (nan_in_nan_out md k si n x y z) as NN. cbv zeta in NN. destruct NN as (N2 & N3 & N1 & NM).
  pose proof (nan2_canonical x y Hx Hy) as C2. pose proof (nan1_canonical x Hx) as C1.
  pose proof (nan3_canonical x y z Hx Hy Hz) as C3.
  assert (B2 : is_nan (decode x) || is_nan (decode y) = true \/ (is_nan (decode x) = false /\ is_nan (decode y) = false)).
  { destruct (is_nan (decode x)), (is_nan (decode y)); auto. }
  assert (B1 : is_nan (decode x) = true \/ is_nan (decode x) = false) by (destruct (is_nan (decode x)); auto).
  repeat split.
  - destruct B2 as [B|[Bx By]]; [rewrite (proj1 (N2 B)); exact C2|]. eapply shape_canonical, m_add_shape; assumption.
  - destruct B2 as [B|[Bx By]]; [rewrite (proj1 (proj2 (N2 B))); exact C2|]. eapply shape_canonical, m_sub_shape; assumption.
  - destruct B2 as [B|[Bx By]]; [destruct (N2 B) as (_&_&->&_); exact C2|]. eapply shape_canonical, m_mul_shape; assumption.
  - destruct B2 as [B|[Bx By]]; [destruct (N2 B) as (_&_&_&->&_); exact C2|]. eapply shape_canonical, m_div_shape; assumption.
  - destruct B1 as [B|B]; [destruct (N1 B) as (->&_); exact C1|]. eapply shape_canonical, m_sqrt_shape; assumption.
  - destruct (is_nan (decode x) || is_nan (decode y) || is_nan (decode z)) eqn:B; [rewrite (N3 eq_refl); exact C3|].
    apply orb_false_2 in B. destruct B as [B Bz]. apply orb_false_2 in B. destruct B as [Bx By].
    eapply shape_canonical, m_fma_shape; assumption.
  - destruct B2 as [B|[Bx By]]; [destruct (N2 B) as (_&_&_&_&->&_); exact C2|]. eapply shape_canonical, m_quantize_shape; assumption.
  - destruct B2 as [B|[Bx By]]; [destruct (N2 B) as (_&_&_&_&_&->&_); exact C2|]. eapply shape_canonical, rem_dec_shape; assumption.
  - destruct B2 as [B|[Bx By]]; [destruct (N2 B) as (_&_&_&_&_&_&->&_); exact C2|]. eapply shape_canonical, rem_dec_shape; assumption.
  - destruct B2 as [B|[Bx By]]; [destruct (N2 B) as (_&_&_&_&_&_&_&->&_); exact C2|]. eapply shape_canonical, m_fdim_shape; assumption.
  - destruct B1 as [B|B]; [destruct (N1 B) as (_&->&_); exact C1|]. eapply shape_canonical, rint_dec_shape; assumption.
  - destruct B1 as [B|B].
    + destruct (N1 B) as (_&_&->&_). intros o r Hin Hr. apply in_map_iff in Hin. destruct Hin as (o' & <- & Hin).
      cbn [dup_out fst] in Hr. apply in_app_or in Hr. apply (C1 o' r Hin). tauto.
    + destruct (m_modf_shape x Hx B) as (o & -> & d1 & d2 & -> & W1 & W2 & _).
      intros o r [<-|[]] [<-|[<-|[]]]; apply encode_canonical; assumption.
  - destruct B1 as [B|B]; [destruct (N1 B) as (_&_&_&->&_); exact C1|]. eapply shape_canonical, (m_next_shape x y); assumption.
  - destruct B1 as [B|B]; [destruct (N1 B) as (_&_&_&_&->&_); exact C1|]. eapply shape_canonical, (m_next_shape x y); assumption.
  - destruct B2 as [B|[Bx By]]; [destruct (N2 B) as (_&_&_&_&_&_&_&_&->); exact C2|].
    eapply shape_canonical. apply (m_next_shape x y); assumption.
  - destruct (is_snan (decode x) || is_snan (decode y)) eqn:S; [rewrite (NM (or_introl eq_refl)); exact C2|].
    destruct (is_nan (decode x) && is_nan (decode y)) eqn:B; [rewrite (NM (or_intror eq_refl)); exact C2|].
    apply orb_false_2 in S. destruct S as [Sx Sy]. eapply shape_canonical, m_minmax_shape; assumption.
  - destruct B1 as [B|B]; [destruct (N1 B) as (_&_&_&_&_&->&_); exact C1|]. eapply shape_canonical, m_scaleb_shape; assumption.
  - destruct B1 as [B|B]; [destruct (N1 B) as (_&_&_&_&_&_&->); exact C1|]. eapply shape_canonical, m_logb_shape; assumption.
Qed.

(* ---------- the judge's dispatch ---------- *)
Fixpoint expect_canonical (e:expect) : Prop :=
  match e with
  | Exact l => all_canonical l
  | Pred p _ => forall outs, p outs = true -> forall r, In r outs -> canonical_bits r = true
  | Known _ req rec => expect_canonical req /\ expect_canonical rec
  end.

Definition canon_op (o:op) : bool :=
  match o with
  | OAdd | OSub | OMul | ODiv | OSqrt | OFma | OQuantize | ORem | OFmod | OFdim | ORint | ONearbyint | ORintFix _
  | OModf | ONextUp | ONextDown | ONextAfter | OMinMax _ | OLogb | ODecodeDpd | OOpArith _ | OSum | OProduct => true
  | _ => false
  end.

Lemma nil_canonical : all_canonical [].
Proof. intros o r []. Qed.

Lemma arith2_canonical o x y : 0 <= x < P128 -> 0 <= y < P128 -> all_canonical (arith2 o RNE x y).
Proof.
  intros Hx Hy. pose proof (results_canonical RNE MinNum true 0 x y x Hx Hy Hx) as R.
  destruct o; try apply nil_canonical; cbn [arith2]; apply R.
Qed.

Lemma canonical_range r : canonical_bits r = true -> 0 <= r < P128.
Proof. unfold canonical_bits. rewrite !andb_true_iff, Z.leb_le, Z.ltb_lt. tauto. Qed.

Lemma fold_ops_canonical o args : Forall (fun x => 0 <= x < P128) args ->
  forall accs, (forall a, In a accs -> canonical_bits a = true) -> forall v, In v (fold_ops o accs args) -> canonical_bits v = true.
Proof.
  intros R. induction R as [|a l Ha Hl IH]; intros accs Hacc v; cbn [fold_ops]; [apply Hacc|].
  apply IH. intros r Hr. apply in_flat_map in Hr. destruct Hr as (acc & Hin & Hr).
  apply in_flat_map in Hr. destruct Hr as (oc & Hoc & Hr).
  exact (arith2_canonical o acc a (canonical_range _ (Hacc _ Hin)) Ha oc r Hoc Hr).
Qed.

Lemma modf_inf_ok_canonical s outs : modf_inf_ok s outs = true -> forall r, In r outs -> canonical_bits r = true.
Proof.
  unfold modf_inf_ok. destruct outs as [|ip [|fp [|]]]; try discriminate. rewrite !andb_true_iff, Z.eqb_eq.
  intros [[-> C] _] r [<-|[<-|[]]]; [destruct s; reflexivity|exact C].
Qed.

Lemma sum_canonical md args : Forall (fun x => 0 <= x < P128) args -> expect_canonical (expected OSum md args).
Proof.
  intros R. unfold expected. cbn [expect_canonical]. intros oc r Hin Hr. apply in_map_iff in Hin. destruct Hin as (v & <- & Hin).
  assert (C : canonical_bits v = true).
  { eapply (fold_ops_canonical OAdd args R [ZERO_BITS]); [|exact Hin]. intros a [<-|[]]. reflexivity. }
  destruct Hr as [<-|[<-|[]]]; exact C.
Qed.
Lemma product_canonical md args : Forall (fun x => 0 <= x < P128) args -> expect_canonical (expected OProduct md args).
Proof.
  intros R. unfold expected. cbn [expect_canonical]. intros oc r Hin Hr. apply in_map_iff in Hin. destruct Hin as (v & <- & Hin).
  assert (C : canonical_bits v = true).
  { eapply (fold_ops_canonical OMul args R [ONE_BITS]); [|exact Hin]. intros a [<-|[]]. reflexivity. }
  destruct Hr as [<-|[<-|[]]]; exact C.
Qed.

Theorem results_canonical_expected o md args : canon_op o = true -> Forall (fun x => 0 <= x < P128) args ->
  expect_canonical (expected o md args).
Proof.
  intros P R.
  destruct o; try discriminate P; clear P;
    try solve [apply sum_canonical; exact R | apply product_canonical; exact R];
    destruct args as [|x [|y [|z [|u l]]]]; try apply nil_canonical;
    repeat match goal with H : Forall _ (_ :: _) |- _ => apply Forall_cons_iff in H; destruct H as [? H] end;
    unfold expected; cbn [expect_canonical];
    first [ apply (results_canonical md MinNum true 0 x y z); assumption
          | apply (results_canonical md MinNum true 0 x y x); assumption
          | apply (results_canonical md MinNum true 0 x x x); assumption
          | idtac ].
  - apply (results_canonical md MinNum false 0 x x x); assumption.
  - apply (results_canonical m MinNum false 0 x x x); assumption.
  - destruct (decode x) eqn:E; cbn [expect_canonical]; try (apply (results_canonical md MinNum false 0 x x x); assumption).
    apply modf_inf_ok_canonical.
  - apply (results_canonical md k false 0 x y x); assumption.
  - apply m_decode_dpd_canonical; assumption.
  - intros oc r Hin Hr. unfold repeat_out in Hin. apply in_map_iff in Hin. destruct Hin as (o' & <- & Hin).
    cbn [fst] in Hr. apply in_concat in Hr. destruct Hr as (l' & Hl & Hr). apply repeat_spec in Hl. subst l'.
    exact (arith2_canonical o x y ltac:(assumption) ltac:(assumption) o' r Hin Hr).
Qed.

(* operations whose argument lists are not plain pattern tuples *)
Lemma default_qnan_canonical outs : is_default_qnan outs = true -> forall r, In r outs -> canonical_bits r = true.
Proof.
  unfold is_default_qnan. destruct outs as [|r0 [|]]; try discriminate. rewrite orb_true_iff, !Z.eqb_eq.
  intros [->| ->] r [<-|[]]; reflexivity.
Qed.
Lemma any_nan0_canonical outs : is_any_nan0 outs = true -> forall r, In r outs -> canonical_bits r = true.
Proof.
  unfold is_any_nan0. destruct outs as [|r0 [|]]; try discriminate. intros H r [<-|[]].
  destruct (decode r0) as [| |s sg p]; try discriminate. destruct p; try discriminate. exact H.
Qed.

Theorem results_canonical_expected_special md w sg eb fb um x n v b l :
  (0 <= x < P128 -> expect_canonical (expected (OScaleb w) md [x; n])) /\
  (1 <= w <= 64 -> expect_canonical (expected (OFromInt w sg) md [v])) /\
  (0 <= fb -> expect_canonical (expected (OFromBin eb fb um) md [b])) /\
  (0 <= x < P128 -> is_nan (decode x) = false -> expect_canonical (expected OQuantum md [x])) /\
  expect_canonical (expected OParse md l) /\ expect_canonical (expected OFromStr2 md l).
Proof.
  repeat split.
  - intros Hx. unfold expected. cbn [expect_canonical]. apply (results_canonical md MinNum true (sint w n) x x x); assumption.
  - intros Hw. unfold expected. cbn [expect_canonical]. destruct (m_from_int_canonical w sg v Hw) as (d & -> & W & _).
    apply out1_canonical, W.
  - intros Hf. unfold expected.
    pose proof (m_from_bin_canonical eb fb (if um then md else RNE) b Hf) as H.
    destruct (m_from_bin eb fb (if um then md else RNE) b) as [ol|s fl].
    + destruct um; cbn [expect_canonical]; [exact H|].
      intros oc r Hin Hr. apply in_map_iff in Hin. destruct Hin as (o' & <- & Hin). exact (H o' r Hin Hr).
    + cbn [expect_canonical]. exact H.
  - intros Hx Nx. unfold expected, of_kind. pose proof (m_quantum_canonical x) as H. revert H. unfold m_quantum.
    destruct (decode x) as [s c q|s|]; try discriminate; intros H; cbn [expect_canonical]; apply (H _ Hx eq_refl).
  - unfold expected. pose proof (m_parse_canonical md l) as H.
    destruct (m_parse md l); cbn [expect_canonical]; try exact H.
    + apply default_qnan_canonical.
    + split; [apply default_qnan_canonical|exact H].
    + apply any_nan0_canonical.
  - unfold expected. pose proof (m_parse_canonical RNE l) as H.
    assert (M : forall ol, all_canonical ol -> all_canonical (map (fun oc : outcome => (fst oc, 0)) ol)).
    { intros ol A oc r Hin Hr. apply in_map_iff in Hin. destruct Hin as (o' & <- & Hin). exact (A o' r Hin Hr). }
    destruct (m_parse RNE l); cbn [expect_canonical]; auto.
    + apply default_qnan_canonical.
    + split; [apply default_qnan_canonical|auto].
    + apply any_nan0_canonical.
Qed.

(* ---------- invalid_sources: all operations at once ---------- *)
Lemma add_inv_char dx dy : add_inv dx dy = true <-> exists s, dx = Inf s /\ dy = Inf (negb s).
Proof.
  split.
  - destruct dx as [| s |]; try discriminate. destruct dy as [| s' |]; try discriminate. cbn [add_inv].
    intros H. exists s. destruct s, s'; try discriminate; auto.
  - intros (s & -> & ->). destruct s; reflexivity.
Qed.
Lemma sub_inv_char dx dy : sub_inv dx dy = true <-> exists s, dx = Inf s /\ dy = Inf s.
Proof.
  split.
  - destruct dx as [| s |]; try discriminate. destruct dy as [| s' |]; try discriminate. cbn [sub_inv].
    intros H. exists s. destruct s, s'; try discriminate; auto.
  - intros (s & -> & ->). destruct s; reflexivity.
Qed.

(* quantize: "too many digits" = the coefficient rescaled to the target exponent needs more than 34 digits *)
Lemma quantize_inv_char sx cx qx sy cy qy : 0 <= cx ->
  quantize_inv (Fin sx cx qx) (Fin sy cy qy) = true <-> cx <> 0 /\ qy <= qx /\ 34 < ndigits cx + (qx - qy).
Proof.
  intros Hc. cbn [quantize_inv]. rewrite !andb_true_iff, negb_true_iff, Z.eqb_neq, !Z.leb_le.
  split.
  - intros [[N Q] L]. split; [exact N|]. split; [exact Q|]. unfold ndigits.
    rewrite <- (Zdigits_mult_Zpower radix10 cx (qx - qy)) by lia.
    apply Zdigits_gt_Zpower. rewrite Z.abs_eq; [exact L|]. apply Z.mul_nonneg_nonneg; [lia|apply Zpower_ge_0].
  - intros (N & Q & L). split; [auto|]. unfold ndigits in L.
    rewrite <- (Zdigits_mult_Zpower radix10 cx (qx - qy)) in L by lia.
    apply Zpower_le_Zdigits in L. rewrite Z.abs_eq in L; [exact L|]. apply Z.mul_nonneg_nonneg; [lia|apply Zpower_ge_0].
Qed.

Theorem invalid_sources md nearest k si n x y z : 0 <= x < P128 -> 0 <= y < P128 -> 0 <= z < P128 ->
  let dx := decode x in let dy := decode y in let dz := decode z in
  is_nan dx = false ->
  (shape (sqrt_inv dx) (m_sqrt md x) /\ shape false (rint_dec md si x) /\ (exists o, m_modf x = [o] /\ numeric_out2 o) /\
   shape false (m_next_up x) /\ shape false (m_next_down x) /\ shape false (m_scaleb md x n) /\ shape false (m_logb x)) /\
  (is_nan dy = false ->
   shape (add_inv dx dy) (m_add md x y) /\ shape (sub_inv dx dy) (m_sub md x y) /\
   shape (mul_inv dx dy) (m_mul md x y) /\ shape (div_inv dx dy) (m_div md x y) /\
   shape (quantize_inv dx dy) (m_quantize md x y) /\ shape (rem_inv dx dy) (rem_dec nearest x y) /\
   shape false (m_fdim md x y) /\ shape false (m_next_after x y) /\ shape false (m_minmax k x y) /\
   (is_nan dz = false -> shape (fma_inv dx dy dz) (m_fma md x y z))).
Proof.
  intros Hx Hy Hz dx dy dz Nx. split.
  - split; [apply m_sqrt_shape; assumption|]. split; [apply rint_dec_shape; assumption|].
    split; [apply m_modf_shape; assumption|]. split; [apply (m_next_shape x y); assumption|].
    split; [apply (m_next_shape x y); assumption|]. split; [apply m_scaleb_shape; assumption|apply m_logb_shape; assumption].
  - intros Ny.
    split; [apply m_add_shape; assumption|]. split; [apply m_sub_shape; assumption|].
    split; [apply m_mul_shape; assumption|]. split; [apply m_div_shape; assumption|].
    split; [apply m_quantize_shape; assumption|]. split; [apply rem_dec_shape; assumption|].
    split; [apply m_fdim_shape; assumption|]. split; [apply (m_next_shape x y); assumption|].
    split.
    + assert (Sx : is_snan dx = false) by (unfold dx in *; destruct (decode x) as [| |? []]; try discriminate; reflexivity).
      assert (Sy : is_snan dy = false) by (unfold dy in *; destruct (decode y) as [| |? []]; try discriminate; reflexivity).
      apply m_minmax_shape; try assumption. fold dx. rewrite Nx. reflexivity.
    + intros Nz. apply m_fma_shape; assumption.
Qed.

(* ---------- every operand tuple gets an answer: the accepted-outcome lists are never empty ---------- *)
Lemma shape_nonempty k l : shape k l -> l <> [].
Proof. destruct k; cbn [shape]; [intros ->; discriminate|intros [H _]; exact H]. Qed.

Theorem outcomes_nonempty md k si n x y z : 0 <= x < P128 -> 0 <= y < P128 -> 0 <= z < P128 ->
  m_add md x y <> [] /\ m_sub md x y <> [] /\ m_mul md x y <> [] /\ m_div md x y <> [] /\ m_sqrt md x <> [] /\
  m_fma md x y z <> [] /\ m_quantize md x y <> [] /\ rem_dec true x y <> [] /\ rem_dec false x y <> [] /\
  m_fdim md x y <> [] /\ rint_dec md si x <> [] /\ m_modf x <> [] /\ m_next_up x <> [] /\ m_next_down x <> [] /\
  m_next_after x y <> [] /\ m_minmax k x y <> [] /\ m_scaleb md x n <> [] /\ m_logb x <> [].
Proof.
  intros Hx Hy Hz.
  pose proof (nan_in_nan_out md k si n x y z) as NN. cbv zeta in NN. destruct NN as (N2 & N3 & N1 & NM).
  assert (E1 : is_nan (decode x) = true -> nan_outcomes [decode x] <> []).
  { intros B. apply nan_outcomes_nonempty'. cbn [existsb]. rewrite B. reflexivity. }
  assert (E2 : is_nan (decode x) || is_nan (decode y) = true -> nan_outcomes [decode x; decode y] <> []).
  { intros B. apply nan_outcomes_nonempty'. cbn [existsb]. rewrite orb_false_r. exact B. }
  assert (B2 : is_nan (decode x) || is_nan (decode y) = true \/ (is_nan (decode x) = false /\ is_nan (decode y) = false)).
  { destruct (is_nan (decode x)), (is_nan (decode y)); auto. }
  assert (B1 : is_nan (decode x) = true \/ is_nan (decode x) = false) by (destruct (is_nan (decode x)); auto).
  repeat split.
  - destruct B2 as [B|[Bx By]]; [rewrite (proj1 (N2 B)); auto|]. eapply shape_nonempty, m_add_shape; assumption.
  - destruct B2 as [B|[Bx By]]; [rewrite (proj1 (proj2 (N2 B))); auto|]. eapply shape_nonempty, m_sub_shape; assumption.
  - destruct B2 as [B|[Bx By]]; [destruct (N2 B) as (_&_&->&_); auto|]. eapply shape_nonempty, m_mul_shape; assumption.
  - destruct B2 as [B|[Bx By]]; [destruct (N2 B) as (_&_&_&->&_); auto|]. eapply shape_nonempty, m_div_shape; assumption.
  - destruct B1 as [B|B]; [destruct (N1 B) as (->&_); auto|]. eapply shape_nonempty, m_sqrt_shape; assumption.
  - destruct (is_nan (decode x) || is_nan (decode y) || is_nan (decode z)) eqn:B.
    + rewrite (N3 eq_refl). apply nan_outcomes_nonempty'. cbn [existsb]. rewrite orb_false_r, orb_assoc. exact B.
    + apply orb_false_2 in B. destruct B as [B Bz]. apply orb_false_2 in B. destruct B as [Bx By].
      eapply shape_nonempty, m_fma_shape; assumption.
  - destruct B2 as [B|[Bx By]]; [destruct (N2 B) as (_&_&_&_&->&_); auto|]. eapply shape_nonempty, m_quantize_shape; assumption.
  - destruct B2 as [B|[Bx By]]; [destruct (N2 B) as (_&_&_&_&_&->&_); auto|]. eapply shape_nonempty, rem_dec_shape; assumption.
  - destruct B2 as [B|[Bx By]]; [destruct (N2 B) as (_&_&_&_&_&_&->&_); auto|]. eapply shape_nonempty, rem_dec_shape; assumption.
  - destruct B2 as [B|[Bx By]]; [destruct (N2 B) as (_&_&_&_&_&_&_&->&_); auto|]. eapply shape_nonempty, m_fdim_shape; assumption.
  - destruct B1 as [B|B]; [destruct (N1 B) as (_&->&_); auto|]. eapply shape_nonempty, rint_dec_shape; assumption.
  - destruct B1 as [B|B].
    + destruct (N1 B) as (_&_&->&_). specialize (E1 B). destruct (nan_outcomes [decode x]); [contradiction|discriminate].
    + destruct (m_modf_shape x Hx B) as (o & -> & _). discriminate.
  - destruct B1 as [B|B]; [destruct (N1 B) as (_&_&_&->&_); auto|]. eapply shape_nonempty, (m_next_shape x y); assumption.
  - destruct B1 as [B|B]; [destruct (N1 B) as (_&_&_&_&->&_); auto|]. eapply shape_nonempty, (m_next_shape x y); assumption.
  - destruct B2 as [B|[Bx By]]; [destruct (N2 B) as (_&_&_&_&_&_&_&_&->); auto|].
    eapply shape_nonempty. apply (m_next_shape x y); assumption.
  - destruct (is_snan (decode x) || is_snan (decode y)) eqn:S.
    + rewrite (NM (or_introl eq_refl)). apply E2. apply orb_true_iff in S.
      destruct S as [S|S]; [destruct (decode x) as [| |? [] ?]|destruct (decode y) as [| |? [] ?]]; try discriminate;
        cbn [is_nan orb]; rewrite ?orb_true_r; reflexivity.
    + destruct (is_nan (decode x) && is_nan (decode y)) eqn:B.
      * rewrite (NM (or_intror eq_refl)). apply E2. apply andb_true_iff in B. destruct B as [-> _]. reflexivity.
      * apply orb_false_2 in S. destruct S as [Sx Sy]. eapply shape_nonempty, m_minmax_shape; assumption.
  - destruct B1 as [B|B]; [destruct (N1 B) as (_&_&_&_&_&->&_); auto|]. eapply shape_nonempty, m_scaleb_shape; assumption.
  - destruct B1 as [B|B]; [destruct (N1 B) as (_&_&_&_&_&_&->); auto|]. eapply shape_nonempty, m_logb_shape; assumption.
Qed.
