(* decode/encode theorems for every 128-bit pattern (axiom-free, lia with div/mod equations). *)
From Coq Require Import ZArith Lia Bool.
From DV Require Import Base Bid.
Open Scope Z_scope.
Ltac Zify.zify_post_hook ::= Z.div_mod_to_equations.

Lemma consts_ok : T34 = 10^34 /\ T33 = 10^33 /\ P64 = 2^64 /\ P110 = 2^110 /\ P111 = 2^111 /\ P113 = 2^113 /\ P121 = 2^121 /\
  P122 = 2^122 /\ P123 = 2^123 /\ P125 = 2^125 /\ P127 = 2^127 /\ P128 = 2^128.
Proof. repeat split; reflexivity. Qed.

Definition wf (d:dec) : Prop :=
  match d with
  | Fin _ c q => 0 <= c < T34 /\ -6176 <= q <= 6111
  | Inf _ => True
  | NaN _ _ p => 0 <= p < T33
  end.

Lemma wfb_wf d : wfb d = true <-> wf d.
Proof.
  destruct d as [s c q|s|s sg p]; unfold wfb, wf; rewrite ?andb_true_iff, ?Z.leb_le, ?Z.ltb_lt; intuition lia.
Qed.

Theorem decode_wf b : 0 <= b < P128 -> wf (decode b).
Proof.
  intros Hb. unfold decode, wf, T34, T33, P110, P111, P113, P121, P122, P127, P128 in *.
  destruct (_ =? 31) eqn:E31.
  - destruct (_ <? _) eqn:Ep. apply Z.ltb_lt in Ep. lia. lia.
  - destruct (_ =? 30) eqn:E30; [exact I|].
    destruct (24 <=? _) eqn:E24.
    + lia.
    + apply Z.leb_gt in E24. apply Z.eqb_neq in E30, E31.
      destruct (_ <? _) eqn:Ec; [apply Z.ltb_lt in Ec|]; lia.
Qed.

Theorem decode_encode d : wf d -> decode (encode d) = d.
Proof.
  destruct d as [s c q|s|s sg p]; unfold wf, encode, decode, T34, T33, P110, P111, P113, P121, P122, P127, P128; intros H.
  - (* finite *)
    assert (Hs : (170141183460469231731687303715884105728 <=? (if s then 170141183460469231731687303715884105728 else 0) + (q + 6176) * 10384593717069655257060992658440192 + c) = s).
    { destruct s; [apply Z.leb_le| apply Z.leb_gt]; lia. }
    rewrite Hs.
    set (b := (if s then 170141183460469231731687303715884105728 else 0) + (q + 6176) * 10384593717069655257060992658440192 + c).
    assert (Hr : b mod 170141183460469231731687303715884105728 = (q + 6176) * 10384593717069655257060992658440192 + c).
    { unfold b. destruct s; lia. }
    rewrite Hr.
    assert (Hg : ((q + 6176) * 10384593717069655257060992658440192 + c) / 5316911983139663491615228241121378304 < 24) by lia.
    destruct (_ =? 31) eqn:E31; [apply Z.eqb_eq in E31; lia|].
    destruct (_ =? 30) eqn:E30; [apply Z.eqb_eq in E30; lia|].
    destruct (24 <=? _) eqn:E24; [apply Z.leb_le in E24; lia|].
    assert (Hc : ((q + 6176) * 10384593717069655257060992658440192 + c) mod 10384593717069655257060992658440192 = c) by lia.
    assert (Hq : ((q + 6176) * 10384593717069655257060992658440192 + c) / 10384593717069655257060992658440192 = q + 6176) by lia.
    rewrite Hc, Hq. destruct (c <? _) eqn:Ec; [|apply Z.ltb_ge in Ec; lia].
    f_equal. lia.
  - (* infinity *)
    destruct s; reflexivity.
  - (* NaN *)
    assert (Hs : (170141183460469231731687303715884105728 <=? (if s then 170141183460469231731687303715884105728 else 0) + 31 * 5316911983139663491615228241121378304 + (if sg then 2658455991569831745807614120560689152 else 0) + p) = s).
    { destruct s, sg; [apply Z.leb_le|apply Z.leb_le|apply Z.leb_gt|apply Z.leb_gt]; lia. }
    rewrite Hs.
    set (r0 := 31 * 5316911983139663491615228241121378304 + (if sg then 2658455991569831745807614120560689152 else 0) + p).
    assert (Hr : ((if s then 170141183460469231731687303715884105728 else 0) + 31 * 5316911983139663491615228241121378304 + (if sg then 2658455991569831745807614120560689152 else 0) + p) mod 170141183460469231731687303715884105728 = r0).
    { unfold r0. destruct s, sg; lia. }
    rewrite Hr.
    assert (Hg : r0 / 5316911983139663491615228241121378304 = 31) by (unfold r0; destruct sg; lia).
    rewrite Hg. cbn [Z.eqb Pos.eqb].
    assert (Hp : r0 mod 1298074214633706907132624082305024 = p) by (unfold r0; destruct sg; lia).
    assert (Hsg : (1 <=? (r0 / 2658455991569831745807614120560689152) mod 2) = sg).
    { unfold r0. destruct sg; [apply Z.leb_le| apply Z.leb_gt]; lia. }
    rewrite Hp, Hsg. destruct (p <? _) eqn:Ep; [reflexivity| apply Z.ltb_ge in Ep; lia].
Qed.

(* the canonical encodings are exactly the images of well-formed data *)
Theorem encode_range d : wf d -> 0 <= encode d < P128.
Proof.
  destruct d as [s c q|s|s sg p]; unfold wf, encode, T34, T33, P113, P121, P122, P127, P128; intros H.
  - destruct s; lia.
  - destruct s; lia.
  - destruct s, sg; lia.
Qed.

Theorem encode_canonical d : wf d -> canonical_bits (encode d) = true.
Proof.
  intros H. unfold canonical_bits. pose proof (encode_range d H) as R.
  rewrite (decode_encode d H). rewrite Z.eqb_refl.
  destruct (Z.leb_spec 0 (encode d)); [|lia]. destruct (Z.ltb_spec (encode d) P128); [reflexivity|lia].
Qed.

Theorem encode_decode b : canonical_bits b = true -> encode (decode b) = b.
Proof. unfold canonical_bits. rewrite !andb_true_iff, Z.eqb_eq. tauto. Qed.

Theorem encode_inj d d' : wf d -> wf d' -> encode d = encode d' -> d = d'.
Proof. intros H H' E. rewrite <- (decode_encode d H), <- (decode_encode d' H'). now rewrite E. Qed.
