(* C10, second layer: the integer theorem RemProofs.rem_dec_spec restated on real values with Flocq's
   ZnearestE (round half to even to an integer) and Ztrunc. Uses the axioms of Coq's Reals. *)
From Coq Require Import ZArith Reals Lia Lra Bool List.
From Flocq Require Import Core.Core.
From DV Require Import Base Bid BidProofs Arith OpsArith OpsCmp OpsMisc Judge RemProofs.
Import ListNotations.
Open Scope Z_scope.

(* the nearest-even integer quotient, characterised on integers, is Flocq's ZnearestE of the real quotient *)
Lemma ZnearestE_div X Y n : Y <> 0 ->
  2 * Z.abs (X - n * Y) <= Z.abs Y -> (2 * Z.abs (X - n * Y) = Z.abs Y -> Z.even n = true) ->
  ZnearestE (IZR X / IZR Y) = n.
Proof.
  intros HY Hle Htie.
  set (d := X - n * Y) in *.
  assert (HYr : IZR Y <> 0%R) by (apply not_0_IZR; exact HY).
  assert (Hq : (IZR X / IZR Y - IZR n = IZR d * / IZR Y)%R).
  { unfold d. rewrite minus_IZR, mult_IZR. field. exact HYr. }
  assert (Hlt : 2 * Z.abs d < Z.abs Y \/ 2 * d = Y \/ 2 * d = - Y) by lia.
  destruct Hlt as [Hlt|[He|He]].
  - apply Znearest_imp. rewrite Hq, Rabs_mult, Rabs_inv, <- !abs_IZR.
    assert (HA : (0 < IZR (Z.abs Y))%R) by (apply IZR_lt; lia).
    apply IZR_lt in Hlt. rewrite mult_IZR in Hlt.
    replace (/ 2)%R with (IZR (Z.abs Y) / 2 * / IZR (Z.abs Y))%R by (field; lra).
    apply Rmult_lt_compat_r; [apply Rinv_0_lt_compat, HA|lra].
  - (* quotient = n + 1/2 *)
    assert (Ev : Z.even n = true) by (apply Htie; lia).
    assert (Hd : IZR d <> 0%R) by (apply not_0_IZR; lia).
    assert (Hh : (IZR X / IZR Y = IZR n + / 2)%R).
    { apply Rminus_diag_uniq. replace (IZR X / IZR Y - (IZR n + / 2))%R with (IZR X / IZR Y - IZR n - / 2)%R by ring.
      rewrite Hq, <- He, mult_IZR. field. exact Hd. }
    assert (Hf : Zfloor (IZR X / IZR Y) = n).
    { apply Zfloor_imp. rewrite plus_IZR, Hh. lra. }
    unfold Znearest. rewrite Hf, Hh.
    replace (IZR n + / 2 - IZR n)%R with (/ 2)%R by ring.
    rewrite Rcompare_Eq by reflexivity. rewrite Ev. reflexivity.
  - (* quotient = n - 1/2 *)
    assert (Ev : Z.even n = true) by (apply Htie; lia).
    assert (Hd : IZR d <> 0%R) by (apply not_0_IZR; lia).
    assert (HY2 : IZR Y = (- (2 * IZR d))%R).
    { replace Y with (- (2 * d)) by lia. rewrite opp_IZR, mult_IZR. reflexivity. }
    assert (Hh : (IZR X / IZR Y = IZR n - / 2)%R).
    { apply Rminus_diag_uniq. replace (IZR X / IZR Y - (IZR n - / 2))%R with (IZR X / IZR Y - IZR n + / 2)%R by ring.
      rewrite Hq, HY2. field. exact Hd. }
    assert (Hf : Zfloor (IZR X / IZR Y) = n - 1).
    { apply Zfloor_imp. replace (n - 1 + 1) with n by ring. rewrite minus_IZR, Hh. lra. }
    assert (Hc : Zceil (IZR X / IZR Y) = n).
    { apply Zceil_imp. rewrite minus_IZR, Hh. lra. }
    unfold Znearest. rewrite Hf, Hc, Hh, minus_IZR.
    replace (IZR n - / 2 - (IZR n - 1))%R with (/ 2)%R by field.
    rewrite Rcompare_Eq by reflexivity.
    replace (Z.even (n - 1)) with false; [reflexivity|].
    replace (n - 1) with (Z.pred n) by lia. rewrite Z.even_pred, <- Z.negb_even, Ev. reflexivity.
Qed.

Lemma D2R_scaled s c q e : e <= q -> D2R (Fin s c q) = (IZR (scaled s c q e) * bpow10 e)%R.
Proof.
  intros He. unfold D2R, scaled, sval, F2R. cbn [Fnum Fexp].
  rewrite mult_IZR. change (10 ^ (q - e)) with (Zpower radix10 (q - e)).
  rewrite IZR_Zpower by lia. rewrite Rmult_assoc, <- bpow_plus.
  replace (q - e + e) with q by ring. reflexivity.
Qed.

(* main theorem (real form) *)
Theorem rem_dec_real (nearest:bool) x y sx cx qx sy cy qy :
  0 <= x < P128 -> 0 <= y < P128 ->
  decode x = Fin sx cx qx -> decode y = Fin sy cy qy -> cy <> 0 ->
  let vx := D2R (decode x) in let vy := D2R (decode y) in
  let n := if nearest then ZnearestE (vx / vy)%R else Ztrunc (vx / vy)%R in
  exists s r,
    rem_dec nearest x y = [([encode (Fin s r (Z.min qx qy))], 0)] /\
    wf (Fin s r (Z.min qx qy)) /\
    D2R (Fin s r (Z.min qx qy)) = (vx - IZR n * vy)%R /\
    (if nearest then (Rabs (D2R (Fin s r (Z.min qx qy))) <= Rabs vy / 2)%R
     else (Rabs (D2R (Fin s r (Z.min qx qy))) < Rabs vy)%R /\ s = sx) /\
    (D2R (Fin s r (Z.min qx qy)) = 0%R -> s = sx).
Proof.
  intros Hx Hy Dx Dy Hcy vx vy n.
  destruct (rem_dec_spec nearest x y sx cx qx sy cy qy Hx Hy Dx Dy Hcy)
    as (s & r & n' & Hout & Hwf & Hval & Hquo & Hzero & Hfmod & Hrem).
  cbv zeta in *.
  set (e := Z.min qx qy) in *.
  set (Xs := scaled sx cx qx e) in *. set (Ys := scaled sy cy qy e) in *.
  assert (Hb : (0 < bpow10 e)%R) by apply bpow_gt_0.
  assert (Evx : vx = (IZR Xs * bpow10 e)%R).
  { unfold vx. rewrite Dx. apply D2R_scaled. unfold e. lia. }
  assert (Evy : vy = (IZR Ys * bpow10 e)%R).
  { unfold vy. rewrite Dy. apply D2R_scaled. unfold e. lia. }
  assert (Er : D2R (Fin s r e) = (IZR (sval s r) * bpow10 e)%R).
  { rewrite (D2R_scaled s r e e) by lia. unfold scaled. rewrite Z.sub_diag, Z.pow_0_r, Z.mul_1_r. reflexivity. }
  destruct (decode_fin_wf y sy cy qy Hy Dy) as [Bcy Bqy].
  assert (HYs : Ys <> 0).
  { unfold Ys, scaled, sval. assert (0 < 10 ^ (qy - e)) by (apply Z.pow_pos_nonneg; unfold e; lia).
    destruct sy; cbn [cond_Zopp]; nia. }
  assert (HYr : IZR Ys <> 0%R) by (apply not_0_IZR; exact HYs).
  assert (Hquot : (vx / vy = IZR Xs / IZR Ys)%R).
  { rewrite Evx, Evy. field. split; [exact HYr|lra]. }
  assert (Hn : n = n').
  { unfold n. rewrite Hquot. unfold ieee_quotient in Hquo. destruct nearest.
    - destruct Hquo as [Q1 Q2]. apply ZnearestE_div; assumption.
    - rewrite Hquo. apply Ztrunc_div. exact HYs. }
  assert (Habs_r : Rabs (D2R (Fin s r e)) = (IZR r * bpow10 e)%R).
  { rewrite Er, Rabs_mult, (Rabs_pos_eq (bpow10 e)) by lra. f_equal.
    rewrite <- abs_IZR. f_equal. unfold sval. unfold wf in Hwf. destruct s; cbn [cond_Zopp]; lia. }
  assert (Habs_y : Rabs vy = (IZR (Z.abs Ys) * bpow10 e)%R).
  { rewrite Evy, Rabs_mult, (Rabs_pos_eq (bpow10 e)) by lra. rewrite <- abs_IZR. reflexivity. }
  exists s, r. split; [exact Hout|]. split; [exact Hwf|].
  split. { rewrite Er, Hval, Hn, Evx, Evy, minus_IZR, mult_IZR. ring. }
  split.
  { rewrite Habs_r, Habs_y. destruct nearest.
    - specialize (Hrem eq_refl). apply IZR_le in Hrem. rewrite mult_IZR in Hrem.
      apply Rmult_le_reg_l with 2%R; [lra|].
      replace (2 * (IZR (Z.abs Ys) * bpow10 e / 2))%R with (IZR (Z.abs Ys) * bpow10 e)%R by field.
      rewrite <- Rmult_assoc. apply Rmult_le_compat_r; lra.
    - destruct (Hfmod eq_refl) as [Hs Hlt]. split; [|exact Hs].
      apply IZR_lt in Hlt. apply Rmult_lt_compat_r; assumption. }
  intros H0. apply Hzero. rewrite Er in H0.
  apply Rmult_integral in H0. destruct H0 as [H0|H0]; [|lra].
  apply eq_IZR in H0. unfold sval in H0. destruct s; cbn [cond_Zopp] in H0; lia.
Qed.

Theorem remainder_real x y sx cx qx sy cy qy :
  0 <= x < P128 -> 0 <= y < P128 ->
  decode x = Fin sx cx qx -> decode y = Fin sy cy qy -> cy <> 0 ->
  let vx := D2R (decode x) in let vy := D2R (decode y) in
  exists s r,
    rem_dec true x y = [([encode (Fin s r (Z.min qx qy))], 0)] /\
    wf (Fin s r (Z.min qx qy)) /\
    D2R (Fin s r (Z.min qx qy)) = (vx - IZR (ZnearestE (vx / vy)) * vy)%R /\
    (Rabs (D2R (Fin s r (Z.min qx qy))) <= Rabs vy / 2)%R /\
    (D2R (Fin s r (Z.min qx qy)) = 0%R -> s = sx).
Proof. exact (rem_dec_real true x y sx cx qx sy cy qy). Qed.

Theorem fmod_real x y sx cx qx sy cy qy :
  0 <= x < P128 -> 0 <= y < P128 ->
  decode x = Fin sx cx qx -> decode y = Fin sy cy qy -> cy <> 0 ->
  let vx := D2R (decode x) in let vy := D2R (decode y) in
  exists r,
    rem_dec false x y = [([encode (Fin sx r (Z.min qx qy))], 0)] /\
    wf (Fin sx r (Z.min qx qy)) /\
    D2R (Fin sx r (Z.min qx qy)) = (vx - IZR (Ztrunc (vx / vy)) * vy)%R /\
    (Rabs (D2R (Fin sx r (Z.min qx qy))) < Rabs vy)%R.
Proof.
  intros Hx Hy Dx Dy Hcy vx vy.
  destruct (rem_dec_real false x y sx cx qx sy cy qy Hx Hy Dx Dy Hcy) as (s & r & Hout & Hwf & Hval & [Hlt ->] & _).
  exists r. split; [exact Hout|]. split; [exact Hwf|]. split; [exact Hval|exact Hlt].
Qed.
