(* Layer M: the caller-owned status word as a state machine (C14). Definitions only.
   A call is an operation with its mode and arguments; what the model says about it is [expected o md args], which by
   construction does not mention the status word. The acceptance test [judge e fin outs fout] (Judge.v) relates the word
   on entry [fin], the returned values [outs] and the word on exit [fout]. *)
From Coq Require Import ZArith Bool List.
From DV Require Import Base Bid Arith OpsArith OpsCmp OpsMisc OpsConv OpsStr Judge.
Import ListNotations.
Open Scope Z_scope.

(* the status-free content of an expectation: is (returned values, set of newly raised flags) an accepted pair?
   same verdict convention as [judge]: 1 accepted, 0 rejected, 2 + id recorded known finding *)
Fixpoint acc (e : expect) (outs : list Z) (fl : Z) : Z :=
  match e with
  | Exact l => b2z (existsb (fun o => list_eqb (fst o) outs && (snd o =? fl)) l)
  | Pred p fls => b2z (p outs && existsb (fun f => f =? fl) fls)
  | Known id req rec => if acc req outs fl =? 1 then 1 else if acc rec outs fl =? 1 then 2 + Z.abs id else 0
  end.

Record call := mkcall { c_op : op; c_md : rmode; c_args : list Z }.
Definition c_expect (c : call) : expect := expected (c_op c) (c_md c) (c_args c).

(* one observed step of an implementation: the values it returned and the status word it left *)
Record obs := mkobs { o_outs : list Z; o_word : Z }.

(* an observed history (entry word, calls with their observations) is accepted when every step is accepted from the
   word the previous step left *)
Fixpoint run_accepted (st : Z) (h : list (call * obs)) : bool :=
  match h with
  | [] => true
  | (c, o) :: r => negb (judge (c_expect c) st (o_outs o) (o_word o) =? 0) && run_accepted (o_word o) r
  end.
Definition final_word (st : Z) (h : list (call * obs)) : Z := o_word (snd (last h (mkcall OConsts RNE [], mkobs [] st))).

(* a is a subset of b, as sets of flag bits *)
Definition subset_bits (a b : Z) : Prop := Z.land a b = a.
(* union of a list of flag sets *)
Definition union_bits (l : list Z) : Z := fold_left Z.lor l 0.
