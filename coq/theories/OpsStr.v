(* Layer M: decimal character sequences. Parsing (C04) over a list of bytes (UTF-8; every byte >= 128 is
   outside the grammar, so bytes and code points give the same language) and formatting (C05). *)
From Coq Require Import ZArith Bool List.
From Flocq Require Import Core.Core Calc.Bracket.
From DV Require Import Base Bid Arith OpsArith OpsCmp OpsMisc.
Import ListNotations.
Open Scope Z_scope.

Definition is_digit (b:Z) : bool := (48 <=? b) && (b <=? 57).
Definition lower (b:Z) : Z := if (65 <=? b) && (b <=? 90) then b + 32 else b.

(* case-insensitive comparison with a lower-case pattern *)
Fixpoint eqi (l pat : list Z) : bool :=
  match l, pat with
  | [], [] => true
  | b :: l', p :: pat' => (lower b =? p) && eqi l' pat'
  | _, _ => false
  end.
Fixpoint prefix_eqi (l pat : list Z) : bool :=
  match pat, l with
  | [], _ => true
  | p :: pat', b :: l' => (lower b =? p) && prefix_eqi l' pat'
  | _, [] => false
  end.

Definition s_inf := [105; 110; 102].
Definition s_infinity := [105; 110; 102; 105; 110; 105; 116; 121].
Definition s_nan := [110; 97; 110].
Definition s_snan := [115; 110; 97; 110].

Fixpoint skip_ws (l : list Z) : list Z :=
  match l with b :: r => if (b =? 32) || (b =? 9) then skip_ws r else l | [] => [] end.

(* reads a maximal run of digits: (accumulated value, number of digits read, rest) *)
Fixpoint read_digits (l : list Z) (acc n : Z) : Z * Z * list Z :=
  match l with
  | b :: r => if is_digit b then read_digits r (acc * 10 + (b - 48)) (n + 1) else (acc, n, l)
  | [] => (acc, n, [])
  end.

Inductive tok :=
| TSpecial (d:dec)                       (* inf / infinity / nan / snan with optional sign *)
| TNum (s:bool) (digits nfrac exp : Z)   (* (-1)^s * digits * 10^(exp - nfrac) *)
| TSnanJunk (s:bool)                     (* "snan" followed by further characters: unspecified, see DESIGN 10/C04 (e) *)
| TExpJunk (s:bool) (digits nfrac exp : Z)  (* a complete literal with exponent, followed by further characters: ill-formed
                                             (known finding KF_EXPJUNK: the crate returns the literal's value) *)
| TGarbage.

Definition is_nil (l : list Z) : bool := match l with [] => true | _ => false end.

Definition lex (l0 : list Z) : tok :=
  let l := skip_ws l0 in
  let '(s, r) := match l with 43 :: r => (false, r) | 45 :: r => (true, r) | _ => (false, l) end in
  if eqi r s_inf || eqi r s_infinity then TSpecial (Inf s)
  else if eqi r s_nan then TSpecial (NaN s false 0)
  else if eqi r s_snan then TSpecial (NaN s true 0)
  else if prefix_eqi r s_snan then TSnanJunk s
  else
    let '(ip, ni, r1) := read_digits r 0 0 in
    let '(fp, nf, r2) := match r1 with 46 :: r' => read_digits r' ip 0 | _ => (ip, 0, r1) end in
    if ni + nf =? 0 then TGarbage else
    match r2 with
    | [] => TNum s fp nf 0
    | e :: r3 =>
        if (e =? 101) || (e =? 69) then
          let '(es, r4) := match r3 with 43 :: r' => (false, r') | 45 :: r' => (true, r') | _ => (false, r3) end in
          let '(ev, ne, r5) := read_digits r4 0 0 in
          if ne =? 0 then TGarbage
          else if negb (is_nil r5) then TExpJunk s fp nf (if es then - ev else ev)
          else TNum s fp nf (if es then - ev else ev)
        else TGarbage
    end.

Definition parse_num (md:rmode) (s:bool) (digits nfrac exp : Z) : dec * flags :=
  rp md s digits (exp - nfrac) loc_Exact (exp - nfrac) s.

Inductive str_expect :=
| SList (l : list outcome)
| SGarbage            (* a canonical quiet NaN (payload 0, either sign), no flag *)
| SExpJunk (l : list outcome)   (* required: as SGarbage; known finding: the value of the literal in front of the junk *)
| SSnanJunk (s:bool). (* unspecified: signaling or quiet NaN *)

Definition m_parse (md:rmode) (l : list Z) : str_expect :=
  match lex l with
  | TSpecial d => SList (out1 d 0)
  | TNum s digits nfrac exp => SList (fin_out (parse_num md s digits nfrac exp))
  | TSnanJunk s => SSnanJunk s
  | TExpJunk s digits nfrac exp => SExpJunk (fin_out (parse_num md s digits nfrac exp))
  | TGarbage => SGarbage
  end.

Definition is_default_qnan (outs : list Z) : bool :=
  match outs with [r] => (r =? encode QNAN) || (r =? encode (NaN true false 0)) | _ => false end.
Definition is_any_nan0 (outs : list Z) : bool :=
  match outs with [r] => match decode r with NaN _ _ 0 => canonical_bits r | _ => false end | _ => false end.

(* FromStr: Ok(value) iff nothing but inexact was raised; outputs [1; bits] or [0; flags] *)
Definition fromstr_of (l : list outcome) : list outcome :=
  map (fun o => match o with
                | ([r], fl) => if (fl =? 0) || (fl =? F_INX) then ([1; r], 0) else ([0; fl], 0)
                | _ => o end) l.

(* ---------- formatting (C05) ---------- *)
Fixpoint digits_of (fuel:nat) (n:Z) (acc : list Z) : list Z :=
  match fuel with
  | O => acc
  | S f => if n <? 10 then (48 + n) :: acc else digits_of f (n / 10) ((48 + n mod 10) :: acc)
  end.
Definition dec_digits (n:Z) : list Z := digits_of 60 n [].

Definition sign_char (s:bool) : Z := if s then 45 else 43.
Definition m_format (upper:bool) (d:dec) : list Z :=
  match d with
  | Fin s c q => sign_char s :: dec_digits c ++ [if upper then 69 else 101] ++ [sign_char (q <? 0)] ++ dec_digits (Z.abs q)
  | Inf s => sign_char s :: [73; 110; 102]
  | NaN s sg _ => sign_char s :: (if sg then [83; 78; 97; 78] else [78; 97; 78])
  end.

(* a byte string as one integer (big-endian base 256), the form in which the judge receives output strings *)
Definition str_num (l : list Z) : Z := fold_left (fun acc b => acc * 256 + b) l 0.

(* Display, Debug, LowerExp, UpperExp *)
Definition m_fmt (x:Z) : list outcome :=
  let d := decode x in
  let u := str_num (m_format true d) in let lw := str_num (m_format false d) in
  [([u; u; lw; u], 0)].
