(* BID decimal128 encoding: decode / encode over all 2^128 patterns, by field arithmetic on Z
   (no land/shiftr, so lia applies). IEEE 754-2008 section 3.5.2, binary encoding of the significand. *)
From Coq Require Import ZArith Bool List.
From DV Require Import Base.
Import ListNotations.
Open Scope Z_scope.

Definition T34 := 10000000000000000000000000000000000.      (* 10^34 *)
Definition T33 := 1000000000000000000000000000000000.       (* 10^33 *)
Definition P64  := 18446744073709551616.                    (* 2^64 *)
Definition P110 := 1298074214633706907132624082305024.      (* 2^110 *)
Definition P111 := 2596148429267413814265248164610048.      (* 2^111 *)
Definition P113 := 10384593717069655257060992658440192.     (* 2^113 *)
Definition P121 := 2658455991569831745807614120560689152.   (* 2^121 *)
Definition P122 := 5316911983139663491615228241121378304.   (* 2^122 *)
Definition P123 := 10633823966279326983230456482242756608.  (* 2^123 *)
Definition P125 := 42535295865117307932921825928971026432.  (* 2^125 *)
Definition P127 := 170141183460469231731687303715884105728. (* 2^127 *)
Definition P128 := 340282366920938463463374607431768211456. (* 2^128 *)

Definition wfb (d:dec) : bool :=
  match d with
  | Fin _ c q => (0 <=? c) && (c <? T34) && (-6176 <=? q) && (q <=? 6111)
  | Inf _ => true
  | NaN _ _ p => (0 <=? p) && (p <? T33)
  end.

(* fields: sign = bit 127; G = bits 122..126 (5 bits) *)
Definition decode (b:Z) : dec :=
  let s := P127 <=? b in
  let r := b mod P127 in                 (* low 127 bits *)
  let g5 := r / P122 in                  (* top five bits of the combination field *)
  if g5 =? 31 then
    let p := r mod P110 in NaN s (1 <=? (r / P121) mod 2) (if p <? T33 then p else 0)
  else if g5 =? 30 then Inf s
  else if 24 <=? g5 then                 (* G0G1 = 11: large-coefficient form, value zero *)
    Fin s 0 ((r / P111) mod 16384 - 6176)
  else
    let c := r mod P113 in Fin s (if c <? T34 then c else 0) (r / P113 - 6176).

Definition encode (d:dec) : Z :=
  match d with
  | Fin s c q => (if s then P127 else 0) + (q + 6176) * P113 + c
  | Inf s => (if s then P127 else 0) + 30 * P122
  | NaN s sg p => (if s then P127 else 0) + 31 * P122 + (if sg then P121 else 0) + p
  end.

Definition canonical_bits (b:Z) : bool := (0 <=? b) && (b <? P128) && (encode (decode b) =? b).

Definition sign_of (d:dec) : bool := match d with Fin s _ _ | Inf s | NaN s _ _ => s end.
Definition set_sign (s:bool) (d:dec) : dec :=
  match d with Fin _ c q => Fin s c q | Inf _ => Inf s | NaN _ sg p => NaN s sg p end.
Definition is_nan (d:dec) : bool := match d with NaN _ _ _ => true | _ => false end.
Definition is_snan (d:dec) : bool := match d with NaN _ true _ => true | _ => false end.
Definition is_inf (d:dec) : bool := match d with Inf _ => true | _ => false end.
Definition is_fin (d:dec) : bool := match d with Fin _ _ _ => true | _ => false end.
Definition is_zero (d:dec) : bool := match d with Fin _ 0 _ => true | _ => false end.
Definition quiet (d:dec) : dec := match d with NaN s _ p => NaN s false p | _ => d end.
Definition QNAN := NaN false false 0.

(* status flag bits of the library *)
Definition F_INV := 1.  Definition F_DEN := 2.  Definition F_DBZ := 4.
Definition F_OVF := 8.  Definition F_UNF := 16. Definition F_INX := 32.
Definition flbits (f:flags) : Z :=
  (if f_inexact f then F_INX else 0) + (if f_underflow f then F_UNF else 0) + (if f_overflow f then F_OVF else 0).

Definition md_of (m:Z) : rmode := match m with 0 => RNE | 1 => RDN | 2 => RUP | 3 => RTZ | _ => RNA end.
