From Coq Require Import ZArith Reals Lia Lra Bool Psatz.
From Flocq Require Import Core.Core Calc.Bracket Calc.Round.
From DV Require Import Base.
Open Scope Z_scope.

Lemma Zpower10 k : Zpower radix10 k = 10 ^ k.  Proof. reflexivity. Qed.

(* ---------- small R/Z bridges ---------- *)
Lemma F2R_mono c c' e e' : 0 <= c <= c' -> e <= e' -> (F2R (Float radix10 c e) <= F2R (Float radix10 c' e'))%R.
Proof.
  intros Hc He. apply Rle_trans with (F2R (Float radix10 c' e)).
  - apply F2R_le. lia.
  - unfold F2R; simpl. apply Rmult_le_compat_l. apply IZR_le; lia. apply bpow_le; exact He.
Qed.

Lemma F2R_scale c e k : 0 <= k -> F2R (Float radix10 c e) = F2R (Float radix10 (c * 10 ^ k) (e - k)).
Proof.
  intros Hk. rewrite (F2R_change_exp radix10 (e - k) c e) by lia.
  replace (e - (e - k)) with k by ring. reflexivity.
Qed.

Lemma F2R_eq_inv c e c' e' : e <= e' -> F2R (Float radix10 c e) = F2R (Float radix10 c' e') -> c = c' * 10 ^ (e' - e).
Proof.
  intros He H. rewrite (F2R_scale c' e' (e' - e)) in H by lia.
  replace (e' - (e' - e)) with e in H by ring. now apply eq_F2R in H.
Qed.

Lemma F2R_pow10 k e : 0 <= k -> F2R (Float radix10 (10 ^ k) e) = bpow radix10 (k + e).
Proof.
  intros Hk. unfold F2R; simpl. change (10 ^ k) with (Zpower radix10 k).
  rewrite IZR_Zpower by exact Hk. now rewrite <- bpow_plus.
Qed.

Lemma inbetween_zero c e x l : 0 <= c -> inbetween_float radix10 c e (Rabs x) l -> x = 0%R -> c = 0 /\ l = loc_Exact.
Proof.
  intros Hc H Hx. subst x. rewrite Rabs_R0 in H.
  destruct (inbetween_float_bounds _ _ _ _ _ H) as [B1 B2].
  assert (c = 0).
  { destruct (Z.eq_dec c 0) as [E|E]; [exact E|]. exfalso.
    assert (0 < F2R (Float radix10 c e))%R by (apply F2R_gt_0; simpl; lia). lra. }
  split; [assumption|]. subst c.
  inversion H as [|l' Hb Hc']; [reflexivity|]. rewrite F2R_0 in Hb. lra.
Qed.

(* tiny-ness from the original triple *)
Lemma tiny_iff c e x l : 0 <= c -> inbetween_float radix10 c e (Rabs x) l ->
  (e <= fexp (Zdigits radix10 c + e) \/ l = loc_Exact) -> x <> 0%R ->
  (Zdigits radix10 c + e <=? -6143) = true <-> (Rabs x < bpow radix10 (-6143))%R.
Proof.
  intros Hc Hin H2 Hx.
  destruct (inbetween_float_bounds _ _ _ _ _ Hin) as [B1 B2].
  destruct (Z.eq_dec c 0) as [E|E].
  - subst c. change (Zdigits radix10 0) with 0 in *. rewrite F2R_0 in B1.
    replace (0 + 1) with 1 in B2 by ring. rewrite F2R_bpow in B2.
    destruct H2 as [H2|H2].
    + unfold fexp, FLT_exp, qmin, prec in H2. simpl in H2.
      assert (e <= -6176) by lia.
      split; intros _. apply Rlt_le_trans with (1 := B2). apply bpow_le; lia.
      apply Z.leb_le; lia.
    + subst l. inversion Hin as [Heq|]. rewrite F2R_0 in Heq. exfalso.
      assert (0 < Rabs x)%R by (now apply Rabs_pos_lt). lra.
  - assert (Hd := Zdigits_correct radix10 c). rewrite Z.abs_eq in Hd by lia. change (radix_val radix10) with 10 in Hd.
    set (d := Zdigits radix10 c) in *.
    assert (Hdpos : 0 < d) by (apply Zdigits_gt_0; exact E).
    split; intros Ht.
    + apply Z.leb_le in Ht.
      apply Rlt_le_trans with (1 := B2).
      apply Rle_trans with (F2R (Float radix10 (10 ^ d) e)).
      apply F2R_le. lia.
      rewrite F2R_pow10 by lia. apply bpow_le. lia.
    + apply Z.leb_le. destruct (Z_le_gt_dec (d + e) (-6143)) as [L|G]; [exact L|exfalso].
      assert (bpow radix10 (-6143) <= Rabs x)%R; [|lra].
      apply Rle_trans with (2 := B1).
      apply Rle_trans with (F2R (Float radix10 (10 ^ (d - 1)) e)).
      2: apply F2R_le; lia.
      rewrite F2R_pow10 by lia. apply bpow_le. lia.
Qed.

(* ---------- the preferred-quantum loop ---------- *)
Lemma strip_spec fuel : forall c q pref, 0 < c < 10 ^ (Z.of_nat fuel) ->
  let '(c', q') := strip fuel c q pref in
  exists k, 0 <= k /\ c = c' * 10 ^ k /\ q' = q + k /\ 0 < c' /\
            (pref <= q' \/ c' mod 10 <> 0 \/ qmax <= q') /\
            (0 < k -> q' <= pref /\ q' <= qmax).
Proof.
  induction fuel as [|f IH]; intros c q pref Hc.
  - simpl in Hc. lia.
  - cbn [strip].
    destruct ((q <? pref) && (c mod 10 =? 0) && (q <? qmax)) eqn:Hb.
    + apply andb_prop in Hb. destruct Hb as [Hb Hb3]. apply andb_prop in Hb. destruct Hb as [Hb1 Hb2].
      apply Z.ltb_lt in Hb1. apply Z.eqb_eq in Hb2. apply Z.ltb_lt in Hb3.
      assert (Hdiv : c = 10 * (c / 10)) by (rewrite (Z.div_mod c 10) at 1 by lia; lia).
      assert (Hc' : 0 < c / 10 < 10 ^ Z.of_nat f).
      { rewrite Nat2Z.inj_succ, Z.pow_succ_r in Hc by lia. lia. }
      specialize (IH (c / 10) (q + 1) pref Hc').
      destruct (strip f (c / 10) (q + 1) pref) as [c' q'].
      destruct IH as (k & Hk & E1 & E2 & P & S1 & S2).
      exists (k + 1). split; [lia|]. split.
      { rewrite Z.pow_add_r by lia. rewrite Hdiv at 1. rewrite E1. ring. }
      split; [lia|]. split; [exact P|]. split; [exact S1|].
      intros _. destruct (Z.eq_dec k 0) as [K0|K0].
      { subst k. unfold qmax in *. lia. }
      { apply S2; lia. }
    + exists 0. rewrite Z.pow_0_r, Z.mul_1_r, Z.add_0_r.
      split; [lia|]. split; [reflexivity|]. split; [reflexivity|]. split; [lia|]. split; [|lia].
      apply andb_false_iff in Hb. destruct Hb as [Hb|Hb].
      { apply andb_false_iff in Hb. destruct Hb as [Hb|Hb].
        - left. apply Z.ltb_ge in Hb. lia.
        - right; left. apply Z.eqb_neq in Hb. exact Hb. }
      { right; right. apply Z.ltb_ge in Hb. lia. }
Qed.

(* ---------- facts about the truncated triple ---------- *)
Lemma cexp_val x : cexp radix10 fexp x = Z.max (mag radix10 x - 34) qmin.
Proof. reflexivity. Qed.

Lemma trunc_facts c e x l : 0 <= c -> inbetween_float radix10 c e (Rabs x) l -> x <> 0%R ->
  e <= fexp (Zdigits radix10 c + e) ->
  let '(c1, e1, l1) := truncate radix10 fexp (c, e, l) in
  inbetween_float radix10 c1 e1 (Rabs x) l1 /\ e1 = cexp radix10 fexp (Rabs x) /\
  0 <= c1 < 10 ^ 34 /\ qmin <= e1 /\ (qmin < e1 -> 10 ^ 33 <= c1) /\
  (forall c' q', repr_ok c' q' -> F2R (Float radix10 c' q') = Rabs x -> e1 <= q').
Proof.
  intros Hc Hin Hx H2.
  assert (Hpos : (0 < Rabs x)%R) by now apply Rabs_pos_lt.
  generalize (truncate_correct_partial radix10 fexp (Rabs x) c e l Hpos Hin H2).
  destruct (truncate radix10 fexp (c, e, l)) as [[c1 e1] l1]. intros [Hin1 He1].
  destruct (inbetween_float_bounds _ _ _ _ _ Hin1) as [B1 B2].
  set (m := mag radix10 (Rabs x)) in *.
  assert (Hm1 : (bpow radix10 (m - 1) <= Rabs x)%R).
  { generalize (bpow_mag_le radix10 (Rabs x) (Rgt_not_eq _ _ Hpos)). rewrite Rabs_Rabsolu. now intro. }
  assert (Hm2 : (Rabs x < bpow radix10 m)%R).
  { generalize (bpow_mag_gt radix10 (Rabs x)). rewrite Rabs_Rabsolu. now intro. }
  rewrite cexp_val in He1. fold m in He1.
  split; [exact Hin1|]. split; [rewrite cexp_val; fold m; exact He1|].
  assert (Hc1 : 0 <= c1).
  { assert (0 < F2R (Float radix10 (c1 + 1) e1))%R by lra.
    apply gt_0_F2R in H. simpl in H. lia. }
  split; [split; [exact Hc1|]|].
  { apply (lt_F2R radix10 e1). rewrite F2R_pow10 by lia.
    apply Rle_lt_trans with (1 := B1). apply Rlt_le_trans with (1 := Hm2). apply bpow_le. lia. }
  split; [lia|]. split.
  { intros Hq. assert (e1 = m - 34) by lia.
    assert (10 ^ 33 < c1 + 1); [|lia].
    apply (lt_F2R radix10 e1). rewrite F2R_pow10 by lia.
    apply Rle_lt_trans with (2 := B2). apply Rle_trans with (2 := Hm1). apply bpow_le. lia. }
  { intros c' q' [Hc' Hq'] Heq.
    assert (m - 1 < 34 + q').
    { apply (lt_bpow radix10). apply Rle_lt_trans with (1 := Hm1). rewrite <- Heq.
      rewrite <- F2R_pow10 by lia. apply F2R_lt. lia. }
    unfold qmin in *. lia. }
Qed.

(* ---------- value, sign, inexactness ---------- *)
Lemma choice_exact md s c : choice md s c loc_Exact = c.
Proof. destruct md; reflexivity. Qed.
Lemma choice_bounds md s c l : c <= choice md s c l <= c + 1.
Proof. destruct md; unfold choice, cond_incr; try lia;
  match goal with |- context [if ?b then _ else _] => destruct b end; lia. Qed.

Lemma round_value md x c e l :
  inbetween_float radix10 c e (Rabs x) l ->
  (e <= fexp (Zdigits radix10 c + e) \/ l = loc_Exact) ->
  rounded md x = let '(c1, e1, l1) := truncate radix10 fexp (c, e, l) in
                 F2R (Float radix10 (cond_Zopp (Rlt_bool x 0) (choice md (Rlt_bool x 0) c1 l1)) e1).
Proof.
  intros H1 H2. unfold rounded. destruct md; simpl rnd_of; unfold choice.
  - rewrite (round_trunc_sign_NE_correct radix10 fexp x c e l H1 H2). destruct truncate as [[? ?] ?]. reflexivity.
  - rewrite (round_trunc_sign_DN_correct radix10 fexp x c e l H1 H2). destruct truncate as [[? ?] ?]. reflexivity.
  - rewrite (round_trunc_sign_UP_correct radix10 fexp x c e l H1 H2). destruct truncate as [[? ?] ?]. reflexivity.
  - rewrite (round_trunc_sign_ZR_correct radix10 fexp x c e l H1 H2). destruct truncate as [[? ?] ?]. reflexivity.
  - rewrite (round_trunc_sign_NA_correct radix10 fexp x c e l H1 H2). destruct truncate as [[? ?] ?]. reflexivity.
Qed.

Lemma signed_eq x c e : 0 <= c -> Rabs x = F2R (Float radix10 c e) ->
  x = F2R (Float radix10 (cond_Zopp (Rlt_bool x 0) c) e).
Proof.
  intros Hc H. rewrite F2R_cond_Zopp, <- H. case Rlt_bool_spec; intros Hs; simpl.
  rewrite Rabs_left by exact Hs. lra. rewrite Rabs_pos_eq by exact Hs. reflexivity.
Qed.

Lemma abs_signed s c e : 0 <= c -> Rabs (F2R (Float radix10 (cond_Zopp s c) e)) = F2R (Float radix10 c e).
Proof.
  intros Hc. rewrite F2R_cond_Zopp, abs_cond_Ropp. apply Rabs_pos_eq. apply F2R_ge_0. exact Hc.
Qed.

Lemma inexact_iff x c1 e1 l1 c2 : 0 <= c1 -> inbetween_float radix10 c1 e1 (Rabs x) l1 ->
  c1 <= c2 <= c1 + 1 -> (l1 = loc_Exact -> c2 = c1) ->
  let r := F2R (Float radix10 (cond_Zopp (Rlt_bool x 0) c2) e1) in
  is_exact l1 = false <-> r <> x.
Proof.
  intros Hc Hin Hb Hex r. unfold r.
  destruct l1 as [|l'']; simpl.
  - rewrite (Hex eq_refl). inversion Hin as [Heq|]. split; [discriminate|].
    intros Hne. exfalso. apply Hne. symmetry. now apply signed_eq.
  - split; [intros _|reflexivity]. intros Heq.
    assert (Habs : F2R (Float radix10 c2 e1) = Rabs x).
    { rewrite <- (abs_signed (Rlt_bool x 0) c2 e1) by lia. now rewrite Heq. }
    inversion Hin as [|l0 Hbd Hcmp].
    assert (C: c2 = c1 \/ c2 = c1 + 1) by lia.
    destruct C as [C|C]; rewrite C in Habs; rewrite <- Habs in Hbd; lra.
Qed.

Lemma MAXV_lt : (MAXV < bpow radix10 (34 + qmax))%R.
Proof. unfold MAXV. rewrite <- F2R_pow10 by lia. apply F2R_lt. unfold MAXC. lia. Qed.

Lemma overflow_iff c3 e3 : 0 <= c3 < 10 ^ 34 -> (qmin < e3 -> 10 ^ 33 <= c3) ->
  Rlt_bool MAXV (F2R (Float radix10 c3 e3)) = (e3 >? qmax).
Proof.
  intros Hc Hn. destruct (Z.gtb_spec e3 qmax) as [G|L].
  - apply Rlt_bool_true. apply Rlt_le_trans with (1 := MAXV_lt).
    assert (10 ^ 33 <= c3) by (apply Hn; unfold qmin, qmax in *; lia).
    replace (34 + qmax) with (33 + (qmax + 1)) by ring. rewrite <- F2R_pow10 by lia.
    apply F2R_mono; lia.
  - apply Rlt_bool_false. unfold MAXV. apply F2R_mono; unfold MAXC; lia.
Qed.

(* ---------- the normalisation step in front of truncate ---------- *)
Lemma normalise_ok c e x l : 0 <= c -> inbetween_float radix10 c e (Rabs x) l -> x <> 0%R ->
  (e <= fexp (Zdigits radix10 c + e) \/ l = loc_Exact) ->
  let ce := fexp (Zdigits radix10 c + e) in
  let '(c0, e0, l0) := (if is_exact l && (ce <? e) then (c * 10 ^ (e - ce), ce, l) else (c, e, l)) in
  l0 = l /\ 0 <= c0 /\ inbetween_float radix10 c0 e0 (Rabs x) l0 /\ e0 <= fexp (Zdigits radix10 c0 + e0).
Proof.
  intros Hc Hin Hx H2 ce.
  destruct (is_exact l && (ce <? e)) eqn:Hb.
  - apply andb_prop in Hb. destruct Hb as [Hb1 Hb2]. apply Z.ltb_lt in Hb2.
    destruct l; try discriminate.
    assert (Hc0 : c <> 0).
    { intro; subst c. destruct (inbetween_zero 0 e 0%R loc_Exact) as [_ _]; try lia.
      - rewrite Rabs_R0. inversion Hin as [Heq|]. rewrite F2R_0 in Heq. constructor. now rewrite F2R_0.
      - reflexivity.
      - inversion Hin as [Heq|]. rewrite F2R_0 in Heq. apply Hx.
        destruct (Req_dec x 0) as [Z|NZ]; [exact Z|]. assert (0 < Rabs x)%R by now apply Rabs_pos_lt. lra. }
    split; [reflexivity|]. split; [apply Z.mul_nonneg_nonneg; [lia| apply Z.pow_nonneg; lia]|].
    split.
    + inversion Hin as [Heq|]. constructor. rewrite Heq.
      rewrite (F2R_scale c e (e - ce)) by lia. replace (e - (e - ce)) with ce by ring. reflexivity.
    + change (10 ^ (e - ce)) with (Zpower radix10 (e - ce)).
      rewrite Zdigits_mult_Zpower by lia. replace (Zdigits radix10 c + (e - ce) + ce) with (Zdigits radix10 c + e) by ring.
      fold ce. lia.
  - split; [reflexivity|]. split; [exact Hc|]. split; [exact Hin|].
    apply andb_false_iff in Hb. destruct Hb as [Hb|Hb].
    + destruct H2 as [H2|H2]; [exact H2|]. subst l. discriminate.
    + apply Z.ltb_ge in Hb. exact Hb.
Qed.

Set Default Timeout 20.
Lemma MAXV_ge0 : (0 <= MAXV)%R.
Proof. apply F2R_ge_0. unfold MAXC. cbn [Fnum]. assert (0 < 10 ^ 34) by (apply Z.pow_pos_nonneg; lia). lia. Qed.

Lemma mod10_of_mul c' j : 1 <= j -> (c' * 10 ^ j) mod 10 = 0.
Proof.
  intros Hj. replace j with (1 + (j - 1)) by ring. rewrite Z.pow_add_r by lia.
  rewrite Z.pow_1_r. replace (c' * (10 * 10 ^ (j - 1))) with (c' * 10 ^ (j - 1) * 10) by ring.
  apply Z.mod_mul. lia.
Qed.

Theorem round_pack_correct md x s c e l pref zs :
  0 <= c -> inbetween_float radix10 c e (Rabs x) l ->
  (x <> 0%R -> s = Rlt_bool x 0) ->
  (e <= fexp (Zdigits radix10 c + e) \/ l = loc_Exact) ->
  let '(d, fl) := round_pack md s c e l pref zs in ieee_result md x pref zs d fl.
Proof.
  intros Hc Hin Hs H2. unfold round_pack.
  destruct ((c =? 0) && is_exact l) eqn:Hz.
  - (* exact zero *)
    apply andb_prop in Hz. destruct Hz as [Hz1 Hz2]. apply Z.eqb_eq in Hz1. subst c.
    destruct l; try discriminate.
    assert (Hx : x = 0%R).
    { inversion Hin as [Heq|]. rewrite F2R_0 in Heq.
      destruct (Req_dec x 0) as [Z|NZ]; [exact Z|]. assert (0 < Rabs x)%R by now apply Rabs_pos_lt. lra. }
    subst x. unfold ieee_result, rounded. rewrite round_0 by typeclasses eauto. rewrite Rabs_R0.
    rewrite Rlt_bool_false by apply MAXV_ge0.
    exists zs, 0, (Z.max qmin (Z.min qmax pref)).
    split; [reflexivity|]. split; [unfold repr_ok, qmin, qmax; lia|].
    split; [cbn [D2R f_inexact f_underflow f_overflow]; destruct zs; cbn [D2R f_inexact f_underflow f_overflow]; apply F2R_0|].
    split; [intros H; now elim H|]. split; [reflexivity|]. split; [reflexivity|].
    split; [cbn [D2R f_inexact f_underflow f_overflow]; split; [discriminate| intros H; now elim H]|].
    split; [cbn [D2R f_inexact f_underflow f_overflow]; split; [discriminate| intros [H _]; now elim H]|].
    split; [|intros H; now elim H].
    intros _ c' q' [Hc' Hq'] Heq. unfold qmin, qmax in *. lia.
  - (* x <> 0 *)
    assert (Hx : x <> 0%R).
    { intros Hx0. destruct (inbetween_zero c e x l Hc Hin Hx0) as [E1 E2]. subst c l. discriminate. }
    specialize (Hs Hx). subst s.
    generalize (normalise_ok c e x l Hc Hin Hx H2).
    generalize (tiny_iff c e x l Hc Hin H2 Hx).
    set (ce := fexp (Zdigits radix10 c + e)).
    set (tiny := Zdigits radix10 c + e <=? -6143).
    cbv zeta.
    destruct (if is_exact l && (ce <? e) then (c * 10 ^ (e - ce), ce, l) else (c, e, l)) as [[c0 e0] l0].
    intros Htiny (El & Hc0 & Hin0 & H20). subst l0.
    generalize (round_value md x c0 e0 l Hin0 (or_introl H20)).
    generalize (trunc_facts c0 e0 x l Hc0 Hin0 Hx H20).
    destruct (truncate radix10 fexp (c0, e0, l)) as [[c1 e1] l1].
    intros (Hin1 & He1 & Hc1 & Hq1 & Hn1 & Hrep) Hr.
    set (sx := Rlt_bool x 0) in *.
    set (c2 := choice md sx c1 l1) in *.
    assert (Hb2 : c1 <= c2 <= c1 + 1) by apply choice_bounds.
    assert (Hex2 : l1 = loc_Exact -> c2 = c1) by (intros ->; apply choice_exact).
    generalize (inexact_iff x c1 e1 l1 c2 (proj1 Hc1) Hin1 Hb2 Hex2). cbv zeta. fold sx. rewrite <- Hr. intros Hinx.
    (* renormalisation *)
    assert (Hren : exists c3 e3, (if c2 =? 10 ^ 34 then (10 ^ 33, e1 + 1) else (c2, e1)) = (c3, e3) /\
              0 <= c3 < 10 ^ 34 /\ qmin <= e3 /\ (qmin < e3 -> 10 ^ 33 <= c3) /\
              (is_exact l1 = false -> e3 = qmin \/ 10 ^ 33 <= c3) /\
              (is_exact l1 = true -> c3 = c1 /\ e3 = e1) /\
              F2R (Float radix10 c3 e3) = F2R (Float radix10 c2 e1)).
    { destruct (Z.eqb_spec c2 (10 ^ 34)) as [E|NE].
      - exists (10 ^ 33), (e1 + 1). split; [reflexivity|]. split; [lia|]. split; [lia|]. split; [lia|].
        split; [intros _; right; lia|]. split.
        + intros Hex. destruct l1; try discriminate. rewrite (Hex2 eq_refl) in E. lia.
        + rewrite E. rewrite (F2R_scale (10 ^ 33) (e1 + 1) 1) by lia.
          replace (e1 + 1 - 1) with e1 by ring. reflexivity.
      - exists c2, e1. split; [reflexivity|]. split; [lia|]. split; [lia|]. split; [intros H; specialize (Hn1 H); lia|].
        split; [intros _; destruct (Z.eq_dec e1 qmin) as [Q|Q]; [left; exact Q| right; assert (10 ^ 33 <= c1) by (apply Hn1; lia); lia]|].
        split; [|reflexivity]. intros Hex. destruct l1; try discriminate. split; [now apply Hex2| reflexivity]. }
    destruct Hren as (c3 & e3 & Eren & Hc3 & Hq3 & Hn3 & Hi3 & Hx3 & Hv3). rewrite Eren.
    assert (Habs_r : Rabs (rounded md x) = F2R (Float radix10 c3 e3)).
    { rewrite Hr, Hv3. apply abs_signed. lia. }
    assert (Hrv : rounded md x = F2R (Float radix10 (cond_Zopp sx c3) e3)).
    { rewrite Hr. rewrite !F2R_cond_Zopp. now rewrite Hv3. }
    unfold ieee_result. rewrite Habs_r. rewrite (overflow_iff c3 e3 Hc3 Hn3).
    destruct (Z.gtb_spec e3 qmax) as [G|L].
    + split; reflexivity.
    + destruct (is_exact l1) eqn:Hl1; cbn [negb].
      * (* exact: move toward the preferred exponent *)
        destruct (Hx3 eq_refl) as [-> ->].
        assert (Hc1pos : 0 < c1).
        { destruct l1; try discriminate. inversion Hin1 as [Heq|].
          assert (0 < F2R (Float radix10 c1 e1))%R by (rewrite <- Heq; now apply Rabs_pos_lt).
          apply gt_0_F2R in H. exact H. }
        generalize (strip_spec 40 c1 e1 pref). 
        destruct (strip 40 c1 e1 pref) as [c4 e4].
        intros Hst. destruct Hst as (k & Hk & E1 & E2 & P4 & Stop & Moved).
        { split; [exact Hc1pos|]. apply Z.lt_le_trans with (10 ^ 34). lia. apply Z.pow_le_mono_r; lia. }
        assert (Hval4 : F2R (Float radix10 c4 e4) = F2R (Float radix10 c1 e1)).
        { rewrite E1, E2. rewrite (F2R_scale c4 (e1 + k) k) by lia. replace (e1 + k - k) with e1 by ring. reflexivity. }
        assert (Hrx : rounded md x = x) by (destruct (Req_dec (rounded md x) x) as [E|NE]; [exact E| apply Hinx in NE; discriminate]).
        exists sx, c4, e4. split; [reflexivity|].
        assert (Hc4 : c4 <= c1).
        { rewrite E1. assert (0 < 10 ^ k) by (apply Z.pow_pos_nonneg; lia). nia. }
        split; [unfold repr_ok; split; [lia|]; destruct (Z.eq_dec k 0); [subst k; lia| destruct Moved; lia]|].
        split; [cbn [D2R f_inexact f_underflow f_overflow]; rewrite Hrv; rewrite !F2R_cond_Zopp; now rewrite Hval4|].
        split; [reflexivity|]. split; [intros H; now elim Hx|]. split; [reflexivity|].
        split; [cbn [D2R f_inexact f_underflow f_overflow]; split; [discriminate| intros H; now elim H]|].
        split; [cbn [D2R f_inexact f_underflow f_overflow]; split; [discriminate| intros [H _]; now elim H]|].
        split; [|intros H; now elim H].
        intros _ c' q' Hrep' Heq'.
        assert (Hxabs : Rabs x = F2R (Float radix10 c4 e4)).
        { rewrite Hval4. rewrite <- Hrx at 1. rewrite Habs_r. reflexivity. }
        destruct (Z_lt_le_dec e4 q') as [Hgt|Hle].
        -- (* q' above e4: c4 divisible by 10 *)
           assert (Ediv : c4 = c' * 10 ^ (q' - e4)).
           { apply F2R_eq_inv; [lia|]. rewrite <- Hxabs. now symmetry. }
           assert (c4 mod 10 = 0) by (rewrite Ediv; apply mod10_of_mul; lia).
           destruct Hrep' as [_ Hq']. destruct Stop as [S|[S|S]]; try lia.
        -- destruct (Z.eq_dec k 0) as [K0|K0].
           ++ subst k. assert (e1 <= q') by (apply (Hrep c' q' Hrep'); exact Heq'). lia.
           ++ destruct Moved; lia.
      * (* inexact *)
        exists sx, c3, e3. split; [reflexivity|]. split; [unfold repr_ok; lia|].
        split; [cbn [D2R f_inexact f_underflow f_overflow]; now rewrite Hrv|]. split; [reflexivity|]. split; [intros H; now elim Hx|].
        split; [reflexivity|].
        assert (Hne : rounded md x <> x) by (apply Hinx; reflexivity).
        split; [cbn [D2R f_inexact f_underflow f_overflow]; split; [intros _; exact Hne| reflexivity]|].
        split.
        { cbn [D2R f_inexact f_underflow f_overflow]. split.
          - intros Ht. split; [exact Hne|]. apply Htiny. exact Ht.
          - intros [_ Ht]. apply Htiny in Ht. exact Ht. }
        split; [intros H; now elim Hne|]. intros _. apply Hi3. reflexivity.
Qed.
Print Assumptions round_pack_correct.
