(* Proofs for C06 (integer conversions), C08 (round to integral, modf), C09 (quantize, quantum queries).
   Core: [round_int] (integer division with a location) computes Flocq's Zfloor/Zceil/Ztrunc/ZnearestE/ZnearestA
   of the exact quotient, and reports inexactness exactly. *)
From Coq Require Import ZArith Reals Lia Lra Bool List Psatz.
From Flocq Require Import Core.Core Calc.Bracket Calc.Round.
From DV Require Import Base RoundProofs Bid BidProofs Arith OpsArith OpsArithProofs OpsCmp OpsMisc OpsConv OpsStr Judge.
Import ListNotations.
Open Scope Z_scope.

(* ====================================================================== *)
(* Part 0: integer-only facts about div_loc / round_int (axiom-free)       *)
(* ====================================================================== *)

Lemma pow10_pos k : 0 <= k -> 0 < 10 ^ k.
Proof. intros. apply Z.pow_pos_nonneg; lia. Qed.

Lemma pow10_le a b : 0 <= a <= b -> 10 ^ a <= 10 ^ b.
Proof. intros. apply Z.pow_le_mono_r; lia. Qed.

(* what div_loc returns, the shortcut removed *)
Definition div_loc_plain (c k : Z) : Z * location :=
  (c / 10 ^ k, loc_of_rem (c mod 10 ^ k) (10 ^ k)).

Lemma div_loc_plain_eq c k : 0 <= c < 10 ^ 45 -> 0 <= k -> div_loc c k = div_loc_plain c k.
Proof.
  intros Hc Hk. unfold div_loc, div_loc_plain.
  destruct (Z.ltb_spec 45 k) as [L|L]; [|reflexivity].
  assert (H1 : 10 * 10 ^ 45 <= 10 ^ k).
  { change (10 * 10 ^ 45) with (10 ^ 46). apply pow10_le; lia. }
  assert (Hlt : c < 10 ^ k) by lia.
  rewrite (Z.div_small c (10 ^ k)) by lia. rewrite (Z.mod_small c (10 ^ k)) by lia.
  unfold loc_of_rem. destruct (Z.eqb_spec c 0) as [E|E]; [reflexivity|].
  assert (Hcmp : (2 * c ?= 10 ^ k) = Lt) by (apply Z.compare_lt_iff; lia).
  now rewrite Hcmp.
Qed.

Lemma choice_RTZ s m l : choice RTZ s m l = m.
Proof. reflexivity. Qed.

(* the integer part chosen lies in [c/10^k, c/10^k + 1] and never exceeds c when k >= 1, c >= 1 *)
Lemma round_int_bounds md s c k n inx : 0 <= c < 10 ^ 45 -> 0 <= k ->
  round_int md s c k = (n, inx) ->
  c / 10 ^ k <= n <= c / 10 ^ k + 1 /\ (c mod 10 ^ k = 0 -> n = c / 10 ^ k /\ inx = false).
Proof.
  intros Hc Hk. unfold round_int. rewrite (div_loc_plain_eq c k Hc Hk). unfold div_loc_plain.
  intros E. injection E as En Ei. subst n inx. split.
  - apply choice_bounds.
  - intros Hr. rewrite Hr. unfold loc_of_rem. cbn [Z.eqb is_exact negb]. split; [apply choice_exact|reflexivity].
Qed.

Lemma round_int_le_c md s c k n inx : 1 <= c < 10 ^ 45 -> 1 <= k ->
  round_int md s c k = (n, inx) -> 0 <= n <= c.
Proof.
  intros Hc Hk E. destruct (round_int_bounds md s c k n inx) as [B _]; [lia|lia|exact E|].
  assert (H10 : 10 <= 10 ^ k) by (change 10 with (10 ^ 1) at 1; apply pow10_le; lia).
  assert (Hq : 0 <= c / 10 ^ k) by (apply Z.div_pos; lia).
  assert (Hq2 : c / 10 ^ k <= c / 10) by (apply Z.div_le_compat_l; lia).
  assert (Hq3 : c / 10 + 1 <= c).
  { pose proof (Z.div_mod c 10 ltac:(lia)). pose proof (Z.mod_pos_bound c 10 ltac:(lia)). lia. }
  lia.
Qed.

Lemma round_int_RTZ s c k : 0 <= c < 10 ^ 45 -> 0 <= k ->
  fst (round_int RTZ s c k) = c / 10 ^ k.
Proof.
  intros Hc Hk. unfold round_int. rewrite (div_loc_plain_eq c k Hc Hk). unfold div_loc_plain. reflexivity.
Qed.

(* ====================================================================== *)
(* Part 1: the core lemma, against Flocq's integer roundings                *)
(* ====================================================================== *)

(* the exact real quotient (-1)^s * c / 10^k *)
Definition quot (s:bool) (c k : Z) : R := F2R (Float radix10 (cond_Zopp s c) (- k)).

Lemma quot_D2R s c k : quot s c k = D2R (Fin s c (- k)).
Proof. reflexivity. Qed.

Lemma F2R_neg_exp c k : 0 <= k -> F2R (Float radix10 c (- k)) = (IZR c / IZR (10 ^ k))%R.
Proof.
  intros Hk. unfold F2R. cbn [Fnum Fexp]. rewrite bpow_opp. rewrite <- Zpower10.
  rewrite IZR_Zpower by exact Hk. reflexivity.
Qed.

Lemma IZR_pow10_pos k : 0 <= k -> (0 < IZR (10 ^ k))%R.
Proof. intros Hk. apply IZR_lt. now apply pow10_pos. Qed.

(* location of c/den between consecutive integers from the Euclidean division *)
Lemma inbetween_int_divmod c den : 0 <= c -> 0 < den ->
  inbetween_int (c / den) (IZR c / IZR den) (loc_of_rem (c mod den) den).
Proof.
  intros Hc Hden.
  pose proof (Z.div_mod c den ltac:(lia)) as Hdm.
  pose proof (Z.mod_pos_bound c den Hden) as Hr.
  set (m := c / den) in *. set (r := c mod den) in *.
  assert (HdenR : (0 < IZR den)%R) by (apply IZR_lt; exact Hden).
  assert (HcR : IZR c = (IZR den * IZR m + IZR r)%R) by (rewrite Hdm at 1; rewrite plus_IZR, mult_IZR; reflexivity).
  assert (Hx : (IZR c / IZR den = IZR m + IZR r / IZR den)%R) by (rewrite HcR; field; lra).
  unfold inbetween_int, loc_of_rem.
  destruct (Z.eqb_spec r 0) as [E|E].
  - constructor. rewrite Hx, E. unfold Rdiv. rewrite Rmult_0_l. ring.
  - assert (Hr0 : (0 < IZR r)%R) by (apply IZR_lt; lia).
    assert (Hr1 : (IZR r < IZR den)%R) by (apply IZR_lt; lia).
    assert (Hq0 : (0 < IZR r / IZR den)%R) by (apply Rdiv_lt_0_compat; assumption).
    assert (Hq1 : (IZR r / IZR den < 1)%R).
    { apply Rmult_lt_reg_r with (IZR den); [exact HdenR|]. unfold Rdiv. rewrite Rmult_assoc, Rinv_l by lra. lra. }
    constructor.
    + rewrite plus_IZR. rewrite Hx. simpl (IZR 1). lra.
    + rewrite plus_IZR, Hx. simpl (IZR 1).
      replace ((IZR m + (IZR m + 1)) / 2)%R with (IZR m + / 2)%R by field.
      assert (Hmul : (IZR r / IZR den * IZR den = IZR r)%R) by (field; lra).
      destruct (Z.compare_spec (2 * r) den) as [C|C|C].
      * apply Rcompare_Eq. assert (E2 : (2 * IZR r = IZR den)%R) by (rewrite <- C, mult_IZR; reflexivity).
        replace (IZR r / IZR den)%R with (/ 2)%R; [reflexivity|]. rewrite <- E2. field. lra.
      * apply Rcompare_Lt. apply IZR_lt in C. rewrite mult_IZR in C. simpl (IZR 2) in C.
        apply Rplus_lt_compat_l. apply Rmult_lt_reg_r with (IZR den); [exact HdenR|]. rewrite Hmul. lra.
      * apply Rcompare_Gt. apply IZR_lt in C. rewrite mult_IZR in C. simpl (IZR 2) in C.
        apply Rplus_lt_compat_l. apply Rmult_lt_reg_r with (IZR den); [exact HdenR|]. rewrite Hmul. lra.
Qed.

Lemma div_loc_inbetween c k : 0 <= c < 10 ^ 45 -> 0 <= k ->
  let '(m, l) := div_loc c k in inbetween_int m (F2R (Float radix10 c (- k))) l.
Proof.
  intros Hc Hk. rewrite (div_loc_plain_eq c k Hc Hk). unfold div_loc_plain.
  rewrite (F2R_neg_exp c k Hk). apply inbetween_int_divmod; [lia| now apply pow10_pos].
Qed.

Lemma Rabs_quot s c k : 0 <= c -> Rabs (quot s c k) = F2R (Float radix10 c (- k)).
Proof. intros Hc. unfold quot. now apply abs_signed. Qed.

Lemma Rlt_bool_quot s c k : 0 < c -> Rlt_bool (quot s c k) 0 = s.
Proof.
  intros Hc. unfold quot. destruct s; cbn [cond_Zopp].
  - apply Rlt_bool_true. apply F2R_lt_0. cbn [Fnum]. lia.
  - apply Rlt_bool_false. apply F2R_ge_0. cbn [Fnum]. lia.
Qed.

Lemma choice_sign_correct md x m l :
  inbetween_int m (Rabs x) l ->
  rnd_of md x = cond_Zopp (Rlt_bool x 0) (choice md (Rlt_bool x 0) m l).
Proof.
  intros H. destruct md; cbn [rnd_of choice].
  - now apply inbetween_int_NE_sign.
  - now apply inbetween_int_DN_sign.
  - now apply inbetween_int_UP_sign.
  - now apply inbetween_int_ZR_sign with l.
  - now apply inbetween_int_NA_sign.
Qed.

Lemma inbetween_int_exact_iff m y l n : inbetween_int m y l -> m <= n <= m + 1 -> (l = loc_Exact -> n = m) ->
  (is_exact l = false <-> IZR n <> y).
Proof.
  intros H Hn Hex. unfold inbetween_int in H. destruct H as [E|l' [B1 B2] _]; cbn [is_exact].
  - rewrite (Hex eq_refl). split; [discriminate|]. intros N. now elim N.
  - split; [|reflexivity]. intros _ E. rewrite plus_IZR in B2. simpl (IZR 1) in B2.
    assert (C : n = m \/ n = m + 1) by lia. destruct C as [C|C]; subst n; [|rewrite plus_IZR in E; simpl (IZR 1) in E]; lra.
Qed.

(* THE CORE LEMMA *)
Theorem round_int_correct md s c k n inx :
  0 <= c < 10 ^ 45 -> 0 <= k ->
  round_int md s c k = (n, inx) ->
  let x := quot s c k in
  cond_Zopp s n = rnd_of md x /\ 0 <= n /\ (inx = true <-> IZR (rnd_of md x) <> x).
Proof.
  intros Hc Hk E x.
  pose proof (div_loc_inbetween c k Hc Hk) as Hin.
  unfold round_int in E. destruct (div_loc c k) as [m l] eqn:Edl.
  injection E as En Ei.
  assert (Hm : 0 <= m).
  { rewrite (div_loc_plain_eq c k Hc Hk) in Edl. unfold div_loc_plain in Edl. injection Edl as Em _. subst m.
    apply Z.div_pos; [lia| now apply pow10_pos]. }
  assert (Hb : m <= n <= m + 1) by (subst n; apply choice_bounds).
  assert (Hex : l = loc_Exact -> n = m) by (intros ->; subst n; apply choice_exact).
  rewrite <- (Rabs_quot s c k) in Hin by lia. fold x in Hin.
  assert (Hrn : rnd_of md x = cond_Zopp s n).
  { destruct (Z.eq_dec c 0) as [C0|C0].
    - assert (Hx0 : x = 0%R) by (unfold x, quot; rewrite C0; destruct s; apply F2R_0).
      rewrite Hx0. replace 0%R with (IZR 0) by reflexivity. rewrite Zrnd_IZR by apply rnd_of_valid.
      rewrite (div_loc_plain_eq c k Hc Hk) in Edl. unfold div_loc_plain in Edl. rewrite C0 in Edl.
      rewrite Z.div_0_l, Z.mod_0_l in Edl by (pose proof (pow10_pos k Hk); lia).
      injection Edl as Em El. subst m l. rewrite choice_exact in En. subst n. destruct s; reflexivity.
    - rewrite (choice_sign_correct md x m l Hin). unfold x. rewrite Rlt_bool_quot by lia. now subst n. }
  split; [now rewrite Hrn|split; [lia|]].
  - (* inexact flag *)
    assert (Hi : is_exact l = false <-> IZR n <> Rabs x) by (now apply inbetween_int_exact_iff with m).
    subst inx. rewrite negb_true_iff. rewrite Hi.
    rewrite Hrn.
    assert (Hxs : x = (if s then - Rabs x else Rabs x)%R).
    { unfold x at 2 3. rewrite Rabs_quot by lia. unfold x, quot. rewrite F2R_cond_Zopp. now destruct s. }
    destruct s; cbn [cond_Zopp].
    + rewrite opp_IZR. split; intros N Eq; apply N; lra.
    + now rewrite <- Hxs.
Qed.

(* ====================================================================== *)
(* Part 2: C06 - conversions to and from 32/64-bit integers                 *)
(* ====================================================================== *)

Lemma T34_val : T34 = 10 ^ 34.  Proof. reflexivity. Qed.

Lemma decode_fin_wf x s c q : 0 <= x < P128 -> decode x = Fin s c q ->
  0 <= c < T34 /\ -6176 <= q <= 6111.
Proof. intros Hx E. pose proof (decode_wf x Hx) as W. rewrite E in W. exact W. Qed.

Lemma T34_lt_45 c : c < T34 -> c < 10 ^ 45.
Proof. unfold T34. lia. Qed.

Lemma F2R_pos_exp c q : 0 <= q -> F2R (Float radix10 c q) = IZR (c * 10 ^ q).
Proof.
  intros Hq. unfold F2R. cbn [Fnum Fexp]. rewrite mult_IZR. rewrite <- Zpower10, IZR_Zpower by exact Hq. reflexivity.
Qed.

Lemma cond_Zopp_mul s a b : cond_Zopp s a * b = cond_Zopp s (a * b).
Proof. destruct s; cbn [cond_Zopp]; ring. Qed.

Lemma quot_neg s c q : quot s c (- q) = D2R (Fin s c q).
Proof. unfold quot. cbn [D2R]. now rewrite Z.opp_involutive. Qed.

Definition int_lo (w:Z) (signed:bool) : Z := if signed then - 2 ^ (w - 1) else 0.
Definition int_hi (w:Z) (signed:bool) : Z := if signed then 2 ^ (w - 1) - 1 else 2 ^ w - 1.
Definition fits (w:Z) (signed:bool) (n:Z) : Prop := int_lo w signed <= n <= int_hi w signed.
Definition indefinite (w:Z) : list outcome := [([2 ^ (w - 1)], F_INV)].

(* the integer computed by the model before the range check *)
Lemma to_int_core md s c q : 0 < c < T34 -> q <= 20 ->
  exists n inx, (if 0 <=? q then (c * 10 ^ q, false) else round_int md s c (- q)) = (n, inx) /\
     0 <= n /\
     cond_Zopp s n = rnd_of md (D2R (Fin s c q)) /\
     (inx = true <-> IZR (rnd_of md (D2R (Fin s c q))) <> D2R (Fin s c q)).
Proof.
  intros Hc Hq. destruct (Z.leb_spec 0 q) as [Q|Q].
  - exists (c * 10 ^ q), false. split; [reflexivity|].
    assert (Hv : D2R (Fin s c q) = IZR (cond_Zopp s (c * 10 ^ q))).
    { cbn [D2R]. rewrite F2R_pos_exp by exact Q. now rewrite cond_Zopp_mul. }
    rewrite Hv. rewrite Zrnd_IZR by apply rnd_of_valid.
    split; [pose proof (pow10_pos q Q); nia|]. split; [reflexivity|]. split; [discriminate| intros N; now elim N].
  - destruct (round_int md s c (- q)) as [n inx] eqn:E. exists n, inx. split; [reflexivity|].
    destruct (round_int_correct md s c (- q) n inx) as (H1 & H2 & H3); [split; [lia| apply T34_lt_45; lia]|lia|exact E|].
    rewrite quot_neg in H1, H3. split; [exact H2|]. split; [exact H1| exact H3].
Qed.

Theorem to_int_spec_proof w signed md xflag x :
  0 <= x < P128 -> (w = 32 \/ w = 64) ->
  (forall s c q, decode x = Fin s c q ->
     let v := D2R (decode x) in let n := rnd_of md v in
     (fits w signed n ->
        exists fl, m_to_int w signed md xflag x = [([n mod 2 ^ w], fl)] /\ (fl = 0 \/ fl = F_INX) /\
                   (fl = F_INX <-> xflag = true /\ IZR n <> v)) /\
     (~ fits w signed n -> m_to_int w signed md xflag x = indefinite w)) /\
  (is_fin (decode x) = false -> m_to_int w signed md xflag x = indefinite w).
Proof.
  intros Hx Hw. split.
  2:{ intros Hnf. unfold m_to_int, indefinite. destruct (decode x); [discriminate| reflexivity| reflexivity]. }
  intros s c q E. cbv zeta. rewrite E.
  destruct (decode_fin_wf x s c q Hx E) as [Hc Hqr].
  unfold m_to_int. rewrite E. fold (indefinite w).
  destruct (Z.eqb_spec c 0) as [C0|C0].
  { (* zero *)
    subst c. assert (Hv : D2R (Fin s 0 q) = IZR 0) by (cbn [D2R]; destruct s; apply F2R_0).
    rewrite Hv. rewrite Zrnd_IZR by apply rnd_of_valid. split.
    - intros _. exists 0. split; [rewrite Z.mod_0_l by (destruct Hw; subst w; lia); reflexivity|].
      split; [now left|]. split; [discriminate| intros [_ N]; now elim N].
    - intros N. elim N. unfold fits, int_lo, int_hi. destruct Hw; subst w; destruct signed; lia. }
  destruct (Z.ltb_spec 20 q) as [Q20|Q20].
  { (* far too large: |v| >= 10^21 > 2^64 *)
    assert (Hv : D2R (Fin s c q) = IZR (cond_Zopp s (c * 10 ^ q))).
    { cbn [D2R]. rewrite F2R_pos_exp by lia. now rewrite cond_Zopp_mul. }
    rewrite Hv. rewrite Zrnd_IZR by apply rnd_of_valid. split; [|reflexivity].
    intros F. exfalso. assert (H21 : 10 ^ 21 <= 10 ^ q) by (apply pow10_le; lia).
    unfold fits, int_lo, int_hi in F. destruct Hw; subst w; destruct signed, s; cbn [cond_Zopp] in F; nia. }
  destruct (to_int_core md s c q ltac:(lia) Q20) as (n & inx & Ep & Hn0 & Hn & Hinx).
  rewrite Ep. set (r := rnd_of md (D2R (Fin s c q))) in *.
  replace (if s then - n else n) with r by (rewrite <- Hn; destruct s; reflexivity).
  fold (int_lo w signed). fold (int_hi w signed).
  destruct ((int_lo w signed <=? r) && (r <=? int_hi w signed)) eqn:B.
  - apply andb_prop in B. destruct B as [B1 B2]. apply Z.leb_le in B1, B2. split.
    + intros _. eexists. split; [reflexivity|]. split.
      * destruct (inx && xflag); [now right| now left].
      * rewrite <- Hinx. destruct inx, xflag; cbn [andb]; unfold F_INX; split; try discriminate; try tauto;
          intros [H1 H2]; discriminate.
    + intros N. elim N. split; assumption.
  - split; [|reflexivity]. intros [F1 F2]. apply Z.leb_le in F1, F2. rewrite F1, F2 in B. discriminate.
Qed.

(* ---------- integer -> decimal ---------- *)
Definition int_val (w:Z) (signed:bool) (raw:Z) : Z :=
  if signed then sint w (raw mod 2 ^ w) else raw mod 2 ^ w.

Lemma int_val_fits w signed raw : w = 32 \/ w = 64 -> fits w signed (int_val w signed raw).
Proof.
  intros Hw. unfold fits, int_val, int_lo, int_hi, sint.
  destruct Hw; subst w; (assert (Hm := Z.mod_pos_bound raw (2 ^ 32) ltac:(lia)) || assert (Hm := Z.mod_pos_bound raw (2 ^ 64) ltac:(lia)));
    destruct signed; try lia; match goal with |- context [if ?b then _ else _] => destruct b eqn:Eb end;
    try apply Z.ltb_lt in Eb; try apply Z.ltb_ge in Eb; lia.
Qed.

Lemma int_val_mod w signed raw : w = 32 \/ w = 64 -> (int_val w signed raw) mod 2 ^ w = raw mod 2 ^ w.
Proof.
  intros Hw. unfold int_val, sint. destruct signed; [|apply Z.mod_mod; destruct Hw; subst w; lia].
  assert (Hp : 0 < 2 ^ w) by (destruct Hw; subst w; lia).
  destruct (_ <? _).
  - apply Z.mod_mod; lia.
  - replace (raw mod 2 ^ w - 2 ^ w) with (raw mod 2 ^ w + (-1) * 2 ^ w) by ring. rewrite Z.mod_add by lia. apply Z.mod_mod; lia.
Qed.

Lemma int_val_of_fits w signed n : w = 32 \/ w = 64 -> fits w signed n -> int_val w signed (n mod 2 ^ w) = n.
Proof.
  intros Hw F. unfold fits, int_lo, int_hi in F. unfold int_val, sint.
  assert (Hp : 0 < 2 ^ w) by (destruct Hw; subst w; lia).
  rewrite Z.mod_mod by lia.
  destruct signed.
  - destruct (Z.ltb_spec (n mod 2 ^ w) (2 ^ (w - 1))) as [L|L].
    + destruct (Z_lt_le_dec n 0) as [Neg|Pos].
      * exfalso. assert (E : n mod 2 ^ w = n + 2 ^ w).
        { symmetry. apply Z.mod_unique with (-1); destruct Hw; subst w; lia. }
        destruct Hw; subst w; lia.
      * apply Z.mod_small. destruct Hw; subst w; lia.
    + destruct (Z_lt_le_dec n 0) as [Neg|Pos].
      * assert (E : n mod 2 ^ w = n + 2 ^ w).
        { symmetry. apply Z.mod_unique with (-1); destruct Hw; subst w; lia. }
        lia.
      * exfalso. rewrite Z.mod_small in L by (destruct Hw; subst w; lia). destruct Hw; subst w; lia.
  - apply Z.mod_small. lia.
Qed.

Lemma fits_wf w signed n : w = 32 \/ w = 64 -> fits w signed n -> wf (Fin (n <? 0) (Z.abs n) 0).
Proof.
  intros Hw F. unfold fits, int_lo, int_hi in F. unfold wf, T34. destruct Hw; subst w; destruct signed; lia.
Qed.

Theorem from_int_exact_proof w signed raw : w = 32 \/ w = 64 ->
  let v := int_val w signed raw in
  let d := Fin (v <? 0) (Z.abs v) 0 in
  fits w signed v /\ v mod 2 ^ w = raw mod 2 ^ w /\
  m_from_int w signed raw = [([encode d], 0)] /\
  decode (encode d) = d /\ canonical_bits (encode d) = true /\ wf d.
Proof.
  intros Hw v d. pose proof (int_val_fits w signed raw Hw) as F. fold v in F.
  pose proof (fits_wf w signed v Hw F) as W. fold d in W.
  split; [exact F|]. split; [apply int_val_mod; exact Hw|]. split; [reflexivity|].
  split; [now apply decode_encode|]. split; [now apply encode_canonical| exact W].
Qed.

Lemma from_int_value_proof v : D2R (Fin (v <? 0) (Z.abs v) 0) = IZR v.
Proof.
  cbn [D2R]. rewrite F2R_pos_exp by lia. rewrite Z.pow_0_r, Z.mul_1_r. f_equal.
  destruct (Z.ltb_spec v 0); cbn [cond_Zopp]; lia.
Qed.

Theorem roundtrip_int_proof w signed md xflag n : w = 32 \/ w = 64 -> fits w signed n ->
  m_to_int w signed md xflag (encode (Fin (n <? 0) (Z.abs n) 0)) = [([n mod 2 ^ w], 0)].
Proof.
  intros Hw F. pose proof (fits_wf w signed n Hw F) as W.
  unfold m_to_int. rewrite (decode_encode _ W).
  destruct (Z.eqb_spec (Z.abs n) 0) as [E|E].
  - assert (n = 0) by lia. subst n. rewrite Z.mod_0_l by (destruct Hw; subst w; lia). reflexivity.
  - change (20 <? 0) with false. change (0 <=? 0) with true. cbv iota.
    rewrite Z.pow_0_r, Z.mul_1_r.
    replace (if n <? 0 then - Z.abs n else Z.abs n) with n by (destruct (Z.ltb_spec n 0); lia).
    fold (int_lo w signed). fold (int_hi w signed). destruct F as [F1 F2].
    apply Z.leb_le in F1, F2. rewrite F1, F2. reflexivity.
Qed.

Theorem roundtrip_from_to_proof w signed md xflag raw : w = 32 \/ w = 64 ->
  exists r, m_from_int w signed raw = [([r], 0)] /\ m_to_int w signed md xflag r = [([raw mod 2 ^ w], 0)].
Proof.
  intros Hw. eexists. split; [reflexivity|].
  fold (int_val w signed raw). rewrite roundtrip_int_proof; [|exact Hw| apply int_val_fits; exact Hw].
  now rewrite int_val_mod.
Qed.

(* ====================================================================== *)
(* Part 3: C08 - round to integral, modf                                    *)
(* ====================================================================== *)

Lemma out1_wf d fl : wf d -> exists r, out1 d fl = [([r], fl)] /\ decode r = d /\ canonical_bits r = true.
Proof. intros W. exists (encode d). split; [reflexivity|]. split; [now apply decode_encode| now apply encode_canonical]. Qed.

Lemma cond_Zopp_abs_of s n r : 0 <= n -> cond_Zopp s n = r -> n = Z.abs r /\ cond_Zopp s (Z.abs r) = r.
Proof. intros Hn E. destruct s; cbn [cond_Zopp] in *; split; lia. Qed.

(* quantum-level statement *)
Theorem rint_spec_proof md sig x : 0 <= x < P128 ->
  match decode x with
  | Fin s c q =>
      (c = 0 -> rint_dec md sig x = out1 (Fin s 0 (Z.max q 0)) 0) /\
      (c <> 0 -> 0 <= q -> rint_dec md sig x = out1 (Fin s c q) 0) /\
      (c <> 0 -> q < 0 ->
         let v := D2R (decode x) in let n := rnd_of md v in
         cond_Zopp s (Z.abs n) = n /\ Z.abs n <= c /\
         exists fl, rint_dec md sig x = out1 (Fin s (Z.abs n) 0) fl /\ (fl = 0 \/ fl = F_INX) /\
                    (fl = F_INX <-> sig = true /\ IZR n <> v))
  | Inf s => rint_dec md sig x = out1 (Inf s) 0
  | NaN _ _ _ => rint_dec md sig x = nan_outcomes [decode x]
  end.
Proof.
  intros Hx. destruct (decode x) as [s c q|s|s sg p] eqn:E.
  - destruct (decode_fin_wf x s c q Hx E) as [Hc Hq].
    unfold rint_dec. rewrite E. cbn [is_nan]. split; [|split].
    + intros C0. subst c. reflexivity.
    + intros C0 Q. destruct (Z.eqb_spec c 0) as [C|_]; [contradiction|].
      destruct (Z.leb_spec 0 q) as [_|Q']; [reflexivity|lia].
    + intros C0 Q. cbv zeta. destruct (Z.eqb_spec c 0) as [C|_]; [contradiction|].
      destruct (Z.leb_spec 0 q) as [Q'|_]; [lia|].
      destruct (round_int md s c (- q)) as [n inx] eqn:Er.
      destruct (round_int_correct md s c (- q) n inx) as (H1 & H2 & H3); [split; [lia| apply T34_lt_45; lia]|lia|exact Er|].
      rewrite quot_neg in H1, H3.
      destruct (round_int_le_c md s c (- q) n inx) as [_ Hle]; [split; [lia| apply T34_lt_45; lia]|lia|exact Er|].
      destruct (cond_Zopp_abs_of s n _ H2 H1) as [Ha Hs]. rewrite <- Ha.
      split; [rewrite Ha; exact Hs|]. split; [exact Hle|].
      eexists. split; [reflexivity|]. split.
      * destruct (inx && sig); [now right| now left].
      * rewrite <- H3. destruct inx, sig; cbn [andb]; unfold F_INX; split; try discriminate; try tauto;
          intros [K1 K2]; discriminate.
  - unfold rint_dec. rewrite E. reflexivity.
  - unfold rint_dec. rewrite E. reflexivity.
Qed.

(* value-level statement: the result is the well-formed datum with the sign of x whose value is rnd(v) *)
Theorem rint_value_proof md sig x s c q : 0 <= x < P128 -> decode x = Fin s c q ->
  let v := D2R (decode x) in
  exists c' q' fl, rint_dec md sig x = [([encode (Fin s c' q')], fl)] /\
    wf (Fin s c' q') /\ decode (encode (Fin s c' q')) = Fin s c' q' /\
    q' = Z.max q 0 /\
    D2R (Fin s c' q') = IZR (rnd_of md v) /\
    (fl = 0 \/ fl = F_INX) /\
    (fl = F_INX <-> sig = true /\ D2R (Fin s c' q') <> v).
Proof.
  intros Hx E v. pose proof (rint_spec_proof md sig x Hx) as S. unfold v. rewrite E in S |- *.
  destruct (decode_fin_wf x s c q Hx E) as [Hc Hq].
  destruct S as (S1 & S2 & S3).
  assert (Hint : 0 <= q -> D2R (Fin s c q) = IZR (cond_Zopp s (c * 10 ^ q))).
  { intros Q. cbn [D2R]. rewrite F2R_pos_exp by exact Q. now rewrite cond_Zopp_mul. }
  destruct (Z.eq_dec c 0) as [C0|C0].
  - subst c. exists 0, (Z.max q 0), 0. split; [now apply S1|].
    assert (W : wf (Fin s 0 (Z.max q 0))) by (unfold wf, T34; lia).
    split; [exact W|]. split; [now apply decode_encode|]. split; [reflexivity|].
    assert (Z1 : forall q0, D2R (Fin s 0 q0) = IZR 0) by (intros q0; cbn [D2R]; destruct s; apply F2R_0).
    rewrite !Z1. rewrite Zrnd_IZR by apply rnd_of_valid.
    split; [reflexivity|]. split; [now left|]. split; [discriminate| intros [_ N]; now elim N].
  - destruct (Z_le_gt_dec 0 q) as [Q|Q].
    + exists c, q, 0. split; [now apply S2|].
      assert (W : wf (Fin s c q)) by (unfold wf; lia).
      split; [exact W|]. split; [now apply decode_encode|]. split; [lia|].
      split; [rewrite (Hint Q); now rewrite Zrnd_IZR by apply rnd_of_valid|].
      split; [now left|]. split; [discriminate| intros [_ N]; now elim N].
    + destruct (S3 C0 ltac:(lia)) as (K1 & K2 & fl & K3 & K4 & K5).
      set (n := rnd_of md (D2R (Fin s c q))) in *.
      exists (Z.abs n), 0, fl. split; [exact K3|].
      assert (W : wf (Fin s (Z.abs n) 0)) by (unfold wf; lia).
      split; [exact W|]. split; [now apply decode_encode|]. split; [lia|].
      assert (Hv : D2R (Fin s (Z.abs n) 0) = IZR n).
      { cbn [D2R]. rewrite K1. rewrite F2R_pos_exp by lia. now rewrite Z.pow_0_r, Z.mul_1_r. }
      rewrite Hv. split; [reflexivity|]. split; [exact K4| exact K5].
Qed.

(* canonical operands with non-negative exponent come back bit for bit *)
Theorem rint_unchanged_proof md sig x s c q : canonical_bits x = true -> decode x = Fin s c q -> 0 <= q ->
  rint_dec md sig x = [([x], 0)].
Proof.
  intros Hcan E Q. pose proof (encode_decode x Hcan) as Enc. rewrite E in Enc.
  unfold rint_dec. rewrite E. cbn [is_nan].
  destruct (Z.eqb_spec c 0) as [C0|C0].
  - subst c. rewrite Z.max_l by lia. unfold out1. now rewrite Enc.
  - destruct (Z.leb_spec 0 q) as [_|Q']; [|lia]. unfold out1. now rewrite Enc.
Qed.

(* flags: nothing but inexact, and that only from the signalling form *)
Theorem rint_flags_proof md sig x outs fl : 0 <= x < P128 -> is_nan (decode x) = false ->
  In (outs, fl) (rint_dec md sig x) -> fl = 0 \/ (fl = F_INX /\ sig = true).
Proof.
  intros Hx Hn Hin. unfold rint_dec in Hin. rewrite Hn in Hin.
  destruct (decode x) as [s c q|s|s sg p] eqn:E; [| |discriminate].
  - destruct (c =? 0); [destruct Hin as [Hin|[]]; injection Hin as _ F; now left|].
    destruct (0 <=? q); [destruct Hin as [Hin|[]]; injection Hin as _ F; now left|].
    destruct (round_int md s c (- q)) as [n inx]. destruct Hin as [Hin|[]]. injection Hin as _ F.
    destruct inx, sig; cbn [andb] in F; subst fl; auto.
  - destruct Hin as [Hin|[]]. injection Hin as _ F. now left.
Qed.

(* ---------- modf ---------- *)
Lemma div_small_T34 c k : 0 <= c < T34 -> 45 < k -> c / 10 ^ k = 0.
Proof.
  intros Hc Hk. apply Z.div_small. split; [lia|].
  assert (10 ^ 45 <= 10 ^ k) by (apply pow10_le; lia). pose proof (T34_lt_45 c (proj2 Hc)); lia.
Qed.

Lemma F2R_split s c n k q : q = - k -> 0 <= k ->
  F2R (Float radix10 (cond_Zopp s (c - n * 10 ^ k)) q) =
  (F2R (Float radix10 (cond_Zopp s c) q) - IZR (cond_Zopp s n))%R.
Proof.
  intros -> Hk. rewrite !F2R_cond_Zopp. rewrite !F2R_neg_exp by exact Hk.
  pose proof (IZR_pow10_pos k Hk) as Hp.
  replace (IZR (cond_Zopp s n)) with (cond_Ropp s (IZR n)) by (destruct s; cbn [cond_Zopp cond_Ropp]; [now rewrite opp_IZR| reflexivity]).
  rewrite minus_IZR, mult_IZR. destruct s; cbn [cond_Ropp]; field; lra.
Qed.

Definition dup_outs (o : outcome) : outcome := (fst o ++ fst o, snd o).

Theorem modf_spec_proof x : 0 <= x < P128 ->
  match decode x with
  | Fin s c q =>
      (0 <= q -> m_modf x = [([encode (Fin s c q); encode (Fin s 0 q)], 0)]) /\
      (q < 0 ->
         let v := D2R (decode x) in
         let n := Z.abs (Ztrunc v) in
         let fc := c - n * 10 ^ (- q) in
         m_modf x = [([encode (Fin s n 0); encode (Fin s fc q)], 0)] /\
         cond_Zopp s n = Ztrunc v /\ n = c / 10 ^ (- q) /\ fc = c mod 10 ^ (- q) /\
         0 <= n <= c /\ 0 <= fc <= c /\ fc < 10 ^ (- q))
  | Inf s => m_modf x = [([encode (Inf s); encode (Fin s 0 0)], 0)]
  | NaN _ _ _ => m_modf x = map dup_outs (nan_outcomes [decode x])
  end.
Proof.
  intros Hx. destruct (decode x) as [s c q|s|s sg p] eqn:E.
  - destruct (decode_fin_wf x s c q Hx E) as [Hc Hq].
    assert (Hc45 : 0 <= c < 10 ^ 45) by (split; [lia| apply T34_lt_45; lia]).
    unfold m_modf. rewrite E. cbn [is_nan]. split.
    + intros Q. destruct (Z.leb_spec 0 q) as [_|Q']; [reflexivity|lia].
    + intros Q. cbv zeta. destruct (Z.leb_spec 0 q) as [Q'|_]; [lia|].
      destruct (round_int RTZ s c (- q)) as [n inx] eqn:Er.
      destruct (round_int_correct RTZ s c (- q) n inx Hc45 ltac:(lia) Er) as (H1 & H2 & _).
      rewrite quot_neg in H1. cbn [rnd_of] in H1.
      destruct (cond_Zopp_abs_of s n _ H2 H1) as [Ha Hs]. rewrite <- Ha.
      pose proof (round_int_RTZ s c (- q) Hc45 ltac:(lia)) as Hn. rewrite Er in Hn. cbn [fst] in Hn.
      pose proof (pow10_pos (- q) ltac:(lia)) as Hp.
      pose proof (Z.div_mod c (10 ^ (- q)) ltac:(lia)) as Hdm.
      pose proof (Z.mod_pos_bound c (10 ^ (- q)) Hp) as Hmb.
      assert (Hfc : c - n * 10 ^ (- q) = c mod 10 ^ (- q)) by (rewrite Hn; lia).
      assert (Hnc : 0 <= n <= c).
      { split; [exact H2|]. rewrite Hn. apply Z.div_le_upper_bound; [lia|]. nia. }
      split; [|split; [exact H1|split; [exact Hn|split; [exact Hfc|]]]].
      * assert (A1 : (if c =? 0 then Fin s 0 0 else Fin s n 0) = Fin s n 0).
        { destruct (Z.eqb_spec c 0) as [C0|C0]; [|reflexivity]. rewrite C0 in Hn. rewrite Z.div_0_l in Hn by lia. now rewrite Hn. }
        assert (A2 : (if 45 <? - q then c else c - n * 10 ^ (- q)) = c - n * 10 ^ (- q)).
        { destruct (Z.ltb_spec 45 (- q)) as [L|L]; [|reflexivity].
          rewrite Hn. rewrite (div_small_T34 c (- q)) by lia. ring. }
        rewrite A1, A2. reflexivity.
      * rewrite Hfc. split; [exact Hnc|]. split; [|lia]. split; [lia|]. apply Z.mod_le; lia.
  - unfold m_modf. rewrite E. reflexivity.
  - unfold m_modf. rewrite E. reflexivity.
Qed.

(* value-level: integral part = round-toward-zero, fractional part = exact x - ip, same quantum, both signs of x *)
Theorem modf_value_proof x s c q : 0 <= x < P128 -> decode x = Fin s c q ->
  let v := D2R (decode x) in
  exists ci qi cf, m_modf x = [([encode (Fin s ci qi); encode (Fin s cf q)], 0)] /\
    wf (Fin s ci qi) /\ wf (Fin s cf q) /\
    decode (encode (Fin s ci qi)) = Fin s ci qi /\ decode (encode (Fin s cf q)) = Fin s cf q /\
    rint_dec RTZ false x = [([encode (Fin s ci qi)], 0)] /\
    D2R (Fin s ci qi) = IZR (Ztrunc v) /\
    D2R (Fin s cf q) = (v - D2R (Fin s ci qi))%R /\
    (D2R (Fin s ci qi) + D2R (Fin s cf q) = v)%R.
Proof.
  intros Hx E v. pose proof (modf_spec_proof x Hx) as S. pose proof (rint_spec_proof RTZ false x Hx) as T.
  unfold v. rewrite E in S, T |- *. destruct (decode_fin_wf x s c q Hx E) as [Hc Hq].
  destruct S as [S1 S2]. destruct T as (T1 & T2 & T3).
  assert (Z1 : forall q0, D2R (Fin s 0 q0) = 0%R) by (intros q0; cbn [D2R]; destruct s; apply F2R_0).
  destruct (Z_le_gt_dec 0 q) as [Q|Q].
  - exists c, q, 0. split; [now apply S1|].
    assert (W1 : wf (Fin s c q)) by (unfold wf; lia). assert (W2 : wf (Fin s 0 q)) by (unfold wf, T34; lia).
    split; [exact W1|]. split; [exact W2|]. split; [now apply decode_encode|]. split; [now apply decode_encode|].
    split.
    { destruct (Z.eq_dec c 0) as [C0|C0]; [subst c; rewrite (T1 eq_refl), Z.max_l by lia; reflexivity| now apply T2]. }
    assert (Hv : D2R (Fin s c q) = IZR (cond_Zopp s (c * 10 ^ q))).
    { cbn [D2R]. rewrite F2R_pos_exp by exact Q. now rewrite cond_Zopp_mul. }
    split; [rewrite Hv; now rewrite Ztrunc_IZR|]. rewrite Z1. split; ring.
  - destruct (S2 ltac:(lia)) as (K1 & K2 & K3 & K4 & K5 & K6 & K7).
    set (n := Z.abs (Ztrunc (D2R (Fin s c q)))) in *. set (fc := c - n * 10 ^ (- q)) in *.
    exists n, 0, fc. split; [exact K1|].
    assert (W1 : wf (Fin s n 0)) by (unfold wf; lia). assert (W2 : wf (Fin s fc q)) by (unfold wf; lia).
    split; [exact W1|]. split; [exact W2|]. split; [now apply decode_encode|]. split; [now apply decode_encode|].
    assert (Hip : D2R (Fin s n 0) = IZR (Ztrunc (D2R (Fin s c q)))).
    { cbn [D2R]. rewrite F2R_pos_exp by lia. rewrite Z.pow_0_r, Z.mul_1_r. now rewrite K2. }
    split.
    { destruct (Z.eq_dec c 0) as [C0|C0].
      - rewrite (T1 C0). assert (n = 0) by lia. rewrite H. rewrite Z.max_r by lia. reflexivity.
      - destruct (T3 C0 ltac:(lia)) as (_ & _ & fl & J1 & J2 & J3). cbn [rnd_of] in J1, J3. fold n in J1. rewrite J1.
        destruct J2 as [J2|J2]; [now rewrite J2|]. apply J3 in J2. destruct J2; discriminate. }
    split; [exact Hip|].
    assert (Hfp : D2R (Fin s fc q) = (D2R (Fin s c q) - D2R (Fin s n 0))%R).
    { rewrite Hip, <- K2. cbn [D2R]. unfold fc. apply F2R_split; lia. }
    split; [exact Hfp|]. rewrite Hfp. ring.
Qed.

(* ====================================================================== *)
(* Part 4: C09 - quantize and the quantum queries                           *)
(* ====================================================================== *)

Lemma D2R_scaled s c q qy : (D2R (Fin s c q) * bpow radix10 (- qy))%R = F2R (Float radix10 (cond_Zopp s c) (q - qy)).
Proof. cbn [D2R]. unfold F2R. cbn [Fnum Fexp]. rewrite Rmult_assoc, <- bpow_plus. reflexivity. Qed.

Lemma D2R_signed s c q : D2R (Fin s c q) = cond_Ropp s (IZR c * bpow radix10 q)%R.
Proof. cbn [D2R]. rewrite F2R_cond_Zopp. reflexivity. Qed.

Lemma cond_Ropp_inj s a b : cond_Ropp s a = cond_Ropp s b -> a = b.
Proof. destruct s; cbn [cond_Ropp]; lra. Qed.

(* the three ways of saying "the value changed" agree *)
Lemma quantize_flag_equiv sx c qy n cx qx :
  0 <= cx -> 0 <= c -> cond_Zopp sx c = n ->
  let v := D2R (Fin sx cx qx) in let t := (v * bpow radix10 (- qy))%R in
  (IZR n <> t <-> D2R (Fin sx c qy) <> v) /\
  (IZR n <> t <-> (IZR c * bpow radix10 qy <> Rabs v)%R).
Proof.
  intros Hcx Hc Hn v t.
  assert (Hb : (0 < bpow radix10 qy)%R) by apply bpow_gt_0.
  assert (Hbb : (bpow radix10 (- qy) * bpow radix10 qy = 1)%R) by (rewrite <- bpow_plus; replace (- qy + qy) with 0 by ring; reflexivity).
  assert (Hd : D2R (Fin sx c qy) = (IZR n * bpow radix10 qy)%R) by (cbn [D2R]; rewrite Hn; reflexivity).
  assert (H1 : IZR n = t <-> D2R (Fin sx c qy) = v).
  { rewrite Hd. unfold t. split; intros K.
    - rewrite K. rewrite Rmult_assoc, Hbb. ring.
    - rewrite <- K. rewrite Rmult_assoc. rewrite (Rmult_comm (bpow radix10 qy)), Hbb. ring. }
  assert (H2 : D2R (Fin sx c qy) = v <-> (IZR c * bpow radix10 qy = Rabs v)%R).
  { unfold v. rewrite !D2R_signed. rewrite abs_cond_Ropp.
    rewrite Rabs_pos_eq by (apply Rmult_le_pos; [apply IZR_le; lia | apply bpow_ge_0]).
    split; intros K; [now apply cond_Ropp_inj in K| now rewrite K]. }
  split; [now rewrite H1| now rewrite H1, H2].
Qed.

Theorem quantize_spec_proof md x y : 0 <= x < P128 -> 0 <= y < P128 ->
  match decode x, decode y with
  | Fin sx cx qx, Fin sy cy qy =>
      let v := D2R (decode x) in
      let t := (v * bpow radix10 (- qy))%R in
      let n := rnd_of md t in let c := Z.abs n in
      cond_Zopp sx c = n /\
      (c < T34 -> exists fl, m_quantize md x y = out1 (Fin sx c qy) fl /\ wf (Fin sx c qy) /\ (fl = 0 \/ fl = F_INX) /\
            (fl = F_INX <-> IZR n <> t) /\
            (fl = F_INX <-> D2R (Fin sx c qy) <> v) /\
            (fl = F_INX <-> (IZR c * bpow radix10 qy <> Rabs v)%R)) /\
      (T34 <= c -> m_quantize md x y = invalid_out)
  | Inf sx, Inf _ => m_quantize md x y = out1 (Inf sx) 0
  | Inf _, Fin _ _ _ => m_quantize md x y = invalid_out
  | Fin _ _ _, Inf _ => m_quantize md x y = invalid_out
  | _, _ => m_quantize md x y = nan_outcomes [decode x; decode y]
  end.
Proof.
  intros Hx Hy. unfold m_quantize.
  destruct (decode x) as [sx cx qx|sx|sx sgx px] eqn:Ex; destruct (decode y) as [sy cy qy|sy|sy sgy py] eqn:Ey;
    cbn [is_nan orb]; try reflexivity.
  destruct (decode_fin_wf x sx cx qx Hx Ex) as [Hcx Hqx]. destruct (decode_fin_wf y sy cy qy Hy Ey) as [Hcy Hqy].
  cbv zeta. rewrite D2R_scaled.
  (* common tail: once the model's coefficient c2 and inexact bit are related to n *)
  assert (Tail : forall c2 (inx:bool) res, 0 <= c2 ->
     cond_Zopp sx c2 = rnd_of md (F2R (Float radix10 (cond_Zopp sx cx) (qx - qy))) ->
     (inx = true <-> IZR (rnd_of md (F2R (Float radix10 (cond_Zopp sx cx) (qx - qy)))) <> F2R (Float radix10 (cond_Zopp sx cx) (qx - qy))) ->
     (c2 < T34 -> res = out1 (Fin sx c2 qy) (if inx then F_INX else 0)) ->
     (T34 <= c2 -> res = invalid_out) ->
     let n := rnd_of md (F2R (Float radix10 (cond_Zopp sx cx) (qx - qy))) in
     cond_Zopp sx (Z.abs n) = n /\
     (Z.abs n < T34 -> exists fl, res = out1 (Fin sx (Z.abs n) qy) fl /\ wf (Fin sx (Z.abs n) qy) /\ (fl = 0 \/ fl = F_INX) /\
            (fl = F_INX <-> IZR n <> F2R (Float radix10 (cond_Zopp sx cx) (qx - qy))) /\
            (fl = F_INX <-> D2R (Fin sx (Z.abs n) qy) <> D2R (Fin sx cx qx)) /\
            (fl = F_INX <-> (IZR (Z.abs n) * bpow radix10 qy <> Rabs (D2R (Fin sx cx qx)))%R)) /\
     (T34 <= Z.abs n -> res = invalid_out)).
  { intros c2 inx res Hc2 Hn Hinx R1 R2 n. fold n in Hn, Hinx.
    destruct (cond_Zopp_abs_of sx c2 n Hc2 Hn) as [Ha Hs]. rewrite <- Ha.
    split; [exact Hn|]. split; [|exact R2].
    intros Lt. exists (if inx then F_INX else 0). split; [now apply R1|].
    split; [unfold wf; lia|]. split; [destruct inx; [now right| now left]|].
    pose proof (quantize_flag_equiv sx c2 qy n cx qx ltac:(lia) Hc2 Hn) as [Q1 Q2]. cbv zeta in Q1, Q2.
    rewrite D2R_scaled in Q1, Q2.
    assert (F : (if inx then F_INX else 0) = F_INX <-> inx = true) by (destruct inx; unfold F_INX; split; try discriminate; reflexivity).
    rewrite F, Hinx. split; [reflexivity|]. split; [exact Q1| exact Q2]. }
  destruct (Z.eqb_spec cx 0) as [C0|C0].
  { (* zero operand *)
    apply (Tail 0 false); [lia| | | reflexivity | unfold T34; lia].
    - subst cx. replace (F2R (Float radix10 (cond_Zopp sx 0) (qx - qy))) with (IZR 0) by (destruct sx; symmetry; apply F2R_0).
      rewrite Zrnd_IZR by apply rnd_of_valid. now destruct sx.
    - subst cx. replace (F2R (Float radix10 (cond_Zopp sx 0) (qx - qy))) with (IZR 0) by (destruct sx; symmetry; apply F2R_0).
      rewrite Zrnd_IZR by apply rnd_of_valid. split; [discriminate| intros N; now elim N]. }
  destruct (Z.leb_spec qy qx) as [Q|Q].
  - (* exact upscale *)
    assert (Hv : F2R (Float radix10 (cond_Zopp sx cx) (qx - qy)) = IZR (cond_Zopp sx (cx * 10 ^ (qx - qy)))).
    { rewrite F2R_pos_exp by lia. now rewrite cond_Zopp_mul. }
    pose proof (pow10_pos (qx - qy) ltac:(lia)) as Hp.
    apply (Tail (cx * 10 ^ (qx - qy)) false); [nia| | | |].
    + rewrite Hv. now rewrite Zrnd_IZR by apply rnd_of_valid.
    + rewrite Hv. rewrite Zrnd_IZR by apply rnd_of_valid. split; [discriminate| intros N; now elim N].
    + intros Lt. destruct (Z.ltb_spec 34 (qx - qy)) as [L|L].
      * exfalso. assert (10 ^ 35 <= 10 ^ (qx - qy)) by (apply pow10_le; lia). unfold T34 in Lt. nia.
      * destruct (Z.leb_spec T34 (cx * 10 ^ (qx - qy))); [lia| reflexivity].
    + intros Ge. destruct (Z.ltb_spec 34 (qx - qy)) as [L|L]; [reflexivity|].
      destruct (Z.leb_spec T34 (cx * 10 ^ (qx - qy))); [reflexivity| lia].
  - (* rounding *)
    destruct (round_int md sx cx (qy - qx)) as [c2 inx] eqn:Er.
    destruct (round_int_correct md sx cx (qy - qx) c2 inx) as (H1 & H2 & H3); [split; [lia| apply T34_lt_45; lia]|lia|exact Er|].
    unfold quot in H1, H3. replace (- (qy - qx)) with (qx - qy) in H1, H3 by ring.
    apply (Tail c2 inx); [exact H2| exact H1| exact H3| |].
    + intros Lt. destruct (Z.leb_spec T34 c2); [lia| reflexivity].
    + intros Ge. destruct (Z.leb_spec T34 c2); [reflexivity| lia].
Qed.

(* ---------- same_quantum (quantize x y) y, axiom-free ---------- *)
Lemma round_int_nonneg md s c k n inx : 0 <= c < 10 ^ 45 -> 0 <= k -> round_int md s c k = (n, inx) -> 0 <= n.
Proof.
  intros Hc Hk E. destruct (round_int_bounds md s c k n inx Hc Hk E) as [[B _] _].
  assert (0 <= c / 10 ^ k) by (apply Z.div_pos; [lia| now apply pow10_pos]). lia.
Qed.

Lemma same_quantum_fin r y s c q s' c' : decode r = Fin s c q -> decode y = Fin s' c' q -> m_same_quantum r y = [([1], 0)].
Proof. intros E1 E2. unfold m_same_quantum. rewrite E1, E2, Z.eqb_refl. reflexivity. Qed.

Theorem quantize_same_quantum_proof md x y outs fl : 0 <= x < P128 -> 0 <= y < P128 ->
  In (outs, fl) (m_quantize md x y) ->
  exists r, outs = [r] /\ canonical_bits r = true /\ (is_fin (decode r) = true -> m_same_quantum r y = [([1], 0)]).
Proof.
  intros Hx Hy Hin.
  assert (NanCase : In (outs, fl) (nan_outcomes [decode x; decode y]) ->
     exists r, outs = [r] /\ canonical_bits r = true /\ (is_fin (decode r) = true -> m_same_quantum r y = [([1], 0)])).
  { intros H. apply nan_outcomes_spec in H. destruct H as (s & sg & p & Hd & Ho). injection Ho as Ho _.
    assert (W : wf (NaN s false p)).
    { destruct Hd as [Hd|[Hd|[]]]; [pose proof (decode_wf x Hx) as W| pose proof (decode_wf y Hy) as W]; rewrite Hd in W; exact W. }
    exists (encode (NaN s false p)). split; [exact Ho|]. split; [now apply encode_canonical|].
    rewrite (decode_encode _ W). discriminate. }
  assert (InvCase : In (outs, fl) invalid_out ->
     exists r, outs = [r] /\ canonical_bits r = true /\ (is_fin (decode r) = true -> m_same_quantum r y = [([1], 0)])).
  { intros [H|[]]. injection H as Ho _. exists (encode QNAN). split; [now symmetry|]. split; [reflexivity|].
    intros F. exfalso. revert F. vm_compute. discriminate. }
  unfold m_quantize in Hin.
  destruct (decode x) as [sx cx qx|sx|sx sgx px] eqn:Ex; destruct (decode y) as [sy cy qy|sy|sy sgy py] eqn:Ey;
    cbn [is_nan orb] in Hin; try (now apply NanCase); try (now apply InvCase).
  - destruct (decode_fin_wf x sx cx qx Hx Ex) as [Hcx Hqx]. destruct (decode_fin_wf y sy cy qy Hy Ey) as [Hcy Hqy].
    assert (FinCase : forall c2 fl', 0 <= c2 < T34 -> In (outs, fl) (out1 (Fin sx c2 qy) fl') ->
       exists r, outs = [r] /\ canonical_bits r = true /\ (is_fin (decode r) = true -> m_same_quantum r y = [([1], 0)])).
    { intros c2 fl' Hc2 [H|[]]. injection H as Ho _. assert (W : wf (Fin sx c2 qy)) by (unfold wf; lia).
      exists (encode (Fin sx c2 qy)). split; [now symmetry|]. split; [now apply encode_canonical|].
      intros _. apply same_quantum_fin with sx c2 qy sy cy; [now apply decode_encode| exact Ey]. }
    destruct (Z.eqb_spec cx 0) as [C0|C0]; [apply (FinCase 0 0); [unfold T34; lia| exact Hin]|].
    destruct (Z.leb_spec qy qx) as [Q|Q].
    + destruct (Z.ltb_spec 34 (qx - qy)) as [L|L]; [now apply InvCase|].
      destruct (Z.leb_spec T34 (cx * 10 ^ (qx - qy))) as [G|G]; [now apply InvCase|].
      apply (FinCase (cx * 10 ^ (qx - qy)) 0); [|exact Hin]. pose proof (pow10_pos (qx - qy) ltac:(lia)). nia.
    + destruct (round_int md sx cx (qy - qx)) as [c2 inx] eqn:Er.
      pose proof (round_int_nonneg md sx cx (qy - qx) c2 inx ltac:(split; [lia| apply T34_lt_45; lia]) ltac:(lia) Er) as Hn.
      destruct (Z.leb_spec T34 c2) as [G|G]; [now apply InvCase|].
      apply (FinCase c2 (if inx then F_INX else 0)); [lia| exact Hin].
  - (* Inf, Inf *)
    destruct Hin as [H|[]]. injection H as Ho _. exists (encode (Inf sx)). split; [now symmetry|].
    split; [now apply encode_canonical|]. rewrite decode_encode by exact I. discriminate.
Qed.

(* ---------- quantexp / llquantexp / quantum / same_quantum ---------- *)
Theorem quantexp_spec_proof x : 0 <= x < P128 ->
  match decode x with
  | Fin _ _ q => m_quantexp x = [([q mod 2 ^ 32], 0)] /\ sint 32 (q mod 2 ^ 32) = q
  | _ => m_quantexp x = [([2 ^ 31], F_INV)] /\ sint 32 (2 ^ 31) = - 2 ^ 31
  end.
Proof.
  intros Hx. pose proof (decode_wf x Hx) as W. unfold m_quantexp. destruct (decode x) as [s c q|s|s sg p].
  - split; [reflexivity|]. destruct W as [_ Hq]. unfold sint.
    destruct (Z_lt_le_dec q 0) as [N|P].
    + assert (E : q mod 2 ^ 32 = q + 2 ^ 32) by (symmetry; apply Z.mod_unique with (-1); lia).
      rewrite E. destruct (Z.ltb_spec (q + 2 ^ 32) (2 ^ (32 - 1))); lia.
    + rewrite Z.mod_small by lia. destruct (Z.ltb_spec q (2 ^ (32 - 1))); lia.
  - split; reflexivity.
  - split; reflexivity.
Qed.

Theorem llquantexp_spec_proof x : 0 <= x < P128 ->
  match decode x with
  | Fin _ _ q => m_llquantexp x = [([q mod 2 ^ 64], 0)] /\ sint 64 (q mod 2 ^ 64) = q
  | _ => m_llquantexp x = [([2 ^ 63], F_INV)] /\ sint 64 (2 ^ 63) = - 2 ^ 63
  end.
Proof.
  intros Hx. pose proof (decode_wf x Hx) as W. unfold m_llquantexp. destruct (decode x) as [s c q|s|s sg p].
  - split; [reflexivity|]. destruct W as [_ Hq]. unfold sint.
    destruct (Z_lt_le_dec q 0) as [N|P].
    + assert (E : q mod 2 ^ 64 = q + 2 ^ 64) by (symmetry; apply Z.mod_unique with (-1); lia).
      rewrite E. destruct (Z.ltb_spec (q + 2 ^ 64) (2 ^ (64 - 1))); lia.
    + rewrite Z.mod_small by lia. destruct (Z.ltb_spec q (2 ^ (64 - 1))); lia.
  - split; reflexivity.
  - split; reflexivity.
Qed.

(* where the exponent sits in the pattern: bits 113..126 in the ordinary form, bits 111..124 when bits 125,126 are both set *)
Theorem decode_exponent_field_proof x s c q : decode x = Fin s c q ->
  let r := x mod P127 in
  q = (if 24 <=? r / P122 then (r / P111) mod 16384 else r / P113) - 6176.
Proof.
  unfold decode. cbv zeta.
  destruct (_ =? 31); [discriminate|]. destruct (_ =? 30); [discriminate|].
  destruct (24 <=? _); intros E; injection E as _ _ Eq; now rewrite <- Eq.
Qed.

Theorem quantum_spec_proof x : 0 <= x < P128 ->
  match decode x with
  | Fin _ _ q => m_quantum x = EList [([encode (Fin false 1 q)], 0)] /\ decode (encode (Fin false 1 q)) = Fin false 1 q /\
                 canonical_bits (encode (Fin false 1 q)) = true
  | Inf _ => m_quantum x = EList [([encode (Inf false)], 0)] /\ decode (encode (Inf false)) = Inf false
  | NaN _ _ _ => m_quantum x = EAny
  end.
Proof.
  intros Hx. pose proof (decode_wf x Hx) as W. unfold m_quantum. destruct (decode x) as [s c q|s|s sg p].
  - assert (W1 : wf (Fin false 1 q)) by (destruct W; unfold wf, T34; lia).
    split; [reflexivity|]. split; [now apply decode_encode| now apply encode_canonical].
  - split; reflexivity.
  - reflexivity.
Qed.

Lemma quantum_value_proof q : D2R (Fin false 1 q) = bpow radix10 q.
Proof. cbn [D2R cond_Zopp]. unfold F2R. cbn [Fnum Fexp]. ring. Qed.

Theorem same_quantum_spec_proof x y :
  exists b, m_same_quantum x y = [([b2z b], 0)] /\
    (b = true <-> (is_nan (decode x) = true /\ is_nan (decode y) = true) \/
                  (is_inf (decode x) = true /\ is_inf (decode y) = true) \/
                  (exists sx cx sy cy q, decode x = Fin sx cx q /\ decode y = Fin sy cy q)).
Proof.
  unfold m_same_quantum.
  destruct (decode x) as [sx cx qx|sx|sx sgx px]; destruct (decode y) as [sy cy qy|sy|sy sgy py];
    eexists; (split; [reflexivity|]); cbn [is_nan is_inf];
    try (split; [discriminate| intros [[? ?]|[[? ?]|(?&?&?&?&?&?&?)]]; discriminate]);
    try (split; [intros _|reflexivity]; tauto).
  split.
  - intros E. apply Z.eqb_eq in E. subst qy. right; right. now exists sx, cx, sy, cy, qx.
  - intros [[? ?]|[[? ?]|(?&?&?&?&q&E1&E2)]]; try discriminate. injection E1 as _ _ <-. injection E2 as _ _ <-. apply Z.eqb_refl.
Qed.

(* ====================================================================== *)
(* Part 5: inexact <-> "not an integer"; the Judge's dispatch               *)
(* ====================================================================== *)

Lemma rnd_inexact_iff_not_integer md v : IZR (rnd_of md v) <> v <-> ~ exists z, v = IZR z.
Proof.
  split.
  - intros N [z Ez]. apply N. rewrite Ez. now rewrite Zrnd_IZR by apply rnd_of_valid.
  - intros N E. apply N. exists (rnd_of md v). now symmetry.
Qed.

Lemma invalid_out_val : invalid_out = [([encode (NaN false false 0)], F_INV)] /\ decode (encode (NaN false false 0)) = NaN false false 0.
Proof. split; reflexivity. Qed.

Theorem dispatch_C06 md x :
  (forall w sg m xf, expected (OToInt w sg m xf) md [x] = Exact (m_to_int w sg m xf x)) /\
  expected OLrint md [x] = Exact (m_to_int 64 true md true x) /\
  expected OLround md [x] = Exact (m_to_int 64 true RNA false x) /\
  (forall w sg, expected (OFromInt w sg) md [x] = Exact (m_from_int w sg x)).
Proof. repeat split. Qed.

Theorem dispatch_C08 md x :
  expected ORint md [x] = Exact (rint_dec md true x) /\
  expected ONearbyint md [x] = Exact (rint_dec md false x) /\
  (forall m, expected (ORintFix m) md [x] = Exact (rint_dec m false x)) /\
  (is_inf (decode x) = false -> expected OModf md [x] = Exact (m_modf x)) /\
  (forall s, decode x = Inf s -> expected OModf md [x] = Pred (modf_inf_ok s) [0]).
Proof.
  repeat split.
  - intros H. cbn [expected]. destruct (decode x); [reflexivity|discriminate|reflexivity].
  - intros s H. cbn [expected]. now rewrite H.
Qed.

(* what the model lists for modf of an infinity is one of the answers the Judge's predicate accepts *)
Theorem modf_inf_accepted s : modf_inf_ok s [encode (Inf s); encode (Fin s 0 0)] = true.
Proof. destruct s; vm_compute; reflexivity. Qed.

Theorem dispatch_C09 md x y :
  expected OQuantize md [x; y] = Exact (m_quantize md x y) /\
  expected OQuantexp md [x] = Exact (m_quantexp x) /\
  expected OLlquantexp md [x] = Exact (m_llquantexp x) /\
  expected OQuantum md [x] = of_kind (m_quantum x) /\
  expected OSameQuantum md [x; y] = Exact (m_same_quantum x y).
Proof. repeat split. Qed.
