(* Layer M, bit level: arithmetic operations on 128-bit patterns. Each returns the list of accepted
   (outputs, raised-flags) outcomes: one element wherever the properties fix the answer, several
   where they leave it open (which NaN operand is propagated). Definitions only. *)
From Coq Require Import ZArith Bool List.
From Flocq Require Import Core.Core Calc.Bracket.
From DV Require Import Base Bid Arith.
Import ListNotations.
Open Scope Z_scope.

Definition outcome := (list Z * Z)%type.

Definition nan_outcomes (ds : list dec) : list outcome :=
  let inv := if existsb is_snan ds then F_INV else 0 in
  map (fun d => ([encode (quiet d)], inv)) (filter is_nan ds).

Definition out1 (d:dec) (fl:Z) : list outcome := [([encode d], fl)].
Definition fin_out (r : dec * flags) : list outcome := out1 (fst r) (flbits (snd r)).
Definition invalid_out : list outcome := out1 QNAN F_INV.
Definition neg_dec (d:dec) : dec := set_sign (negb (sign_of d)) d.
Definition clampq (q:Z) : Z := Z.max qmin (Z.min qmax q).

Definition add_dec (md:rmode) (dx dy:dec) : list outcome :=
  if is_nan dx || is_nan dy then nan_outcomes [dx; dy] else
  match dx, dy with
  | Inf s, Inf s' => if Bool.eqb s s' then out1 (Inf s) 0 else invalid_out
  | Inf s, _ => out1 (Inf s) 0
  | _, Inf s => out1 (Inf s) 0
  | Fin sx cx qx, Fin sy cy qy => fin_out (add_gen md sx cx qx sy cy qy)
  | _, _ => []
  end.

Definition m_add (md:rmode) (x y:Z) : list outcome := add_dec md (decode x) (decode y).
Definition m_sub (md:rmode) (x y:Z) : list outcome :=
  let dy := decode y in add_dec md (decode x) (if is_nan dy then dy else neg_dec dy).

Definition m_mul (md:rmode) (x y:Z) : list outcome :=
  let dx := decode x in let dy := decode y in
  if is_nan dx || is_nan dy then nan_outcomes [dx; dy] else
  let s := xorb (sign_of dx) (sign_of dy) in
  match dx, dy with
  | Inf _, o | o, Inf _ => if is_zero o then invalid_out else out1 (Inf s) 0
  | Fin sx cx qx, Fin sy cy qy => fin_out (mul_fin md sx cx qx sy cy qy)
  | _, _ => []
  end.

Definition m_div (md:rmode) (x y:Z) : list outcome :=
  let dx := decode x in let dy := decode y in
  if is_nan dx || is_nan dy then nan_outcomes [dx; dy] else
  let s := xorb (sign_of dx) (sign_of dy) in
  match dx, dy with
  | Inf _, Inf _ => invalid_out
  | Inf _, _ => out1 (Inf s) 0
  | _, Inf _ => out1 (Fin s 0 qmin) 0
  | Fin sx cx qx, Fin sy cy qy =>
      if cy =? 0 then (if cx =? 0 then invalid_out else out1 (Inf s) F_DBZ)
      else if cx =? 0 then out1 (Fin s 0 (clampq (qx - qy))) 0
      else fin_out (div_fin md sx cx qx sy cy qy)
  | _, _ => []
  end.

Definition m_sqrt (md:rmode) (x:Z) : list outcome :=
  let dx := decode x in
  if is_nan dx then nan_outcomes [dx] else
  match dx with
  | Inf s => if s then invalid_out else out1 (Inf false) 0
  | Fin s c q =>
      if c =? 0 then out1 (Fin s 0 (Z.div2 q)) 0
      else if s then invalid_out
      else fin_out (sqrt_fin md c q)
  | _ => []
  end.

Definition m_fma (md:rmode) (x y z:Z) : list outcome :=
  let dx := decode x in let dy := decode y in let dz := decode z in
  if is_nan dx || is_nan dy || is_nan dz then nan_outcomes [dx; dy; dz] else
  let sp := xorb (sign_of dx) (sign_of dy) in
  if is_inf dx || is_inf dy then
    (if is_zero dx || is_zero dy then invalid_out
     else match dz with
          | Inf sz => if Bool.eqb sz sp then out1 (Inf sp) 0 else invalid_out
          | _ => out1 (Inf sp) 0
          end)
  else
  match dx, dy, dz with
  | _, _, Inf sz => out1 (Inf sz) 0
  | Fin sx cx qx, Fin sy cy qy, Fin sz cz qz => fin_out (fma_fin md sx cx qx sy cy qy sz cz qz)
  | _, _, _ => []
  end.
