(* C19: the DPD codec of the model (OpsConv.v) - declet tables by finite sweep, 11-declet strings by induction,
   the 128-bit word codec by field arithmetic (lia with div/mod equations). Everything here is axiom-free. *)
From Coq Require Import ZArith Lia Bool List.
From DV Require Import Base Bid BidProofs Arith OpsArith OpsCmp OpsMisc OpsConv.
Import ListNotations.
Open Scope Z_scope.
Ltac Zify.zify_post_hook ::= Z.div_mod_to_equations.

(* ------------------------------------------------------------------ *)
(* finite sweeps                                                        *)
(* ------------------------------------------------------------------ *)
Definition zrange (n:nat) : list Z := map Z.of_nat (seq 0 n).

Lemma in_zrange n z : 0 <= z < Z.of_nat n -> In z (zrange n).
Proof. intros H. unfold zrange. apply in_map_iff. exists (Z.to_nat z). split; [lia|]. apply in_seq. lia. Qed.

Lemma sweep (P : Z -> bool) (n:nat) : forallb P (zrange n) = true -> forall z, 0 <= z < Z.of_nat n -> P z = true.
Proof. intros H z Hz. rewrite forallb_forall in H. apply H. now apply in_zrange. Qed.

(* ------------------------------------------------------------------ *)
(* one declet                                                           *)
(* ------------------------------------------------------------------ *)
Theorem declet_roundtrip : forall n, 0 <= n < 1000 -> declet_dec (declet_enc n) = n /\ 0 <= declet_enc n < 1024.
Proof.
  assert (H : forallb (fun n => (declet_dec (declet_enc n) =? n) && (0 <=? declet_enc n) && (declet_enc n <? 1024))
                      (zrange 1000) = true) by (vm_compute; reflexivity).
  intros n Hn. apply (sweep _ 1000%nat H) in Hn.
  rewrite !andb_true_iff, Z.eqb_eq, Z.leb_le, Z.ltb_lt in Hn. lia.
Qed.

Theorem declet_dec_range : forall v, 0 <= v < 1024 -> 0 <= declet_dec v < 1000.
Proof.
  assert (H : forallb (fun v => (0 <=? declet_dec v) && (declet_dec v <? 1000)) (zrange 1024) = true)
    by (vm_compute; reflexivity).
  intros v Hv. apply (sweep _ 1024%nat H) in Hv. rewrite !andb_true_iff, Z.leb_le, Z.ltb_lt in Hv. lia.
Qed.

(* The redundant patterns of IEEE 754-2008 3.5.2: bits b3 b2 b1 = 111 (the "all three digits large" indicator
   v,w,x of table 3.3), b6 b5 = 11, and the two most significant bits b9 b8 not both zero:
   01x11x111x, 10x11x111x, 11x11x111x. *)
Definition declet_redundant (v:Z) : bool :=
  ((v / 2) mod 8 =? 7) && ((v / 32) mod 4 =? 3) && negb (v / 256 =? 0).

Theorem declet_canonical_iff : forall v, 0 <= v < 1024 ->
  (declet_enc (declet_dec v) = v <-> declet_redundant v = false).
Proof.
  assert (H : forallb (fun v => Bool.eqb (declet_enc (declet_dec v) =? v) (negb (declet_redundant v)))
                      (zrange 1024) = true) by (vm_compute; reflexivity).
  intros v Hv. apply (sweep _ 1024%nat H) in Hv. apply eqb_prop in Hv.
  rewrite <- Z.eqb_eq, Hv. destruct (declet_redundant v); cbn; intuition congruence.
Qed.

(* what the standard assigns to the redundant patterns: the two top bits are ignored, the digits are 8 or 9
   according to bits 7, 4, 0; the canonical re-encoding clears the two top bits and nothing else *)
Theorem declet_redundant_spec : forall v, 0 <= v < 1024 -> declet_redundant v = true ->
  declet_dec v = 888 + 100 * bit v 7 + 10 * bit v 4 + bit v 0 /\
  declet_dec v = declet_dec (v mod 256) /\
  declet_enc (declet_dec v) = v mod 256 /\ v mod 256 <> v.
Proof.
  assert (H : forallb (fun v => if declet_redundant v then
                         (declet_dec v =? 888 + 100 * bit v 7 + 10 * bit v 4 + bit v 0) &&
                         (declet_dec v =? declet_dec (v mod 256)) &&
                         (declet_enc (declet_dec v) =? v mod 256) && negb (v mod 256 =? v) else true)
                      (zrange 1024) = true) by (vm_compute; reflexivity).
  intros v Hv Hr. apply (sweep _ 1024%nat H) in Hv. rewrite Hr in Hv.
  rewrite !andb_true_iff, negb_true_iff, !Z.eqb_eq, Z.eqb_neq in Hv. tauto.
Qed.

Theorem declet_redundant_count :
  length (filter declet_redundant (zrange 1024)) = 24%nat /\
  length (filter (fun v => negb (declet_enc (declet_dec v) =? v)) (zrange 1024)) = 24%nat /\
  length (filter (fun v => declet_enc (declet_dec v) =? v) (zrange 1024)) = 1000%nat.
Proof. repeat split; vm_compute; reflexivity. Qed.

Theorem declet_redundant_list :
  filter declet_redundant (zrange 1024) =
  [366; 367; 382; 383; 494; 495; 510; 511; 622; 623; 638; 639; 750; 751; 766; 767; 878; 879; 894; 895; 1006; 1007; 1022; 1023].
Proof. vm_compute. reflexivity. Qed.

(* all 1024 patterns: total, in range, and re-encoding is the identity except on the 24 redundant ones *)
Theorem declet_dec_total : forall v, 0 <= v < 1024 ->
  0 <= declet_dec v < 1000 /\
  (declet_redundant v = false -> declet_enc (declet_dec v) = v) /\
  (declet_redundant v = true -> declet_enc (declet_dec v) = v mod 256 /\ v mod 256 <> v /\
                                declet_dec v = 888 + 100 * bit v 7 + 10 * bit v 4 + bit v 0).
Proof.
  intros v Hv. split; [now apply declet_dec_range|]. split.
  - intros H. now apply declet_canonical_iff.
  - intros H. pose proof (declet_redundant_spec v Hv H). tauto.
Qed.

(* declet_enc is a bijection of 0..999 onto the non-redundant patterns *)
Theorem declet_enc_canonical : forall n, 0 <= n < 1000 -> declet_redundant (declet_enc n) = false.
Proof.
  intros n Hn. destruct (declet_roundtrip n Hn) as [R B].
  apply declet_canonical_iff; [exact B|]. now rewrite R.
Qed.

(* ---- independent characterisations of the two tables ---- *)
(* (1) Cowlishaw's boolean equations ("Densely packed decimal encoding", IEE Proc. 2002), digits abcd efgh ijkm,
       declet pqr stu v wxy. *)
Definition bb (v i : Z) : bool := Z.odd (v / 2 ^ i).
Definition zb (b:bool) : Z := if b then 1 else 0.
Definition declet_enc_eqs (n:Z) : Z :=
  let d1 := n / 100 in let d2 := (n / 10) mod 10 in let d3 := n mod 10 in
  let a := bb d1 3 in let b := bb d1 2 in let c := bb d1 1 in let d := bb d1 0 in
  let e := bb d2 3 in let f := bb d2 2 in let g := bb d2 1 in let h := bb d2 0 in
  let i := bb d3 3 in let j := bb d3 2 in let k := bb d3 1 in let m := bb d3 0 in
  let p := b || (a && j) || (a && f && i) in
  let q := c || (a && k) || (a && g && i) in
  let r := d in
  let s := (f && (negb a || negb i)) || (negb a && e && j) || (e && i) in
  let t := g || (negb a && e && k) || (a && i) in
  let u := h in
  let v := a || e || i in
  let w := a || (e && i) || (negb e && j) in
  let x := e || (a && i) || (negb a && k) in
  let y := m in
  zb p*512 + zb q*256 + zb r*128 + zb s*64 + zb t*32 + zb u*16 + zb v*8 + zb w*4 + zb x*2 + zb y.

Definition declet_dec_eqs (z:Z) : Z :=
  let p := bb z 9 in let q := bb z 8 in let r := bb z 7 in let s := bb z 6 in let t := bb z 5 in
  let u := bb z 4 in let v := bb z 3 in let w := bb z 2 in let x := bb z 1 in let y := bb z 0 in
  let a := (v && w) && (negb s || t || negb x) in
  let b := p && (negb v || negb w || (s && negb t && x)) in
  let c := q && (negb v || negb w || (s && negb t && x)) in
  let d := r in
  let e := v && ((negb w && x) || (negb t && x) || (s && x)) in
  let f := (s && (negb v || negb x)) || (p && negb s && t && v && w && x) in
  let g := (t && (negb v || negb x)) || (q && negb s && t && w) in
  let h := u in
  let i := v && ((negb w && negb x) || (w && x && (s || t))) in
  let j := (negb v && w) || (s && v && negb w && x) || (p && w && (negb x || (negb s && negb t))) in
  let k := (negb v && x) || (t && negb w && x) || (q && v && w && (negb x || (negb s && negb t))) in
  let m := y in
  (zb a*8 + zb b*4 + zb c*2 + zb d) * 100 + (zb e*8 + zb f*4 + zb g*2 + zb h) * 10 + (zb i*8 + zb j*4 + zb k*2 + zb m).

Theorem declet_enc_is_table : forall n, 0 <= n < 1000 -> declet_enc n = declet_enc_eqs n.
Proof.
  assert (H : forallb (fun n => declet_enc n =? declet_enc_eqs n) (zrange 1000) = true) by (vm_compute; reflexivity).
  intros n Hn. apply (sweep _ 1000%nat H) in Hn. now apply Z.eqb_eq.
Qed.

Theorem declet_dec_is_table : forall v, 0 <= v < 1024 -> declet_dec v = declet_dec_eqs v.
Proof.
  assert (H : forallb (fun n => declet_dec n =? declet_dec_eqs n) (zrange 1024) = true) by (vm_compute; reflexivity).
  intros n Hn. apply (sweep _ 1024%nat H) in Hn. now apply Z.eqb_eq.
Qed.

(* (2) arithmetic facts about the table that fix it row by row (table 3.4): with a b c the three digits,
   - all small (<= 7): the three 3-bit digits side by side, indicator bit 3 clear;
   - exactly one large digit: indicator 100 / 101 / 110 in bits 3..1, the large digit keeps only its low bit;
   - two large: bits 3..1 = 111 and bits 6..5 = 10 / 01 / 00; three large: bits 6..5 = 11, bits 9..8 = 00.
   In all rows the low bits of the three digits sit at bits 7, 4, 0. *)
Theorem declet_enc_rows : forall n, 0 <= n < 1000 ->
  let a := n / 100 in let b := (n / 10) mod 10 in let c := n mod 10 in
  let e := declet_enc n in
  bit e 7 = a mod 2 /\ bit e 4 = b mod 2 /\ bit e 0 = c mod 2 /\
  (a <= 7 -> b <= 7 -> c <= 7 -> e = a * 128 + b * 16 + c) /\
  (a <= 7 -> b <= 7 -> 8 <= c -> e = a * 128 + b * 16 + 8 + c mod 2) /\
  (a <= 7 -> 8 <= b -> c <= 7 -> e = a * 128 + (c / 2) * 32 + (b mod 2) * 16 + 10 + c mod 2) /\
  (8 <= a -> b <= 7 -> c <= 7 -> e = (c / 2) * 256 + (a mod 2) * 128 + b * 16 + 12 + c mod 2) /\
  (a <= 7 -> 8 <= b -> 8 <= c -> e = a * 128 + 64 + (b mod 2) * 16 + 14 + c mod 2) /\
  (8 <= a -> b <= 7 -> 8 <= c -> e = (b / 2) * 256 + (a mod 2) * 128 + 32 + (b mod 2) * 16 + 14 + c mod 2) /\
  (8 <= a -> 8 <= b -> c <= 7 -> e = (c / 2) * 256 + (a mod 2) * 128 + (b mod 2) * 16 + 14 + c mod 2) /\
  (8 <= a -> 8 <= b -> 8 <= c -> e = (a mod 2) * 128 + 96 + (b mod 2) * 16 + 14 + c mod 2).
Proof.
  set (chk := fun n =>
    let a := n / 100 in let b := (n / 10) mod 10 in let c := n mod 10 in
    let e := declet_enc n in
    let imp (x y : bool) := implb x y in
    (bit e 7 =? a mod 2) && (bit e 4 =? b mod 2) && (bit e 0 =? c mod 2) &&
    imp ((a <=? 7) && (b <=? 7) && (c <=? 7)) (e =? a * 128 + b * 16 + c) &&
    imp ((a <=? 7) && (b <=? 7) && (8 <=? c)) (e =? a * 128 + b * 16 + 8 + c mod 2) &&
    imp ((a <=? 7) && (8 <=? b) && (c <=? 7)) (e =? a * 128 + (c / 2) * 32 + (b mod 2) * 16 + 10 + c mod 2) &&
    imp ((8 <=? a) && (b <=? 7) && (c <=? 7)) (e =? (c / 2) * 256 + (a mod 2) * 128 + b * 16 + 12 + c mod 2) &&
    imp ((a <=? 7) && (8 <=? b) && (8 <=? c)) (e =? a * 128 + 64 + (b mod 2) * 16 + 14 + c mod 2) &&
    imp ((8 <=? a) && (b <=? 7) && (8 <=? c)) (e =? (b / 2) * 256 + (a mod 2) * 128 + 32 + (b mod 2) * 16 + 14 + c mod 2) &&
    imp ((8 <=? a) && (8 <=? b) && (c <=? 7)) (e =? (c / 2) * 256 + (a mod 2) * 128 + (b mod 2) * 16 + 14 + c mod 2) &&
    imp ((8 <=? a) && (8 <=? b) && (8 <=? c)) (e =? (a mod 2) * 128 + 96 + (b mod 2) * 16 + 14 + c mod 2)).
  assert (H : forallb chk (zrange 1000) = true) by (vm_compute; reflexivity).
  intros n Hn. apply (sweep _ 1000%nat H) in Hn. unfold chk in Hn. cbv zeta in *.
  rewrite !andb_true_iff in Hn.
  repeat match type of Hn with _ /\ _ => let X := fresh "X" in destruct Hn as [Hn X] end.
  repeat match goal with
  | X : implb _ _ = true |- _ => rewrite implb_true_iff, !andb_true_iff, ?Z.leb_le, Z.eqb_eq in X
  | X : (_ =? _) = true |- _ => apply Z.eqb_eq in X
  end.
  repeat split; try assumption; intros; match goal with X : _ -> _ |- _ => apply X; repeat split; assumption end.
Qed.

(* ------------------------------------------------------------------ *)
(* strings of k declets                                                 *)
(* ------------------------------------------------------------------ *)
Theorem declets_roundtrip : forall k n, 0 <= n < 1000 ^ Z.of_nat k ->
  declets_dec k (declets_enc k n) = n /\ 0 <= declets_enc k n < 1024 ^ Z.of_nat k.
Proof.
  induction k as [|k IH]; intros n Hn.
  - cbn [declets_dec declets_enc]. change (1000 ^ Z.of_nat 0) with 1 in Hn. change (1024 ^ Z.of_nat 0) with 1. lia.
  - rewrite Nat2Z.inj_succ, Z.pow_succ_r in * by lia.
    cbn [declets_dec declets_enc].
    assert (H0 : 0 <= n mod 1000 < 1000) by lia.
    assert (H1 : 0 <= n / 1000 < 1000 ^ Z.of_nat k) by lia.
    destruct (declet_roundtrip _ H0) as [R0 B0]. destruct (IH _ H1) as [R1 B1].
    set (e0 := declet_enc (n mod 1000)) in *. set (r := declets_enc k (n / 1000)) in *.
    assert (Hm : (e0 + 1024 * r) mod 1024 = e0) by lia.
    assert (Hd : (e0 + 1024 * r) / 1024 = r) by lia.
    rewrite Hm, Hd, R0, R1. split; [lia|].
    set (p := 1024 ^ Z.of_nat k) in *. lia.
Qed.

Theorem declets_dec_range : forall k t, 0 <= t < 1024 ^ Z.of_nat k -> 0 <= declets_dec k t < 1000 ^ Z.of_nat k.
Proof.
  induction k as [|k IH]; intros t Ht.
  - cbn [declets_dec]. change (1000 ^ Z.of_nat 0) with 1. lia.
  - rewrite Nat2Z.inj_succ, Z.pow_succ_r in * by lia.
    cbn [declets_dec].
    assert (H0 : 0 <= t mod 1024 < 1024) by lia.
    assert (H1 : 0 <= t / 1024 < 1024 ^ Z.of_nat k) by lia.
    pose proof (declet_dec_range _ H0) as B0. pose proof (IH _ H1) as B1.
    set (p := 1000 ^ Z.of_nat k) in *. lia.
Qed.

(* all k declets of the string are canonical *)
Fixpoint declets_canonb (k:nat) (t:Z) : bool :=
  match k with O => true | S k' => negb (declet_redundant (t mod 1024)) && declets_canonb k' (t / 1024) end.

Theorem declets_canonb_spec : forall k t, 0 <= t ->
  (declets_canonb k t = true <->
   forall i, 0 <= i < Z.of_nat k -> declet_redundant ((t / 1024 ^ i) mod 1024) = false).
Proof.
  induction k as [|k IH]; intros t Ht.
  - cbn [declets_canonb]. split; [intros _ i Hi; lia|reflexivity].
  - cbn [declets_canonb]. rewrite andb_true_iff, negb_true_iff, (IH (t / 1024)) by lia. split.
    + intros [H0 H1] i Hi. destruct (Z.eq_dec i 0) as [->|Hne].
      * change (1024 ^ 0) with 1. now rewrite Z.div_1_r.
      * specialize (H1 (i - 1) ltac:(lia)). rewrite Z.div_div in H1 by lia.
        replace (1024 * 1024 ^ (i - 1)) with (1024 ^ i) in H1; [exact H1|].
        rewrite <- Z.pow_succ_r by lia. f_equal. lia.
    + intros H. split.
      * specialize (H 0 ltac:(lia)). change (1024 ^ 0) with 1 in H. now rewrite Z.div_1_r in H.
      * intros i Hi. specialize (H (i + 1) ltac:(lia)). rewrite Z.div_div by lia.
        replace (1024 * 1024 ^ i) with (1024 ^ (i + 1)); [exact H|].
        rewrite Z.pow_add_r by lia. lia.
Qed.

Theorem declets_enc_dec : forall k t, 0 <= t < 1024 ^ Z.of_nat k -> declets_canonb k t = true ->
  declets_enc k (declets_dec k t) = t.
Proof.
  induction k as [|k IH]; intros t Ht Hc.
  - cbn [declets_dec declets_enc]. change (1024 ^ Z.of_nat 0) with 1 in Ht. lia.
  - rewrite Nat2Z.inj_succ, Z.pow_succ_r in * by lia.
    cbn [declets_canonb] in Hc. apply andb_true_iff in Hc. destruct Hc as [Hc0 Hc1]. apply negb_true_iff in Hc0.
    cbn [declets_dec declets_enc].
    assert (H0 : 0 <= t mod 1024 < 1024) by lia.
    assert (H1 : 0 <= t / 1024 < 1024 ^ Z.of_nat k) by lia.
    pose proof (declet_dec_range _ H0) as B0.
    apply (declet_canonical_iff _ H0) in Hc0. specialize (IH _ H1 Hc1).
    set (d0 := declet_dec (t mod 1024)) in *. set (r := declets_dec k (t / 1024)) in *.
    assert (Hm : (d0 + 1000 * r) mod 1000 = d0) by lia.
    assert (Hd : (d0 + 1000 * r) / 1000 = r) by lia.
    rewrite Hm, Hd, Hc0, IH. lia.
Qed.

Theorem declets_enc_canonical : forall k n, 0 <= n < 1000 ^ Z.of_nat k -> declets_canonb k (declets_enc k n) = true.
Proof.
  induction k as [|k IH]; intros n Hn.
  - reflexivity.
  - rewrite Nat2Z.inj_succ, Z.pow_succ_r in * by lia.
    cbn [declets_canonb declets_enc].
    assert (H0 : 0 <= n mod 1000 < 1000) by lia.
    assert (H1 : 0 <= n / 1000 < 1000 ^ Z.of_nat k) by lia.
    destruct (declet_roundtrip _ H0) as [R0 B0]. pose proof (declet_enc_canonical _ H0) as C0.
    pose proof (IH _ H1) as C1.
    set (e0 := declet_enc (n mod 1000)) in *. set (r := declets_enc k (n / 1000)) in *.
    assert (Hm : (e0 + 1024 * r) mod 1024 = e0) by lia.
    assert (Hd : (e0 + 1024 * r) / 1024 = r) by lia.
    rewrite Hm, Hd, C0, C1. reflexivity.
Qed.

(* the i-th declet (from the least significant end) holds decimal digits 3i+2 .. 3i of n *)
Theorem declets_enc_nth : forall k n i, 0 <= n < 1000 ^ Z.of_nat k -> 0 <= i < Z.of_nat k ->
  (declets_enc k n / 1024 ^ i) mod 1024 = declet_enc ((n / 1000 ^ i) mod 1000).
Proof.
  induction k as [|k IH]; intros n i Hn Hi; [lia|].
  rewrite Nat2Z.inj_succ, Z.pow_succ_r in Hn by lia.
  cbn [declets_enc].
  assert (H0 : 0 <= n mod 1000 < 1000) by lia.
  assert (H1 : 0 <= n / 1000 < 1000 ^ Z.of_nat k) by lia.
  destruct (declet_roundtrip _ H0) as [R0 B0].
  set (e0 := declet_enc (n mod 1000)) in *. set (r := declets_enc k (n / 1000)) in *.
  destruct (Z.eq_dec i 0) as [->|Hne].
  - change (1024 ^ 0) with 1. change (1000 ^ 0) with 1. rewrite !Z.div_1_r. fold e0. lia.
  - replace (1024 ^ i) with (1024 * 1024 ^ (i - 1)) by (rewrite <- Z.pow_succ_r by lia; f_equal; lia).
    replace (1000 ^ i) with (1000 * 1000 ^ (i - 1)) by (rewrite <- Z.pow_succ_r by lia; f_equal; lia).
    rewrite <- !Z.div_div by lia.
    assert (Hd : (e0 + 1024 * r) / 1024 = r) by lia.
    rewrite Hd. unfold r. apply IH; lia.
Qed.

Lemma P110_pow : P110 = 1024 ^ Z.of_nat 11. Proof. reflexivity. Qed.
Lemma T33_pow : T33 = 1000 ^ Z.of_nat 11. Proof. reflexivity. Qed.

Lemma declets11_roundtrip n : 0 <= n < T33 -> declets_dec 11 (declets_enc 11 n) = n /\ 0 <= declets_enc 11 n < P110.
Proof. rewrite T33_pow, P110_pow. apply declets_roundtrip. Qed.
Lemma declets11_dec_range t : 0 <= t < P110 -> 0 <= declets_dec 11 t < T33.
Proof. rewrite T33_pow, P110_pow. apply declets_dec_range. Qed.
Lemma declets11_enc_dec t : 0 <= t < P110 -> declets_canonb 11 t = true -> declets_enc 11 (declets_dec 11 t) = t.
Proof. rewrite P110_pow. apply declets_enc_dec. Qed.
Lemma declets11_enc_canonical n : 0 <= n < T33 -> declets_canonb 11 (declets_enc 11 n) = true.
Proof. rewrite T33_pow. apply declets_enc_canonical. Qed.

(* ------------------------------------------------------------------ *)
(* the 128-bit DPD word                                                 *)
(* ------------------------------------------------------------------ *)
Definition sgnw (s:bool) : Z := if s then P127 else 0.

(* a word assembled from sign, 17-bit combination field and 110-bit trailing field, and back *)
Lemma word_fields s comb t : 0 <= comb < 131072 -> 0 <= t < P110 ->
  let w := sgnw s + comb * P110 + t in
  0 <= w < P128 /\ (P127 <=? w) = s /\ (w mod P127) / P110 = comb /\ (w mod P127) mod P110 = t.
Proof.
  intros Hc Ht w. unfold w, sgnw, P110, P127, P128 in *.
  assert (Hs : (170141183460469231731687303715884105728 <=?
                (if s then 170141183460469231731687303715884105728 else 0) + comb * 1298074214633706907132624082305024 + t) = s).
  { destruct s; [apply Z.leb_le|apply Z.leb_gt]; lia. }
  assert (Hr : ((if s then 170141183460469231731687303715884105728 else 0) + comb * 1298074214633706907132624082305024 + t)
               mod 170141183460469231731687303715884105728 = comb * 1298074214633706907132624082305024 + t).
  { destruct s; lia. }
  rewrite Hr. repeat split; try assumption; try (destruct s; lia); lia.
Qed.

Lemma word_split w : 0 <= w < P128 ->
  let s := P127 <=? w in let comb := (w mod P127) / P110 in let t := (w mod P127) mod P110 in
  w = sgnw s + comb * P110 + t /\ 0 <= comb < 131072 /\ 0 <= t < P110.
Proof.
  intros Hw. cbv zeta. unfold sgnw, P110, P127, P128 in *.
  destruct (Z.leb_spec 170141183460469231731687303715884105728 w); lia.
Qed.

Lemma word_aux s comb t : 0 <= comb < 131072 -> 0 <= t < P110 ->
  let w := sgnw s + comb * P110 + t in
  w mod P110 = t /\ (w / P122) mod 32 = comb / 4096 /\
  w mod P122 = (comb mod 4096) * P110 + t /\ (w mod P121) / P110 = comb mod 2048.
Proof.
  intros Hc Ht. cbv zeta.
  set (h := comb / 4096). set (l := comb mod 4096).
  assert (Hh : 0 <= h < 32) by (unfold h; lia).
  assert (Hl : 0 <= l < 4096) by (unfold l; lia).
  assert (Hcomb : comb = 4096 * h + l) by (unfold h, l; lia).
  set (m := l mod 2048).
  assert (Hm : 0 <= m < 2048 /\ (l = m \/ l = 2048 + m)) by (unfold m; lia).
  assert (Hm' : comb mod 2048 = m) by (unfold m; lia).
  rewrite Hm'. clearbody h l m. subst comb. clear Hc Hm'.
  set (z := if s then 1 else 0). assert (Hz : 0 <= z <= 1) by (unfold z; destruct s; lia).
  assert (Hs : sgnw s = z * P127) by (unfold z, sgnw; destruct s; lia). rewrite Hs. clearbody z. clear Hs.
  unfold P110, P121, P122, P127 in *.
  repeat split.
  - lia.
  - assert (E : (z * 170141183460469231731687303715884105728 + (4096 * h + l) * 1298074214633706907132624082305024 + t)
               / 5316911983139663491615228241121378304 = 32 * z + h) by lia.
    rewrite E. lia.
  - lia.
  - assert (E : (z * 170141183460469231731687303715884105728 + (4096 * h + l) * 1298074214633706907132624082305024 + t)
               mod 2658455991569831745807614120560689152 = m * 1298074214633706907132624082305024 + t) by lia.
    rewrite E. lia.
Qed.

(* dpd_decode in terms of the three fields *)
Definition dec_of_fields (s:bool) (comb t : Z) : dec :=
  let g5 := comb / P12 in
  let rest := declets_dec 11 t in
  if g5 =? 30 then Inf s
  else if g5 =? 31 then NaN s (1 <=? (comb / 2048) mod 2) rest
  else if comb / 2 ^ 15 =? 3 then
    Fin s ((8 + (comb / P12) mod 2) * T33 + rest) (((comb / 2 ^ 13) mod 4) * P12 + comb mod P12 - 6176)
  else Fin s (((comb / P12) mod 8) * T33 + rest) ((comb / 2 ^ 15) * P12 + comb mod P12 - 6176).

Lemma dpd_decode_fields s comb t : 0 <= comb < 131072 -> 0 <= t < P110 ->
  dpd_decode (sgnw s + comb * P110 + t) = dec_of_fields s comb t.
Proof.
  intros Hc Ht. destruct (word_fields s comb t Hc Ht) as (_ & Hs & Hcomb & Htt).
  unfold dpd_decode. cbv zeta. rewrite Hs, Hcomb, Htt. reflexivity.
Qed.

(* the combination field written by dpd_encode for a finite datum *)
Definition comb_of (lead E : Z) : Z :=
  if 8 <=? lead then 3 * 2 ^ 15 + (E / P12) * 2 ^ 13 + (lead mod 2) * P12 + E mod P12
  else (E / P12) * 2 ^ 15 + lead * P12 + E mod P12.

Lemma dpd_encode_fin s c q :
  dpd_encode (Fin s c q) = sgnw s + comb_of (c / T33) (q + 6176) * P110 + declets_enc 11 (c mod T33).
Proof. reflexivity. Qed.

Lemma comb_of_range lead E : 0 <= lead <= 9 -> 0 <= E < 12288 -> 0 <= comb_of lead E < 131072.
Proof.
  intros Hl HE. unfold comb_of, P12. change (2 ^ 15) with 32768. change (2 ^ 13) with 8192.
  destruct (8 <=? lead) eqn:E8; [apply Z.leb_le in E8|apply Z.leb_gt in E8]; lia.
Qed.

(* combination-field round trip, small numbers only *)
Lemma comb_of_decode lead E : 0 <= lead <= 9 -> 0 <= E < 12288 ->
  let comb := comb_of lead E in
  comb / P12 <> 30 /\ comb / P12 <> 31 /\
  (if comb / 2 ^ 15 =? 3
   then 8 + (comb / P12) mod 2 = lead /\ ((comb / 2 ^ 13) mod 4) * P12 + comb mod P12 = E
   else (comb / P12) mod 8 = lead /\ (comb / 2 ^ 15) * P12 + comb mod P12 = E).
Proof.
  intros Hl HE. cbv zeta. unfold comb_of, P12. change (2 ^ 15) with 32768. change (2 ^ 13) with 8192.
  destruct (8 <=? lead) eqn:E8; [apply Z.leb_le in E8|apply Z.leb_gt in E8].
  - set (h := E / 4096). set (l := E mod 4096). set (b := lead mod 2).
    assert (Hh : 0 <= h <= 2) by (unfold h; lia).
    assert (Hl' : 0 <= l < 4096) by (unfold l; lia).
    assert (HE' : E = h * 4096 + l) by (unfold h, l; lia).
    assert (Hb : b = lead - 8) by (unfold b; lia).
    clearbody h l b.
    set (comb := 3 * 32768 + h * 8192 + b * 4096 + l).
    assert (H1 : comb / 32768 = 3) by (unfold comb; lia).
    assert (H2 : comb / 4096 = 24 + 2 * h + b) by (unfold comb; lia).
    assert (H3 : comb / 8192 = 12 + h) by (unfold comb; lia).
    assert (H4 : comb mod 4096 = l) by (unfold comb; lia).
    rewrite H1, H2, H3, H4. cbn [Z.eqb Pos.eqb]. repeat split; lia.
  - set (h := E / 4096). set (l := E mod 4096).
    assert (Hh : 0 <= h <= 2) by (unfold h; lia).
    assert (Hl' : 0 <= l < 4096) by (unfold l; lia).
    assert (HE' : E = h * 4096 + l) by (unfold h, l; lia).
    clearbody h l.
    set (comb := h * 32768 + lead * 4096 + l).
    assert (H1 : comb / 32768 = h) by (unfold comb; lia).
    assert (H2 : comb / 4096 = 8 * h + lead) by (unfold comb; lia).
    assert (H4 : comb mod 4096 = l) by (unfold comb; lia).
    rewrite H1, H2, H4.
    destruct (h =? 3) eqn:E3; [apply Z.eqb_eq in E3; lia|]. repeat split; lia.
Qed.

Theorem dpd_encode_range d : wf d -> 0 <= dpd_encode d < P128.
Proof.
  destruct d as [s c q|s|s sg p]; intros H; cbn [wf] in H.
  - rewrite dpd_encode_fin.
    assert (Hl : 0 <= c / T33 <= 9) by (unfold T33, T34 in *; lia).
    assert (Hr : 0 <= c mod T33 < T33) by (unfold T33; lia).
    destruct (declets11_roundtrip _ Hr) as [_ Bt].
    pose proof (comb_of_range (c / T33) (q + 6176) Hl ltac:(lia)) as Bc.
    exact (proj1 (word_fields s _ _ Bc Bt)).
  - cbn [dpd_encode]. unfold P122, P127, P128. destruct s; lia.
  - cbn [dpd_encode]. destruct (declets11_roundtrip _ H) as [_ Bt].
    unfold P110, P121, P122, P127, P128 in *. destruct s, sg; lia.
Qed.

Lemma dpd_encode_nan s sg p :
  dpd_encode (NaN s sg p) = sgnw s + (31 * 4096 + (if sg then 2048 else 0)) * P110 + declets_enc 11 p.
Proof. cbn [dpd_encode]. unfold sgnw, P110, P121, P122. destruct sg; lia. Qed.

Lemma dpd_encode_inf s : dpd_encode (Inf s) = sgnw s + (30 * 4096) * P110 + 0.
Proof. cbn [dpd_encode]. unfold sgnw, P110, P122. lia. Qed.

Theorem dpd_decode_encode d : wf d -> dpd_decode (dpd_encode d) = d.
Proof.
  destruct d as [s c q|s|s sg p]; intros H; cbn [wf] in H.
  - rewrite dpd_encode_fin.
    assert (Hl : 0 <= c / T33 <= 9) by (unfold T33, T34 in *; lia).
    assert (Hr : 0 <= c mod T33 < T33) by (unfold T33; lia).
    assert (HE : 0 <= q + 6176 < 12288) by lia.
    destruct (declets11_roundtrip _ Hr) as [Rt Bt].
    pose proof (comb_of_range _ _ Hl HE) as Bc.
    rewrite (dpd_decode_fields s _ _ Bc Bt). unfold dec_of_fields. cbv zeta. rewrite Rt.
    pose proof (comb_of_decode _ _ Hl HE) as D. cbv zeta in D.
    set (comb := comb_of (c / T33) (q + 6176)) in *.
    destruct D as (D30 & D31 & D).
    destruct (comb / P12 =? 30) eqn:E30; [apply Z.eqb_eq in E30; contradiction|].
    destruct (comb / P12 =? 31) eqn:E31; [apply Z.eqb_eq in E31; contradiction|].
    destruct (comb / 2 ^ 15 =? 3); destruct D as [Dl De]; rewrite Dl, De; f_equal; unfold T33; lia.
  - rewrite dpd_encode_inf. rewrite dpd_decode_fields by (unfold P110; lia). reflexivity.
  - rewrite dpd_encode_nan. destruct (declets11_roundtrip _ H) as [Rt Bt].
    rewrite dpd_decode_fields by (try assumption; destruct sg; lia).
    unfold dec_of_fields, P12. cbv zeta. rewrite Rt. destruct sg; reflexivity.
Qed.

(* decoding any 128-bit word yields a well-formed datum: eleven declets give fewer than 10^33, and the
   combination field gives a leading digit 0..9 and a biased exponent below 3 * 2^12 *)
Lemma dec_of_fields_wf s comb t : 0 <= comb < 131072 -> 0 <= t < P110 -> wf (dec_of_fields s comb t).
Proof.
  intros Hc Ht. pose proof (declets11_dec_range t Ht) as Br. unfold dec_of_fields. cbv zeta.
  set (rest := declets_dec 11 t) in *. clearbody rest. unfold P12. change (2 ^ 15) with 32768. change (2 ^ 13) with 8192.
  destruct (comb / 4096 =? 30) eqn:E30; [exact I|apply Z.eqb_neq in E30].
  destruct (comb / 4096 =? 31) eqn:E31; [exact Br|apply Z.eqb_neq in E31].
  destruct (comb / 32768 =? 3) eqn:E3; [apply Z.eqb_eq in E3|apply Z.eqb_neq in E3]; cbn [wf]; unfold T33, T34 in *.
  - split; [lia|]. lia.
  - split; [lia|]. lia.
Qed.

Theorem dpd_decode_wf w : 0 <= w < P128 -> wf (dpd_decode w).
Proof.
  intros Hw. destruct (word_split w Hw) as (Ew & Bc & Bt). cbv zeta in *.
  rewrite Ew. rewrite dpd_decode_fields by assumption. now apply dec_of_fields_wf.
Qed.

(* ---- canonical DPD words (IEEE 754-2008 3.5.2): every declet canonical; infinity has all bits below
        G0..G4 zero; NaN has the reserved bits G6..G16 zero ---- *)
Definition dpd_canonical_bits (w:Z) : bool :=
  (0 <=? w) && (w <? P128) && declets_canonb 11 (w mod P110) &&
  (if (w / P122) mod 32 =? 30 then w mod P122 =? 0 else true) &&
  (if (w / P122) mod 32 =? 31 then (w mod P121) / P110 =? 0 else true).

Lemma declets_canonb_0 k : declets_canonb k 0 = true.
Proof. induction k as [|k IH]; [reflexivity|]. cbn [declets_canonb]. change (0 / 1024) with 0. rewrite IH. reflexivity. Qed.

Theorem dpd_encode_decode w : dpd_canonical_bits w = true -> dpd_encode (dpd_decode w) = w.
Proof.
  unfold dpd_canonical_bits. rewrite !andb_true_iff, Z.leb_le, Z.ltb_lt. intros ((((H0 & H1) & Hcan) & Hinf) & Hnan).
  assert (Hw : 0 <= w < P128) by (clear - H0 H1; lia). clear H0 H1.
  destruct (word_split w Hw) as (Ew & Bc & Bt). cbv zeta in *.
  set (s := P127 <=? w) in *. set (comb := (w mod P127) / P110) in *. set (t := (w mod P127) mod P110) in *.
  clearbody s comb t. subst w.
  destruct (word_aux s comb t Bc Bt) as (Ht & Hg & Hlow & Hres). cbv zeta in *.
  rewrite Ht in Hcan. rewrite Hg in Hinf, Hnan. rewrite Hlow in Hinf. rewrite Hres in Hnan.
  clear Ht Hg Hlow Hres Hw.
  pose proof (declets11_dec_range t Bt) as Br. pose proof (declets11_enc_dec t Bt Hcan) as Rt.
  rewrite dpd_decode_fields by assumption.
  unfold dec_of_fields. cbv zeta. set (rest := declets_dec 11 t) in *.
  unfold P12. change (2 ^ 15) with 32768. change (2 ^ 13) with 8192.
  destruct (comb / 4096 =? 30) eqn:E30.
  { apply Z.eqb_eq in E30, Hinf. rewrite dpd_encode_inf. clear - E30 Hinf Bc Bt. unfold P110 in *. lia. }
  destruct (comb / 4096 =? 31) eqn:E31.
  { apply Z.eqb_eq in E31, Hnan. rewrite dpd_encode_nan, Rt.
    assert (Ec : 31 * 4096 + (if 1 <=? (comb / 2048) mod 2 then 2048 else 0) = comb).
    { clear - E31 Hnan Bc. destruct (Z.leb_spec 1 ((comb / 2048) mod 2)); lia. }
    rewrite Ec. reflexivity. }
  apply Z.eqb_neq in E30, E31.
  destruct (comb / 32768 =? 3) eqn:E3; [apply Z.eqb_eq in E3|apply Z.eqb_neq in E3]; rewrite dpd_encode_fin.
  - set (b := (comb / 4096) mod 2).
    assert (Hb : 0 <= b <= 1) by (unfold b; lia).
    assert (Hlead : ((8 + b) * T33 + rest) / T33 = 8 + b) by (clear - Hb Br; unfold T33 in *; lia).
    assert (Hrest : ((8 + b) * T33 + rest) mod T33 = rest) by (clear - Hb Br; unfold T33 in *; lia).
    rewrite Hlead, Hrest, Rt.
    assert (Ec : comb_of (8 + b) ((comb / 8192) mod 4 * 4096 + comb mod 4096 - 6176 + 6176) = comb).
    { clear - Hb Bc E30 E31 E3. unfold comb_of, P12. change (2 ^ 15) with 32768. change (2 ^ 13) with 8192.
      destruct (8 <=? 8 + b) eqn:E8; [|apply Z.leb_gt in E8; lia].
      unfold b. lia. }
    rewrite Ec. reflexivity.
  - set (l := (comb / 4096) mod 8).
    assert (Hl : 0 <= l <= 7) by (unfold l; lia).
    assert (Hlead : (l * T33 + rest) / T33 = l) by (clear - Hl Br; unfold T33 in *; lia).
    assert (Hrest : (l * T33 + rest) mod T33 = rest) by (clear - Hl Br; unfold T33 in *; lia).
    rewrite Hlead, Hrest, Rt.
    assert (Ec : comb_of l (comb / 32768 * 4096 + comb mod 4096 - 6176 + 6176) = comb).
    { clear - Hl Bc E30 E31 E3. unfold comb_of, P12. change (2 ^ 15) with 32768. change (2 ^ 13) with 8192.
      destruct (8 <=? l) eqn:E8; [apply Z.leb_le in E8; lia|].
      unfold l. lia. }
    rewrite Ec. reflexivity.
Qed.

(* every encoded well-formed datum is a canonical word *)
Theorem dpd_encode_canonical d : wf d -> dpd_canonical_bits (dpd_encode d) = true.
Proof.
  intros H. pose proof (dpd_encode_range d H) as R.
  unfold dpd_canonical_bits.
  destruct (Z.leb_spec 0 (dpd_encode d)); [|lia]. destruct (Z.ltb_spec (dpd_encode d) P128); [|lia].
  cbn [andb].
  destruct d as [s c q|s|s sg p]; cbn [wf] in H.
  - rewrite dpd_encode_fin in *.
    assert (Hl : 0 <= c / T33 <= 9) by (unfold T33, T34 in *; lia).
    assert (Hr : 0 <= c mod T33 < T33) by (unfold T33; lia).
    assert (HE : 0 <= q + 6176 < 12288) by lia.
    destruct (declets11_roundtrip _ Hr) as [Rt Bt].
    pose proof (declets11_enc_canonical _ Hr) as Ct.
    pose proof (comb_of_range _ _ Hl HE) as Bc.
    pose proof (comb_of_decode _ _ Hl HE) as D. cbv zeta in D. destruct D as (D30 & D31 & _).
    set (comb := comb_of (c / T33) (q + 6176)) in *. set (t := declets_enc 11 (c mod T33)) in *.
    clearbody comb t.
    assert (Ht : (sgnw s + comb * P110 + t) mod P110 = t) by (unfold sgnw, P110, P127 in *; destruct s; lia).
    assert (Hg : ((sgnw s + comb * P110 + t) / P122) mod 32 = comb / P12).
    { unfold sgnw, P12, P110, P122, P127 in *. destruct s; lia. }
    rewrite Ht, Hg, Ct.
    destruct (comb / P12 =? 30) eqn:E30; [apply Z.eqb_eq in E30; contradiction|].
    destruct (comb / P12 =? 31) eqn:E31; [apply Z.eqb_eq in E31; contradiction|]. reflexivity.
  - cbn [dpd_encode]. unfold P110, P121, P122, P127. destruct s; vm_compute; reflexivity.
  - rewrite dpd_encode_nan in *.
    destruct (declets11_roundtrip _ H) as [Rt Bt]. pose proof (declets11_enc_canonical _ H) as Ct.
    set (t := declets_enc 11 p) in *. clearbody t.
    set (comb := 31 * 4096 + (if sg then 2048 else 0)).
    assert (Bc : comb = 126976 \/ comb = 129024) by (unfold comb; destruct sg; lia). clearbody comb.
    assert (Ht : (sgnw s + comb * P110 + t) mod P110 = t) by (unfold sgnw, P110, P127 in *; destruct s; lia).
    assert (Hg : ((sgnw s + comb * P110 + t) / P122) mod 32 = 31).
    { unfold sgnw, P110, P122, P127 in *. destruct s; lia. }
    assert (Hres : ((sgnw s + comb * P110 + t) mod P121) / P110 = 0).
    { unfold sgnw, P110, P121, P127 in *. destruct s; lia. }
    rewrite Ht, Hg, Hres, Ct. reflexivity.
Qed.

(* the explicit predicate is exactly "in range and fixed by decode-then-encode" *)
Theorem dpd_canonical_iff w : dpd_canonical_bits w = true <-> (0 <= w < P128 /\ dpd_encode (dpd_decode w) = w).
Proof.
  split.
  - intros H. split; [|now apply dpd_encode_decode].
    unfold dpd_canonical_bits in H. rewrite !andb_true_iff, Z.leb_le, Z.ltb_lt in H. lia.
  - intros [Hw E]. rewrite <- E. apply dpd_encode_canonical. now apply dpd_decode_wf.
Qed.

Theorem dpd_encode_inj d d' : wf d -> wf d' -> dpd_encode d = dpd_encode d' -> d = d'.
Proof. intros H H' E. rewrite <- (dpd_decode_encode d H), <- (dpd_decode_encode d' H'). now rewrite E. Qed.

(* ------------------------------------------------------------------ *)
(* the layout of IEEE 754-2008 3.5.2, field by field                    *)
(* ------------------------------------------------------------------ *)
Lemma digit_shift base x K i n : 0 < base -> 0 <= i < n ->
  ((x + base ^ n * K) / base ^ i) mod base = (x / base ^ i) mod base.
Proof.
  intros Hb Hi.
  assert (HA : 0 < base ^ i) by (apply Z.pow_pos_nonneg; lia).
  replace (base ^ n) with (base ^ i * (base * base ^ (n - i - 1))).
  2:{ rewrite <- Z.pow_succ_r by lia. rewrite <- Z.pow_add_r by lia. f_equal. lia. }
  set (A := base ^ i) in *. set (B := base ^ (n - i - 1)).
  replace (x + A * (base * B) * K) with (x + (base * B * K) * A) by ring.
  rewrite Z.div_add by lia.
  replace (x / A + base * B * K) with (x / A + (B * K) * base) by ring.
  apply Z_mod_plus_full.
Qed.

Lemma word_declet s comb t i : 0 <= i < 11 ->
  ((sgnw s + comb * P110 + t) / 1024 ^ i) mod 1024 = (t / 1024 ^ i) mod 1024.
Proof.
  intros Hi.
  replace (sgnw s + comb * P110 + t) with (t + 1024 ^ 11 * ((if s then 131072 else 0) + comb)).
  - apply digit_shift; lia.
  - change (1024 ^ 11) with P110. unfold sgnw, P110, P127. destruct s; lia.
Qed.

Lemma rest_digits c i : 0 <= i < 11 -> ((c mod T33) / 1000 ^ i) mod 1000 = (c / 1000 ^ i) mod 1000.
Proof.
  intros Hi. replace (c mod T33) with (c + 1000 ^ 11 * (- (c / T33))).
  - apply digit_shift; lia.
  - change (1000 ^ 11) with T33. unfold T33. lia.
Qed.

Lemma declets11_nth n i : 0 <= n < T33 -> 0 <= i < 11 ->
  (declets_enc 11 n / 1024 ^ i) mod 1024 = declet_enc ((n / 1000 ^ i) mod 1000).
Proof. intros Hn Hi. apply declets_enc_nth; [rewrite <- T33_pow; exact Hn|lia]. Qed.

(* finite numbers: sign bit 127; combination field G0..G16 = bits 126..110 with the two exponent MSBs and the
   leading digit packed into G0..G4 (two forms), the remaining 12 exponent bits in G5..G16; trailing significand
   = eleven declets, declet i (counted from the least significant end) = DPD code of decimal digits 3i+2..3i. *)
Theorem dpd_encode_layout_fin s c q : wf (Fin s c q) ->
  let w := dpd_encode (Fin s c q) in let E := q + 6176 in let lead := c / T33 in
  w / P127 = (if s then 1 else 0) /\
  0 <= lead <= 9 /\ 0 <= E / 4096 <= 2 /\
  (w / P110) mod 4096 = E mod 4096 /\
  (lead <= 7 -> (w / P125) mod 4 = E / 4096 /\ (w / P122) mod 8 = lead) /\
  (8 <= lead -> (w / P125) mod 4 = 3 /\ (w / P123) mod 4 = E / 4096 /\ (w / P122) mod 2 = lead - 8) /\
  (forall i, 0 <= i < 11 -> (w / 1024 ^ i) mod 1024 = declet_enc ((c / 1000 ^ i) mod 1000)).
Proof.
  intros H. cbn [wf] in H. cbv zeta. rewrite dpd_encode_fin.
  assert (Hl : 0 <= c / T33 <= 9) by (unfold T33, T34 in *; lia).
  assert (Hr : 0 <= c mod T33 < T33) by (unfold T33; lia).
  assert (HE : 0 <= q + 6176 < 12288) by lia.
  destruct (declets11_roundtrip _ Hr) as [_ Bt].
  pose proof (comb_of_range _ _ Hl HE) as Bc.
  assert (Hdig : forall i, 0 <= i < 11 ->
     ((sgnw s + comb_of (c / T33) (q + 6176) * P110 + declets_enc 11 (c mod T33)) / 1024 ^ i) mod 1024 =
     declet_enc ((c / 1000 ^ i) mod 1000)).
  { intros i Hi. rewrite word_declet by exact Hi. rewrite declets11_nth by assumption. now rewrite rest_digits. }
  set (t := declets_enc 11 (c mod T33)) in *. clearbody t.
  set (lead := c / T33) in *. clearbody lead. set (E := q + 6176) in *. clearbody E. clear H Hr.
  set (z := if s then 1 else 0). assert (Hz : 0 <= z <= 1) by (unfold z; destruct s; lia).
  assert (Hs : sgnw s = z * P127) by (unfold z, sgnw; destruct s; lia). rewrite Hs in *. clearbody z. clear Hs.
  split; [|split; [|split; [|split; [|split; [|split]]]]]; try exact Hdig; clear Hdig.
  - unfold P110, P127 in *. lia.
  - exact Hl.
  - lia.
  - assert (Ec : comb_of lead E mod 4096 = E mod 4096).
    { unfold comb_of, P12. change (2 ^ 15) with 32768. change (2 ^ 13) with 8192. destruct (8 <=? lead); lia. }
    rewrite <- Ec. set (comb := comb_of lead E) in *. clearbody comb. unfold P110, P127 in *. lia.
  - intros L7. unfold comb_of, P12 in *. change (2 ^ 15) with 32768 in *. change (2 ^ 13) with 8192 in *.
    destruct (8 <=? lead) eqn:E8; [apply Z.leb_le in E8; lia|]. clear E8.
    set (h := E / 4096) in *. set (l := E mod 4096) in *.
    assert (Hh : 0 <= h <= 2) by (unfold h; lia). assert (Hl' : 0 <= l < 4096) by (unfold l; lia).
    clearbody h l. unfold P110, P122, P125, P127 in *.
    assert (E1 : (z * 170141183460469231731687303715884105728 + (h * 32768 + lead * 4096 + l) * 1298074214633706907132624082305024 + t)
                 / 42535295865117307932921825928971026432 = 4 * z + h) by lia.
    assert (E2 : (z * 170141183460469231731687303715884105728 + (h * 32768 + lead * 4096 + l) * 1298074214633706907132624082305024 + t)
                 / 5316911983139663491615228241121378304 = 32 * z + 8 * h + lead) by lia.
    rewrite E1, E2. lia.
  - intros L8. unfold comb_of, P12 in *. change (2 ^ 15) with 32768 in *. change (2 ^ 13) with 8192 in *.
    destruct (8 <=? lead) eqn:E8; [clear E8|apply Z.leb_gt in E8; lia].
    set (h := E / 4096) in *. set (l := E mod 4096) in *. set (b := lead mod 2) in *.
    assert (Hh : 0 <= h <= 2) by (unfold h; lia). assert (Hl' : 0 <= l < 4096) by (unfold l; lia).
    assert (Hb : b = lead - 8) by (unfold b; lia).
    clearbody h l b. unfold P110, P122, P123, P125, P127 in *.
    assert (E1 : (z * 170141183460469231731687303715884105728 + (3 * 32768 + h * 8192 + b * 4096 + l) * 1298074214633706907132624082305024 + t)
                 / 42535295865117307932921825928971026432 = 4 * z + 3) by lia.
    assert (E2 : (z * 170141183460469231731687303715884105728 + (3 * 32768 + h * 8192 + b * 4096 + l) * 1298074214633706907132624082305024 + t)
                 / 5316911983139663491615228241121378304 = 32 * z + 24 + 2 * h + b) by lia.
    assert (E3 : (z * 170141183460469231731687303715884105728 + (3 * 32768 + h * 8192 + b * 4096 + l) * 1298074214633706907132624082305024 + t)
                 / 10633823966279326983230456482242756608 = 16 * z + 12 + h) by lia.
    rewrite E1, E2, E3. lia.
Qed.

(* NaN: G0..G4 = 11111, G5 = signalling, G6..G16 = 0, payload in the eleven declets; infinity: G0..G4 = 11110,
   everything below zero *)
Theorem dpd_encode_layout_nan s sg p : wf (NaN s sg p) ->
  let w := dpd_encode (NaN s sg p) in
  w / P127 = (if s then 1 else 0) /\ (w / P122) mod 32 = 31 /\ (w / P121) mod 2 = (if sg then 1 else 0) /\
  (w / P110) mod 2048 = 0 /\
  (forall i, 0 <= i < 11 -> (w / 1024 ^ i) mod 1024 = declet_enc ((p / 1000 ^ i) mod 1000)).
Proof.
  intros H. cbn [wf] in H. cbv zeta.
  destruct (declets11_roundtrip _ H) as [_ Bt].
  assert (Hdig : forall i, 0 <= i < 11 -> (dpd_encode (NaN s sg p) / 1024 ^ i) mod 1024 = declet_enc ((p / 1000 ^ i) mod 1000)).
  { intros i Hi. rewrite dpd_encode_nan, word_declet by exact Hi. now apply declets11_nth. }
  split; [|split; [|split; [|split]]]; try exact Hdig; clear Hdig; cbn [dpd_encode];
    set (t := declets_enc 11 p) in *; clearbody t; unfold P110, P121, P122, P127 in *; destruct s, sg; lia.
Qed.

Theorem dpd_encode_layout_inf s : dpd_encode (Inf s) = (if s then 1 else 0) * P127 + 30 * P122.
Proof. cbn [dpd_encode]. destruct s; lia. Qed.

(* ------------------------------------------------------------------ *)
(* BID-level consequences                                               *)
(* ------------------------------------------------------------------ *)
(* BID -> DPD: one outcome, no flag, for every 128-bit input; the output is a canonical DPD word of the same datum *)
Theorem m_encode_dpd_total x : 0 <= x < P128 ->
  exists w, m_encode_dpd x = [([w], 0)] /\ 0 <= w < P128 /\ dpd_canonical_bits w = true /\ dpd_decode w = decode x.
Proof.
  intros Hx. pose proof (decode_wf x Hx) as W. exists (dpd_encode (decode x)).
  split; [reflexivity|]. split; [now apply dpd_encode_range|]. split; [now apply dpd_encode_canonical|].
  now apply dpd_decode_encode.
Qed.

(* DPD -> BID: one outcome, no flag, for every 128-bit input (redundant declets included); the output is a
   canonical BID encoding of the same datum *)
Theorem m_decode_dpd_total w : 0 <= w < P128 ->
  exists b, m_decode_dpd w = [([b], 0)] /\ 0 <= b < P128 /\ canonical_bits b = true /\ decode b = dpd_decode w.
Proof.
  intros Hw. pose proof (dpd_decode_wf w Hw) as W. exists (encode (dpd_decode w)).
  split; [reflexivity|]. split; [now apply encode_range|]. split; [now apply encode_canonical|].
  now apply decode_encode.
Qed.

Theorem bid_dpd_bid x : canonical_bits x = true ->
  exists w, m_encode_dpd x = [([w], 0)] /\ m_decode_dpd w = [([x], 0)].
Proof.
  intros C. exists (dpd_encode (decode x)). split; [reflexivity|].
  unfold m_decode_dpd.
  assert (Hx : 0 <= x < P128).
  { unfold canonical_bits in C. rewrite !andb_true_iff, Z.leb_le, Z.ltb_lt in C. lia. }
  rewrite dpd_decode_encode by now apply decode_wf. now rewrite encode_decode.
Qed.

Theorem dpd_bid_dpd w : dpd_canonical_bits w = true ->
  exists b, m_decode_dpd w = [([b], 0)] /\ m_encode_dpd b = [([w], 0)].
Proof.
  intros C. exists (encode (dpd_decode w)). split; [reflexivity|].
  apply dpd_canonical_iff in C. destruct C as [Hw E].
  unfold m_encode_dpd. rewrite decode_encode by now apply dpd_decode_wf. now rewrite E.
Qed.

(* a non-canonical DPD word and its canonical form denote the same datum (so they convert to the same BID) *)
Theorem dpd_canonicalise w : 0 <= w < P128 ->
  let w' := dpd_encode (dpd_decode w) in dpd_canonical_bits w' = true /\ dpd_decode w' = dpd_decode w.
Proof.
  intros Hw. pose proof (dpd_decode_wf w Hw) as W. cbv zeta. split.
  - now apply dpd_encode_canonical.
  - now apply dpd_decode_encode.
Qed.
