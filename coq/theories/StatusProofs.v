(* C14: status flags only accumulate; outcomes do not depend on flag history. Axiom-free. *)
From Coq Require Import ZArith Bool List Lia.
From DV Require Import Base Bid Arith OpsArith OpsCmp OpsMisc OpsConv OpsStr Judge Status.
Import ListNotations.
Open Scope Z_scope.

Lemma subset_lor a b : subset_bits a (Z.lor a b).
Proof.
  unfold subset_bits. apply Z.bits_inj'. intros n Hn.
  rewrite Z.land_spec, Z.lor_spec. destruct (Z.testbit a n); reflexivity.
Qed.

Lemma b2z_1 b : b2z b = 1 <-> b = true.  Proof. destruct b; cbn; split; congruence. Qed.
Lemma b2z_01 b : b2z b = 0 \/ b2z b = 1.  Proof. destruct b; cbn; auto. Qed.

(* verdict 1: accepted from entry word fin with exit word fout  iff  some flag set fl with (outs, fl) accepted
   status-free and fout = fin OR fl *)
Lemma judge_acc_1 e : forall fin outs fout,
  judge e fin outs fout = 1 <-> exists fl, acc e outs fl = 1 /\ fout = Z.lor fin fl.
Proof.
  induction e as [l | p fls | id req IHreq rec IHrec]; intros fin outs fout; cbn [judge acc].
  - rewrite b2z_1, existsb_exists. split.
    + intros [o [Hin Ho]]. apply andb_true_iff in Ho. destruct Ho as [Hl Hf]. apply Z.eqb_eq in Hf.
      exists (snd o). split; [|symmetry; exact Hf].
      apply b2z_1, existsb_exists. exists o. split; [exact Hin|]. rewrite Hl, Z.eqb_refl. reflexivity.
    + intros [fl [Ha Hw]]. apply b2z_1, existsb_exists in Ha. destruct Ha as [o [Hin Ho]].
      apply andb_true_iff in Ho. destruct Ho as [Hl Hf]. apply Z.eqb_eq in Hf.
      exists o. split; [exact Hin|]. rewrite Hl, Hf, Hw, Z.eqb_refl. reflexivity.
  - rewrite b2z_1, andb_true_iff, existsb_exists. split.
    + intros [Hp [f0 [Hin Hf]]]. apply Z.eqb_eq in Hf. exists f0. split; [|symmetry; exact Hf].
      apply b2z_1, andb_true_iff. split; [exact Hp|]. apply existsb_exists. exists f0. split; [exact Hin|apply Z.eqb_refl].
    + intros [fl [Ha Hw]]. apply b2z_1, andb_true_iff in Ha. destruct Ha as [Hp He].
      apply existsb_exists in He. destruct He as [f0 [Hin Hf]]. apply Z.eqb_eq in Hf.
      split; [exact Hp|]. exists f0. split; [exact Hin|]. rewrite Hf, Hw. apply Z.eqb_refl.
  - split.
    + intro H. destruct (judge req fin outs fout =? 1) eqn:E1.
      * apply Z.eqb_eq, IHreq in E1. destruct E1 as [fl [Ha Hw]]. exists fl. rewrite Ha, Z.eqb_refl. split; [reflexivity|exact Hw].
      * destruct (judge rec fin outs fout =? 1); lia.
    + intros [fl [Ha Hw]]. destruct (acc req outs fl =? 1) eqn:E1.
      * apply Z.eqb_eq in E1. assert (J : judge req fin outs fout = 1) by (apply IHreq; exists fl; split; assumption).
        rewrite J, Z.eqb_refl. reflexivity.
      * destruct (acc rec outs fl =? 1); lia.
Qed.

(* accepted at all (verdict 1 or a recorded known finding) *)
Theorem judge_acc e fin outs fout :
  judge e fin outs fout <> 0 <-> exists fl, acc e outs fl <> 0 /\ fout = Z.lor fin fl.
Proof.
  destruct e as [l | p fls | id req rec].
  - pose proof (judge_acc_1 (Exact l) fin outs fout) as H. cbn [judge acc] in *.
    split.
    + intro Hn. destruct (b2z_01 (existsb (fun o => list_eqb (fst o) outs && (Z.lor fin (snd o) =? fout)) l)) as [E|E]; [congruence|].
      apply H in E. destruct E as [fl [Ha Hw]]. exists fl. split; [rewrite Ha; discriminate|exact Hw].
    + intros [fl [Ha Hw]]. destruct (b2z_01 (existsb (fun o => list_eqb (fst o) outs && (snd o =? fl)) l)) as [E|E]; [congruence|].
      assert (J : b2z (existsb (fun o => list_eqb (fst o) outs && (Z.lor fin (snd o) =? fout)) l) = 1) by (apply H; exists fl; split; assumption).
      rewrite J. discriminate.
  - pose proof (judge_acc_1 (Pred p fls) fin outs fout) as H. cbn [judge acc] in *.
    split.
    + intro Hn. destruct (b2z_01 (p outs && existsb (fun fl => Z.lor fin fl =? fout) fls)) as [E|E]; [congruence|].
      apply H in E. destruct E as [fl [Ha Hw]]. exists fl. split; [rewrite Ha; discriminate|exact Hw].
    + intros [fl [Ha Hw]]. destruct (b2z_01 (p outs && existsb (fun f => f =? fl) fls)) as [E|E]; [congruence|].
      assert (J : b2z (p outs && existsb (fun fl => Z.lor fin fl =? fout) fls) = 1) by (apply H; exists fl; split; assumption).
      rewrite J. discriminate.
  - cbn [judge acc]. split.
    + intro Hn. destruct (judge req fin outs fout =? 1) eqn:E1.
      * apply Z.eqb_eq, judge_acc_1 in E1. destruct E1 as [fl [Ha Hw]]. exists fl. rewrite Ha, Z.eqb_refl. split; [discriminate|exact Hw].
      * destruct (judge rec fin outs fout =? 1) eqn:E2; [|congruence].
        apply Z.eqb_eq, judge_acc_1 in E2. destruct E2 as [fl [Ha Hw]]. exists fl. split; [|exact Hw].
        destruct (acc req outs fl =? 1); [discriminate|]. rewrite Ha, Z.eqb_refl. lia.
    + intros [fl [Ha Hw]]. destruct (acc req outs fl =? 1) eqn:E1.
      * apply Z.eqb_eq in E1. assert (J : judge req fin outs fout = 1) by (apply judge_acc_1; exists fl; split; assumption).
        rewrite J, Z.eqb_refl. discriminate.
      * destruct (acc rec outs fl =? 1) eqn:E2; [|congruence].
        apply Z.eqb_eq in E2. assert (J : judge rec fin outs fout = 1) by (apply judge_acc_1; exists fl; split; assumption).
        rewrite J, Z.eqb_refl. destruct (judge req fin outs fout =? 1); lia.
Qed.

(* C14, first sentence: bits set before the call are still set after it *)
Theorem accepted_monotone e fin outs fout : judge e fin outs fout <> 0 -> subset_bits fin fout.
Proof. intro H. apply judge_acc in H. destruct H as [fl [_ Hw]]. subst fout. apply subset_lor. Qed.

(* C14, second sentence: values and newly raised bits accepted from one entry word are accepted from every other one *)
Theorem accepted_history_free e fin outs fout :
  judge e fin outs fout <> 0 ->
  exists fl, fout = Z.lor fin fl /\ forall fin', judge e fin' outs (Z.lor fin' fl) <> 0.
Proof.
  intro H. apply judge_acc in H. destruct H as [fl [Ha Hw]]. exists fl. split; [exact Hw|].
  intro fin'. apply judge_acc. exists fl. split; [exact Ha|reflexivity].
Qed.

(* sequences sharing one status word *)
Lemma union_bits_from a l : fold_left Z.lor l a = Z.lor a (union_bits l).
Proof.
  unfold union_bits. revert a. induction l as [|x l IH]; intro a; cbn [fold_left].
  - rewrite Z.lor_0_r. reflexivity.
  - rewrite IH, (IH (Z.lor 0 x)), Z.lor_0_l, Z.lor_assoc. reflexivity.
Qed.

Fixpoint final_of (st : Z) (h : list (call * obs)) : Z :=
  match h with [] => st | (_, o) :: r => final_of (o_word o) r end.

(* the final word of an accepted history is the entry word OR the union of flag sets, one per call, each of which the
   call raises from a clear word (is accepted status-free); and every prefix obeys the same law *)
Theorem run_union : forall h st, run_accepted st h = true ->
  exists fls, length fls = length h /\
    Forall2 (fun co fl => acc (c_expect (fst co)) (o_outs (snd co)) fl <> 0) h fls /\
    final_of st h = Z.lor st (union_bits fls).
Proof.
  induction h as [|[c o] r IH]; intros st Hr; cbn [run_accepted final_of] in *.
  - exists []. split; [reflexivity|]. split; [constructor|]. unfold union_bits. cbn. rewrite Z.lor_0_r. reflexivity.
  - apply andb_true_iff in Hr. destruct Hr as [Hj Hr]. apply negb_true_iff, Z.eqb_neq in Hj.
    apply judge_acc in Hj. destruct Hj as [fl [Ha Hw]].
    destruct (IH _ Hr) as [fls [Hlen [Hall Hfin]]].
    exists (fl :: fls). split; [cbn; congruence|]. split; [constructor; assumption|].
    rewrite Hfin, Hw. unfold union_bits at 2. cbn [fold_left]. rewrite Z.lor_0_l, (union_bits_from fl fls), Z.lor_assoc. reflexivity.
Qed.

(* the same calls with the same returned values are accepted from any other entry word, the words being shifted accordingly *)
Fixpoint reword (st : Z) (h : list (call * obs)) (fls : list Z) : list (call * obs) :=
  match h, fls with
  | (c, o) :: r, fl :: fr => (c, mkobs (o_outs o) (Z.lor st fl)) :: reword (Z.lor st fl) r fr
  | _, _ => []
  end.

Theorem run_history_free : forall h st, run_accepted st h = true ->
  exists fls, length fls = length h /\ forall st', run_accepted st' (reword st' h fls) = true /\
                                                   final_of st' (reword st' h fls) = Z.lor st' (union_bits fls).
Proof.
  induction h as [|[c o] r IH]; intros st Hr; cbn [run_accepted] in *.
  - exists []. split; [reflexivity|]. intro st'. cbn. unfold union_bits. cbn. rewrite Z.lor_0_r. auto.
  - apply andb_true_iff in Hr. destruct Hr as [Hj Hr]. apply negb_true_iff, Z.eqb_neq in Hj.
    apply judge_acc in Hj. destruct Hj as [fl [Ha Hw]].
    destruct (IH _ Hr) as [fls [Hlen Hall]].
    exists (fl :: fls). split; [cbn; congruence|]. intro st'.
    destruct (Hall (Z.lor st' fl)) as [H1 H2].
    cbn [reword run_accepted final_of o_outs o_word fst snd]. split.
    + apply andb_true_iff. split; [|exact H1]. apply negb_true_iff, Z.eqb_neq, judge_acc. exists fl. split; [exact Ha|reflexivity].
    + rewrite H2. unfold union_bits at 2. cbn [fold_left]. rewrite Z.lor_0_l, (union_bits_from fl fls), Z.lor_assoc. reflexivity.
Qed.

(* non-vacuity: a three-call history sharing one word: 1/3 (inexact), then 0/0 (invalid), then 1E-6170 * 1E-30 (underflow, inexact) *)
Definition ex_one := encode (Fin false 1 0).
Definition ex_three := encode (Fin false 3 0).
Definition ex_zero := encode (Fin false 0 0).
Definition ex_tiny := encode (Fin false 1 (-6170)).
Definition ex_small := encode (Fin false 1 (-30)).
Definition ex_history : list (call * obs) :=
  [ (mkcall ODiv RNE [ex_one; ex_three], mkobs [encode (Fin false 3333333333333333333333333333333333 (-34))] 32);
    (mkcall ODiv RNE [ex_zero; ex_zero], mkobs [encode QNAN] 33);
    (mkcall OMul RNE [ex_tiny; ex_small], mkobs [encode (Fin false 0 (-6176))] 49) ].
Example ex_history_accepted : run_accepted 0 ex_history = true /\ final_of 0 ex_history = 49.
Proof. vm_compute. split; reflexivity. Qed.
