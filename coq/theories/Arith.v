(* Layer M, finite-operand level: exact integer computation followed by one round_pack.
   Definitions only (proofs in ArithProofs.v), so the model still runs when a proof breaks. *)
From Coq Require Import ZArith Reals Lia Bool.
From Flocq Require Import Core.Core Calc.Bracket Calc.Round Calc.Div Calc.Sqrt.
From DV Require Import Base.
Open Scope Z_scope.

(* A non-zero magnitude below 10^-6177 is handed to round_pack as (0, -6176, Inexact Lt): another valid
   location of the same real, without ever forming 10^6000 (shortcut_ok). *)
Definition shortcut (c e:Z) (l:location) : Z * Z * location :=
  if (Zdigits radix10 c + e <=? -6177) && negb ((c =? 0) && is_exact l)
  then (0, -6176, loc_Inexact Lt) else (c, e, l).

Definition rp (md:rmode) (s:bool) (c e:Z) (l:location) (pref:Z) (zs:bool) : dec * flags :=
  let '(c', e', l') := shortcut c e l in round_pack md s c' e' l' pref zs.

Definition sval (s:bool) (c:Z) : Z := cond_Zopp s c.

(* sign of an exact zero sum (IEEE 754-2008 6.3) *)
Definition zs_add (md:rmode) (sx sy:bool) : bool :=
  if Bool.eqb sx sy then sx else match md with RDN => true | _ => false end.

(* exact path: both operands brought to the smaller exponent *)
Definition add_fin (md:rmode) (sx:bool) (cx qx:Z) (sy:bool) (cy qy:Z) : dec * flags :=
  let q := Z.min qx qy in
  let v := sval sx cx * 10 ^ (qx - q) + sval sy cy * 10 ^ (qy - q) in
  rp md (v <? 0) (Z.abs v) q loc_Exact q (zs_add md sx sy).

(* far-apart operands (the small one below 10^70 and more than 120 exponents lower): it only leaves a sticky trace *)
Definition add_far (md:rmode) (sx:bool) (cx qx:Z) (sy:bool) (qy:Z) (zs:bool) : dec * flags :=
  let e' := qx - 40 in let C := cx * 10 ^ 40 in
  if Bool.eqb sx sy then rp md sx C e' (loc_Inexact Lt) (Z.min qx qy) zs
  else rp md sx (C - 1) e' (loc_Inexact Gt) (Z.min qx qy) zs.

Definition FARGAP := 120.

(* x + y for sign/magnitude/exponent triples with 0 <= cx, cy < 10^70 *)
Definition add_gen (md:rmode) (sx:bool) (cx qx:Z) (sy:bool) (cy qy:Z) : dec * flags :=
  let pref := Z.min qx qy in
  let zs := zs_add md sx sy in
  if (cx =? 0) && (cy =? 0) then rp md zs 0 pref loc_Exact pref zs
  else if cx =? 0 then rp md sy cy qy loc_Exact pref zs
  else if cy =? 0 then rp md sx cx qx loc_Exact pref zs
  else if Z.abs (qx - qy) <=? FARGAP then add_fin md sx cx qx sy cy qy
  else if qy <? qx then add_far md sx cx qx sy qy zs
  else add_far md sy cy qy sx qx zs.

Definition mul_fin (md:rmode) (sx:bool) (cx qx:Z) (sy:bool) (cy qy:Z) : dec * flags :=
  rp md (xorb sx sy) (cx * cy) (qx + qy) loc_Exact (qx + qy) (xorb sx sy).

Definition fma_fin (md:rmode) (sx:bool) (cx qx:Z) (sy:bool) (cy qy:Z) (sz:bool) (cz qz:Z) : dec * flags :=
  add_gen md (xorb sx sy) (cx * cy) (qx + qy) sz cz qz.

(* 0 < cx, 0 < cy *)
Definition div_fin (md:rmode) (sx:bool) (cx qx:Z) (sy:bool) (cy qy:Z) : dec * flags :=
  let '(m, e, l) := Fdiv fexp (Float radix10 cx qx) (Float radix10 cy qy) in
  rp md (xorb sx sy) m e l (qx - qy) (xorb sx sy).

(* 0 < cx *)
Definition sqrt_fin (md:rmode) (cx qx:Z) : dec * flags :=
  let '(m, e, l) := Fsqrt fexp (Float radix10 cx qx) in
  rp md false m e l (Z.div2 qx) false.

(* scaleb: c * 10^(q+n) exactly, preferred exponent q+n *)
Definition scale_fin (md:rmode) (s:bool) (c q n:Z) : dec * flags :=
  rp md s c (q + n) loc_Exact (q + n) s.
