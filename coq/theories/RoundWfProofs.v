(* Well-formedness of everything round_pack / rp returns, by integer reasoning only (no real numbers): the result of
   every round_pack based operation is a finite datum with 0 <= c < 10^34, -6176 <= q <= 6111, or an infinity.
   This is weaker than round_pack_correct (RoundProofs.v) but closed under the global context, which keeps the
   "results are canonical" and "invalid only when required" theorems axiom-free. *)
From Coq Require Import ZArith Lia Bool List.
From Flocq Require Import Core.Zaux Core.Digits Core.Defs Core.FLT Calc.Bracket Calc.Round Calc.Div Calc.Sqrt.
From DV Require Import Base Bid BidProofs Arith.
Open Scope Z_scope.

Lemma fexp_val x : fexp x = Z.max (x - 34) (-6176).
Proof. reflexivity. Qed.

Lemma lt_pow34_of_digits m : 0 <= m -> Zdigits radix10 m <= 34 -> m < 10 ^ 34.
Proof.
  intros Hm Hd. pose proof (Zpower_gt_Zdigits radix10 34 m Hd) as H. rewrite Z.abs_eq in H by exact Hm. exact H.
Qed.

Lemma truncate_wf m e l : 0 <= m ->
  let '(m1, e1, _) := truncate radix10 fexp (m, e, l) in 0 <= m1 < 10 ^ 34 /\ -6176 <= e1.
Proof.
  intros Hm. unfold truncate. rewrite fexp_val.
  set (k := Z.max (Zdigits radix10 m + e - 34) (-6176) - e).
  destruct (Z.ltb_spec 0 k) as [K|K].
  - unfold truncate_aux.
    assert (P : 0 < Zpower radix10 k) by (apply Zpower_gt_0; lia).
    split; [split|unfold k in *; lia].
    + apply Z.div_pos; [exact Hm|exact P].
    + destruct (Z_le_gt_dec k (Zdigits radix10 m)) as [L|L].
      * apply lt_pow34_of_digits; [apply Z.div_pos; [exact Hm|exact P]|].
        rewrite Zdigits_div_Zpower by lia. unfold k in *. lia.
      * assert (m < Zpower radix10 k).
        { pose proof (Zpower_gt_Zdigits radix10 k m ltac:(lia)) as H. rewrite Z.abs_eq in H by exact Hm. exact H. }
        rewrite Z.div_small by lia. reflexivity.
  - split; [split; [exact Hm|]|unfold k in *; lia]. apply lt_pow34_of_digits; [exact Hm|unfold k in *; lia].
Qed.

Lemma choice_bounds' md s c l : c <= choice md s c l <= c + 1.
Proof. destruct md; unfold choice, cond_incr; try destruct (round_N _ _); try destruct (round_sign_DN _ _); try destruct (round_sign_UP _ _); lia. Qed.

Lemma strip_wf fuel : forall c q pref, 0 <= c < 10 ^ 34 -> -6176 <= q <= qmax ->
  let '(c', q') := strip fuel c q pref in 0 <= c' < 10 ^ 34 /\ -6176 <= q' <= qmax.
Proof.
  induction fuel as [|f IH]; intros c q pref Hc Hq; cbn [strip]; [tauto|].
  destruct ((q <? pref) && (c mod 10 =? 0) && (q <? qmax)) eqn:E; [|tauto].
  apply andb_true_iff in E. destruct E as [_ E]. apply Z.ltb_lt in E.
  apply IH; [|lia]. split; [apply Z.div_pos; lia|]. apply Z.div_lt_upper_bound; lia.
Qed.

Definition wf_num (d:dec) : Prop := wf d /\ is_nan d = false.

Lemma overflow_result_wf md s : wf_num (overflow_result md s).
Proof.
  unfold overflow_result, wf_num. destruct (to_inf md s); cbn [wf is_nan]; [tauto|].
  unfold MAXC, qmax. change (10 ^ 34) with T34. unfold T34. lia.
Qed.

Theorem round_pack_wf md s c e l pref zs : 0 <= c -> wf_num (fst (round_pack md s c e l pref zs)).
Proof.
  intros Hc. unfold round_pack.
  destruct ((c =? 0) && is_exact l).
  { cbn [fst]. split; [|reflexivity]. cbn [wf]. unfold qmin, qmax, T34. lia. }
  cbv zeta.
  set (t0 := if is_exact l && (fexp (Zdigits radix10 c + e) <? e)
             then (c * 10 ^ (e - fexp (Zdigits radix10 c + e)), fexp (Zdigits radix10 c + e), l) else (c, e, l)).
  assert (H0 : 0 <= fst (fst t0)).
  { unfold t0. destruct (is_exact l && _) eqn:E; cbn [fst]; [|exact Hc].
    apply andb_true_iff in E. destruct E as [_ E]. apply Z.ltb_lt in E.
    apply Z.mul_nonneg_nonneg; [exact Hc|apply Z.pow_nonneg; lia]. }
  clearbody t0. destruct t0 as [[m0 e0] l0]. cbn [fst] in H0.
  pose proof (truncate_wf m0 e0 l0 H0) as T. destruct (truncate radix10 fexp (m0, e0, l0)) as [[c1 e1] l1].
  destruct T as [T1 T2].
  pose proof (choice_bounds' md s c1 l1) as CB.
  set (c2 := choice md s c1 l1) in *. clearbody c2.
  assert (H3 : let '(c3, e3) := if c2 =? 10 ^ 34 then (10 ^ 33, e1 + 1) else (c2, e1) in 0 <= c3 < 10 ^ 34 /\ -6176 <= e3).
  { destruct (Z.eqb_spec c2 (10 ^ 34)); [|lia]. split; [|lia]. change (10 ^ 33) with T33. change (10 ^ 34) with T34. unfold T33, T34. lia. }
  destruct (if c2 =? 10 ^ 34 then (10 ^ 33, e1 + 1) else (c2, e1)) as [c3 e3]. destruct H3 as [H3 H4].
  destruct (Z.gtb_spec e3 qmax) as [G|G]; [apply overflow_result_wf|].
  destruct (negb (is_exact l1)).
  - cbn [fst]. split; [|reflexivity]. cbn [wf]. change T34 with (10 ^ 34). unfold qmax in G. lia.
  - pose proof (strip_wf 40 c3 e3 pref H3 ltac:(lia)) as S. destruct (strip 40 c3 e3 pref) as [c4 e4].
    cbn [fst]. split; [|reflexivity]. cbn [wf]. change T34 with (10 ^ 34). unfold qmax in S. lia.
Qed.

Theorem rp_wf md s c e l pref zs : 0 <= c -> wf_num (fst (rp md s c e l pref zs)).
Proof.
  intros Hc. unfold rp, shortcut.
  destruct ((Zdigits radix10 c + e <=? -6177) && negb ((c =? 0) && is_exact l)); apply round_pack_wf; lia.
Qed.

(* ---------- the finite-operand operations ---------- *)
Theorem add_gen_wf md sx cx qx sy cy qy : 0 <= cx -> 0 <= cy -> wf_num (fst (add_gen md sx cx qx sy cy qy)).
Proof.
  intros Hx Hy. unfold add_gen.
  destruct (Z.eqb_spec cx 0) as [Zx|Zx]; destruct (Z.eqb_spec cy 0) as [Zy|Zy]; cbn [andb]; try (apply rp_wf; lia).
  assert (P : 0 < 10 ^ 40) by reflexivity.
  destruct (Z.abs (qx - qy) <=? FARGAP).
  - unfold add_fin. apply rp_wf. apply Z.abs_nonneg.
  - destruct (qy <? qx); unfold add_far; destruct (Bool.eqb _ _); apply rp_wf; nia.
Qed.

Theorem mul_fin_wf md sx cx qx sy cy qy : 0 <= cx -> 0 <= cy -> wf_num (fst (mul_fin md sx cx qx sy cy qy)).
Proof. intros Hx Hy. unfold mul_fin. apply rp_wf. apply Z.mul_nonneg_nonneg; assumption. Qed.

Theorem fma_fin_wf md sx cx qx sy cy qy sz cz qz : 0 <= cx -> 0 <= cy -> 0 <= cz ->
  wf_num (fst (fma_fin md sx cx qx sy cy qy sz cz qz)).
Proof. intros Hx Hy Hz. unfold fma_fin. apply add_gen_wf; [apply Z.mul_nonneg_nonneg; assumption|exact Hz]. Qed.

Theorem div_fin_wf md sx cx qx sy cy qy : 0 <= cx -> 0 < cy -> wf_num (fst (div_fin md sx cx qx sy cy qy)).
Proof.
  intros Hx Hy. unfold div_fin, Fdiv, Fdiv_core. cbv zeta.
  set (e := Z.min _ _). clearbody e.
  set (ab := if e <=? qx - qy then (cx * Zpower radix10 (qx - qy - e), cy) else (cx, cy * Zpower radix10 (e - (qx - qy)))).
  assert (H : 0 <= fst ab /\ 0 < snd ab).
  { unfold ab. destruct (Z.leb_spec e (qx - qy)); cbn [fst snd].
    - split; [apply Z.mul_nonneg_nonneg; [exact Hx|apply Zpower_ge_0]|exact Hy].
    - split; [exact Hx|apply Z.mul_pos_pos; [exact Hy|apply Zpower_gt_0; lia]]. }
  clearbody ab. destruct ab as [a b]. cbn [fst snd] in H.
  assert (Q : 0 <= fst (Z.div_eucl a b)).
  { change (fst (Z.div_eucl a b)) with (a / b). apply Z.div_pos; lia. }
  destruct (Z.div_eucl a b) as [q r]. cbn [fst] in Q. apply rp_wf. exact Q.
Qed.

Theorem sqrt_fin_wf md cx qx : wf_num (fst (sqrt_fin md cx qx)).
Proof.
  unfold sqrt_fin, Fsqrt, Fsqrt_core. cbv zeta.
  set (e := Z.min _ _). clearbody e. set (m := cx * Zpower radix10 (qx - 2 * e)). clearbody m.
  pose proof (Z.sqrtrem_spec m) as S. pose proof (Z.sqrt_nonneg m) as N. rewrite <- (Z.sqrtrem_sqrt m) in N.
  destruct (Z.sqrtrem m) as [q r]. cbn [fst] in N. apply rp_wf. exact N.
Qed.

Theorem scale_fin_wf md s c q n : 0 <= c -> wf_num (fst (scale_fin md s c q n)).
Proof. intros Hc. unfold scale_fin. apply rp_wf. exact Hc. Qed.
