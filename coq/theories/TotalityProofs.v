(* C15, model-level half: the specification [expected] (Judge.v) is total and demands a returned value.
   For every operation and every argument list on which [expected] is defined, some (outputs, flags) pair is accepted
   outright, and an empty output list (the observable form of "no answer") is never accepted. Axiom-free.
   Nothing here says anything about the Rust code. *)
From Coq Require Import ZArith Bool List Lia.
From DV Require Import Base Bid BidProofs Arith OpsArith OpsCmp OpsMisc OpsConv OpsStr Judge Status StatusProofs StrProofs.
Import ListNotations.
Open Scope Z_scope.

(* ---------- the notions ---------- *)

(* some behaviour is accepted outright (verdict 1, not merely as a recorded known finding) *)
Definition satisfiable (e : expect) : Prop := exists outs fl, acc e outs fl = 1.

(* every behaviour that is accepted at all (verdict 1 or a known finding) returns at least one value *)
Definition never_empty (e : expect) : Prop := forall outs fl, acc e outs fl <> 0 -> outs <> [].

Theorem satisfiable_judge e : satisfiable e -> forall fin, exists outs fout, judge e fin outs fout = 1.
Proof.
  intros [outs [fl H]] fin. exists outs, (Z.lor fin fl). apply judge_acc_1. exists fl. split; [exact H|reflexivity].
Qed.

Theorem never_empty_judge e : never_empty e -> forall fin fout, judge e fin [] fout = 0.
Proof.
  intros H fin fout. destruct (Z.eq_dec (judge e fin [] fout) 0) as [E|E]; [exact E|].
  apply judge_acc in E. destruct E as [fl [Ha _]]. exfalso. exact (H [] fl Ha eq_refl).
Qed.

(* ---------- lists of outcomes: non-empty, every outcome has exactly n output values ---------- *)
Definition goodn (n : nat) (l : list outcome) : Prop := l <> [] /\ Forall (fun o => length (fst o) = n) l.

Lemma list_eqb_refl l : list_eqb l l = true.
Proof. induction l as [|a l IH]; cbn [list_eqb]; [reflexivity|]. rewrite Z.eqb_refl, IH. reflexivity. Qed.

Lemma list_eqb_eq : forall a b, list_eqb a b = true -> a = b.
Proof.
  induction a as [|x a IH]; intros [|y b] H; cbn [list_eqb] in H; try discriminate; [reflexivity|].
  apply andb_true_iff in H. destruct H as [H1 H2]. apply Z.eqb_eq in H1. rewrite H1, (IH b H2). reflexivity.
Qed.

Lemma exact_satisfiable l : l <> [] -> satisfiable (Exact l).
Proof.
  destruct l as [|o l]; [congruence|]. intros _. exists (fst o), (snd o). cbn [acc existsb].
  rewrite list_eqb_refl, Z.eqb_refl. reflexivity.
Qed.

Lemma exact_satisfiable_inv l : satisfiable (Exact l) -> l <> [].
Proof. intros [outs [fl H]] ->. cbn in H. discriminate. Qed.

Lemma exact_never_empty n l : (0 < n)%nat -> Forall (fun o => length (fst o) = n) l -> never_empty (Exact l).
Proof.
  intros Hn Hall outs fl Ha ->. cbn [acc] in Ha.
  destruct (existsb (fun o => list_eqb (fst o) [] && (snd o =? fl)) l) eqn:E; [|cbn in Ha; congruence].
  apply existsb_exists in E. destruct E as [o [Hin Ho]]. apply andb_true_iff in Ho. destruct Ho as [Hl _].
  apply list_eqb_eq in Hl. rewrite Forall_forall in Hall. specialize (Hall o Hin). rewrite Hl in Hall. cbn in Hall. lia.
Qed.

Definition good_expect (e : expect) : Prop := satisfiable e /\ never_empty e.

Lemma good_exact n l : (0 < n)%nat -> goodn n l -> good_expect (Exact l).
Proof. intros Hn [H1 H2]. split; [apply exact_satisfiable; exact H1|apply (exact_never_empty n); assumption]. Qed.

Lemma good_pred p f w : p w = true -> p [] = false -> good_expect (Pred p [f]).
Proof.
  intros Hw Hnil. split.
  - exists w, f. cbn [acc existsb]. rewrite Hw, Z.eqb_refl. reflexivity.
  - intros outs fl Ha ->. cbn [acc] in Ha. rewrite Hnil in Ha. cbn in Ha. congruence.
Qed.

Lemma good_pred_cons p f fls w : p w = true -> p [] = false -> good_expect (Pred p (f :: fls)).
Proof.
  intros Hw Hnil. split.
  - exists w, f. cbn [acc existsb]. rewrite Hw, Z.eqb_refl. reflexivity.
  - intros outs fl Ha ->. cbn [acc] in Ha. rewrite Hnil in Ha. cbn in Ha. congruence.
Qed.

Lemma good_known id req rec : good_expect req -> never_empty rec -> good_expect (Known id req rec).
Proof.
  intros [[outs [fl Hs]] Hn] Hr. split.
  - exists outs, fl. cbn [acc]. rewrite Hs, Z.eqb_refl. reflexivity.
  - intros o f Ha. cbn [acc] in Ha. destruct (acc req o f =? 1) eqn:E1.
    + apply Z.eqb_eq in E1. apply (Hn o f). rewrite E1. discriminate.
    + destruct (acc rec o f =? 1) eqn:E2; [|congruence]. apply Z.eqb_eq in E2. apply (Hr o f). rewrite E2. discriminate.
Qed.

(* ---------- building blocks ---------- *)
Lemma goodn_lit n (l : list outcome) : l <> [] -> Forall (fun o => length (fst o) = n) l -> goodn n l.
Proof. intros; split; assumption. Qed.

Lemma goodn_out1 d fl : goodn 1 (out1 d fl).
Proof. split; [discriminate|]. constructor; [reflexivity|constructor]. Qed.
Lemma goodn_fin_out r : goodn 1 (fin_out r).
Proof. apply goodn_out1. Qed.
Lemma goodn_invalid : goodn 1 invalid_out.
Proof. apply goodn_out1. Qed.

Lemma goodn_nan ds : existsb is_nan ds = true -> goodn 1 (nan_outcomes ds).
Proof.
  intros H. unfold nan_outcomes. split.
  - apply existsb_exists in H. destruct H as [d [Hin Hd]].
    assert (Hf : In d (filter is_nan ds)) by (apply filter_In; split; assumption).
    destruct (filter is_nan ds) as [|a r]; [contradiction|]. cbn [map]. discriminate.
  - apply Forall_forall. intros o Ho. apply in_map_iff in Ho. destruct Ho as [d [<- _]]. reflexivity.
Qed.

Lemma goodn_map n m (f : outcome -> outcome) l :
  (forall o, length (fst o) = n -> length (fst (f o)) = m) -> goodn n l -> goodn m (map f l).
Proof.
  intros Hf [H1 H2]. split.
  - destruct l; [congruence|]. cbn [map]. discriminate.
  - apply Forall_forall. intros o Ho. apply in_map_iff in Ho. destruct Ho as [o' [<- Hin]].
    apply Hf. rewrite Forall_forall in H2. apply H2. exact Hin.
Qed.

(* one step of case analysis on the head of the list expression *)
Ltac brk_step :=
  cbv beta iota zeta;
  cbn [is_nan is_snan is_inf is_zero is_fin sign_of orb andb negb fst snd];
  match goal with
  | |- ?P (if ?b then _ else _) => destruct b
  | |- ?P (match ?d with _ => _ end) => destruct d
  end.
Ltac leaf :=
  cbv beta iota zeta;
  first [ apply goodn_out1 | apply goodn_fin_out | apply goodn_invalid
        | apply goodn_nan; reflexivity
        | apply goodn_lit; [discriminate | repeat (constructor; [reflexivity|]); constructor ] ].
Ltac brk := repeat brk_step; leaf.

(* ---------- the arithmetic operations (any integers as operand patterns) ---------- *)
Lemma goodn_add_dec md dx dy : goodn 1 (add_dec md dx dy).
Proof. unfold add_dec. destruct dx, dy; brk. Qed.
Lemma goodn_add md x y : goodn 1 (m_add md x y).
Proof. apply goodn_add_dec. Qed.
Lemma goodn_sub md x y : goodn 1 (m_sub md x y).
Proof. apply goodn_add_dec. Qed.
Lemma goodn_mul md x y : goodn 1 (m_mul md x y).
Proof. unfold m_mul. destruct (decode x), (decode y); brk. Qed.
Lemma goodn_div md x y : goodn 1 (m_div md x y).
Proof. unfold m_div. destruct (decode x), (decode y); brk. Qed.
Lemma goodn_sqrt md x : goodn 1 (m_sqrt md x).
Proof. unfold m_sqrt. destruct (decode x); brk. Qed.
Lemma goodn_fma md x y z : goodn 1 (m_fma md x y z).
Proof. unfold m_fma. destruct (decode x), (decode y), (decode z); brk. Qed.
Lemma goodn_quantize md x y : goodn 1 (m_quantize md x y).
Proof. unfold m_quantize. destruct (decode x), (decode y); brk. Qed.
Lemma goodn_rem b x y : goodn 1 (rem_dec b x y).
Proof. unfold rem_dec. destruct (decode x), (decode y); brk. Qed.
Lemma goodn_rint md si x : goodn 1 (rint_dec md si x).
Proof. unfold rint_dec. destruct (decode x); brk. Qed.
Lemma goodn_fdim md x y : goodn 1 (m_fdim md x y).
Proof.
  unfold m_fdim. destruct (decode x), (decode y); cbn [is_nan orb]; try (apply goodn_nan; reflexivity);
  match goal with |- goodn 1 (match ?r with _ => _ end) => destruct r end;
  first [apply goodn_sub | apply goodn_out1].
Qed.
Lemma goodn_modf x : goodn 2 (m_modf x).
Proof.
  unfold m_modf. destruct (decode x); cbn [is_nan];
  try (apply (goodn_map 1 2); [intros o Ho; cbn [fst]; rewrite app_length, Ho; reflexivity | apply goodn_nan; reflexivity]);
  brk.
Qed.
Lemma goodn_next_up x : goodn 1 (m_next_up x).
Proof. unfold m_next_up. destruct (decode x); brk. Qed.
Lemma goodn_next_down x : goodn 1 (m_next_down x).
Proof. unfold m_next_down. destruct (decode x); brk. Qed.
Lemma goodn_next_after x y : goodn 1 (m_next_after x y).
Proof. unfold m_next_after. destruct (decode x), (decode y); brk. Qed.
Lemma goodn_minmax k x y : goodn 1 (m_minmax k x y).
Proof. unfold m_minmax. destruct (decode x), (decode y); brk. Qed.
Lemma goodn_scaleb md x n : goodn 1 (m_scaleb md x n).
Proof. unfold m_scaleb. destruct (decode x); brk. Qed.
Lemma goodn_logb x : goodn 1 (m_logb x).
Proof. unfold m_logb. destruct (decode x); brk. Qed.
Lemma goodn_ilogb x : goodn 1 (m_ilogb x).
Proof. unfold m_ilogb. destruct (decode x); brk. Qed.
Lemma goodn_quantexp x : goodn 1 (m_quantexp x).
Proof. unfold m_quantexp. destruct (decode x); brk. Qed.
Lemma goodn_llquantexp x : goodn 1 (m_llquantexp x).
Proof. unfold m_llquantexp. destruct (decode x); brk. Qed.
Lemma goodn_same_quantum x y : goodn 1 (m_same_quantum x y).
Proof. unfold m_same_quantum. leaf. Qed.
Lemma goodn_total_order x y : goodn 1 (m_total_order x y).
Proof. unfold m_total_order. leaf. Qed.
Lemma goodn_total_order_mag x y : goodn 1 (m_total_order_mag x y).
Proof. unfold m_total_order_mag. leaf. Qed.
Lemma goodn_class x : goodn 1 (m_class x).
Proof. unfold m_class. leaf. Qed.
Lemma goodn_isx x : goodn 1 (m_isx x).
Proof. unfold m_isx. leaf. Qed.
Lemma goodn_abs x : goodn 1 (m_abs x).
Proof. unfold m_abs. leaf. Qed.
Lemma goodn_neg x : goodn 1 (m_neg x).
Proof. unfold m_neg. leaf. Qed.
Lemma goodn_copy x : goodn 1 (m_copy x).
Proof. unfold m_copy. leaf. Qed.
Lemma goodn_copysign x y : goodn 1 (m_copysign x y).
Proof. unfold m_copysign. leaf. Qed.
Lemma goodn_encode_dpd x : goodn 1 (m_encode_dpd x).
Proof. unfold m_encode_dpd. leaf. Qed.
Lemma goodn_decode_dpd x : goodn 1 (m_decode_dpd x).
Proof. unfold m_decode_dpd. leaf. Qed.
Lemma goodn_from_int w sg v : goodn 1 (m_from_int w sg v).
Proof. unfold m_from_int. leaf. Qed.
Lemma goodn_to_int w sg m xf x : goodn 1 (m_to_int w sg m xf x).
Proof. unfold m_to_int. destruct (decode x); brk. Qed.
Lemma goodn_cmp x y i : goodn 1 (m_cmp x y i).
Proof. unfold m_cmp. leaf. Qed.
Lemma goodn_ops x y : goodn 1 (m_ops x y).
Proof. unfold m_ops. leaf. Qed.
Lemma goodn_fmt x : goodn 4 (m_fmt x).
Proof. unfold m_fmt. leaf. Qed.
Lemma goodn_hashset x y : goodn 1 [([b2z (m_eq (decode x) (decode y))], 0)].
Proof. leaf. Qed.

(* ---------- conversions from binary floating point ---------- *)
Definition bgood (be : bin_expect) : Prop := match be with BList l => goodn 1 l | BNaN _ _ => True end.
Lemma from_bin_good eb fb md b : bgood (m_from_bin eb fb md b).
Proof. unfold m_from_bin. repeat brk_step; cbn [bgood]; first [exact I | leaf]. Qed.

Lemma qnan_of_sign_witness s : is_canonical_qnan_of_sign s [encode (NaN s false 0)] = true.
Proof. destruct s; vm_compute; reflexivity. Qed.

(* ---------- character sequences ---------- *)
Lemma default_qnan_witness : is_default_qnan [encode QNAN] = true.
Proof. vm_compute. reflexivity. Qed.
Lemma any_nan0_witness : is_any_nan0 [encode QNAN] = true.
Proof. vm_compute. reflexivity. Qed.

Lemma goodn_fromstr_of l : goodn 1 l -> goodn 2 (fromstr_of l).
Proof.
  unfold fromstr_of. apply goodn_map. intros [[|r [|r' t]] fl] Ho; cbn [fst length] in Ho; try discriminate.
  destruct ((fl =? 0) || (fl =? F_INX)); reflexivity.
Qed.
Lemma goodn_zero_flags n l : goodn n l -> goodn n (map (fun oc : outcome => (fst oc, 0)) l).
Proof. apply goodn_map. intros o Ho. exact Ho. Qed.

Definition sgood (se : str_expect) : Prop :=
  match se with SList l | SExpJunk l => goodn 1 l | _ => True end.
Lemma parse_good md l : sgood (m_parse md l).
Proof. unfold m_parse. destruct (lex l); cbn [sgood]; first [exact I | leaf]. Qed.

(* ---------- operator forms, sums and products ---------- *)
Lemma goodn_repeat_out k n l : goodn n l -> goodn (k * n) (repeat_out k l).
Proof.
  unfold repeat_out. apply goodn_map. intros o Ho. cbn [fst].
  induction k as [|k IH]; cbn [repeat concat Nat.mul]; [reflexivity|]. rewrite app_length, Ho, IH. reflexivity.
Qed.

Definition arith_op (o : op) : bool := match o with OAdd | OSub | OMul | ODiv | ORem => true | _ => false end.
Lemma goodn_arith2 o md x y : arith_op o = true -> goodn 1 (arith2 o md x y).
Proof.
  destruct o; cbn [arith_op]; intro H; try discriminate H; cbn [arith2];
  [apply goodn_add | apply goodn_sub | apply goodn_mul | apply goodn_div | apply goodn_rem].
Qed.

Lemma fold_ops_nonempty o : arith_op o = true -> forall args accs, accs <> [] -> fold_ops o accs args <> [].
Proof.
  intros Ho. induction args as [|a r IH]; intros accs Hne; cbn [fold_ops]; [exact Hne|].
  apply IH. destruct accs as [|a0 t]; [congruence|]. cbn [flat_map].
  destruct (goodn_arith2 o RNE a0 a Ho) as [H1 H2].
  destruct (arith2 o RNE a0 a) as [|[outs fl] t']; [congruence|].
  apply Forall_inv in H2. cbn [fst] in H2. destruct outs as [|v outs]; [discriminate H2|].
  cbn [flat_map fst]. discriminate.
Qed.

Lemma goodn_fold o start l : arith_op o = true ->
  goodn 2 (map (fun v => ([v; v], 0)) (fold_ops o [start] l)).
Proof.
  intros Ho. split.
  - pose proof (fold_ops_nonempty o Ho l [start]) as H. destruct (fold_ops o [start] l); [exfalso; apply H; [discriminate|reflexivity]|].
    cbn [map]. discriminate.
  - apply Forall_forall. intros oc Hin. apply in_map_iff in Hin. destruct Hin as [v [<- _]]. reflexivity.
Qed.

(* ---------- the domain of the specification ---------- *)
(* [expected] is defined on (o, args): the operation is one the dispatcher knows and the argument list has its length *)
Definition defined_op (o : op) (args : list Z) : bool :=
  match o, args with
  | (OSqrt | ORint | ONearbyint | ORintFix _ | OModf | OFrexp | ONextUp | ONextDown | OLogb | OIlogb | OQuantexp
     | OLlquantexp | OQuantum | OClass | OIsx | OAbs | ONeg | OCopy | OEncodeDpd | ODecodeDpd | OFromBin _ _ _
     | OFromInt _ _ | OToInt _ _ _ _ | OLrint | OLround | OFmt | OOpNeg | OSerde), [_] => true
  | (OAdd | OSub | OMul | ODiv | OQuantize | ORem | OFmod | OFdim | ONextAfter | OMinMax _ | OScaleb _ | OSameQuantum
     | OTotalOrder | OTotalOrderMag | OCopySign | OOps | OHashEq | OHashSet), [_; _] => true
  | OOpArith o', [_; _] => arith_op o'
  | (OFma | OCmp), [_; _; _] => true
  | (OParse | OFromStr | OFromStr2 | OSum | OProduct | OSerdeDe | ONanTag), _ => true
  | (OConsts | OMacro), [] => true
  | OHashSliceEq, n :: l => hashslice_shape n l        (* 0 <= n and 2n patterns follow *)
  | _, _ => false
  end.

(* the argument shapes the harness produces: operand patterns are 128-bit words, the comparison predicate index is one of
   the twenty, string arguments are byte lists; integer arguments (scaleb's n, from_int's and from_bin's source word, the
   tag characters of d128::nan) are arbitrary; the constants and the macro samples take no argument; hash_slice takes the
   slice length n followed by 2n operand patterns ([defined_op] checks the count) *)
Definition pat (x : Z) : bool := (0 <=? x) && (x <? P128).
Definition byte (b : Z) : bool := (0 <=? b) && (b <? 256).
Definition args_ok (o : op) (args : list Z) : bool :=
  match o, args with
  | OScaleb _, [x; _] => pat x
  | (OFromInt _ _ | OFromBin _ _ _ | ONanTag), _ => true
  | OCmp, [x; y; i] => pat x && pat y && (0 <=? i) && (i <? 20)
  | (OParse | OFromStr | OFromStr2 | OSerdeDe), l => forallb byte l
  | OHashSliceEq, _ :: l => forallb pat l
  | _, l => forallb pat l
  end.
Definition shape_ok (o : op) (args : list Z) : bool := defined_op o args && args_ok o args.

(* the two places where the specification leaves the returned VALUES entirely open (DESIGN 10/C09, 10/C11, section 14:
   frexp of a zero, an infinity or a NaN; quantum of a NaN); there the expectation is [Pred any_out [0]]: any non-empty
   output list, no flag. (An empty output list - "no answer" - is rejected there as everywhere else.) *)
Definition unconstrained (o : op) (args : list Z) : bool :=
  match o, args with
  | OFrexp, [x] => match decode x with Fin _ c _ => c =? 0 | _ => true end
  | OQuantum, [x] => is_nan (decode x)
  | _, _ => false
  end.

(* ---------- expectations, operation by operation ---------- *)
Global Hint Resolve goodn_add goodn_sub goodn_mul goodn_div goodn_sqrt goodn_fma goodn_quantize goodn_rem goodn_rint
  goodn_fdim goodn_modf goodn_next_up goodn_next_down goodn_next_after goodn_minmax goodn_scaleb goodn_logb goodn_ilogb
  goodn_quantexp goodn_llquantexp goodn_same_quantum goodn_total_order goodn_total_order_mag goodn_class goodn_isx
  goodn_abs goodn_neg goodn_copy goodn_copysign goodn_encode_dpd goodn_decode_dpd goodn_from_int goodn_to_int goodn_cmp
  goodn_ops goodn_fmt goodn_hashset : gn.

Lemma good_modf md x : good_expect (expected OModf md [x]).
Proof.
  cbv beta iota delta [expected]. pose proof (goodn_modf x) as G. destruct (decode x) as [s c q|s|s sg p].
  - apply (good_exact 2); [lia|exact G].
  - apply (good_pred _ _ [encode (Inf s); encode (Fin s 0 0)]); [destruct s; vm_compute; reflexivity|reflexivity].
  - apply (good_exact 2); [lia|exact G].
Qed.

Lemma good_from_bin eb fb um md b : good_expect (expected (OFromBin eb fb um) md [b]).
Proof.
  cbv beta iota delta [expected]. pose proof (from_bin_good eb fb (if um then md else RNE) b) as G.
  destruct (m_from_bin eb fb (if um then md else RNE) b) as [l|s fl]; cbn [bgood] in G.
  - destruct um; apply (good_exact 1); try lia; [exact G|apply goodn_zero_flags; exact G].
  - apply (good_pred _ _ [encode (NaN s false 0)]); [apply qnan_of_sign_witness|reflexivity].
Qed.

Lemma good_hasheq md x y : good_expect (expected OHashEq md [x; y]).
Proof.
  cbv beta iota delta [expected]. apply (good_pred _ _ [1]); [|reflexivity].
  unfold m_hasheq. destruct (m_eq (decode x) (decode y)); reflexivity.
Qed.

Lemma hashslice_witness n l : m_hashslice n l 1 = true.
Proof. unfold m_hashslice. destruct (slices_eq _ _); reflexivity. Qed.

Lemma good_hashslice md n l : hashslice_shape n l = true -> good_expect (expected OHashSliceEq md (n :: l)).
Proof.
  intro H. cbv beta iota delta [expected]. rewrite H. apply (good_pred _ _ [1]); [apply hashslice_witness|reflexivity].
Qed.

Lemma good_parse md l : good_expect (expected OParse md l).
Proof.
  cbv beta iota delta [expected]. pose proof (parse_good md l) as G. destruct (m_parse md l) as [ol| |ol|s]; cbn [sgood] in G.
  - apply (good_exact 1); [lia|exact G].
  - apply (good_pred _ _ [encode QNAN]); [exact default_qnan_witness|reflexivity].
  - apply good_known.
    + apply (good_pred _ _ [encode QNAN]); [exact default_qnan_witness|reflexivity].
    + apply (exact_never_empty 1); [lia|exact (proj2 G)].
  - apply (good_pred _ _ [encode QNAN]); [exact any_nan0_witness|reflexivity].
Qed.

Lemma good_fromstr md l : good_expect (expected OFromStr md l).
Proof.
  cbv beta iota delta [expected]. pose proof (parse_good RNE l) as G. destruct (m_parse RNE l) as [ol| |ol|s]; cbn [sgood] in G.
  - apply (good_exact 2); [lia|apply goodn_fromstr_of; exact G].
  - apply (good_pred _ _ [1; encode QNAN]); [exact default_qnan_witness|reflexivity].
  - apply good_known.
    + apply (good_pred _ _ [1; encode QNAN]); [exact default_qnan_witness|reflexivity].
    + apply (exact_never_empty 2); [lia|exact (proj2 (goodn_fromstr_of ol G))].
  - apply (good_pred _ _ [1; encode QNAN]); [exact any_nan0_witness|reflexivity].
Qed.

Lemma good_fromstr2 md l : good_expect (expected OFromStr2 md l).
Proof.
  cbv beta iota delta [expected]. pose proof (parse_good RNE l) as G. destruct (m_parse RNE l) as [ol| |ol|s]; cbn [sgood] in G.
  - apply (good_exact 1); [lia|apply goodn_zero_flags; exact G].
  - apply (good_pred _ _ [encode QNAN]); [exact default_qnan_witness|reflexivity].
  - apply good_known.
    + apply (good_pred _ _ [encode QNAN]); [exact default_qnan_witness|reflexivity].
    + apply (exact_never_empty 1); [lia|exact (proj2 (goodn_zero_flags 1 ol G))].
  - apply (good_pred _ _ [encode QNAN]); [exact any_nan0_witness|reflexivity].
Qed.

Lemma good_sum md l : good_expect (expected OSum md l).
Proof. cbv beta iota delta [expected]. apply (good_exact 2); [lia|apply goodn_fold; reflexivity]. Qed.
Lemma good_product md l : good_expect (expected OProduct md l).
Proof. cbv beta iota delta [expected]. apply (good_exact 2); [lia|apply goodn_fold; reflexivity]. Qed.

Lemma good_oparith o' md x y : arith_op o' = true -> good_expect (expected (OOpArith o') md [x; y]).
Proof.
  intro H. cbv beta iota delta [expected]. apply (good_exact 5); [lia|].
  apply (goodn_repeat_out 5 1), goodn_arith2, H.
Qed.
Lemma good_opneg md x : good_expect (expected OOpNeg md [x]).
Proof. cbv beta iota delta [expected]. apply (good_exact 2); [lia|]. apply (goodn_repeat_out 2 1), goodn_neg. Qed.

(* ---------- serde, d128::nan(tag), constants, macro ---------- *)
(* [decode] yields a well-formed datum for every integer, not only for 128-bit words *)
Lemma decode_wf_any b : wf (decode b).
Proof.
  unfold decode, wf, T34, T33, P110, P111, P113, P121, P122, P127.
  destruct (_ =? 31) eqn:E31.
  - destruct (_ <? _) eqn:Ep; [apply Z.ltb_lt in Ep|]; lia.
  - destruct (_ =? 30) eqn:E30; [exact I|].
    destruct (24 <=? _) eqn:E24.
    + lia.
    + apply Z.leb_gt in E24. apply Z.eqb_neq in E30, E31.
      destruct (_ <? _) eqn:Ec; [apply Z.ltb_lt in Ec|]; lia.
Qed.

(* the Display text of every well-formed datum is a complete literal: re-reading it gives one outcome with one value *)
Lemma format_reparse d : wf d -> exists oc, m_parse RNE (m_format true d) = SList [oc] /\ length (fst oc) = 1%nat.
Proof.
  intro W. destruct d as [s c q|s|s sg p].
  - unfold m_parse. rewrite (format_denotes_wf true s c q W). eexists. split; reflexivity.
  - rewrite (proj2 (format_inf true s) RNE). eexists. split; reflexivity.
  - rewrite (proj2 (format_nan true s sg p) RNE). eexists. split; reflexivity.
Qed.

Lemma goodn_single1 (oc : outcome) n : length (fst oc) = n -> goodn n [oc].
Proof. intro H. split; [discriminate|]. constructor; [exact H|constructor]. Qed.

Lemma serde_expected md x : exists oc, length (fst oc) = 1%nat /\
  expected OSerde md [x] =
    Exact (map (fun o : outcome => (str_num ([34] ++ m_format true (decode x) ++ [34]) :: fst o, 0)) (fromstr_of [oc])).
Proof.
  destruct (format_reparse (decode x) (decode_wf_any x)) as [oc [E L]]. exists oc. split; [exact L|].
  cbv beta iota zeta delta [expected]. rewrite E. reflexivity.
Qed.

Lemma good_serde md x : good_expect (expected OSerde md [x]).
Proof.
  destruct (serde_expected md x) as [oc [L ->]]. apply (good_exact 3); [lia|].
  apply (goodn_map 2 3); [intros o Ho; cbn [fst length]; rewrite Ho; reflexivity|].
  apply goodn_fromstr_of, goodn_single1, L.
Qed.

Definition noerrflags : list outcome -> list outcome :=
  map (fun oc : outcome => match oc with ([0; _], f) => ([0; 0], f) | _ => oc end).
Lemma goodn_noerrflags l : goodn 2 l -> goodn 2 (noerrflags l).
Proof.
  unfold noerrflags. apply goodn_map. intros [[|a [|b [|c t]]] f] Ho; cbn [fst length] in Ho; try discriminate Ho.
  destruct a; reflexivity.
Qed.

Lemma good_serde_de md l : good_expect (expected OSerdeDe md l).
Proof.
  cbv beta iota zeta delta [expected]. fold noerrflags.
  pose proof (parse_good RNE l) as G. destruct (m_parse RNE l) as [ol| |ol|s]; cbn [sgood] in G.
  - apply (good_exact 2); [lia|apply goodn_noerrflags, goodn_fromstr_of; exact G].
  - apply (good_pred _ _ [1; encode QNAN]); [exact default_qnan_witness|reflexivity].
  - apply good_known.
    + apply (good_pred _ _ [1; encode QNAN]); [exact default_qnan_witness|reflexivity].
    + apply (exact_never_empty 2); [lia|exact (proj2 (goodn_noerrflags _ (goodn_fromstr_of ol G)))].
  - apply (good_pred _ _ [1; encode QNAN]); [exact any_nan0_witness|reflexivity].
Qed.

Lemma good_nantag md l : good_expect (expected ONanTag md l).
Proof.
  cbv beta iota delta [expected]. apply (good_pred_cons _ _ _ [encode QNAN]); [vm_compute|]; reflexivity.
Qed.

Lemma good_consts md : good_expect (expected OConsts md []).
Proof. cbv beta iota delta [expected]. apply (good_exact 17); [lia|leaf]. Qed.
Lemma good_macro md : good_expect (expected OMacro md []).
Proof. cbv beta iota delta [expected]. apply (good_exact 3); [lia|leaf]. Qed.

(* what is proved about one (operation, mode, arguments) triple: something is accepted outright, and nothing without a
   returned value is accepted *)
Definition spec_ok (o : op) (md : rmode) (args : list Z) : Prop := good_expect (expected o md args).

Lemma good_any_out : good_expect (Pred any_out [0]).
Proof. apply (good_pred _ _ [0]); reflexivity. Qed.

Lemma frexp_ok md x : spec_ok OFrexp md [x].
Proof.
  unfold spec_ok. cbv beta iota delta [expected m_frexp of_kind].
  destruct (decode x) as [s c q|s|s sg p]; [destruct (c =? 0)|..]; cbv beta iota;
  try exact good_any_out.
  apply (good_exact 2); [lia|]. apply goodn_lit; [discriminate|repeat constructor].
Qed.

Lemma quantum_ok md x : spec_ok OQuantum md [x].
Proof.
  unfold spec_ok. cbv beta iota delta [expected m_quantum of_kind].
  destruct (decode x) as [s c q|s|s sg p]; cbv beta iota;
  try exact good_any_out;
  (apply (good_exact 1); [lia|apply goodn_out1]).
Qed.

Theorem spec_main o md args : defined_op o args = true -> spec_ok o md args.
Proof.
  intro H. unfold spec_ok.
  destruct o;
  first
  [ first [ apply good_parse | apply good_fromstr | apply good_fromstr2 | apply good_sum | apply good_product
          | apply good_serde_de | apply good_nantag
          | destruct args as [|n l]; [discriminate H|]; apply good_hashslice; exact H ]
  | destruct args as [|a1 [|a2 [|a3 [|a4 rest]]]]; cbv beta iota delta [defined_op] in H; try discriminate H;
    first
    [ apply frexp_ok | apply quantum_ok
    | first [ apply good_modf | apply good_from_bin | apply good_hasheq | apply good_oparith; exact H | apply good_opneg
            | apply good_serde | apply good_consts | apply good_macro
            | cbv beta iota delta [expected];
              first [ apply (good_exact 1); [lia|solve [auto with gn]]
                    | apply (good_exact 4); [lia|solve [auto with gn]] ] ] ] ].
Qed.

(* ---------- the theorems of C15 (model level) ---------- *)
Lemma shape_ok_defined o args : shape_ok o args = true -> defined_op o args = true.
Proof. unfold shape_ok. intro H. apply andb_true_iff in H. exact (proj1 H). Qed.

(* the specification never asks the impossible and leaves no input undefined; stated for any integers as operand words *)
Theorem spec_total_any_bits o md args : defined_op o args = true -> satisfiable (expected o md args).
Proof. intro H. exact (proj1 (spec_main o md args H)). Qed.

Theorem spec_total o md args : shape_ok o args = true -> satisfiable (expected o md args).
Proof. intro H. apply spec_total_any_bits, shape_ok_defined, H. Qed.

(* ... and from every entry status word some observable behaviour gets verdict 1 *)
Theorem spec_total_judge o md args fin : shape_ok o args = true ->
  exists outs fout, judge (expected o md args) fin outs fout = 1.
Proof. intro H. apply satisfiable_judge, spec_total, H. Qed.

(* the domain is exact: outside it [expected] is the empty list, which nothing satisfies *)
Theorem undefined_is_empty o md args : defined_op o args = false -> expected o md args = Exact [].
Proof.
  intro H. destruct o; try (destruct o);
  try (destruct args as [|n l]; [reflexivity|]; cbv beta iota delta [defined_op] in H; cbv beta iota delta [expected];
       rewrite H; reflexivity);
  destruct args as [|a1 [|a2 [|a3 [|a4 rest]]]]; cbv beta iota delta [defined_op arith_op] in H; try discriminate H; reflexivity.
Qed.

Theorem defined_iff_satisfiable o md args : defined_op o args = true <-> satisfiable (expected o md args).
Proof.
  split; [apply spec_total_any_bits|]. intro S. destruct (defined_op o args) eqn:E; [reflexivity|].
  rewrite (undefined_is_empty o md args E) in S. exfalso. exact (exact_satisfiable_inv [] S eq_refl).
Qed.

(* "no answer" is never conforming: whatever is accepted, outright or as a recorded known finding, returns a value.
   No side condition: this holds for every operation and every argument list on which [expected] is defined. *)
Theorem no_answer_rejected o md args : defined_op o args = true ->
  forall outs fl, acc (expected o md args) outs fl <> 0 -> outs <> [].
Proof. intros H. exact (proj2 (spec_main o md args H)). Qed.

Theorem no_answer_rejected_judge o md args : defined_op o args = true ->
  forall fin fout, judge (expected o md args) fin [] fout = 0.
Proof. intros H. apply never_empty_judge. exact (no_answer_rejected o md args H). Qed.

(* ... and outside the domain nothing at all is accepted, so the empty answer is rejected for EVERY (o, md, args) *)
Theorem no_answer_rejected_anywhere o md args fin fout : judge (expected o md args) fin [] fout = 0.
Proof.
  destruct (defined_op o args) eqn:D; [apply no_answer_rejected_judge, D|].
  rewrite (undefined_is_empty o md args D). reflexivity.
Qed.

(* for list expectations: the list is non-empty and each of its outcomes carries at least one value *)
Theorem exact_outcomes_have_values o md args l : defined_op o args = true -> expected o md args = Exact l ->
  l <> [] /\ forall oc, In oc l -> fst oc <> [].
Proof.
  intros H E. pose proof (spec_main o md args H) as [S N]. rewrite E in S, N. split; [apply exact_satisfiable_inv, S|].
  intros oc Hin. apply (N (fst oc) (snd oc)).
  assert (X : acc (Exact l) (fst oc) (snd oc) = 1).
  { cbn [acc]. apply b2z_1, existsb_exists. exists oc. split; [exact Hin|]. rewrite list_eqb_refl, Z.eqb_refl. reflexivity. }
  rewrite X. discriminate.
Qed.

(* where the model places no requirement on the returned VALUES (only: some value is returned, no flag is raised) *)
Theorem unconstrained_spec o md args : unconstrained o args = true -> expected o md args = Pred any_out [0].
Proof.
  intro U. destruct o; try discriminate U; destruct args as [|x [|a2 r]]; try discriminate U;
  cbv beta iota delta [expected unconstrained m_frexp m_quantum of_kind is_nan] in U |- *;
  destruct (decode x) as [s c q|s|s sg p]; try discriminate U; try reflexivity.
  rewrite U. reflexivity.
Qed.
Theorem unconstrained_cases o args : unconstrained o args = true <->
  exists x, args = [x] /\ ((o = OFrexp /\ forall s c q, decode x = Fin s c q -> c = 0) \/ (o = OQuantum /\ is_nan (decode x) = true)).
Proof.
  split.
  - intro U. destruct o; try discriminate U; destruct args as [|x [|a2 r]]; try discriminate U; exists x; (split; [reflexivity|]).
    + left. split; [reflexivity|]. intros s c q E. cbn [unconstrained] in U. rewrite E in U. apply Z.eqb_eq, U.
    + right. split; [reflexivity|exact U].
  - intros [x [-> [[-> H]|[-> H]]]]; cbn [unconstrained]; [|exact H].
    destruct (decode x) as [s c q|s|s sg p]; [|reflexivity..]. apply Z.eqb_eq. exact (H s c q eq_refl).
Qed.
(* there: accepted iff at least one value is returned and no flag is raised *)
Theorem unconstrained_accepts o md args outs fl : unconstrained o args = true ->
  (acc (expected o md args) outs fl = 1 <-> outs <> [] /\ fl = 0).
Proof.
  intro U. rewrite (unconstrained_spec o md args U). cbn [acc any_out existsb]. rewrite orb_false_r.
  destruct outs as [|v r]; cbn [is_nil negb andb].
  - split; [discriminate|intros [H _]; congruence].
  - destruct (Z.eqb_spec 0 fl) as [E|E]; cbn [b2z]; split; try discriminate; try (intros [_ H]; congruence); intros _;
    split; [discriminate|symmetry; exact E].
Qed.

(* ---------- where the specification fixes the answer, it fixes exactly one ---------- *)
Definition single (l : list outcome) : Prop := exists oc, l = [oc].
(* at most one of the data is a NaN (with two or more NaN operands C12 leaves the choice of the propagated one open) *)
Definition le1nan (ds : list dec) : bool := (length (filter is_nan ds) <=? 1)%nat.

Ltac sleaf := cbv beta iota zeta; eexists; reflexivity.
Ltac sbrk := repeat brk_step; sleaf.
Ltac nan2 H := intro H; try (cbv in H; discriminate H).

Lemma single_add_dec md dx dy : le1nan [dx; dy] = true -> single (add_dec md dx dy).
Proof. unfold add_dec. destruct dx, dy; nan2 H; sbrk. Qed.
Lemma single_add md x y : le1nan [decode x; decode y] = true -> single (m_add md x y).
Proof. apply single_add_dec. Qed.
Lemma single_sub md x y : le1nan [decode x; decode y] = true -> single (m_sub md x y).
Proof. intro H. apply single_add_dec. revert H. destruct (decode x), (decode y); intro H; exact H. Qed.
Lemma single_mul md x y : le1nan [decode x; decode y] = true -> single (m_mul md x y).
Proof. unfold m_mul. destruct (decode x), (decode y); nan2 H; sbrk. Qed.
Lemma single_div md x y : le1nan [decode x; decode y] = true -> single (m_div md x y).
Proof. unfold m_div. destruct (decode x), (decode y); nan2 H; sbrk. Qed.
Lemma single_fma md x y z : le1nan [decode x; decode y; decode z] = true -> single (m_fma md x y z).
Proof. unfold m_fma. destruct (decode x), (decode y), (decode z); nan2 H; sbrk. Qed.
Lemma single_quantize md x y : le1nan [decode x; decode y] = true -> single (m_quantize md x y).
Proof. unfold m_quantize. destruct (decode x), (decode y); nan2 H; sbrk. Qed.
Lemma single_rem b x y : le1nan [decode x; decode y] = true -> single (rem_dec b x y).
Proof. unfold rem_dec. destruct (decode x), (decode y); nan2 H; sbrk. Qed.
Lemma single_next_after x y : le1nan [decode x; decode y] = true -> single (m_next_after x y).
Proof. unfold m_next_after. destruct (decode x), (decode y); nan2 H; sbrk. Qed.
Lemma single_fdim md x y : le1nan [decode x; decode y] = true -> single (m_fdim md x y).
Proof.
  intro H. pose proof (single_sub md x y H) as S. revert H. unfold m_fdim.
  destruct (decode x), (decode y); nan2 H; cbn [is_nan orb]; try sleaf;
  match goal with |- single (match ?r with _ => _ end) => destruct r end; first [exact S | sleaf].
Qed.
Lemma single_arith2 o md x y : le1nan [decode x; decode y] = true -> arith_op o = true -> single (arith2 o md x y).
Proof.
  intros H Ho. destruct o; try discriminate Ho; cbn [arith2];
  [apply single_add | apply single_sub | apply single_mul | apply single_div | apply single_rem]; exact H.
Qed.

Lemma single_sqrt md x : single (m_sqrt md x).
Proof. unfold m_sqrt. destruct (decode x); sbrk. Qed.
Lemma single_rint md si x : single (rint_dec md si x).
Proof. unfold rint_dec. destruct (decode x); sbrk. Qed.
Lemma single_modf x : single (m_modf x).
Proof. unfold m_modf. destruct (decode x); sbrk. Qed.
Lemma single_next_up x : single (m_next_up x).
Proof. unfold m_next_up. destruct (decode x); sbrk. Qed.
Lemma single_next_down x : single (m_next_down x).
Proof. unfold m_next_down. destruct (decode x); sbrk. Qed.
Lemma single_scaleb md x n : single (m_scaleb md x n).
Proof. unfold m_scaleb. destruct (decode x); sbrk. Qed.
Lemma single_logb x : single (m_logb x).
Proof. unfold m_logb. destruct (decode x); sbrk. Qed.
Lemma single_ilogb x : single (m_ilogb x).
Proof. unfold m_ilogb. destruct (decode x); sbrk. Qed.
Lemma single_quantexp x : single (m_quantexp x).
Proof. unfold m_quantexp. destruct (decode x); sbrk. Qed.
Lemma single_llquantexp x : single (m_llquantexp x).
Proof. unfold m_llquantexp. destruct (decode x); sbrk. Qed.
Lemma single_to_int w sg m xf x : single (m_to_int w sg m xf x).
Proof. unfold m_to_int. destruct (decode x); sbrk. Qed.
Lemma single_lit (oc : outcome) : single [oc].
Proof. exists oc. reflexivity. Qed.
Lemma single_map (f : outcome -> outcome) l : single l -> single (map f l).
Proof. intros [oc ->]. exists (f oc). reflexivity. Qed.

Global Hint Resolve single_add single_sub single_mul single_div single_fma single_quantize single_rem single_next_after
  single_fdim single_sqrt single_rint single_modf single_next_up single_next_down single_scaleb single_logb single_ilogb
  single_quantexp single_llquantexp single_to_int single_lit : sg.
Global Hint Extern 1 (single _) => sleaf : sg.

Lemma single_from_bin eb fb md b l : m_from_bin eb fb md b = BList l -> single l.
Proof.
  unfold m_from_bin.
  repeat match goal with
  | |- (if ?b then _ else _) = _ -> _ => destruct b
  | |- (let '(_, _) := ?p in _) = _ -> _ => destruct p
  end; intro E; try discriminate E; injection E as <-; sleaf.
Qed.
Lemma single_parse md s l : m_parse md s = SList l -> single l.
Proof. unfold m_parse. destruct (lex s); intro E; try discriminate E; injection E as <-; sleaf. Qed.

(* the operations whose several accepted outcomes are intended: min/max of equal values (either operand), sums and
   products (NaN choice at each step). (d128::nan(tag) has a predicate expectation, never a list, so the theorem below
   holds for it vacuously.) *)
Definition det_op (o : op) : bool := match o with OMinMax _ | OSum | OProduct => false | _ => true end.
(* the operand lists in which the choice of the propagated NaN is left open by C12 *)
Definition nan_choice_operands (o : op) (args : list Z) : list Z :=
  match o with
  | OAdd | OSub | OMul | ODiv | OFma | OQuantize | ORem | OFmod | OFdim | ONextAfter | OOpArith _ => args
  | _ => []
  end.

Lemma exact_inj (l l' : list outcome) : Exact l = Exact l' -> l = l'.
Proof. intro H. injection H as H. exact H. Qed.

Theorem spec_deterministic_where_stated o md args l :
  det_op o = true -> defined_op o args = true ->
  le1nan (map decode (nan_choice_operands o args)) = true ->
  expected o md args = Exact l -> single l.
Proof.
  intros Hd H Hn E. destruct o; try discriminate Hd;
  first
  [ (* hash_slice: a predicate expectation *)
    match type of E with expected OHashSliceEq _ _ = _ =>
      destruct args as [|n r]; [discriminate H|]; cbv beta iota delta [defined_op] in H;
      cbv beta iota delta [expected] in E; rewrite H in E; discriminate E end
  | (* string operations *)
    cbv beta iota zeta delta [expected] in E;
    match type of E with context [m_parse ?m ?s] =>
      pose proof (single_parse m s) as S; destruct (m_parse m s); try discriminate E; apply exact_inj in E; subst l;
      repeat apply single_map; exact (S _ eq_refl) end
  | destruct args as [|a1 [|a2 [|a3 [|a4 rest]]]]; cbv beta iota delta [defined_op] in H; try discriminate H;
    first
    [ (* serde *)
      match type of E with expected OSerde _ [?x] = _ =>
        destruct (serde_expected md x) as [oc [_ S]]; rewrite S in E; apply exact_inj in E; subst l;
        repeat apply single_map; apply single_lit end
    | cbv beta iota delta [expected] in E; cbn [map nan_choice_operands] in Hn;
    first
    [ discriminate E
    | apply exact_inj in E; subst l; apply single_lit
    | apply exact_inj in E; subst l; unfold repeat_out; repeat apply single_map; solve [auto with sg]
    | (* modf *) destruct (decode a1); try discriminate E; apply exact_inj in E; subst l; apply single_modf
    | (* frexp, quantum *) unfold of_kind, m_frexp, m_quantum in E;
      repeat match type of E with
             | match (match ?d with _ => _ end) with _ => _ end = _ => destruct d
             | match (if ?b then _ else _) with _ => _ end = _ => destruct b
             end; try discriminate E; apply exact_inj in E; subst l; sleaf
    | (* from binary *)
      match type of E with context [m_from_bin ?eb ?fb ?m ?b] =>
        pose proof (single_from_bin eb fb m b) as S; destruct (m_from_bin eb fb m b); [|discriminate E];
        match type of E with context [if ?u then _ else _] => destruct u end; apply exact_inj in E; subst l;
        repeat apply single_map; exact (S _ eq_refl) end
    | (* operator forms *) apply exact_inj in E; subst l; unfold repeat_out; apply single_map, single_arith2; assumption ] ] ].
Qed.

(* hence the accepted behaviour is unique there *)
Lemma single_unique oc outs fl : acc (Exact [oc]) outs fl <> 0 -> outs = fst oc /\ fl = snd oc.
Proof.
  cbn [acc existsb]. rewrite orb_false_r. destruct (list_eqb (fst oc) outs) eqn:E1; [|cbn; congruence].
  destruct (snd oc =? fl) eqn:E2; [|cbn; congruence]. intros _. apply list_eqb_eq in E1. apply Z.eqb_eq in E2. auto.
Qed.
Theorem accepted_unique_where_stated o md args l outs fl outs' fl' :
  det_op o = true -> defined_op o args = true ->
  le1nan (map decode (nan_choice_operands o args)) = true ->
  expected o md args = Exact l ->
  acc (expected o md args) outs fl <> 0 -> acc (expected o md args) outs' fl' <> 0 -> outs = outs' /\ fl = fl'.
Proof.
  intros Hd H Hn E A1 A2. destruct (spec_deterministic_where_stated o md args l Hd H Hn E) as [oc ->].
  rewrite E in A1, A2. apply single_unique in A1, A2. destruct A1 as [-> ->], A2 as [-> ->]. auto.
Qed.
