(* C18: total_le / m_total_order is the IEEE 754-2008 totalOrder (5.10) on decimal128 data and encodings.
   Everything here is on integers (no real numbers), hence axiom-free.
   - vkey / sval: the value of a finite datum scaled by the constant 10^6176 (an integer since q >= -6176)
   - cmp_mag_key: the digit-count shortcut comparison cmp_mag equals comparison of the scaled values
   - total_spec: specification written from the text of the standard; total_le_spec: total_le = true <-> total_spec
   - order axioms, chain lemmas, magnitude variant, non-canonical encodings, no flags. *)
From Coq Require Import ZArith Lia Bool List.
From Flocq Require Import Core.Zaux Core.Digits.
From DV Require Import Base Bid BidProofs Arith OpsArith OpsCmp.
Import ListNotations.
Open Scope Z_scope.

(* ------------------------------------------------------------------------------------------------ *)
(* 1. scaled values; cmp_mag compares them                                                          *)
(* ------------------------------------------------------------------------------------------------ *)

(* magnitude c * 10^q scaled by 10^6176: an integer for every well-formed exponent q >= -6176 *)
Definition vkey (c q : Z) : Z := c * 10 ^ (q + 6176).
(* signed value (-1)^s * c * 10^q scaled by 10^6176 *)
Definition sval (s:bool) (c q : Z) : Z := if s then - vkey c q else vkey c q.

Lemma pow10_pos k : 0 <= k -> 0 < 10 ^ k.
Proof. intros; apply Z.pow_pos_nonneg; lia. Qed.

Lemma pow10_le a b : 0 <= a <= b -> 10 ^ a <= 10 ^ b.
Proof. intros; apply Z.pow_le_mono_r; lia. Qed.

Lemma vkey_pos c q : 0 < c -> -6176 <= q -> 0 < vkey c q.
Proof. intros Hc Hq. unfold vkey. pose proof (pow10_pos (q + 6176)). nia. Qed.

Lemma vkey_0 q : vkey 0 q = 0.
Proof. reflexivity. Qed.

Lemma vkey_nonneg c q : 0 <= c -> -6176 <= q -> 0 <= vkey c q.
Proof. intros Hc Hq. unfold vkey. pose proof (pow10_pos (q + 6176)). nia. Qed.

Lemma vkey_eq0 c q : 0 <= c -> -6176 <= q -> (vkey c q = 0 <-> c = 0).
Proof.
  intros Hc Hq. split; intros H; [|subst; reflexivity].
  destruct (Z.eq_dec c 0) as [E|E]; [exact E|]. pose proof (vkey_pos c q). lia.
Qed.

Lemma digits_bounds c : 0 < c ->
  1 <= Zdigits radix10 c /\ 10 ^ (Zdigits radix10 c - 1) <= c < 10 ^ Zdigits radix10 c.
Proof.
  intros Hc. pose proof (Zdigits_correct radix10 c) as H. rewrite Z.abs_eq in H by lia.
  pose proof (Zdigits_gt_0 radix10 c) as G. change (radix_val radix10) with 10 in H.
  split; [lia|exact H].
Qed.

(* scaled value is bracketed by powers of ten given by digit count + exponent *)
Lemma vkey_bounds c q : 0 < c -> -6176 <= q ->
  10 ^ (Zdigits radix10 c + q + 6176 - 1) <= vkey c q < 10 ^ (Zdigits radix10 c + q + 6176).
Proof.
  intros Hc Hq. destruct (digits_bounds c Hc) as [D [L U]]. unfold vkey.
  replace (Zdigits radix10 c + q + 6176 - 1) with ((Zdigits radix10 c - 1) + (q + 6176)) by lia.
  replace (Zdigits radix10 c + q + 6176) with (Zdigits radix10 c + (q + 6176)) by lia.
  rewrite (Z.pow_add_r 10 (Zdigits radix10 c - 1) (q + 6176)) by lia.
  rewrite (Z.pow_add_r 10 (Zdigits radix10 c) (q + 6176)) by lia.
  pose proof (pow10_pos (q + 6176) ltac:(lia)) as P. split.
  - apply Z.mul_le_mono_nonneg_r; lia.
  - apply Z.mul_lt_mono_pos_r; lia.
Qed.

(* the digit-count shortcut is sound for any exponent gap *)
Theorem cmp_mag_key cx qx cy qy :
  0 <= cx -> 0 <= cy -> -6176 <= qx -> -6176 <= qy ->
  cmp_mag cx qx cy qy = (vkey cx qx ?= vkey cy qy).
Proof.
  intros Hcx Hcy Hqx Hqy. unfold cmp_mag.
  destruct (Z.eqb_spec cx 0) as [Ex|Ex].
  { subst cx. rewrite vkey_0. destruct (Z.eqb_spec cy 0) as [Ey|Ey].
    - subst; reflexivity.
    - symmetry. apply Z.compare_lt_iff. apply vkey_pos; lia. }
  destruct (Z.eqb_spec cy 0) as [Ey|Ey].
  { subst cy. rewrite vkey_0. symmetry. apply Z.compare_gt_iff. apply vkey_pos; lia. }
  assert (Px : 0 < cx) by lia. assert (Py : 0 < cy) by lia.
  pose proof (vkey_bounds cx qx Px Hqx) as Bx. pose proof (vkey_bounds cy qy Py Hqy) as By.
  destruct (digits_bounds cx Px) as [Dx _]. destruct (digits_bounds cy Py) as [Dy _].
  cbv zeta.
  destruct (Z.ltb_spec (Zdigits radix10 cx + qx) (Zdigits radix10 cy + qy)) as [L|L].
  { symmetry. apply Z.compare_lt_iff.
    pose proof (pow10_le (Zdigits radix10 cx + qx + 6176) (Zdigits radix10 cy + qy + 6176 - 1)). lia. }
  destruct (Z.ltb_spec (Zdigits radix10 cy + qy) (Zdigits radix10 cx + qx)) as [G|G].
  { symmetry. apply Z.compare_gt_iff.
    pose proof (pow10_le (Zdigits radix10 cy + qy + 6176) (Zdigits radix10 cx + qx + 6176 - 1)). lia. }
  unfold vkey.
  destruct (Z.leb_spec qx qy) as [Q|Q].
  - replace (qy + 6176) with ((qy - qx) + (qx + 6176)) by lia.
    rewrite (Z.pow_add_r 10 (qy - qx) (qx + 6176)) by lia. rewrite Z.mul_assoc.
    apply Zmult_compare_compat_r. apply Z.lt_gt, pow10_pos; lia.
  - replace (qx + 6176) with ((qx - qy) + (qy + 6176)) by lia.
    rewrite (Z.pow_add_r 10 (qx - qy) (qy + 6176)) by lia. rewrite Z.mul_assoc.
    apply Zmult_compare_compat_r. apply Z.lt_gt, pow10_pos; lia.
Qed.

Corollary cmp_mag_key_wf sx cx qx sy cy qy :
  wf (Fin sx cx qx) -> wf (Fin sy cy qy) -> cmp_mag cx qx cy qy = (vkey cx qx ?= vkey cy qy).
Proof. unfold wf. intros Hx Hy. apply cmp_mag_key; lia. Qed.

(* ------------------------------------------------------------------------------------------------ *)
(* 2. total_le as a lexicographic integer key                                                       *)
(* ------------------------------------------------------------------------------------------------ *)

(* magnitude key: (class, value or payload, exponent tie-break) *)
Definition mkey (d:dec) : Z * Z * Z :=
  match d with
  | Fin _ c q => if c =? 0 then (0, 0, q) else (1, vkey c q, q)
  | Inf _ => (2, 0, 0)
  | NaN _ sg p => (if sg then 3 else 4, p, 0)
  end.

Definition lex_le (a b : Z*Z*Z) : Prop :=
  let '(a1,a2,a3) := a in let '(b1,b2,b3) := b in
  a1 < b1 \/ (a1 = b1 /\ (a2 < b2 \/ (a2 = b2 /\ a3 <= b3))).

Definition key_le (x y:dec) : Prop :=
  match sign_of x, sign_of y with
  | true, false => True
  | false, true => False
  | false, false => lex_le (mkey x) (mkey y)
  | true, true => lex_le (mkey y) (mkey x)
  end.

Lemma lex_refl a : lex_le a a.
Proof. destruct a as [[? ?] ?]; simpl; lia. Qed.
Lemma lex_trans a b c : lex_le a b -> lex_le b c -> lex_le a c.
Proof. destruct a as [[? ?] ?], b as [[? ?] ?], c as [[? ?] ?]; simpl; lia. Qed.
Lemma lex_total a b : lex_le a b \/ lex_le b a.
Proof. destruct a as [[? ?] ?], b as [[? ?] ?]; simpl; lia. Qed.
Lemma lex_antisym a b : lex_le a b -> lex_le b a -> a = b.
Proof. destruct a as [[a1 a2] a3], b as [[b1 b2] b3]; simpl; intros; f_equal; [f_equal|]; lia. Qed.

Lemma total_le_mag_key dx dy : wf dx -> wf dy ->
  (total_le_mag dx dy = true <-> lex_le (mkey dx) (mkey dy)).
Proof.
  intros Wx Wy.
  destruct dx as [sx cx qx|sx|sx gx px], dy as [sy cy qy|sy|sy gy py]; unfold total_le_mag, class_rank, mkey.
  - (* Fin Fin *)
    rewrite (cmp_mag_key_wf sx cx qx sy cy qy Wx Wy). unfold wf in Wx, Wy.
    destruct (Z.eqb_spec cx 0) as [Ex|Ex], (Z.eqb_spec cy 0) as [Ey|Ey];
      cbn [Z.ltb Z.compare Pos.compare Pos.compare_cont lex_le].
    + rewrite Z.leb_le. lia.
    + split; [lia|reflexivity].
    + split; [discriminate|lia].
    + destruct (Z.compare_spec (vkey cx qx) (vkey cy qy)) as [E|L|G]; cbv iota.
      * rewrite Z.leb_le. lia.
      * split; [lia|reflexivity].
      * split; [discriminate|lia].
  - destruct (cx =? 0); cbn; split; (reflexivity || lia).
  - destruct (cx =? 0), gy; cbn; split; (reflexivity || lia).
  - destruct (cy =? 0); cbn; split; (discriminate || lia).
  - cbn. split; [lia|reflexivity].
  - destruct gy; cbn; split; (reflexivity || lia).
  - destruct (cy =? 0), gx; cbn; split; (discriminate || lia).
  - destruct gx; cbn; split; (discriminate || lia).
  - destruct gx, gy; cbn [Z.ltb Z.compare Pos.compare Pos.compare_cont lex_le]; rewrite ?Z.leb_le;
      (split; [lia|]); try reflexivity; try lia.
Qed.

Lemma total_le_key dx dy : wf dx -> wf dy -> (total_le dx dy = true <-> key_le dx dy).
Proof.
  intros Wx Wy. unfold total_le, key_le.
  destruct (sign_of dx), (sign_of dy).
  - apply total_le_mag_key; assumption.
  - tauto.
  - split; [discriminate|tauto].
  - apply total_le_mag_key; assumption.
Qed.

Lemma mkey_inj x y : wf x -> wf y -> sign_of x = sign_of y -> mkey x = mkey y -> x = y.
Proof.
  destruct x as [s c q|s|s sg p], y as [s' c' q'|s'|s' sg' p']; unfold wf, mkey, sign_of; intros Wx Wy Hs H; subst s'.
  - destruct (Z.eqb_spec c 0) as [E|E], (Z.eqb_spec c' 0) as [E'|E']; inversion H; subst; try reflexivity.
    f_equal. unfold vkey in *. pose proof (pow10_pos (q' + 6176)). nia.
  - destruct (c =? 0); discriminate.
  - destruct (c =? 0), sg'; discriminate.
  - destruct (c' =? 0); discriminate.
  - reflexivity.
  - destruct sg'; discriminate.
  - destruct (c' =? 0), sg; discriminate.
  - destruct sg; discriminate.
  - destruct sg, sg'; inversion H; subst; reflexivity.
Qed.

(* ------------------------------------------------------------------------------------------------ *)
(* 3. order axioms on data                                                                          *)
(* ------------------------------------------------------------------------------------------------ *)

Theorem total_le_refl a : wf a -> total_le a a = true.
Proof.
  intros W. apply total_le_key; [assumption..|]. unfold key_le. destruct (sign_of a); apply lex_refl.
Qed.

Theorem total_le_trans a b c : wf a -> wf b -> wf c ->
  total_le a b = true -> total_le b c = true -> total_le a c = true.
Proof.
  intros Wa Wb Wc. rewrite !total_le_key by assumption. unfold key_le.
  destruct (sign_of a), (sign_of b), (sign_of c); try tauto; eauto using lex_trans.
Qed.

Theorem total_le_total a b : wf a -> wf b -> total_le a b = true \/ total_le b a = true.
Proof.
  intros Wa Wb. rewrite !total_le_key by assumption. unfold key_le.
  destruct (sign_of a), (sign_of b); try tauto; apply lex_total.
Qed.

Theorem total_le_antisym a b : wf a -> wf b ->
  (total_le a b = true /\ total_le b a = true <-> a = b).
Proof.
  intros Wa Wb. split.
  - rewrite !total_le_key by assumption. unfold key_le.
    destruct (sign_of a) eqn:Sa, (sign_of b) eqn:Sb; try tauto; intros [H1 H2];
      apply mkey_inj; auto; try congruence; apply lex_antisym; assumption.
  - intros ->. split; apply total_le_refl; assumption.
Qed.

(* strict part: not (b <= a) is a < b *)
Corollary total_le_false a b : wf a -> wf b -> total_le b a = false -> total_le a b = true.
Proof. intros Wa Wb H. destruct (total_le_total a b Wa Wb) as [T|T]; [exact T|congruence]. Qed.

(* ------------------------------------------------------------------------------------------------ *)
(* 4. the specification written from IEEE 754-2008, 5.10 totalOrder                                 *)
(* ------------------------------------------------------------------------------------------------ *)

(* x and y finite: compared by their numerical values (sval = value * 10^6176);
   a) x < y: true.  b) x > y: false.
   c) x = y:  1) totalOrder(-0, +0) true  2) totalOrder(+0, -0) false
              3) same sign: negative sign: exponent(x) >= exponent(y); otherwise exponent(x) <= exponent(y).
   infinities take part in a) b) c) as the numerical extremes (-Inf < every finite < +Inf, -Inf = -Inf, +Inf = +Inf).
   d) unordered:  1) totalOrder(-NaN, y) true for y a number  2) totalOrder(x, +NaN) true for x a number
                  (and false the other way round, as totalOrder is an order)
              3) both NaN: i) negative sign below positive sign
                           ii) signaling below quiet for +NaN, reverse for -NaN
                           iii) lesser payload below greater payload for +NaN, reverse for -NaN. *)
Definition total_spec (dx dy : dec) : Prop :=
  match dx, dy with
  | Fin sx cx qx, Fin sy cy qy =>
      sval sx cx qx < sval sy cy qy \/
      (sval sx cx qx = sval sy cy qy /\
       match sx, sy with
       | true, false => True                (* only -0, +0 *)
       | false, true => False               (* only +0, -0 *)
       | true, true => qy <= qx
       | false, false => qx <= qy
       end)
  | Fin _ _ _, Inf sy => sy = false
  | Inf sx, Fin _ _ _ => sx = true
  | Inf sx, Inf sy => sx = true \/ sy = false
  | NaN sx _ _, Fin _ _ _ | NaN sx _ _, Inf _ => sx = true
  | Fin _ _ _, NaN sy _ _ | Inf _, NaN sy _ _ => sy = false
  | NaN sx gx px, NaN sy gy py =>
      match sx, sy with
      | true, false => True
      | false, true => False
      | false, false => (gx = true /\ gy = false) \/ (gx = gy /\ px <= py)
      | true, true => (gx = false /\ gy = true) \/ (gx = gy /\ py <= px)
      end
  end.

Lemma key_le_spec dx dy : wf dx -> wf dy -> (key_le dx dy <-> total_spec dx dy).
Proof.
  intros Wx Wy.
  destruct dx as [sx cx qx|sx|sx gx px], dy as [sy cy qy|sy|sy gy py];
    unfold key_le, total_spec, sign_of, mkey.
  - (* Fin Fin *)
    unfold wf in Wx, Wy. unfold sval.
    assert (Nx := vkey_nonneg cx qx ltac:(lia) ltac:(lia)).
    assert (Ny := vkey_nonneg cy qy ltac:(lia) ltac:(lia)).
    assert (Zx := vkey_eq0 cx qx ltac:(lia) ltac:(lia)).
    assert (Zy := vkey_eq0 cy qy ltac:(lia) ltac:(lia)).
    destruct sx, sy; destruct (Z.eqb_spec cx 0) as [Ex|Ex], (Z.eqb_spec cy 0) as [Ey|Ey];
      cbn [lex_le]; lia.
  - destruct sx, sy; destruct (cx =? 0); cbn [lex_le]; split; intros; (tauto || lia || discriminate || reflexivity).
  - destruct sx, sy; destruct (cx =? 0), gy; cbn [lex_le]; split; intros; (tauto || lia || discriminate || reflexivity).
  - destruct sx, sy; destruct (cy =? 0); cbn [lex_le]; split; intros; (tauto || lia || discriminate || reflexivity).
  - destruct sx, sy; cbn [lex_le]; split; intros; try tauto; try lia; try (left; reflexivity); try (right; reflexivity).
  - destruct sx, sy; destruct gy; cbn [lex_le]; split; intros; (tauto || lia || discriminate || reflexivity).
  - destruct sx, sy; destruct (cy =? 0), gx; cbn [lex_le]; split; intros; (tauto || lia || discriminate || reflexivity).
  - destruct sx, sy; destruct gx; cbn [lex_le]; split; intros; (tauto || lia || discriminate || reflexivity).
  - destruct sx, sy; try tauto; destruct gx, gy; cbn [lex_le]; split; intros H; try lia;
      try (left; split; reflexivity); try (right; split; [reflexivity|lia]);
      try (destruct H as [[H1 H2]|[H1 H2]]; try discriminate; lia).
Qed.

Theorem total_le_spec dx dy : wf dx -> wf dy -> (total_le dx dy = true <-> total_spec dx dy).
Proof. intros Wx Wy. rewrite total_le_key by assumption. apply key_le_spec; assumption. Qed.

Corollary total_le_spec_false dx dy : wf dx -> wf dy -> (total_le dx dy = false <-> ~ total_spec dx dy).
Proof.
  intros Wx Wy. rewrite <- total_le_spec by assumption. destruct (total_le dx dy); split; congruence.
Qed.

(* ------------------------------------------------------------------------------------------------ *)
(* 5. the chain  -NaN < -Inf < -finite < -0 < +0 < +finite < +Inf < +NaN                             *)
(* ------------------------------------------------------------------------------------------------ *)

Definition chain_class (d:dec) : Z :=
  match d with
  | NaN true _ _ => 0
  | Inf true => 1
  | Fin true c _ => if c =? 0 then 3 else 2
  | Fin false c _ => if c =? 0 then 4 else 5
  | Inf false => 6
  | NaN false _ _ => 7
  end.

(* data in a lower class strictly precede data in a higher class (no well-formedness needed) *)
Theorem total_order_chain a b : chain_class a < chain_class b ->
  total_le a b = true /\ total_le b a = false.
Proof.
  destruct a as [sx cx qx|sx|sx gx px], b as [sy cy qy|sy|sy gy py];
    unfold chain_class, total_le, total_le_mag, class_rank, sign_of;
    destruct sx, sy;
    repeat match goal with |- context [?c =? 0] => destruct (c =? 0) end;
    try destruct gx; try destruct gy; cbn; intros H; try lia; split; reflexivity.
Qed.

Lemma chain_nNaN_nInf sg p : total_le (NaN true sg p) (Inf true) = true /\ total_le (Inf true) (NaN true sg p) = false.
Proof. apply total_order_chain. reflexivity. Qed.
Lemma chain_nInf_nFin c q : c <> 0 -> total_le (Inf true) (Fin true c q) = true /\ total_le (Fin true c q) (Inf true) = false.
Proof. intros H. apply total_order_chain. cbn. destruct (Z.eqb_spec c 0); [contradiction|reflexivity]. Qed.
Lemma chain_nFin_nZero c q q0 : c <> 0 -> total_le (Fin true c q) (Fin true 0 q0) = true /\ total_le (Fin true 0 q0) (Fin true c q) = false.
Proof. intros H. apply total_order_chain. cbn. destruct (Z.eqb_spec c 0); [contradiction|reflexivity]. Qed.
Lemma chain_nZero_pZero q q' : total_le (Fin true 0 q) (Fin false 0 q') = true /\ total_le (Fin false 0 q') (Fin true 0 q) = false.
Proof. apply total_order_chain. reflexivity. Qed.
Lemma chain_pZero_pFin c q q0 : c <> 0 -> total_le (Fin false 0 q0) (Fin false c q) = true /\ total_le (Fin false c q) (Fin false 0 q0) = false.
Proof. intros H. apply total_order_chain. cbn. destruct (Z.eqb_spec c 0); [contradiction|reflexivity]. Qed.
Lemma chain_pFin_pInf c q : total_le (Fin false c q) (Inf false) = true /\ total_le (Inf false) (Fin false c q) = false.
Proof. apply total_order_chain. cbn. destruct (c =? 0); reflexivity. Qed.
Lemma chain_pInf_pNaN sg p : total_le (Inf false) (NaN false sg p) = true /\ total_le (NaN false sg p) (Inf false) = false.
Proof. apply total_order_chain. reflexivity. Qed.

(* inner rules *)
(* numerically different finite values: by value *)
Theorem total_le_by_value sx cx qx sy cy qy : wf (Fin sx cx qx) -> wf (Fin sy cy qy) ->
  sval sx cx qx < sval sy cy qy ->
  total_le (Fin sx cx qx) (Fin sy cy qy) = true /\ total_le (Fin sy cy qy) (Fin sx cx qx) = false.
Proof.
  intros Wx Wy H. rewrite total_le_spec, total_le_spec_false by assumption. unfold total_spec. lia.
Qed.

(* numerically equal finite values of one sign (a cohort): by exponent, reversed when negative *)
Theorem total_le_cohort s cx qx cy qy : wf (Fin s cx qx) -> wf (Fin s cy qy) ->
  vkey cx qx = vkey cy qy ->
  total_le (Fin s cx qx) (Fin s cy qy) = if s then qy <=? qx else qx <=? qy.
Proof.
  intros Wx Wy H.
  assert (E : forall b c : bool, (b = true <-> c = true) -> b = c) by (intros [] []; intuition congruence).
  apply E. rewrite total_le_spec by assumption. unfold total_spec, sval. rewrite H.
  destruct s; rewrite Z.leb_le; lia.
Qed.

(* NaNs of one sign: signaling before quiet when positive, reversed when negative *)
Lemma total_le_nan_signaling p p' :
  total_le (NaN false true p) (NaN false false p') = true /\ total_le (NaN false false p') (NaN false true p) = false /\
  total_le (NaN true false p') (NaN true true p) = true /\ total_le (NaN true true p) (NaN true false p') = false.
Proof. repeat split; reflexivity. Qed.

(* same sign and signaling-ness: smaller payload first when positive, reversed when negative *)
Lemma total_le_nan_payload sg p p' :
  total_le (NaN false sg p) (NaN false sg p') = (p <=? p') /\
  total_le (NaN true sg p) (NaN true sg p') = (p' <=? p).
Proof. destruct sg; split; reflexivity. Qed.

(* ------------------------------------------------------------------------------------------------ *)
(* 6. the operations on bit patterns                                                                *)
(* ------------------------------------------------------------------------------------------------ *)

(* single outcome, result 0/1, no flag *)
Theorem m_total_order_out x y :
  m_total_order x y = [([if total_le (decode x) (decode y) then 1 else 0], 0)].
Proof. reflexivity. Qed.

Theorem m_total_order_mag_out x y :
  m_total_order_mag x y = [([if total_le (abs_dec (decode x)) (abs_dec (decode y)) then 1 else 0], 0)].
Proof. reflexivity. Qed.

Lemma m_total_order_true x y : m_total_order x y = [([1], 0)] <-> total_le (decode x) (decode y) = true.
Proof. unfold m_total_order, b2z. destruct (total_le _ _); split; (reflexivity || discriminate). Qed.
Lemma m_total_order_false x y : m_total_order x y = [([0], 0)] <-> total_le (decode x) (decode y) = false.
Proof. unfold m_total_order, b2z. destruct (total_le _ _); split; (reflexivity || discriminate). Qed.

Theorem m_total_order_spec x y : 0 <= x < P128 -> 0 <= y < P128 ->
  (m_total_order x y = [([1], 0)] <-> total_spec (decode x) (decode y)) /\
  (m_total_order x y = [([0], 0)] <-> ~ total_spec (decode x) (decode y)).
Proof.
  intros Hx Hy. pose proof (decode_wf x Hx) as Wx. pose proof (decode_wf y Hy) as Wy.
  rewrite m_total_order_true, m_total_order_false. split.
  - apply total_le_spec; assumption.
  - apply total_le_spec_false; assumption.
Qed.

(* order axioms over all patterns *)
Theorem m_total_order_refl x : 0 <= x < P128 -> m_total_order x x = [([1], 0)].
Proof. intros Hx. apply m_total_order_true, total_le_refl, decode_wf, Hx. Qed.

Theorem m_total_order_trans x y z : 0 <= x < P128 -> 0 <= y < P128 -> 0 <= z < P128 ->
  m_total_order x y = [([1], 0)] -> m_total_order y z = [([1], 0)] -> m_total_order x z = [([1], 0)].
Proof.
  intros Hx Hy Hz. rewrite !m_total_order_true. apply total_le_trans; apply decode_wf; assumption.
Qed.

Theorem m_total_order_total x y : 0 <= x < P128 -> 0 <= y < P128 ->
  m_total_order x y = [([1], 0)] \/ m_total_order y x = [([1], 0)].
Proof. intros Hx Hy. rewrite !m_total_order_true. apply total_le_total; apply decode_wf; assumption. Qed.

Theorem m_total_order_antisym x y : 0 <= x < P128 -> 0 <= y < P128 ->
  (m_total_order x y = [([1], 0)] /\ m_total_order y x = [([1], 0)] <-> decode x = decode y).
Proof. intros Hx Hy. rewrite !m_total_order_true. apply total_le_antisym; apply decode_wf; assumption. Qed.

(* non-canonical encodings rank as the canonical encodings of the values they denote *)
Theorem m_total_order_canonical x y : 0 <= x < P128 -> 0 <= y < P128 ->
  m_total_order x y = m_total_order (encode (decode x)) (encode (decode y)).
Proof.
  intros Hx Hy. unfold m_total_order.
  rewrite !decode_encode by (apply decode_wf; assumption). reflexivity.
Qed.

Theorem m_total_order_mag_canonical x y : 0 <= x < P128 -> 0 <= y < P128 ->
  m_total_order_mag x y = m_total_order_mag (encode (decode x)) (encode (decode y)).
Proof.
  intros Hx Hy. unfold m_total_order_mag.
  rewrite !decode_encode by (apply decode_wf; assumption). reflexivity.
Qed.

(* magnitude variant: clearing the sign bit of the encoding is abs on the datum *)
Lemma decode_clear_sign x : abs_dec (decode x) = decode (x mod P127).
Proof.
  unfold decode. rewrite Z.mod_mod by (unfold P127; lia).
  assert (S : (P127 <=? x mod P127) = false).
  { apply Z.leb_gt. apply Z.mod_pos_bound. unfold P127; lia. }
  rewrite S.
  destruct (_ =? 31); [reflexivity|]. destruct (_ =? 30); [reflexivity|]. destruct (24 <=? _); reflexivity.
Qed.

Theorem total_order_mag x y :
  m_total_order_mag x y = [([b2z (total_le (abs_dec (decode x)) (abs_dec (decode y)))], 0)] /\
  m_total_order_mag x y = m_total_order (x mod P127) (y mod P127).
Proof. split; [reflexivity|]. unfold m_total_order_mag, m_total_order. rewrite !decode_clear_sign. reflexivity. Qed.

Lemma abs_dec_wf d : wf d -> wf (abs_dec d).
Proof. destruct d; exact (fun H => H). Qed.

Lemma abs_dec_sign d : sign_of (abs_dec d) = false.
Proof. destruct d; reflexivity. Qed.

(* on sign-cleared operands the relation is the magnitude order *)
Lemma total_le_abs dx dy : total_le (abs_dec dx) (abs_dec dy) = total_le_mag dx dy.
Proof. unfold total_le. rewrite !abs_dec_sign. destruct dx, dy; reflexivity. Qed.

(* the chain on bit patterns *)
Theorem m_total_order_chain x y : chain_class (decode x) < chain_class (decode y) ->
  m_total_order x y = [([1], 0)] /\ m_total_order y x = [([0], 0)].
Proof.
  intros H. rewrite m_total_order_true, m_total_order_false. apply total_order_chain, H.
Qed.

(* the magnitude variant on bit patterns satisfies the specification on the absolute values *)
Theorem m_total_order_mag_spec x y : 0 <= x < P128 -> 0 <= y < P128 ->
  (m_total_order_mag x y = [([1], 0)] <-> total_spec (abs_dec (decode x)) (abs_dec (decode y))) /\
  (m_total_order_mag x y = [([0], 0)] <-> ~ total_spec (abs_dec (decode x)) (abs_dec (decode y))).
Proof.
  intros Hx Hy. pose proof (abs_dec_wf _ (decode_wf x Hx)) as Wx. pose proof (abs_dec_wf _ (decode_wf y Hy)) as Wy.
  pose proof (total_le_spec _ _ Wx Wy) as S. pose proof (total_le_spec_false _ _ Wx Wy) as F.
  unfold m_total_order_mag, b2z. destruct (total_le _ _); split; split; intros H;
    try reflexivity; try discriminate; try (apply S; reflexivity); try (apply F; reflexivity);
    try (apply S in H; discriminate); try (apply F in H; discriminate).
Qed.
