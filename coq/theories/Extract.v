(* Extraction of the executable model (ExtrOcamlBasic only; Z, positive, N, nat stay Coq's inductives). *)
From Coq Require Import ZArith List.
From DV Require Import Base Bid Arith OpsArith OpsCmp OpsMisc OpsConv OpsStr Judge TinyAfter.
Require Import Extraction ExtrOcamlBasic.
Extraction Language OCaml.
Extraction "model.ml" expected judge expect_list md_of expected_ta expected_ta_kf.
