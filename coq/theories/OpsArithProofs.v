(* Bit-level theorems for the arithmetic operations: on finite operands the single accepted outcome is the
   encoding of a datum satisfying ieee_result for the real-number value; special operands follow the
   IEEE 754-2008 tables; every accepted result is a canonical encoding. *)
From Coq Require Import ZArith Reals Lia Lra Bool List.
From Flocq Require Import Core.Core Calc.Bracket.
From DV Require Import Base RoundProofs Bid BidProofs Arith ArithProofs OpsArith.
Import ListNotations.
Open Scope Z_scope.

Lemma T34_eq : T34 = 10 ^ 34. Proof. reflexivity. Qed.

Lemma decode_fin_bounds x s c q : 0 <= x < P128 -> decode x = Fin s c q -> 0 <= c < 10 ^ 34 /\ -6176 <= q <= 6111.
Proof. intros Hx E. pose proof (decode_wf x Hx) as W. rewrite E in W. cbn [wf] in W. rewrite T34_eq in W. exact W. Qed.

(* a datum satisfying ieee_result is well formed, hence its encoding is canonical *)
Lemma ieee_result_wf md x pref zs d fl : ieee_result md x pref zs d fl -> wf d.
Proof.
  unfold ieee_result. destruct (Rlt_bool MAXV (Rabs (rounded md x))).
  - intros [-> _]. unfold overflow_result. destruct (to_inf md (Rlt_bool x 0)); cbn [wf]; [exact I|].
    unfold MAXC, qmax. rewrite T34_eq. lia.
  - intros (s & c & q & -> & [Hc Hq] & _). cbn [wf]. rewrite T34_eq. unfold qmin, qmax in Hq. lia.
Qed.

Definition finite_result (md:rmode) (v:R) (pref:Z) (zs:bool) (l:list outcome) : Prop :=
  exists d fl, l = [([encode d], flbits fl)] /\ ieee_result md v pref zs d fl /\ canonical_bits (encode d) = true.

Lemma fin_out_result md v pref zs (r : dec * flags) :
  (let '(d, fl) := r in ieee_result md v pref zs d fl) -> finite_result md v pref zs (fin_out r).
Proof.
  destruct r as [d fl]. intros H. exists d, fl. split; [reflexivity|]. split; [exact H|].
  apply encode_canonical. eapply ieee_result_wf; exact H.
Qed.

(* ---------- addition / subtraction ---------- *)
Theorem add_dec_finite md sx cx qx sy cy qy :
  0 <= cx < 10 ^ 34 -> 0 <= cy < 10 ^ 34 ->
  finite_result md (D2R (Fin sx cx qx) + D2R (Fin sy cy qy)) (Z.min qx qy) (zs_add md sx sy)
    (add_dec md (Fin sx cx qx) (Fin sy cy qy)).
Proof.
  intros Hx Hy. unfold add_dec. cbn [is_nan orb]. apply fin_out_result.
  apply add_gen_correct; assert (10 ^ 34 < 10 ^ 70) by (vm_compute; reflexivity); lia.
Qed.

Theorem m_add_finite md x y sx cx qx sy cy qy :
  0 <= x < P128 -> 0 <= y < P128 -> decode x = Fin sx cx qx -> decode y = Fin sy cy qy ->
  finite_result md (D2R (decode x) + D2R (decode y)) (Z.min qx qy) (zs_add md sx sy) (m_add md x y).
Proof.
  intros Hx Hy Ex Ey. unfold m_add. rewrite Ex, Ey.
  destruct (decode_fin_bounds x sx cx qx Hx Ex), (decode_fin_bounds y sy cy qy Hy Ey).
  apply add_dec_finite; assumption.
Qed.

Lemma D2R_neg s c q : D2R (Fin (negb s) c q) = (- D2R (Fin s c q))%R.
Proof. unfold D2R. rewrite !F2R_cond_Zopp. destruct s; simpl; ring. Qed.

Theorem m_sub_finite md x y sx cx qx sy cy qy :
  0 <= x < P128 -> 0 <= y < P128 -> decode x = Fin sx cx qx -> decode y = Fin sy cy qy ->
  finite_result md (D2R (decode x) - D2R (decode y)) (Z.min qx qy) (zs_add md sx (negb sy)) (m_sub md x y).
Proof.
  intros Hx Hy Ex Ey. unfold m_sub. rewrite Ex, Ey. cbn [is_nan neg_dec sign_of set_sign].
  unfold Rminus. rewrite <- D2R_neg.
  destruct (decode_fin_bounds x sx cx qx Hx Ex), (decode_fin_bounds y sy cy qy Hy Ey).
  apply add_dec_finite; assumption.
Qed.

(* subtraction is addition of the negated operand, for every non-NaN y *)
Theorem m_sub_is_add_neg md x y : is_nan (decode y) = false ->
  m_sub md x y = add_dec md (decode x) (neg_dec (decode y)).
Proof. intros H. unfold m_sub. rewrite H. reflexivity. Qed.

(* ---------- multiplication ---------- *)
Theorem m_mul_finite md x y sx cx qx sy cy qy :
  0 <= x < P128 -> 0 <= y < P128 -> decode x = Fin sx cx qx -> decode y = Fin sy cy qy ->
  finite_result md (D2R (decode x) * D2R (decode y)) (qx + qy) (xorb sx sy) (m_mul md x y).
Proof.
  intros Hx Hy Ex Ey. unfold m_mul. rewrite Ex, Ey. cbn [is_nan orb]. apply fin_out_result.
  destruct (decode_fin_bounds x sx cx qx Hx Ex), (decode_fin_bounds y sy cy qy Hy Ey).
  apply mul_fin_correct; lia.
Qed.

(* ---------- division ---------- *)
Theorem m_div_finite md x y sx cx qx sy cy qy :
  0 <= x < P128 -> 0 <= y < P128 -> decode x = Fin sx cx qx -> decode y = Fin sy cy qy ->
  cx <> 0 -> cy <> 0 ->
  finite_result md (D2R (decode x) / D2R (decode y)) (qx - qy) (xorb sx sy) (m_div md x y).
Proof.
  intros Hx Hy Ex Ey Nx Ny. unfold m_div. rewrite Ex, Ey. cbn [is_nan orb].
  destruct (Z.eqb_spec cy 0); [contradiction|]. destruct (Z.eqb_spec cx 0); [contradiction|].
  apply fin_out_result.
  destruct (decode_fin_bounds x sx cx qx Hx Ex), (decode_fin_bounds y sy cy qy Hy Ey).
  apply div_fin_correct; lia.
Qed.

(* ---------- square root ---------- *)
Theorem m_sqrt_finite md x cx qx :
  0 <= x < P128 -> decode x = Fin false cx qx -> cx <> 0 ->
  finite_result md (sqrt (D2R (decode x))) (Z.div2 qx) false (m_sqrt md x).
Proof.
  intros Hx Ex Nx. unfold m_sqrt. rewrite Ex. cbn [is_nan].
  destruct (Z.eqb_spec cx 0); [contradiction|]. apply fin_out_result.
  destruct (decode_fin_bounds x false cx qx Hx Ex). apply sqrt_fin_correct; lia.
Qed.

(* ---------- fused multiply-add ---------- *)
Theorem m_fma_finite md x y z sx cx qx sy cy qy sz cz qz :
  0 <= x < P128 -> 0 <= y < P128 -> 0 <= z < P128 ->
  decode x = Fin sx cx qx -> decode y = Fin sy cy qy -> decode z = Fin sz cz qz ->
  finite_result md (D2R (decode x) * D2R (decode y) + D2R (decode z)) (Z.min (qx + qy) qz)
    (zs_add md (xorb sx sy) sz) (m_fma md x y z).
Proof.
  intros Hx Hy Hz Ex Ey Ez. unfold m_fma. rewrite Ex, Ey, Ez. cbn [is_nan is_inf orb]. apply fin_out_result.
  destruct (decode_fin_bounds x sx cx qx Hx Ex), (decode_fin_bounds y sy cy qy Hy Ey), (decode_fin_bounds z sz cz qz Hz Ez).
  apply fma_fin_correct; assumption.
Qed.

(* ---------- NaN operands (C12): what nan_outcomes contains ---------- *)
Theorem nan_outcomes_spec ds o :
  In o (nan_outcomes ds) <->
  exists s sg p, In (NaN s sg p) ds /\ o = ([encode (NaN s false p)], if existsb is_snan ds then F_INV else 0).
Proof.
  unfold nan_outcomes. rewrite in_map_iff. split.
  - intros (d & <- & Hin). apply filter_In in Hin. destruct Hin as [Hin Hn].
    destruct d as [| |s sg p]; try discriminate. exists s, sg, p. split; [exact Hin|reflexivity].
  - intros (s & sg & p & Hin & ->). exists (NaN s sg p). split; [reflexivity|].
    apply filter_In. split; [exact Hin|reflexivity].
Qed.

Theorem nan_outcomes_nonempty ds : existsb is_nan ds = true -> nan_outcomes ds <> [].
Proof.
  intros H. apply existsb_exists in H. destruct H as (d & Hin & Hn). unfold nan_outcomes.
  intros E. assert (In d (filter is_nan ds)) by (apply filter_In; auto).
  destruct (filter is_nan ds); [contradiction|discriminate].
Qed.

(* every arithmetic operation hands NaN operands to nan_outcomes *)
Theorem arith_nan_operands md x y z :
  (is_nan (decode x) || is_nan (decode y) = true -> m_add md x y = nan_outcomes [decode x; decode y]) /\
  (is_nan (decode x) || is_nan (decode y) = true -> m_sub md x y = nan_outcomes [decode x; decode y]) /\
  (is_nan (decode x) || is_nan (decode y) = true -> m_mul md x y = nan_outcomes [decode x; decode y]) /\
  (is_nan (decode x) || is_nan (decode y) = true -> m_div md x y = nan_outcomes [decode x; decode y]) /\
  (is_nan (decode x) = true -> m_sqrt md x = nan_outcomes [decode x]) /\
  (is_nan (decode x) || is_nan (decode y) || is_nan (decode z) = true -> m_fma md x y z = nan_outcomes [decode x; decode y; decode z]).
Proof.
  repeat split; intros H.
  - unfold m_add, add_dec. now rewrite H.
  - unfold m_sub, add_dec. destruct (is_nan (decode y)) eqn:Ey.
    + rewrite Ey, orb_true_r. reflexivity.
    + rewrite orb_false_r in H. rewrite H. cbn [orb]. 
      destruct (decode x); try discriminate. destruct (decode y); try discriminate; reflexivity.
  - unfold m_mul. now rewrite H.
  - unfold m_div. now rewrite H.
  - unfold m_sqrt. now rewrite H.
  - unfold m_fma. now rewrite H.
Qed.

(* ---------- infinities and invalid operations (IEEE 754-2008 6.1, 7.2, 7.3) ---------- *)
Theorem add_specials md s s' sy cy qy :
  add_dec md (Inf s) (Inf s') = (if Bool.eqb s s' then out1 (Inf s) 0 else invalid_out) /\
  add_dec md (Inf s) (Fin sy cy qy) = out1 (Inf s) 0 /\
  add_dec md (Fin sy cy qy) (Inf s) = out1 (Inf s) 0.
Proof. repeat split. Qed.

Theorem mul_specials md x y :
  is_nan (decode x) = false -> is_nan (decode y) = false -> is_inf (decode x) || is_inf (decode y) = true ->
  m_mul md x y = if is_zero (decode x) || is_zero (decode y) then invalid_out
                 else out1 (Inf (xorb (sign_of (decode x)) (sign_of (decode y)))) 0.
Proof.
  intros Nx Ny H. unfold m_mul. rewrite Nx, Ny. cbn [orb].
  destruct (decode x) as [sx cx qx|sx|]; destruct (decode y) as [sy cy qy|sy|]; try discriminate; cbn [is_zero orb sign_of];
    try reflexivity; try (destruct cx; reflexivity); try (destruct cy; cbn; rewrite ?orb_false_r; reflexivity).
Qed.

Theorem div_specials md sx sy cx qx cy qy :
  (forall x y, decode x = Inf sx -> decode y = Inf sy -> m_div md x y = invalid_out) /\
  (forall x y, decode x = Inf sx -> decode y = Fin sy cy qy -> m_div md x y = out1 (Inf (xorb sx sy)) 0) /\
  (forall x y, decode x = Fin sx cx qx -> decode y = Inf sy -> m_div md x y = out1 (Fin (xorb sx sy) 0 qmin) 0) /\
  (forall x y, decode x = Fin sx 0 qx -> decode y = Fin sy 0 qy -> m_div md x y = invalid_out) /\
  (forall x y, decode x = Fin sx cx qx -> cx <> 0 -> decode y = Fin sy 0 qy -> m_div md x y = out1 (Inf (xorb sx sy)) F_DBZ) /\
  (forall x y, decode x = Fin sx 0 qx -> decode y = Fin sy cy qy -> cy <> 0 -> m_div md x y = out1 (Fin (xorb sx sy) 0 (clampq (qx - qy))) 0).
Proof.
  repeat split; intros x y; unfold m_div.
  - intros -> ->. reflexivity.
  - intros -> ->. reflexivity.
  - intros -> ->. reflexivity.
  - intros -> ->. reflexivity.
  - intros -> N ->. cbn [is_nan orb sign_of]. cbn [Z.eqb]. destruct (Z.eqb_spec cx 0); [contradiction|reflexivity].
  - intros -> -> N. cbn [is_nan orb sign_of]. destruct (Z.eqb_spec cy 0); [contradiction|]. reflexivity.
Qed.

Theorem sqrt_specials md x :
  (decode x = Inf false -> m_sqrt md x = out1 (Inf false) 0) /\
  (decode x = Inf true -> m_sqrt md x = invalid_out) /\
  (forall s q, decode x = Fin s 0 q -> m_sqrt md x = out1 (Fin s 0 (Z.div2 q)) 0) /\
  (forall c q, decode x = Fin true c q -> c <> 0 -> m_sqrt md x = invalid_out).
Proof.
  unfold m_sqrt. repeat split.
  - intros ->. reflexivity.
  - intros ->. reflexivity.
  - intros s q ->. reflexivity.
  - intros c q -> N. cbn [is_nan]. destruct (Z.eqb_spec c 0); [contradiction|reflexivity].
Qed.

Theorem fma_specials md x y z :
  is_nan (decode x) = false -> is_nan (decode y) = false -> is_nan (decode z) = false ->
  let sp := xorb (sign_of (decode x)) (sign_of (decode y)) in
  (is_inf (decode x) || is_inf (decode y) = true ->
     m_fma md x y z = if is_zero (decode x) || is_zero (decode y) then invalid_out
                      else match decode z with
                           | Inf sz => if Bool.eqb sz sp then out1 (Inf sp) 0 else invalid_out
                           | _ => out1 (Inf sp) 0 end) /\
  (is_inf (decode x) || is_inf (decode y) = false -> forall sz, decode z = Inf sz -> m_fma md x y z = out1 (Inf sz) 0).
Proof.
  intros Nx Ny Nz sp. unfold m_fma. rewrite Nx, Ny, Nz. cbn [orb]. split.
  - intros ->. reflexivity.
  - intros -> sz ->. destruct (decode x), (decode y); try discriminate; reflexivity.
Qed.

(* the sign of an exact zero sum *)
Example zs_add_table : zs_add RNE false true = false /\ zs_add RDN false true = true /\ zs_add RDN true true = true /\ zs_add RUP true true = true /\ zs_add RTZ true false = false.
Proof. repeat split. Qed.
