
val xorb : bool -> bool -> bool

val negb : bool -> bool

type nat =
| O
| S of nat

val fst : ('a1 * 'a2) -> 'a1

val snd : ('a1 * 'a2) -> 'a2

type comparison =
| Eq
| Lt
| Gt

val compOpp : comparison -> comparison

type positive =
| XI of positive
| XO of positive
| XH

type n =
| N0
| Npos of positive

type z =
| Z0
| Zpos of positive
| Zneg of positive

val eqb : bool -> bool -> bool

module Pos :
 sig
  type mask =
  | IsNul
  | IsPos of positive
  | IsNeg
 end

module Coq_Pos :
 sig
  val succ : positive -> positive

  val add : positive -> positive -> positive

  val add_carry : positive -> positive -> positive

  val pred_double : positive -> positive

  val pred_N : positive -> n

  type mask = Pos.mask =
  | IsNul
  | IsPos of positive
  | IsNeg

  val succ_double_mask : mask -> mask

  val double_mask : mask -> mask

  val double_pred_mask : positive -> mask

  val sub_mask : positive -> positive -> mask

  val sub_mask_carry : positive -> positive -> mask

  val mul : positive -> positive -> positive

  val iter : ('a1 -> 'a1) -> 'a1 -> positive -> 'a1

  val div2 : positive -> positive

  val div2_up : positive -> positive

  val compare_cont : comparison -> positive -> positive -> comparison

  val compare : positive -> positive -> comparison

  val eqb : positive -> positive -> bool

  val leb : positive -> positive -> bool

  val sqrtrem_step :
    (positive -> positive) -> (positive -> positive) -> (positive * mask) ->
    positive * mask

  val sqrtrem : positive -> positive * mask

  val coq_Nsucc_double : n -> n

  val coq_Ndouble : n -> n

  val coq_lor : positive -> positive -> positive

  val coq_land : positive -> positive -> n

  val ldiff : positive -> positive -> n
 end

module N :
 sig
  val succ_pos : n -> positive

  val coq_land : n -> n -> n

  val ldiff : n -> n -> n
 end

module Z :
 sig
  val double : z -> z

  val succ_double : z -> z

  val pred_double : z -> z

  val pos_sub : positive -> positive -> z

  val add : z -> z -> z

  val opp : z -> z

  val sub : z -> z -> z

  val mul : z -> z -> z

  val pow_pos : z -> positive -> z

  val pow : z -> z -> z

  val compare : z -> z -> comparison

  val leb : z -> z -> bool

  val ltb : z -> z -> bool

  val gtb : z -> z -> bool

  val eqb : z -> z -> bool

  val max : z -> z -> z

  val min : z -> z -> z

  val abs : z -> z

  val pos_div_eucl : positive -> z -> z * z

  val div_eucl : z -> z -> z * z

  val div : z -> z -> z

  val modulo : z -> z -> z

  val even : z -> bool

  val div2 : z -> z

  val sqrtrem : z -> z * z

  val coq_lor : z -> z -> z
 end

val zeq_bool : z -> z -> bool

val map : ('a1 -> 'a2) -> 'a1 list -> 'a2 list

val existsb : ('a1 -> bool) -> 'a1 list -> bool

val filter : ('a1 -> bool) -> 'a1 list -> 'a1 list

type location =
| Loc_Exact
| Loc_Inexact of comparison

val cond_Zopp : bool -> z -> z

type radix = z
  (* singleton inductive, whose constructor was Build_radix *)

val radix_val : radix -> z

type float = { fnum : z; fexp : z }

val digits2_Pnat : positive -> nat

val zdigits_aux : radix -> z -> z -> z -> nat -> z

val zdigits : radix -> z -> z

val fLT_exp : z -> z -> z -> z

val new_location_even : z -> z -> location -> location

val new_location_odd : z -> z -> location -> location

val new_location : z -> z -> location -> location

val cond_incr : bool -> z -> z

val round_sign_DN : bool -> location -> bool

val round_sign_UP : bool -> location -> bool

val round_N : bool -> location -> bool

val truncate_aux : radix -> ((z * z) * location) -> z -> (z * z) * location

val truncate : radix -> (z -> z) -> ((z * z) * location) -> (z * z) * location

val radix10 : radix

val qmin : z

val qmax : z

val prec : z

val fexp0 : z -> z

type rmode =
| RNE
| RDN
| RUP
| RTZ
| RNA

val choice : rmode -> bool -> z -> location -> z

val is_exact : location -> bool

type dec =
| Fin of bool * z * z
| Inf of bool
| NaN of bool * bool * z

val mAXC : z

val to_inf : rmode -> bool -> bool

val overflow_result : rmode -> bool -> dec

type flags = { f_inexact : bool; f_underflow : bool; f_overflow : bool }

val strip : nat -> z -> z -> z -> z * z

val round_pack :
  rmode -> bool -> z -> z -> location -> z -> bool -> dec * flags

val t34 : z

val t33 : z

val p110 : z

val p111 : z

val p113 : z

val p121 : z

val p122 : z

val p127 : z

val decode : z -> dec

val encode : dec -> z

val sign_of : dec -> bool

val set_sign : bool -> dec -> dec

val is_nan : dec -> bool

val is_snan : dec -> bool

val is_inf : dec -> bool

val is_zero : dec -> bool

val quiet : dec -> dec

val qNAN : dec

val f_INV : z

val f_DBZ : z

val f_OVF : z

val f_UNF : z

val f_INX : z

val flbits : flags -> z

val md_of : z -> rmode

val fdiv_core : radix -> z -> z -> z -> z -> z -> z * location

val fdiv : radix -> (z -> z) -> float -> float -> (z * z) * location

val fsqrt_core : radix -> z -> z -> z -> z * location

val fsqrt : radix -> (z -> z) -> float -> (z * z) * location

val shortcut : z -> z -> location -> (z * z) * location

val rp : rmode -> bool -> z -> z -> location -> z -> bool -> dec * flags

val sval : bool -> z -> z

val zs_add : rmode -> bool -> bool -> bool

val add_fin : rmode -> bool -> z -> z -> bool -> z -> z -> dec * flags

val add_far : rmode -> bool -> z -> z -> bool -> z -> bool -> dec * flags

val fARGAP : z

val add_gen : rmode -> bool -> z -> z -> bool -> z -> z -> dec * flags

val mul_fin : rmode -> bool -> z -> z -> bool -> z -> z -> dec * flags

val fma_fin :
  rmode -> bool -> z -> z -> bool -> z -> z -> bool -> z -> z -> dec * flags

val div_fin : rmode -> bool -> z -> z -> bool -> z -> z -> dec * flags

val sqrt_fin : rmode -> z -> z -> dec * flags

type outcome = z list * z

val nan_outcomes : dec list -> outcome list

val out1 : dec -> z -> outcome list

val fin_out : (dec * flags) -> outcome list

val invalid_out : outcome list

val neg_dec : dec -> dec

val clampq : z -> z

val add_dec : rmode -> dec -> dec -> outcome list

val m_add : rmode -> z -> z -> outcome list

val m_sub : rmode -> z -> z -> outcome list

val m_mul : rmode -> z -> z -> outcome list

val m_div : rmode -> z -> z -> outcome list

val m_sqrt : rmode -> z -> outcome list

val m_fma : rmode -> z -> z -> z -> outcome list

type expect =
| Exact of outcome list
| Pred of (z list -> bool) * z list

type op =
| OAdd
| OSub
| OMul
| ODiv
| OSqrt
| OFma

val expected : op -> rmode -> z list -> expect

val list_eqb : z list -> z list -> bool

val judge : expect -> z -> z list -> z -> bool

val expect_list : expect -> outcome list
