
(** val xorb : bool -> bool -> bool **)

let xorb b1 b2 =
  if b1 then if b2 then false else true else b2

(** val negb : bool -> bool **)

let negb = function
| true -> false
| false -> true

type nat =
| O
| S of nat

(** val fst : ('a1 * 'a2) -> 'a1 **)

let fst = function
| (x, _) -> x

(** val snd : ('a1 * 'a2) -> 'a2 **)

let snd = function
| (_, y) -> y

type comparison =
| Eq
| Lt
| Gt

(** val compOpp : comparison -> comparison **)

let compOpp = function
| Eq -> Eq
| Lt -> Gt
| Gt -> Lt

type positive =
| XI of positive
| XO of positive
| XH

type n =
| N0
| Npos of positive

type z =
| Z0
| Zpos of positive
| Zneg of positive

(** val eqb : bool -> bool -> bool **)

let eqb b1 b2 =
  if b1 then b2 else if b2 then false else true

module Pos =
 struct
  type mask =
  | IsNul
  | IsPos of positive
  | IsNeg
 end

module Coq_Pos =
 struct
  (** val succ : positive -> positive **)

  let rec succ = function
  | XI p -> XO (succ p)
  | XO p -> XI p
  | XH -> XO XH

  (** val add : positive -> positive -> positive **)

  let rec add x y =
    match x with
    | XI p ->
      (match y with
       | XI q -> XO (add_carry p q)
       | XO q -> XI (add p q)
       | XH -> XO (succ p))
    | XO p ->
      (match y with
       | XI q -> XI (add p q)
       | XO q -> XO (add p q)
       | XH -> XI p)
    | XH -> (match y with
             | XI q -> XO (succ q)
             | XO q -> XI q
             | XH -> XO XH)

  (** val add_carry : positive -> positive -> positive **)

  and add_carry x y =
    match x with
    | XI p ->
      (match y with
       | XI q -> XI (add_carry p q)
       | XO q -> XO (add_carry p q)
       | XH -> XI (succ p))
    | XO p ->
      (match y with
       | XI q -> XO (add_carry p q)
       | XO q -> XI (add p q)
       | XH -> XO (succ p))
    | XH ->
      (match y with
       | XI q -> XI (succ q)
       | XO q -> XO (succ q)
       | XH -> XI XH)

  (** val pred_double : positive -> positive **)

  let rec pred_double = function
  | XI p -> XI (XO p)
  | XO p -> XI (pred_double p)
  | XH -> XH

  (** val pred_N : positive -> n **)

  let pred_N = function
  | XI p -> Npos (XO p)
  | XO p -> Npos (pred_double p)
  | XH -> N0

  type mask = Pos.mask =
  | IsNul
  | IsPos of positive
  | IsNeg

  (** val succ_double_mask : mask -> mask **)

  let succ_double_mask = function
  | IsNul -> IsPos XH
  | IsPos p -> IsPos (XI p)
  | IsNeg -> IsNeg

  (** val double_mask : mask -> mask **)

  let double_mask = function
  | IsPos p -> IsPos (XO p)
  | x0 -> x0

  (** val double_pred_mask : positive -> mask **)

  let double_pred_mask = function
  | XI p -> IsPos (XO (XO p))
  | XO p -> IsPos (XO (pred_double p))
  | XH -> IsNul

  (** val sub_mask : positive -> positive -> mask **)

  let rec sub_mask x y =
    match x with
    | XI p ->
      (match y with
       | XI q -> double_mask (sub_mask p q)
       | XO q -> succ_double_mask (sub_mask p q)
       | XH -> IsPos (XO p))
    | XO p ->
      (match y with
       | XI q -> succ_double_mask (sub_mask_carry p q)
       | XO q -> double_mask (sub_mask p q)
       | XH -> IsPos (pred_double p))
    | XH -> (match y with
             | XH -> IsNul
             | _ -> IsNeg)

  (** val sub_mask_carry : positive -> positive -> mask **)

  and sub_mask_carry x y =
    match x with
    | XI p ->
      (match y with
       | XI q -> succ_double_mask (sub_mask_carry p q)
       | XO q -> double_mask (sub_mask p q)
       | XH -> IsPos (pred_double p))
    | XO p ->
      (match y with
       | XI q -> double_mask (sub_mask_carry p q)
       | XO q -> succ_double_mask (sub_mask_carry p q)
       | XH -> double_pred_mask p)
    | XH -> IsNeg

  (** val mul : positive -> positive -> positive **)

  let rec mul x y =
    match x with
    | XI p -> add y (XO (mul p y))
    | XO p -> XO (mul p y)
    | XH -> y

  (** val iter : ('a1 -> 'a1) -> 'a1 -> positive -> 'a1 **)

  let rec iter f x = function
  | XI n' -> f (iter f (iter f x n') n')
  | XO n' -> iter f (iter f x n') n'
  | XH -> f x

  (** val div2 : positive -> positive **)

  let div2 = function
  | XI p0 -> p0
  | XO p0 -> p0
  | XH -> XH

  (** val div2_up : positive -> positive **)

  let div2_up = function
  | XI p0 -> succ p0
  | XO p0 -> p0
  | XH -> XH

  (** val compare_cont : comparison -> positive -> positive -> comparison **)

  let rec compare_cont r x y =
    match x with
    | XI p ->
      (match y with
       | XI q -> compare_cont r p q
       | XO q -> compare_cont Gt p q
       | XH -> Gt)
    | XO p ->
      (match y with
       | XI q -> compare_cont Lt p q
       | XO q -> compare_cont r p q
       | XH -> Gt)
    | XH -> (match y with
             | XH -> r
             | _ -> Lt)

  (** val compare : positive -> positive -> comparison **)

  let compare =
    compare_cont Eq

  (** val eqb : positive -> positive -> bool **)

  let rec eqb p q =
    match p with
    | XI p0 -> (match q with
                | XI q0 -> eqb p0 q0
                | _ -> false)
    | XO p0 -> (match q with
                | XO q0 -> eqb p0 q0
                | _ -> false)
    | XH -> (match q with
             | XH -> true
             | _ -> false)

  (** val leb : positive -> positive -> bool **)

  let leb x y =
    match compare x y with
    | Gt -> false
    | _ -> true

  (** val sqrtrem_step :
      (positive -> positive) -> (positive -> positive) -> (positive * mask)
      -> positive * mask **)

  let sqrtrem_step f g = function
  | (s, y) ->
    (match y with
     | IsPos r ->
       let s' = XI (XO s) in
       let r' = g (f r) in
       if leb s' r' then ((XI s), (sub_mask r' s')) else ((XO s), (IsPos r'))
     | _ -> ((XO s), (sub_mask (g (f XH)) (XO (XO XH)))))

  (** val sqrtrem : positive -> positive * mask **)

  let rec sqrtrem = function
  | XI p0 ->
    (match p0 with
     | XI p1 -> sqrtrem_step (fun x -> XI x) (fun x -> XI x) (sqrtrem p1)
     | XO p1 -> sqrtrem_step (fun x -> XO x) (fun x -> XI x) (sqrtrem p1)
     | XH -> (XH, (IsPos (XO XH))))
  | XO p0 ->
    (match p0 with
     | XI p1 -> sqrtrem_step (fun x -> XI x) (fun x -> XO x) (sqrtrem p1)
     | XO p1 -> sqrtrem_step (fun x -> XO x) (fun x -> XO x) (sqrtrem p1)
     | XH -> (XH, (IsPos XH)))
  | XH -> (XH, IsNul)

  (** val coq_Nsucc_double : n -> n **)

  let coq_Nsucc_double = function
  | N0 -> Npos XH
  | Npos p -> Npos (XI p)

  (** val coq_Ndouble : n -> n **)

  let coq_Ndouble = function
  | N0 -> N0
  | Npos p -> Npos (XO p)

  (** val coq_lor : positive -> positive -> positive **)

  let rec coq_lor p q =
    match p with
    | XI p0 ->
      (match q with
       | XI q0 -> XI (coq_lor p0 q0)
       | XO q0 -> XI (coq_lor p0 q0)
       | XH -> p)
    | XO p0 ->
      (match q with
       | XI q0 -> XI (coq_lor p0 q0)
       | XO q0 -> XO (coq_lor p0 q0)
       | XH -> XI p0)
    | XH -> (match q with
             | XO q0 -> XI q0
             | _ -> q)

  (** val coq_land : positive -> positive -> n **)

  let rec coq_land p q =
    match p with
    | XI p0 ->
      (match q with
       | XI q0 -> coq_Nsucc_double (coq_land p0 q0)
       | XO q0 -> coq_Ndouble (coq_land p0 q0)
       | XH -> Npos XH)
    | XO p0 ->
      (match q with
       | XI q0 -> coq_Ndouble (coq_land p0 q0)
       | XO q0 -> coq_Ndouble (coq_land p0 q0)
       | XH -> N0)
    | XH -> (match q with
             | XO _ -> N0
             | _ -> Npos XH)

  (** val ldiff : positive -> positive -> n **)

  let rec ldiff p q =
    match p with
    | XI p0 ->
      (match q with
       | XI q0 -> coq_Ndouble (ldiff p0 q0)
       | XO q0 -> coq_Nsucc_double (ldiff p0 q0)
       | XH -> Npos (XO p0))
    | XO p0 ->
      (match q with
       | XI q0 -> coq_Ndouble (ldiff p0 q0)
       | XO q0 -> coq_Ndouble (ldiff p0 q0)
       | XH -> Npos p)
    | XH -> (match q with
             | XO _ -> Npos XH
             | _ -> N0)
 end

module N =
 struct
  (** val succ_pos : n -> positive **)

  let succ_pos = function
  | N0 -> XH
  | Npos p -> Coq_Pos.succ p

  (** val coq_land : n -> n -> n **)

  let coq_land n0 m =
    match n0 with
    | N0 -> N0
    | Npos p -> (match m with
                 | N0 -> N0
                 | Npos q -> Coq_Pos.coq_land p q)

  (** val ldiff : n -> n -> n **)

  let ldiff n0 m =
    match n0 with
    | N0 -> N0
    | Npos p -> (match m with
                 | N0 -> n0
                 | Npos q -> Coq_Pos.ldiff p q)
 end

module Z =
 struct
  (** val double : z -> z **)

  let double = function
  | Z0 -> Z0
  | Zpos p -> Zpos (XO p)
  | Zneg p -> Zneg (XO p)

  (** val succ_double : z -> z **)

  let succ_double = function
  | Z0 -> Zpos XH
  | Zpos p -> Zpos (XI p)
  | Zneg p -> Zneg (Coq_Pos.pred_double p)

  (** val pred_double : z -> z **)

  let pred_double = function
  | Z0 -> Zneg XH
  | Zpos p -> Zpos (Coq_Pos.pred_double p)
  | Zneg p -> Zneg (XI p)

  (** val pos_sub : positive -> positive -> z **)

  let rec pos_sub x y =
    match x with
    | XI p ->
      (match y with
       | XI q -> double (pos_sub p q)
       | XO q -> succ_double (pos_sub p q)
       | XH -> Zpos (XO p))
    | XO p ->
      (match y with
       | XI q -> pred_double (pos_sub p q)
       | XO q -> double (pos_sub p q)
       | XH -> Zpos (Coq_Pos.pred_double p))
    | XH ->
      (match y with
       | XI q -> Zneg (XO q)
       | XO q -> Zneg (Coq_Pos.pred_double q)
       | XH -> Z0)

  (** val add : z -> z -> z **)

  let add x y =
    match x with
    | Z0 -> y
    | Zpos x' ->
      (match y with
       | Z0 -> x
       | Zpos y' -> Zpos (Coq_Pos.add x' y')
       | Zneg y' -> pos_sub x' y')
    | Zneg x' ->
      (match y with
       | Z0 -> x
       | Zpos y' -> pos_sub y' x'
       | Zneg y' -> Zneg (Coq_Pos.add x' y'))

  (** val opp : z -> z **)

  let opp = function
  | Z0 -> Z0
  | Zpos x0 -> Zneg x0
  | Zneg x0 -> Zpos x0

  (** val sub : z -> z -> z **)

  let sub m n0 =
    add m (opp n0)

  (** val mul : z -> z -> z **)

  let mul x y =
    match x with
    | Z0 -> Z0
    | Zpos x' ->
      (match y with
       | Z0 -> Z0
       | Zpos y' -> Zpos (Coq_Pos.mul x' y')
       | Zneg y' -> Zneg (Coq_Pos.mul x' y'))
    | Zneg x' ->
      (match y with
       | Z0 -> Z0
       | Zpos y' -> Zneg (Coq_Pos.mul x' y')
       | Zneg y' -> Zpos (Coq_Pos.mul x' y'))

  (** val pow_pos : z -> positive -> z **)

  let pow_pos z0 =
    Coq_Pos.iter (mul z0) (Zpos XH)

  (** val pow : z -> z -> z **)

  let pow x = function
  | Z0 -> Zpos XH
  | Zpos p -> pow_pos x p
  | Zneg _ -> Z0

  (** val compare : z -> z -> comparison **)

  let compare x y =
    match x with
    | Z0 -> (match y with
             | Z0 -> Eq
             | Zpos _ -> Lt
             | Zneg _ -> Gt)
    | Zpos x' -> (match y with
                  | Zpos y' -> Coq_Pos.compare x' y'
                  | _ -> Gt)
    | Zneg x' ->
      (match y with
       | Zneg y' -> compOpp (Coq_Pos.compare x' y')
       | _ -> Lt)

  (** val leb : z -> z -> bool **)

  let leb x y =
    match compare x y with
    | Gt -> false
    | _ -> true

  (** val ltb : z -> z -> bool **)

  let ltb x y =
    match compare x y with
    | Lt -> true
    | _ -> false

  (** val gtb : z -> z -> bool **)

  let gtb x y =
    match compare x y with
    | Gt -> true
    | _ -> false

  (** val eqb : z -> z -> bool **)

  let eqb x y =
    match x with
    | Z0 -> (match y with
             | Z0 -> true
             | _ -> false)
    | Zpos p -> (match y with
                 | Zpos q -> Coq_Pos.eqb p q
                 | _ -> false)
    | Zneg p -> (match y with
                 | Zneg q -> Coq_Pos.eqb p q
                 | _ -> false)

  (** val max : z -> z -> z **)

  let max n0 m =
    match compare n0 m with
    | Lt -> m
    | _ -> n0

  (** val min : z -> z -> z **)

  let min n0 m =
    match compare n0 m with
    | Gt -> m
    | _ -> n0

  (** val abs : z -> z **)

  let abs = function
  | Zneg p -> Zpos p
  | x -> x

  (** val pos_div_eucl : positive -> z -> z * z **)

  let rec pos_div_eucl a b =
    match a with
    | XI a' ->
      let (q, r) = pos_div_eucl a' b in
      let r' = add (mul (Zpos (XO XH)) r) (Zpos XH) in
      if ltb r' b
      then ((mul (Zpos (XO XH)) q), r')
      else ((add (mul (Zpos (XO XH)) q) (Zpos XH)), (sub r' b))
    | XO a' ->
      let (q, r) = pos_div_eucl a' b in
      let r' = mul (Zpos (XO XH)) r in
      if ltb r' b
      then ((mul (Zpos (XO XH)) q), r')
      else ((add (mul (Zpos (XO XH)) q) (Zpos XH)), (sub r' b))
    | XH -> if leb (Zpos (XO XH)) b then (Z0, (Zpos XH)) else ((Zpos XH), Z0)

  (** val div_eucl : z -> z -> z * z **)

  let div_eucl a b =
    match a with
    | Z0 -> (Z0, Z0)
    | Zpos a' ->
      (match b with
       | Z0 -> (Z0, a)
       | Zpos _ -> pos_div_eucl a' b
       | Zneg b' ->
         let (q, r) = pos_div_eucl a' (Zpos b') in
         (match r with
          | Z0 -> ((opp q), Z0)
          | _ -> ((opp (add q (Zpos XH))), (add b r))))
    | Zneg a' ->
      (match b with
       | Z0 -> (Z0, a)
       | Zpos _ ->
         let (q, r) = pos_div_eucl a' b in
         (match r with
          | Z0 -> ((opp q), Z0)
          | _ -> ((opp (add q (Zpos XH))), (sub b r)))
       | Zneg b' -> let (q, r) = pos_div_eucl a' (Zpos b') in (q, (opp r)))

  (** val div : z -> z -> z **)

  let div a b =
    let (q, _) = div_eucl a b in q

  (** val modulo : z -> z -> z **)

  let modulo a b =
    let (_, r) = div_eucl a b in r

  (** val even : z -> bool **)

  let even = function
  | Z0 -> true
  | Zpos p -> (match p with
               | XO _ -> true
               | _ -> false)
  | Zneg p -> (match p with
               | XO _ -> true
               | _ -> false)

  (** val div2 : z -> z **)

  let div2 = function
  | Z0 -> Z0
  | Zpos p -> (match p with
               | XH -> Z0
               | _ -> Zpos (Coq_Pos.div2 p))
  | Zneg p -> Zneg (Coq_Pos.div2_up p)

  (** val sqrtrem : z -> z * z **)

  let sqrtrem = function
  | Zpos p ->
    let (s, m) = Coq_Pos.sqrtrem p in
    (match m with
     | Coq_Pos.IsPos r -> ((Zpos s), (Zpos r))
     | _ -> ((Zpos s), Z0))
  | _ -> (Z0, Z0)

  (** val coq_lor : z -> z -> z **)

  let coq_lor a b =
    match a with
    | Z0 -> b
    | Zpos a0 ->
      (match b with
       | Z0 -> a
       | Zpos b0 -> Zpos (Coq_Pos.coq_lor a0 b0)
       | Zneg b0 -> Zneg (N.succ_pos (N.ldiff (Coq_Pos.pred_N b0) (Npos a0))))
    | Zneg a0 ->
      (match b with
       | Z0 -> a
       | Zpos b0 -> Zneg (N.succ_pos (N.ldiff (Coq_Pos.pred_N a0) (Npos b0)))
       | Zneg b0 ->
         Zneg
           (N.succ_pos (N.coq_land (Coq_Pos.pred_N a0) (Coq_Pos.pred_N b0))))
 end

(** val zeq_bool : z -> z -> bool **)

let zeq_bool x y =
  match Z.compare x y with
  | Eq -> true
  | _ -> false

(** val map : ('a1 -> 'a2) -> 'a1 list -> 'a2 list **)

let rec map f = function
| [] -> []
| a :: t -> (f a) :: (map f t)

(** val existsb : ('a1 -> bool) -> 'a1 list -> bool **)

let rec existsb f = function
| [] -> false
| a :: l0 -> (||) (f a) (existsb f l0)

(** val filter : ('a1 -> bool) -> 'a1 list -> 'a1 list **)

let rec filter f = function
| [] -> []
| x :: l0 -> if f x then x :: (filter f l0) else filter f l0

type location =
| Loc_Exact
| Loc_Inexact of comparison

(** val cond_Zopp : bool -> z -> z **)

let cond_Zopp b m =
  if b then Z.opp m else m

type radix = z
  (* singleton inductive, whose constructor was Build_radix *)

(** val radix_val : radix -> z **)

let radix_val r =
  r

type float = { fnum : z; fexp : z }

(** val digits2_Pnat : positive -> nat **)

let rec digits2_Pnat = function
| XI p -> S (digits2_Pnat p)
| XO p -> S (digits2_Pnat p)
| XH -> O

(** val zdigits_aux : radix -> z -> z -> z -> nat -> z **)

let rec zdigits_aux beta p nb pow0 = function
| O -> nb
| S n1 ->
  if Z.ltb p pow0
  then nb
  else zdigits_aux beta p (Z.add nb (Zpos XH)) (Z.mul (radix_val beta) pow0)
         n1

(** val zdigits : radix -> z -> z **)

let zdigits beta n0 = match n0 with
| Z0 -> Z0
| Zpos p -> zdigits_aux beta n0 (Zpos XH) (radix_val beta) (digits2_Pnat p)
| Zneg p ->
  zdigits_aux beta (Zpos p) (Zpos XH) (radix_val beta) (digits2_Pnat p)

(** val fLT_exp : z -> z -> z -> z **)

let fLT_exp emin prec0 e =
  Z.max (Z.sub e prec0) emin

(** val new_location_even : z -> z -> location -> location **)

let new_location_even nb_steps k l =
  if zeq_bool k Z0
  then (match l with
        | Loc_Exact -> l
        | Loc_Inexact _ -> Loc_Inexact Lt)
  else Loc_Inexact
         (match Z.compare (Z.mul (Zpos (XO XH)) k) nb_steps with
          | Eq -> (match l with
                   | Loc_Exact -> Eq
                   | Loc_Inexact _ -> Gt)
          | x -> x)

(** val new_location_odd : z -> z -> location -> location **)

let new_location_odd nb_steps k l =
  if zeq_bool k Z0
  then (match l with
        | Loc_Exact -> l
        | Loc_Inexact _ -> Loc_Inexact Lt)
  else Loc_Inexact
         (match Z.compare (Z.add (Z.mul (Zpos (XO XH)) k) (Zpos XH)) nb_steps with
          | Eq -> (match l with
                   | Loc_Exact -> Lt
                   | Loc_Inexact l0 -> l0)
          | x -> x)

(** val new_location : z -> z -> location -> location **)

let new_location nb_steps =
  if Z.even nb_steps
  then new_location_even nb_steps
  else new_location_odd nb_steps

(** val cond_incr : bool -> z -> z **)

let cond_incr b m =
  if b then Z.add m (Zpos XH) else m

(** val round_sign_DN : bool -> location -> bool **)

let round_sign_DN s = function
| Loc_Exact -> false
| Loc_Inexact _ -> s

(** val round_sign_UP : bool -> location -> bool **)

let round_sign_UP s = function
| Loc_Exact -> false
| Loc_Inexact _ -> negb s

(** val round_N : bool -> location -> bool **)

let round_N p = function
| Loc_Exact -> false
| Loc_Inexact c -> (match c with
                    | Eq -> p
                    | Lt -> false
                    | Gt -> true)

(** val truncate_aux :
    radix -> ((z * z) * location) -> z -> (z * z) * location **)

let truncate_aux beta t k =
  let (y, l) = t in
  let (m, e) = y in
  let p = Z.pow (radix_val beta) k in
  (((Z.div m p), (Z.add e k)), (new_location p (Z.modulo m p) l))

(** val truncate :
    radix -> (z -> z) -> ((z * z) * location) -> (z * z) * location **)

let truncate beta fexp1 t = match t with
| (y, _) ->
  let (m, e) = y in
  let k = Z.sub (fexp1 (Z.add (zdigits beta m) e)) e in
  if Z.ltb Z0 k then truncate_aux beta t k else t

(** val radix10 : radix **)

let radix10 =
  Zpos (XO (XI (XO XH)))

(** val qmin : z **)

let qmin =
  Zneg (XO (XO (XO (XO (XO (XI (XO (XO (XO (XO (XO (XI XH))))))))))))

(** val qmax : z **)

let qmax =
  Zpos (XI (XI (XI (XI (XI (XO (XI (XI (XI (XI (XI (XO XH))))))))))))

(** val prec : z **)

let prec =
  Zpos (XO (XI (XO (XO (XO XH)))))

(** val fexp0 : z -> z **)

let fexp0 =
  fLT_exp qmin prec

type rmode =
| RNE
| RDN
| RUP
| RTZ
| RNA

(** val choice : rmode -> bool -> z -> location -> z **)

let choice m s c l =
  match m with
  | RNE -> cond_incr (round_N (negb (Z.even c)) l) c
  | RDN -> cond_incr (round_sign_DN s l) c
  | RUP -> cond_incr (round_sign_UP s l) c
  | RTZ -> c
  | RNA -> cond_incr (round_N true l) c

(** val is_exact : location -> bool **)

let is_exact = function
| Loc_Exact -> true
| Loc_Inexact _ -> false

type dec =
| Fin of bool * z * z
| Inf of bool
| NaN of bool * bool * z

(** val mAXC : z **)

let mAXC =
  Z.sub (Z.pow (Zpos (XO (XI (XO XH)))) (Zpos (XO (XI (XO (XO (XO XH)))))))
    (Zpos XH)

(** val to_inf : rmode -> bool -> bool **)

let to_inf m s =
  match m with
  | RDN -> s
  | RUP -> negb s
  | RTZ -> false
  | _ -> true

(** val overflow_result : rmode -> bool -> dec **)

let overflow_result m s =
  if to_inf m s then Inf s else Fin (s, mAXC, qmax)

type flags = { f_inexact : bool; f_underflow : bool; f_overflow : bool }

(** val strip : nat -> z -> z -> z -> z * z **)

let rec strip fuel c q pref =
  match fuel with
  | O -> (c, q)
  | S f ->
    if (&&)
         ((&&) (Z.ltb q pref)
           (Z.eqb (Z.modulo c (Zpos (XO (XI (XO XH))))) Z0)) (Z.ltb q qmax)
    then strip f (Z.div c (Zpos (XO (XI (XO XH))))) (Z.add q (Zpos XH)) pref
    else (c, q)

(** val round_pack :
    rmode -> bool -> z -> z -> location -> z -> bool -> dec * flags **)

let round_pack md s c e l pref zs =
  if (&&) (Z.eqb c Z0) (is_exact l)
  then ((Fin (zs, Z0, (Z.max qmin (Z.min qmax pref)))), { f_inexact = false;
         f_underflow = false; f_overflow = false })
  else let ce = fexp0 (Z.add (zdigits radix10 c) e) in
       let t0 =
         if (&&) (is_exact l) (Z.ltb ce e)
         then (((Z.mul c (Z.pow (Zpos (XO (XI (XO XH)))) (Z.sub e ce))), ce),
                l)
         else ((c, e), l)
       in
       let (p, l1) = truncate radix10 fexp0 t0 in
       let (c1, e1) = p in
       let c2 = choice md s c1 l1 in
       if Z.eqb c2
            (Z.pow (Zpos (XO (XI (XO XH)))) (Zpos (XO (XI (XO (XO (XO
              XH)))))))
       then let c3 =
              Z.pow (Zpos (XO (XI (XO XH)))) (Zpos (XI (XO (XO (XO (XO
                XH))))))
            in
            let e3 = Z.add e1 (Zpos XH) in
            let inx = negb (is_exact l1) in
            let tiny =
              Z.leb (Z.add (zdigits radix10 c) e) (Zneg (XI (XI (XI (XI (XI
                (XI (XI (XI (XI (XI (XI (XO XH)))))))))))))
            in
            if Z.gtb e3 qmax
            then ((overflow_result md s), { f_inexact = true; f_underflow =
                   false; f_overflow = true })
            else let (c4, e4) =
                   if inx
                   then (c3, e3)
                   else strip (S (S (S (S (S (S (S (S (S (S (S (S (S (S (S (S
                          (S (S (S (S (S (S (S (S (S (S (S (S (S (S (S (S (S
                          (S (S (S (S (S (S (S
                          O)))))))))))))))))))))))))))))))))))))))) c3 e3 pref
                 in
                 ((Fin (s, c4, e4)), { f_inexact = inx; f_underflow =
                 ((&&) inx tiny); f_overflow = false })
       else let inx = negb (is_exact l1) in
            let tiny =
              Z.leb (Z.add (zdigits radix10 c) e) (Zneg (XI (XI (XI (XI (XI
                (XI (XI (XI (XI (XI (XI (XO XH)))))))))))))
            in
            if Z.gtb e1 qmax
            then ((overflow_result md s), { f_inexact = true; f_underflow =
                   false; f_overflow = true })
            else let (c4, e4) =
                   if inx
                   then (c2, e1)
                   else strip (S (S (S (S (S (S (S (S (S (S (S (S (S (S (S (S
                          (S (S (S (S (S (S (S (S (S (S (S (S (S (S (S (S (S
                          (S (S (S (S (S (S (S
                          O)))))))))))))))))))))))))))))))))))))))) c2 e1 pref
                 in
                 ((Fin (s, c4, e4)), { f_inexact = inx; f_underflow =
                 ((&&) inx tiny); f_overflow = false })

(** val t34 : z **)

let t34 =
  Zpos (XO (XO (XO (XO (XO (XO (XO (XO (XO (XO (XO (XO (XO (XO (XO (XO (XO
    (XO (XO (XO (XO (XO (XO (XO (XO (XO (XO (XO (XO (XO (XO (XO (XO (XO (XI
    (XO (XO (XI (XI (XO (XO (XI (XI (XI (XO (XO (XO (XI (XI (XO (XI (XI (XO
    (XO (XO (XI (XI (XI (XI (XO (XI (XI (XO (XO (XO (XO (XO (XO (XO (XO (XI
    (XI (XI (XI (XI (XO (XO (XO (XO (XI (XI (XO (XI (XI (XO (XI (XO (XI (XO
    (XI (XI (XI (XI (XI (XO (XI (XI (XO (XO (XI (XO (XO (XO (XO (XI (XO (XI
    (XI (XO (XI (XI (XI
    XH))))))))))))))))))))))))))))))))))))))))))))))))))))))))))))))))))))))))))))))))))))))))))))))))))))))))))))))))

(** val t33 : z **)

let t33 =
  Zpos (XO (XO (XO (XO (XO (XO (XO (XO (XO (XO (XO (XO (XO (XO (XO (XO (XO
    (XO (XO (XO (XO (XO (XO (XO (XO (XO (XO (XO (XO (XO (XO (XO (XO (XI (XO
    (XI (XO (XO (XO (XO (XI (XI (XO (XI (XI (XO (XI (XO (XI (XO (XO (XO (XO
    (XO (XI (XI (XO (XO (XO (XI (XI (XI (XO (XO (XI (XI (XO (XO (XI (XO (XO
    (XI (XI (XO (XI (XI (XO (XO (XO (XI (XO (XO (XI (XO (XO (XO (XI (XO (XO
    (XI (XI (XO (XO (XO (XI (XI (XI (XO (XI (XI (XO (XO (XI (XO (XI (XO (XO
    (XO (XI
    XH)))))))))))))))))))))))))))))))))))))))))))))))))))))))))))))))))))))))))))))))))))))))))))))))))))))))))))))

(** val p110 : z **)

let p110 =
  Zpos (XO (XO (XO (XO (XO (XO (XO (XO (XO (XO (XO (XO (XO (XO (XO (XO (XO
    (XO (XO (XO (XO (XO (XO (XO (XO (XO (XO (XO (XO (XO (XO (XO (XO (XO (XO
    (XO (XO (XO (XO (XO (XO (XO (XO (XO (XO (XO (XO (XO (XO (XO (XO (XO (XO
    (XO (XO (XO (XO (XO (XO (XO (XO (XO (XO (XO (XO (XO (XO (XO (XO (XO (XO
    (XO (XO (XO (XO (XO (XO (XO (XO (XO (XO (XO (XO (XO (XO (XO (XO (XO (XO
    (XO (XO (XO (XO (XO (XO (XO (XO (XO (XO (XO (XO (XO (XO (XO (XO (XO (XO
    (XO (XO (XO
    XH))))))))))))))))))))))))))))))))))))))))))))))))))))))))))))))))))))))))))))))))))))))))))))))))))))))))))))))

(** val p111 : z **)

let p111 =
  Zpos (XO (XO (XO (XO (XO (XO (XO (XO (XO (XO (XO (XO (XO (XO (XO (XO (XO
    (XO (XO (XO (XO (XO (XO (XO (XO (XO (XO (XO (XO (XO (XO (XO (XO (XO (XO
    (XO (XO (XO (XO (XO (XO (XO (XO (XO (XO (XO (XO (XO (XO (XO (XO (XO (XO
    (XO (XO (XO (XO (XO (XO (XO (XO (XO (XO (XO (XO (XO (XO (XO (XO (XO (XO
    (XO (XO (XO (XO (XO (XO (XO (XO (XO (XO (XO (XO (XO (XO (XO (XO (XO (XO
    (XO (XO (XO (XO (XO (XO (XO (XO (XO (XO (XO (XO (XO (XO (XO (XO (XO (XO
    (XO (XO (XO (XO
    XH)))))))))))))))))))))))))))))))))))))))))))))))))))))))))))))))))))))))))))))))))))))))))))))))))))))))))))))))

(** val p113 : z **)

let p113 =
  Zpos (XO (XO (XO (XO (XO (XO (XO (XO (XO (XO (XO (XO (XO (XO (XO (XO (XO
    (XO (XO (XO (XO (XO (XO (XO (XO (XO (XO (XO (XO (XO (XO (XO (XO (XO (XO
    (XO (XO (XO (XO (XO (XO (XO (XO (XO (XO (XO (XO (XO (XO (XO (XO (XO (XO
    (XO (XO (XO (XO (XO (XO (XO (XO (XO (XO (XO (XO (XO (XO (XO (XO (XO (XO
    (XO (XO (XO (XO (XO (XO (XO (XO (XO (XO (XO (XO (XO (XO (XO (XO (XO (XO
    (XO (XO (XO (XO (XO (XO (XO (XO (XO (XO (XO (XO (XO (XO (XO (XO (XO (XO
    (XO (XO (XO (XO (XO (XO
    XH)))))))))))))))))))))))))))))))))))))))))))))))))))))))))))))))))))))))))))))))))))))))))))))))))))))))))))))))))

(** val p121 : z **)

let p121 =
  Zpos (XO (XO (XO (XO (XO (XO (XO (XO (XO (XO (XO (XO (XO (XO (XO (XO (XO
    (XO (XO (XO (XO (XO (XO (XO (XO (XO (XO (XO (XO (XO (XO (XO (XO (XO (XO
    (XO (XO (XO (XO (XO (XO (XO (XO (XO (XO (XO (XO (XO (XO (XO (XO (XO (XO
    (XO (XO (XO (XO (XO (XO (XO (XO (XO (XO (XO (XO (XO (XO (XO (XO (XO (XO
    (XO (XO (XO (XO (XO (XO (XO (XO (XO (XO (XO (XO (XO (XO (XO (XO (XO (XO
    (XO (XO (XO (XO (XO (XO (XO (XO (XO (XO (XO (XO (XO (XO (XO (XO (XO (XO
    (XO (XO (XO (XO (XO (XO (XO (XO (XO (XO (XO (XO (XO (XO
    XH)))))))))))))))))))))))))))))))))))))))))))))))))))))))))))))))))))))))))))))))))))))))))))))))))))))))))))))))))))))))))

(** val p122 : z **)

let p122 =
  Zpos (XO (XO (XO (XO (XO (XO (XO (XO (XO (XO (XO (XO (XO (XO (XO (XO (XO
    (XO (XO (XO (XO (XO (XO (XO (XO (XO (XO (XO (XO (XO (XO (XO (XO (XO (XO
    (XO (XO (XO (XO (XO (XO (XO (XO (XO (XO (XO (XO (XO (XO (XO (XO (XO (XO
    (XO (XO (XO (XO (XO (XO (XO (XO (XO (XO (XO (XO (XO (XO (XO (XO (XO (XO
    (XO (XO (XO (XO (XO (XO (XO (XO (XO (XO (XO (XO (XO (XO (XO (XO (XO (XO
    (XO (XO (XO (XO (XO (XO (XO (XO (XO (XO (XO (XO (XO (XO (XO (XO (XO (XO
    (XO (XO (XO (XO (XO (XO (XO (XO (XO (XO (XO (XO (XO (XO (XO
    XH))))))))))))))))))))))))))))))))))))))))))))))))))))))))))))))))))))))))))))))))))))))))))))))))))))))))))))))))))))))))))

(** val p127 : z **)

let p127 =
  Zpos (XO (XO (XO (XO (XO (XO (XO (XO (XO (XO (XO (XO (XO (XO (XO (XO (XO
    (XO (XO (XO (XO (XO (XO (XO (XO (XO (XO (XO (XO (XO (XO (XO (XO (XO (XO
    (XO (XO (XO (XO (XO (XO (XO (XO (XO (XO (XO (XO (XO (XO (XO (XO (XO (XO
    (XO (XO (XO (XO (XO (XO (XO (XO (XO (XO (XO (XO (XO (XO (XO (XO (XO (XO
    (XO (XO (XO (XO (XO (XO (XO (XO (XO (XO (XO (XO (XO (XO (XO (XO (XO (XO
    (XO (XO (XO (XO (XO (XO (XO (XO (XO (XO (XO (XO (XO (XO (XO (XO (XO (XO
    (XO (XO (XO (XO (XO (XO (XO (XO (XO (XO (XO (XO (XO (XO (XO (XO (XO (XO
    (XO (XO
    XH)))))))))))))))))))))))))))))))))))))))))))))))))))))))))))))))))))))))))))))))))))))))))))))))))))))))))))))))))))))))))))))))

(** val decode : z -> dec **)

let decode b =
  let s = Z.leb p127 b in
  let r = Z.modulo b p127 in
  let g5 = Z.div r p122 in
  if Z.eqb g5 (Zpos (XI (XI (XI (XI XH)))))
  then let p = Z.modulo r p110 in
       NaN (s, (Z.leb (Zpos XH) (Z.modulo (Z.div r p121) (Zpos (XO XH)))),
       (if Z.ltb p t33 then p else Z0))
  else if Z.eqb g5 (Zpos (XO (XI (XI (XI XH)))))
       then Inf s
       else if Z.leb (Zpos (XO (XO (XO (XI XH))))) g5
            then Fin (s, Z0,
                   (Z.sub
                     (Z.modulo (Z.div r p111) (Zpos (XO (XO (XO (XO (XO (XO
                       (XO (XO (XO (XO (XO (XO (XO (XO XH))))))))))))))))
                     (Zpos (XO (XO (XO (XO (XO (XI (XO (XO (XO (XO (XO (XI
                     XH)))))))))))))))
            else let c = Z.modulo r p113 in
                 Fin (s, (if Z.ltb c t34 then c else Z0),
                 (Z.sub (Z.div r p113) (Zpos (XO (XO (XO (XO (XO (XI (XO (XO
                   (XO (XO (XO (XI XH)))))))))))))))

(** val encode : dec -> z **)

let encode = function
| Fin (s, c, q) ->
  Z.add
    (Z.add (if s then p127 else Z0)
      (Z.mul
        (Z.add q (Zpos (XO (XO (XO (XO (XO (XI (XO (XO (XO (XO (XO (XI
          XH)))))))))))))) p113)) c
| Inf s ->
  Z.add (if s then p127 else Z0) (Z.mul (Zpos (XO (XI (XI (XI XH))))) p122)
| NaN (s, sg, p) ->
  Z.add
    (Z.add
      (Z.add (if s then p127 else Z0)
        (Z.mul (Zpos (XI (XI (XI (XI XH))))) p122)) (if sg then p121 else Z0))
    p

(** val sign_of : dec -> bool **)

let sign_of = function
| Fin (s, _, _) -> s
| Inf s -> s
| NaN (s, _, _) -> s

(** val set_sign : bool -> dec -> dec **)

let set_sign s = function
| Fin (_, c, q) -> Fin (s, c, q)
| Inf _ -> Inf s
| NaN (_, sg, p) -> NaN (s, sg, p)

(** val is_nan : dec -> bool **)

let is_nan = function
| NaN (_, _, _) -> true
| _ -> false

(** val is_snan : dec -> bool **)

let is_snan = function
| NaN (_, sg, _) -> sg
| _ -> false

(** val is_inf : dec -> bool **)

let is_inf = function
| Inf _ -> true
| _ -> false

(** val is_zero : dec -> bool **)

let is_zero = function
| Fin (_, c, _) -> (match c with
                    | Z0 -> true
                    | _ -> false)
| _ -> false

(** val quiet : dec -> dec **)

let quiet d = match d with
| NaN (s, _, p) -> NaN (s, false, p)
| _ -> d

(** val qNAN : dec **)

let qNAN =
  NaN (false, false, Z0)

(** val f_INV : z **)

let f_INV =
  Zpos XH

(** val f_DBZ : z **)

let f_DBZ =
  Zpos (XO (XO XH))

(** val f_OVF : z **)

let f_OVF =
  Zpos (XO (XO (XO XH)))

(** val f_UNF : z **)

let f_UNF =
  Zpos (XO (XO (XO (XO XH))))

(** val f_INX : z **)

let f_INX =
  Zpos (XO (XO (XO (XO (XO XH)))))

(** val flbits : flags -> z **)

let flbits f =
  Z.add
    (Z.add (if f.f_inexact then f_INX else Z0)
      (if f.f_underflow then f_UNF else Z0))
    (if f.f_overflow then f_OVF else Z0)

(** val md_of : z -> rmode **)

let md_of = function
| Z0 -> RNE
| Zpos p ->
  (match p with
   | XI p0 -> (match p0 with
               | XH -> RTZ
               | _ -> RNA)
   | XO p0 -> (match p0 with
               | XH -> RUP
               | _ -> RNA)
   | XH -> RDN)
| Zneg _ -> RNA

(** val fdiv_core : radix -> z -> z -> z -> z -> z -> z * location **)

let fdiv_core beta m1 e1 m2 e2 e =
  if Z.leb e (Z.sub e1 e2)
  then let m1' = Z.mul m1 (Z.pow (radix_val beta) (Z.sub (Z.sub e1 e2) e)) in
       let (q, r) = Z.div_eucl m1' m2 in (q, (new_location m2 r Loc_Exact))
  else let m2' = Z.mul m2 (Z.pow (radix_val beta) (Z.sub e (Z.sub e1 e2))) in
       let (q, r) = Z.div_eucl m1 m2' in (q, (new_location m2' r Loc_Exact))

(** val fdiv : radix -> (z -> z) -> float -> float -> (z * z) * location **)

let fdiv beta fexp1 x y =
  let { fnum = m1; fexp = e1 } = x in
  let { fnum = m2; fexp = e2 } = y in
  let e' = Z.sub (Z.add (zdigits beta m1) e1) (Z.add (zdigits beta m2) e2) in
  let e = Z.min (Z.min (fexp1 e') (fexp1 (Z.add e' (Zpos XH)))) (Z.sub e1 e2)
  in
  let (m, l) = fdiv_core beta m1 e1 m2 e2 e in ((m, e), l)

(** val fsqrt_core : radix -> z -> z -> z -> z * location **)

let fsqrt_core beta m1 e1 e =
  let m1' =
    Z.mul m1 (Z.pow (radix_val beta) (Z.sub e1 (Z.mul (Zpos (XO XH)) e)))
  in
  let (q, r) = Z.sqrtrem m1' in
  let l =
    if zeq_bool r Z0
    then Loc_Exact
    else Loc_Inexact (if Z.leb r q then Lt else Gt)
  in
  (q, l)

(** val fsqrt : radix -> (z -> z) -> float -> (z * z) * location **)

let fsqrt beta fexp1 x =
  let { fnum = m1; fexp = e1 } = x in
  let e' = Z.add (Z.add (zdigits beta m1) e1) (Zpos XH) in
  let e = Z.min (fexp1 (Z.div2 e')) (Z.div2 e1) in
  let (m, l) = fsqrt_core beta m1 e1 e in ((m, e), l)

(** val shortcut : z -> z -> location -> (z * z) * location **)

let shortcut c e l =
  if (&&)
       (Z.leb (Z.add (zdigits radix10 c) e) (Zneg (XI (XO (XO (XO (XO (XI (XO
         (XO (XO (XO (XO (XI XH))))))))))))))
       (negb ((&&) (Z.eqb c Z0) (is_exact l)))
  then ((Z0, (Zneg (XO (XO (XO (XO (XO (XI (XO (XO (XO (XO (XO (XI
         XH)))))))))))))), (Loc_Inexact Lt))
  else ((c, e), l)

(** val rp :
    rmode -> bool -> z -> z -> location -> z -> bool -> dec * flags **)

let rp md s c e l pref zs =
  let (p, l') = shortcut c e l in
  let (c', e') = p in round_pack md s c' e' l' pref zs

(** val sval : bool -> z -> z **)

let sval =
  cond_Zopp

(** val zs_add : rmode -> bool -> bool -> bool **)

let zs_add md sx sy =
  if eqb sx sy then sx else (match md with
                             | RDN -> true
                             | _ -> false)

(** val add_fin : rmode -> bool -> z -> z -> bool -> z -> z -> dec * flags **)

let add_fin md sx cx qx sy cy qy =
  let q = Z.min qx qy in
  let v =
    Z.add (Z.mul (sval sx cx) (Z.pow (Zpos (XO (XI (XO XH)))) (Z.sub qx q)))
      (Z.mul (sval sy cy) (Z.pow (Zpos (XO (XI (XO XH)))) (Z.sub qy q)))
  in
  rp md (Z.ltb v Z0) (Z.abs v) q Loc_Exact q (zs_add md sx sy)

(** val add_far :
    rmode -> bool -> z -> z -> bool -> z -> bool -> dec * flags **)

let add_far md sx cx qx sy qy zs =
  let e' = Z.sub qx (Zpos (XO (XO (XO (XI (XO XH)))))) in
  let c =
    Z.mul cx
      (Z.pow (Zpos (XO (XI (XO XH)))) (Zpos (XO (XO (XO (XI (XO XH)))))))
  in
  if eqb sx sy
  then rp md sx c e' (Loc_Inexact Lt) (Z.min qx qy) zs
  else rp md sx (Z.sub c (Zpos XH)) e' (Loc_Inexact Gt) (Z.min qx qy) zs

(** val fARGAP : z **)

let fARGAP =
  Zpos (XO (XO (XO (XI (XI (XI XH))))))

(** val add_gen : rmode -> bool -> z -> z -> bool -> z -> z -> dec * flags **)

let add_gen md sx cx qx sy cy qy =
  let pref = Z.min qx qy in
  let zs = zs_add md sx sy in
  if (&&) (Z.eqb cx Z0) (Z.eqb cy Z0)
  then rp md zs Z0 pref Loc_Exact pref zs
  else if Z.eqb cx Z0
       then rp md sy cy qy Loc_Exact pref zs
       else if Z.eqb cy Z0
            then rp md sx cx qx Loc_Exact pref zs
            else if Z.leb (Z.abs (Z.sub qx qy)) fARGAP
                 then add_fin md sx cx qx sy cy qy
                 else if Z.ltb qy qx
                      then add_far md sx cx qx sy qy zs
                      else add_far md sy cy qy sx qx zs

(** val mul_fin : rmode -> bool -> z -> z -> bool -> z -> z -> dec * flags **)

let mul_fin md sx cx qx sy cy qy =
  rp md (xorb sx sy) (Z.mul cx cy) (Z.add qx qy) Loc_Exact (Z.add qx qy)
    (xorb sx sy)

(** val fma_fin :
    rmode -> bool -> z -> z -> bool -> z -> z -> bool -> z -> z -> dec * flags **)

let fma_fin md sx cx qx sy cy qy sz cz qz =
  add_gen md (xorb sx sy) (Z.mul cx cy) (Z.add qx qy) sz cz qz

(** val div_fin : rmode -> bool -> z -> z -> bool -> z -> z -> dec * flags **)

let div_fin md sx cx qx sy cy qy =
  let (p, l) =
    fdiv radix10 fexp0 { fnum = cx; fexp = qx } { fnum = cy; fexp = qy }
  in
  let (m, e) = p in rp md (xorb sx sy) m e l (Z.sub qx qy) (xorb sx sy)

(** val sqrt_fin : rmode -> z -> z -> dec * flags **)

let sqrt_fin md cx qx =
  let (p, l) = fsqrt radix10 fexp0 { fnum = cx; fexp = qx } in
  let (m, e) = p in rp md false m e l (Z.div2 qx) false

type outcome = z list * z

(** val nan_outcomes : dec list -> outcome list **)

let nan_outcomes ds =
  let inv = if existsb is_snan ds then f_INV else Z0 in
  map (fun d -> (((encode (quiet d)) :: []), inv)) (filter is_nan ds)

(** val out1 : dec -> z -> outcome list **)

let out1 d fl =
  (((encode d) :: []), fl) :: []

(** val fin_out : (dec * flags) -> outcome list **)

let fin_out r =
  out1 (fst r) (flbits (snd r))

(** val invalid_out : outcome list **)

let invalid_out =
  out1 qNAN f_INV

(** val neg_dec : dec -> dec **)

let neg_dec d =
  set_sign (negb (sign_of d)) d

(** val clampq : z -> z **)

let clampq q =
  Z.max qmin (Z.min qmax q)

(** val add_dec : rmode -> dec -> dec -> outcome list **)

let add_dec md dx dy =
  if (||) (is_nan dx) (is_nan dy)
  then nan_outcomes (dx :: (dy :: []))
  else (match dx with
        | Fin (sx, cx, qx) ->
          (match dy with
           | Fin (sy, cy, qy) -> fin_out (add_gen md sx cx qx sy cy qy)
           | Inf s -> out1 (Inf s) Z0
           | NaN (_, _, _) -> [])
        | Inf s ->
          (match dy with
           | Inf s0 -> if eqb s s0 then out1 (Inf s) Z0 else invalid_out
           | _ -> out1 (Inf s) Z0)
        | NaN (_, _, _) -> (match dy with
                            | Inf s -> out1 (Inf s) Z0
                            | _ -> []))

(** val m_add : rmode -> z -> z -> outcome list **)

let m_add md x y =
  add_dec md (decode x) (decode y)

(** val m_sub : rmode -> z -> z -> outcome list **)

let m_sub md x y =
  let dy = decode y in
  add_dec md (decode x) (if is_nan dy then dy else neg_dec dy)

(** val m_mul : rmode -> z -> z -> outcome list **)

let m_mul md x y =
  let dx = decode x in
  let dy = decode y in
  if (||) (is_nan dx) (is_nan dy)
  then nan_outcomes (dx :: (dy :: []))
  else let s = xorb (sign_of dx) (sign_of dy) in
       (match dx with
        | Fin (sx, cx, qx) ->
          (match dy with
           | Fin (sy, cy, qy) -> fin_out (mul_fin md sx cx qx sy cy qy)
           | Inf _ -> if is_zero dx then invalid_out else out1 (Inf s) Z0
           | NaN (_, _, _) -> [])
        | Inf _ -> if is_zero dy then invalid_out else out1 (Inf s) Z0
        | NaN (_, _, _) ->
          (match dy with
           | Inf _ -> if is_zero dx then invalid_out else out1 (Inf s) Z0
           | _ -> []))

(** val m_div : rmode -> z -> z -> outcome list **)

let m_div md x y =
  let dx = decode x in
  let dy = decode y in
  if (||) (is_nan dx) (is_nan dy)
  then nan_outcomes (dx :: (dy :: []))
  else let s = xorb (sign_of dx) (sign_of dy) in
       (match dx with
        | Fin (sx, cx, qx) ->
          (match dy with
           | Fin (sy, cy, qy) ->
             if Z.eqb cy Z0
             then if Z.eqb cx Z0 then invalid_out else out1 (Inf s) f_DBZ
             else if Z.eqb cx Z0
                  then out1 (Fin (s, Z0, (clampq (Z.sub qx qy)))) Z0
                  else fin_out (div_fin md sx cx qx sy cy qy)
           | Inf _ -> out1 (Fin (s, Z0, qmin)) Z0
           | NaN (_, _, _) -> [])
        | Inf _ -> (match dy with
                    | Inf _ -> invalid_out
                    | _ -> out1 (Inf s) Z0)
        | NaN (_, _, _) ->
          (match dy with
           | Inf _ -> out1 (Fin (s, Z0, qmin)) Z0
           | _ -> []))

(** val m_sqrt : rmode -> z -> outcome list **)

let m_sqrt md x =
  let dx = decode x in
  if is_nan dx
  then nan_outcomes (dx :: [])
  else (match dx with
        | Fin (s, c, q) ->
          if Z.eqb c Z0
          then out1 (Fin (s, Z0, (Z.div2 q))) Z0
          else if s then invalid_out else fin_out (sqrt_fin md c q)
        | Inf s -> if s then invalid_out else out1 (Inf false) Z0
        | NaN (_, _, _) -> [])

(** val m_fma : rmode -> z -> z -> z -> outcome list **)

let m_fma md x y z0 =
  let dx = decode x in
  let dy = decode y in
  let dz = decode z0 in
  if (||) ((||) (is_nan dx) (is_nan dy)) (is_nan dz)
  then nan_outcomes (dx :: (dy :: (dz :: [])))
  else let sp = xorb (sign_of dx) (sign_of dy) in
       if (||) (is_inf dx) (is_inf dy)
       then if (||) (is_zero dx) (is_zero dy)
            then invalid_out
            else (match dz with
                  | Inf sz ->
                    if eqb sz sp then out1 (Inf sp) Z0 else invalid_out
                  | _ -> out1 (Inf sp) Z0)
       else (match dx with
             | Fin (sx, cx, qx) ->
               (match dy with
                | Fin (sy, cy, qy) ->
                  (match dz with
                   | Fin (sz, cz, qz) ->
                     fin_out (fma_fin md sx cx qx sy cy qy sz cz qz)
                   | Inf sz -> out1 (Inf sz) Z0
                   | NaN (_, _, _) -> [])
                | _ -> (match dz with
                        | Inf sz -> out1 (Inf sz) Z0
                        | _ -> []))
             | _ -> (match dz with
                     | Inf sz -> out1 (Inf sz) Z0
                     | _ -> []))

type expect =
| Exact of outcome list
| Pred of (z list -> bool) * z list

type op =
| OAdd
| OSub
| OMul
| ODiv
| OSqrt
| OFma

(** val expected : op -> rmode -> z list -> expect **)

let expected o md args =
  match o with
  | OAdd ->
    (match args with
     | [] -> Exact []
     | x :: l ->
       (match l with
        | [] -> Exact []
        | y :: l0 ->
          (match l0 with
           | [] -> Exact (m_add md x y)
           | _ :: _ -> Exact [])))
  | OSub ->
    (match args with
     | [] -> Exact []
     | x :: l ->
       (match l with
        | [] -> Exact []
        | y :: l0 ->
          (match l0 with
           | [] -> Exact (m_sub md x y)
           | _ :: _ -> Exact [])))
  | OMul ->
    (match args with
     | [] -> Exact []
     | x :: l ->
       (match l with
        | [] -> Exact []
        | y :: l0 ->
          (match l0 with
           | [] -> Exact (m_mul md x y)
           | _ :: _ -> Exact [])))
  | ODiv ->
    (match args with
     | [] -> Exact []
     | x :: l ->
       (match l with
        | [] -> Exact []
        | y :: l0 ->
          (match l0 with
           | [] -> Exact (m_div md x y)
           | _ :: _ -> Exact [])))
  | OSqrt ->
    (match args with
     | [] -> Exact []
     | x :: l -> (match l with
                  | [] -> Exact (m_sqrt md x)
                  | _ :: _ -> Exact []))
  | OFma ->
    (match args with
     | [] -> Exact []
     | x :: l ->
       (match l with
        | [] -> Exact []
        | y :: l0 ->
          (match l0 with
           | [] -> Exact []
           | z0 :: l1 ->
             (match l1 with
              | [] -> Exact (m_fma md x y z0)
              | _ :: _ -> Exact []))))

(** val list_eqb : z list -> z list -> bool **)

let rec list_eqb a b =
  match a with
  | [] -> (match b with
           | [] -> true
           | _ :: _ -> false)
  | x :: a' ->
    (match b with
     | [] -> false
     | y :: b' -> (&&) (Z.eqb x y) (list_eqb a' b'))

(** val judge : expect -> z -> z list -> z -> bool **)

let judge e fin outs fout =
  match e with
  | Exact l ->
    existsb (fun o ->
      (&&) (list_eqb (fst o) outs) (Z.eqb (Z.coq_lor fin (snd o)) fout)) l
  | Pred (p, fls) ->
    (&&) (p outs) (existsb (fun fl -> Z.eqb (Z.coq_lor fin fl) fout) fls)

(** val expect_list : expect -> outcome list **)

let expect_list = function
| Exact l -> l
| Pred (_, fls) -> map (fun f -> ([], f)) fls
