(* C17 - next_up / next_down / next_after / next_toward return the adjacent representable value.
   Property theorems only: each is closed by [exact <lemma of theories/NextProofs.v>] and followed by Print Assumptions.
   The format is Flocq's generic_format radix10 (FLT_exp (-6176) 34) (all reals c*10^q, |c| < 10^34, q >= -6176);
   the decimal128 values are those of magnitude <= MAXV = (10^34-1)*10^6111. succ / pred are Flocq's successor and
   predecessor in that format (Core.Ulp).

   How the theorems cover the property text.
   * "For any non-NaN x, next_up returns the least decimal128 value greater than x ... (in the representation with the
     smallest possible exponent)": C17_next_up_succ - for EVERY well-formed finite datum (zeros and non-normalised
     cohort members included) next_up_dec returns either a finite well-formed datum whose value is exactly
     succ (D2R x), with q = -6176 or coefficient >= 10^33, and sign bit = (x < 0) (so next_up(-1E-6176) = -0E-6176),
     or +Inf, and then succ x > MAXV. C17_next_up_least restates this without succ: result > x, result <= every
     format value above x, its exponent is <= that of every other (c2,q2) representation of the same magnitude; and
     +Inf is returned only for x = MAXV in value, when every finite datum is <= x.
     C17_next_down_pred / C17_next_down_greatest: the mirror statements for next_down with Flocq's pred.
     C17_next_down_is_neg_next_up_neg: next_down x = -(next_up (-x)), by definition.
   * "next_up(+MAX)=+Inf, next_up(-Inf)=-MAX, zero stepping to the smallest subnormal": C17_next_specials (also
     next_up(+Inf)=+Inf, next_down(-Inf)=-Inf, next_down(+Inf)=+MAX, next_down(+-0) = -1E-6176, next_up(-1E-6176) = -0).
   * "and no flag raised", NaN operands, canonical result: C17_m_next_up / C17_m_next_down (every pattern x: NaN ->
     the common NaN rule nan_outcomes (C12); otherwise the single outcome is the canonical encoding of
     next_up_dec (decode x) with flag word 0).
   * "hence next_down(next_up(x)) equals x in value for every finite x": C17_next_down_up (datum level, needs
     next_up x finite, i.e. x <> MAX), C17_next_up_down (mirror), C17_m_next_down_up (bit level: feeding the output
     pattern of next_up to next_down).
   * "no representable value lies strictly between x and its neighbour": C17_no_value_between (+ _down), both for
     arbitrary reals of the format and for values of well-formed data.
   * "next_after(x, y) and next_toward(x, y) return x's neighbour in the direction of y, x itself with y's sign when
     they compare equal": C17_next_after_spec, relative to the model's comparison cmp_dec (that cmp_dec is the order
     of the reals / C03 is another package's theorem): REq -> x with y's sign, flag word 0; RLt -> next_up_dec x;
     RGt -> next_down_dec x; RUn impossible for non-NaN operands; NaN -> nan_outcomes. next_toward is evaluated by the
     judge with the same function (Judge.v: ONextAfter serves both).
   * "raise overflow+inexact when a finite x steps to infinity and underflow+inexact when the result is subnormal or
     zero": the flag word of a step is [step_flags x res] (definition repeated below); C17_step_flags_spec: it is
     overflow+inexact iff x is finite and res infinite; underflow+inexact iff res is finite with |res| < 10^-6143
     (= subnormal or zero; a finite result of a step from +-Inf is +-MAX, never tiny); otherwise 0; nothing else.
     C17_step_differs: the result of a step differs from x in value (so the model's rule "subnormal or zero" and the
     design text's "... and differs from x" coincide). C17_step_to_inf / C17_next_up_inf_iff: a finite x steps to an infinity exactly from
     +MAXV upward / -MAXV downward, i.e. exactly when succ x > MAXV (pred x < -MAXV).
   Not covered here: the link cmp_dec <-> order of the reals (package C03). *)
From Coq Require Import ZArith Reals Bool List.
From Flocq Require Import Core.Core Calc.Bracket.
From DV Require Import Base RoundProofs Bid BidProofs Arith ArithProofs OpsArith OpsArithProofs OpsCmp OpsMisc ScaleProofs NextProofs.
Import ListNotations.
Open Scope Z_scope.

(* ---------- next_up against succ ---------- *)
Theorem C17_next_up_succ : forall s c q, wf (Fin s c q) ->
  let x := D2R (Fin s c q) in
  match next_up_dec (Fin s c q) with
  | Fin s' c' q' => D2R (Fin s' c' q') = succ radix10 fexp x /\ wf (Fin s' c' q') /\
                    (q' = qmin \/ T33 <= c') /\ s' = Rlt_bool x 0
  | Inf s' => s' = false /\ (MAXV < succ radix10 fexp x)%R
  | NaN _ _ _ => False
  end.
Proof. exact next_up_succ. Qed.
Print Assumptions C17_next_up_succ.

Theorem C17_next_up_least : forall s c q, wf (Fin s c q) ->
  let d := Fin s c q in
  match next_up_dec d with
  | Fin s' c' q' =>
      (D2R d < D2R (Fin s' c' q'))%R /\
      (forall f, generic_format radix10 fexp f -> (D2R d < f)%R -> (D2R (Fin s' c' q') <= f)%R) /\
      (forall c2 q2, repr_ok c2 q2 -> F2R (Float radix10 c2 q2) = Rabs (D2R (Fin s' c' q')) -> q' <= q2)
  | Inf s' => s' = false /\ D2R d = MAXV /\
      (forall s2 c2 q2, wf (Fin s2 c2 q2) -> (D2R (Fin s2 c2 q2) <= D2R d)%R)
  | NaN _ _ _ => False
  end.
Proof. exact next_up_least. Qed.
Print Assumptions C17_next_up_least.

(* ---------- next_down ---------- *)
Theorem C17_next_down_is_neg_next_up_neg : forall d, next_down_dec d = neg_dec (next_up_dec (neg_dec d)).
Proof. exact next_down_is_neg_next_up_neg. Qed.
Print Assumptions C17_next_down_is_neg_next_up_neg.

Theorem C17_next_down_pred : forall s c q, wf (Fin s c q) ->
  let x := D2R (Fin s c q) in
  match next_down_dec (Fin s c q) with
  | Fin s' c' q' => D2R (Fin s' c' q') = pred radix10 fexp x /\ wf (Fin s' c' q') /\
                    (q' = qmin \/ T33 <= c') /\ s' = Rle_bool x 0
  | Inf s' => s' = true /\ (pred radix10 fexp x < - MAXV)%R
  | NaN _ _ _ => False
  end.
Proof. exact next_down_pred. Qed.
Print Assumptions C17_next_down_pred.

Theorem C17_next_down_greatest : forall s c q, wf (Fin s c q) ->
  let d := Fin s c q in
  match next_down_dec d with
  | Fin s' c' q' =>
      (D2R (Fin s' c' q') < D2R d)%R /\
      (forall f, generic_format radix10 fexp f -> (f < D2R d)%R -> (f <= D2R (Fin s' c' q'))%R) /\
      (forall c2 q2, repr_ok c2 q2 -> F2R (Float radix10 c2 q2) = Rabs (D2R (Fin s' c' q')) -> q' <= q2)
  | Inf s' => s' = true /\ D2R d = (- MAXV)%R /\
      (forall s2 c2 q2, wf (Fin s2 c2 q2) -> (D2R d <= D2R (Fin s2 c2 q2))%R)
  | NaN _ _ _ => False
  end.
Proof. exact next_down_greatest. Qed.
Print Assumptions C17_next_down_greatest.

(* every well-formed finite datum denotes a real of the format (so the quantifications over the format above include
   all decimal128 values) *)
Theorem C17_wf_format : forall s c q, wf (Fin s c q) -> generic_format radix10 fexp (D2R (Fin s c q)).
Proof. exact wf_format. Qed.
Print Assumptions C17_wf_format.

(* ---------- special operands ---------- *)
Theorem C17_next_specials :
  next_up_dec (Inf false) = Inf false /\ next_up_dec (Inf true) = Fin true MAXC qmax /\
  next_down_dec (Inf true) = Inf true /\ next_down_dec (Inf false) = Fin false MAXC qmax /\
  (forall s q, next_up_dec (Fin s 0 q) = Fin false 1 qmin) /\
  (forall s q, next_down_dec (Fin s 0 q) = Fin true 1 qmin) /\
  next_up_dec (Fin false MAXC qmax) = Inf false /\ next_down_dec (Fin true MAXC qmax) = Inf true /\
  next_up_dec (Fin true 1 qmin) = Fin true 0 qmin /\ next_down_dec (Fin false 1 qmin) = Fin false 0 qmin.
Proof. exact next_specials. Qed.
Print Assumptions C17_next_specials.

(* ---------- the bit-level operations: NaN rule, single canonical outcome, no flag ---------- *)
Theorem C17_m_next_up : forall x, 0 <= x < P128 ->
  (is_nan (decode x) = true -> m_next_up x = nan_outcomes [decode x]) /\
  (is_nan (decode x) = false ->
     m_next_up x = [([encode (next_up_dec (decode x))], 0)] /\ wf (next_up_dec (decode x)) /\
     canonical_bits (encode (next_up_dec (decode x))) = true /\
     decode (encode (next_up_dec (decode x))) = next_up_dec (decode x)).
Proof. exact m_next_up_spec. Qed.
Print Assumptions C17_m_next_up.

Theorem C17_m_next_down : forall x, 0 <= x < P128 ->
  (is_nan (decode x) = true -> m_next_down x = nan_outcomes [decode x]) /\
  (is_nan (decode x) = false ->
     m_next_down x = [([encode (next_down_dec (decode x))], 0)] /\ wf (next_down_dec (decode x)) /\
     canonical_bits (encode (next_down_dec (decode x))) = true /\
     decode (encode (next_down_dec (decode x))) = next_down_dec (decode x)).
Proof. exact m_next_down_spec. Qed.
Print Assumptions C17_m_next_down.

(* ---------- round trips, nothing in between ---------- *)
Theorem C17_next_down_up : forall s c q s' c' q', wf (Fin s c q) -> next_up_dec (Fin s c q) = Fin s' c' q' ->
  exists s2 c2 q2, next_down_dec (Fin s' c' q') = Fin s2 c2 q2 /\ wf (Fin s2 c2 q2) /\
                   D2R (Fin s2 c2 q2) = D2R (Fin s c q).
Proof. exact next_down_up. Qed.
Print Assumptions C17_next_down_up.

Theorem C17_next_up_down : forall s c q s' c' q', wf (Fin s c q) -> next_down_dec (Fin s c q) = Fin s' c' q' ->
  exists s2 c2 q2, next_up_dec (Fin s' c' q') = Fin s2 c2 q2 /\ wf (Fin s2 c2 q2) /\
                   D2R (Fin s2 c2 q2) = D2R (Fin s c q).
Proof. exact next_up_down. Qed.
Print Assumptions C17_next_up_down.

Theorem C17_m_next_down_up : forall x y s c q, 0 <= x < P128 -> decode x = Fin s c q ->
  m_next_up x = [([y], 0)] -> is_fin (decode y) = true ->
  exists z, m_next_down y = [([z], 0)] /\ is_fin (decode z) = true /\ D2R (decode z) = D2R (decode x).
Proof. exact m_next_down_up. Qed.
Print Assumptions C17_m_next_down_up.

Theorem C17_no_value_between : forall s c q s' c' q', wf (Fin s c q) -> next_up_dec (Fin s c q) = Fin s' c' q' ->
  (forall f, generic_format radix10 fexp f -> ~ (D2R (Fin s c q) < f < D2R (Fin s' c' q'))%R) /\
  (forall s2 c2 q2, wf (Fin s2 c2 q2) -> ~ (D2R (Fin s c q) < D2R (Fin s2 c2 q2) < D2R (Fin s' c' q'))%R).
Proof. exact no_value_between. Qed.
Print Assumptions C17_no_value_between.

Theorem C17_no_value_between_down : forall s c q s' c' q', wf (Fin s c q) -> next_down_dec (Fin s c q) = Fin s' c' q' ->
  (forall f, generic_format radix10 fexp f -> ~ (D2R (Fin s' c' q') < f < D2R (Fin s c q))%R) /\
  (forall s2 c2 q2, wf (Fin s2 c2 q2) -> ~ (D2R (Fin s' c' q') < D2R (Fin s2 c2 q2) < D2R (Fin s c q))%R).
Proof. exact no_value_between_down. Qed.
Print Assumptions C17_no_value_between_down.

(* ---------- next_after / next_toward ---------- *)
(* the flag word attached to a step from dx to res (NextProofs.step_flags, repeated here for the reader) *)
Example C17_step_flags_def : forall dx res,
  step_flags dx res = if is_fin dx && is_inf res then F_OVF + F_INX
                      else if is_subnormal_or_zero res then F_UNF + F_INX else 0.
Proof. reflexivity. Qed.

Theorem C17_next_after_spec : forall x y, 0 <= x < P128 -> 0 <= y < P128 ->
  let dx := decode x in let dy := decode y in
  (is_nan dx || is_nan dy = true -> m_next_after x y = nan_outcomes [dx; dy]) /\
  (is_nan dx || is_nan dy = false ->
     cmp_dec dx dy <> RUn /\
     (cmp_dec dx dy = REq -> m_next_after x y = out1 (set_sign (sign_of dy) dx) 0) /\
     (cmp_dec dx dy = RLt -> m_next_after x y = out1 (next_up_dec dx) (step_flags dx (next_up_dec dx))) /\
     (cmp_dec dx dy = RGt -> m_next_after x y = out1 (next_down_dec dx) (step_flags dx (next_down_dec dx)))).
Proof. exact next_after_spec. Qed.
Print Assumptions C17_next_after_spec.

Theorem C17_step_flags_spec : forall dx res, wf res ->
  (step_flags dx res = F_OVF + F_INX <-> is_fin dx = true /\ is_inf res = true) /\
  (step_flags dx res = F_UNF + F_INX <-> is_fin res = true /\ (Rabs (D2R res) < bpow radix10 (-6143))%R) /\
  (step_flags dx res = 0 \/ step_flags dx res = F_OVF + F_INX \/ step_flags dx res = F_UNF + F_INX).
Proof. exact step_flags_spec. Qed.
Print Assumptions C17_step_flags_spec.

Theorem C17_step_differs : forall s c q, wf (Fin s c q) ->
  (forall s' c' q', next_up_dec (Fin s c q) = Fin s' c' q' -> (D2R (Fin s c q) < D2R (Fin s' c' q'))%R) /\
  (forall s' c' q', next_down_dec (Fin s c q) = Fin s' c' q' -> (D2R (Fin s' c' q') < D2R (Fin s c q))%R).
Proof. exact step_differs. Qed.
Print Assumptions C17_step_differs.

Theorem C17_step_to_inf : forall s c q, wf (Fin s c q) ->
  (is_inf (next_up_dec (Fin s c q)) = true <-> D2R (Fin s c q) = MAXV) /\
  (is_inf (next_down_dec (Fin s c q)) = true <-> D2R (Fin s c q) = (- MAXV)%R).
Proof. exact step_to_inf. Qed.
Print Assumptions C17_step_to_inf.

Theorem C17_next_up_inf_iff : forall s c q, wf (Fin s c q) ->
  (next_up_dec (Fin s c q) = Inf false <-> (MAXV < succ radix10 fexp (D2R (Fin s c q)))%R) /\
  (next_down_dec (Fin s c q) = Inf true <-> (pred radix10 fexp (D2R (Fin s c q)) < - MAXV)%R).
Proof. exact next_up_inf_iff. Qed.
Print Assumptions C17_next_up_inf_iff.

(* ---------- non-vacuity witnesses ---------- *)
Definition ONE := encode (Fin false 1 0).
(* next_up(9999...9E+6111) = +Inf, no flag *)
Example C17_w_max : m_next_up (encode (Fin false MAXC qmax)) = [([encode (Inf false)], 0)].
Proof. vm_compute. reflexivity. Qed.
(* next_up(1E+0) = 1.000...001 (34 digits), next_down(1E+0) = 0.9999...9 (34 nines) *)
Example C17_w_one :
  m_next_up ONE = [([encode (Fin false (10 ^ 33 + 1) (-33))], 0)] /\
  m_next_down ONE = [([encode (Fin false (10 ^ 34 - 1) (-34))], 0)].
Proof. split; vm_compute; reflexivity. Qed.
(* next_up(-1E-6176) = -0E-6176; next_up(+-0) = +1E-6176; next_up(-Inf) = -MAX *)
Example C17_w_small :
  m_next_up (encode (Fin true 1 (-6176))) = [([encode (Fin true 0 (-6176))], 0)] /\
  m_next_up (encode (Fin true 0 55)) = [([encode (Fin false 1 (-6176))], 0)] /\
  m_next_up (encode (Inf true)) = [([encode (Fin true MAXC qmax)], 0)].
Proof. repeat split; vm_compute; reflexivity. Qed.
(* a non-normalised operand near the bottom: 5E-6170 has only room for 6 more digits: next_up = 5000001E-6176 *)
Example C17_w_bottom : m_next_up (encode (Fin false 5 (-6170))) = [([encode (Fin false 5000001 (-6176))], 0)].
Proof. vm_compute. reflexivity. Qed.
(* decade crossing downward from a power of ten: next_down(1E+10) = 9999...9E-24 *)
Example C17_w_decade : m_next_down (encode (Fin false 1 10)) = [([encode (Fin false (10 ^ 34 - 1) (-24))], 0)].
Proof. vm_compute. reflexivity. Qed.
(* next_after: equal operands -> x with y's sign; toward larger -> next_up; finite to Inf -> overflow+inexact;
   result subnormal -> underflow+inexact *)
Example C17_w_after :
  m_next_after (encode (Fin false 10 (-1))) (encode (Fin true 1 0)) = [([encode (Fin false (10 ^ 34 - 1) (-34))], 0)] /\
  m_next_after (encode (Fin false 0 3)) (encode (Fin true 0 (-2))) = [([encode (Fin true 0 3)], 0)] /\
  m_next_after (encode (Fin false MAXC qmax)) (encode (Inf false)) = [([encode (Inf false)], F_OVF + F_INX)] /\
  m_next_after (encode (Fin false 0 0)) ONE = [([encode (Fin false 1 (-6176))], F_UNF + F_INX)] /\
  m_next_after (encode (Inf true)) ONE = [([encode (Fin true MAXC qmax)], 0)] /\
  m_next_after (encode (Fin false 1 (-6176))) (encode (Fin true 1 0)) = [([encode (Fin false 0 (-6176))], F_UNF + F_INX)].
Proof. repeat split; vm_compute; reflexivity. Qed.
