(* C14 - status flags only accumulate; outcomes do not depend on flag history.
   How the theorems cover the statement. The model of an operation, [expected o md args] (theories/Judge.v), has no status
   argument at all: it yields the accepted pairs (returned values, set of flags raised from a clear word). The status word
   enters only in the acceptance test [judge e fin outs fout] that the correspondence run applies to the implementation's
   observable triple (word on entry, values, word on exit). The theorems say that this test accepts exactly the behaviours
   C14 allows:
   - C14_accepted_iff: accepted  <->  the values together with SOME flag set fl form a status-free accepted pair
     ([acc], theories/Status.v) and the exit word is the entry word OR fl. So the entry word can influence neither the
     values nor the raised set, and nothing is ever cleared.
   - C14_monotone: bits set before an accepted call are set after it.
   - C14_history_free: what is accepted from one entry word is accepted from every other entry word with the same values
     and the same raised set.
   - C14_run_union / C14_run_history_free: for any sequence of calls sharing one word, by induction over the sequence, the
     final word is the entry word OR the union of one raised set per call, each accepted from a clear word; and the same
     values are accepted from any other entry word, the final word being that word OR the same union.
   Scope of the judge, and what closes the gap. [judge] looks at ONE call at a time. Where the expectation admits several
   outcomes (two NaN operands: either may be propagated; min/max of equal values: either operand; NaN choices inside a
   sum; the predicate expectations) an implementation that picked the outcome DEPENDING ON THE ENTRY WORD would pass the
   judge call by call and still violate "the returned value and the set of newly raised bits are the same whatever the
   status word contained on entry". That the SAME call returns the same values and raises the same flags under different
   entry words is therefore checked separately by the runner's cross-entry comparison (lib/runner.py, cross_entry_check):
   every case of the status stream is executed under six entry words, and each answer is compared - values and newly
   raised bits - with its entry-word-0 twin; a difference is a finding irrespective of the judge's verdicts. This is a
   trusted harness fact, not a Coq theorem. (For single-outcome expectations the theorems below already imply it:
   C14_accepted_iff + C15_accepted_unique.)
   Not covered here: that the Rust code behaves this way is established only by the correspondence run (every case is
   executed with several entry words, and random histories share one word). All theorems are axiom-free. *)
From Coq Require Import ZArith Bool List.
From DV Require Import Base Bid Judge Status StatusProofs.
Import ListNotations.
Open Scope Z_scope.

Theorem C14_accepted_iff : forall e fin outs fout,
  judge e fin outs fout <> 0 <-> exists fl, acc e outs fl <> 0 /\ fout = Z.lor fin fl.
Proof. exact judge_acc. Qed.
Print Assumptions C14_accepted_iff.

Theorem C14_monotone : forall e fin outs fout, judge e fin outs fout <> 0 -> Z.land fin fout = fin.
Proof. exact accepted_monotone. Qed.
Print Assumptions C14_monotone.

Theorem C14_history_free : forall e fin outs fout,
  judge e fin outs fout <> 0 ->
  exists fl, fout = Z.lor fin fl /\ forall fin', judge e fin' outs (Z.lor fin' fl) <> 0.
Proof. exact accepted_history_free. Qed.
Print Assumptions C14_history_free.

Theorem C14_run_union : forall h st, run_accepted st h = true ->
  exists fls, length fls = length h /\
    Forall2 (fun co fl => acc (c_expect (fst co)) (o_outs (snd co)) fl <> 0) h fls /\
    final_of st h = Z.lor st (union_bits fls).
Proof. exact run_union. Qed.
Print Assumptions C14_run_union.

Theorem C14_run_history_free : forall h st, run_accepted st h = true ->
  exists fls, length fls = length h /\
    forall st', run_accepted st' (reword st' h fls) = true /\
                final_of st' (reword st' h fls) = Z.lor st' (union_bits fls).
Proof. exact run_history_free. Qed.
Print Assumptions C14_run_history_free.

(* non-vacuity: 1/3 (inexact), then 0/0 (invalid), then 1E-6170 * 1E-30 (underflow + inexact) on one word *)
Example C14_witness : run_accepted 0 ex_history = true /\ final_of 0 ex_history = 49.
Proof. exact ex_history_accepted. Qed.
