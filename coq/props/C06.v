(* C06 - conversions to and from 32/64-bit integers are exact and range-checked.

   How the theorems cover the property text.
   * "Each of the 40 decimal-to-integer conversions ... returns exactly the integer obtained by rounding the operand's
     exact value in the named direction whenever that integer fits the target type, raising inexact only in the
     inexact-signalling variants and only when the operand was not an integer. When the rounded value does not fit, or
     the operand is NaN or infinite, only invalid is raised and the indefinite value (sign bit only) is returned":
     [C06_to_int_spec], for every pattern 0 <= x < 2^128, width w in {32,64}, signedness, each of the five directions
     [md] and both values of [xflag] (2*2*5*2 = 40 entry points).  [rnd_of md] is Flocq's ZnearestE / Zfloor / Zceil /
     Ztrunc / ZnearestA, applied to the real number [D2R (decode x)].  The result word is [n mod 2^w] (two's complement
     bit pattern of n), the flag word is 0 or F_INX, and it is F_INX exactly when [xflag] is set and [IZR n <> v];
     [C06_inexact_iff_not_integer] says that [IZR n <> v] is the same as "v is not an integer".  [fits] is
     lo <= n <= hi with (lo,hi) = (-2^(w-1), 2^(w-1)-1) signed, (0, 2^w-1) unsigned.  [indefinite w] is the single
     outcome (2^(w-1), F_INV): sign bit only, only invalid.  The model's shortcuts (exponent > 20; the far-below-one
     shortcut 45 < k of div_loc) are proved sound inside.
   * the rounding core itself: [C06_round_int_correct] (used by C08 and C09 as well).
   * "lrint/llrint/lround/llround": [C06_dispatch] shows that the Judge maps these entry points to
     [m_to_int 64 true md true] resp. [m_to_int 64 true RNA false]; [C06_lrint_spec] / [C06_lround_spec] are the
     corresponding instances of the main theorem.
   * "conversion from any i32/u32/i64/u64 is exact with exponent zero": [C06_from_int_exact] for every raw word
     (the denoted integer v = [int_val w signed raw] is in range, has the same low w bits as raw, the single outcome is
     the canonical encoding of Fin (v<0) |v| 0, flag 0, which decodes to that datum) and [C06_from_int_value]
     (its real value is v).  [C06_int_val_of_fits]: [int_val] is the inverse of "n mod 2^w" on the type's range.
   * "so converting back returns the original integer": [C06_roundtrip_int] (every n in range, all 40 variants: result
     n mod 2^w, no flag) and [C06_roundtrip_from_to] (every raw word: to_int (from_int raw) = raw mod 2^w, no flag).

   Not covered here: NaN operands are treated like any other non-finite operand (indefinite + invalid), as the property
   says; nothing is said about the implementation (that is the differential harness' job); widths other than 32 and 64
   are not claimed. *)
From Coq Require Import ZArith Reals Bool List Lia.
From Flocq Require Import Core.Core.
From DV Require Import Base Bid BidProofs Arith OpsArith OpsCmp OpsMisc OpsConv OpsStr Judge IntRoundProofs.
Import ListNotations.
Open Scope Z_scope.

(* the rounding core: integer division with a location computes Flocq's integer roundings of (-1)^s * c / 10^k *)
Theorem C06_round_int_correct : forall md s c k n inx,
  0 <= c < 10 ^ 45 -> 0 <= k ->
  round_int md s c k = (n, inx) ->
  let x := D2R (Fin s c (- k)) in
  cond_Zopp s n = rnd_of md x /\ 0 <= n /\ (inx = true <-> IZR (rnd_of md x) <> x).
Proof. exact round_int_correct. Qed.
Print Assumptions C06_round_int_correct.

Theorem C06_to_int_spec : forall w signed md xflag x,
  0 <= x < P128 -> (w = 32 \/ w = 64) ->
  (forall s c q, decode x = Fin s c q ->
     let v := D2R (decode x) in let n := rnd_of md v in
     (fits w signed n ->
        exists fl, m_to_int w signed md xflag x = [([n mod 2 ^ w], fl)] /\ (fl = 0 \/ fl = F_INX) /\
                   (fl = F_INX <-> xflag = true /\ IZR n <> v)) /\
     (~ fits w signed n -> m_to_int w signed md xflag x = indefinite w)) /\
  (is_fin (decode x) = false -> m_to_int w signed md xflag x = indefinite w).
Proof. exact to_int_spec_proof. Qed.
Print Assumptions C06_to_int_spec.

Theorem C06_inexact_iff_not_integer : forall md v, IZR (rnd_of md v) <> v <-> ~ exists z, v = IZR z.
Proof. exact rnd_inexact_iff_not_integer. Qed.
Print Assumptions C06_inexact_iff_not_integer.

Theorem C06_dispatch : forall md x,
  (forall w sg m xf, expected (OToInt w sg m xf) md [x] = Exact (m_to_int w sg m xf x)) /\
  expected OLrint md [x] = Exact (m_to_int 64 true md true x) /\
  expected OLround md [x] = Exact (m_to_int 64 true RNA false x) /\
  (forall w sg, expected (OFromInt w sg) md [x] = Exact (m_from_int w sg x)).
Proof. exact dispatch_C06. Qed.
Print Assumptions C06_dispatch.

(* lrint / llrint: current rounding mode, signalling inexact, 64-bit signed *)
Theorem C06_lrint_spec : forall md x, 0 <= x < P128 ->
  (forall s c q, decode x = Fin s c q ->
     let v := D2R (decode x) in let n := rnd_of md v in
     (fits 64 true n ->
        exists fl, m_to_int 64 true md true x = [([n mod 2 ^ 64], fl)] /\ (fl = 0 \/ fl = F_INX) /\
                   (fl = F_INX <-> true = true /\ IZR n <> v)) /\
     (~ fits 64 true n -> m_to_int 64 true md true x = indefinite 64)) /\
  (is_fin (decode x) = false -> m_to_int 64 true md true x = indefinite 64).
Proof. exact (fun md x H => to_int_spec_proof 64 true md true x H (or_intror eq_refl)). Qed.
Print Assumptions C06_lrint_spec.

(* lround / llround: ties away from zero, never inexact *)
Theorem C06_lround_spec : forall x, 0 <= x < P128 ->
  (forall s c q, decode x = Fin s c q ->
     let v := D2R (decode x) in let n := ZnearestA v in
     (fits 64 true n ->
        exists fl, m_to_int 64 true RNA false x = [([n mod 2 ^ 64], fl)] /\ (fl = 0 \/ fl = F_INX) /\
                   (fl = F_INX <-> false = true /\ IZR n <> v)) /\
     (~ fits 64 true n -> m_to_int 64 true RNA false x = indefinite 64)) /\
  (is_fin (decode x) = false -> m_to_int 64 true RNA false x = indefinite 64).
Proof. exact (fun x H => to_int_spec_proof 64 true RNA false x H (or_intror eq_refl)). Qed.
Print Assumptions C06_lround_spec.

Theorem C06_from_int_exact : forall w signed raw, w = 32 \/ w = 64 ->
  let v := int_val w signed raw in
  let d := Fin (v <? 0) (Z.abs v) 0 in
  fits w signed v /\ v mod 2 ^ w = raw mod 2 ^ w /\
  m_from_int w signed raw = [([encode d], 0)] /\
  decode (encode d) = d /\ canonical_bits (encode d) = true /\ wf d.
Proof. exact from_int_exact_proof. Qed.
Print Assumptions C06_from_int_exact.

Theorem C06_int_val_of_fits : forall w signed n, w = 32 \/ w = 64 -> fits w signed n -> int_val w signed (n mod 2 ^ w) = n.
Proof. exact int_val_of_fits. Qed.
Print Assumptions C06_int_val_of_fits.

Theorem C06_from_int_value : forall v, D2R (Fin (v <? 0) (Z.abs v) 0) = IZR v.
Proof. exact from_int_value_proof. Qed.
Print Assumptions C06_from_int_value.

Theorem C06_roundtrip_int : forall w signed md xflag n, w = 32 \/ w = 64 -> fits w signed n ->
  m_to_int w signed md xflag (encode (Fin (n <? 0) (Z.abs n) 0)) = [([n mod 2 ^ w], 0)].
Proof. exact roundtrip_int_proof. Qed.
Print Assumptions C06_roundtrip_int.

Theorem C06_roundtrip_from_to : forall w signed md xflag raw, w = 32 \/ w = 64 ->
  exists r, m_from_int w signed raw = [([r], 0)] /\ m_to_int w signed md xflag r = [([raw mod 2 ^ w], 0)].
Proof. exact roundtrip_from_to_proof. Qed.
Print Assumptions C06_roundtrip_from_to.

(* ---------- non-vacuity witnesses ---------- *)
(* 2.5 in each direction, inexact-signalling int32 *)
Example C06_w_25 :
  map (fun md => m_to_int 32 true md true (encode (Fin false 25 (-1)))) [RNE; RDN; RUP; RTZ; RNA] =
  [ [([2], F_INX)]; [([2], F_INX)]; [([3], F_INX)]; [([2], F_INX)]; [([3], F_INX)] ].
Proof. vm_compute. reflexivity. Qed.
(* -2.5, not signalling: two's complement words of -2, -3, -2, -2, -3 *)
Example C06_w_m25 :
  map (fun md => m_to_int 32 true md false (encode (Fin true 25 (-1)))) [RNE; RDN; RUP; RTZ; RNA] =
  [ [([4294967294], 0)]; [([4294967293], 0)]; [([4294967294], 0)]; [([4294967294], 0)]; [([4294967293], 0)] ].
Proof. vm_compute. reflexivity. Qed.
(* type_max + 1/2 for int32: fits when rounded down / toward zero, indefinite otherwise *)
Example C06_w_edge :
  map (fun md => m_to_int 32 true md true (encode (Fin false 21474836475 (-1)))) [RNE; RDN; RUP; RTZ; RNA] =
  [ [([2147483648], F_INV)]; [([2147483647], F_INX)]; [([2147483648], F_INV)]; [([2147483647], F_INX)]; [([2147483648], F_INV)] ].
Proof. vm_compute. reflexivity. Qed.
(* unsigned: -0.5 rounds to 0 (fits) under RNE, -1 does not fit; 1E+21 hits the large-exponent shortcut; Inf, NaN *)
Example C06_w_unsigned :
  (m_to_int 64 false RNE true (encode (Fin true 5 (-1))), m_to_int 64 false RNE true (encode (Fin true 1 0)),
   m_to_int 64 false RNE true (encode (Fin false 1 21)), m_to_int 64 false RNE true (encode (Inf false)),
   m_to_int 64 false RNE true (encode (NaN false true 7))) =
  ([([0], F_INX)], [([2 ^ 63], F_INV)], [([2 ^ 63], F_INV)], [([2 ^ 63], F_INV)], [([2 ^ 63], F_INV)]).
Proof. vm_compute. reflexivity. Qed.
(* 1E-50: the far-below-one shortcut of div_loc *)
Example C06_w_tiny :
  (m_to_int 32 true RUP true (encode (Fin false 1 (-50))), m_to_int 32 true RDN true (encode (Fin true 1 (-50)))) =
  ([([1], F_INX)], [([4294967295], F_INX)]).
Proof. vm_compute. reflexivity. Qed.
(* the hypothesis of the core lemma is satisfiable with inx = true and inx = false; the bound on c matters for k > 45 *)
Example C06_w_core : (round_int RNE false 25 1, round_int RNE false 30 1, round_int RNE false (6 * 10 ^ 45) 46) = ((2, true), (3, false), (0, true)).
Proof. vm_compute. reflexivity. Qed.
Example C06_w_from_int :
  (m_from_int 32 true 4294967295, m_from_int 32 false 4294967295, m_from_int 64 true (2 ^ 63)) =
  ([([encode (Fin true 1 0)], 0)], [([encode (Fin false 4294967295 0)], 0)], [([encode (Fin true (2 ^ 63) 0)], 0)]).
Proof. vm_compute. reflexivity. Qed.
Example C06_w_fits : fits 32 true (-2147483648) /\ ~ fits 32 true 2147483648 /\ fits 64 false (2 ^ 64 - 1).
Proof. unfold fits, int_lo, int_hi. lia. Qed.
