(* C03 - all 20 comparison predicates and the Rust operators follow exact numeric order.
   Property theorems only: each is closed by [exact <lemma of theories/CmpProofs.v>] and followed by Print Assumptions.

   How the theorems cover the statement.
   * "truth value determined by the exact mathematical order of the two values":
     [C03_predicates_real_order]: for every pair of 128-bit patterns (non-canonical ones included: [decode] is total)
     and every predicate number i in 0..19, the model's only accepted outcome of predicate i is the bit
     [pred_truth i r] where r = [spec_rel (decode x) (decode y)] is the four-valued relation less / equal / greater /
     unordered of the *extended reals*: a finite datum is the real D2R, +-Inf are a top and a bottom element, a NaN
     makes the pair unordered ([spec_rel], [xcompare] in CmpProofs.v are three lines each and use Rcompare).
     [pred_truth] is the standard's table, written with negations independently of the model's list [pred_rels];
     it is displayed by [C03_pred_truth_table] (numbering of the harness: 0 quiet_equal, 1 greater, 2 greater_equal,
     3 greater_unordered, 4 less, 5 less_equal, 6 less_unordered, 7 not_equal, 8 not_greater, 9 not_less, 10 ordered,
     11 unordered, 12..19 signaling greater, greater_equal, greater_unordered, less, less_equal, less_unordered,
     not_greater, not_less).
     The comparison core: [C03_cmp_mag_correct] (non-negative coefficients, *any* exponents, any gap: the digit-count
     shortcut of [cmp_mag] equals Rcompare of the two reals; [C03_cmp_mag_int] is its axiom-free integer form),
     [C03_cmp_fin_correct] (signed), [C03_cmp_dec_spec] (all patterns), [C03_cmp_dec_real_order] (finite operands:
     plain Rcompare of D2R).
   * "members of one cohort compare equal" [C03_cohort_equal] (equal <-> same real value, whatever the quantum);
     "+0 equals -0" [C03_zero_signs_equal] (any two zeros, any exponents); "infinities bound all finite values"
     [C03_inf_bounds]; "any NaN makes the pair unordered" [C03_nan_unordered] (iff).
   * flags: [C03_pred_flags]: the flag word of the outcome is 0 or F_INV, nothing else; for i < 12 it is F_INV iff an
     operand is a signaling NaN, for 12 <= i iff an operand is a NaN. [C03_pred_bool]: the output is 0 or 1.
     [C03_pred_table] is the same as the first theorem with the model's relation [cmp_dec] (axiom-free).
   * Rust operators: [C03_ops_agree] / [C03_ops_agree_cmp]: for non-NaN operands the bits of [m_ops] (bit0 ==, bit1 <,
     bit2 <=, bit3 >, bit4 >=, bits5-6 partial_cmp with 1 Less 2 Equal 3 Greater, bit7 !=) are exactly the outputs of
     the quiet predicates equal, less, less_equal, greater, greater_equal, not_equal, the partial_cmp code is the
     relation itself, never None, and no flag is raised.
   * what is executed: the correspondence run judges predicate number i (harness op "cmp", arguments x y i) against
     [expected OCmp md [x; y; i]] and the operator bits (harness op "ops") against [expected OOps md [x; y]]; [C03_dispatch]
     says these are the lists m_cmp x y i and m_ops x y that the theorems here talk about (the mode plays no role).
     Numbering of the predicates (harness order = the order of the crate's function table) and the relations for which each
     answers true in the model ([pred_rels], Example [C03_pred_numbering]; L less, E equal, G greater, U unordered):
        0 quiet_equal               E        10 quiet_ordered                 L E G
        1 quiet_greater             G        11 quiet_unordered               U
        2 quiet_greater_equal       G E      12 signaling_greater             G
        3 quiet_greater_unordered   G U      13 signaling_greater_equal       G E
        4 quiet_less                L        14 signaling_greater_unordered   G U
        5 quiet_less_equal          L E      15 signaling_less                L
        6 quiet_less_unordered      L U      16 signaling_less_equal          L E
        7 quiet_not_equal           L G U    17 signaling_less_unordered      L U
        8 quiet_not_greater         L E U    18 signaling_not_greater         L E U
        9 quiet_not_less            G E U    19 signaling_not_less            G E U
     (12..19 signal invalid on any NaN: [pred_signaling i] = (12 <=? i); [C03_pred_flags].) That the harness calls the
     function of that NAME for number i is a fact about harness/src (trusted, see DESIGN section 14).
   Not covered here: the operators on NaN operands (that is C20); the status word passed *in* (the harness ORs the
     raised flags into it; the model returns the raised set only). *)
From Coq Require Import ZArith Reals Bool List.
From Flocq Require Import Core.Core.
From DV Require Import Base Bid BidProofs OpsArith OpsCmp CmpProofs Judge DispatchProofs.
Import ListNotations.
Open Scope Z_scope.

(* ---------- dispatch: the harness operations "cmp" and "ops" are judged against m_cmp and m_ops ---------- *)
Theorem C03_dispatch : forall md x y i,
  expected OCmp md [x; y; i] = Exact (m_cmp x y i) /\ expected OOps md [x; y] = Exact (m_ops x y).
Proof. exact dispatch_cmp. Qed.
Print Assumptions C03_dispatch.

(* the numbering, next to the names in the header comment: predicate i answers true exactly for these relations *)
Example C03_pred_numbering :
  map pred_rels [0; 1; 2; 3; 4; 5; 6; 7; 8; 9; 10; 11; 12; 13; 14; 15; 16; 17; 18; 19] =
  [ (*  0 quiet_equal *) [REq];                 (*  1 quiet_greater *) [RGt];
    (*  2 quiet_greater_equal *) [RGt; REq];    (*  3 quiet_greater_unordered *) [RGt; RUn];
    (*  4 quiet_less *) [RLt];                  (*  5 quiet_less_equal *) [RLt; REq];
    (*  6 quiet_less_unordered *) [RLt; RUn];   (*  7 quiet_not_equal *) [RLt; RGt; RUn];
    (*  8 quiet_not_greater *) [RLt; REq; RUn]; (*  9 quiet_not_less *) [RGt; REq; RUn];
    (* 10 quiet_ordered *) [RLt; REq; RGt];     (* 11 quiet_unordered *) [RUn];
    (* 12 signaling_greater *) [RGt];           (* 13 signaling_greater_equal *) [RGt; REq];
    (* 14 signaling_greater_unordered *) [RGt; RUn];
    (* 15 signaling_less *) [RLt];              (* 16 signaling_less_equal *) [RLt; REq];
    (* 17 signaling_less_unordered *) [RLt; RUn];
    (* 18 signaling_not_greater *) [RLt; REq; RUn]; (* 19 signaling_not_less *) [RGt; REq; RUn] ] /\
  map pred_signaling [0; 11; 12; 19] = [false; false; true; true].
Proof. vm_compute. split; reflexivity. Qed.

(* ---------- the comparison core ---------- *)
Theorem C03_cmp_mag_correct : forall cx qx cy qy, 0 <= cx -> 0 <= cy ->
  cmp_mag cx qx cy qy = Rcompare (F2R (Float radix10 cx qx)) (F2R (Float radix10 cy qy)).
Proof. exact cmp_mag_correct. Qed.
Print Assumptions C03_cmp_mag_correct.

Theorem C03_cmp_mag_int : forall cx qx cy qy, 0 <= cx -> 0 <= cy ->
  cmp_mag cx qx cy qy = (cx * 10 ^ (qx - Z.min qx qy) ?= cy * 10 ^ (qy - Z.min qx qy)).
Proof. exact cmp_mag_int. Qed.
Print Assumptions C03_cmp_mag_int.

Theorem C03_cmp_fin_correct : forall sx cx qx sy cy qy, 0 <= cx -> 0 <= cy ->
  cmp_fin sx cx qx sy cy qy = Rcompare (D2R (Fin sx cx qx)) (D2R (Fin sy cy qy)).
Proof. exact cmp_fin_correct. Qed.
Print Assumptions C03_cmp_fin_correct.

Theorem C03_cmp_dec_spec : forall x y, 0 <= x < P128 -> 0 <= y < P128 ->
  cmp_dec (decode x) (decode y) = spec_rel (decode x) (decode y).
Proof. exact cmp_dec_spec. Qed.
Print Assumptions C03_cmp_dec_spec.

Theorem C03_cmp_dec_real_order : forall x y, 0 <= x < P128 -> 0 <= y < P128 ->
  is_fin (decode x) = true -> is_fin (decode y) = true ->
  cmp_dec (decode x) (decode y) = rel_of (Rcompare (D2R (decode x)) (D2R (decode y))).
Proof. exact cmp_dec_real_order. Qed.
Print Assumptions C03_cmp_dec_real_order.

(* ---------- consequences named in the statement ---------- *)
Theorem C03_cohort_equal : forall x y, 0 <= x < P128 -> 0 <= y < P128 ->
  is_fin (decode x) = true -> is_fin (decode y) = true ->
  (cmp_dec (decode x) (decode y) = REq <-> D2R (decode x) = D2R (decode y)).
Proof. exact cohort_equal. Qed.
Print Assumptions C03_cohort_equal.

Theorem C03_zero_signs_equal : forall s q s' q', cmp_dec (Fin s 0 q) (Fin s' 0 q') = REq.
Proof. exact zero_signs_equal. Qed.
Print Assumptions C03_zero_signs_equal.

Theorem C03_inf_bounds : forall s c q,
  cmp_dec (Fin s c q) (Inf false) = RLt /\ cmp_dec (Inf false) (Fin s c q) = RGt /\
  cmp_dec (Inf true) (Fin s c q) = RLt /\ cmp_dec (Fin s c q) (Inf true) = RGt /\
  cmp_dec (Inf true) (Inf false) = RLt /\ cmp_dec (Inf false) (Inf true) = RGt /\
  cmp_dec (Inf s) (Inf s) = REq.
Proof. exact inf_bounds. Qed.
Print Assumptions C03_inf_bounds.

Theorem C03_nan_unordered : forall dx dy, cmp_dec dx dy = RUn <-> is_nan dx || is_nan dy = true.
Proof. exact nan_unordered. Qed.
Print Assumptions C03_nan_unordered.

(* ---------- the 20 predicates ---------- *)
Theorem C03_pred_truth_table : forall r,
  let lt := is_less r in let eq := is_equal r in let gt := is_greater r in let un := is_unordered r in
  (* quiet *)
  pred_truth 0 r = eq /\ pred_truth 1 r = gt /\ pred_truth 2 r = gt || eq /\ pred_truth 3 r = gt || un /\
  pred_truth 4 r = lt /\ pred_truth 5 r = lt || eq /\ pred_truth 6 r = lt || un /\
  pred_truth 7 r = negb eq /\ pred_truth 8 r = negb gt /\ pred_truth 9 r = negb lt /\
  pred_truth 10 r = negb un /\ pred_truth 11 r = un /\
  (* signaling *)
  pred_truth 12 r = gt /\ pred_truth 13 r = gt || eq /\ pred_truth 14 r = gt || un /\
  pred_truth 15 r = lt /\ pred_truth 16 r = lt || eq /\ pred_truth 17 r = lt || un /\
  pred_truth 18 r = negb gt /\ pred_truth 19 r = negb lt.
Proof. exact pred_truth_table. Qed.
Print Assumptions C03_pred_truth_table.

Theorem C03_rel_flags : forall r,
  (is_less r = true <-> r = RLt) /\ (is_equal r = true <-> r = REq) /\
  (is_greater r = true <-> r = RGt) /\ (is_unordered r = true <-> r = RUn).
Proof. exact rel_flags_exclusive. Qed.
Print Assumptions C03_rel_flags.

Theorem C03_predicates_real_order : forall x y i, 0 <= x < P128 -> 0 <= y < P128 -> 0 <= i < 20 ->
  m_cmp x y i = [([b2z (pred_truth i (spec_rel (decode x) (decode y)))],
                  if cmp_invalid i (decode x) (decode y) then F_INV else 0)].
Proof. exact m_cmp_real_order. Qed.
Print Assumptions C03_predicates_real_order.

Theorem C03_pred_table : forall x y i, 0 <= i < 20 ->
  m_cmp x y i = [([b2z (pred_truth i (cmp_dec (decode x) (decode y)))],
                  if cmp_invalid i (decode x) (decode y) then F_INV else 0)].
Proof. exact m_cmp_spec. Qed.
Print Assumptions C03_pred_table.

Theorem C03_pred_flags : forall x y i outs fl, 0 <= i < 20 -> In (outs, fl) (m_cmp x y i) ->
  (fl = 0 \/ fl = F_INV) /\
  (i < 12 -> (fl = F_INV <-> is_snan (decode x) = true \/ is_snan (decode y) = true)) /\
  (12 <= i -> (fl = F_INV <-> is_nan (decode x) = true \/ is_nan (decode y) = true)).
Proof. exact m_cmp_flags. Qed.
Print Assumptions C03_pred_flags.

Theorem C03_pred_bool : forall x y i outs fl, In (outs, fl) (m_cmp x y i) -> outs = [0] \/ outs = [1].
Proof. exact m_cmp_bool. Qed.
Print Assumptions C03_pred_bool.

(* ---------- Rust operators ---------- *)
Theorem C03_ops_agree : forall x y, is_nan (decode x) = false -> is_nan (decode y) = false ->
  let r := cmp_dec (decode x) (decode y) in
  let ob i := b2z (pred_truth i r) in
  r <> RUn /\
  m_ops x y = [([ob 0 + 2 * ob 4 + 4 * ob 5 + 8 * ob 1 + 16 * ob 2 + 32 * pc_code r + 128 * ob 7], 0)].
Proof. exact ops_agree. Qed.
Print Assumptions C03_ops_agree.

Theorem C03_ops_agree_cmp : forall x y, is_nan (decode x) = false -> is_nan (decode y) = false ->
  exists e l le g ge ne,
    m_cmp x y 0 = [([e], 0)] /\ m_cmp x y 4 = [([l], 0)] /\ m_cmp x y 5 = [([le], 0)] /\
    m_cmp x y 1 = [([g], 0)] /\ m_cmp x y 2 = [([ge], 0)] /\ m_cmp x y 7 = [([ne], 0)] /\
    m_ops x y = [([e + 2 * l + 4 * le + 8 * g + 16 * ge + 32 * pc_code (cmp_dec (decode x) (decode y)) + 128 * ne], 0)].
Proof. exact ops_agree_cmp. Qed.
Print Assumptions C03_ops_agree_cmp.

Theorem C03_pc_code : pc_code RLt = 1 /\ pc_code REq = 2 /\ pc_code RGt = 3 /\ pc_code RUn = 0.
Proof. exact pc_code_table. Qed.
Print Assumptions C03_pc_code.

(* ---------- non-vacuity ---------- *)
(* 1E+1 and 10E+0: one cohort, quiet_equal answers 1, quiet_less 0, no flag *)
Example C03_ex_cohort :
  m_cmp (encode (Fin false 1 1)) (encode (Fin false 10 0)) 0 = [([1], 0)] /\
  m_cmp (encode (Fin false 1 1)) (encode (Fin false 10 0)) 4 = [([0], 0)].
Proof. vm_compute. split; reflexivity. Qed.
(* +0E+0 = -0E+5 *)
Example C03_ex_zero : m_cmp (encode (Fin false 0 0)) (encode (Fin true 0 5)) 0 = [([1], 0)].
Proof. vm_compute. reflexivity. Qed.
(* exponent gap of 12287: 1E+6111 > 9999999999999999999999999999999999E-6176, decided by the digit counts *)
Example C03_ex_gap :
  m_cmp (encode (Fin false 1 6111)) (encode (Fin false 9999999999999999999999999999999999 (-6176))) 1 = [([1], 0)].
Proof. vm_compute. reflexivity. Qed.
(* one unit in the last place of the finer operand: 1E+1 > 9.999...9 (34 nines) *)
Example C03_ex_ulp :
  m_cmp (encode (Fin false 1 1)) (encode (Fin false 9999999999999999999999999999999999 (-33))) 1 = [([1], 0)].
Proof. vm_compute. reflexivity. Qed.
(* +Inf is greater than the largest finite number; -Inf less than the most negative *)
Example C03_ex_inf :
  m_cmp (encode (Inf false)) (encode (Fin false 9999999999999999999999999999999999 6111)) 1 = [([1], 0)] /\
  m_cmp (encode (Inf true)) (encode (Fin true 9999999999999999999999999999999999 6111)) 4 = [([1], 0)].
Proof. vm_compute. split; reflexivity. Qed.
(* a non-canonical pattern (coefficient field 2^113-1 >= 10^34) is a zero and equals -0 *)
Example C03_ex_noncanonical :
  canonical_bits (P113 - 1) = false /\ m_cmp (P113 - 1) (encode (Fin true 0 0)) 0 = [([1], 0)].
Proof. vm_compute. split; reflexivity. Qed.
(* quiet NaN: quiet_unordered is true without a flag, signaling_less is false with invalid;
   signaling NaN: quiet_equal is false with invalid *)
Example C03_ex_nan :
  m_cmp (encode (NaN false false 7)) (encode (Fin false 1 0)) 11 = [([1], 0)] /\
  m_cmp (encode (NaN false false 7)) (encode (Fin false 1 0)) 15 = [([0], F_INV)] /\
  m_cmp (encode (Fin false 1 0)) (encode (NaN true true 0)) 0 = [([0], F_INV)] /\
  m_cmp (encode (Fin false 1 0)) (encode (NaN true true 0)) 7 = [([1], F_INV)].
Proof. vm_compute. repeat split; reflexivity. Qed.
(* operators on 1E+1, 10E+0: == (1), <= (4), >= (16), partial_cmp = Equal (2*32) *)
Example C03_ex_ops : m_ops (encode (Fin false 1 1)) (encode (Fin false 10 0)) = [([85], 0)].
Proof. vm_compute. reflexivity. Qed.
(* operators on -2 < 1: < (2), <= (4), partial_cmp = Less (32), != (128) *)
Example C03_ex_ops_lt : m_ops (encode (Fin true 2 0)) (encode (Fin false 1 0)) = [([166], 0)].
Proof. vm_compute. reflexivity. Qed.
