(* C18 - total_order is the IEEE 754-2008 totalOrder on encodings.
   Property theorems only: each is closed by [exact <lemma of theories/TotalProofs.v>] and followed by Print Assumptions.
   All theorems of this file except the two bridge theorems at the end are axiom-free (integers only).

   How the theorems cover the statement.
   * Model: [m_total_order x y] = [([b], 0)] with b = 1 iff [total_le (decode x) (decode y)] (OpsCmp.v); [decode] maps each
     of the 2^128 patterns to the canonical datum it denotes ([Fin s c q | Inf s | NaN s signaling payload], [wf]).
   * "holds exactly when x precedes or equals y in the IEEE totalOrder": [total_spec] (TotalProofs.v, printed below) is
     written clause by clause from 5.10 of the standard: finite values by numerical value ([sval s c q] is the integer
     (-1)^s*c*10^q * 10^6176, i.e. the value scaled by a positive constant); equal values: -0 before +0, else by exponent
     (smaller first when positive, reversed when negative); infinities as extremes; -NaN below and +NaN above every number;
     two NaNs: by sign, then signaling before quiet (reversed for negative), then payload (reversed for negative).
     [C18_total_order_spec]: for all patterns the result is 1 iff total_spec holds, 0 iff it does not.
     [C18_total_le_spec] is the same on well-formed data.
   * the chain -NaN < -Inf < -finite < -0 < +0 < +finite < +Inf < +NaN: [C18_chain] (class index 0..7, strict), with the
     seven links as separate theorems; inner rules [C18_by_value], [C18_cohort], [C18_nan_signaling], [C18_nan_payload].
   * "non-canonical encodings ranked as the values they denote": [C18_noncanonical] (and everything is stated through
     [decode], which maps non-canonical patterns to the datum they denote).
   * reflexive, transitive, total: [C18_refl], [C18_trans], [C18_total] for all patterns (and [_data] versions on wf data).
   * "both hold exactly when x and y denote the same canonical datum": [C18_antisym] (<-> decode x = decode y),
     [C18_antisym_data] (<-> a = b for wf data).
   * total_order_mag: [C18_total_order_mag]: it is total_order of the sign-cleared data, and literally
     m_total_order (x mod 2^127) (y mod 2^127), i.e. of the encodings with the sign bit cleared
     ([C18_clear_sign]: abs_dec (decode x) = decode (x mod P127)); [C18_total_order_mag_spec].
   * no flag, single outcome: [C18_no_flag], [C18_mag_no_flag].
   * [C18_cmp_mag_key]: the executable magnitude comparison [cmp_mag] (digit-count shortcut, never scales by more than
     the digit difference) equals the comparison of the scaled integer values, for any exponent gap.
   * Bridge to real numbers (these two use the Reals axioms): [C18_sval_real], [C18_sval_compare_real]:
     sval is D2R * 10^6176 and comparing svals is Rcompare of the D2R values, so "by numerical value" in total_spec
     is the order of the real values.
   Not covered here: that the Rust code equals the model (differential harness); the case ladder of the implementation
   (bitwise-equal shortcut etc.) is not modelled, only its result. *)
From Coq Require Import ZArith Reals Bool List.
From Flocq Require Import Core.Core.
From DV Require Import Base Bid BidProofs Arith OpsArith OpsCmp TotalProofs TotalRealProofs.
Import ListNotations.
Open Scope Z_scope.

Print total_spec.
Print sval.
Print vkey.
Print chain_class.

(* ---- the executable comparison of magnitudes is comparison of scaled integer values ---- *)
Theorem C18_cmp_mag_key : forall cx qx cy qy,
  0 <= cx -> 0 <= cy -> -6176 <= qx -> -6176 <= qy ->
  cmp_mag cx qx cy qy = (vkey cx qx ?= vkey cy qy).
Proof. exact cmp_mag_key. Qed.
Print Assumptions C18_cmp_mag_key.

(* ---- specification ---- *)
Theorem C18_total_le_spec : forall dx dy, wf dx -> wf dy -> (total_le dx dy = true <-> total_spec dx dy).
Proof. exact total_le_spec. Qed.
Print Assumptions C18_total_le_spec.

Theorem C18_total_order_spec : forall x y, 0 <= x < P128 -> 0 <= y < P128 ->
  (m_total_order x y = [([1], 0)] <-> total_spec (decode x) (decode y)) /\
  (m_total_order x y = [([0], 0)] <-> ~ total_spec (decode x) (decode y)).
Proof. exact m_total_order_spec. Qed.
Print Assumptions C18_total_order_spec.

(* ---- order axioms, all patterns ---- *)
Theorem C18_refl : forall x, 0 <= x < P128 -> m_total_order x x = [([1], 0)].
Proof. exact m_total_order_refl. Qed.
Print Assumptions C18_refl.

Theorem C18_trans : forall x y z, 0 <= x < P128 -> 0 <= y < P128 -> 0 <= z < P128 ->
  m_total_order x y = [([1], 0)] -> m_total_order y z = [([1], 0)] -> m_total_order x z = [([1], 0)].
Proof. exact m_total_order_trans. Qed.
Print Assumptions C18_trans.

Theorem C18_total : forall x y, 0 <= x < P128 -> 0 <= y < P128 ->
  m_total_order x y = [([1], 0)] \/ m_total_order y x = [([1], 0)].
Proof. exact m_total_order_total. Qed.
Print Assumptions C18_total.

Theorem C18_antisym : forall x y, 0 <= x < P128 -> 0 <= y < P128 ->
  (m_total_order x y = [([1], 0)] /\ m_total_order y x = [([1], 0)] <-> decode x = decode y).
Proof. exact m_total_order_antisym. Qed.
Print Assumptions C18_antisym.

(* ---- order axioms, well-formed data ---- *)
Theorem C18_refl_data : forall a, wf a -> total_le a a = true.
Proof. exact total_le_refl. Qed.
Print Assumptions C18_refl_data.

Theorem C18_trans_data : forall a b c, wf a -> wf b -> wf c ->
  total_le a b = true -> total_le b c = true -> total_le a c = true.
Proof. exact total_le_trans. Qed.
Print Assumptions C18_trans_data.

Theorem C18_total_data : forall a b, wf a -> wf b -> total_le a b = true \/ total_le b a = true.
Proof. exact total_le_total. Qed.
Print Assumptions C18_total_data.

Theorem C18_antisym_data : forall a b, wf a -> wf b -> (total_le a b = true /\ total_le b a = true <-> a = b).
Proof. exact total_le_antisym. Qed.
Print Assumptions C18_antisym_data.

(* ---- the chain ---- *)
Theorem C18_chain : forall x y, chain_class (decode x) < chain_class (decode y) ->
  m_total_order x y = [([1], 0)] /\ m_total_order y x = [([0], 0)].
Proof. exact m_total_order_chain. Qed.
Print Assumptions C18_chain.

Theorem C18_chain_data : forall a b, chain_class a < chain_class b -> total_le a b = true /\ total_le b a = false.
Proof. exact total_order_chain. Qed.
Print Assumptions C18_chain_data.

Theorem C18_chain_nNaN_nInf : forall sg p,
  total_le (NaN true sg p) (Inf true) = true /\ total_le (Inf true) (NaN true sg p) = false.
Proof. exact chain_nNaN_nInf. Qed.
Print Assumptions C18_chain_nNaN_nInf.
Theorem C18_chain_nInf_nFin : forall c q, c <> 0 ->
  total_le (Inf true) (Fin true c q) = true /\ total_le (Fin true c q) (Inf true) = false.
Proof. exact chain_nInf_nFin. Qed.
Print Assumptions C18_chain_nInf_nFin.
Theorem C18_chain_nFin_nZero : forall c q q0, c <> 0 ->
  total_le (Fin true c q) (Fin true 0 q0) = true /\ total_le (Fin true 0 q0) (Fin true c q) = false.
Proof. exact chain_nFin_nZero. Qed.
Print Assumptions C18_chain_nFin_nZero.
Theorem C18_chain_nZero_pZero : forall q q',
  total_le (Fin true 0 q) (Fin false 0 q') = true /\ total_le (Fin false 0 q') (Fin true 0 q) = false.
Proof. exact chain_nZero_pZero. Qed.
Print Assumptions C18_chain_nZero_pZero.
Theorem C18_chain_pZero_pFin : forall c q q0, c <> 0 ->
  total_le (Fin false 0 q0) (Fin false c q) = true /\ total_le (Fin false c q) (Fin false 0 q0) = false.
Proof. exact chain_pZero_pFin. Qed.
Print Assumptions C18_chain_pZero_pFin.
Theorem C18_chain_pFin_pInf : forall c q,
  total_le (Fin false c q) (Inf false) = true /\ total_le (Inf false) (Fin false c q) = false.
Proof. exact chain_pFin_pInf. Qed.
Print Assumptions C18_chain_pFin_pInf.
Theorem C18_chain_pInf_pNaN : forall sg p,
  total_le (Inf false) (NaN false sg p) = true /\ total_le (NaN false sg p) (Inf false) = false.
Proof. exact chain_pInf_pNaN. Qed.
Print Assumptions C18_chain_pInf_pNaN.

(* ---- inner rules ---- *)
Theorem C18_by_value : forall sx cx qx sy cy qy, wf (Fin sx cx qx) -> wf (Fin sy cy qy) ->
  sval sx cx qx < sval sy cy qy ->
  total_le (Fin sx cx qx) (Fin sy cy qy) = true /\ total_le (Fin sy cy qy) (Fin sx cx qx) = false.
Proof. exact total_le_by_value. Qed.
Print Assumptions C18_by_value.
Example C18_by_value_ex : wf (Fin true 1 0) /\ wf (Fin false 5 (-3)) /\ sval true 1 0 < sval false 5 (-3).
Proof. vm_compute. repeat split; intros; discriminate. Qed.

Theorem C18_cohort : forall s cx qx cy qy, wf (Fin s cx qx) -> wf (Fin s cy qy) ->
  vkey cx qx = vkey cy qy ->
  total_le (Fin s cx qx) (Fin s cy qy) = if s then qy <=? qx else qx <=? qy.
Proof. exact total_le_cohort. Qed.
Print Assumptions C18_cohort.
Example C18_cohort_ex : wf (Fin false 1 1) /\ wf (Fin false 10 0) /\ vkey 1 1 = vkey 10 0.
Proof. vm_compute. repeat split; intros; discriminate. Qed.

Theorem C18_nan_signaling : forall p p',
  total_le (NaN false true p) (NaN false false p') = true /\ total_le (NaN false false p') (NaN false true p) = false /\
  total_le (NaN true false p') (NaN true true p) = true /\ total_le (NaN true true p) (NaN true false p') = false.
Proof. exact total_le_nan_signaling. Qed.
Print Assumptions C18_nan_signaling.

Theorem C18_nan_payload : forall sg p p',
  total_le (NaN false sg p) (NaN false sg p') = (p <=? p') /\
  total_le (NaN true sg p) (NaN true sg p') = (p' <=? p).
Proof. exact total_le_nan_payload. Qed.
Print Assumptions C18_nan_payload.

(* ---- non-canonical encodings ---- *)
Theorem C18_noncanonical : forall x y, 0 <= x < P128 -> 0 <= y < P128 ->
  m_total_order x y = m_total_order (encode (decode x)) (encode (decode y)).
Proof. exact m_total_order_canonical. Qed.
Print Assumptions C18_noncanonical.

Theorem C18_noncanonical_mag : forall x y, 0 <= x < P128 -> 0 <= y < P128 ->
  m_total_order_mag x y = m_total_order_mag (encode (decode x)) (encode (decode y)).
Proof. exact m_total_order_mag_canonical. Qed.
Print Assumptions C18_noncanonical_mag.

(* ---- magnitude variant ---- *)
Theorem C18_clear_sign : forall x, abs_dec (decode x) = decode (x mod P127).
Proof. exact decode_clear_sign. Qed.
Print Assumptions C18_clear_sign.

Theorem C18_total_order_mag : forall x y,
  m_total_order_mag x y = [([b2z (total_le (abs_dec (decode x)) (abs_dec (decode y)))], 0)] /\
  m_total_order_mag x y = m_total_order (x mod P127) (y mod P127).
Proof. exact total_order_mag. Qed.
Print Assumptions C18_total_order_mag.

Theorem C18_total_order_mag_spec : forall x y, 0 <= x < P128 -> 0 <= y < P128 ->
  (m_total_order_mag x y = [([1], 0)] <-> total_spec (abs_dec (decode x)) (abs_dec (decode y))) /\
  (m_total_order_mag x y = [([0], 0)] <-> ~ total_spec (abs_dec (decode x)) (abs_dec (decode y))).
Proof. exact m_total_order_mag_spec. Qed.
Print Assumptions C18_total_order_mag_spec.

(* ---- single outcome, result 0 or 1, no flag ---- *)
Theorem C18_no_flag : forall x y,
  m_total_order x y = [([if total_le (decode x) (decode y) then 1 else 0], 0)].
Proof. exact m_total_order_out. Qed.
Print Assumptions C18_no_flag.

Theorem C18_mag_no_flag : forall x y,
  m_total_order_mag x y = [([if total_le (abs_dec (decode x)) (abs_dec (decode y)) then 1 else 0], 0)].
Proof. exact m_total_order_mag_out. Qed.
Print Assumptions C18_mag_no_flag.

(* ---- bridge: sval is the real value scaled by 10^6176 (Reals axioms) ---- *)
Theorem C18_sval_real : forall s c q, -6176 <= q ->
  D2R (Fin s c q) = (IZR (sval s c q) * bpow radix10 (-6176))%R.
Proof. exact sval_D2R. Qed.
Print Assumptions C18_sval_real.

Theorem C18_sval_compare_real : forall sx cx qx sy cy qy, -6176 <= qx -> -6176 <= qy ->
  Rcompare (D2R (Fin sx cx qx)) (D2R (Fin sy cy qy)) = (sval sx cx qx ?= sval sy cy qy).
Proof. exact sval_compare_D2R. Qed.
Print Assumptions C18_sval_compare_real.

(* ---- non-vacuity witnesses ---- *)
(* 1E+1 and 10E+0 are numerically equal: the smaller exponent comes first when positive ... *)
Example ex_cohort_pos :
  m_total_order (encode (Fin false 10 0)) (encode (Fin false 1 1)) = [([1], 0)] /\
  m_total_order (encode (Fin false 1 1)) (encode (Fin false 10 0)) = [([0], 0)].
Proof. vm_compute. split; reflexivity. Qed.
(* ... and last when negative *)
Example ex_cohort_neg :
  m_total_order (encode (Fin true 1 1)) (encode (Fin true 10 0)) = [([1], 0)] /\
  m_total_order (encode (Fin true 10 0)) (encode (Fin true 1 1)) = [([0], 0)].
Proof. vm_compute. split; reflexivity. Qed.
(* a huge exponent gap: 1E-6176 < 1E+6111 without forming 10^12287 *)
Example ex_gap :
  m_total_order (encode (Fin false 1 (-6176))) (encode (Fin false 1 6111)) = [([1], 0)] /\
  m_total_order (encode (Fin false 1 6111)) (encode (Fin false 1 (-6176))) = [([0], 0)].
Proof. vm_compute. split; reflexivity. Qed.
(* sNaN before qNaN whatever the payloads (positive); reversed when negative *)
Example ex_snan_qnan :
  m_total_order (encode (NaN false true 5)) (encode (NaN false false 3)) = [([1], 0)] /\
  m_total_order (encode (NaN false false 3)) (encode (NaN false true 5)) = [([0], 0)] /\
  m_total_order (encode (NaN true false 3)) (encode (NaN true true 5)) = [([1], 0)] /\
  m_total_order (encode (NaN true true 5)) (encode (NaN true false 3)) = [([0], 0)].
Proof. vm_compute. repeat split; reflexivity. Qed.
(* payload order, reversed for negative NaNs *)
Example ex_payload :
  m_total_order (encode (NaN false false 3)) (encode (NaN false false 7)) = [([1], 0)] /\
  m_total_order (encode (NaN false false 7)) (encode (NaN false false 3)) = [([0], 0)] /\
  m_total_order (encode (NaN true false 7)) (encode (NaN true false 3)) = [([1], 0)] /\
  m_total_order (encode (NaN true false 3)) (encode (NaN true false 7)) = [([0], 0)].
Proof. vm_compute. repeat split; reflexivity. Qed.
(* -0 before +0, and ordinary comparison treats them as equal *)
Example ex_zeros :
  m_total_order (encode (Fin true 0 0)) (encode (Fin false 0 0)) = [([1], 0)] /\
  m_total_order (encode (Fin false 0 0)) (encode (Fin true 0 0)) = [([0], 0)] /\
  cmp_dec (Fin true 0 0) (Fin false 0 0) = REq.
Proof. vm_compute. repeat split; reflexivity. Qed.
(* non-canonical patterns: coefficient field 2^113-1 >= 10^34 with biased exponent 6176, and the large-coefficient form
   24*2^122 (biased exponent 0): both denote +0 (exponents 0 and -6176) and rank exactly as those zeros *)
Example ex_noncanonical :
  decode (6176 * P113 + (P113 - 1)) = Fin false 0 0 /\ canonical_bits (6176 * P113 + (P113 - 1)) = false /\
  m_total_order (6176 * P113 + (P113 - 1)) (encode (Fin false 0 0)) = [([1], 0)] /\
  m_total_order (encode (Fin false 0 0)) (6176 * P113 + (P113 - 1)) = [([1], 0)] /\
  decode (24 * P122) = Fin false 0 (-6176) /\ canonical_bits (24 * P122) = false /\
  m_total_order (24 * P122) (encode (Fin false 0 (-6176))) = [([1], 0)] /\
  m_total_order (encode (Fin false 0 (-6176))) (24 * P122) = [([1], 0)] /\
  m_total_order (24 * P122) (encode (Fin false 0 (-6175))) = [([1], 0)] /\
  m_total_order (encode (Fin false 0 (-6175))) (24 * P122) = [([0], 0)].
Proof. vm_compute. repeat split; reflexivity. Qed.
(* a NaN with payload field >= 10^33 denotes payload 0 *)
Example ex_noncanonical_nan :
  decode (31 * P122 + T33) = NaN false false 0 /\
  m_total_order (31 * P122 + T33) (31 * P122 + 1) = [([1], 0)] /\
  m_total_order (31 * P122 + 1) (31 * P122 + T33) = [([0], 0)].
Proof. vm_compute. repeat split; reflexivity. Qed.
(* magnitude variant: |-5| vs |+3|; -NaN is ranked as +NaN *)
Example ex_mag :
  m_total_order (encode (Fin true 5 0)) (encode (Fin false 3 0)) = [([1], 0)] /\
  m_total_order_mag (encode (Fin true 5 0)) (encode (Fin false 3 0)) = [([0], 0)] /\
  m_total_order_mag (encode (Fin false 3 0)) (encode (Fin true 5 0)) = [([1], 0)] /\
  m_total_order_mag (encode (Inf false)) (encode (NaN true false 0)) = [([1], 0)] /\
  (encode (Fin true 5 0)) mod P127 = encode (Fin false 5 0).
Proof. vm_compute. repeat split; reflexivity. Qed.
(* the chain, one representative per class *)
Example ex_chain :
  map (fun d => chain_class d)
      [NaN true false 1; Inf true; Fin true 7 2; Fin true 0 5; Fin false 0 (-5); Fin false 7 2; Inf false; NaN false true 0]
  = [0; 1; 2; 3; 4; 5; 6; 7].
Proof. vm_compute. reflexivity. Qed.
