(* C02, SECONDARY CONFIGURATION - the cargo feature `decimal_tiny_detection_after_rounding`
   (properties.jsonl, C02, quantifier: "secondary configuration: the tininess-after-rounding cargo feature").
   Property theorems only: each is closed by [exact <lemma of theories/TinyAfterProofs.v>] and followed by
   Print Assumptions.  The model of this configuration is theories/TinyAfter.v (m_fma_ta, m_mul_ta, expected_ta).

   What the feature is.  It changes WHEN fused multiply-add and multiplication (= fma with a zero addend in the
   crate) raise the underflow flag, and nothing else.  IEEE 754-2008 7.5 lets an implementation detect tininess
   "before rounding" (|v| < 10^-6143 for the exact value v; the default, specified by Base.ieee_result) or
   "after rounding" (v rounded to 34 digits as though the exponent range were unbounded is below 10^-6143 in
   magnitude); underflow is signalled iff the result is tiny and inexact.  [ieee_result_ta] (theories/TinyAfter.v)
   is [ieee_result] with that one clause replaced:
       f_underflow fl = true  <->  rounded <> v  /\  |round radix10 (FLX_exp 34) (rnd_of md) v| < 10^-6143
   (Flocq's FLX_exp 34 is the 34-digit format with unbounded exponent).  The delivered datum is still the
   rounding in the bounded format FLT_exp (-6176) 34; inexact, overflow, sign, quantum clauses are verbatim.

   How the theorems cover C02 in this configuration:
   * C02ta_fma, C02ta_mul: for all finite operand patterns and all five modes the single accepted outcome of
     m_fma_ta / m_mul_ta is ([encode d], flbits fl) with [ieee_result_ta md v pref zs d fl], v = x*y+z resp. x*y
     exact, pref and zs as in C02_fma / m_mul_finite.  C02ta_ieee_result_ta_functional and
     C02ta_finite_result_ta_functional: that specification has exactly one solution (datum and flags), so the
     two theorems pin THE answer bit for bit, status word included.
   * "nothing else changes": C02ta_differs_only_in_underflow (specification level: same datum, same inexact and
     overflow bits; the underflow bit of the feature implies the default's - tiny after rounding implies tiny before
     rounding - so the feature can only CLEAR underflow), C02ta_fma_vs_default / C02ta_mul_vs_default (the same
     at the level of the outcome lists of m_fma/m_fma_ta and m_mul/m_mul_ta for finite operands), and
     C02ta_fma_specials / C02ta_mul_specials (any NaN or infinite operand: the outcome lists are EQUAL, so the
     special-value and NaN theorems of props/C02.v and C12 carry over unchanged).
   * when the two configurations differ: C02ta_differ_iff - exactly when the result is inexact and
     |v| < 10^-6143 <= |v rounded to 34 digits, exponent unbounded|; C02ta_band_is_carry: on that band the
     34-digit rounding is exactly 10^-6143 (a carry); C02ta_same_outside_band: off the band the two
     specifications are equivalent.
   * Examples: the witness 0.99999999999999999999999999999999996E-6143 = 8333333333333333333333333333333333E-6176
     * 12E-2: under the three modes that round it up (RNE, RNA, RUP) the default raises underflow+inexact, the
     feature inexact only, same result 1000000000000000000000000000000000E-6176; under RDN/RTZ both raise
     underflow+inexact.  A fused witness 10^-6143 - 10^-6196.  A deeper underflow where both agree.

   NOT covered / caveats (be aware when wiring the harness):
   * Add, sub, div, sqrt, quantize ... are unaffected by the feature in the crate; nothing is modelled or proved
     for them here - the default-configuration theorems apply.
   * round_pack_ta_correct / rp_ta_correct (theories/TinyAfterProofs.v) need ONE MORE hypothesis than
     round_pack_correct: when digits(c)+e = -6143 the located triple must be exact or satisfy e <= digits(c)+e-34,
     i.e. be fine enough to determine a 34-digit rounding.  This is necessary, not a proof artefact:
     the triple (10^33-1, -6176, Inexact Gt) satisfies round_pack_correct's hypotheses for both
     v1 = (10^34-4)E-6177 (34 digits: tiny after rounding) and v2 = (10^35-4)E-6178 (rounds to 10^-6143 under RNE:
     not tiny after rounding), so no function of the triple can decide
     (C02ta_extra_hypothesis_needed; the two reals: TinyAfterProofs.tiny_after_needs_H3).  All triples produced by mul_fin_ta and
     add_gen_ta are exact or have at least 40 digits, so C02ta_fma / C02ta_mul are unconditional.
   * Totality of the Rust implementation is not a Coq theorem (differential harness), as for C02. *)
From Coq Require Import ZArith Reals Bool List.
From Flocq Require Import Core.Core Calc.Bracket.
From DV Require Import Base RoundProofs SpecProofs Bid BidProofs Arith ArithProofs OpsArith OpsArithProofs Judge
  TinyAfter TinyAfterProofs.
Import ListNotations.
Open Scope Z_scope.

(* ---------- the single rounding of x*y+z, flags with tininess after rounding ---------- *)
Theorem C02ta_fma : forall md x y z sx cx qx sy cy qy sz cz qz,
  0 <= x < P128 -> 0 <= y < P128 -> 0 <= z < P128 ->
  decode x = Fin sx cx qx -> decode y = Fin sy cy qy -> decode z = Fin sz cz qz ->
  finite_result_ta md (D2R (decode x) * D2R (decode y) + D2R (decode z)) (Z.min (qx + qy) qz)
    (zs_add md (xorb sx sy) sz) (m_fma_ta md x y z).
Proof. exact m_fma_ta_finite. Qed.
Print Assumptions C02ta_fma.

Theorem C02ta_mul : forall md x y sx cx qx sy cy qy,
  0 <= x < P128 -> 0 <= y < P128 -> decode x = Fin sx cx qx -> decode y = Fin sy cy qy ->
  finite_result_ta md (D2R (decode x) * D2R (decode y)) (qx + qy) (xorb sx sy) (m_mul_ta md x y).
Proof. exact m_mul_ta_finite. Qed.
Print Assumptions C02ta_mul.

(* the specification of the secondary configuration determines datum and flags *)
Theorem C02ta_ieee_result_ta_functional : forall md v pref zs d fl d' fl',
  ieee_result_ta md v pref zs d fl -> ieee_result_ta md v pref zs d' fl' -> d = d' /\ fl = fl'.
Proof. exact ieee_result_ta_functional. Qed.
Print Assumptions C02ta_ieee_result_ta_functional.

Theorem C02ta_finite_result_ta_functional : forall md v pref zs l l',
  finite_result_ta md v pref zs l -> finite_result_ta md v pref zs l' -> l = l'.
Proof. exact finite_result_ta_functional. Qed.
Print Assumptions C02ta_finite_result_ta_functional.

(* ---------- nothing but the underflow bit changes, and it can only be cleared ---------- *)
Theorem C02ta_differs_only_in_underflow : forall md v pref zs d fl d' fl',
  ieee_result md v pref zs d fl -> ieee_result_ta md v pref zs d' fl' ->
  d = d' /\ f_inexact fl = f_inexact fl' /\ f_overflow fl = f_overflow fl' /\
  (f_underflow fl' = true -> f_underflow fl = true).
Proof. exact ta_differs_only_in_underflow. Qed.
Print Assumptions C02ta_differs_only_in_underflow.

(* [same_but_underflow l l']: l = [([b], flbits fl)], l' = [([b], flbits fl')] with the same pattern b, the same
   inexact and overflow bits, and f_underflow fl' = true -> f_underflow fl = true *)
Theorem C02ta_fma_vs_default : forall md x y z sx cx qx sy cy qy sz cz qz,
  0 <= x < P128 -> 0 <= y < P128 -> 0 <= z < P128 ->
  decode x = Fin sx cx qx -> decode y = Fin sy cy qy -> decode z = Fin sz cz qz ->
  same_but_underflow (m_fma md x y z) (m_fma_ta md x y z).
Proof. exact m_fma_ta_vs_default. Qed.
Print Assumptions C02ta_fma_vs_default.

Theorem C02ta_mul_vs_default : forall md x y sx cx qx sy cy qy,
  0 <= x < P128 -> 0 <= y < P128 -> decode x = Fin sx cx qx -> decode y = Fin sy cy qy ->
  same_but_underflow (m_mul md x y) (m_mul_ta md x y).
Proof. exact m_mul_ta_vs_default. Qed.
Print Assumptions C02ta_mul_vs_default.

(* a NaN or infinite operand: identical outcome lists (axiom-free: no real numbers involved) *)
Theorem C02ta_fma_specials : forall md x y z,
  is_fin (decode x) && is_fin (decode y) && is_fin (decode z) = false -> m_fma_ta md x y z = m_fma md x y z.
Proof. exact m_fma_ta_specials. Qed.
Print Assumptions C02ta_fma_specials.

Theorem C02ta_mul_specials : forall md x y,
  is_fin (decode x) && is_fin (decode y) = false -> m_mul_ta md x y = m_mul md x y.
Proof. exact m_mul_ta_specials. Qed.
Print Assumptions C02ta_mul_specials.

(* ---------- when the two configurations differ ---------- *)
Theorem C02ta_differ_iff : forall md v pref zs d fl d' fl',
  ieee_result md v pref zs d fl -> ieee_result_ta md v pref zs d' fl' ->
  (f_underflow fl <> f_underflow fl' <->
   rounded md v <> v /\ (Rabs v < bpow10 (-6143) <= Rabs (round radix10 (FLX_exp 34) (rnd_of md) v))%R).
Proof. exact ta_differ_iff. Qed.
Print Assumptions C02ta_differ_iff.

Theorem C02ta_band_is_carry : forall md v,
  (Rabs v < bpow10 (-6143) <= Rabs (round radix10 (FLX_exp 34) (rnd_of md) v))%R ->
  Rabs (round radix10 (FLX_exp 34) (rnd_of md) v) = bpow10 (-6143).
Proof. exact band_is_carry. Qed.
Print Assumptions C02ta_band_is_carry.

Theorem C02ta_same_outside_band : forall md v pref zs d fl,
  ~ (Rabs v < bpow10 (-6143) <= Rabs (round radix10 (FLX_exp 34) (rnd_of md) v))%R ->
  (ieee_result md v pref zs d fl <-> ieee_result_ta md v pref zs d fl).
Proof. exact ta_same_outside_band. Qed.
Print Assumptions C02ta_same_outside_band.

(* tininess after rounding implies tininess before rounding (why the feature only clears the bit) *)
Theorem C02ta_after_implies_before : forall md v,
  (Rabs (round radix10 (FLX_exp 34) (rnd_of md) v) < bpow10 (-6143))%R -> (Rabs v < bpow10 (-6143))%R.
Proof. exact after_implies_before. Qed.
Print Assumptions C02ta_after_implies_before.

(* the located-magnitude level: the computed boolean is tininess after rounding; one rounding step *)
Theorem C02ta_tiny_after_iff : forall md c e v l, 0 <= c -> inbetween_float radix10 c e (Rabs v) l -> v <> 0%R ->
  (e <= fexp (Zdigits radix10 c + e) \/ l = loc_Exact) ->
  (Zdigits radix10 c + e = -6143 -> e <= FLX_exp 34 (Zdigits radix10 c + e) \/ l = loc_Exact) ->
  tiny_after md (Rlt_bool v 0) c e l = true <->
  (Rabs (round radix10 (FLX_exp 34) (rnd_of md) v) < bpow10 (-6143))%R.
Proof. exact tiny_after_iff. Qed.
Print Assumptions C02ta_tiny_after_iff.

Theorem C02ta_round_pack_ta_correct : forall md v s c e l pref zs,
  0 <= c -> inbetween_float radix10 c e (Rabs v) l ->
  (v <> 0%R -> s = Rlt_bool v 0) ->
  (e <= fexp (Zdigits radix10 c + e) \/ l = loc_Exact) ->
  (Zdigits radix10 c + e = -6143 -> e <= FLX_exp 34 (Zdigits radix10 c + e) \/ l = loc_Exact) ->
  let '(d, fl) := round_pack_ta md s c e l pref zs in ieee_result_ta md v pref zs d fl.
Proof. exact round_pack_ta_correct. Qed.
Print Assumptions C02ta_round_pack_ta_correct.

Theorem C02ta_rp_ta_correct : forall md v s c e l pref zs,
  0 <= c -> inbetween_float radix10 c e (Rabs v) l ->
  (v <> 0%R -> s = Rlt_bool v 0) ->
  (e <= fexp (Zdigits radix10 c + e) \/ l = loc_Exact) ->
  (Zdigits radix10 c + e = -6143 -> e <= FLX_exp 34 (Zdigits radix10 c + e) \/ l = loc_Exact) ->
  let '(d, fl) := rp_ta md s c e l pref zs in ieee_result_ta md v pref zs d fl.
Proof. exact rp_ta_correct. Qed.
Print Assumptions C02ta_rp_ta_correct.

(* the extra hypothesis of the two theorems above cannot be dropped: under the hypotheses of round_pack_correct alone
   tininess after rounding is not a function of (mode, sign, located triple) *)
Theorem C02ta_extra_hypothesis_needed :
  ~ exists f : rmode -> bool -> Z -> Z -> location -> bool,
      forall md c e v l, 0 <= c -> inbetween_float radix10 c e (Rabs v) l -> v <> 0%R ->
        (e <= fexp (Zdigits radix10 c + e) \/ l = loc_Exact) ->
        (f md (Rlt_bool v 0) c e l = true <-> (Rabs (round radix10 (FLX_exp 34) (rnd_of md) v) < bpow10 (-6143))%R).
Proof. exact no_tiny_after_from_flt_triple. Qed.
Print Assumptions C02ta_extra_hypothesis_needed.

(* the driver's entry point *)
Theorem C02ta_expected_ta : forall md x y z,
  expected_ta 0 md [x; y; z] = Exact (m_fma_ta md x y z) /\ expected_ta 1 md [x; y] = Exact (m_mul_ta md x y).
Proof. exact expected_ta_spec. Qed.
Print Assumptions C02ta_expected_ta.

(* ---------- witnesses ---------- *)
(* 8333333333333333333333333333333333E-6176 * 12E-2 = 0.99999999999999999999999999999999996E-6143 *)
Definition wA := encode (Fin false 8333333333333333333333333333333333 (-6176)).
Definition wB := encode (Fin false 12 (-2)).
Definition wR := encode (Fin false (10 ^ 33) (-6176)).      (* 1000000000000000000000000000000000E-6176 = 1E-6143 *)
Definition wZ := encode (Fin false 0 (-6176)).

(* the configurations differ: rounded up to 10^-6143 under RNE / RNA / RUP *)
Example C02ta_mul_witness_differs :
  m_mul RNE wA wB = [([wR], F_INX + F_UNF)] /\ m_mul_ta RNE wA wB = [([wR], F_INX)] /\
  m_mul RNA wA wB = [([wR], F_INX + F_UNF)] /\ m_mul_ta RNA wA wB = [([wR], F_INX)] /\
  m_mul RUP wA wB = [([wR], F_INX + F_UNF)] /\ m_mul_ta RUP wA wB = [([wR], F_INX)].
Proof. vm_compute. repeat split; reflexivity. Qed.

(* same operands, rounded down: still tiny after rounding, both raise underflow *)
Example C02ta_mul_witness_directed_agree :
  m_mul RDN wA wB = [([encode (Fin false (10 ^ 33 - 1) (-6176))], F_INX + F_UNF)] /\
  m_mul_ta RDN wA wB = m_mul RDN wA wB /\ m_mul_ta RTZ wA wB = m_mul RTZ wA wB.
Proof. vm_compute. repeat split; reflexivity. Qed.

Example C02ta_fma_witness_differs :     (* the same product through the fma with a zero addend *)
  m_fma RNE wA wB wZ = [([wR], F_INX + F_UNF)] /\ m_fma_ta RNE wA wB wZ = [([wR], F_INX)].
Proof. vm_compute. split; reflexivity. Qed.

Example C02ta_fma_witness_far_addend :  (* 10^-6143 - 10^-6196 (far-apart path): rounds to 10^-6143 in both formats *)
  m_fma RNE (encode (Fin true 1 (-6176))) (encode (Fin false 1 (-20))) wR = [([wR], F_INX + F_UNF)] /\
  m_fma_ta RNE (encode (Fin true 1 (-6176))) (encode (Fin false 1 (-20))) wR = [([wR], F_INX)] /\
  m_fma_ta RTZ (encode (Fin true 1 (-6176))) (encode (Fin false 1 (-20))) wR =
    [([encode (Fin false (10 ^ 33 - 1) (-6176))], F_INX + F_UNF)].
Proof. vm_compute. repeat split; reflexivity. Qed.

(* deeper underflow: both configurations agree (0.5E-6176 -> 0E-6176; and 1E-6176 * 1E-6000 through the shortcut) *)
Example C02ta_witness_agree_deeper :
  m_mul_ta RNE (encode (Fin false 1 (-6176))) (encode (Fin false 5 (-1))) = [([wZ], F_INX + F_UNF)] /\
  m_mul RNE (encode (Fin false 1 (-6176))) (encode (Fin false 5 (-1))) = [([wZ], F_INX + F_UNF)] /\
  m_fma_ta RNE (encode (Fin false 1 (-6176))) (encode (Fin false 5 (-1))) wZ = [([wZ], F_INX + F_UNF)] /\
  m_fma RNE (encode (Fin false 1 (-6176))) (encode (Fin false 5 (-1))) wZ = [([wZ], F_INX + F_UNF)] /\
  m_mul_ta RUP (encode (Fin false 1 (-6176))) (encode (Fin false 1 (-6000))) =
    [([encode (Fin false 1 (-6176))], F_INX + F_UNF)] /\
  m_mul RUP (encode (Fin false 1 (-6176))) (encode (Fin false 1 (-6000))) =
    [([encode (Fin false 1 (-6176))], F_INX + F_UNF)].
Proof. vm_compute. repeat split; reflexivity. Qed.

(* subnormal but exact: no flag in either configuration; normal results: identical *)
Example C02ta_witness_exact_subnormal :
  m_mul_ta RNE (encode (Fin false 123 (-6176))) (encode (Fin false 1 0)) = [([encode (Fin false 123 (-6176))], 0)] /\
  m_fma_ta RNE (encode (Fin false 2 0)) (encode (Fin false 3 0)) (encode (Fin false 4 0)) = [([encode (Fin false 10 0)], 0)].
Proof. vm_compute. split; reflexivity. Qed.

(* special operands are handled as in the default configuration: 0 * Inf + 1 is invalid *)
Example C02ta_witness_invalid :
  m_fma_ta RNE (encode (Fin false 0 0)) (encode (Inf false)) (encode (Fin false 1 0)) = invalid_out.
Proof. vm_compute. reflexivity. Qed.

(* the dispatch used by the driver *)
Example C02ta_expected_witness :
  expected_ta 1 RNE [wA; wB] = Exact [([wR], F_INX)] /\ expected_ta 0 RNE [wA; wB; wZ] = Exact [([wR], F_INX)] /\
  expected_ta 2 RNE [wA; wB] = Exact [].
Proof. vm_compute. repeat split; reflexivity. Qed.

(* ---------- the recorded finding KF_TA_MINNORMAL (class 2; DESIGN section 18) ----------
   What the judge of the secondary configuration uses is [expected_ta_kf]: it is [expected_ta] except on cases whose demanded result is
   the smallest normal number +-10^33 * 10^-6176, inexact; there the DEMAND (required) is still [expected_ta]'s answer and the recorded
   deviation is the same datum with the underflow bit flipped.  Nothing else is tolerated. *)
Theorem C02ta_known_class_is_narrow : forall name md args,
  expect_list (expected_ta_kf name md args) = expect_list (expected_ta name md args) /\
  (forall k req rcd, expected_ta_kf name md args = Known k req rcd ->
     k = KF_TA_MINNORMAL /\ req = expected_ta name md args /\
     exists l, expected_ta name md args = Exact l /\ is_min_normal_inexact l = true /\ rcd = Exact (flip_underflow l)) /\
  (forall l, expected_ta name md args = Exact l -> is_min_normal_inexact l = false -> expected_ta_kf name md args = Exact l).
Proof. exact expected_ta_kf_required. Qed.
Print Assumptions C02ta_known_class_is_narrow.
