(* C08 - round-to-integral operations round to an integer in the stated direction; modf.

   The Judge (theories/Judge.v) maps round_to_integral_exact to [rint_dec md true], nearbyint to [rint_dec md false] and
   the five fixed-direction forms to [rint_dec m false] ([C08_dispatch]); so one family of theorems about
   [rint_dec md signal_inexact], for every mode and both values of [signal_inexact], covers the eleven entry points.

   How the theorems cover the property text (for every pattern 0 <= x < 2^128):
   * "return the integral-valued decimal obtained by rounding the exact value in that direction":
     [C08_rint_value]: for a finite operand the single outcome is the canonical encoding of a well-formed datum with
     the sign of x whose real value is IZR (rnd_of md (D2R (decode x))) - Flocq's ZnearestE / Zfloor / Zceil / Ztrunc /
     ZnearestA of the exact value - and whose exponent is max q 0.
   * "operands whose exponent is already non-negative are returned unchanged, all others come back as that integer with
     exponent zero, zero results keep the operand's sign, infinities are returned as is": [C08_rint_spec] gives the
     datum case by case (c = 0: Fin s 0 (max q 0); q >= 0: Fin s c q, the operand's own datum, i.e. the canonical form of
     the operand; q < 0: Fin s |n| 0 with n the rounded integer, the sign s of x kept even when n = 0, |n| <= c so the
     result is well formed; Inf s: Inf s; NaN: the common NaN rule of C12).  [C08_rint_unchanged]: a canonical operand
     with q >= 0 comes back bit for bit.
   * "Only round-to-integral-exact raises inexact (exactly when the value changed)": in [C08_rint_spec] / [C08_rint_value]
     the flag word is 0 or F_INX and is F_INX iff signal_inexact = true and the result value differs from the operand;
     [C08_rint_flags]: for every non-NaN operand nothing else is ever raised, and F_INX only with signal_inexact.
   * "modf returns the toward-zero integral part together with the exact difference x minus it, both carrying the sign
     of x": [C08_modf_spec] (data, including the 45 < -q shortcut; for q >= 0: (x, zero with quantum q); for q < 0:
     integral part Fin s (c / 10^-q) 0, fractional part Fin s (c mod 10^-q) q; Inf s: (Inf s, Fin s 0 0); NaN: both
     outputs are the propagated NaN) and [C08_modf_value] (both parts well formed, integral part = the outcome of
     round-to-integral toward zero, value IZR (Ztrunc v); fractional part has the quantum q of x, the sign of x and
     value exactly v - ip; ip + fp = v; no flag).
   * modf of an infinity: the property does not fix the exponent of the zero fractional part, so the Judge accepts any
     canonical zero of the right sign there ([C08_dispatch], last clause); [C08_modf_inf_accepted] shows that the
     outcome listed by [m_modf] satisfies that predicate.

   Not covered here: which NaN comes back for NaN operands (C12, theorem nan_outcomes_spec). *)
From Coq Require Import ZArith Reals Bool List.
From Flocq Require Import Core.Core.
From DV Require Import Base Bid BidProofs Arith OpsArith OpsCmp OpsMisc OpsConv OpsStr Judge IntRoundProofs.
Import ListNotations.
Open Scope Z_scope.

Theorem C08_dispatch : forall md x,
  expected ORint md [x] = Exact (rint_dec md true x) /\
  expected ONearbyint md [x] = Exact (rint_dec md false x) /\
  (forall m, expected (ORintFix m) md [x] = Exact (rint_dec m false x)) /\
  (is_inf (decode x) = false -> expected OModf md [x] = Exact (m_modf x)) /\
  (forall s, decode x = Inf s -> expected OModf md [x] = Pred (modf_inf_ok s) [0]).
Proof. exact dispatch_C08. Qed.
Print Assumptions C08_dispatch.

Theorem C08_rint_spec : forall md sig x, 0 <= x < P128 ->
  match decode x with
  | Fin s c q =>
      (c = 0 -> rint_dec md sig x = out1 (Fin s 0 (Z.max q 0)) 0) /\
      (c <> 0 -> 0 <= q -> rint_dec md sig x = out1 (Fin s c q) 0) /\
      (c <> 0 -> q < 0 ->
         let v := D2R (decode x) in let n := rnd_of md v in
         cond_Zopp s (Z.abs n) = n /\ Z.abs n <= c /\
         exists fl, rint_dec md sig x = out1 (Fin s (Z.abs n) 0) fl /\ (fl = 0 \/ fl = F_INX) /\
                    (fl = F_INX <-> sig = true /\ IZR n <> v))
  | Inf s => rint_dec md sig x = out1 (Inf s) 0
  | NaN _ _ _ => rint_dec md sig x = nan_outcomes [decode x]
  end.
Proof. exact rint_spec_proof. Qed.
Print Assumptions C08_rint_spec.

Theorem C08_rint_value : forall md sig x s c q, 0 <= x < P128 -> decode x = Fin s c q ->
  let v := D2R (decode x) in
  exists c' q' fl, rint_dec md sig x = [([encode (Fin s c' q')], fl)] /\
    wf (Fin s c' q') /\ decode (encode (Fin s c' q')) = Fin s c' q' /\
    q' = Z.max q 0 /\
    D2R (Fin s c' q') = IZR (rnd_of md v) /\
    (fl = 0 \/ fl = F_INX) /\
    (fl = F_INX <-> sig = true /\ D2R (Fin s c' q') <> v).
Proof. exact rint_value_proof. Qed.
Print Assumptions C08_rint_value.

Theorem C08_rint_unchanged : forall md sig x s c q, canonical_bits x = true -> decode x = Fin s c q -> 0 <= q ->
  rint_dec md sig x = [([x], 0)].
Proof. exact rint_unchanged_proof. Qed.
Print Assumptions C08_rint_unchanged.

Theorem C08_rint_flags : forall md sig x outs fl, 0 <= x < P128 -> is_nan (decode x) = false ->
  In (outs, fl) (rint_dec md sig x) -> fl = 0 \/ (fl = F_INX /\ sig = true).
Proof. exact rint_flags_proof. Qed.
Print Assumptions C08_rint_flags.

Theorem C08_modf_spec : forall x, 0 <= x < P128 ->
  match decode x with
  | Fin s c q =>
      (0 <= q -> m_modf x = [([encode (Fin s c q); encode (Fin s 0 q)], 0)]) /\
      (q < 0 ->
         let v := D2R (decode x) in
         let n := Z.abs (Ztrunc v) in
         let fc := c - n * 10 ^ (- q) in
         m_modf x = [([encode (Fin s n 0); encode (Fin s fc q)], 0)] /\
         cond_Zopp s n = Ztrunc v /\ n = c / 10 ^ (- q) /\ fc = c mod 10 ^ (- q) /\
         0 <= n <= c /\ 0 <= fc <= c /\ fc < 10 ^ (- q))
  | Inf s => m_modf x = [([encode (Inf s); encode (Fin s 0 0)], 0)]
  | NaN _ _ _ => m_modf x = map dup_outs (nan_outcomes [decode x])
  end.
Proof. exact modf_spec_proof. Qed.
Print Assumptions C08_modf_spec.

Theorem C08_modf_value : forall x s c q, 0 <= x < P128 -> decode x = Fin s c q ->
  let v := D2R (decode x) in
  exists ci qi cf, m_modf x = [([encode (Fin s ci qi); encode (Fin s cf q)], 0)] /\
    wf (Fin s ci qi) /\ wf (Fin s cf q) /\
    decode (encode (Fin s ci qi)) = Fin s ci qi /\ decode (encode (Fin s cf q)) = Fin s cf q /\
    rint_dec RTZ false x = [([encode (Fin s ci qi)], 0)] /\
    D2R (Fin s ci qi) = IZR (Ztrunc v) /\
    D2R (Fin s cf q) = (v - D2R (Fin s ci qi))%R /\
    (D2R (Fin s ci qi) + D2R (Fin s cf q) = v)%R.
Proof. exact modf_value_proof. Qed.
Print Assumptions C08_modf_value.

Theorem C08_modf_inf_accepted : forall s, modf_inf_ok s [encode (Inf s); encode (Fin s 0 0)] = true.
Proof. exact modf_inf_accepted. Qed.
Print Assumptions C08_modf_inf_accepted.

(* ---------- non-vacuity witnesses ---------- *)
(* 2.5 and -2.5 under the five directions, inexact-signalling form *)
Example C08_w_25 :
  map (fun md => rint_dec md true (encode (Fin false 25 (-1)))) [RNE; RDN; RUP; RTZ; RNA] =
  [ out1 (Fin false 2 0) F_INX; out1 (Fin false 2 0) F_INX; out1 (Fin false 3 0) F_INX; out1 (Fin false 2 0) F_INX; out1 (Fin false 3 0) F_INX ].
Proof. vm_compute. reflexivity. Qed.
Example C08_w_m25 :
  map (fun md => rint_dec md false (encode (Fin true 25 (-1)))) [RNE; RDN; RUP; RTZ; RNA] =
  [ out1 (Fin true 2 0) 0; out1 (Fin true 3 0) 0; out1 (Fin true 2 0) 0; out1 (Fin true 2 0) 0; out1 (Fin true 3 0) 0 ].
Proof. vm_compute. reflexivity. Qed.
(* -0.3 rounds to -0 (sign kept); 300E-2 is exact: no flag even in the signalling form; 7E+3 unchanged; -0E-5 -> -0E+0; -Inf *)
Example C08_w_misc :
  (rint_dec RNE true (encode (Fin true 3 (-1))), rint_dec RNE true (encode (Fin false 300 (-2))),
   rint_dec RUP true (encode (Fin false 7 3)), rint_dec RDN true (encode (Fin true 0 (-5))), rint_dec RNE true (encode (Inf true))) =
  (out1 (Fin true 0 0) F_INX, out1 (Fin false 3 0) 0, out1 (Fin false 7 3) 0, out1 (Fin true 0 0) 0, out1 (Inf true) 0).
Proof. vm_compute. reflexivity. Qed.
(* 1E-50: the far-below-one shortcut *)
Example C08_w_tiny :
  (rint_dec RUP true (encode (Fin false 1 (-50))), rint_dec RNE true (encode (Fin false 1 (-50)))) =
  (out1 (Fin false 1 0) F_INX, out1 (Fin false 0 0) F_INX).
Proof. vm_compute. reflexivity. Qed.
(* modf(-12.345) = (-12, -0.345); modf(5E+2) = (5E+2, 0E+2); modf(9E-50) = (0, 9E-50); modf(-Inf) *)
Example C08_w_modf :
  (m_modf (encode (Fin true 12345 (-3))), m_modf (encode (Fin false 5 2)), m_modf (encode (Fin false 9 (-50))), m_modf (encode (Inf true))) =
  ([([encode (Fin true 12 0); encode (Fin true 345 (-3))], 0)], [([encode (Fin false 5 2); encode (Fin false 0 2)], 0)],
   [([encode (Fin false 0 0); encode (Fin false 9 (-50))], 0)], [([encode (Inf true); encode (Fin true 0 0)], 0)]).
Proof. vm_compute. reflexivity. Qed.
