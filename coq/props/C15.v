(* C15 - no public operation panics. MODEL-LEVEL HALF ONLY (see DESIGN.md section 10/C15 and section 11).
   A theorem about the model cannot exhibit a panic of Rust code that the model does not transcribe; absence of panics in the
   crate is explored by the harness (every public entry point under catch_unwind, debug-assertion and release builds, API
   registry), not proved. What is proved here is that the specification the implementation is judged against is total: for
   every operand tuple the set of accepted outcomes is non-empty, so the specification never leaves an input undefined and
   "no answer" is never a conforming behaviour. (_partial: the 18 round-and-pack based operations and fma; a package
   extending this to every operation of Judge.expected replaces this file when merged.) *)
From Coq Require Import ZArith Bool List.
From DV Require Import Base Bid Arith OpsArith OpsCmp OpsMisc ResultProofs FmaProofs.
Import ListNotations.
Open Scope Z_scope.

Theorem C15_spec_total_partial : forall md k si n x y z, 0 <= x < P128 -> 0 <= y < P128 -> 0 <= z < P128 ->
  m_add md x y <> [] /\ m_sub md x y <> [] /\ m_mul md x y <> [] /\ m_div md x y <> [] /\ m_sqrt md x <> [] /\
  m_fma md x y z <> [] /\ m_quantize md x y <> [] /\ rem_dec true x y <> [] /\ rem_dec false x y <> [] /\
  m_fdim md x y <> [] /\ rint_dec md si x <> [] /\ m_modf x <> [] /\ m_next_up x <> [] /\ m_next_down x <> [] /\
  m_next_after x y <> [] /\ m_minmax k x y <> [] /\ m_scaleb md x n <> [] /\ m_logb x <> [].
Proof. exact outcomes_nonempty. Qed.
Print Assumptions C15_spec_total_partial.

Example C15_witness : m_div RNE (encode (Fin false 0 0)) (encode (Fin false 0 0)) = invalid_out.
Proof. vm_compute. reflexivity. Qed.
