(* C15 - no public operation panics for any operand bits, mode, integer or string.

   THIS FILE IS THE MODEL-LEVEL HALF ONLY. The property speaks about the Rust code ("every public function returns
   normally ... never by unwinding or aborting"). A theorem about the model cannot show that; the implementation-level
   half - absence of panics in the crate - is NOT PROVED. It is explored: the harness calls every public entry point
   (API registry check: no entry is left out) under catch_unwind, in a debug-assertion build and in a release build,
   with the datum generator in every operand position, all modes, integer extremes, status words and the string streams;
   the driver reports a PANIC line as a finding before the acceptance test is even consulted (ocaml/driver.ml), whatever
   the expectation is. Evidence level of C15 as a whole: exploration, plus the model-level theorems below.

   TRUSTED HARNESS FACTS on which that exploration rests (none of them is a Coq theorem):
   - the driver (ocaml/driver.ml) prints a PANIC answer of the harness as a finding WITHOUT consulting [judge]; so a panic
     can never be "accepted" by an expectation, however weak;
   - catch_unwind sees unwinding panics only. An abort (panic=abort paths, stack overflow, a double panic, process::abort),
     or a call that never returns, produces no answer line at all: the runner (lib/runner.py) treats a missing answer or a
     non-zero exit status of the harness process as a BROKEN RUN, not as a pass; the model-level counterpart is
     C15_no_answer_rejected_anywhere below: an empty answer is rejected by [judge] for every operation and every input;
   - "every public function and trait implementation": completeness of the API registry rests on lib/apiscan.py (the
     scan of the crate's public items) and lib/apimap.py (the map from items to harness operations); an item the scan
     misses is not exercised.

   What is proved here (all axiom-free, theories/TotalityProofs.v) is that the SPECIFICATION the implementation is judged
   against - [expected o md args] of theories/Judge.v with the acceptance test [judge] / its status-free form [acc]
   (theories/Status.v) - is total and demands a normal return with a value:

   - C15_spec_total: for every operation and every argument list of the right shape ([shape_ok]: the right number of
     arguments; operand words in [0, 2^128); any integer for scaleb's exponent, for from-integer and from-binary sources;
     predicate index 0..19 for the comparisons; any byte list for the string entry points parse / FromStr / serde
     deserialisation; any list for the tag of d128::nan; no argument for the constants and the macro samples; any list of
     operand words for sum and product - no length bound, by induction over the list; a slice length n >= 0 followed by
     exactly 2n operand words for hash_slice) some (returned values, raised flags) pair is
     accepted OUTRIGHT (verdict 1, not merely as a recorded known finding). So the specification never asks the
     impossible and leaves no input undefined: NaN, Err, indefinite integer + invalid are ordinary accepted results.
     C15_spec_total_judge: the same through [judge], from every entry status word.
     C15_spec_total_any_bits is the stronger form actually proved: only the number of arguments matters ([defined_op]);
     operand words, widths and indices may be any integers.
   - C15_domain_exact: [defined_op] is exactly the domain: outside it [expected] is the empty list (OOpArith of a
     non-arithmetic operation; a wrong argument count, e.g. OConsts or OMacro with arguments), which nothing satisfies.
     For serde serialisation the model re-reads the Display text of the operand; that this text is always a complete
     literal (so the expectation never falls into its empty default) is proved from the C05 format lemmas for every
     decoded datum (finite, infinite, NaN). Nothing was left out of [shape_ok] for being too expensive; every operation
     constructor that the line protocol can produce (ocaml/ops_table.ml) is covered (C15_protocol_ops_covered;
     [shape_ok] does not look at the parameters w, signed, mode, xflag of the conversions).
   - C15_no_answer_rejected(_judge): an empty list of returned values - the observable form of "the call did not
     return" - is never accepted, neither outright nor as a known finding, for every (operation, arguments) in the domain,
     WITHOUT exception; C15_no_answer_rejected_anywhere: outside the domain nothing is accepted, so [judge] rejects the
     empty answer for every operation, mode, argument list and status words. C15_exact_outcomes_have_values: every outcome
     listed by a list expectation carries at least one value.
     Where the VALUES are left open (C15_unconstrained_cases: frexp of a zero, an infinity or a NaN, and quantum of a NaN;
     DESIGN 10/C09, 10/C11 and section 14: "only no panic is required") the model's predicate is [any_out] = "a non-empty
     output list", with no flag: C15_unconstrained_accept_any_value - accepted iff at least one value is returned and
     nothing is raised. (Earlier versions of the model accepted the empty list there; that exception is gone.)
   - C15_deterministic_where_stated / C15_accepted_unique: whenever the expectation is a list, the operation is not
     min/max, sum or product, and at most one operand is a NaN, the list has exactly one element, so exactly one
     (values, flags) behaviour is accepted. (With two NaN operands, equal-valued min/max operands, or NaN choices inside
     a sum several outcomes are accepted on purpose: C15_two_choices_*.)

   Not covered: anything about the Rust code (see above); that the accepted behaviours are the RIGHT ones is the subject
   of the other properties. *)
From Coq Require Import ZArith Bool List.
From DV Require Import Base Bid Arith OpsArith OpsCmp OpsMisc OpsConv OpsStr Judge Status TotalityProofs.
Import ListNotations.
Open Scope Z_scope.

Theorem C15_spec_total : forall o md args, shape_ok o args = true ->
  exists outs fl, acc (expected o md args) outs fl = 1.
Proof. exact spec_total. Qed.
Print Assumptions C15_spec_total.

Theorem C15_spec_total_judge : forall o md args fin, shape_ok o args = true ->
  exists outs fout, judge (expected o md args) fin outs fout = 1.
Proof. exact spec_total_judge. Qed.
Print Assumptions C15_spec_total_judge.

Theorem C15_spec_total_any_bits : forall o md args, defined_op o args = true ->
  exists outs fl, acc (expected o md args) outs fl = 1.
Proof. exact spec_total_any_bits. Qed.
Print Assumptions C15_spec_total_any_bits.

Theorem C15_shape_ok_defined : forall o args, shape_ok o args = true -> defined_op o args = true.
Proof. exact shape_ok_defined. Qed.
Print Assumptions C15_shape_ok_defined.

Theorem C15_domain_exact : forall o md args,
  (defined_op o args = false -> expected o md args = Exact []) /\
  (defined_op o args = true <-> exists outs fl, acc (expected o md args) outs fl = 1).
Proof. intros o md args. split; [apply undefined_is_empty|apply defined_iff_satisfiable]. Qed.
Print Assumptions C15_domain_exact.

Theorem C15_no_answer_rejected : forall o md args, defined_op o args = true ->
  forall outs fl, acc (expected o md args) outs fl <> 0 -> outs <> [].
Proof. exact no_answer_rejected. Qed.
Print Assumptions C15_no_answer_rejected.

Theorem C15_no_answer_rejected_judge : forall o md args, defined_op o args = true ->
  forall fin fout, judge (expected o md args) fin [] fout = 0.
Proof. exact no_answer_rejected_judge. Qed.
Print Assumptions C15_no_answer_rejected_judge.

Theorem C15_no_answer_rejected_anywhere : forall o md args fin fout, judge (expected o md args) fin [] fout = 0.
Proof. exact no_answer_rejected_anywhere. Qed.
Print Assumptions C15_no_answer_rejected_anywhere.

Theorem C15_exact_outcomes_have_values : forall o md args l, defined_op o args = true -> expected o md args = Exact l ->
  l <> [] /\ forall oc, In oc l -> fst oc <> [].
Proof. exact exact_outcomes_have_values. Qed.
Print Assumptions C15_exact_outcomes_have_values.

Theorem C15_unconstrained_cases : forall o args, unconstrained o args = true <->
  exists x, args = [x] /\ ((o = OFrexp /\ forall s c q, decode x = Fin s c q -> c = 0) \/
                           (o = OQuantum /\ is_nan (decode x) = true)).
Proof. exact unconstrained_cases. Qed.
Print Assumptions C15_unconstrained_cases.

Theorem C15_unconstrained_accept_any_value : forall o md args, unconstrained o args = true ->
  expected o md args = Pred any_out [0] /\
  forall outs fl, acc (expected o md args) outs fl = 1 <-> outs <> [] /\ fl = 0.
Proof. intros o md args U. split; [apply unconstrained_spec, U|intros outs fl; apply unconstrained_accepts, U]. Qed.
Print Assumptions C15_unconstrained_accept_any_value.

Theorem C15_deterministic_where_stated : forall o md args l,
  det_op o = true -> defined_op o args = true ->
  le1nan (map decode (nan_choice_operands o args)) = true ->
  expected o md args = Exact l -> exists oc, l = [oc].
Proof. exact spec_deterministic_where_stated. Qed.
Print Assumptions C15_deterministic_where_stated.

Theorem C15_accepted_unique : forall o md args l outs fl outs' fl',
  det_op o = true -> defined_op o args = true ->
  le1nan (map decode (nan_choice_operands o args)) = true ->
  expected o md args = Exact l ->
  acc (expected o md args) outs fl <> 0 -> acc (expected o md args) outs' fl' <> 0 -> outs = outs' /\ fl = fl'.
Proof. exact accepted_unique_where_stated. Qed.
Print Assumptions C15_accepted_unique.

(* ---------- non-vacuity and illustrations ---------- *)
Definition ex_zero := encode (Fin false 0 0).
Definition ex_one := encode (Fin false 1 0).
Definition ex_ten_m1 := encode (Fin false 10 (-1)).
Definition ex_qnan1 := encode (NaN false false 1).
Definition ex_qnan2 := encode (NaN false false 2).
Definition ex_snan := encode (NaN true true 7).
Definition ex_inf := encode (Inf true).

(* every operation constructor the line protocol produces (ocaml/ops_table.ml; for the 40 to-integer names a
   representative of each width) has the right shape with operands of the right count *)
Example C15_protocol_ops_covered :
  forallb (fun o => shape_ok o [ex_snan])
    [OSqrt; ORint; ONearbyint; ORintFix RNE; ORintFix RNA; ORintFix RDN; ORintFix RUP; ORintFix RTZ; OModf; OFrexp;
     ONextUp; ONextDown; OLogb; OIlogb; OQuantexp; OLlquantexp; OQuantum; OClass; OIsx; OAbs; ONeg; OCopy; OEncodeDpd;
     ODecodeDpd; OSerde; OFromBin 8 23 true; OFromBin 11 52 true; OFromBin 8 23 false; OFromBin 11 52 false;
     OFromInt 32 true; OFromInt 32 false; OFromInt 64 true; OFromInt 64 false;
     OToInt 32 true RNE false; OToInt 32 false RDN true; OToInt 64 true RUP false; OToInt 64 false RTZ true;
     OToInt 64 true RNA true; OLrint; OLround; OFmt; OOpNeg] &&
  forallb (fun o => shape_ok o [ex_snan; ex_inf])
    [OAdd; OSub; OMul; ODiv; OQuantize; ORem; OFmod; OFdim; ONextAfter; OMinMax MinNum; OMinMax MaxNum; OMinMax MinMag;
     OMinMax MaxMag; OScaleb 32; OScaleb 64; OSameQuantum; OTotalOrder; OTotalOrderMag; OCopySign; OOps; OHashEq;
     OHashSet; OOpArith OAdd; OOpArith OSub; OOpArith OMul; OOpArith ODiv; OOpArith ORem] &&
  shape_ok OFma [ex_snan; ex_inf; ex_zero] && shape_ok OCmp [ex_snan; ex_inf; 19] &&
  shape_ok OHashSliceEq [0] && shape_ok OHashSliceEq [2; ex_snan; ex_one; ex_inf; ex_ten_m1] &&
  shape_ok (OScaleb 32) [ex_one; -5] && shape_ok (OFromInt 64 true) [-1] &&
  forallb (fun o => shape_ok o [49; 69; 50; 120; 255; 0] && shape_ok o []) [OParse; OFromStr; OFromStr2; OSerdeDe; ONanTag] &&
  shape_ok OConsts [] && shape_ok OMacro [] &&
  forallb (fun o => shape_ok o [] && shape_ok o [ex_snan; ex_inf; ex_zero; ex_qnan1; ex_one]) [OSum; OProduct] = true.
Proof. vm_compute. reflexivity. Qed.

(* ... and what the dispatcher does not define is outside the domain *)
Example C15_outside_domain :
  defined_op OSerde [] = false /\ defined_op OConsts [ex_one] = false /\ defined_op OMacro [0] = false /\
  defined_op (OOpArith OSqrt) [ex_one; ex_one] = false /\
  defined_op OAdd [ex_one] = false /\ shape_ok OAdd [ex_one; -1] = false /\ shape_ok OCmp [ex_one; ex_one; 20] = false /\
  defined_op OHashSliceEq [] = false /\ defined_op OHashSliceEq [-1] = false /\
  defined_op OHashSliceEq [2; ex_one; ex_one; ex_one] = false /\ shape_ok OHashSliceEq [1; ex_one; -1] = false.
Proof. vm_compute. repeat split; reflexivity. Qed.

(* the empty string: garbage, satisfied by the default quiet NaN with no flag; no value at all is rejected *)
Example C15_parse_empty :
  acc (expected OParse RNE []) [encode QNAN] 0 = 1 /\ acc (expected OParse RNE []) [] 0 = 0.
Proof. vm_compute. split; reflexivity. Qed.

(* 0/0: satisfied by the invalid-operation outcome, a quiet NaN with the invalid flag *)
Example C15_div_zero_zero :
  expected ODiv RNE [ex_zero; ex_zero] = Exact invalid_out /\
  acc (expected ODiv RNE [ex_zero; ex_zero]) [encode QNAN] F_INV = 1 /\
  acc (expected ODiv RNE [ex_zero; ex_zero]) [] F_INV = 0.
Proof. vm_compute. repeat split; reflexivity. Qed.

(* a known-finding expectation ("1E2x": junk after the exponent) is satisfiable through its required part; the value of
   the literal is accepted only as the recorded finding (verdict 2 + KF_EXPJUNK); no value is rejected *)
Example C15_known_finding :
  acc (expected OParse RNE [49; 69; 50; 120]) [encode QNAN] 0 = 1 /\
  acc (expected OParse RNE [49; 69; 50; 120]) [encode (Fin false 1 2)] 0 = 2 + KF_EXPJUNK /\
  acc (expected OParse RNE [49; 69; 50; 120]) [] 0 = 0.
Proof. vm_compute. repeat split; reflexivity. Qed.

(* conversion to a 32-bit integer of an infinity: the indefinite integer with invalid is the accepted answer *)
Example C15_to_int_inf : acc (expected (OToInt 32 true RNE false) RNE [ex_inf]) [2 ^ 31] F_INV = 1.
Proof. vm_compute. reflexivity. Qed.

(* serde: the JSON text, Ok, and the same bits re-read; d128::nan("1"): any quiet NaN with one of the listed flag sets;
   the constants: seventeen values; in each case no value at all is rejected *)
Example C15_serde_nan_consts :
  expected OSerde RNE [ex_one] = Exact [([str_num ([34] ++ m_format true (decode ex_one) ++ [34]); 1; ex_one], 0)] /\
  acc (expected OSerde RNE [ex_one]) [] 0 = 0 /\
  acc (expected OSerdeDe RNE [49]) [1; ex_one] 0 = 1 /\ acc (expected OSerdeDe RNE [120]) [1; encode QNAN] 0 = 1 /\
  acc (expected OSerdeDe RNE [120]) [] 0 = 0 /\
  acc (expected ONanTag RNE [49]) [ex_qnan1] F_INX = 1 /\ acc (expected ONanTag RNE [49]) [] 0 = 0 /\
  acc (expected ONanTag RNE [49]) [ex_snan] 0 = 0 /\
  acc (expected OConsts RNE []) [] 0 = 0 /\ acc (expected OMacro RNE []) [] 0 = 0.
Proof. vm_compute. repeat split; reflexivity. Qed.

(* frexp of a zero is unconstrained in the model: any values are accepted, but not the empty list and not a flag *)
Example C15_frexp_zero_unconstrained :
  unconstrained OFrexp [ex_zero] = true /\ acc (expected OFrexp RNE [ex_zero]) [] 0 = 0 /\
  acc (expected OFrexp RNE [ex_zero]) [ex_zero; 0] 0 = 1 /\ acc (expected OFrexp RNE [ex_zero]) [12345] 0 = 1 /\
  acc (expected OFrexp RNE [ex_zero]) [ex_zero; 0] F_INV = 0 /\
  unconstrained OFrexp [ex_one] = false /\ unconstrained OQuantum [ex_qnan1] = true /\ unconstrained OQuantum [ex_inf] = false /\
  acc (expected OQuantum RNE [ex_qnan1]) [] 0 = 0 /\ acc (expected OQuantum RNE [ex_qnan1]) [ex_qnan1] 0 = 1.
Proof. vm_compute. repeat split; reflexivity. Qed.
(* hash_slice: [1] (identical hasher input) is always acceptable; no answer is rejected *)
Example C15_hash_slice :
  acc (expected OHashSliceEq RNE [1; ex_one; ex_ten_m1]) [1] 0 = 1 /\ acc (expected OHashSliceEq RNE [1; ex_one; ex_ten_m1]) [] 0 = 0.
Proof. vm_compute. split; reflexivity. Qed.

(* hypotheses of the determinism theorem are satisfiable, and its exclusions are needed *)
Example C15_det_hyps :
  det_op OAdd = true /\ defined_op OAdd [ex_qnan1; ex_one] = true /\
  le1nan (map decode (nan_choice_operands OAdd [ex_qnan1; ex_one])) = true /\
  expected OAdd RNE [ex_qnan1; ex_one] = Exact [([ex_qnan1], 0)].
Proof. vm_compute. repeat split; reflexivity. Qed.
Example C15_two_choices_nan : expected OAdd RNE [ex_qnan1; ex_qnan2] = Exact [([ex_qnan1], 0); ([ex_qnan2], 0)].
Proof. vm_compute. reflexivity. Qed.
Example C15_two_choices_minmax :
  expected (OMinMax MinNum) RNE [ex_one; ex_ten_m1] = Exact [([ex_one], 0); ([ex_ten_m1], 0)].
Proof. vm_compute. reflexivity. Qed.
Example C15_two_choices_sum :
  expected OSum RNE [ex_qnan1; ex_qnan2] = Exact [([ex_qnan1; ex_qnan1], 0); ([ex_qnan2; ex_qnan2], 0)].
Proof. vm_compute. reflexivity. Qed.
