(* C05 - formatting is exact and parse(format(x)) returns x bit for bit.

   Objects. [m_format upper d : list Z] (theories/OpsStr.v) is the text (bytes) of the datum d, with 'E' (upper = true:
   Display, Debug, UpperExp) or 'e' (upper = false: LowerExp); [m_fmt x] is the dispatch used by the judge: the four
   texts of the 128-bit pattern x, each as one integer ([str_num], big-endian base 256). [dec_digits n] is the digit
   generator of the model. [canon_digits ds n] (theories/StrProofs.v): ds consists of digit bytes only, is non-empty, denotes
   n ([dval 0 ds = n]) and has no leading zero unless it is exactly "0". [lex], [m_parse], [wf_literal]: see props/C04.v.

   How the theorems cover the statement.
   * "for every canonical finite value the textual form is sign, the coefficient's decimal digits without leading zeros,
     E (e for LowerExp), and the signed quantum exponent": C05_format_shape (with C05_dec_digits_canon); the text is a
     well-formed literal of the C04 grammar (C05_format_wf_literal).
   * "i.e. it denotes exactly the value and quantum of x": C05_format_denotes - the lexer reads the text back as sign s,
     coefficient c, zero fractional digits, exponent q (C05_read_dec_digits: reading the printed digits returns n and
     consumes exactly them). Stated for all 0 <= c < 10^60, |q| < 10^60 (the generator's fuel of 60 digits), which contains
     every well-formed decimal128 datum (C05_format_denotes_wf).
   * "parsing that text back under any rounding mode returns the identical 128 bits with no flag raised":
     C05_parse_format_roundtrip (all five modes, both letter cases; axiom-free), and at the level of 128-bit patterns
     C05_roundtrip_bits: for every canonical finite pattern x, m_parse md (m_format upper (decode x)) = [([x], 0)].
   * "infinities and NaNs print as signed Inf, NaN or SNaN ... (for NaN: the same sign and signaling-ness)": C05_format_inf,
     C05_format_nan (the payload is not printed: the text of NaN s sg p does not depend on p and parses back to
     NaN s sg 0; C05_nan_roundtrip_iff: the bits are identical exactly when the payload was 0).
   * all 2^128 encodings: [m_fmt] goes through [decode] (C05_m_fmt_spec), so a non-canonical finite pattern prints as the
     zero it denotes (C05_decode_noncanonical_zero, C05_format_noncanonical); Display = Debug = UpperExp text and LowerExp
     differs only in the exponent mark (C05_m_fmt_spec, C05_format_case).

   * "and the same holds through the serde string representation": Judge.v's clause [expected OSerde md [x]] models
     serde_json::to_string followed by from_str: Serialize writes the Display text as a JSON string, Deserialize is FromStr
     on the string's content; the observed outputs are [the JSON text as a number; 1 for Ok; the bits read back].
     C05_serde_roundtrip: for EVERY integer x (so every 128-bit pattern, non-canonical ones included) the expectation is the
     single outcome [text in quotes; 1; encode (reparsed (decode x))] with no flag, where [reparsed d] is d itself for a
     finite or infinite datum and NaN s sg 0 for NaN s sg p. C05_serde_roundtrip_bits: hence for every canonical finite or
     infinite pattern the third output is x bit for bit. C05_serde_roundtrip_nan: a NaN comes back with its sign and
     signaling-ness, payload 0 (as for parse(format x)).
     C05_serde_de_is_fromstr: deserialisation of an arbitrary byte string (harness op "serdede") is judged against the
     FromStr expectation of the same bytes in which an error outcome [0; flags] is replaced by [0; 0] (a serde error
     carries no flag word); Ok outcomes [1; bits], predicate parts and the known-finding structure are unchanged
     (C05_noerrflags_fromstr spells the replacement out on a one-outcome list).
   * what is executed: C05_dispatch: the harness operations "fmt" and "parse" are judged against m_fmt x and m_parse md l
     (the theorems above are about these); C05_fromstr2_is_parse_rne: the flag-less entry point d128::from_str-like
     "fromstr2" is judged against the parse at round-half-even with every raised flag DROPPED (there is no status word to
     receive them); C05_fromstr2_roundtrip: through it too the text of a canonical finite x reads back as x.

   Not covered.
   * That the crate's table-driven digit generator agrees with [dec_digits] is the differential harness's job.
   * serde formats other than JSON strings; the JSON quoting itself is the two bytes 34 around the text (the Display text
     contains no character that JSON escapes: C05_format_shape, C05_format_inf, C05_format_nan). *)
From Coq Require Import ZArith Bool List.
From DV Require Import Base Bid BidProofs Arith OpsArith OpsStr Judge StrProofs TotalityProofs DispatchProofs.
Import ListNotations.
Open Scope Z_scope.

Theorem C05_dec_digits_canon : forall n, 0 <= n < 10 ^ 60 -> canon_digits (dec_digits n) n.
Proof. exact dec_digits_canon. Qed.
Print Assumptions C05_dec_digits_canon.

Theorem C05_read_dec_digits : forall n rest, 0 <= n < 10 ^ 60 -> no_digit_head rest ->
  read_digits (dec_digits n ++ rest) 0 0 = (n, len (dec_digits n), rest).
Proof. exact read_dec_digits. Qed.
Print Assumptions C05_read_dec_digits.

Theorem C05_format_shape : forall upper s c q, 0 <= c < 10 ^ 60 -> Z.abs q < 10 ^ 60 ->
  m_format upper (Fin s c q) =
    [sign_char s] ++ dec_digits c ++ [exp_char upper] ++ [sign_char (q <? 0)] ++ dec_digits (Z.abs q) /\
  canon_digits (dec_digits c) c /\ canon_digits (dec_digits (Z.abs q)) (Z.abs q).
Proof. exact format_shape. Qed.
Print Assumptions C05_format_shape.

Theorem C05_format_wf_literal : forall upper s c q, 0 <= c < 10 ^ 60 -> Z.abs q < 10 ^ 60 ->
  wf_literal (m_format upper (Fin s c q)) s (dec_digits c) [] (Some (q <? 0, dec_digits (Z.abs q))).
Proof. exact format_wf_literal. Qed.
Print Assumptions C05_format_wf_literal.

Theorem C05_format_denotes : forall upper s c q, 0 <= c < 10 ^ 60 -> Z.abs q < 10 ^ 60 ->
  lex (m_format upper (Fin s c q)) = TNum s c 0 q.
Proof. exact format_denotes. Qed.
Print Assumptions C05_format_denotes.

Theorem C05_format_denotes_wf : forall upper s c q, wf (Fin s c q) -> lex (m_format upper (Fin s c q)) = TNum s c 0 q.
Proof. exact format_denotes_wf. Qed.
Print Assumptions C05_format_denotes_wf.

Theorem C05_parse_format_roundtrip : forall md upper s c q, wf (Fin s c q) ->
  m_parse md (m_format upper (Fin s c q)) = SList [([encode (Fin s c q)], 0)].
Proof. exact parse_format_roundtrip. Qed.
Print Assumptions C05_parse_format_roundtrip.

Theorem C05_roundtrip_bits : forall md upper x, canonical_bits x = true -> is_fin (decode x) = true ->
  m_parse md (m_format upper (decode x)) = SList [([x], 0)].
Proof. exact roundtrip_bits. Qed.
Print Assumptions C05_roundtrip_bits.

Theorem C05_format_inf : forall upper s, m_format upper (Inf s) = sign_char s :: [73; 110; 102] /\
  forall md, m_parse md (m_format upper (Inf s)) = SList [([encode (Inf s)], 0)].
Proof. exact format_inf. Qed.
Print Assumptions C05_format_inf.

Theorem C05_format_nan : forall upper s sg p,
  m_format upper (NaN s sg p) = sign_char s :: (if sg then [83; 78; 97; 78] else [78; 97; 78]) /\
  forall md, m_parse md (m_format upper (NaN s sg p)) = SList [([encode (NaN s sg 0)], 0)].
Proof. exact format_nan. Qed.
Print Assumptions C05_format_nan.

Theorem C05_nan_roundtrip_iff : forall s sg p, encode (NaN s sg 0) = encode (NaN s sg p) <-> p = 0.
Proof. exact format_nan_roundtrip_iff. Qed.
Print Assumptions C05_nan_roundtrip_iff.

Theorem C05_format_case : forall d,
  match d with
  | Fin s c q => exists pre post, m_format true d = pre ++ 69 :: post /\ m_format false d = pre ++ 101 :: post /\
                                  pre = sign_char s :: dec_digits c
  | _ => m_format true d = m_format false d
  end.
Proof. exact format_case. Qed.
Print Assumptions C05_format_case.

Theorem C05_m_fmt_spec : forall x,
  m_fmt x = [([str_num (m_format true (decode x)); str_num (m_format true (decode x));
               str_num (m_format false (decode x)); str_num (m_format true (decode x))], 0)].
Proof. exact m_fmt_spec. Qed.
Print Assumptions C05_m_fmt_spec.

Theorem C05_decode_noncanonical_zero : forall x s c q,
  0 <= x < P128 -> canonical_bits x = false -> decode x = Fin s c q -> c = 0.
Proof. exact decode_noncanonical_zero. Qed.
Print Assumptions C05_decode_noncanonical_zero.

Theorem C05_format_noncanonical : forall upper x s c q,
  0 <= x < P128 -> canonical_bits x = false -> decode x = Fin s c q ->
  m_format upper (decode x) = [sign_char s; 48; exp_char upper; sign_char (q <? 0)] ++ dec_digits (Z.abs q).
Proof. exact format_noncanonical. Qed.
Print Assumptions C05_format_noncanonical.

(* ---------- dispatch ---------- *)
Theorem C05_dispatch : forall md x l,
  expected OFmt md [x] = Exact (m_fmt x) /\
  expected OParse md l =
    match m_parse md l with
    | SList ol => Exact ol
    | SGarbage => Pred is_default_qnan [0]
    | SSnanJunk _ => Pred is_any_nan0 [0]
    | SExpJunk ol => Known KF_EXPJUNK (Pred is_default_qnan [0]) (Exact ol)
    end.
Proof. intros md x l. split; [apply dispatch_fmt|apply dispatch_parse]. Qed.
Print Assumptions C05_dispatch.

(* [map_exact f e]: f applied to every outcome list of the expectation e; [drop_flags]: every flag component becomes 0 *)
Theorem C05_fromstr2_is_parse_rne : forall md l,
  expected OFromStr2 md l = map_exact drop_flags (expected OParse RNE l).
Proof. exact fromstr2_is_parse_rne. Qed.
Print Assumptions C05_fromstr2_is_parse_rne.

Theorem C05_fromstr2_roundtrip : forall md upper x, canonical_bits x = true -> is_fin (decode x) = true ->
  expected OFromStr2 md (m_format upper (decode x)) = Exact [([x], 0)].
Proof. exact fromstr2_roundtrip. Qed.
Print Assumptions C05_fromstr2_roundtrip.

(* ---------- serde ---------- *)
Theorem C05_reparsed : forall s c q sg p,
  reparsed (Fin s c q) = Fin s c q /\ reparsed (Inf s) = Inf s /\ reparsed (NaN s sg p) = NaN s sg 0.
Proof. intros. repeat split; reflexivity. Qed.
Print Assumptions C05_reparsed.

Theorem C05_serde_roundtrip : forall md x,
  expected OSerde md [x] =
    Exact [([str_num ([34] ++ m_format true (decode x) ++ [34]); 1;
             encode (reparsed (decode x))], 0)].
Proof. exact serde_roundtrip. Qed.
Print Assumptions C05_serde_roundtrip.

Theorem C05_serde_roundtrip_bits : forall md x, canonical_bits x = true -> is_nan (decode x) = false ->
  expected OSerde md [x] = Exact [([str_num ([34] ++ m_format true (decode x) ++ [34]); 1; x], 0)].
Proof. exact serde_roundtrip_bits. Qed.
Print Assumptions C05_serde_roundtrip_bits.

Theorem C05_serde_roundtrip_nan : forall md x s sg p, decode x = NaN s sg p ->
  expected OSerde md [x] = Exact [([str_num ([34] ++ m_format true (decode x) ++ [34]); 1; encode (NaN s sg 0)], 0)].
Proof. exact serde_roundtrip_nan. Qed.
Print Assumptions C05_serde_roundtrip_nan.

Theorem C05_serde_de_is_fromstr : forall md l,
  expected OSerdeDe md l =
    map_exact (map (fun oc : outcome => match oc with ([0; _], f) => ([0; 0], f) | _ => oc end)) (expected OFromStr md l).
Proof. exact serde_de_is_fromstr. Qed.
Print Assumptions C05_serde_de_is_fromstr.

Theorem C05_noerrflags_fromstr : forall r fl,
  map (fun oc : outcome => match oc with ([0; _], f) => ([0; 0], f) | _ => oc end) (fromstr_of [([r], fl)]) =
  if (fl =? 0) || (fl =? F_INX) then [([1; r], 0)] else [([0; 0], 0)].
Proof. exact noerrflags_fromstr. Qed.
Print Assumptions C05_noerrflags_fromstr.

(* ---------- non-vacuity witnesses ---------- *)
(* 1250E+1 prints as "+1250E+1" / "+1250e+1" *)
Example ex_format : m_format true (Fin false 1250 1) = [43; 49; 50; 53; 48; 69; 43; 49] /\
                    m_format false (Fin false 1250 1) = [43; 49; 50; 53; 48; 101; 43; 49].
Proof. vm_compute. split; reflexivity. Qed.
Example ex_format_neg : m_format true (Fin true 0 (-6176)) = [45; 48; 69; 45; 54; 49; 55; 54].
Proof. vm_compute. reflexivity. Qed.
(* a 34-digit coefficient at the smallest quantum, every mode *)
Definition ex_d := Fin true 9999999999999999999999999999999999 (-6176).
Example ex_wf : wf ex_d.
Proof. vm_compute. repeat split; discriminate. Qed.
Example ex_roundtrip : map (fun md => m_parse md (m_format false ex_d)) [RNE; RDN; RUP; RTZ; RNA]
  = let r := SList [([encode ex_d], 0)] in [r; r; r; r; r].
Proof. vm_compute. reflexivity. Qed.
Example ex_roundtrip_max : m_parse RDN (m_format true (Fin false 1234567890123456789012345678901234 6111))
  = SList [([encode (Fin false 1234567890123456789012345678901234 6111)], 0)].
Proof. vm_compute. reflexivity. Qed.
Example ex_inf : m_format true (Inf true) = [45; 73; 110; 102] /\ lex (m_format true (Inf true)) = TSpecial (Inf true).
Proof. vm_compute. split; reflexivity. Qed.
Example ex_snan : m_format true (NaN false true 77) = [43; 83; 78; 97; 78] /\
                  lex (m_format true (NaN false true 77)) = TSpecial (NaN false true 0).
Proof. vm_compute. split; reflexivity. Qed.
(* a non-canonical finite pattern (coefficient field 10^34 at exponent field 0) prints as +0E-6176 *)
Example ex_noncanonical : canonical_bits T34 = false /\ decode T34 = Fin false 0 (-6176) /\
  m_format true (decode T34) = [43; 48; 69; 45; 54; 49; 55; 54].
Proof. vm_compute. repeat split; reflexivity. Qed.
Example ex_canonical_fin : canonical_bits (encode ex_d) = true /\ is_fin (decode (encode ex_d)) = true.
Proof. vm_compute. split; reflexivity. Qed.
(* serde: "+1250E+1" in quotes, Ok, the same bits; a NaN with payload comes back without it; a non-canonical pattern comes
   back as the canonical zero it denotes *)
Example ex_serde :
  expected OSerde RNE [encode (Fin false 1250 1)] =
    Exact [([str_num [34; 43; 49; 50; 53; 48; 69; 43; 49; 34]; 1; encode (Fin false 1250 1)], 0)] /\
  expected OSerde RDN [encode ex_d] = Exact [([str_num ([34] ++ m_format true ex_d ++ [34]); 1; encode ex_d], 0)] /\
  expected OSerde RNE [encode (Inf true)] = Exact [([str_num [34; 45; 73; 110; 102; 34]; 1; encode (Inf true)], 0)] /\
  expected OSerde RNE [encode (NaN true true 77)] =
    Exact [([str_num [34; 45; 83; 78; 97; 78; 34]; 1; encode (NaN true true 0)], 0)] /\
  expected OSerde RNE [T34] = Exact [([str_num [34; 43; 48; 69; 45; 54; 49; 55; 54; 34]; 1; encode (Fin false 0 (-6176))], 0)].
Proof. vm_compute. repeat split; reflexivity. Qed.
(* deserialisation: "1E7000" overflows: FromStr reports Err with the flags, serde Err without; "1" is Ok either way;
   fromstr2 of the same overflowing text: +Inf, the flags dropped *)
Example ex_serde_de :
  expected OFromStr RNE [49; 69; 55; 48; 48; 48] = Exact [([0; F_OVF + F_INX], 0)] /\
  expected OSerdeDe RNE [49; 69; 55; 48; 48; 48] = Exact [([0; 0], 0)] /\
  expected OSerdeDe RNE [49] = Exact [([1; encode (Fin false 1 0)], 0)] /\
  expected OParse RNE [49; 69; 55; 48; 48; 48] = Exact [([encode (Inf false)], F_OVF + F_INX)] /\
  expected OFromStr2 RDN [49; 69; 55; 48; 48; 48] = Exact [([encode (Inf false)], 0)].
Proof. vm_compute. repeat split; reflexivity. Qed.
