(* C07 - binary float (f32 / f64) to decimal128 conversion is correctly rounded.
   Property theorems only: each is closed by [exact <lemma of theories/FromBinProofs.v>] and followed by Print Assumptions.

   How the theorems cover the property statement
   ---------------------------------------------
   * Meaning of a bit pattern: Flocq's own decoder [b64_of_bits : Z -> binary64], [b32_of_bits : Z -> binary32]
     (IEEE754.Bits) and its real value [B2R].  The model is [m_from_bin ebits fbits md bits] (f64: 11 52, f32: 8 23);
     it answers [BList [(outputs, raised flags)]] or [BNaN s fl] ("any canonical quiet NaN of sign s, raising fl").
     All theorems hold for EVERY integer [bits] (in particular all 2^64 / 2^32 patterns; out-of-range integers are
     read by Flocq and by the model in the same way) and every rounding mode [md].
   * C07_from_f64_total / C07_from_f32_total: one statement by cases on what Flocq decodes the pattern to:
       zero s      -> the single answer  Fin s 0 0  (sign kept, exponent 0), no flag;
       infinity s  -> the single answer  Inf s, no flag;
       NaN s pl    -> BNaN s fl  with fl = invalid iff the payload lacks the quiet bit (pl < 2^51 resp. 2^22);
       finite s m e (non-zero) -> a single answer [encode d] with [ieee_result md (B2R b) 0 s d fl]: d is the exact
         binary value rounded once (Flocq [round radix10 (FLT_exp (-6176) 34) (rnd_of md)]); when the value is
         representable (34 digits suffice) d is that value with the exponent as close to 0 as the digits allow
         (ieee_result's preferred-exponent clause with pref = 0); inexact is raised iff rounding changed the value;
         the raised flag word is [flbits fl] plus the denormal-operand bit [f64_den bits] (exponent field = 0).
   * C07_from_f64_value / C07_from_f32_value: the same finite case in hypothesis form (is_finite b, B2R b <> 0), sign
     given by [Bsign b].
   * C07_from_f64_noexc / C07_from_f32_noexc: stronger finite case: because 2^-1074 > 10^-6143 and 2^1024 < 10^6144
     neither underflow nor overflow is ever raised, the answer is a finite datum [Fin (Bsign b) c q] whose value is
     the rounded real, the flag word is exactly (inexact iff rounding changed the value) + (denormal bit iff
     |value| < least normal binary magnitude 2^-1022 resp. 2^-126): "raises nothing else".
   * C07_rounded_exact_iff: "rounding does not change x" is "x is in the decimal128 format" (34 digits suffice).
   * C07_fields_zero / _inf / _nan / _finite, C07_split_bits, C07_sign_bit, C07_den_iff_subnormal: the same facts
     stated on the raw fields (sign bit, biased exponent, fraction) for any field widths; the first three are
     axiom-free.  [bin_value] = (-1)^s * (f + [e<>0] * 2^fbits) * 2^(max e 1 - bias - fbits).
   * Judge: C07_expected is the dispatch; C07_accept_value / C07_accept_nan: with [use_mode = true]
     (convert_from_f32 / convert_from_f64) the judge accepts exactly the single output word with status-out =
     status-in OR raised flags, resp. ANY canonical quiet NaN of the same sign (C07_qnan_pred: outputs [r] with
     canonical_bits r and decode r = NaN s false p for some payload p) with status-in OR fl.
     C07_trait_value / C07_trait_nan / C07_trait_is_rne: with [use_mode = false] (From<f32> / From<f64>) the judge
     accepts the answer of the RNE conversion, whatever mode is in force, and requires status-out = status-in.
     C07_shape: the model's answer is always one of these two shapes (never an empty acceptance list).

   Not covered / remarks
   ---------------------
   * NaN payload: the property only asks for "a quiet NaN of the same sign"; which payload the library transfers is
     deliberately left open (any canonical payload is accepted).
   * The theorems are about the reference model; that the Rust tables (BID_POWER_FIVE ...) agree with it is the
     differential harness's business, not proved here.
   * A subnormal binary input is never exactly representable in 34 digits (it needs > 34), so for subnormals the flag
     word is always inexact + denormal; this is visible in the examples but not stated as a theorem. *)
From Coq Require Import ZArith Reals Bool List.
From Flocq Require Import Core.Core Calc.Bracket IEEE754.Binary IEEE754.Bits.
From DV Require Import Base Bid BidProofs Arith OpsArith OpsConv Judge FromBinProofs.
Import ListNotations.
Open Scope Z_scope.

(* ---------- f64 / f32 against Flocq's decoding of the bit pattern ---------- *)
Theorem C07_from_f64_total : forall md bits,
  match b64_of_bits bits with
  | Binary.B754_zero _ _ s => m_from_bin 11 52 md bits = BList [([encode (Fin s 0 0)], 0)]
  | Binary.B754_infinity _ _ s => m_from_bin 11 52 md bits = BList [([encode (Inf s)], 0)]
  | Binary.B754_nan _ _ s pl _ => m_from_bin 11 52 md bits = BNaN s (if Z.pos pl <? 2 ^ 51 then F_INV else 0)
  | Binary.B754_finite _ _ s m e _ as b =>
      exists d fl,
        m_from_bin 11 52 md bits = BList [([encode d], flbits fl + f64_den bits)] /\
        ieee_result md (Binary.B2R 53 1024 b) 0 s d fl /\
        canonical_bits (encode d) = true
  end.
Proof. exact from_f64_total. Qed.
Print Assumptions C07_from_f64_total.

Theorem C07_from_f32_total : forall md bits,
  match b32_of_bits bits with
  | Binary.B754_zero _ _ s => m_from_bin 8 23 md bits = BList [([encode (Fin s 0 0)], 0)]
  | Binary.B754_infinity _ _ s => m_from_bin 8 23 md bits = BList [([encode (Inf s)], 0)]
  | Binary.B754_nan _ _ s pl _ => m_from_bin 8 23 md bits = BNaN s (if Z.pos pl <? 2 ^ 22 then F_INV else 0)
  | Binary.B754_finite _ _ s m e _ as b =>
      exists d fl,
        m_from_bin 8 23 md bits = BList [([encode d], flbits fl + f32_den bits)] /\
        ieee_result md (Binary.B2R 24 128 b) 0 s d fl /\
        canonical_bits (encode d) = true
  end.
Proof. exact from_f32_total. Qed.
Print Assumptions C07_from_f32_total.

Theorem C07_from_f64_value : forall md bits,
  let b := b64_of_bits bits in
  Binary.is_finite 53 1024 b = true -> Binary.B2R 53 1024 b <> 0%R ->
  exists d fl,
    m_from_bin 11 52 md bits = BList [([encode d], flbits fl + f64_den bits)] /\
    ieee_result md (Binary.B2R 53 1024 b) 0 (Binary.Bsign 53 1024 b) d fl /\
    canonical_bits (encode d) = true.
Proof. exact from_f64_value. Qed.
Print Assumptions C07_from_f64_value.

Theorem C07_from_f32_value : forall md bits,
  let b := b32_of_bits bits in
  Binary.is_finite 24 128 b = true -> Binary.B2R 24 128 b <> 0%R ->
  exists d fl,
    m_from_bin 8 23 md bits = BList [([encode d], flbits fl + f32_den bits)] /\
    ieee_result md (Binary.B2R 24 128 b) 0 (Binary.Bsign 24 128 b) d fl /\
    canonical_bits (encode d) = true.
Proof. exact from_f32_value. Qed.
Print Assumptions C07_from_f32_value.

(* no overflow, no underflow: the flag word is inexact? + denormal?, nothing else *)
Theorem C07_from_f64_noexc : forall md bits,
  let b := b64_of_bits bits in
  let x := Binary.B2R 53 1024 b in
  let s := Binary.Bsign 53 1024 b in
  Binary.is_finite 53 1024 b = true -> x <> 0%R ->
  exists c q (inx : bool),
    m_from_bin 11 52 md bits =
      BList [([encode (Fin s c q)],
              (if inx then F_INX else 0) + (if Rlt_bool (Rabs x) (bpow radix2 (-1022)) then F_DEN else 0))] /\
    repr_ok c q /\ canonical_bits (encode (Fin s c q)) = true /\
    D2R (Fin s c q) = rounded md x /\
    (inx = true <-> rounded md x <> x) /\
    (rounded md x = x -> forall c' q', repr_ok c' q' -> F2R (Float radix10 c' q') = Rabs x -> Z.abs q <= Z.abs q') /\
    (rounded md x <> x -> q = qmin \/ 10 ^ 33 <= c).
Proof. exact from_f64_value_noexc. Qed.
Print Assumptions C07_from_f64_noexc.

Theorem C07_from_f32_noexc : forall md bits,
  let b := b32_of_bits bits in
  let x := Binary.B2R 24 128 b in
  let s := Binary.Bsign 24 128 b in
  Binary.is_finite 24 128 b = true -> x <> 0%R ->
  exists c q (inx : bool),
    m_from_bin 8 23 md bits =
      BList [([encode (Fin s c q)],
              (if inx then F_INX else 0) + (if Rlt_bool (Rabs x) (bpow radix2 (-126)) then F_DEN else 0))] /\
    repr_ok c q /\ canonical_bits (encode (Fin s c q)) = true /\
    D2R (Fin s c q) = rounded md x /\
    (inx = true <-> rounded md x <> x) /\
    (rounded md x = x -> forall c' q', repr_ok c' q' -> F2R (Float radix10 c' q') = Rabs x -> Z.abs q <= Z.abs q') /\
    (rounded md x <> x -> q = qmin \/ 10 ^ 33 <= c).
Proof. exact from_f32_value_noexc. Qed.
Print Assumptions C07_from_f32_noexc.

Theorem C07_rounded_exact_iff : forall md x, rounded md x = x <-> generic_format radix10 fexp x.
Proof. exact rounded_exact_iff. Qed.
Print Assumptions C07_rounded_exact_iff.

Theorem C07_finite_strict : forall p em (b : Binary.binary_float p em),
  Binary.is_finite_strict p em b = true <-> Binary.is_finite p em b = true /\ Binary.B2R p em b <> 0%R.
Proof. exact is_finite_strict_iff. Qed.
Print Assumptions C07_finite_strict.

(* ---------- the same on raw fields, any field widths ---------- *)
(* Flocq's field split = the model's fields (sign bit, fraction, biased exponent) *)
Theorem C07_split_bits : forall mw ew, 0 < mw -> 0 < ew -> forall bits,
  split_bits mw ew bits = (bf_sign ew mw bits, bf_frac ew mw bits, bf_exp ew mw bits).
Proof. exact split_bits_fields. Qed.
Print Assumptions C07_split_bits.

Theorem C07_sign_bit : forall mw ew (Hmw : 0 < mw) (Hew : 0 < ew) (Hmax : mw + 1 < 2 ^ (ew - 1)) bits,
  Binary.Bsign (mw + 1) (2 ^ (ew - 1)) (binary_float_of_bits mw ew Hmw Hew Hmax bits) = bf_sign ew mw bits.
Proof. exact Bsign_of_bits. Qed.
Print Assumptions C07_sign_bit.

Theorem C07_fields_zero : forall eb fb md bits,
  bf_exp eb fb bits <> 2 ^ eb - 1 -> bf_exp eb fb bits = 0 -> bf_frac eb fb bits = 0 ->
  m_from_bin eb fb md bits = BList [([encode (Fin (bf_sign eb fb bits) 0 0)], 0)].
Proof. exact from_bin_fields_zero. Qed.
Print Assumptions C07_fields_zero.

Theorem C07_fields_inf : forall eb fb md bits,
  bf_exp eb fb bits = 2 ^ eb - 1 -> bf_frac eb fb bits = 0 ->
  m_from_bin eb fb md bits = BList [([encode (Inf (bf_sign eb fb bits))], 0)].
Proof. exact from_bin_fields_inf. Qed.
Print Assumptions C07_fields_inf.

Theorem C07_fields_nan : forall eb fb md bits,
  bf_exp eb fb bits = 2 ^ eb - 1 -> bf_frac eb fb bits <> 0 ->
  m_from_bin eb fb md bits = BNaN (bf_sign eb fb bits) (if bf_frac eb fb bits <? 2 ^ (fb - 1) then F_INV else 0).
Proof. exact from_bin_fields_nan. Qed.
Print Assumptions C07_fields_nan.

Theorem C07_fields_finite : forall eb fb md bits,
  0 <= fb ->
  bf_exp eb fb bits <> 2 ^ eb - 1 ->
  ~ (bf_exp eb fb bits = 0 /\ bf_frac eb fb bits = 0) ->
  exists d fl,
    m_from_bin eb fb md bits = BList [([encode d], flbits fl + bin_den eb fb bits)] /\
    ieee_result md (bin_value eb fb bits) 0 (bf_sign eb fb bits) d fl /\
    canonical_bits (encode d) = true.
Proof. exact from_bin_fields_finite. Qed.
Print Assumptions C07_fields_finite.

(* the denormal-operand bit is raised (bin_den = F_DEN, i.e. exponent field 0) iff the value is binary-subnormal *)
Theorem C07_den_iff_subnormal : forall mw ew, 0 < mw -> 0 < ew -> forall bits,
  bf_exp ew mw bits <> 2 ^ ew - 1 ->
  (bf_exp ew mw bits = 0 <-> (Rabs (bin_value ew mw bits) < bpow radix2 (2 - 2 ^ (ew - 1)))%R).
Proof. exact bin_den_iff_subnormal. Qed.
Print Assumptions C07_den_iff_subnormal.

(* ---------- what the Judge accepts ---------- *)
Theorem C07_expected : forall eb fb use_mode md b,
  expected (OFromBin eb fb use_mode) md [b] =
  match m_from_bin eb fb (if use_mode then md else RNE) b with
  | BList l => if use_mode then Exact l else Exact (map (fun oc => (fst oc, 0)) l)
  | BNaN s fl => Pred (is_canonical_qnan_of_sign s) [if use_mode then fl else 0]
  end.
Proof. exact expected_from_bin. Qed.
Print Assumptions C07_expected.

Theorem C07_trait_is_rne : forall eb fb md b,
  expected (OFromBin eb fb false) md [b] =
  match expected (OFromBin eb fb true) RNE [b] with
  | Exact l => Exact (map (fun oc => (fst oc, 0)) l)
  | Pred p _ => Pred p [0]
  | e => e
  end.
Proof. exact expected_from_trait. Qed.
Print Assumptions C07_trait_is_rne.

Theorem C07_shape : forall eb fb md bits,
  (exists r fl, m_from_bin eb fb md bits = BList [([r], fl)]) \/ (exists s fl, m_from_bin eb fb md bits = BNaN s fl).
Proof. exact m_from_bin_shape. Qed.
Print Assumptions C07_shape.

Theorem C07_qnan_pred : forall s outs,
  is_canonical_qnan_of_sign s outs = true <->
  exists r p, outs = [r] /\ canonical_bits r = true /\ decode r = NaN s false p.
Proof. exact is_canonical_qnan_of_sign_spec. Qed.
Print Assumptions C07_qnan_pred.

Theorem C07_accept_value : forall eb fb md bits r fl fin outs fout,
  m_from_bin eb fb md bits = BList [([r], fl)] ->
  (judge (expected (OFromBin eb fb true) md [bits]) fin outs fout = 1 <-> outs = [r] /\ fout = Z.lor fin fl).
Proof. exact judge_from_bin_value. Qed.
Print Assumptions C07_accept_value.

Theorem C07_accept_nan : forall eb fb md bits s fl fin outs fout,
  m_from_bin eb fb md bits = BNaN s fl ->
  (judge (expected (OFromBin eb fb true) md [bits]) fin outs fout = 1 <->
   (exists r p, outs = [r] /\ canonical_bits r = true /\ decode r = NaN s false p) /\ fout = Z.lor fin fl).
Proof. exact judge_from_bin_nan. Qed.
Print Assumptions C07_accept_nan.

Theorem C07_trait_value : forall eb fb md bits r fl fin outs fout,
  m_from_bin eb fb RNE bits = BList [([r], fl)] ->
  (judge (expected (OFromBin eb fb false) md [bits]) fin outs fout = 1 <-> outs = [r] /\ fout = fin).
Proof. exact judge_from_trait_value. Qed.
Print Assumptions C07_trait_value.

Theorem C07_trait_nan : forall eb fb md bits s fl fin outs fout,
  m_from_bin eb fb RNE bits = BNaN s fl ->
  (judge (expected (OFromBin eb fb false) md [bits]) fin outs fout = 1 <->
   (exists r p, outs = [r] /\ canonical_bits r = true /\ decode r = NaN s false p) /\ fout = fin).
Proof. exact judge_from_trait_nan. Qed.
Print Assumptions C07_trait_nan.

(* ---------- non-vacuity witnesses ---------- *)
(* hypotheses of the value theorems are satisfiable: 0.1 (f64), least subnormal f32 are finite and non-zero *)
Example C07_hyp_f64 :
  Binary.is_finite 53 1024 (b64_of_bits 0x3FB999999999999A) = true /\
  Binary.B2R 53 1024 (b64_of_bits 0x3FB999999999999A) <> 0%R.
Proof. apply is_finite_strict_iff. vm_compute. reflexivity. Qed.
Example C07_hyp_f32 :
  Binary.is_finite 24 128 (b32_of_bits 0x80000001) = true /\ Binary.B2R 24 128 (b32_of_bits 0x80000001) <> 0%R.
Proof. apply is_finite_strict_iff. vm_compute. reflexivity. Qed.

(* 0.1_f64 = 0x3FB999999999999A: 0.1000000000000000055511151231257827 (34 digits), inexact; directed modes differ *)
Example C07_f64_tenth_rne :
  m_from_bin 11 52 RNE 0x3FB999999999999A =
  BList [([encode (Fin false 1000000000000000055511151231257827 (-34))], F_INX)].
Proof. vm_compute. reflexivity. Qed.
Example C07_f64_tenth_rdn :
  m_from_bin 11 52 RDN 0x3FB999999999999A =
  BList [([encode (Fin false 1000000000000000055511151231257827 (-34))], F_INX)] /\
  m_from_bin 11 52 RUP 0x3FB999999999999A =
  BList [([encode (Fin false 1000000000000000055511151231257828 (-34))], F_INX)].
Proof. split; vm_compute; reflexivity. Qed.
(* exact conversions: 0.5 = 5E-1, exponent as close to zero as the digits allow; 2^60 has exponent 0; -3.0 = -3E0 *)
Example C07_f64_half : m_from_bin 11 52 RUP 0x3FE0000000000000 = BList [([encode (Fin false 5 (-1))], 0)].
Proof. vm_compute. reflexivity. Qed.
Example C07_f64_pow60 : m_from_bin 11 52 RTZ 0x43B0000000000000 = BList [([encode (Fin false 1152921504606846976 0)], 0)].
Proof. vm_compute. reflexivity. Qed.
Example C07_f64_neg3 : m_from_bin 11 52 RNA 0xC008000000000000 = BList [([encode (Fin true 3 0)], 0)].
Proof. vm_compute. reflexivity. Qed.
(* f32 0.1f = 0x3DCCCCCD is exactly 0.100000001490116119384765625 (27 digits suffice): no flag *)
Example C07_f32_tenth : m_from_bin 8 23 RNE 0x3DCCCCCD = BList [([encode (Fin false 100000001490116119384765625 (-27))], 0)].
Proof. vm_compute. reflexivity. Qed.
(* least subnormal f64 2^-1074 (751 significant digits): inexact + denormal-operand; mode-dependent last digit *)
Example C07_f64_subnormal :
  m_from_bin 11 52 RNE 1 = BList [([encode (Fin false 4940656458412465441765687928682214 (-357))], F_INX + F_DEN)] /\
  m_from_bin 11 52 RDN 1 = BList [([encode (Fin false 4940656458412465441765687928682213 (-357))], F_INX + F_DEN)].
Proof. split; vm_compute; reflexivity. Qed.
Example C07_f32_subnormal :
  m_from_bin 8 23 RNE 0x80000001 = BList [([encode (Fin true 1401298464324817070923729583289916 (-78))], F_INX + F_DEN)].
Proof. vm_compute. reflexivity. Qed.
(* largest finite f64 under RUP: no overflow *)
Example C07_f64_max :
  m_from_bin 11 52 RUP 0x7FEFFFFFFFFFFFFF = BList [([encode (Fin false 1797693134862315708145274237317044 275)], F_INX)].
Proof. vm_compute. reflexivity. Qed.
(* zeros, infinities, NaNs *)
Example C07_specials :
  m_from_bin 11 52 RNE 0x8000000000000000 = BList [([encode (Fin true 0 0)], 0)] /\
  m_from_bin 11 52 RNE 0 = BList [([encode (Fin false 0 0)], 0)] /\
  m_from_bin 11 52 RNE 0xFFF0000000000000 = BList [([encode (Inf true)], 0)] /\
  m_from_bin 8 23 RNE 0x7F800000 = BList [([encode (Inf false)], 0)] /\
  m_from_bin 11 52 RNE 0xFFF0000000000001 = BNaN true F_INV /\      (* negative signaling NaN *)
  m_from_bin 11 52 RNE 0x7FF8000000000001 = BNaN false 0 /\         (* positive quiet NaN *)
  m_from_bin 8 23 RNE 0x7FA00000 = BNaN false F_INV /\ m_from_bin 8 23 RNE 0xFFC00000 = BNaN true 0.
Proof. repeat split; vm_compute; reflexivity. Qed.
(* the judge on NaNs: any canonical quiet NaN of the same sign, with invalid for a signaling input *)
Example C07_judge_nan :
  judge (expected (OFromBin 11 52 true) RNE [0x7FF0000000000001]) 0 [encode (NaN false false 0)] F_INV = 1 /\
  judge (expected (OFromBin 11 52 true) RNE [0x7FF0000000000001]) 0 [encode (NaN false false 1)] F_INV = 1 /\
  judge (expected (OFromBin 11 52 true) RNE [0x7FF0000000000001]) 0 [encode (NaN false false 1)] 0 = 0 /\
  judge (expected (OFromBin 11 52 true) RNE [0x7FF0000000000001]) 0 [encode (NaN true false 1)] F_INV = 0 /\
  judge (expected (OFromBin 11 52 true) RNE [0x7FF0000000000001]) 0 [encode (NaN false true 1)] F_INV = 0 /\
  judge (expected (OFromBin 11 52 false) RNE [0x7FF0000000000001]) 0 [encode (NaN false false 1)] 0 = 1.
Proof. repeat split; vm_compute; reflexivity. Qed.
(* From<f64> under a Downward context: still the RNE digits, status unchanged; the flagged answer is rejected *)
Example C07_judge_trait :
  judge (expected (OFromBin 11 52 false) RUP [0x3FB999999999999A]) 0
        [encode (Fin false 1000000000000000055511151231257827 (-34))] 0 = 1 /\
  judge (expected (OFromBin 11 52 false) RUP [0x3FB999999999999A]) 0
        [encode (Fin false 1000000000000000055511151231257828 (-34))] 0 = 0 /\
  judge (expected (OFromBin 11 52 false) RUP [0x3FB999999999999A]) 0
        [encode (Fin false 1000000000000000055511151231257827 (-34))] F_INX = 0 /\
  judge (expected (OFromBin 11 52 true) RUP [0x3FB999999999999A]) 0
        [encode (Fin false 1000000000000000055511151231257828 (-34))] F_INX = 1.
Proof. repeat split; vm_compute; reflexivity. Qed.
