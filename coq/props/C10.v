(* C10 - IEEE remainder and fmod are exact.
   Property theorems only: each is closed by [exact <lemma of theories/RemProofs.v or RemRealProofs.v>] and followed
   by Print Assumptions.

   How the theorems cover the property text (model: OpsMisc.rem_dec nearest x y, nearest = true for remainder,
   false for fmod; Judge.expected dispatches ORem / OFmod / the % operator to it, see C10_dispatch).

   Notation used in the integer statements: x = (-1)^sx * cx * 10^qx and y = (-1)^sy * cy * 10^qy are the decoded
   operands, e = min qx qy, and
       Xs = cond_Zopp sx cx * 10^(qx-e),   Ys = cond_Zopp sy cy * 10^(qy-e)
   are the two *integers* with x = Xs * 10^e, y = Ys * 10^e (both exponents qx-e, qy-e are >= 0), so x/y = Xs/Ys and
   x - n*y = (Xs - n*Ys) * 10^e for every integer n. All integer theorems are axiom-free.

   * "remainder returns exactly x - n*y with n the integer nearest x/y (ties to even) ... |remainder| <= |y|/2":
       C10_remainder (integers: result coefficient/sign satisfy cond_Zopp s r = Xs - n*Ys with
       2|Xs - n*Ys| <= |Ys| and, in the tie case, n even; C10_nearest_even_unique shows that these two clauses determine
       n uniquely, i.e. they *are* "nearest, ties to even") and C10_remainder_real (real numbers:
       D2R result = D2R x - IZR (ZnearestE (D2R x / D2R y)) * D2R y, |result| <= |y|/2; uses the Reals axioms).
   * "fmod returns exactly x - n*y with n = trunc(x/y), |fmod| < |y| with the sign of x":
       C10_fmod (integers: n = Z.quot Xs Ys, Coq's quotient truncated toward zero; the result is Z.rem Xs Ys; the
       result's sign bit is sx also when the result is zero; r < |Ys|) and C10_fmod_real (Ztrunc).
   * "both are always exactly representable, carry quantum exponent min(ex, ey) ... raise no flag":
       in all four theorems the outcome list is the single outcome [([encode (Fin s r (min qx qy))], 0)] (flag word 0,
       nothing else accepted) and wf (Fin s r (min qx qy)) holds (0 <= r < 10^34, exponent in range), so the encoding is
       the canonical one of that datum (BidProofs.decode_encode). The coefficient bound is C10_rem_core_bound.
   * "give a zero with the sign of x when the division is exact": clause (r = 0 -> s = sx) of C10_remainder (for fmod the
       sign is always sx); x = 0 itself is included in these theorems (cx = 0 is allowed) and restated in C10_specials.
   * "x infinite or y zero gives a quiet NaN with invalid, y infinite returns x unchanged": C10_specials
       (invalid_out = [([encode (NaN false false 0)], F_INV)]); C10_inf_y: for y infinite the result decodes to the same
       datum as x, is canonical, and is bit-identical to x when x is canonical (a non-canonical finite x, e.g. a
       coefficient >= 10^34, is returned as its canonical zero - this is what the model prescribes).
       NaN operands: C10_nan hands them to the common NaN rule nan_outcomes (property C12).
   * "the % operator equals remainder": C10_dispatch (by definition of Judge.arith2 / Judge.expected).
   * The algorithmic core: C10_powmod_correct (square-and-multiply = b^g mod m) and C10_rem_core_spec (both branches of
       rem_core, on magnitudes, including the "gap > 36 digits returns x" shortcut), for all exponents (no range
       restriction on qx, qy at all, so in particular gaps of 12287 digits).

   Not covered here: nothing of the property text is left out. The real-valued theorems depend on the standard axioms
   of Coq's Reals library (listed by Print Assumptions); the integer theorems are closed. *)
From Coq Require Import ZArith Reals Bool List.
From Flocq Require Import Core.Core.
From DV Require Import Base Bid BidProofs Arith OpsArith OpsCmp OpsMisc Judge RemProofs RemRealProofs.
Import ListNotations.
Open Scope Z_scope.

(* ---------------- algorithmic core ---------------- *)

Theorem C10_powmod_correct : forall b g m, 0 < m -> 0 <= g -> powmod b g m = (b ^ g) mod m.
Proof. exact powmod_correct. Qed.
Print Assumptions C10_powmod_correct.

(* magnitudes: X = cx*10^(qx-e), Y = cy*10^(qy-e); (flip, r) = rem_core ...; signed remainder (flip ? -r : r) = X - n*Y *)
Theorem C10_rem_core_spec : forall nearest cx qx cy qy, 0 < cx < 10 ^ 34 -> 0 < cy ->
  let e := Z.min qx qy in
  let X := cx * 10 ^ (qx - e) in
  let Y := cy * 10 ^ (qy - e) in
  let fr := rem_core nearest cx qx cy qy in
  exists n, 0 <= n /\ (if fst fr then - snd fr else snd fr) = X - n * Y /\ 0 <= snd fr /\
    if nearest then 2 * snd fr <= Y /\ (2 * snd fr = Y -> Z.even n = true)
    else fst fr = false /\ snd fr < Y.
Proof. exact rem_core_spec. Qed.
Print Assumptions C10_rem_core_spec.

(* for fmod the magnitude is Coq's X mod Y (floor and truncated division agree on positive operands), never flipped *)
Theorem C10_rem_core_fmod : forall cx qx cy qy, 0 < cx < 10 ^ 34 -> 0 < cy ->
  let e := Z.min qx qy in
  rem_core false cx qx cy qy = (false, (cx * 10 ^ (qx - e)) mod (cy * 10 ^ (qy - e))).
Proof. exact rem_core_fmod_eq. Qed.
Print Assumptions C10_rem_core_fmod.

Theorem C10_rem_core_bound : forall nearest cx qx cy qy, 0 < cx < 10 ^ 34 -> 0 < cy < 10 ^ 34 ->
  0 <= snd (rem_core nearest cx qx cy qy) < 10 ^ 34.
Proof. exact rem_core_bound. Qed.
Print Assumptions C10_rem_core_bound.

(* "nearest, ties to even" on integers determines the quotient *)
Theorem C10_nearest_even_unique : forall X Y n1 n2, Y <> 0 ->
  2 * Z.abs (X - n1 * Y) <= Z.abs Y -> (2 * Z.abs (X - n1 * Y) = Z.abs Y -> Z.even n1 = true) ->
  2 * Z.abs (X - n2 * Y) <= Z.abs Y -> (2 * Z.abs (X - n2 * Y) = Z.abs Y -> Z.even n2 = true) ->
  n1 = n2.
Proof. exact nearest_even_unique. Qed.
Print Assumptions C10_nearest_even_unique.

(* ... and it is Flocq's ZnearestE of the real quotient *)
Theorem C10_nearest_even_is_ZnearestE : forall X Y n, Y <> 0 ->
  2 * Z.abs (X - n * Y) <= Z.abs Y -> (2 * Z.abs (X - n * Y) = Z.abs Y -> Z.even n = true) ->
  ZnearestE (IZR X / IZR Y) = n.
Proof. exact ZnearestE_div. Qed.
Print Assumptions C10_nearest_even_is_ZnearestE.

(* ---------------- main theorems, integer form (axiom-free) ---------------- *)

Theorem C10_remainder : forall x y sx cx qx sy cy qy,
  0 <= x < P128 -> 0 <= y < P128 ->
  decode x = Fin sx cx qx -> decode y = Fin sy cy qy -> cy <> 0 ->
  let e := Z.min qx qy in
  let Xs := cond_Zopp sx cx * 10 ^ (qx - e) in
  let Ys := cond_Zopp sy cy * 10 ^ (qy - e) in
  exists s r n,
    rem_dec true x y = [([encode (Fin s r e)], 0)] /\
    wf (Fin s r e) /\
    cond_Zopp s r = Xs - n * Ys /\
    2 * Z.abs (Xs - n * Ys) <= Z.abs Ys /\
    (2 * Z.abs (Xs - n * Ys) = Z.abs Ys -> Z.even n = true) /\
    (r = 0 -> s = sx) /\
    2 * r <= Z.abs Ys.
Proof. exact remainder_spec. Qed.
Print Assumptions C10_remainder.

Theorem C10_fmod : forall x y sx cx qx sy cy qy,
  0 <= x < P128 -> 0 <= y < P128 ->
  decode x = Fin sx cx qx -> decode y = Fin sy cy qy -> cy <> 0 ->
  let e := Z.min qx qy in
  let Xs := cond_Zopp sx cx * 10 ^ (qx - e) in
  let Ys := cond_Zopp sy cy * 10 ^ (qy - e) in
  exists r,
    rem_dec false x y = [([encode (Fin sx r e)], 0)] /\
    wf (Fin sx r e) /\
    cond_Zopp sx r = Xs - Z.quot Xs Ys * Ys /\
    cond_Zopp sx r = Z.rem Xs Ys /\
    r < Z.abs Ys.
Proof. exact fmod_spec. Qed.
Print Assumptions C10_fmod.

(* ---------------- main theorems, real form (Flocq, axioms of Reals) ---------------- *)

Theorem C10_remainder_real : forall x y sx cx qx sy cy qy,
  0 <= x < P128 -> 0 <= y < P128 ->
  decode x = Fin sx cx qx -> decode y = Fin sy cy qy -> cy <> 0 ->
  let vx := D2R (decode x) in let vy := D2R (decode y) in
  exists s r,
    rem_dec true x y = [([encode (Fin s r (Z.min qx qy))], 0)] /\
    wf (Fin s r (Z.min qx qy)) /\
    D2R (Fin s r (Z.min qx qy)) = (vx - IZR (ZnearestE (vx / vy)) * vy)%R /\
    (Rabs (D2R (Fin s r (Z.min qx qy))) <= Rabs vy / 2)%R /\
    (D2R (Fin s r (Z.min qx qy)) = 0%R -> s = sx).
Proof. exact remainder_real. Qed.
Print Assumptions C10_remainder_real.

Theorem C10_fmod_real : forall x y sx cx qx sy cy qy,
  0 <= x < P128 -> 0 <= y < P128 ->
  decode x = Fin sx cx qx -> decode y = Fin sy cy qy -> cy <> 0 ->
  let vx := D2R (decode x) in let vy := D2R (decode y) in
  exists r,
    rem_dec false x y = [([encode (Fin sx r (Z.min qx qy))], 0)] /\
    wf (Fin sx r (Z.min qx qy)) /\
    D2R (Fin sx r (Z.min qx qy)) = (vx - IZR (Ztrunc (vx / vy)) * vy)%R /\
    (Rabs (D2R (Fin sx r (Z.min qx qy))) < Rabs vy)%R.
Proof. exact fmod_real. Qed.
Print Assumptions C10_fmod_real.

(* ---------------- special operands ---------------- *)

Theorem C10_specials : forall nearest x y,
  (forall sx, decode x = Inf sx -> is_nan (decode y) = false -> rem_dec nearest x y = invalid_out) /\
  (forall sx cx qx sy qy, decode x = Fin sx cx qx -> decode y = Fin sy 0 qy -> rem_dec nearest x y = invalid_out) /\
  (forall sx cx qx sy, decode x = Fin sx cx qx -> decode y = Inf sy -> rem_dec nearest x y = out1 (Fin sx cx qx) 0) /\
  (forall sx qx sy cy qy, decode x = Fin sx 0 qx -> decode y = Fin sy cy qy -> cy <> 0 ->
     rem_dec nearest x y = out1 (Fin sx 0 (Z.min qx qy)) 0).
Proof. exact rem_dec_specials. Qed.
Print Assumptions C10_specials.

Theorem C10_invalid_out_is_qnan_invalid : invalid_out = [([encode (NaN false false 0)], F_INV)].
Proof. reflexivity. Qed.

Theorem C10_inf_y : forall nearest x y sx cx qx sy, 0 <= x < P128 ->
  decode x = Fin sx cx qx -> decode y = Inf sy ->
  exists r, rem_dec nearest x y = [([r], 0)] /\ decode r = decode x /\ canonical_bits r = true /\
            (canonical_bits x = true -> r = x).
Proof. exact rem_dec_inf_y_canonical. Qed.
Print Assumptions C10_inf_y.

Theorem C10_nan : forall nearest x y, is_nan (decode x) || is_nan (decode y) = true ->
  rem_dec nearest x y = nan_outcomes [decode x; decode y].
Proof. exact rem_dec_nan. Qed.
Print Assumptions C10_nan.

(* remainder, fmod and the % operator (and its five operator forms) all dispatch to rem_dec *)
Theorem C10_dispatch : forall md x y,
  expected ORem md [x; y] = Exact (rem_dec true x y) /\
  expected OFmod md [x; y] = Exact (rem_dec false x y) /\
  arith2 ORem RNE x y = rem_dec true x y /\
  expected (OOpArith ORem) md [x; y] = Exact (repeat_out 5 (rem_dec true x y)).
Proof. exact rem_dispatch. Qed.
Print Assumptions C10_dispatch.

(* ---------------- non-vacuity witnesses ---------------- *)
Definition E s c q := encode (Fin s c q).

(* hypotheses of the main theorems are satisfiable: canonical encodings decode to the datum *)
Example C10_hyp_sat : 0 <= E false 5 0 < P128 /\ decode (E false 5 0) = Fin false 5 0 /\ decode (E true 2 (-3)) = Fin true 2 (-3).
Proof. vm_compute. repeat split; discriminate. Qed.

(* ties: 5 rem 2 = 5 - 2*2 = +1 (quotient 2.5 -> 2 even); 7 rem 2 = 7 - 4*2 = -1 (3.5 -> 4 even) *)
Example C10_tie_even_down : rem_dec true (E false 5 0) (E false 2 0) = [([E false 1 0], 0)].
Proof. vm_compute. reflexivity. Qed.
Example C10_tie_even_up : rem_dec true (E false 7 0) (E false 2 0) = [([E true 1 0], 0)].
Proof. vm_compute. reflexivity. Qed.
Example C10_rem_core_ties : rem_core true 5 0 2 0 = (false, 1) /\ rem_core true 7 0 2 0 = (true, 1) /\ rem_core false 7 0 2 0 = (false, 1).
Proof. vm_compute. repeat split. Qed.
(* ties in the other branch (qx < qy): 15 rem 1E+1 = 15 - 2*10 = -5;  25 rem 1E+1 = 25 - 2*10 = +5 *)
Example C10_tie_lt_branch : rem_dec true (E false 15 0) (E false 1 1) = [([E true 5 0], 0)] /\
                            rem_dec true (E false 25 0) (E false 1 1) = [([E false 5 0], 0)].
Proof. vm_compute. split; reflexivity. Qed.

(* huge exponent gaps evaluate instantly: 1E+6000 rem 7E-6000 = 1E-6000 (10^12000 = 1 mod 7);
   the largest gap 12287 with 34-digit coefficients; and the shortcut branch |x| < |y|/2 *)
Example C10_huge_gap : rem_dec true (E false 1 6000) (E false 7 (-6000)) = [([E false 1 (-6000)], 0)].
Proof. vm_compute. reflexivity. Qed.
Example C10_max_gap :
  rem_dec true (E false 9999999999999999999999999999999999 6111) (E true 9999999999999999999999999999999998 (-6176)) =
  [([E false 4381336691659472467337716713827154 (-6176)], 0)].
Proof. vm_compute. reflexivity. Qed.
Example C10_small_x : rem_dec true (E true 1 (-6000)) (E false 7 6000) = [([E true 1 (-6000)], 0)].
Proof. vm_compute. reflexivity. Qed.

(* fmod has the sign of x; exact division gives a zero with the sign of x, quantum min(qx, qy) *)
Example C10_fmod_sign : rem_dec false (E true 7 0) (E false 2 0) = [([E true 1 0], 0)] /\
                        rem_dec false (E false 7 0) (E true 2 0) = [([E false 1 0], 0)].
Proof. vm_compute. split; reflexivity. Qed.
Example C10_exact_zero : rem_dec false (E true 6 0) (E false 2 0) = [([E true 0 0], 0)] /\
                         rem_dec true (E true 6 0) (E false 2 0) = [([E true 0 0], 0)] /\
                         rem_dec true (E false 25 0) (E false 1 (-3)) = [([E false 0 (-3)], 0)].
Proof. vm_compute. repeat split; reflexivity. Qed.

(* specials *)
Example C10_specials_witness :
  rem_dec true (encode (Inf true)) (E false 25 0) = [([encode (NaN false false 0)], 1)] /\
  rem_dec true (E false 25 0) (E false 0 5) = [([encode (NaN false false 0)], 1)] /\
  rem_dec true (E false 25 0) (encode (Inf true)) = [([E false 25 0], 0)] /\
  rem_dec false (E true 0 7) (E false 3 5) = [([E true 0 5], 0)] /\
  rem_dec true (encode (NaN true true 5)) (E false 3 5) = [([encode (NaN true false 5)], 1)].
Proof. vm_compute. repeat split; reflexivity. Qed.
