(* C20 - Eq, Ord and Hash on d128 are mutually consistent.
   Property theorems only: each is closed by [exact <lemma of theories/CmpProofs.v>] and followed by Print Assumptions.
   The trait layer is modelled by [m_eq] (==), [m_partial_cmp] (code 0 None, 1 Less, 2 Equal, 3 Greater) and the
   operator bits of [m_ops] (bit0 ==, bit1 <, bit2 <=, bit3 >, bit4 >=, bits5-6 partial_cmp, bit7 !=); the harness
   compares these bits with the crate's operators for every pair it generates.

   How the theorems cover the statement.
   * "Equality is an equivalence relation": [C20_eq_equivalence] (reflexive, symmetric, transitive over all 128-bit
     patterns, NaNs and non-canonical patterns included).
     "numerically equal values are equal whatever their quantum or zero sign": [C20_eq_numeric_real] (finite operands:
     equal <-> same real value D2R) and [C20_eq_numeric_key] (all non-NaN data, infinities included: equal <-> same
     integer key [vkey] = +-c*10^(q+6176), +-10^12400 for the infinities; axiom-free);
     "all NaNs form one class" [C20_eq_nan_class]; "a NaN never equals a number" [C20_eq_nan_number].
   * "partial_cmp, <, <=, > and >= agree with it and with each other: a <= b holds exactly when partial_cmp(a, b) is
     Less or Equal": [C20_ops_consistent]: for *all* operands (NaNs included) the model's operator bits satisfy
     == <-> Equal, < <-> Less, > <-> Greater, <= <-> Less or Equal, >= <-> Greater or Equal, != is the negation of ==,
     no flag. [C20_pc_equal_iff_eq]: partial_cmp = Equal <-> ==. [C20_pc_none_iff]: None exactly when exactly one
     operand is a NaN (so NaN <= NaN is *true* in the model, because partial_cmp(NaN, NaN) = Equal).
   * "partial_cmp is antisymmetric and transitive": [C20_pc_antisym] (Less one way <-> Greater the other, Equal and
     None symmetric), [C20_pc_trans] (Less/Less, Less/Equal, Equal/Less -> Less; Equal/Equal -> Equal; same for
     Greater).
   * "Values that are equal hash equally": [C20_hash_respects_eq]: the acceptance predicate of the harness operation
     "hasheq" (x, y, same) - where `same` = 1 iff the word sequences the crate's Hash feeds to a recording Hasher for
     x and for y are identical - accepts exactly when (x == y -> same = 1).
     [C20_hash_slice_respects_eq]: the same for Hash::hash_slice, harness operation "hashsliceeq" (model constructor
     OHashSliceEq, arguments [n; x1..xn; y1..yn], output [same]): accepted iff it raises nothing and
     (x1 == y1, ..., xn == yn as values -> same = 1), `same` = 1 iff hash_slice fed identical word sequences for the two
     slices; [C20_hash_slice_domain]: defined exactly for 0 <= n with 2n patterns following.
   * "so a value inserted in a HashSet or HashMap is found again under any equal key such as 1 and 1.0, or +0 and -0":
     [C20_hashset]: the harness operation "hashset" (insert x into an empty HashSet, then report contains(&y), the same
     for a HashMap key) is judged against the single outcome [b2z (x == y)], no flag: found iff the values are equal
     ([C20_dispatch_ops]: the operator bits of harness op "ops" are judged against m_ops, see C03_dispatch too).
     Examples [C20_ex_hashset]: 1 / 1.0 and +0 / -0 must be found, 1 / 2 must not.
     NOT modelled: the Hasher itself (SipHash etc.) and the collections' internals; that identical input streams hash
     identically and that the collections find exactly the keys that are == with equal hashes is std's contract, trusted.
     The converse for the hash input (unequal values feed different words) is NOT required by hasheq / hashsliceeq; it
     is implied for HashSet membership only through `contains` = false for unequal values.
   All theorems of this file are axiom-free except [C20_eq_numeric_real]. *)
From Coq Require Import ZArith Reals Bool List.
From Flocq Require Import Core.Core.
From DV Require Import Base Bid BidProofs OpsArith OpsCmp CmpProofs Judge Status DispatchProofs.
Import ListNotations.
Open Scope Z_scope.

Theorem C20_eq_equivalence : forall x y z, 0 <= x < P128 -> 0 <= y < P128 -> 0 <= z < P128 ->
  m_eq (decode x) (decode x) = true /\
  m_eq (decode x) (decode y) = m_eq (decode y) (decode x) /\
  (m_eq (decode x) (decode y) = true -> m_eq (decode y) (decode z) = true -> m_eq (decode x) (decode z) = true).
Proof. exact eq_equivalence. Qed.
Print Assumptions C20_eq_equivalence.

Theorem C20_eq_nan_class : forall dx dy, is_nan dx = true -> is_nan dy = true -> m_eq dx dy = true.
Proof. exact eq_nan_class. Qed.
Print Assumptions C20_eq_nan_class.

Theorem C20_eq_nan_number : forall dx dy, is_nan dx = true -> is_nan dy = false ->
  m_eq dx dy = false /\ m_eq dy dx = false.
Proof. exact eq_nan_number. Qed.
Print Assumptions C20_eq_nan_number.

Theorem C20_eq_numeric_real : forall x y, 0 <= x < P128 -> 0 <= y < P128 ->
  is_fin (decode x) = true -> is_fin (decode y) = true ->
  (m_eq (decode x) (decode y) = true <-> D2R (decode x) = D2R (decode y)).
Proof. exact eq_numeric_real. Qed.
Print Assumptions C20_eq_numeric_real.

Theorem C20_eq_numeric_key : forall dx dy, wf dx -> wf dy -> is_nan dx = false -> is_nan dy = false ->
  (m_eq dx dy = true <-> vkey dx = vkey dy).
Proof. exact eq_numeric_key. Qed.
Print Assumptions C20_eq_numeric_key.

(* the model's order on non-NaN data is the order of the integer keys (used for transitivity) *)
Theorem C20_cmp_dec_key : forall dx dy, wf dx -> wf dy -> is_nan dx = false -> is_nan dy = false ->
  cmp_dec dx dy = rel_of (vkey dx ?= vkey dy).
Proof. exact cmp_dec_key. Qed.
Print Assumptions C20_cmp_dec_key.

Theorem C20_ops_consistent : forall x y,
  let pc := m_partial_cmp (decode x) (decode y) in
  exists eq lt le gt ge : bool,
    m_ops x y = [([b2z eq + 2 * b2z lt + 4 * b2z le + 8 * b2z gt + 16 * b2z ge + 32 * pc + 128 * b2z (negb eq)], 0)] /\
    eq = m_eq (decode x) (decode y) /\ 0 <= pc <= 3 /\
    (eq = true <-> pc = 2) /\ (lt = true <-> pc = 1) /\ (gt = true <-> pc = 3) /\
    (le = true <-> pc = 1 \/ pc = 2) /\ (ge = true <-> pc = 3 \/ pc = 2).
Proof. exact ops_consistent. Qed.
Print Assumptions C20_ops_consistent.

Theorem C20_pc_equal_iff_eq : forall dx dy, m_partial_cmp dx dy = 2 <-> m_eq dx dy = true.
Proof. exact pc_equal_iff_eq. Qed.
Print Assumptions C20_pc_equal_iff_eq.

Theorem C20_pc_none_iff : forall x y, 0 <= x < P128 -> 0 <= y < P128 ->
  (m_partial_cmp (decode x) (decode y) = 0 <-> xorb (is_nan (decode x)) (is_nan (decode y)) = true).
Proof. exact pc_none_iff. Qed.
Print Assumptions C20_pc_none_iff.

Theorem C20_pc_antisym : forall x y, 0 <= x < P128 -> 0 <= y < P128 ->
  (m_partial_cmp (decode x) (decode y) = 1 <-> m_partial_cmp (decode y) (decode x) = 3) /\
  (m_partial_cmp (decode x) (decode y) = 3 <-> m_partial_cmp (decode y) (decode x) = 1) /\
  (m_partial_cmp (decode x) (decode y) = 2 <-> m_partial_cmp (decode y) (decode x) = 2) /\
  (m_partial_cmp (decode x) (decode y) = 0 <-> m_partial_cmp (decode y) (decode x) = 0).
Proof. exact pc_antisym. Qed.
Print Assumptions C20_pc_antisym.

Theorem C20_pc_trans : forall x y z, 0 <= x < P128 -> 0 <= y < P128 -> 0 <= z < P128 ->
  let pc a b := m_partial_cmp (decode a) (decode b) in
  (pc x y = 1 -> pc y z = 1 -> pc x z = 1) /\
  (pc x y = 1 -> pc y z = 2 -> pc x z = 1) /\
  (pc x y = 2 -> pc y z = 1 -> pc x z = 1) /\
  (pc x y = 2 -> pc y z = 2 -> pc x z = 2) /\
  (pc x y = 3 -> pc y z = 3 -> pc x z = 3) /\
  (pc x y = 3 -> pc y z = 2 -> pc x z = 3) /\
  (pc x y = 2 -> pc y z = 3 -> pc x z = 3).
Proof. exact pc_trans. Qed.
Print Assumptions C20_pc_trans.

Theorem C20_hash_respects_eq : forall x y same,
  m_hasheq x y same = true <-> (m_eq (decode x) (decode y) = true -> same = 1).
Proof. exact hash_respects_eq. Qed.
Print Assumptions C20_hash_respects_eq.

(* ---------- the judge's clauses for the hash operations ---------- *)
Theorem C20_dispatch_hasheq : forall md x y outs fl,
  acc (expected OHashEq md [x; y]) outs fl = 1 <-> fl = 0 /\ exists same, outs = [same] /\ m_hasheq x y same = true.
Proof. exact dispatch_hasheq. Qed.
Print Assumptions C20_dispatch_hasheq.

Theorem C20_dispatch_ops : forall md x y, expected OOps md [x; y] = Exact (m_ops x y).
Proof. intros md x y. exact (proj2 (dispatch_cmp md x y 0)). Qed.
Print Assumptions C20_dispatch_ops.

Theorem C20_hashset : forall md x y, expected OHashSet md [x; y] = Exact [([b2z (m_eq (decode x) (decode y))], 0)].
Proof. exact dispatch_hashset. Qed.
Print Assumptions C20_hashset.

Theorem C20_hash_slice_respects_eq : forall md xs ys outs fl, length xs = length ys ->
  (acc (expected OHashSliceEq md (Z.of_nat (length xs) :: xs ++ ys)) outs fl = 1 <->
   fl = 0 /\ exists same, outs = [same] /\
     (Forall2 (fun x y => m_eq (decode x) (decode y) = true) xs ys -> same = 1)).
Proof. exact hash_slice_respects_eq. Qed.
Print Assumptions C20_hash_slice_respects_eq.

Theorem C20_hash_slice_domain : forall md n l,
  (hashslice_shape n l = true <-> 0 <= n /\ Z.of_nat (length l) = 2 * n) /\
  (hashslice_shape n l = false -> expected OHashSliceEq md (n :: l) = Exact []) /\
  expected OHashSliceEq md [] = Exact [].
Proof. exact hash_slice_domain. Qed.
Print Assumptions C20_hash_slice_domain.

(* ---------- non-vacuity ---------- *)
(* 1 == 1.0, +0 == -0, NaN == NaN (any kind, any payload), NaN != 1 *)
Example C20_ex_eq :
  m_eq (decode (encode (Fin false 1 0))) (decode (encode (Fin false 10 (-1)))) = true /\
  m_eq (decode (encode (Fin false 0 0))) (decode (encode (Fin true 0 3))) = true /\
  m_eq (decode (encode (NaN false false 5))) (decode (encode (NaN true true 0))) = true /\
  m_eq (decode (encode (NaN false false 5))) (decode (encode (Fin false 1 0))) = false.
Proof. vm_compute. repeat split; reflexivity. Qed.
(* hasheq: for 1 and 1.0 only same = 1 is accepted (the pinned crate feeds the raw bits, same = 0: rejected);
   for 1 and 2 anything is accepted *)
Example C20_ex_hash :
  m_hasheq (encode (Fin false 1 0)) (encode (Fin false 10 (-1))) 1 = true /\
  m_hasheq (encode (Fin false 1 0)) (encode (Fin false 10 (-1))) 0 = false /\
  m_hasheq (encode (Fin false 1 0)) (encode (Fin false 2 0)) 0 = true.
Proof. vm_compute. repeat split; reflexivity. Qed.
(* operators on two NaNs: == (1), <= (4), >= (16), partial_cmp Equal (64): NaN <= NaN holds in the model *)
Example C20_ex_nan_ops : m_ops (encode (NaN false false 5)) (encode (NaN true true 0)) = [([85], 0)].
Proof. vm_compute. reflexivity. Qed.
(* operators on NaN and 1: only != (128), partial_cmp None *)
Example C20_ex_nan_num_ops : m_ops (encode (NaN false false 5)) (encode (Fin false 1 0)) = [([128], 0)].
Proof. vm_compute. reflexivity. Qed.
(* a transitivity chain through Equal: 1 < 2.0 = 2 *)
Example C20_ex_chain :
  m_partial_cmp (decode (encode (Fin false 1 0))) (decode (encode (Fin false 20 (-1)))) = 1 /\
  m_partial_cmp (decode (encode (Fin false 20 (-1)))) (decode (encode (Fin false 2 0))) = 2 /\
  m_partial_cmp (decode (encode (Fin false 1 0))) (decode (encode (Fin false 2 0))) = 1.
Proof. vm_compute. repeat split; reflexivity. Qed.
(* HashSet: 1 found under 1.0, +0 under -0E+3, a NaN under any NaN; 1 not found under 2 *)
Example C20_ex_hashset :
  expected OHashSet RNE [encode (Fin false 1 0); encode (Fin false 10 (-1))] = Exact [([1], 0)] /\
  expected OHashSet RNE [encode (Fin false 0 0); encode (Fin true 0 3)] = Exact [([1], 0)] /\
  expected OHashSet RNE [encode (NaN false false 5); encode (NaN true true 0)] = Exact [([1], 0)] /\
  expected OHashSet RNE [encode (Fin false 1 0); encode (Fin false 2 0)] = Exact [([0], 0)].
Proof. vm_compute. repeat split; reflexivity. Qed.
(* hash_slice on [1; +0] and [1.0; -0]: pairwise equal, so only same = 1 is accepted; [1; +0] and [1.0; 2]: anything;
   no answer, two answers, a flag: rejected; a wrong count: nothing is accepted *)
Example C20_ex_hash_slice :
  let a := [encode (Fin false 1 0); encode (Fin false 0 0)] in
  let b := [encode (Fin false 10 (-1)); encode (Fin true 0 0)] in
  let c := [encode (Fin false 10 (-1)); encode (Fin false 2 0)] in
  acc (expected OHashSliceEq RNE (2 :: a ++ b)) [1] 0 = 1 /\ acc (expected OHashSliceEq RNE (2 :: a ++ b)) [0] 0 = 0 /\
  acc (expected OHashSliceEq RNE (2 :: a ++ c)) [0] 0 = 1 /\ acc (expected OHashSliceEq RNE (2 :: a ++ c)) [1] 0 = 1 /\
  acc (expected OHashSliceEq RNE (2 :: a ++ b)) [] 0 = 0 /\ acc (expected OHashSliceEq RNE (2 :: a ++ b)) [1; 1] 0 = 0 /\
  acc (expected OHashSliceEq RNE (2 :: a ++ b)) [1] F_INX = 0 /\
  acc (expected OHashSliceEq RNE [0]) [1] 0 = 1 /\ acc (expected OHashSliceEq RNE [0]) [0] 0 = 0 /\
  expected OHashSliceEq RNE (1 :: a ++ b) = Exact [] /\ expected OHashSliceEq RNE (-1 :: []) = Exact [].
Proof. vm_compute. repeat split; reflexivity. Qed.
