(* C02 - fused multiply-add rounds x*y+z exactly once and is total.
   Property theorems only: each is closed by [exact <lemma of theories/>] and followed by Print Assumptions.

   How the theorems cover the statement of C02 (properties.jsonl):

   * "the bit-exact IEEE 754-2008 result of rounding the infinitely precise x*y+z a single time, with the preferred
     exponent min(ex+ey, ez) for exact results, the standard's zero-sign rule, and exactly the standard's
     inexact/overflow/underflow flags" (finite operands):
       C02_fma.  [finite_result md v pref zs l] says that the accepted-outcome list l of the model is the single pair
       ([encode d], flbits fl) with [ieee_result md v pref zs d fl] (theories/Base.v): the value of d is Flocq's
       [round radix10 (FLT_exp (-6176) 34) (rnd_of md) v] of the exact real v = x*y+z (ONE rounding of the exact
       value), or the overflow result of the mode; sign of v, or zs = zs_add md (sign of product) (sign of z) when
       v = 0 (6.3: equal signs keep the sign, otherwise +0 except -0 under roundTowardNegative); exponent nearest to
       pref = min(qx+qy, qz) when exact, least possible when rounded; inexact iff rounded <> v; underflow iff inexact
       and |v| < 10^-6143 (tininess before rounding); overflow iff the rounded value exceeds the largest finite
       number; flbits has no other bit, so invalid / division-by-zero are NOT raised.
       C02_ieee_result_functional / C02_finite_result_functional / C02_fma_unique: that specification has exactly one
       solution, so C02_fma pins THE answer bit for bit (any list satisfying the statement equals m_fma md x y z).
   * "never the doubly rounded product-then-sum": C02_fma_single_rounding_differs (+ _up, _cancel) exhibit operands
     on which multiply-round-add-round differs from the fma, and C02_double_rounding_rejected proves that the
     doubly rounded outcome does not satisfy the statement of C02_fma.
   * "special-value rules (0*Inf invalid, Inf-Inf invalid)": C02_fma_specials, with the readable corollaries
     C02_fma_zero_times_inf and C02_fma_inf_product_inf_addend.  NaN operands: C02_fma_nan_operands hands them to the
     common NaN rule (content of that rule: C12 / nan_outcomes_spec).  Note the order: a NaN operand is looked at
     first, so fma(0, Inf, qNaN) propagates the quiet NaN WITHOUT invalid (7.2(c) leaves this case to the
     implementation; the model fixes the choice of the Intel library).
   * "When the product is exact and z is zero it agrees with multiplication": C02_fma_mul_agree - for z a zero with
     qz >= qx+qy and a non-zero product, m_fma = m_mul bit for bit in every mode, whether or not the product is
     exact (stronger than the sentence).  The two corners where the sentence read literally would be FALSE are
     stated, not hidden: C02_fma_mul_same_value(+_outputs) (zero of smaller exponent: same real value rounded once,
     same flags, identical datum when rounded, otherwise two members of one cohort - the fma takes the finer
     quantum, Example C02_corner_small_qz) and C02_fma_zero_product_zero_addend (zero product: the sign is the
     addition rule's, Example C02_corner_zero_product: (-0)*(+1)+(+0) = +0, mul gives -0).
   * "when y is one it agrees with addition": C02_fma_add_agree(_one) - y decoding to +1E+0 (coefficient 1, exponent 0),
     for ALL patterns x, z (NaN, infinite, non-canonical included) and all modes: equal outcome lists.  "One" must
     have quantum 0: Example C02_one_needs_quantum_0 (y = 10E-1).
   * what is executed: the correspondence run judges the crate's fma against [expected OFma md [x; y; z]]; C02_dispatch
     says this is the list m_fma md x y z of accepted (bits, raised flags) pairs that all theorems here talk about.
   * "returns without panicking ... total": C02_fma_total / C02_fma_single_outcome are about the MODEL (its outcome
     list is never empty; exactly one outcome without NaN operands).  Totality of the Rust implementation is not a
     Coq theorem: it is checked by the differential harness (a panic is a mismatch against a non-empty list).

   Not covered here: the secondary configuration "tininess after rounding" (ieee_result has tininess before
   rounding only, the standard's rule for decimal); the content of the NaN rule (C12); the implementation itself. *)
From Coq Require Import ZArith Reals Bool List.
From Flocq Require Import Core.Core Calc.Bracket.
From DV Require Import Base RoundProofs SpecProofs Bid BidProofs Arith ArithProofs OpsArith OpsArithProofs FmaProofs
  Judge DispatchProofs.
Import ListNotations.
Open Scope Z_scope.

(* ---------- dispatch: the harness operation "fma" is judged against m_fma ---------- *)
Theorem C02_dispatch : forall md x y z, expected OFma md [x; y; z] = Exact (m_fma md x y z).
Proof. exact dispatch_fma. Qed.
Print Assumptions C02_dispatch.

(* ---------- single rounding of the exact x*y+z ---------- *)
Theorem C02_fma : forall md x y z sx cx qx sy cy qy sz cz qz,
  0 <= x < P128 -> 0 <= y < P128 -> 0 <= z < P128 ->
  decode x = Fin sx cx qx -> decode y = Fin sy cy qy -> decode z = Fin sz cz qz ->
  finite_result md (D2R (decode x) * D2R (decode y) + D2R (decode z)) (Z.min (qx + qy) qz)
    (zs_add md (xorb sx sy) sz) (m_fma md x y z).
Proof. exact m_fma_finite. Qed.
Print Assumptions C02_fma.

(* the specification determines datum and flags *)
Theorem C02_ieee_result_functional : forall md v pref zs d fl d' fl',
  ieee_result md v pref zs d fl -> ieee_result md v pref zs d' fl' -> d = d' /\ fl = fl'.
Proof. exact ieee_result_functional. Qed.
Print Assumptions C02_ieee_result_functional.

Theorem C02_finite_result_functional : forall md v pref zs l l',
  finite_result md v pref zs l -> finite_result md v pref zs l' -> l = l'.
Proof. exact finite_result_functional. Qed.
Print Assumptions C02_finite_result_functional.

Theorem C02_fma_unique : forall md x y z sx cx qx sy cy qy sz cz qz l,
  0 <= x < P128 -> 0 <= y < P128 -> 0 <= z < P128 ->
  decode x = Fin sx cx qx -> decode y = Fin sy cy qy -> decode z = Fin sz cz qz ->
  finite_result md (D2R (decode x) * D2R (decode y) + D2R (decode z)) (Z.min (qx + qy) qz)
    (zs_add md (xorb sx sy) sz) l ->
  l = m_fma md x y z.
Proof. exact m_fma_unique. Qed.
Print Assumptions C02_fma_unique.

(* same value under two preferred exponents / zero signs: same flags; same datum unless exact *)
Theorem C02_ieee_result_value_functional : forall md v pref zs pref' zs' d fl d' fl',
  ieee_result md v pref zs d fl -> ieee_result md v pref' zs' d' fl' ->
  fl = fl' /\
  (d = d' \/
   exists s c q s' c' q', d = Fin s c q /\ d' = Fin s' c' q' /\ D2R d = v /\ D2R d' = v /\ (v <> 0%R -> s = s')).
Proof. exact ieee_result_value_functional. Qed.
Print Assumptions C02_ieee_result_value_functional.

(* non-vacuity of C02_fma: 2 * 3 + 4 = 10E+0, no flag; and an inexact, a subnormal-underflow and an overflow case *)
Example C02_fma_witness_exact :
  m_fma RNE (encode (Fin false 2 0)) (encode (Fin false 3 0)) (encode (Fin false 4 0)) = [([encode (Fin false 10 0)], 0)].
Proof. vm_compute. reflexivity. Qed.
Example C02_fma_witness_pref_exponent :   (* 2E+1 * 3E+0 + 4E-1 = 604E-1 : exponent min(1+0, -1) *)
  m_fma RNE (encode (Fin false 2 1)) (encode (Fin false 3 0)) (encode (Fin false 4 (-1))) = [([encode (Fin false 604 (-1))], 0)].
Proof. vm_compute. reflexivity. Qed.
Example C02_fma_witness_underflow :       (* 1E-6176 * 5E-1 + 0E-6176 = 0.5E-6176 -> +0E-6176 (RNE), inexact + underflow *)
  m_fma RNE (encode (Fin false 1 (-6176))) (encode (Fin false 5 (-1))) (encode (Fin false 0 (-6176))) =
  [([encode (Fin false 0 (-6176))], F_INX + F_UNF)].
Proof. vm_compute. reflexivity. Qed.
Example C02_fma_witness_overflow :        (* MAX * 10 + 1 under roundTowardZero: MAX, inexact + overflow *)
  m_fma RTZ (encode (Fin false MAXC qmax)) (encode (Fin false 10 0)) (encode (Fin false 1 0)) =
  [([encode (Fin false MAXC qmax)], F_INX + F_OVF)].
Proof. vm_compute. reflexivity. Qed.
Example C02_fma_witness_zero_sign :       (* 1 * 1 + (-1) = +0 (RNE), -0 (roundTowardNegative) *)
  m_fma RNE (encode (Fin false 1 0)) (encode (Fin false 1 0)) (encode (Fin true 1 0)) = [([encode (Fin false 0 0)], 0)] /\
  m_fma RDN (encode (Fin false 1 0)) (encode (Fin false 1 0)) (encode (Fin true 1 0)) = [([encode (Fin true 0 0)], 0)].
Proof. vm_compute. split; reflexivity. Qed.

(* ---------- never the doubly rounded product-then-sum ---------- *)
(* [mul_then_add md x y z] (theories/FmaProofs.v): m_mul, then m_add of its result pattern and z, flags or-ed.
   wX = 10^17+1 (its square has 35 digits). *)
Example C02_fma_single_rounding_differs :
  m_fma RNE wX wX (encode (Fin false 5 0)) = [([encode (Fin false (10 ^ 33 + 2 * 10 ^ 16 + 1) 1)], F_INX)] /\
  mul_then_add RNE wX wX (encode (Fin false 5 0)) = [([encode (Fin false (10 ^ 33 + 2 * 10 ^ 16) 1)], F_INX)].
Proof. vm_compute. split; reflexivity. Qed.

Example C02_fma_single_rounding_differs_up :
  m_fma RUP wX wX (encode (Fin false 5 0)) = [([encode (Fin false (10 ^ 33 + 2 * 10 ^ 16 + 1) 1)], F_INX)] /\
  mul_then_add RUP wX wX (encode (Fin false 5 0)) = [([encode (Fin false (10 ^ 33 + 2 * 10 ^ 16 + 2) 1)], F_INX)].
Proof. vm_compute. split; reflexivity. Qed.

Example C02_fma_single_rounding_differs_cancel :
  m_fma RNE wX wX (encode (Fin true (10 ^ 33 + 2 * 10 ^ 16) 1)) = [([encode (Fin false 1 0)], 0)] /\
  mul_then_add RNE wX wX (encode (Fin true (10 ^ 33 + 2 * 10 ^ 16) 1)) = [([encode (Fin false 0 1)], F_INX)].
Proof. vm_compute. split; reflexivity. Qed.

Theorem C02_double_rounding_rejected :
  let x := wX in let z := encode (Fin false 5 0) in
  ~ finite_result RNE (D2R (decode x) * D2R (decode x) + D2R (decode z)) (Z.min (0 + 0) 0)
      (zs_add RNE (xorb false false) false) (mul_then_add RNE x x z).
Proof. exact double_rounding_rejected. Qed.
Print Assumptions C02_double_rounding_rejected.

(* ---------- infinities and invalid operations ---------- *)
Theorem C02_fma_specials : forall md x y z,
  is_nan (decode x) = false -> is_nan (decode y) = false -> is_nan (decode z) = false ->
  let sp := xorb (sign_of (decode x)) (sign_of (decode y)) in
  (is_inf (decode x) || is_inf (decode y) = true ->
     m_fma md x y z = if is_zero (decode x) || is_zero (decode y) then invalid_out
                      else match decode z with
                           | Inf sz => if Bool.eqb sz sp then out1 (Inf sp) 0 else invalid_out
                           | _ => out1 (Inf sp) 0 end) /\
  (is_inf (decode x) || is_inf (decode y) = false -> forall sz, decode z = Inf sz -> m_fma md x y z = out1 (Inf sz) 0).
Proof. exact fma_specials. Qed.
Print Assumptions C02_fma_specials.

(* 0 * Inf (either order) is invalid whatever the non-NaN addend *)
Theorem C02_fma_zero_times_inf : forall md x y z,
  is_nan (decode z) = false ->
  (is_zero (decode x) = true /\ is_inf (decode y) = true) \/ (is_inf (decode x) = true /\ is_zero (decode y) = true) ->
  m_fma md x y z = invalid_out.
Proof. exact fma_zero_times_inf. Qed.
Print Assumptions C02_fma_zero_times_inf.

(* an infinite product plus an infinite addend: that infinity if the signs agree, invalid (Inf - Inf) otherwise *)
Theorem C02_fma_inf_product_inf_addend : forall md x y z sz,
  is_nan (decode x) = false -> is_nan (decode y) = false ->
  is_inf (decode x) || is_inf (decode y) = true -> is_zero (decode x) || is_zero (decode y) = false ->
  decode z = Inf sz ->
  let sp := xorb (sign_of (decode x)) (sign_of (decode y)) in
  m_fma md x y z = if Bool.eqb sz sp then out1 (Inf sp) 0 else invalid_out.
Proof. exact fma_inf_product_inf_addend. Qed.
Print Assumptions C02_fma_inf_product_inf_addend.

Theorem C02_fma_nan_operands : forall md x y z,
  is_nan (decode x) || is_nan (decode y) || is_nan (decode z) = true ->
  m_fma md x y z = nan_outcomes [decode x; decode y; decode z].
Proof. exact (fun md x y z => proj2 (proj2 (proj2 (proj2 (proj2 (arith_nan_operands md x y z)))))). Qed.
Print Assumptions C02_fma_nan_operands.

Example C02_specials_witness :
  (* +0 * +Inf + 1 : invalid, canonical quiet NaN *)
  m_fma RNE (encode (Fin false 0 0)) (encode (Inf false)) (encode (Fin false 1 0)) = [([encode QNAN], F_INV)] /\
  (* -Inf * 0E+5 + -Inf : invalid *)
  m_fma RNE (encode (Inf true)) (encode (Fin false 0 5)) (encode (Inf true)) = [([encode QNAN], F_INV)] /\
  (* +Inf * -2 + +Inf : Inf - Inf, invalid *)
  m_fma RNE (encode (Inf false)) (encode (Fin true 2 0)) (encode (Inf false)) = [([encode QNAN], F_INV)] /\
  (* +Inf * -2 + -Inf = -Inf *)
  m_fma RNE (encode (Inf false)) (encode (Fin true 2 0)) (encode (Inf true)) = [([encode (Inf true)], 0)] /\
  (* +Inf * -2 + 5 = -Inf *)
  m_fma RNE (encode (Inf false)) (encode (Fin true 2 0)) (encode (Fin false 5 0)) = [([encode (Inf true)], 0)] /\
  (* 2 * 3 + -Inf = -Inf *)
  m_fma RNE (encode (Fin false 2 0)) (encode (Fin false 3 0)) (encode (Inf true)) = [([encode (Inf true)], 0)] /\
  (* 0 * Inf + qNaN(9): the NaN is propagated, no invalid *)
  m_fma RNE (encode (Fin false 0 0)) (encode (Inf false)) (encode (NaN false false 9)) = [([encode (NaN false false 9)], 0)].
Proof. vm_compute. repeat split; reflexivity. Qed.

(* ---------- agreement with multiplication ---------- *)
Theorem C02_fma_mul_agree : forall md x y z sx cx qx sy cy qy sz qz,
  decode x = Fin sx cx qx -> decode y = Fin sy cy qy -> decode z = Fin sz 0 qz ->
  cx <> 0 -> cy <> 0 -> qx + qy <= qz ->
  m_fma md x y z = m_mul md x y.
Proof. exact fma_mul_agree. Qed.
Print Assumptions C02_fma_mul_agree.

(* hypotheses satisfiable: 3E-2 * 7E+1 + (-0E+5) = 21E-1; and a rounded product (10^17+1)^2 + 0E+0 *)
Example C02_fma_mul_agree_witness :
  m_fma RNE (encode (Fin false 3 (-2))) (encode (Fin false 7 1)) (encode (Fin true 0 5)) = [([encode (Fin false 21 (-1))], 0)] /\
  m_mul RNE (encode (Fin false 3 (-2))) (encode (Fin false 7 1)) = [([encode (Fin false 21 (-1))], 0)] /\
  m_fma RDN wX wX (encode (Fin false 0 0)) = [([encode (Fin false (10 ^ 33 + 2 * 10 ^ 16) 1)], F_INX)] /\
  m_mul RDN wX wX = [([encode (Fin false (10 ^ 33 + 2 * 10 ^ 16) 1)], F_INX)].
Proof. vm_compute. repeat split; reflexivity. Qed.

(* corner 1: zero addend of any (in particular smaller) exponent: one rounding of the same real number, the
   preferred exponents differ *)
Theorem C02_fma_mul_same_value : forall md x y z sx cx qx sy cy qy sz qz,
  0 <= x < P128 -> 0 <= y < P128 -> 0 <= z < P128 ->
  decode x = Fin sx cx qx -> decode y = Fin sy cy qy -> decode z = Fin sz 0 qz ->
  let v := (D2R (decode x) * D2R (decode y))%R in
  finite_result md v (Z.min (qx + qy) qz) (zs_add md (xorb sx sy) sz) (m_fma md x y z) /\
  finite_result md v (qx + qy) (xorb sx sy) (m_mul md x y).
Proof. exact fma_mul_same_value. Qed.
Print Assumptions C02_fma_mul_same_value.

Theorem C02_fma_mul_same_value_outputs : forall md x y z sx cx qx sy cy qy sz qz,
  0 <= x < P128 -> 0 <= y < P128 -> 0 <= z < P128 ->
  decode x = Fin sx cx qx -> decode y = Fin sy cy qy -> decode z = Fin sz 0 qz ->
  let v := (D2R (decode x) * D2R (decode y))%R in
  exists d d' fl,
    m_fma md x y z = [([encode d], flbits fl)] /\ m_mul md x y = [([encode d'], flbits fl)] /\
    (d = d' \/
     exists s c q s' c' q', d = Fin s c q /\ d' = Fin s' c' q' /\ D2R d = v /\ D2R d' = v /\ (v <> 0%R -> s = s')).
Proof. exact fma_mul_same_value_outputs. Qed.
Print Assumptions C02_fma_mul_same_value_outputs.

Example C02_corner_small_qz :   (* 1E+1 * 1E+0 + 0E-2 = 1000E-2, whereas 1E+1 * 1E+0 = 1E+1 *)
  m_fma RNE (encode (Fin false 1 1)) (encode (Fin false 1 0)) (encode (Fin false 0 (-2))) = [([encode (Fin false 1000 (-2))], 0)] /\
  m_mul RNE (encode (Fin false 1 1)) (encode (Fin false 1 0)) = [([encode (Fin false 1 1)], 0)].
Proof. vm_compute. split; reflexivity. Qed.

(* corner 2: zero product and zero addend *)
Theorem C02_fma_zero_product_zero_addend : forall md x y z sx cx qx sy cy qy sz qz,
  decode x = Fin sx cx qx -> decode y = Fin sy cy qy -> decode z = Fin sz 0 qz ->
  cx = 0 \/ cy = 0 ->
  m_fma md x y z = out1 (Fin (zs_add md (xorb sx sy) sz) 0 (clampq (Z.min (qx + qy) qz))) 0 /\
  m_mul md x y = out1 (Fin (xorb sx sy) 0 (clampq (qx + qy))) 0.
Proof. exact fma_zero_product_zero_addend. Qed.
Print Assumptions C02_fma_zero_product_zero_addend.

Example C02_corner_zero_product :   (* (-0) * (+1) + (+0): +0 except under roundTowardNegative; mul gives -0 *)
  let mz := encode (Fin true 0 0) in let one := encode (Fin false 1 0) in let pz := encode (Fin false 0 0) in
  m_fma RNE mz one pz = [([pz], 0)] /\ m_fma RUP mz one pz = [([pz], 0)] /\ m_fma RTZ mz one pz = [([pz], 0)] /\
  m_fma RNA mz one pz = [([pz], 0)] /\ m_fma RDN mz one pz = [([mz], 0)] /\
  m_mul RNE mz one = [([mz], 0)] /\ m_mul RDN mz one = [([mz], 0)].
Proof. vm_compute. repeat split; reflexivity. Qed.

(* ---------- agreement with addition ---------- *)
Theorem C02_fma_add_agree : forall md x y z, decode y = Fin false 1 0 -> m_fma md x y z = m_add md x z.
Proof. exact fma_add_agree. Qed.
Print Assumptions C02_fma_add_agree.

Theorem C02_fma_add_agree_one : forall md x z, m_fma md x (encode (Fin false 1 0)) z = m_add md x z.
Proof. exact fma_add_agree_one. Qed.
Print Assumptions C02_fma_add_agree_one.

Example C02_fma_add_agree_witness :   (* sNaN(7) * 1 + qNaN(9): either payload, quieted, with invalid - the same two outcomes *)
  let one := encode (Fin false 1 0) in
  m_fma RNE (encode (NaN false true 7)) one (encode (NaN true false 9)) =
    [([encode (NaN false false 7)], F_INV); ([encode (NaN true false 9)], F_INV)] /\
  m_add RNE (encode (NaN false true 7)) (encode (NaN true false 9)) =
    [([encode (NaN false false 7)], F_INV); ([encode (NaN true false 9)], F_INV)] /\
  m_fma RDN (encode (Fin false 1000 (-26))) one (encode (Fin true 45 (-58))) =
    [([encode (Fin false 9999999999999999999999999999999995 (-57))], F_INX)].
Proof. vm_compute. repeat split; reflexivity. Qed.

Example C02_one_needs_quantum_0 :   (* y = 10E-1 is numerically one but 1E+0 * 10E-1 + 0E+0 = 10E-1, while 1E+0 + 0E+0 = 1E+0 *)
  m_fma RNE (encode (Fin false 1 0)) (encode (Fin false 10 (-1))) (encode (Fin false 0 0)) = [([encode (Fin false 10 (-1))], 0)] /\
  m_add RNE (encode (Fin false 1 0)) (encode (Fin false 0 0)) = [([encode (Fin false 1 0)], 0)].
Proof. vm_compute. split; reflexivity. Qed.

(* ---------- totality of the model ---------- *)
Theorem C02_fma_total : forall md x y z, m_fma md x y z <> [].
Proof. exact fma_total. Qed.
Print Assumptions C02_fma_total.

Theorem C02_fma_single_outcome : forall md x y z,
  is_nan (decode x) || is_nan (decode y) || is_nan (decode z) = false -> exists o, m_fma md x y z = [o].
Proof. exact fma_single_outcome. Qed.
Print Assumptions C02_fma_single_outcome.
