(* C11 - Scaling by powers of ten and exponent extraction are exact.
   Property theorems only: each is closed by [exact <lemma of theories/ScaleProofs.v>] and followed by Print Assumptions.

   How the theorems cover the property text.
   * "scaleb, scalebln and ldexp return x*10^n ... otherwise the correctly rounded overflow or gradual-underflow result
     with the matching flags": the judge evaluates all three operations as [m_scaleb md x (sint w n)] (w = 32 for
     scaleb/ldexp, 64 for scalebln). C11_scaleb_spec: for every pattern x decoding to a finite non-zero datum, every
     mode and EVERY integer n, the accepted outcome is the single canonical encoding of a datum satisfying
     [ieee_result md (D2R x * 10^n) (q + n) s] (C01's specification: Flocq rounding of the exact real, overflow result
     by mode, preferred exponent q+n when exact / least exponent when inexact, inexact, underflow (tiny and inexact),
     overflow flags and nothing else).
   * "the same coefficient with the exponent moved by n whenever that is representable (padding with zeros when only
     the clamp requires it)": C11_scaleb_exact gives the outcome explicitly, with flag word 0: (1) q+n in
     [-6176, 6111]: Fin s c (q+n); (2) q+n > 6111 and c*10^(q+n-6111) < 10^34: Fin s (c*10^(q+n-6111)) 6111;
     (3) q+n > 6111 otherwise: the overflow result of the mode with overflow+inexact; (4) q+n < -6176 and the dropped
     digits are zeros: Fin s (c / 10^(-6176-(q+n))) (-6176), nothing raised. (All other q+n < -6176 are inexact
     gradual underflow, covered by C11_scaleb_spec.)
   * "zeros and special values keeping their identity": C11_scaleb_specials (zero: same sign, exponent clamped, no
     flag; infinity unchanged; NaN handed to the common NaN rule nan_outcomes, whose content is C12's theorem).
   * "n saturates rather than wraps": C11_scaleb_saturates: beyond +-20000 the outcome list does not depend on n;
     C11_scaleb_sat_i32: replacing n by its saturation to the i32 range (what scalebln does before calling scalbn)
     never changes the outcome, for every integer n; C11_sint_range: the two's complement readings used by the judge
     are in the i32 / i64 range, i.e. the model evaluates the operation at the true signed n (no wrap).
     These three are proved on the integers only (axiom-free).
   * "logb and log_b return the adjusted exponent (digits + exponent - 1) of any finite nonzero x exactly, with the
     standard's zero/infinity/NaN results and flags": C11_logb_exact (outcome = canonical integer-valued datum of
     value e = ndigits c + q - 1 at exponent 0, flag word 0; 10^e <= |x| < 10^(e+1), e = mag x - 1),
     C11_logb_specials (zero: -Inf with divide-by-zero; +-Inf: +Inf; NaN: nan_outcomes),
     C11_ilogb_exact (log_b/ilogb: e as a 32-bit pattern that reads back as e, no flag),
     C11_ilogb_specials (zero and NaN: i32::MIN with invalid, Inf: i32::MAX with invalid).
   * "frexp returns a fraction in [1/10, 1) and an exponent such that fraction*10^exp reconstructs x exactly":
     C11_frexp_reconstructs (finite non-zero x: fraction Fin s c (-ndigits c), well formed, same sign and coefficient;
     exponent q + ndigits c as an i32 pattern without wrapping; D2R frac * 10^exp = D2R x; 1/10 <= |frac| < 1; no flag).
   Not covered: frexp of zero / infinity / NaN - the model leaves these results open (m_frexp returns EAny: accepted
   without comparison), so nothing is stated about them. That the Rust functions scalebln / ldexp really are
   "saturate then scaleb" is the harness's business; here only that such a saturation is harmless. *)
From Coq Require Import ZArith Reals Bool List.
From Flocq Require Import Core.Core Calc.Bracket.
From DV Require Import Base RoundProofs Bid BidProofs Arith ArithProofs OpsArith OpsArithProofs OpsCmp OpsMisc ScaleProofs.
Import ListNotations.
Open Scope Z_scope.

(* ---------- scaleb / scalebln / ldexp ---------- *)
Theorem C11_scaleb_spec : forall md x n s c q,
  0 <= x < P128 -> decode x = Fin s c q -> c <> 0 ->
  finite_result md (D2R (decode x) * bpow radix10 n) (q + n) s (m_scaleb md x n).
Proof. exact m_scaleb_finite. Qed.
Print Assumptions C11_scaleb_spec.

Theorem C11_scaleb_exact : forall md x n s c q,
  0 <= x < P128 -> decode x = Fin s c q -> c <> 0 ->
  let e := q + n in
  (qmin <= e <= qmax -> m_scaleb md x n = out1 (Fin s c e) 0) /\
  (qmax < e -> c * 10 ^ (e - qmax) < 10 ^ 34 -> m_scaleb md x n = out1 (Fin s (c * 10 ^ (e - qmax)) qmax) 0) /\
  (qmax < e -> 10 ^ 34 <= c * 10 ^ (e - qmax) -> m_scaleb md x n = out1 (overflow_result md s) (F_OVF + F_INX)) /\
  (e < qmin -> c mod 10 ^ (qmin - e) = 0 -> m_scaleb md x n = out1 (Fin s (c / 10 ^ (qmin - e)) qmin) 0).
Proof. exact scaleb_exact. Qed.
Print Assumptions C11_scaleb_exact.

Theorem C11_scaleb_specials : forall md x n,
  (is_nan (decode x) = true -> m_scaleb md x n = nan_outcomes [decode x]) /\
  (forall s, decode x = Inf s -> m_scaleb md x n = out1 (Inf s) 0) /\
  (forall s q, decode x = Fin s 0 q -> m_scaleb md x n = out1 (Fin s 0 (clampq (q + n))) 0).
Proof. exact scaleb_specials. Qed.
Print Assumptions C11_scaleb_specials.

Theorem C11_scaleb_saturates : forall md x n n', 0 <= x < P128 ->
  (20000 <= n -> 20000 <= n' -> m_scaleb md x n = m_scaleb md x n') /\
  (n <= -20000 -> n' <= -20000 -> m_scaleb md x n = m_scaleb md x n').
Proof. exact scaleb_saturates. Qed.
Print Assumptions C11_scaleb_saturates.

Theorem C11_scaleb_sat_i32 : forall md x n, 0 <= x < P128 ->
  m_scaleb md x (Z.max (- 2 ^ 31) (Z.min (2 ^ 31 - 1) n)) = m_scaleb md x n.
Proof. exact scaleb_sat_i32. Qed.
Print Assumptions C11_scaleb_sat_i32.

Theorem C11_sint_range :
  (forall v, 0 <= v < 2 ^ 32 -> - 2 ^ 31 <= sint 32 v < 2 ^ 31) /\
  (forall v, 0 <= v < 2 ^ 64 -> - 2 ^ 63 <= sint 64 v < 2 ^ 63).
Proof. exact (conj sint32_range sint64_range). Qed.
Print Assumptions C11_sint_range.

(* ---------- logb / log_b ---------- *)
Theorem C11_logb_exact : forall x s c q, 0 <= x < P128 -> decode x = Fin s c q -> c <> 0 ->
  let e := ndigits c + q - 1 in
  m_logb x = out1 (Fin (e <? 0) (Z.abs e) 0) 0 /\
  wf (Fin (e <? 0) (Z.abs e) 0) /\
  D2R (Fin (e <? 0) (Z.abs e) 0) = IZR e /\
  (bpow radix10 e <= Rabs (D2R (decode x)) < bpow radix10 (e + 1))%R /\
  e = mag radix10 (D2R (decode x)) - 1.
Proof. exact logb_exact. Qed.
Print Assumptions C11_logb_exact.

Theorem C11_logb_specials : forall x,
  (is_nan (decode x) = true -> m_logb x = nan_outcomes [decode x]) /\
  (forall s, decode x = Inf s -> m_logb x = out1 (Inf false) 0) /\
  (forall s q, decode x = Fin s 0 q -> m_logb x = out1 (Inf true) F_DBZ).
Proof. exact logb_specials. Qed.
Print Assumptions C11_logb_specials.

Theorem C11_ilogb_exact : forall x s c q, 0 <= x < P128 -> decode x = Fin s c q -> c <> 0 ->
  let e := ndigits c + q - 1 in
  m_ilogb x = [([to_i32 e], 0)] /\ -6176 <= e <= 6144 /\ 0 <= to_i32 e < 2 ^ 32 /\ sint 32 (to_i32 e) = e.
Proof. exact ilogb_exact. Qed.
Print Assumptions C11_ilogb_exact.

Theorem C11_ilogb_specials : forall x,
  (is_nan (decode x) = true -> m_ilogb x = [([I32_MIN], F_INV)]) /\
  (forall s q, decode x = Fin s 0 q -> m_ilogb x = [([I32_MIN], F_INV)]) /\
  (forall s, decode x = Inf s -> m_ilogb x = [([I32_MAX], F_INV)]) /\
  sint 32 I32_MIN = - 2 ^ 31 /\ sint 32 I32_MAX = 2 ^ 31 - 1.
Proof. exact ilogb_specials. Qed.
Print Assumptions C11_ilogb_specials.

(* ---------- frexp ---------- *)
Theorem C11_frexp_reconstructs : forall x s c q, 0 <= x < P128 -> decode x = Fin s c q -> c <> 0 ->
  let frac := Fin s c (- ndigits c) in let ex := q + ndigits c in
  m_frexp x = EList [([encode frac; to_i32 ex], 0)] /\
  wf frac /\
  (D2R frac * bpow radix10 ex)%R = D2R (decode x) /\
  (/ 10 <= Rabs (D2R frac) < 1)%R /\
  -6175 <= ex <= 6145 /\ 0 <= to_i32 ex < 2 ^ 32 /\ sint 32 (to_i32 ex) = ex.
Proof. exact frexp_reconstructs. Qed.
Print Assumptions C11_frexp_reconstructs.

(* ---------- non-vacuity witnesses ---------- *)
(* in range: 123E+5 scaled by -7 is 123E-2, same coefficient *)
Example C11_w_inrange : m_scaleb RNE (encode (Fin false 123 5)) (-7) = [([encode (Fin false 123 (-2))], 0)].
Proof. vm_compute. reflexivity. Qed.
(* clamp padding: 123E+6100 * 10^20 = 123000000000E+6111, no flag *)
Example C11_w_clamp : m_scaleb RNE (encode (Fin true 123 6100)) 20 = [([encode (Fin true 123000000000 6111)], 0)].
Proof. vm_compute. reflexivity. Qed.
(* the pinned-tree defect input: -9.99999999999997E+6084 scaled by 60 is representable after padding 19 zeros *)
Example C11_w_defect :
  m_scaleb RNE (encode (Fin true 999999999999997 6070)) 60 =
  [([encode (Fin true (999999999999997 * 10 ^ 19) 6111)], 0)].
Proof. vm_compute. reflexivity. Qed.
(* overflow: one more power of ten *)
Example C11_w_overflow :
  m_scaleb RTZ (encode (Fin true 999999999999997 6070)) 61 = [([encode (Fin true MAXC qmax)], F_OVF + F_INX)] /\
  m_scaleb RNE (encode (Fin true 999999999999997 6070)) 61 = [([encode (Inf true)], F_OVF + F_INX)].
Proof. split; vm_compute; reflexivity. Qed.
(* exact at the bottom: 1200E-6170 * 10^-8 = 12E-6176, nothing raised; 1250E-6170 * 10^-9 = 1.25E-6176 rounds to 1E-6176 with underflow+inexact *)
Example C11_w_bottom :
  m_scaleb RNE (encode (Fin false 1200 (-6170))) (-8) = [([encode (Fin false 12 (-6176))], 0)] /\
  m_scaleb RNE (encode (Fin false 1250 (-6170))) (-9) = [([encode (Fin false 1 (-6176))], F_UNF + F_INX)].
Proof. split; vm_compute; reflexivity. Qed.
(* saturation: i64 extremes behave as +-20000 *)
Example C11_w_saturate :
  m_scaleb RNE (encode (Fin false 1 0)) (sint 64 (2 ^ 63)) = m_scaleb RNE (encode (Fin false 1 0)) (-20000) /\
  m_scaleb RNE (encode (Fin false 1 0)) (sint 64 (2 ^ 63 - 1)) = m_scaleb RNE (encode (Fin false 1 0)) 20000 /\
  sint 64 (2 ^ 63) = - 2 ^ 63 /\ sint 32 (2 ^ 32 - 1) = -1.
Proof. repeat split; vm_compute; reflexivity. Qed.
(* zero keeps sign, exponent clamped *)
Example C11_w_zero : m_scaleb RNE (encode (Fin true 0 6000)) 500 = [([encode (Fin true 0 6111)], 0)].
Proof. vm_compute. reflexivity. Qed.
(* logb(0.00123) = -3; logb(-MAX) = 6144; logb(-0) = -Inf with divide-by-zero; ilogb(0.00123) = -3 as i32 pattern *)
Example C11_w_logb :
  m_logb (encode (Fin false 123 (-5))) = [([encode (Fin true 3 0)], 0)] /\
  m_logb (encode (Fin true MAXC qmax)) = [([encode (Fin false 6144 0)], 0)] /\
  m_logb (encode (Fin true 0 3)) = [([encode (Inf true)], F_DBZ)] /\
  m_ilogb (encode (Fin false 123 (-5))) = [([2 ^ 32 - 3], 0)].
Proof. repeat split; vm_compute; reflexivity. Qed.
(* frexp(-123E-5) = (-0.123, -2) *)
Example C11_w_frexp :
  m_frexp (encode (Fin true 123 (-5))) = EList [([encode (Fin true 123 (-3)); 2 ^ 32 - 2], 0)].
Proof. vm_compute. reflexivity. Qed.
